import LibconfigModel.Containers
import LibconfigModel.Writer
import LibconfigModel.Flex
import LibconfigModel.Parser
/-
  Helper lemmas for property C03: container arithmetic (`Containers.lean`), the
  length bound of `formatDouble`, and the checkers that make the bounds of the
  generated flex / bison tables a kernel computation.
-/
namespace Libconfig.C03P

open Libconfig Libconfig.Containers

/-! ### rounding up to a multiple of the block size -/

theorem le_roundUp {B : Nat} (hB : 0 < B) (n : Nat) : n ≤ roundUp B n := by
  unfold roundUp
  have h1 := Nat.div_add_mod (n + (B - 1)) B
  have h2 := Nat.mod_lt (n + (B - 1)) hB
  rw [Nat.mul_comm ((n + (B - 1)) / B) B]
  omega

theorem roundUp_lt {B : Nat} (hB : 0 < B) (n : Nat) : roundUp B n < n + B := by
  unfold roundUp
  have h1 := Nat.div_add_mod (n + (B - 1)) B
  rw [Nat.mul_comm ((n + (B - 1)) / B) B]
  omega

theorem dvd_roundUp (B n : Nat) : B ∣ roundUp B n := Nat.dvd_mul_left _ _

theorem roundUp_mono {B a b : Nat} (h : a ≤ b) : roundUp B a ≤ roundUp B b := by
  unfold roundUp
  exact Nat.mul_le_mul_right _ (Nat.div_le_div_right (by omega))

/-- a multiple of `B` is its own rounding -/
theorem roundUp_of_dvd {B : Nat} (hB : 0 < B) {n : Nat} (h : B ∣ n) : roundUp B n = n := by
  obtain ⟨k, rfl⟩ := h
  unfold roundUp
  have : (B * k + (B - 1)) / B = k := by
    rw [Nat.div_eq_iff hB, Nat.mul_comm k B]; omega
  rw [this, Nat.mul_comm]

/-- the next multiple after a multiple -/
theorem roundUp_succ_of_dvd {B : Nat} (hB : 0 < B) {n : Nat} (h : B ∣ n) :
    roundUp B (n + 1) = n + B := by
  obtain ⟨k, rfl⟩ := h
  unfold roundUp
  have : (B * k + 1 + (B - 1)) / B = k + 1 := by
    rw [Nat.div_eq_iff hB, Nat.add_mul, Nat.mul_comm k B]; omega
  rw [this, Nat.add_mul, Nat.mul_comm k B]; omega

/-- inside a block the rounding does not move -/
theorem roundUp_succ_of_not_dvd {B : Nat} (hB : 0 < B) {n : Nat} (h : n % B ≠ 0) :
    roundUp B (n + 1) = roundUp B n := by
  unfold roundUp
  have h1 := Nat.div_add_mod n B
  have h2 := Nat.mod_lt n hB
  have e1 : (n + 1 + (B - 1)) / B = n / B + 1 := by
    rw [Nat.div_eq_iff hB, Nat.add_mul, Nat.mul_comm (n / B) B]; omega
  have e2 : (n + (B - 1)) / B = n / B + 1 := by
    rw [Nat.div_eq_iff hB, Nat.add_mul, Nat.mul_comm (n / B) B]; omega
  rw [e1, e2]

/-- For the block size 64 of strbuf.c the arithmetic rounding is the mask expression of the
source, `(newlen + 63) & ~(size_t)63`, as long as the sum does not wrap (`size_t` = 64 bits;
`~63 = 2^64 - 64`). -/
theorem roundUp_eq_mask (n : Nat) (h : n + 63 < 2 ^ 64) :
    roundUp 64 n = (n + 63) &&& (2 ^ 64 - 64) := by
  unfold roundUp
  show (n + 63) / 64 * 64 = (n + 63) &&& (2 ^ 64 - 64)
  generalize n + 63 = x at h
  have hm : (2 ^ 64 - 64 : Nat) = (2 ^ 58 - 1) <<< 6 := by decide
  have hl : x / 64 * 64 = (x >>> 6) <<< 6 := by
    rw [Nat.shiftLeft_eq, Nat.shiftRight_eq_div_pow]
  rw [hm, hl]
  apply Nat.eq_of_testBit_eq
  intro i
  rw [Nat.testBit_and, Nat.testBit_shiftLeft, Nat.testBit_shiftLeft, Nat.testBit_shiftRight,
    Nat.testBit_two_pow_sub_one]
  by_cases h6 : i ≥ 6
  · have e : 6 + (i - 6) = i := by omega
    rw [e]
    by_cases h64 : i < 64
    · have : i - 6 < 58 := by omega
      simp [h6, this]
    · have hx : x.testBit i = false :=
        Nat.testBit_lt_two_pow (Nat.lt_of_lt_of_le h (Nat.pow_le_pow_right (by decide) (by omega)))
      simp [hx]
  · simp [h6]

/-! ### strbuf -/

theorem StrBuf.ensure_length (B : Nat) (b : StrBuf) (len : Nat) : (b.ensure B len).length = b.length := by
  unfold StrBuf.ensure; extract_lets newlen; split <;> rfl

/-- after `ensure_capacity(buf, len)` there is room for `len` characters and a NUL -/
theorem StrBuf.ensure_room {B : Nat} (hB : 0 < B) (b : StrBuf) (len : Nat) :
    b.length + len + 1 ≤ (b.ensure B len).capacity := by
  unfold StrBuf.ensure; extract_lets newlen
  split
  · exact le_roundUp hB _
  · simp only [newlen] at *; omega

/-- `ensure_capacity` never shrinks the buffer -/
theorem StrBuf.ensure_mono {B : Nat} (hB : 0 < B) (b : StrBuf) (len : Nat) :
    b.capacity ≤ (b.ensure B len).capacity := by
  unfold StrBuf.ensure; extract_lets newlen
  split
  · rename_i h; exact Nat.le_trans (Nat.le_of_lt h) (le_roundUp hB _)
  · exact Nat.le_refl _

theorem StrBuf.ensure_blocks {B : Nat} (b : StrBuf) (len : Nat) (h : B ∣ b.capacity) :
    B ∣ (b.ensure B len).capacity := by
  unfold StrBuf.ensure; extract_lets newlen
  split
  · exact dvd_roundUp _ _
  · exact h

/-- `ensure_capacity` allocates less than one block more than needed -/
theorem StrBuf.ensure_tight {B : Nat} (hB : 0 < B) (b : StrBuf) (len : Nat) :
    (b.ensure B len).capacity = b.capacity ∨ (b.ensure B len).capacity < b.length + len + 1 + B := by
  unfold StrBuf.ensure; extract_lets newlen
  split
  · exact .inr (roundUp_lt hB _)
  · exact .inl rfl

theorem StrBuf.grown_length (B : Nat) (b : StrBuf) (op : StrBufOp) : (b.grown B op).length = b.length := by
  cases op <;> simp only [StrBuf.grown, StrBuf.ensure_length]

/-- every store of an append lies inside the allocation -/
theorem StrBuf.stores_in_bounds {B : Nat} (hB : 0 < B) (b : StrBuf) (op : StrBufOp)
    (hinv : StrBuf.Inv B b) : b.length + op.stores ≤ (b.grown B op).capacity := by
  cases op with
  | appendString len => exact StrBuf.ensure_room hB b len
  | appendChar => exact StrBuf.ensure_room hB b 1
  | release =>
    simp only [StrBufOp.stores, StrBuf.grown]
    rcases hinv.nul with h | h <;> omega

theorem StrBuf.inv_init (B : Nat) : StrBuf.Inv B {} := ⟨.inl ⟨rfl, rfl⟩, Nat.dvd_zero _⟩

theorem StrBuf.inv_step {B : Nat} (hB : 0 < B) (b : StrBuf) (op : StrBufOp) (h : StrBuf.Inv B b) :
    StrBuf.Inv B (b.step B op) := by
  cases op with
  | appendString len =>
    refine ⟨.inr ?_, StrBuf.ensure_blocks b len h.blocks⟩
    exact StrBuf.ensure_room hB b len
  | appendChar =>
    refine ⟨.inr ?_, StrBuf.ensure_blocks b 1 h.blocks⟩
    exact StrBuf.ensure_room hB b 1
  | release => exact StrBuf.inv_init B

theorem foldl_inv {σ α : Type} (I : σ → Prop) (f : σ → α → σ) (hstep : ∀ s a, I s → I (f s a)) :
    ∀ (ops : List α) (s : σ), I s → I (ops.foldl f s)
  | [], _, h => h
  | a :: as, s, h => foldl_inv I f hstep as (f s a) (hstep s a h)

theorem StrBuf.inv_run {B : Nat} (hB : 0 < B) (ops : List StrBufOp) : StrBuf.Inv B (StrBuf.run B ops) :=
  foldl_inv _ _ (fun s a => StrBuf.inv_step hB s a) ops {} (StrBuf.inv_init B)

/-! ### strvec -/

theorem StrVec.inv_init : StrVec.Inv {} := ⟨Nat.le_refl _, rfl, .inl ⟨rfl, rfl⟩⟩

/-- after the reallocation branch the store at `end` is inside the allocation, `end` points at
slot `length`, and one more slot (for the final NULL of `release`) remains -/
theorem StrVec.grown_spec {C : Nat} (hC : 0 < C) (v : StrVec) (h : StrVec.Inv v) :
    (v.grown C).endIdx = v.length ∧ (v.grown C).length = v.length ∧
    v.length < (v.grown C).capacity ∧ (v.grown C).slots = (v.grown C).capacity + 1 := by
  unfold StrVec.grown
  split
  · rename_i heq
    have : v.length = v.capacity := by simpa using heq
    refine ⟨rfl, rfl, ?_, rfl⟩
    show v.length < v.capacity + C
    omega
  · rename_i hne
    have hne' : v.length ≠ v.capacity := by simpa using hne
    have hlt : v.length < v.capacity := Nat.lt_of_le_of_ne h.le hne'
    refine ⟨h.endAt, rfl, hlt, ?_⟩
    rcases h.alloc with ⟨_, h0⟩ | h1
    · omega
    · exact h1

theorem StrVec.inv_step {C : Nat} (hC : 0 < C) (v : StrVec) (op : StrVecOp) (h : StrVec.Inv v) :
    StrVec.Inv (v.step C op) := by
  cases op with
  | release => exact StrVec.inv_init
  | append =>
    obtain ⟨h1, h2, h3, h4⟩ := StrVec.grown_spec hC v h
    refine ⟨?_, ?_, .inr ?_⟩
    · show (v.grown C).length + 1 ≤ (v.grown C).capacity
      omega
    · show (v.grown C).endIdx + 1 = (v.grown C).length + 1
      omega
    · exact h4

theorem StrVec.inv_run {C : Nat} (hC : 0 < C) (ops : List StrVecOp) : StrVec.Inv (StrVec.run C ops) :=
  foldl_inv _ _ (fun s a => StrVec.inv_step hC s a) ops {} StrVec.inv_init

/-! ### child vectors -/

theorem ChildVec.inv_init (C : Nat) : ChildVec.Inv C {} := by
  show roundUp C 0 ≤ 0
  unfold roundUp
  by_cases hC : C = 0
  · subst hC; simp
  · have : (0 + (C - 1)) / C = 0 := by
      rw [Nat.div_eq_iff (by omega)]; omega
    rw [this]; simp

/-- the allocation `__config_list_add` stores into covers `length + 1` rounded up -/
theorem ChildVec.grown_spec {C : Nat} (hC : 0 < C) (v : ChildVec) (h : ChildVec.Inv C v) :
    roundUp C (v.length + 1) ≤ (v.grown C).alloc := by
  unfold ChildVec.grown
  split
  · rename_i heq
    have hd : C ∣ v.length := Nat.dvd_of_mod_eq_zero (by simpa using heq)
    rw [roundUp_succ_of_dvd hC hd]
    exact Nat.le_refl _
  · rename_i hne
    have : v.length % C ≠ 0 := by simpa using hne
    rw [roundUp_succ_of_not_dvd hC this]
    exact h

/-- the store `elements[length] = setting` is inside the allocation -/
theorem ChildVec.add_in_bounds {C : Nat} (hC : 0 < C) (v : ChildVec) (h : ChildVec.Inv C v) :
    v.length < (v.grown C).alloc :=
  Nat.lt_of_lt_of_le (Nat.lt_of_lt_of_le (Nat.lt_succ_self _) (le_roundUp hC _)) (ChildVec.grown_spec hC v h)

/-- all `length` elements (what `memmove` in `__config_list_remove` and every index loop
touch) are inside the allocation -/
theorem ChildVec.length_le_alloc {C : Nat} (hC : 0 < C) (v : ChildVec) (h : ChildVec.Inv C v) :
    v.length ≤ v.alloc := Nat.le_trans (le_roundUp hC _) h

theorem ChildVec.inv_step {C : Nat} (hC : 0 < C) (v : ChildVec) (op : ChildOp) (h : ChildVec.Inv C v) :
    ChildVec.Inv C (v.step C op) := by
  cases op with
  | add => exact ChildVec.grown_spec hC v h
  | remove idx =>
    show ChildVec.Inv C (v.remove idx)
    unfold ChildVec.remove
    split
    · exact Nat.le_trans (roundUp_mono (Nat.sub_le _ _)) h
    · exact h

theorem ChildVec.inv_run {C : Nat} (hC : 0 < C) (ops : List ChildOp) : ChildVec.Inv C (ChildVec.run C ops) :=
  foldl_inv _ _ (fun s a => ChildVec.inv_step hC s a) ops {} (ChildVec.inv_init C)

/-! ### `libconfig_format_double` -/

theorem length_stripZeros_le (ds : Bytes) : (F64.stripZeros ds).length ≤ ds.length := by
  unfold F64.stripZeros
  rw [List.length_reverse]
  have h := (List.dropWhile_sublist (fun x => x == 48) (l := ds.reverse)).length_le
  rw [List.length_reverse] at h
  exact h

/-- the text produced is never longer than what `snprintf(buf, buflen - 3, …)` may store plus
the two characters `.0` that `strcat` may add -/
theorem formatDouble_length (bufLen b p : Nat) (sci : Bool) :
    (formatDouble bufLen b p sci).length ≤ bufLen - 4 + 2 := by
  unfold formatDouble
  extract_lets raw0 raw s ip fp
  have hs : s.length ≤ bufLen - 4 := List.length_take_le _ _
  clear_value s
  split
  · omega
  · split
    · rw [List.length_append]; simp only [List.length_cons, List.length_nil]; omega
    · have hsplit : ip.length + (s.dropWhile (· != 46)).length = s.length := by
        have := congrArg List.length (List.takeWhile_append_dropWhile (p := (· != 46)) (l := s))
        rw [List.length_append] at this
        exact this
      have hfp : fp.length ≤ (s.dropWhile (· != 46)).length - 1 := by
        simp only [fp, List.length_drop]; omega
      clear_value fp ip
      cases fp with
      | nil => simp only; omega
      | cons d ds =>
        have h3 := length_stripZeros_le ds
        simp only [List.length_append, List.length_cons, List.length_nil] at hfp ⊢
        omega

end Libconfig.C03P
