import LibconfigModel.Proofs.C11
/-
  Property C11, tree part: after a read, every setting whose source file is recorded
  (`config_setting_source_file`) names a string of the configuration's file-name vector
  (`config->filenames`), i.e. a string that lives as long as the configuration.
-/
namespace Libconfig.C11T

open Libconfig Libconfig.C09P Libconfig.C16P Libconfig.C11P

/-- every setting of the tree whose source file is recorded names a string of `names` -/
def FilesIn (names : List Bytes) (n : Node) : Prop :=
  ∀ (path : Path) (m : Node), n.get? path = some m → ∀ p, m.file = some p → p ∈ names

/-! ### structure of `FilesIn` -/

theorem filesIn_iff (names : List Bytes) (n : Node) :
    FilesIn names n ↔ (∀ p, n.file = some p → p ∈ names) ∧ ∀ k ∈ n.kids, FilesIn names k := by
  constructor
  · intro h
    refine ⟨fun p hp => h [] n (get?_nil n) p hp, fun k hk path m hm p hp => ?_⟩
    obtain ⟨i, hi⟩ := List.mem_iff_getElem?.mp hk
    refine h (i :: path) m ?_ p hp
    rw [Node.get?, hi]
    exact hm
  · intro h path
    cases path with
    | nil =>
      intro m hm p hp
      rw [get?_nil] at hm
      cases hm
      exact h.1 p hp
    | cons i path =>
      intro m hm p hp
      rw [Node.get?] at hm
      split at hm
      · rename_i k hk
        exact h.2 k (List.mem_of_getElem? hk) path m hm p hp
      · cases hm

theorem filesIn_mono {names names' : List Bytes} {n : Node} (hm : ∀ p ∈ names, p ∈ names')
    (h : FilesIn names n) : FilesIn names' n :=
  fun path m hmn p hp => hm p (h path m hmn p hp)

/-- the sub-tree at a path -/
theorem filesIn_get {names : List Bytes} :
    ∀ (path : Path) (n m : Node), FilesIn names n → n.get? path = some m → FilesIn names m
  | [], n, m, h, hm => by rw [get?_nil] at hm; cases hm; exact h
  | i :: path, n, m, h, hm => by
    rw [Node.get?] at hm
    split at hm
    · rename_i k hk
      exact filesIn_get path k m (((filesIn_iff names n).mp h).2 k (List.mem_of_getElem? hk)) hm
    · cases hm

/-- a node with the same children whose own file is fine -/
theorem filesIn_congr {names : List Bytes} {n n' : Node} (hk : n'.kids = n.kids)
    (hf : ∀ p, n'.file = some p → p ∈ names) (h : FilesIn names n) : FilesIn names n' := by
  rw [filesIn_iff] at h ⊢
  exact ⟨hf, hk ▸ h.2⟩

theorem filesIn_keep {names : List Bytes} {n n' : Node} (hk : n'.kids = n.kids)
    (hf : n'.file = n.file) (h : FilesIn names n) : FilesIn names n' :=
  filesIn_congr hk (fun p hp => ((filesIn_iff names n).mp h).1 p (hf ▸ hp)) h

theorem filesIn_setKids {names : List Bytes} (n : Node) (ks : List Node) (h : FilesIn names n)
    (hks : ∀ k ∈ ks, FilesIn names k) : FilesIn names { n with kids := ks } := by
  rw [filesIn_iff] at h ⊢
  exact ⟨h.1, hks⟩

theorem filesIn_fresh (names : List Bytes) (name : Option Bytes) (ty : Nat) :
    FilesIn names { name := name, ty := ty } := by
  rw [filesIn_iff]
  exact ⟨fun p hp => (by cases hp), fun k hk => (by cases hk)⟩

/-! ### `Node.modify` -/

theorem modify_files {names : List Bytes} (f : Node → Node) :
    ∀ (p : Path) (root : Node), FilesIn names root →
      (∀ n, root.get? p = some n → FilesIn names (f n)) → FilesIn names (root.modify f p)
  | [], root, _, hf => by
    rw [modify_nil]; exact hf root (get?_nil root)
  | i :: p, root, h, hf => by
    rw [Node.modify]
    split
    · rename_i k hk
      have hkids := ((filesIn_iff names root).mp h).2
      have ih := modify_files f p k (hkids k (List.mem_of_getElem? hk)) (fun n hn => hf n (by
        rw [Node.get?, hk]; exact hn))
      refine filesIn_setKids root _ h (fun x hx => ?_)
      rcases List.mem_or_eq_of_mem_set hx with hx | hx
      · exact hkids x hx
      · subst hx; exact ih
    · exact h

/-- replacing the node at `p` by one that is fine -/
theorem modify_at {names : List Bytes} (p : Path) (root n' : Node) (h : FilesIn names root)
    (h' : FilesIn names n') : FilesIn names (root.modify (fun _ => n') p) :=
  modify_files _ p root h (fun _ _ => h')

/-- applying a function that keeps every fine node fine -/
theorem modify_all {names : List Bytes} (f : Node → Node) (p : Path) (root : Node)
    (h : FilesIn names root) (hf : ∀ n, FilesIn names n → FilesIn names (f n)) :
    FilesIn names (root.modify f p) :=
  modify_files f p root h (fun n hn => hf n (filesIn_get p root n h hn))

/-! ### node-level operations -/

theorem create_files {names : List Bytes} (parent p' : Node) (name : Option Bytes) (ty : Nat)
    (h : parent.create name ty = some p') (hp : FilesIn names parent) : FilesIn names p' := by
  unfold Node.create at h
  split at h
  · cases h
  · cases h
    refine filesIn_setKids parent _ hp (fun k hk => ?_)
    rcases List.mem_append.mp hk with hk | hk
    · exact ((filesIn_iff names parent).mp hp).2 k hk
    · simp only [List.mem_singleton] at hk
      subst hk
      exact filesIn_fresh names name ty

theorem remove_files {names : List Bytes} (d : Bool) (parent n' : Node) (name : Option Bytes)
    (log : List Nat) (h : parent.remove d name = some (n', log)) (hp : FilesIn names parent) :
    FilesIn names n' := by
  unfold Node.remove at h
  repeat' split at h
  all_goals try cases h
  simp only at h
  repeat' split at h
  all_goals try cases h
  refine modify_all _ _ parent hp (fun s hs => ?_)
  exact filesIn_setKids s _ hs
    (fun k hk => ((filesIn_iff names s).mp hs).2 k (List.mem_of_mem_eraseIdx hk))

theorem add_files {names : List Bytes} (d ov : Bool) (parent n' : Node) (name : Option Bytes)
    (ty : Int) (i : Nat) (log : List Nat) (h : parent.add d ov name ty = some (n', i, log))
    (hp : FilesIn names parent) : FilesIn names n' := by
  unfold Node.add at h
  iterate 3 (split at h; · cases h)
  generalize (if (parent.ty == T_ARRAY || parent.ty == T_LIST) = true then none else name) = name0 at h
  simp only at h
  cases name0 <;> simp only at h <;>
  · split at h
    · cases h
    split at h
    · cases h
    split at h
    · cases h
    rename_i p'' hc
    simp only [Option.some.injEq, Prod.mk.injEq] at h
    obtain ⟨rfl, -, -⟩ := h
    refine create_files _ _ _ _ hc ?_
    split
    · split
      · rename_i p' l h
        exact remove_files d parent p' _ l h hp
      · exact hp
    · exact hp

/-- the setter keeps the children and the source file of the node it is applied to -/
def KeepsF (f : Node → Option Node) : Prop :=
  ∀ n n', f n = some n' → n'.kids = n.kids ∧ n'.file = n.file

theorem KeepsF.files {f : Node → Option Node} (hf : KeepsF f) {names : List Bytes} {n n' : Node}
    (h : f n = some n') (hn : FilesIn names n) : FilesIn names n' :=
  filesIn_keep (hf n n' h).1 (hf n n' h).2 hn

theorem KeepsF.getD {f : Node → Option Node} (hf : KeepsF f) {names : List Bytes} (n : Node)
    (hn : FilesIn names n) : FilesIn names ((f n).getD n) := by
  cases h : f n with
  | none => exact hn
  | some n' => exact hf.files h hn

theorem keepsF_setInt (auto : Bool) (v : Int) : KeepsF (fun n => n.setInt auto v) := by
  intro n n' h
  simp only [Node.setInt] at h
  repeat' split at h
  all_goals first | (cases h; exact ⟨rfl, rfl⟩) | cases h

theorem keepsF_setInt64 (auto : Bool) (v : Int) : KeepsF (fun n => n.setInt64 auto v) := by
  intro n n' h
  simp only [Node.setInt64] at h
  repeat' split at h
  all_goals first | (cases h; exact ⟨rfl, rfl⟩) | cases h

theorem keepsF_setFloat (auto : Bool) (b : Nat) : KeepsF (fun n => n.setFloat auto b) := by
  intro n n' h
  simp only [Node.setFloat] at h
  repeat' split at h
  all_goals first | (cases h; exact ⟨rfl, rfl⟩) | cases h

theorem keepsF_setBool (v : Int) : KeepsF (fun n => n.setBool v) := by
  intro n n' h
  simp only [Node.setBool] at h
  repeat' split at h
  all_goals first | (cases h; exact ⟨rfl, rfl⟩) | cases h

theorem keepsF_setString (v : Option Bytes) : KeepsF (fun n => n.setString v) := by
  intro n n' h
  simp only [Node.setString] at h
  repeat' split at h
  all_goals first | (cases h; exact ⟨rfl, rfl⟩) | cases h

theorem keepsF_setFormat (f : Nat) : KeepsF (fun n => n.setFormat f) := by
  intro n n' h
  simp only [Node.setFormat] at h
  repeat' split at h
  all_goals first | (cases h; exact ⟨rfl, rfl⟩) | cases h

theorem setKid_files {names : List Bytes} (n k' : Node) (i : Nat) (hn : FilesIn names n)
    (hk : FilesIn names k') : FilesIn names { n with kids := n.kids.set i k' } := by
  refine filesIn_setKids n _ hn (fun x hx => ?_)
  rcases List.mem_or_eq_of_mem_set hx with hx | hx
  · exact ((filesIn_iff names n).mp hn).2 x hx
  · subst hx; exact hk

theorem setElem_files {names : List Bytes} {setter : Node → Option Node} (hs : KeepsF setter)
    (ty : Nat) (n n' : Node) (idx : Int) (i : Nat) (h : n.setElem setter ty idx = some (n', i))
    (hn : FilesIn names n) : FilesIn names n' := by
  unfold Node.setElem at h
  split at h
  · cases h
  split at h
  · split at h
    · cases h
    split at h
    · cases h
    rename_i n1 hc
    simp only at h
    split at h
    · cases h
    rename_i e he
    split at h
    · cases h
    rename_i e' hse
    simp only [Option.some.injEq, Prod.mk.injEq] at h
    obtain ⟨rfl, -⟩ := h
    have h1 : FilesIn names n1 := create_files n n1 _ _ hc hn
    exact setKid_files n1 e' _ h1
      (hs.files hse (((filesIn_iff names n1).mp h1).2 e (List.mem_of_getElem? he)))
  · split at h
    · cases h
    rename_i e he
    have he' : n.kids[idx.toNat]? = some e := by
      unfold getElem at he
      split at he
      · exact he
      · cases he
    split at h
    · cases h
    rename_i e' hse
    simp only [Option.some.injEq, Prod.mk.injEq] at h
    obtain ⟨rfl, -⟩ := h
    exact setKid_files n e' _ hn
      (hs.files hse (((filesIn_iff names n).mp hn).2 e (List.mem_of_getElem? he')))

/-! ### the semantic actions -/

/-- the tree of a parse context is fine -/
def CtxOk (names : List Bytes) (c : ParseCtx) : Prop := FilesIn names c.cfg.root

/-- a file name handed to `CAPTURE_PARSE_POS` is recorded -/
def FileOk (names : List Bytes) (file : Option Bytes) : Prop := ∀ p, file = some p → p ∈ names

theorem ok_yyerror {names : List Bytes} (c : ParseCtx) (line : Nat) (text : Bytes)
    (h : CtxOk names c) : CtxOk names (c.yyerror line text) := by
  unfold ParseCtx.yyerror
  split
  · exact h
  · exact h

theorem ok_modify_at {names : List Bytes} (c : ParseCtx) (p : Path) (n' : Node)
    (h : CtxOk names c) (h' : FilesIn names n') : CtxOk names (c.modify p (fun _ => n')) :=
  modify_at p c.cfg.root n' h h'

theorem ok_modify_all {names : List Bytes} (c : ParseCtx) (p : Path) (f : Node → Node)
    (h : CtxOk names c) (hf : ∀ n, FilesIn names n → FilesIn names (f n)) :
    CtxOk names (c.modify p f) :=
  modify_all f p c.cfg.root h hf

theorem ok_capture {names : List Bytes} (c : ParseCtx) (p : Path) (line : Nat) (file : Option Bytes)
    (hfile : FileOk names file) (h : CtxOk names c) : CtxOk names (c.capture p line file) :=
  ok_modify_all c p _ h (fun n hn => filesIn_congr (n := n) rfl hfile hn)

theorem ok_actAggStart {names : List Bytes} (c : ParseCtx) (ty line : Nat) (file : Option Bytes)
    (hfile : FileOk names file) (h : CtxOk names c) :
    CtxOk names (actCtx (actAggStart c ty line file)) := by
  unfold actAggStart
  split
  · split
    · rename_i pp pn hpp hpn
      have hn := nodeAt_some hpp hpn
      have hpnf : FilesIn names pn := filesIn_get pp _ pn h hn
      split
      · rename_i pn' i log hadd
        simp only [actCtx]
        refine ok_capture _ _ _ _ hfile ?_
        exact ok_modify_at c pp pn' h (add_files _ _ pn pn' _ _ i log hadd hpnf)
      · exact h
    · exact h
  · split
    · rename_i sp _
      split
      · simp only [actCtx]
        exact ok_modify_all c sp _ h (fun n hn => filesIn_keep (n := n) rfl rfl hn)
      · exact h
    · exact h

theorem ok_actValue {names : List Bytes} (c : ParseCtx) {setter : Node → Option Node}
    (hs : KeepsF setter) (ty : Nat) (fmt : Option Nat) (line : Nat) (file : Option Bytes)
    (err : Bytes) (hfile : FileOk names file) (h : CtxOk names c) :
    CtxOk names (actCtx (actValue c setter ty fmt line file err)) := by
  unfold actValue
  extract_lets setFmt
  have hsf : ∀ n : Node, FilesIn names n → FilesIn names (setFmt n) := by
    intro n hn
    simp only [setFmt]
    split
    · exact (keepsF_setFormat _).getD n hn
    · exact hn
  clear_value setFmt
  split
  · split
    · rename_i pp pn hpp hpn
      have hn := nodeAt_some hpp hpn
      have hpnf : FilesIn names pn := filesIn_get pp _ pn h hn
      split
      · exact ok_yyerror _ _ _ h
      · rename_i pn' i hse
        simp only [actCtx]
        refine ok_capture _ _ _ _ hfile ?_
        refine ok_modify_all _ _ setFmt ?_ hsf
        exact ok_modify_at c pp pn' h (setElem_files hs ty pn pn' _ i hse hpnf)
    · exact h
  · split
    · rename_i sp _
      split
      · simp only [actCtx]
        exact ok_modify_all c sp _ h (fun n hn => hsf _ (hs.getD n hn))
      · exact h
    · exact h

theorem ok_runAction {names : List Bytes} (act : ParseAct) (c : ParseCtx) (v : TokVal) (line : Nat)
    (file : Option Bytes) (hfile : FileOk names file) (h : CtxOk names c) :
    CtxOk names (actCtx (runAction act c v line file)) := by
  cases act <;> simp only [runAction]
  case none => exact h
  case unknown => exact h
  case arrayStart => exact ok_actAggStart _ _ _ _ hfile h
  case listStart => exact ok_actAggStart _ _ _ _ hfile h
  case groupStart => exact ok_actAggStart _ _ _ _ hfile h
  case valBool => exact ok_actValue _ (keepsF_setBool _) _ _ _ _ _ hfile h
  case valInt => exact ok_actValue _ (keepsF_setInt _ _) _ _ _ _ _ hfile h
  case valHex => exact ok_actValue _ (keepsF_setInt _ _) _ _ _ _ _ hfile h
  case valInt64 => exact ok_actValue _ (keepsF_setInt64 _ _) _ _ _ _ _ hfile h
  case valHex64 => exact ok_actValue _ (keepsF_setInt64 _ _) _ _ _ _ _ hfile h
  case valFloat => exact ok_actValue _ (keepsF_setFloat _ _) _ _ _ _ _ hfile h
  case stringFirst => exact h
  case stringNext => exact h
  case valString =>
    have h1 : CtxOk names { c with str := none } := h
    exact ok_actValue _ (keepsF_setString _) _ _ _ _ _ hfile h1
  case aggEnd =>
    split
    · exact h
    · exact h
    · exact h
  case settingName =>
    have habort : CtxOk names (({ c with setting := none } : ParseCtx).yyerror line
        Generated.ERR_DUPLICATE_SETTING) :=
      ok_yyerror (names := names) { c with setting := none } _ _ h
    split
    · rename_i pp pn hpp hpn
      have hn := nodeAt_some hpp hpn
      have hpnf : FilesIn names pn := filesIn_get pp _ pn h hn
      split
      · rename_i pn' i log hadd
        simp only [actCtx]
        refine ok_capture _ _ _ _ hfile ?_
        exact ok_modify_at c pp pn' h (add_files _ _ pn pn' _ _ i log hadd hpnf)
      · exact habort
    · exact habort

/-! ### the joint invariant through the parser loop -/

/-- the scanner's names invariant together with "every source file of the tree is a
recorded name" -/
def KTree (s : ScanState) (c : ParseCtx) : Prop :=
  Names s ∧ FilesIn s.filenames c.cfg.root

theorem joint_KTree (E : ParserEnv) : Joint E KTree where
  yyerror := fun s c line text h => ⟨h.1, ok_yyerror c line text h.2⟩
  act := fun s c a v h =>
    ⟨h.1, ok_runAction a c v _ _ (fun p hp => currentFilename_mem h.1 p hp) h.2⟩
  lex := fun s c h => by
    have hp := yylex_names E.T E.sacts E.w E.ic E.lexFuel s h.1
    generalize yylex E.T E.sacts E.w E.ic E.lexFuel s = r at hp
    rcases r with ⟨s', o⟩
    have hk : KTree s' c := ⟨hp.names, filesIn_mono hp.mono h.2⟩
    cases o with
    | includeError t text file line => exact hk
    | tok t v => exact hk
    | eof => exact hk
    | echo b => exact hk
    | outOfFuel => exact hk

theorem start_files (c : Config) (filename : Option Bytes) (inp : Bytes) :
    FilesIn (scan0 filename inp).filenames (start c filename).root := by
  rw [filesIn_iff]
  refine ⟨fun p hp => ?_, fun k hk => by cases hk⟩
  have : filename = some p := hp
  subst this
  exact List.mem_singleton.mpr rfl

theorem parseOf_KTree (w : World) (c : Config) (filename : Option Bytes) (inp : Bytes) (fuel : Nat) :
    KTree (parseOf w (start c filename) filename inp fuel).1
      (parseOf w (start c filename) filename inp fuel).2.1 :=
  yyparseLoop_joint (joint_KTree _) fuel _ _ _ _
    ⟨scan0_names filename inp, start_files c filename inp⟩

theorem finish_root (p : ScanState × ParseCtx × ParseResult) : (finish p).root = p.2.1.cfg.root := by
  unfold finish; extract_lets c c'; simp only [c']; split <;> rfl

/-! ### reads -/

/-- After `__config_read`, every source file recorded in the tree is an element of the
configuration's file-name vector. -/
theorem readCore_files_named (w : World) (c : Config) (filename : Option Bytes) (inp : Bytes)
    (fuel : Nat) :
    FilesIn (readCore w c filename inp fuel).cfg.filenames (readCore w c filename inp fuel).cfg.root := by
  rw [readCore_cfg, finish_filenames, finish_root]
  exact (parseOf_KTree w c filename inp fuel).2

/-- The same for `config_read_string` / `config_read` / `config_read_file`.  When the file
cannot be opened the configuration is left as it was (only the error record changes), so
there the statement is inherited from `c`. -/
theorem read_files_named (w : World) (c : Config) (src : Source) (fuel : Nat)
    (hc : FilesIn c.filenames c.root) :
    FilesIn (read w c src fuel).cfg.filenames (read w c src fuel).cfg.root := by
  unfold read
  split
  · exact readCore_files_named _ _ _ _ _
  · exact readCore_files_named _ _ _ _ _
  · split
    · exact hc
    · exact readCore_files_named _ _ _ _ _

end Libconfig.C11T
