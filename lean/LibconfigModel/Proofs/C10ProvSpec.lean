import LibconfigModel.DenoteProv
import LibconfigModel.Proofs.C02DenoteSem
/-
  C10P (provenance of the tree), specification side in the form the proofs use: unfolding lemmas
  for the stamped interpreter of DenoteProv.lean; that it is NATURAL in the stamps (re-stamping the
  result = running it with other stamps — which gives: forgetting the stamps is the interpreter of
  Denote.lean; only the stamps of tokens of the text matter; the provenance tree determines every
  stamped tree); what it consumes.  Nothing here mentions the parser.
-/
namespace Libconfig.C10Prov
open Libconfig Denote C02D C01PP

/-! ### unfolding lemmas -/

section
variable (σ : Nat → Stamp) (o : Options)

theorem valueP_zero (nm : Option Bytes) (mk : Option Nat) (items : List Denote.Item) :
    valueP σ o 0 nm mk items = .error .syntax := by
  rw [valueP]

theorem valueP_arr_nil (fuel : Nat) (nm : Option Bytes) (mk : Option Nat) (r : List Denote.Item) :
    valueP σ o (fuel + 1) nm mk (.arrayStart :: .arrayEnd :: r) =
      .ok (stamped { name := nm, ty := T_ARRAY } (σ (keyOf mk (.arrayStart :: .arrayEnd :: r)))) r := by
  rw [valueP]

theorem valueP_arr (fuel : Nat) (nm : Option Bytes) (mk : Option Nat) (rest : List Denote.Item)
    (h : ∀ r, rest ≠ .arrayEnd :: r) :
    valueP σ o (fuel + 1) nm mk (.arrayStart :: rest) =
      match scalarP σ none none rest with
      | none => .error .syntax
      | some (x, rest') =>
        match arrayRestP σ x.ty fuel [x] rest' with
        | .error k => .error k
        | .ok elems rest'' =>
          .ok (stamped { name := nm, ty := T_ARRAY, kids := elems }
            (σ (keyOf mk (.arrayStart :: rest)))) rest'' := by
  rw [valueP]
  · rfl
  · exact fun r hr => h r hr

theorem valueP_lst_nil (fuel : Nat) (nm : Option Bytes) (mk : Option Nat) (r : List Denote.Item) :
    valueP σ o (fuel + 1) nm mk (.listStart :: .listEnd :: r) =
      .ok (stamped { name := nm, ty := T_LIST } (σ (keyOf mk (.listStart :: .listEnd :: r)))) r := by
  rw [valueP]

theorem valueP_lst (fuel : Nat) (nm : Option Bytes) (mk : Option Nat) (rest : List Denote.Item)
    (h : ∀ r, rest ≠ .listEnd :: r) :
    valueP σ o (fuel + 1) nm mk (.listStart :: rest) =
      match valueP σ o fuel none none rest with
      | .error k => .error k
      | .ok x rest' =>
        match listRestP σ o fuel [x] rest' with
        | .error k => .error k
        | .ok elems rest'' =>
          .ok (stamped { name := nm, ty := T_LIST, kids := elems }
            (σ (keyOf mk (.listStart :: rest)))) rest'' := by
  rw [valueP]
  · rfl
  · exact fun r hr => h r hr

theorem valueP_grp (fuel : Nat) (nm : Option Bytes) (mk : Option Nat) (rest : List Denote.Item) :
    valueP σ o (fuel + 1) nm mk (.groupStart :: rest) =
      match settingsP σ o fuel [] rest with
      | .error k => .error k
      | .ok members (.groupEnd :: rest') =>
        .ok (stamped { name := nm, ty := T_GROUP, kids := members }
          (σ (keyOf mk (.groupStart :: rest)))) rest'
      | .ok _ _ => .error .syntax := by
  rw [valueP]
  rfl

theorem valueP_other (fuel : Nat) (nm : Option Bytes) (mk : Option Nat) (items : List Denote.Item)
    (h1 : ∀ r, items ≠ .arrayStart :: r) (h2 : ∀ r, items ≠ .listStart :: r)
    (h3 : ∀ r, items ≠ .groupStart :: r) :
    valueP σ o (fuel + 1) nm mk items =
      match scalarP σ nm mk items with
      | some (x, rest) => .ok x rest
      | none => .error .syntax := by
  rw [valueP]
  · rfl
  · exact fun r h => h1 r h
  · exact fun r h => h2 r h
  · exact fun r h => h3 r h

theorem listRestP_zero (acc : List Node) (items : List Denote.Item) :
    listRestP σ o 0 acc items = .error .syntax := by
  rw [listRestP]

theorem listRestP_done (fuel : Nat) (acc : List Node) (r : List Denote.Item) :
    listRestP σ o (fuel + 1) acc (.listEnd :: r) = .ok acc r := by
  rw [listRestP]

theorem listRestP_skip (fuel : Nat) (acc : List Node) (rest : List Denote.Item)
    (h : (∃ r, rest = .comma :: r) ∨ (∃ r, rest = .listEnd :: r)) :
    listRestP σ o (fuel + 1) acc (.comma :: rest) = listRestP σ o fuel acc rest := by
  rcases h with ⟨r, rfl⟩ | ⟨r, rfl⟩ <;> rw [listRestP]

theorem listRestP_value (fuel : Nat) (acc : List Node) (rest : List Denote.Item)
    (h1 : ∀ r, rest ≠ .listEnd :: r) (h2 : ∀ r, rest ≠ .comma :: r) :
    listRestP σ o (fuel + 1) acc (.comma :: rest) =
      match valueP σ o fuel none none rest with
      | .error k => .error k
      | .ok x rest' => listRestP σ o fuel (acc ++ [x]) rest' := by
  rw [listRestP]
  · rfl
  · exact fun r h => h2 r h
  · exact fun r h => h1 r h

theorem listRestP_other (fuel : Nat) (acc : List Node) (items : List Denote.Item)
    (h1 : ∀ r, items ≠ .listEnd :: r) (h2 : ∀ r, items ≠ .comma :: r) :
    listRestP σ o (fuel + 1) acc items = .error .syntax := by
  rw [listRestP]
  · exact fun r h => h1 r h
  · exact fun r h => h2 r h

theorem arrayRestP_zero (ty : Nat) (acc : List Node) (items : List Denote.Item) :
    arrayRestP σ ty 0 acc items = .error .syntax := by
  rw [arrayRestP]

theorem arrayRestP_done (ty fuel : Nat) (acc : List Node) (r : List Denote.Item) :
    arrayRestP σ ty (fuel + 1) acc (.arrayEnd :: r) = .ok acc r := by
  rw [arrayRestP]

theorem arrayRestP_comma (ty fuel : Nat) (acc : List Node) (rest : List Denote.Item) :
    arrayRestP σ ty (fuel + 1) acc (.comma :: rest) =
      match scalarP σ none none rest with
      | none => arrayRestP σ ty fuel acc rest
      | some (x, rest') =>
        if x.ty ≠ ty then .error .arrayElemType
        else arrayRestP σ ty fuel (acc ++ [x]) rest' := by
  rw [arrayRestP]
  rfl

theorem arrayRestP_other (ty fuel : Nat) (acc : List Node) (items : List Denote.Item)
    (h1 : ∀ r, items ≠ .arrayEnd :: r) (h2 : ∀ r, items ≠ .comma :: r) :
    arrayRestP σ ty (fuel + 1) acc items = .error .syntax := by
  rw [arrayRestP]
  · exact fun r h => h1 r h
  · exact fun r h => h2 r h

theorem settingsP_zero (m : List Node) (items : List Denote.Item) :
    settingsP σ o 0 m items = .error .syntax := by
  rw [settingsP]

theorem settingsP_name (fuel : Nat) (members : List Node) (nm : Bytes) (rest : List Denote.Item) :
    settingsP σ o (fuel + 1) members (.name nm :: rest) =
      match enter o members nm with
      | none => .error .duplicateName
      | some members' =>
        match rest with
        | .assign :: rest' =>
          match valueP σ o fuel (some nm) (some (rest.length + 1)) rest' with
          | .error k => .error k
          | .ok x rest'' => settingsP σ o fuel (members' ++ [x]) (skipTerminator rest'')
        | _ => .error .syntax := by
  rw [settingsP]
  rfl

theorem settingsP_noAssign (fuel : Nat) (members : List Node) (nm : Bytes)
    (rest : List Denote.Item) (h : ∀ r, rest ≠ .assign :: r) :
    settingsP σ o (fuel + 1) members (.name nm :: rest) =
      match enter o members nm with
      | none => .error .duplicateName
      | some _ => .error .syntax := by
  rw [settingsP_name]
  cases enter o members nm with
  | none => rfl
  | some m' =>
    cases rest with
    | nil => rfl
    | cons it tl =>
      cases it
      case assign => exact absurd rfl (h _)
      all_goals rfl

theorem settingsP_setting (fuel : Nat) (members : List Node) (nm : Bytes) (rest : List Denote.Item) :
    settingsP σ o (fuel + 1) members (.name nm :: .assign :: rest) =
      match enter o members nm with
      | none => .error .duplicateName
      | some members' =>
        match valueP σ o fuel (some nm) (some (rest.length + 2)) rest with
        | .error k => .error k
        | .ok x rest'' => settingsP σ o fuel (members' ++ [x]) (skipTerminator rest'') := by
  rw [settingsP_name]
  rfl

theorem settingsP_other (fuel : Nat) (members : List Node) (items : List Denote.Item)
    (h : ∀ nm r, items ≠ .name nm :: r) :
    settingsP σ o (fuel + 1) members items = .ok members items := by
  rw [settingsP]
  exact fun nm r hr => h nm r hr

end

/-! ### re-stamping a tree -/

/-- map the outcome of a successful reading -/
def mapOk {α β : Type} (f : α → β) : Denote.Res α → Denote.Res β
  | .ok a rest => .ok (f a) rest
  | .error k => .error k

mutual
/-- apply `g` to the source position of every node of a tree -/
def restamp (g : Stamp → Stamp) : Node → Node
  | .mk name ty fmt ival fval sval kids hook line file =>
    .mk name ty fmt ival fval sval (restampList g kids) hook (g (line, file)).1 (g (line, file)).2
def restampList (g : Stamp → Stamp) : List Node → List Node
  | [] => []
  | k :: ks => restamp g k :: restampList g ks
end

theorem restamp_eq (g : Stamp → Stamp) (n : Node) :
    restamp g n = { n with kids := restampList g n.kids, line := (g (n.line, n.file)).1,
                           file := (g (n.line, n.file)).2 } := by
  cases n; rw [restamp]

theorem restampList_map (g : Stamp → Stamp) (l : List Node) :
    restampList g l = l.map (restamp g) := by
  induction l with
  | nil => simp [restampList]
  | cons x xs ih => simp [restampList, ih]

theorem restampList_append (g : Stamp → Stamp) (a b : List Node) :
    restampList g (a ++ b) = restampList g a ++ restampList g b := by
  rw [restampList_map, restampList_map, restampList_map, List.map_append]

theorem restampList_snoc (g : Stamp → Stamp) (a : List Node) (x : Node) :
    restampList g (a ++ [x]) = restampList g a ++ [restamp g x] := by
  rw [restampList_append]
  rfl

theorem restamp_name (g : Stamp → Stamp) (n : Node) : (restamp g n).name = n.name := by
  rw [restamp_eq]

theorem restamp_ty (g : Stamp → Stamp) (n : Node) : (restamp g n).ty = n.ty := by
  rw [restamp_eq]

theorem restamp_stamped (g : Stamp → Stamp) (n : Node) (p : Stamp) :
    restamp g (stamped n p) = stamped { n with kids := restampList g n.kids } (g p) := by
  cases n; rfl

theorem restamp_stamped_leaf (g : Stamp → Stamp) (n : Node) (p : Stamp) (h : n.kids = []) :
    restamp g (stamped n p) = stamped n (g p) := by
  rw [restamp_stamped, h]
  cases n
  simp only at h
  subst h
  rfl

mutual
theorem stripPos_restamp : ∀ n : Node, stripPos n = restamp (fun _ => (0, none)) n
  | .mk name ty fmt ival fval sval kids hook line file => by
    rw [stripPos, restamp, stripPosList_restamp kids]
theorem stripPosList_restamp : ∀ l : List Node, stripPosList l = restampList (fun _ => (0, none)) l
  | [] => by rw [stripPosList, restampList]
  | k :: ks => by rw [stripPosList, restampList, stripPos_restamp k, stripPosList_restamp ks]
end

mutual
theorem restamp_id : ∀ n : Node, restamp (fun p => p) n = n
  | .mk name ty fmt ival fval sval kids hook line file => by
    rw [restamp, restampList_id kids]
theorem restampList_id : ∀ l : List Node, restampList (fun p => p) l = l
  | [] => by rw [restampList]
  | k :: ks => by rw [restampList, restamp_id k, restampList_id ks]
end

mutual
theorem restamp_comp (g h : Stamp → Stamp) : ∀ n : Node,
    restamp g (restamp h n) = restamp (fun p => g (h p)) n
  | .mk name ty fmt ival fval sval kids hook line file => by
    rw [restamp, restamp, restamp, restampList_comp g h kids]
theorem restampList_comp (g h : Stamp → Stamp) : ∀ l : List Node,
    restampList g (restampList h l) = restampList (fun p => g (h p)) l
  | [] => by rw [restampList, restampList, restampList]
  | k :: ks => by
    rw [restampList, restampList, restampList, restamp_comp g h k, restampList_comp g h ks]
end

/-- a node of the re-stamped tree is the re-stamped node -/
theorem get?_restamp (g : Stamp → Stamp) : ∀ (p : Path) (t : Node),
    (restamp g t).get? p = (t.get? p).map (restamp g)
  | [], t => by rw [C04.get?_nil, C04.get?_nil]; rfl
  | i :: p, t => by
    rw [C04.get?_cons, C04.get?_cons]
    have : (restamp g t).kids = t.kids.map (restamp g) := by
      rw [restamp_eq, ← restampList_map]
    rw [this, List.getElem?_map]
    cases t.kids[i]? with
    | none => rfl
    | some k => exact get?_restamp g p k

/-- `enter` only looks at the names -/
theorem enter_map (o : Options) (f : Node → Node) (hf : ∀ k, (f k).name = k.name)
    (kids : List Node) (nm : Bytes) :
    enter o (kids.map f) nm = (enter o kids nm).map (List.map f) := by
  unfold enter
  rw [List.findIdx?_map]
  have : ((fun k : Node => k.name == some nm) ∘ f) = (fun k : Node => k.name == some nm) := by
    funext k
    show ((f k).name == some nm) = _
    rw [hf]
  rw [this]
  cases List.findIdx? (fun k : Node => k.name == some nm) kids with
  | none => rfl
  | some i =>
    simp only
    split
    · simp [map_eraseIdx]
    · rfl

theorem enter_restamp (o : Options) (g : Stamp → Stamp) (kids : List Node) (nm : Bytes) :
    enter o (restampList g kids) nm = (enter o kids nm).map (restampList g) := by
  rw [restampList_map, enter_map o _ (restamp_name g)]
  cases enter o kids nm with
  | none => rfl
  | some l => simp [restampList_map]

/-! ### scalars -/

theorem scalar_leaf {nm : Option Bytes} {items rest : List Denote.Item} {x : Node}
    (h : scalar nm items = some (x, rest)) : x.kids = [] ∧ x.line = 0 ∧ x.file = none := by
  cases items with
  | nil => simp [scalar] at h
  | cons it tl =>
    cases it
    all_goals simp only [scalar, Option.some.injEq, Prod.mk.injEq, reduceCtorEq] at h
    all_goals
      rw [← h.1]
      exact ⟨rfl, rfl, rfl⟩

theorem elemKey_le (items : List Denote.Item) : elemKey items ≤ items.length := by
  cases items with
  | nil => exact Nat.le_refl _
  | cons it tl =>
    cases it
    case string s => exact Nat.le_trans (strings_length tl) (Nat.le_succ _)
    all_goals exact Nat.le_refl _

theorem scalarP_some {σ : Nat → Stamp} {nm : Option Bytes} {mk : Option Nat}
    {items rest : List Denote.Item} {x : Node} (h : scalarP σ nm mk items = some (x, rest)) :
    ∃ x0, scalar nm items = some (x0, rest) ∧ x = stamped x0 (σ (keyOf mk items)) := by
  unfold scalarP at h
  cases hs : scalar nm items with
  | none => rw [hs] at h; cases h
  | some p =>
    obtain ⟨x0, r0⟩ := p
    rw [hs] at h
    simp only [Option.some.injEq, Prod.mk.injEq] at h
    exact ⟨x0, by rw [h.2], h.1.symm⟩

theorem scalarP_none {σ : Nat → Stamp} {nm : Option Bytes} {mk : Option Nat}
    {items : List Denote.Item} (h : scalarP σ nm mk items = none) : scalar nm items = none := by
  unfold scalarP at h
  cases hs : scalar nm items with
  | none => rfl
  | some p => rw [hs] at h; cases h

theorem scalarP_of {σ : Nat → Stamp} {nm : Option Bytes} {mk : Option Nat}
    {items rest : List Denote.Item} {x0 : Node} (h : scalar nm items = some (x0, rest)) :
    scalarP σ nm mk items = some (stamped x0 (σ (keyOf mk items)), rest) := by
  unfold scalarP
  rw [h]

theorem scalarP_of_none {σ : Nat → Stamp} {nm : Option Bytes} {mk : Option Nat}
    {items : List Denote.Item} (h : scalar nm items = none) : scalarP σ nm mk items = none := by
  unfold scalarP
  rw [h]

theorem stamped_ty (n : Node) (p : Stamp) : (stamped n p).ty = n.ty := rfl

/-! ### naturality

`σ'` is `g ∘ σ` on the tokens of a text of `N` items; then running the interpreter with `σ'` is
re-stamping with `g` what it yields with `σ` — and what it leaves unread is shorter than what it
was given. -/

section
variable {g : Stamp → Stamp} {σ σ' : Nat → Stamp} {N : Nat}

/-- how the outcomes with `σ` and with `σ'` are related -/
def RelV (g : Stamp → Stamp) (b : Nat) (r r' : Denote.Res Node) : Prop :=
  match r with
  | .ok x rest => r' = .ok (restamp g x) rest ∧ rest.length < b
  | .error k => r' = .error k

def RelL (g : Stamp → Stamp) (b : Nat) (r r' : Denote.Res (List Node)) : Prop :=
  match r with
  | .ok xs rest => r' = .ok (restampList g xs) rest ∧ rest.length < b
  | .error k => r' = .error k

theorem keyOf_agree (H : ∀ k, k ≤ N → σ' k = g (σ k)) {mk : Option Nat} {items : List Denote.Item}
    (hl : items.length ≤ N) (hm : ∀ k, mk = some k → σ' k = g (σ k)) :
    σ' (keyOf mk items) = g (σ (keyOf mk items)) := by
  cases mk with
  | some k => exact hm k rfl
  | none => exact H _ (Nat.le_trans (elemKey_le items) hl)

theorem scalarP_nat (H : ∀ k, k ≤ N → σ' k = g (σ k)) {nm : Option Bytes} {mk : Option Nat}
    {items : List Denote.Item} (hl : items.length ≤ N) (hm : ∀ k, mk = some k → σ' k = g (σ k)) :
    scalarP σ' nm mk items = (scalarP σ nm mk items).map (fun p => (restamp g p.1, p.2)) := by
  unfold scalarP
  cases hs : scalar nm items with
  | none => rfl
  | some p =>
    obtain ⟨x, rest⟩ := p
    simp only [Option.map_some]
    rw [keyOf_agree H hl hm, restamp_stamped_leaf _ _ _ (scalar_leaf hs).1]

theorem arrayRestP_nat (H : ∀ k, k ≤ N → σ' k = g (σ k)) (ty : Nat) :
    ∀ (fuel : Nat) (acc : List Node) (items : List Denote.Item), items.length ≤ N →
    RelL g items.length (arrayRestP σ ty fuel acc items)
      (arrayRestP σ' ty fuel (restampList g acc) items) := by
  intro fuel
  induction fuel with
  | zero => intro acc items _; rw [arrayRestP_zero, arrayRestP_zero]; rfl
  | succ fuel ih =>
    intro acc items hl
    cases arrayRestView items with
    | done r' =>
      rw [arrayRestP_done, arrayRestP_done]
      exact ⟨rfl, Nat.lt_succ_self _⟩
    | comma rest' =>
      rw [arrayRestP_comma, arrayRestP_comma]
      simp only [List.length_cons] at hl
      rw [scalarP_nat H (Nat.le_of_succ_le hl) (fun _ h => by cases h)]
      cases hs : scalarP σ none none rest' with
      | none =>
        simp only [Option.map_none]
        have := ih acc rest' (Nat.le_of_succ_le hl)
        cases hr : arrayRestP σ ty fuel acc rest' with
        | error k => rw [hr] at this; exact this
        | ok xs r1 =>
          rw [hr] at this
          exact ⟨this.1, Nat.lt_succ_of_lt this.2⟩
      | some p =>
        obtain ⟨x, r1⟩ := p
        simp only [Option.map_some]
        rw [restamp_ty]
        obtain ⟨x0, hs0, _⟩ := scalarP_some hs
        have hlen := scalar_length hs0
        by_cases hty : x.ty ≠ ty
        · rw [if_pos hty, if_pos hty]; rfl
        · rw [if_neg hty, if_neg hty]
          have := ih (acc ++ [x]) r1 (by omega)
          rw [restampList_snoc] at this
          cases hr : arrayRestP σ ty fuel (acc ++ [x]) r1 with
          | error k => rw [hr] at this; exact this
          | ok xs r2 =>
            rw [hr] at this
            exact ⟨this.1, by have := this.2; simp only [List.length_cons]; omega⟩
    | other _ h1 h2 =>
      rw [arrayRestP_other _ _ _ _ _ h1 h2, arrayRestP_other _ _ _ _ _ h1 h2]
      rfl

theorem natural (H : ∀ k, k ≤ N → σ' k = g (σ k)) (o : Options) : ∀ fuel : Nat,
    (∀ nm mk items, items.length ≤ N → (∀ k, mk = some k → σ' k = g (σ k)) →
      RelV g items.length (valueP σ o fuel nm mk items) (valueP σ' o fuel nm mk items)) ∧
    (∀ acc items, items.length ≤ N →
      RelL g items.length (listRestP σ o fuel acc items)
        (listRestP σ' o fuel (restampList g acc) items)) ∧
    (∀ m items, items.length ≤ N →
      RelL g (items.length + 1) (settingsP σ o fuel m items)
        (settingsP σ' o fuel (restampList g m) items)) := by
  intro fuel
  induction fuel with
  | zero =>
    refine ⟨?_, ?_, ?_⟩
    · intro nm mk items _ _; rw [valueP_zero, valueP_zero]; rfl
    · intro acc items _; rw [listRestP_zero, listRestP_zero]; rfl
    · intro m items _; rw [settingsP_zero, settingsP_zero]; rfl
  | succ fuel ih =>
    obtain ⟨ihv, ihl, ihs⟩ := ih
    refine ⟨?_, ?_, ?_⟩
    · intro nm mk items hl hm
      have hkey := keyOf_agree H hl hm
      cases valueView items with
      | arrNil r =>
        rw [valueP_arr_nil, valueP_arr_nil, hkey]
        exact ⟨rfl, by simp only [List.length_cons]; omega⟩
      | arr rest' hne =>
        rw [valueP_arr _ _ _ _ _ _ hne, valueP_arr _ _ _ _ _ _ hne, hkey]
        simp only [List.length_cons] at hl
        rw [scalarP_nat H (Nat.le_of_succ_le hl) (fun _ h => by cases h)]
        cases hs : scalarP σ none none rest' with
        | none => rfl
        | some p =>
          obtain ⟨x, r1⟩ := p
          simp only [Option.map_some]
          rw [restamp_ty]
          obtain ⟨x0, hs0, _⟩ := scalarP_some hs
          have hlen := scalar_length hs0
          have := arrayRestP_nat H x.ty fuel [x] r1 (by omega)
          cases hr : arrayRestP σ x.ty fuel [x] r1 with
          | error k => rw [hr] at this; rw [show restampList g [x] = [restamp g x] from rfl] at this; rw [this]; rfl
          | ok xs r2 =>
            rw [hr] at this
            rw [show restampList g [x] = [restamp g x] from rfl] at this
            rw [this.1]
            exact ⟨by rw [restamp_stamped], by have := this.2; simp only [List.length_cons]; omega⟩
      | lstNil r =>
        rw [valueP_lst_nil, valueP_lst_nil, hkey]
        exact ⟨rfl, by simp only [List.length_cons]; omega⟩
      | lst rest' hne =>
        rw [valueP_lst _ _ _ _ _ _ hne, valueP_lst _ _ _ _ _ _ hne, hkey]
        simp only [List.length_cons] at hl
        have h1 := ihv none none rest' (Nat.le_of_succ_le hl) (fun _ h => by cases h)
        cases hv : valueP σ o fuel none none rest' with
        | error k => rw [hv] at h1; rw [h1]; rfl
        | ok x r1 =>
          rw [hv] at h1
          rw [h1.1]
          simp only
          have h2 := ihl [x] r1 (by have := h1.2; omega)
          rw [show restampList g [x] = [restamp g x] from rfl] at h2
          cases hr : listRestP σ o fuel [x] r1 with
          | error k => rw [hr] at h2; rw [h2]; rfl
          | ok xs r2 =>
            rw [hr] at h2
            rw [h2.1]
            exact ⟨by rw [restamp_stamped], by
              have := h1.2; have := h2.2; simp only [List.length_cons]; omega⟩
      | grp rest' =>
        rw [valueP_grp, valueP_grp, hkey]
        simp only [List.length_cons] at hl
        have h1 := ihs [] rest' (Nat.le_of_succ_le hl)
        rw [show restampList g [] = [] from rfl] at h1
        cases hs : settingsP σ o fuel [] rest' with
        | error k => rw [hs] at h1; rw [h1]; rfl
        | ok members r1 =>
          rw [hs] at h1
          rw [h1.1]
          cases r1 with
          | nil => rfl
          | cons it tl =>
            cases it
            case groupEnd =>
              exact ⟨by rw [restamp_stamped], by
                have := h1.2; simp only [List.length_cons] at this ⊢; omega⟩
            all_goals rfl
      | other _ h1 h2 h3 =>
        rw [valueP_other _ _ _ _ _ _ h1 h2 h3, valueP_other _ _ _ _ _ _ h1 h2 h3,
          scalarP_nat H hl hm]
        cases hs : scalarP σ nm mk items with
        | none => rfl
        | some p =>
          obtain ⟨x, r1⟩ := p
          obtain ⟨x0, hs0, _⟩ := scalarP_some hs
          exact ⟨rfl, scalar_length hs0⟩
    · intro acc items hl
      cases listRestView items with
      | done r' =>
        rw [listRestP_done, listRestP_done]
        exact ⟨rfl, Nat.lt_succ_self _⟩
      | comma rest' =>
        simp only [List.length_cons] at hl
        have skip : ((∃ r, rest' = .comma :: r) ∨ (∃ r, rest' = .listEnd :: r)) →
            RelL g (Denote.Item.comma :: rest').length
              (listRestP σ o (fuel + 1) acc (.comma :: rest'))
              (listRestP σ' o (fuel + 1) (restampList g acc) (.comma :: rest')) := by
          intro hsk
          rw [listRestP_skip _ _ _ _ _ hsk, listRestP_skip _ _ _ _ _ hsk]
          have := ihl acc rest' (Nat.le_of_succ_le hl)
          cases hr : listRestP σ o fuel acc rest' with
          | error k => rw [hr] at this; exact this
          | ok xs r1 =>
            rw [hr] at this
            exact ⟨this.1, Nat.lt_succ_of_lt this.2⟩
        cases listRestView rest' with
        | done r' => exact skip (.inr ⟨_, rfl⟩)
        | comma r' => exact skip (.inl ⟨_, rfl⟩)
        | other _ h1 h2 =>
          rw [listRestP_value _ _ _ _ _ h1 h2, listRestP_value _ _ _ _ _ h1 h2]
          have hv1 := ihv none none rest' (Nat.le_of_succ_le hl) (fun _ h => by cases h)
          cases hv : valueP σ o fuel none none rest' with
          | error k => rw [hv] at hv1; rw [hv1]; rfl
          | ok x r1 =>
            rw [hv] at hv1
            rw [hv1.1]
            simp only
            have h2' := ihl (acc ++ [x]) r1 (by have := hv1.2; omega)
            rw [restampList_snoc] at h2'
            cases hr : listRestP σ o fuel (acc ++ [x]) r1 with
            | error k => rw [hr] at h2'; exact h2'
            | ok xs r2 =>
              rw [hr] at h2'
              exact ⟨h2'.1, by have := hv1.2; have := h2'.2; simp only [List.length_cons]; omega⟩
      | other _ h1 h2 =>
        rw [listRestP_other _ _ _ _ _ h1 h2, listRestP_other _ _ _ _ _ h1 h2]
        rfl
    · intro m items hl
      cases settingsView items with
      | setting nm rest' =>
        rw [settingsP_setting, settingsP_setting, enter_restamp]
        simp only [List.length_cons] at hl
        cases he : enter o m nm with
        | none => rfl
        | some m' =>
          simp only [Option.map_some]
          have hv1 := ihv (some nm) (some (rest'.length + 2)) rest' (by omega)
            (fun k hk => by
              injection hk with hk
              rw [← hk]
              exact H _ hl)
          cases hv : valueP σ o fuel (some nm) (some (rest'.length + 2)) rest' with
          | error k => rw [hv] at hv1; rw [hv1]; rfl
          | ok x r1 =>
            rw [hv] at hv1
            rw [hv1.1]
            simp only
            have hsk := skipTerminator_length r1
            have h2' := ihs (m' ++ [x]) (skipTerminator r1) (by have := hv1.2; omega)
            rw [restampList_snoc] at h2'
            cases hr : settingsP σ o fuel (m' ++ [x]) (skipTerminator r1) with
            | error k => rw [hr] at h2'; exact h2'
            | ok xs r2 =>
              rw [hr] at h2'
              exact ⟨h2'.1, by have := hv1.2; have := h2'.2; simp only [List.length_cons]; omega⟩
      | noAssign nm rest' hne =>
        rw [settingsP_noAssign _ _ _ _ _ _ hne, settingsP_noAssign _ _ _ _ _ _ hne, enter_restamp]
        cases enter o m nm <;> rfl
      | other _ hne =>
        rw [settingsP_other _ _ _ _ _ hne, settingsP_other _ _ _ _ _ hne]
        exact ⟨rfl, Nat.lt_succ_self _⟩

end

/-! ### naturality, as equations -/

section
variable {g : Stamp → Stamp} {σ σ' : Nat → Stamp} {N : Nat}

theorem RelV.eq {b : Nat} {r r' : Denote.Res Node} (h : RelV g b r r') : r' = mapOk (restamp g) r := by
  cases r with
  | ok x rest => exact h.1
  | error k => exact h

theorem RelL.eq {b : Nat} {r r' : Denote.Res (List Node)} (h : RelL g b r r') :
    r' = mapOk (restampList g) r := by
  cases r with
  | ok x rest => exact h.1
  | error k => exact h

theorem valueP_nat (H : ∀ k, k ≤ N → σ' k = g (σ k)) (o : Options) (fuel : Nat)
    (nm : Option Bytes) (mk : Option Nat) (items : List Denote.Item) (hl : items.length ≤ N)
    (hm : ∀ k, mk = some k → σ' k = g (σ k)) :
    valueP σ' o fuel nm mk items = mapOk (restamp g) (valueP σ o fuel nm mk items) :=
  ((natural H o fuel).1 nm mk items hl hm).eq

theorem settingsP_nat (H : ∀ k, k ≤ N → σ' k = g (σ k)) (o : Options) (fuel : Nat)
    (m : List Node) (items : List Denote.Item) (hl : items.length ≤ N) :
    settingsP σ' o fuel (restampList g m) items =
      mapOk (restampList g) (settingsP σ o fuel m items) :=
  ((natural H o fuel).2.2 m items hl).eq

end

/-! ### what the stamped interpreter consumes -/

section
variable {σ : Nat → Stamp} {o : Options} {fuel : Nat}

theorem valueP_length {nm : Option Bytes} {mk : Option Nat} {items rest : List Denote.Item}
    {x : Node} (h : valueP σ o fuel nm mk items = .ok x rest) : rest.length < items.length := by
  have := (natural (g := fun p => p) (σ := σ) (σ' := σ) (N := items.length) (fun _ _ => rfl) o
    fuel).1 nm mk items (Nat.le_refl _) (fun _ _ => rfl)
  rw [h] at this
  exact this.2

theorem listRestP_length {acc r : List Node} {items rest : List Denote.Item}
    (h : listRestP σ o fuel acc items = .ok r rest) : rest.length < items.length := by
  have := (natural (g := fun p => p) (σ := σ) (σ' := σ) (N := items.length) (fun _ _ => rfl) o
    fuel).2.1 acc items (Nat.le_refl _)
  rw [h] at this
  exact this.2

theorem settingsP_length {m r : List Node} {items rest : List Denote.Item}
    (h : settingsP σ o fuel m items = .ok r rest) : rest.length ≤ items.length := by
  have := (natural (g := fun p => p) (σ := σ) (σ' := σ) (N := items.length) (fun _ _ => rfl) o
    fuel).2.2 m items (Nat.le_refl _)
  rw [h] at this
  exact Nat.le_of_lt_succ this.2

theorem arrayRestP_length {ty : Nat} {acc r : List Node} {items rest : List Denote.Item}
    (h : arrayRestP σ ty fuel acc items = .ok r rest) : rest.length < items.length := by
  have := arrayRestP_nat (g := fun p => p) (σ := σ) (σ' := σ) (N := items.length) (fun _ _ => rfl)
    ty fuel acc items (Nat.le_refl _)
  rw [h] at this
  exact this.2

end

/-! ### only the stamps of the tokens of the text matter -/

theorem settingsP_congr {σ σ' : Nat → Stamp} (o : Options) (fuel : Nat) (m : List Node)
    (items : List Denote.Item) (H : ∀ k, k ≤ items.length → σ' k = σ k) :
    settingsP σ' o fuel m items = settingsP σ o fuel m items := by
  have := settingsP_nat (g := fun p => p) (σ := σ) (σ' := σ') (N := items.length) H o fuel m items
    (Nat.le_refl _)
  rw [restampList_id] at this
  rw [this]
  cases settingsP σ o fuel m items with
  | ok xs rest => show Denote.Res.ok (restampList (fun p => p) xs) rest = _; rw [restampList_id]
  | error k => rfl

/-! ### forgetting the stamps: the interpreter of Denote.lean -/

/-- the stamps that say nothing -/
def noStamp : Nat → Stamp := fun _ => (0, none)

theorem stamped_zero {x : Node} (h : x.line = 0 ∧ x.file = none) : stamped x (0, none) = x := by
  cases x
  simp only at h
  obtain ⟨h1, h2⟩ := h
  subst h1
  subst h2
  rfl

theorem scalarP_noStamp (nm : Option Bytes) (mk : Option Nat) (items : List Denote.Item) :
    scalarP noStamp nm mk items = scalar nm items := by
  unfold scalarP
  cases hs : scalar nm items with
  | none => rfl
  | some p =>
    obtain ⟨x, rest⟩ := p
    simp only
    show some (stamped x (0, none), rest) = _
    rw [stamped_zero (scalar_leaf hs).2]

theorem arrayRestP_noStamp (ty : Nat) : ∀ (fuel : Nat) (acc : List Node) (items : List Denote.Item),
    arrayRestP noStamp ty fuel acc items = arrayRest ty fuel acc items := by
  intro fuel
  induction fuel with
  | zero => intro acc items; rw [arrayRestP_zero, arrayRest_zero]
  | succ fuel ih =>
    intro acc items
    cases arrayRestView items with
    | done r' => rw [arrayRestP_done, arrayRest_done]
    | comma rest' =>
      rw [arrayRestP_comma, arrayRest_comma, scalarP_noStamp]
      cases hs : scalar none rest' with
      | none => exact ih _ _
      | some p =>
        obtain ⟨x, r1⟩ := p
        simp only
        rw [ih]
    | other _ h1 h2 => rw [arrayRestP_other _ _ _ _ _ h1 h2, arrayRest_other _ _ _ _ h1 h2]

theorem noStamps (o : Options) : ∀ fuel : Nat,
    (∀ nm mk items, valueP noStamp o fuel nm mk items = value o fuel nm items) ∧
    (∀ acc items, listRestP noStamp o fuel acc items = listRest o fuel acc items) ∧
    (∀ m items, settingsP noStamp o fuel m items = settings o fuel m items) := by
  intro fuel
  induction fuel with
  | zero =>
    refine ⟨?_, ?_, ?_⟩
    · intro nm mk items; rw [valueP_zero, value_zero]
    · intro acc items; rw [listRestP_zero, listRest_zero]
    · intro m items; rw [settingsP_zero, settings_zero]
  | succ fuel ih =>
    obtain ⟨ihv, ihl, ihs⟩ := ih
    refine ⟨?_, ?_, ?_⟩
    · intro nm mk items
      cases valueView items with
      | arrNil r => rw [valueP_arr_nil, value_arr_nil]; rfl
      | arr rest' hne =>
        rw [valueP_arr _ _ _ _ _ _ hne, value_arr _ _ _ _ hne, scalarP_noStamp]
        cases hs : scalar none rest' with
        | none => rfl
        | some p =>
          obtain ⟨x, r1⟩ := p
          simp only
          rw [arrayRestP_noStamp]
          cases arrayRest x.ty fuel [x] r1 <;> rfl
      | lstNil r => rw [valueP_lst_nil, value_lst_nil]; rfl
      | lst rest' hne =>
        rw [valueP_lst _ _ _ _ _ _ hne, value_lst _ _ _ _ hne, ihv]
        cases hv : value o fuel none rest' with
        | error k => rfl
        | ok x r1 =>
          simp only
          rw [ihl]
          cases listRest o fuel [x] r1 <;> rfl
      | grp rest' =>
        rw [valueP_grp, value_grp, ihs]
        cases hs : settings o fuel [] rest' with
        | error k => rfl
        | ok members r1 =>
          cases r1 with
          | nil => rfl
          | cons it tl => cases it <;> rfl
      | other _ h1 h2 h3 =>
        rw [valueP_other _ _ _ _ _ _ h1 h2 h3, value_other _ _ _ _ h1 h2 h3, scalarP_noStamp]
        cases scalar nm items with
        | none => rfl
        | some p => rfl
    · intro acc items
      cases listRestView items with
      | done r' => rw [listRestP_done, listRest_done]
      | comma rest' =>
        cases listRestView rest' with
        | done r' =>
          rw [listRestP_skip _ _ _ _ _ (.inr ⟨_, rfl⟩), listRest_skip _ _ _ _ (.inr ⟨_, rfl⟩)]
          exact ihl _ _
        | comma r' =>
          rw [listRestP_skip _ _ _ _ _ (.inl ⟨_, rfl⟩), listRest_skip _ _ _ _ (.inl ⟨_, rfl⟩)]
          exact ihl _ _
        | other _ h1 h2 =>
          rw [listRestP_value _ _ _ _ _ h1 h2, listRest_value _ _ _ _ h1 h2, ihv]
          cases hv : value o fuel none rest' with
          | error k => rfl
          | ok x r1 => exact ihl _ _
      | other _ h1 h2 => rw [listRestP_other _ _ _ _ _ h1 h2, listRest_other _ _ _ _ h1 h2]
    · intro m items
      cases settingsView items with
      | setting nm rest' =>
        rw [settingsP_setting, settings_setting]
        cases he : enter o m nm with
        | none => rfl
        | some m' =>
          simp only
          rw [ihv]
          cases hv : value o fuel (some nm) rest' with
          | error k => rfl
          | ok x r1 => exact ihs _ _
      | noAssign nm rest' hne =>
        rw [settingsP_noAssign _ _ _ _ _ _ hne, settings_noAssign _ _ _ _ _ hne]
        cases enter o m nm <;> rfl
      | other _ hne => rw [settingsP_other _ _ _ _ _ hne, settings_other _ _ _ _ hne]

/-- **forgetting the stamps gives the interpreter of Denote.lean** -/
theorem settingsP_erase (σ : Nat → Stamp) (o : Options) (fuel : Nat) (m : List Node)
    (items : List Denote.Item) :
    settings o fuel (stripPosList m) items = mapOk stripPosList (settingsP σ o fuel m items) := by
  have := settingsP_nat (g := fun _ => (0, none)) (σ := σ) (σ' := noStamp) (N := items.length)
    (fun _ _ => rfl) o fuel m items (Nat.le_refl _)
  rw [(noStamps o fuel).2.2, ← stripPosList_restamp] at this
  rw [this]
  cases settingsP σ o fuel m items with
  | ok xs rest => show Denote.Res.ok _ rest = Denote.Res.ok _ rest; rw [stripPosList_restamp]
  | error k => rfl

theorem valueP_erase (σ : Nat → Stamp) (o : Options) (fuel : Nat) (nm : Option Bytes)
    (mk : Option Nat) (items : List Denote.Item) :
    value o fuel nm items = mapOk stripPos (valueP σ o fuel nm mk items) := by
  have := valueP_nat (g := fun _ => (0, none)) (σ := σ) (σ' := noStamp) (N := items.length)
    (fun _ _ => rfl) o fuel nm mk items (Nat.le_refl _) (fun _ _ => rfl)
  rw [(noStamps o fuel).1] at this
  rw [this]
  cases valueP σ o fuel nm mk items with
  | ok x rest => show Denote.Res.ok _ rest = Denote.Res.ok _ rest; rw [stripPos_restamp]
  | error k => rfl

end Libconfig.C10Prov
