import LibconfigModel.Proofs.C03Parse
import LibconfigModel.Proofs.C03Tables
/-
  Property C03, parser half: with checked tables (`lalrBoundsOK`) every parser state on the
  stack along a run is a state of the automaton, so every `yypact`/`yydefact`/`yytable`/…
  access of the skeleton is covered by the checker.
-/
namespace Libconfig.C03P

open Libconfig

/-- all parser states on the stack are states of the automaton -/
def StatesOK (P : LalrTables) (stack : List (Nat × TokVal)) : Prop := ∀ e ∈ stack, e.1 < P.nstates

/-! ### what the Bool checkers say about one access -/

/-- a positive explicit action is a shift to a state of the automaton -/
theorem actionOK_shift {P : LalrTables} {state tok : Nat} {a : Int}
    (h : actionOK P state tok = true) (ha : Action P state tok a) (hpos : 0 < a) :
    a.toNat < P.nstates := by
  obtain ⟨hp, h0, hl, hc, rfl⟩ := ha
  simp only [actionOK, Bool.and_eq_true] at h
  have h2 := h.2
  rw [if_neg (by simpa using hp)] at h2
  rw [if_neg (by simp only [Bool.or_eq_true, decide_eq_true_eq]; omega)] at h2
  simp only [Bool.and_eq_true] at h2
  have h3 := h2.2.2
  rw [if_neg (by simpa using hc)] at h3
  rw [if_neg (by omega)] at h3
  exact Nat.le_of_ble_eq_true h3

/-- a non-positive explicit action other than the error marker is a reduction by a rule -/
theorem actionOK_reduce {P : LalrTables} {state tok : Nat} {a : Int}
    (h : actionOK P state tok = true) (ha : Action P state tok a) (hle : a ≤ 0)
    (hn : a ≠ P.tableNinf) : 1 ≤ (-a).toNat ∧ (-a).toNat ≤ P.nrules := by
  obtain ⟨hp, h0, hl, hc, rfl⟩ := ha
  simp only [actionOK, Bool.and_eq_true] at h
  have h2 := h.2
  rw [if_neg (by simpa using hp)] at h2
  rw [if_neg (by simp only [Bool.or_eq_true, decide_eq_true_eq]; omega)] at h2
  simp only [Bool.and_eq_true] at h2
  have h3 := h2.2.2
  rw [if_neg (by simpa using hc)] at h3
  rw [if_pos hle] at h3
  rw [if_neg (by simpa using hn)] at h3
  simp only [Bool.and_eq_true] at h3
  exact ⟨Nat.le_of_ble_eq_true h3.1, Nat.le_of_ble_eq_true h3.2⟩

/-- the default reduction is by a rule (or `0`, the error) -/
theorem defactOK_rule {P : LalrTables} {state : Nat} (h : defactOK P state = true) :
    (P.defact.get state).toNat ≤ P.nrules := by
  simp only [defactOK, Bool.and_eq_true] at h
  exact Nat.le_of_ble_eq_true h.2.2

/-- the state pushed by `yyreduce` is a state of the automaton -/
theorem gotoOK_target {P : LalrTables} {rule top : Nat} (h : gotoOK P rule top = true) :
    gotoTarget P rule top < P.nstates := by
  simp only [gotoOK, Bool.and_eq_true] at h
  obtain ⟨_, _, _, _, _, _, h⟩ := h
  simp only [gotoTarget]
  split at h
  · rename_i hr
    simp only [Bool.and_eq_true] at h
    have h3 := h.2.2
    split at h3
    · rename_i hc
      rw [if_pos (by simp only [Bool.and_eq_true]; exact ⟨hr, hc⟩)]
      exact Nat.le_of_ble_eq_true ((Bool.and_eq_true _ _).mp h3).2
    · rename_i hc
      rw [if_neg (by simp only [Bool.and_eq_true]; exact fun hh => hc hh.2)]
      exact Nat.le_of_ble_eq_true ((Bool.and_eq_true _ _).mp h3).2
  · rename_i hr
    simp only [Bool.and_eq_true] at h
    rw [if_neg (by simp only [Bool.and_eq_true]; exact fun hh => hr hh.1)]
    exact Nat.le_of_ble_eq_true h.2

theorem nstates_pos {P : LalrTables} (hb : lalrBoundsOK P = true) : 0 < P.nstates := by
  simp only [lalrBoundsOK, Bool.and_eq_true] at hb
  exact Nat.le_of_ble_eq_true hb.2.2.2.2

/-- the state on top of a stack of valid states is valid (`0` for the empty stack) -/
theorem topState_lt {P : LalrTables} (h0 : 0 < P.nstates) {stack : List (Nat × TokVal)}
    (h : StatesOK P stack) : topState stack < P.nstates := by
  cases stack with
  | nil => exact h0
  | cons e tail => exact h e (by simp)

theorem StatesOK_drop {P : LalrTables} {stack : List (Nat × TokVal)} (h : StatesOK P stack)
    (n : Nat) : StatesOK P (stack.drop n) :=
  fun e he => h e (List.mem_of_mem_drop he)

theorem StatesOK_cons {P : LalrTables} {stack : List (Nat × TokVal)} (h : StatesOK P stack)
    {st : Nat} (hst : st < P.nstates) (v : TokVal) : StatesOK P ((st, v) :: stack) := by
  intro e he
  rcases List.mem_cons.mp he with rfl | he
  · exact hst
  · exact h e he

/-- a rule `yystep` reduces by is one of `1 … nrules` -/
theorem reduceBy_rule {P : LalrTables} (hb : lalrBoundsOK P = true) {state rule : Nat}
    (hs : state < P.nstates) (h : ReduceBy P state rule) : 1 ≤ rule ∧ rule ≤ P.nrules := by
  rcases h with ⟨rfl, h0⟩ | ⟨t, a, hact, hle, hn, rfl⟩
  · have := (lalrBoundsOK_action hb state 0 hs (by have := translateTok_lt hb 0; omega)).2
    exact ⟨by omega, defactOK_rule this⟩
  · exact actionOK_reduce (lalrBoundsOK_action hb state _ hs (translateTok_lt hb t)).1 hact hle hn

/-! ### the invariant -/

/-- one step keeps the states in range -/
theorem yystep_states (E : ParserEnv) (hb : lalrBoundsOK E.P = true) (X Y : PState)
    (hX : StatesOK E.P X.stack) (h : yystep E X = .inr Y) : StatesOK E.P Y.stack := by
  have h0 := nstates_pos hb
  have htop := topState_lt h0 hX
  revert h
  refine yystep_ind2 E X (fun o => o = .inr Y → StatesOK E.P Y.stack)
    ?_ ?_ ?_ ?_ ?_ ?_ ?_ ?_ ?_
  · intro _ h; cases h
  · intro _ _ h; cases h
  · intro _ h; cases h
  · intro _ _ _ h; cases h
  · intro _ _ _ _ _ _ _ _ _ h; cases h
  · intro rule yyval la1 s1 c' _ _ hrule h
    cases h
    have hr := reduceBy_rule hb htop hrule
    have hdrop := StatesOK_drop hX (E.P.r2.get rule).toNat
    exact StatesOK_cons hdrop
      (gotoOK_target (lalrBoundsOK_goto hb rule _ hr.1 hr.2 (topState_lt h0 hdrop))) _
  · intro t a v s1 c1 _ _ hact hpos h
    cases h
    exact StatesOK_cons hX
      (actionOK_shift (lalrBoundsOK_action hb _ _ htop (translateTok_lt hb t)).1 hact hpos) _
  · intro _ _ _ _ _ h; cases h
  · intro _ _ _ _ h; cases h

theorem reach_states (E : ParserEnv) (hb : lalrBoundsOK E.P = true) (s : ScanState) (ctx : ParseCtx)
    (X : PState) (h : Reach E (initial s ctx) X) : StatesOK E.P X.stack := by
  induction h with
  | refl =>
    intro e he
    simp only [initial, List.mem_singleton] at he
    subst he
    exact nstates_pos hb
  | step _ hs ih => exact yystep_states E hb _ _ ih hs

end Libconfig.C03P
