import LibconfigModel.Proofs.C20BufferRun
/-
  C20B, kernel-evaluated replays at the constants of scanner.c, part 3: the 16383-byte token
  is handed to its action, and the next refill moves the 8192 bytes behind it to the front.
-/
namespace Libconfig.C20BP

open Libconfig Libconfig.FlexBuffer

/-- `tok 16383` after the three reads, then a fourth read: `number_to_move = 24575 - 16383 =
8192`, `num_to_read = 32768 - 8192 - 1`, clamped to 8192; the window now starts with `c`, `d`,
`e`; the action saw exactly the 16383 bytes of the token -/
theorem replay_token :
    sizes (run scannerParams [.eob 8192, .eob 8192, .eob 8192, .tok 16383, .eob 8192]
      (create scannerParams longTok)) = (32768, 16384, 0, 8192, 3618) ∧
    (window (run scannerParams [.eob 8192, .eob 8192, .eob 8192, .tok 16383, .eob 8192]
      (create scannerParams longTok))).take 3 = [99, 100, 101] ∧
    beqBytes (run scannerParams [.eob 8192, .eob 8192, .eob 8192, .tok 16383, .eob 8192]
      (create scannerParams longTok)).tokens.flatten (List.replicate 16382 97 ++ [98]) = true := by
  decide +kernel

end Libconfig.C20BP
