import LibconfigModel.Proofs.C01LexYy
/-
  C01L, part 5 (M2, strings) — the scanner reads a string literal of the writer in several
  steps: the opening quote switches to the STRING start condition, every maximal run of
  verbatim bytes and every escape sequence is appended to the accumulator, the closing quote
  returns the token.
-/
namespace Libconfig.C01L
open Flex

section
variable (w : World) (ic : IncludeCfg)

/-- inside a string literal: `acc` has been accumulated, `rest` remains in the buffer -/
structure InStr (K : Ctx) (s : ScanState) (acc rest : Bytes) : Prop where
  sc : s.sc = 3
  str : s.str = acc
  stack : s.stack = []
  rest : s.buf.rest = rest
  ctx : (s.topFile, s.filenames, s.events) = K

variable {K : Ctx}

theorem InStr.take {s : ScanState} {acc pre rest : Bytes} (h : InStr K s acc (pre ++ rest)) :
    s.buf.rest.take pre.length = pre := by
  rw [h.rest, List.take_left]

theorem InStr.next {s : ScanState} {acc pre rest : Bytes} (h : InStr K s acc (pre ++ rest))
    {r : Nat} {follow : Nat → Bool} (hl : SLexeme pre r follow) (hr : r ≠ 0)
    (hf : FollowOK follow rest) :
    next T s.sc s.buf.bol s.buf.rest = some (r, pre.length) := by
  rw [h.sc, h.rest]; exact hl.next hr _ rest hf

theorem followOK_true (rest : Bytes) (h : ∀ b ∈ rest, b < 256) : FollowOK (fun _ => true) rest := by
  intro c hc
  cases rest with
  | nil => cases hc
  | cons d t =>
    simp only [List.head?_cons, Option.some.injEq] at hc
    subst hc
    exact ⟨h _ (List.mem_cons_self ..), rfl⟩

/-- the opening quote (in INITIAL): rule 8, `BEGIN STRING` -/
theorem yylex_open (rest : Bytes) (hfo : FollowOK (fun _ => true) rest) (s : ScanState)
    (hs : Ready K s ([34] ++ rest)) :
    ∃ s', InStr K s' [] rest ∧ ∀ f, yylex T acts w ic (f + 1) s = yylex T acts w ic f s' := by
  refine ⟨{ adv s 8 1 with sc := 3 }, ⟨rfl, hs.str, hs.stack, ?_, hs.ctx⟩, fun f => ?_⟩
  · simp only [adv, hs.rest]; rfl
  · exact yylex_begin w ic f s 8 1 3 (hs.next lex_quote (by decide) hfo) rfl

/-- the closing quote: rule 21, the token is returned -/
theorem yylex_close (acc rest : Bytes) (hfo : FollowOK (fun _ => true) rest) (s : ScanState)
    (hs : InStr K s acc ([34] ++ rest)) :
    ∃ s', Ready K s' rest ∧
      ∀ f, yylex T acts w ic (f + 1) s = (s', .tok Generated.tokens.string { sval := cstr acc }) := by
  refine ⟨{ adv s 21 1 with str := [], sc := Generated.SC_INITIAL }, ⟨rfl, rfl, hs.stack, ?_, hs.ctx⟩, fun f => ?_⟩
  · simp only [adv, hs.rest]; rfl
  · rw [yylex_endString w ic f s 21 1 Generated.tokens.string
      (hs.next slex_quote (by decide) hfo) rfl, hs.str]

/-- a byte the writer copies verbatim -/
def rawByte (c : Nat) : Bool := decide (32 ≤ c) && c != 34 && c != 92

theorem escByte_raw {c : Nat} (h : rawByte c = true) : C01P.escByte c = [c] := by
  simp only [rawByte, Bool.and_eq_true, decide_eq_true_eq, bne_iff_ne, ne_eq] at h
  unfold C01P.escByte
  have h10 : ¬ c = 10 := by omega
  have h13 : ¬ c = 13 := by omega
  have h12 : ¬ c = 12 := by omega
  have h9 : ¬ c = 9 := by omega
  simp [h.1.2, h.2, h10, h13, h12, h9, h.1.1]

theorem cstr_nz : ∀ (p : Bytes), (∀ b ∈ p, b ≠ 0) → cstr p = p := by
  intro p
  induction p with
  | nil => intro _; rfl
  | cons b p ih =>
    intro h
    have hb := h b (List.mem_cons_self ..)
    unfold cstr at ih ⊢
    rw [List.takeWhile_cons_of_pos (by simpa using hb), ih (fun x hx => h x (List.mem_cons_of_mem _ hx))]

theorem escapeString_append (x y : Bytes) : escapeString (x ++ y) = escapeString x ++ escapeString y := by
  unfold escapeString; exact List.flatMap_append

theorem escapeString_raw : ∀ (p : Bytes), (∀ b ∈ p, rawByte b = true) → escapeString p = p := by
  intro p
  induction p with
  | nil => intro _; rfl
  | cons b p ih =>
    intro h
    rw [C01P.escapeString_cons, escByte_raw (h b (List.mem_cons_self ..)),
      ih (fun x hx => h x (List.mem_cons_of_mem _ hx))]
    rfl

/-- split off the longest prefix of verbatim bytes -/
theorem split_run : ∀ x : Bytes, ∃ p r, x = p ++ r ∧ (∀ b ∈ p, rawByte b = true) ∧
    (∀ d, r.head? = some d → rawByte d = false) ∧ (∀ c t, x = c :: t → rawByte c = true → p ≠ []) := by
  intro x
  induction x with
  | nil => exact ⟨[], [], rfl, by simp, by simp, by simp⟩
  | cons c t ih =>
    obtain ⟨p, r, hx, hp, hr, _⟩ := ih
    by_cases hc : rawByte c = true
    · refine ⟨c :: p, r, by rw [hx]; rfl, ?_, hr, by simp⟩
      intro b hb
      rcases List.mem_cons.mp hb with rfl | hb
      · exact hc
      · exact hp b hb
    · refine ⟨[], c :: t, rfl, by simp, ?_, ?_⟩
      · intro d hd
        simp only [List.head?_cons, Option.some.injEq] at hd
        subst hd; simpa using hc
      · intro c' t' he hc'
        simp only [List.cons.injEq] at he
        rw [he.1] at hc; exact absurd hc' hc

/-- a run of verbatim bytes: rule 9, appended as it is -/
theorem yylex_chunk (p acc rest : Bytes) (hne : p ≠ []) (hp : ∀ b ∈ p, rawByte b = true ∧ b < 256)
    (hf : FollowOK chunkFollow rest) (s : ScanState) (hs : InStr K s acc (p ++ rest)) :
    ∃ s', InStr K s' (acc ++ p) rest ∧ ∀ f, yylex T acts w ic (f + 1) s = yylex T acts w ic f s' := by
  have hplain : ∀ b ∈ p, plainByte b = true ∧ b < 256 := by
    intro b hb
    have := hp b hb
    refine ⟨?_, this.2⟩
    have h1 := this.1
    simp only [rawByte, Bool.and_eq_true] at h1
    simp only [plainByte, Bool.and_eq_true]
    exact ⟨h1.1.2, h1.2⟩
  have hnz : ∀ b ∈ p, b ≠ 0 := by
    intro b hb
    have := (hp b hb).1
    simp only [rawByte, Bool.and_eq_true, decide_eq_true_eq] at this
    omega
  refine ⟨{ adv s 9 p.length with str := s.str ++ cstr (s.buf.rest.take p.length) },
    ⟨hs.sc, ?_, hs.stack, ?_, hs.ctx⟩, fun f => ?_⟩
  · show s.str ++ cstr (s.buf.rest.take p.length) = acc ++ p
    rw [hs.take, hs.str, cstr_nz p hnz]
  · simp only [adv, hs.rest, List.drop_left]
  · exact yylex_appendText w ic f s 9 p.length (hs.next (slex_chunk p hne hplain) (by decide) hf) rfl

theorem hexPair (c : Nat) (h : c < 256) :
    digitsVal 16 [digitChar (c / 16), digitChar (c % 16)] % 256 = c := by
  have hq : c / 16 < 16 := by omega
  have hr : c % 16 < 16 := by omega
  simp only [digitsVal, List.foldl, C01P.hexVal_digitChar _ hq, C01P.hexVal_digitChar _ hr]
  omega

/-- an escape sequence of the writer: one rule, the byte it stands for is appended -/
theorem yylex_escByte (c : Nat) (hc : 1 ≤ c ∧ c < 256) (hraw : rawByte c = false) (acc rest : Bytes)
    (hfo : FollowOK (fun _ => true) rest) (s : ScanState) (hs : InStr K s acc (C01P.escByte c ++ rest)) :
    ∃ s', InStr K s' (acc ++ [c]) rest ∧ ∀ f, yylex T acts w ic (f + 1) s = yylex T acts w ic f s' := by
  -- the two-byte escapes
  have two : ∀ x ch, (x = 34 ∨ x = 92 ∨ x = 110 ∨ x = 114 ∨ x = 102 ∨ x = 116) →
      C01P.escByte c = [92, x] → acts.getD (escRule x) .unknown = .appendChar ch → ch = c →
      ∃ s', InStr K s' (acc ++ [c]) rest ∧ ∀ f, yylex T acts w ic (f + 1) s = yylex T acts w ic f s' := by
    intro x ch hx he ha hch
    rw [he] at hs
    have hr : escRule x ≠ 0 := by rcases hx with rfl | rfl | rfl | rfl | rfl | rfl <;> decide
    refine ⟨{ adv s (escRule x) 2 with str := s.str ++ [ch] }, ⟨hs.sc, ?_, hs.stack, ?_, hs.ctx⟩, fun f => ?_⟩
    · show s.str ++ [ch] = acc ++ [c]
      rw [hs.str, hch]
    · simp only [adv, hs.rest]; rfl
    · exact yylex_appendChar w ic f s (escRule x) 2 ch (hs.next (slex_esc x hx) hr hfo) ha
  by_cases h34 : c = 34
  · subst h34; exact two 34 34 (by simp) rfl rfl rfl
  by_cases h92 : c = 92
  · subst h92; exact two 92 92 (by simp) rfl rfl rfl
  by_cases h10 : c = 10
  · subst h10; exact two 110 10 (by simp) rfl rfl rfl
  by_cases h13 : c = 13
  · subst h13; exact two 114 13 (by simp) rfl rfl rfl
  by_cases h12 : c = 12
  · subst h12; exact two 102 12 (by simp) rfl rfl rfl
  by_cases h9 : c = 9
  · subst h9; exact two 116 9 (by simp) rfl rfl rfl
  -- `\xHH`
  have hlt : c < 32 := by
    simp only [rawByte, Bool.and_eq_false_iff, decide_eq_false_iff_not, bne_eq_false_iff_eq] at hraw
    omega
  have he : C01P.escByte c = [92, 120, digitChar (c / 16), digitChar (c % 16)] := by
    unfold C01P.escByte
    have : ¬ 32 ≤ c := by omega
    simp [h34, h92, h10, h13, h12, h9, this]
  rw [he] at hs
  have hq : c / 16 < 16 := by omega
  have hr : c % 16 < 16 := by omega
  have hl := slex_hex _ _ (C01P.isHexDigit_digitChar _ hq) (C01P.isHexDigit_digitChar _ hr)
  refine ⟨{ adv s 19 4 with str := s.str ++ [digitsVal 16 ((s.buf.rest.take 4).drop 2) % 256] },
    ⟨hs.sc, ?_, hs.stack, ?_, hs.ctx⟩, fun f => ?_⟩
  · show s.str ++ [digitsVal 16 ((s.buf.rest.take 4).drop 2) % 256] = acc ++ [c]
    have := hs.take
    simp only [List.length_cons, List.length_nil] at this
    rw [this, hs.str]
    show acc ++ [digitsVal 16 [digitChar (c / 16), digitChar (c % 16)] % 256] = acc ++ [c]
    rw [hexPair c hc.2]
  · simp only [adv, hs.rest]; rfl
  · exact yylex_appendHexChar w ic f s 19 4 (hs.next hl (by decide) hfo) rfl

theorem escByte_head (c : Nat) (hc : c < 256) :
    ∃ h t, C01P.escByte c = h :: t ∧ h < 256 ∧ (rawByte c = false → h = 92) := by
  by_cases hr : rawByte c = true
  · exact ⟨c, [], escByte_raw hr, hc, fun h => by rw [hr] at h; cases h⟩
  · unfold C01P.escByte
    repeat' split
    all_goals first
      | exact ⟨92, _, rfl, by omega, fun _ => rfl⟩
      | (exfalso; apply hr
         simp only [rawByte, Bool.and_eq_true, decide_eq_true_eq, bne_iff_ne, ne_eq]
         simp_all)

/-- what follows inside a literal starts with a byte below 256 -/
theorem esc_follow_any (x rest : Bytes) (hx : ∀ b ∈ x, b < 256) :
    FollowOK (fun _ => true) (escapeString x ++ [34] ++ rest) := by
  intro c hc
  cases x with
  | nil =>
    simp only [escapeString, List.flatMap_nil, List.nil_append, List.cons_append, List.head?_cons,
      Option.some.injEq] at hc
    subst hc; exact ⟨by omega, rfl⟩
  | cons d t =>
    obtain ⟨h, tl, he, hlt, _⟩ := escByte_head d (hx d (List.mem_cons_self ..))
    rw [C01P.escapeString_cons, he] at hc
    simp only [List.cons_append, List.head?_cons, Option.some.injEq] at hc
    subst hc; exact ⟨hlt, rfl⟩

/-- after a maximal run of verbatim bytes comes `\` or the closing quote -/
theorem esc_follow_chunk (r rest : Bytes) (hr256 : ∀ b ∈ r, b < 256)
    (hr : ∀ d, r.head? = some d → rawByte d = false) :
    FollowOK chunkFollow (escapeString r ++ [34] ++ rest) := by
  intro c hc
  cases r with
  | nil =>
    simp only [escapeString, List.flatMap_nil, List.nil_append, List.cons_append, List.head?_cons,
      Option.some.injEq] at hc
    subst hc; exact ⟨by omega, rfl⟩
  | cons d t =>
    obtain ⟨h, tl, he, hlt, h92⟩ := escByte_head d (hr256 d (List.mem_cons_self ..))
    rw [C01P.escapeString_cons, he] at hc
    simp only [List.cons_append, List.head?_cons, Option.some.injEq] at hc
    subst hc
    rw [h92 (hr d rfl)]
    exact ⟨by omega, rfl⟩

/-- **the body of a string literal.**  From inside the literal, with `acc` accumulated, the
scanner reads `escapeString x`, the closing quote, and returns the string token with
`acc ++ x` (cut at the first NUL, as `strdup` would), in at most one step per byte. -/
theorem yylex_body : ∀ (n : Nat) (x : Bytes), x.length ≤ n → (∀ b ∈ x, 1 ≤ b ∧ b < 256) →
    ∀ (acc rest : Bytes), FollowOK (fun _ => true) rest → ∀ (s : ScanState),
    InStr K s acc (escapeString x ++ [34] ++ rest) →
    ∃ k, 1 ≤ k ∧ k ≤ (escapeString x).length + 1 ∧ ∃ s', Ready K s' rest ∧
      ∀ f, yylex T acts w ic (f + k) s =
        (s', .tok Generated.tokens.string { sval := cstr (acc ++ x) }) := by
  intro n
  induction n with
  | zero =>
    intro x hn _ acc rest hfo s hs
    have hx : x = [] := List.length_eq_zero_iff.mp (by omega)
    subst hx
    obtain ⟨s', hr, hy⟩ := yylex_close w ic acc rest hfo s (by simpa [escapeString] using hs)
    exact ⟨1, by omega, by simp [escapeString], s', hr, fun f => by rw [hy f, List.append_nil]⟩
  | succ n ih =>
    intro x hn hx acc rest hfo s hs
    cases x with
    | nil =>
      obtain ⟨s', hr, hy⟩ := yylex_close w ic acc rest hfo s (by simpa [escapeString] using hs)
      exact ⟨1, by omega, by simp [escapeString], s', hr, fun f => by rw [hy f, List.append_nil]⟩
    | cons c t =>
      have hx256 : ∀ b ∈ c :: t, b < 256 := fun b hb => (hx b hb).2
      by_cases hc : rawByte c = true
      · -- a maximal run of verbatim bytes
        obtain ⟨p, r, hsplit, hp, hr, hpne⟩ := split_run (c :: t)
        have hpne' : p ≠ [] := hpne c t rfl hc
        have hr256 : ∀ b ∈ r, b < 256 := fun b hb => hx256 b (by rw [hsplit]; exact List.mem_append_right _ hb)
        have hp256 : ∀ b ∈ p, rawByte b = true ∧ b < 256 :=
          fun b hb => ⟨hp b hb, hx256 b (by rw [hsplit]; exact List.mem_append_left _ hb)⟩
        have hesc : escapeString (c :: t) = p ++ escapeString r := by
          rw [hsplit, escapeString_append, escapeString_raw p hp]
        rw [hesc, List.append_assoc, List.append_assoc] at hs
        obtain ⟨s1, hs1, hy1⟩ := yylex_chunk w ic p acc _ hpne' hp256
          (by rw [← List.append_assoc]; exact esc_follow_chunk r rest hr256 hr) s hs
        have hrlen : r.length ≤ n := by
          have : (c :: t).length = p.length + r.length := by rw [hsplit, List.length_append]
          have : 0 < p.length := List.length_pos_iff.mpr hpne'
          simp only [List.length_cons] at *
          omega
        rw [← List.append_assoc] at hs1
        obtain ⟨k, hk1, hk2, s', hr', hy'⟩ := ih r hrlen
          (fun b hb => hx b (by rw [hsplit]; exact List.mem_append_right _ hb)) (acc ++ p) rest hfo s1 hs1
        refine ⟨k + 1, by omega, ?_, s', hr', fun f => ?_⟩
        · rw [hesc, List.length_append]
          have : 0 < p.length := List.length_pos_iff.mpr hpne'
          omega
        · rw [show f + (k + 1) = (f + k) + 1 from rfl, hy1, hy', List.append_assoc, ← hsplit]
      · -- an escape sequence
        have hc' : rawByte c = false := by simpa using hc
        rw [C01P.escapeString_cons, List.append_assoc, List.append_assoc] at hs
        obtain ⟨s1, hs1, hy1⟩ := yylex_escByte w ic c (hx c (List.mem_cons_self ..)) hc' acc _
          (by rw [← List.append_assoc]
              exact esc_follow_any t rest (fun b hb => hx256 b (List.mem_cons_of_mem _ hb))) s hs
        rw [← List.append_assoc] at hs1
        obtain ⟨k, hk1, hk2, s', hr', hy'⟩ := ih t (by simp only [List.length_cons] at hn; omega)
          (fun b hb => hx b (List.mem_cons_of_mem _ hb)) (acc ++ [c]) rest hfo s1 hs1
        refine ⟨k + 1, by omega, ?_, s', hr', fun f => ?_⟩
        · rw [C01P.escapeString_cons, List.length_append]
          have := C01P.escByte_length_pos c
          omega
        · rw [show f + (k + 1) = (f + k) + 1 from rfl, hy1, hy']
          simp

/-- **a whole string literal**: quote, escaped bytes, quote -/
theorem yylex_str (x rest : Bytes) (hx : ∀ b ∈ x, 1 ≤ b ∧ b < 256)
    (hfo : FollowOK (fun _ => true) rest) (s : ScanState)
    (hs : Ready K s ((WTok.str x).bytes ++ rest)) :
    ∃ k, 1 ≤ k ∧ k ≤ (WTok.str x).bytes.length ∧ ∃ s', Ready K s' rest ∧
      ∀ f, yylex T acts w ic (f + k) s = (s', .tok Generated.tokens.string { sval := x }) := by
  have e : (WTok.str x).bytes ++ rest = [34] ++ (escapeString x ++ [34] ++ rest) := by
    simp [WTok.bytes]
  rw [e] at hs
  obtain ⟨s1, hs1, hy1⟩ := yylex_open w ic _
    (esc_follow_any x rest (fun b hb => (hx b hb).2)) s hs
  obtain ⟨k, hk1, hk2, s', hr', hy'⟩ := yylex_body w ic x.length x (Nat.le_refl _) hx [] rest hfo s1 hs1
  refine ⟨k + 1, by omega, ?_, s', hr', fun f => ?_⟩
  · simp only [WTok.bytes, List.length_append, List.length_cons, List.length_nil]; omega
  · rw [show f + (k + 1) = (f + k) + 1 from rfl, hy1, hy', List.nil_append,
      cstr_nz x (fun b hb => by have := (hx b hb).1; omega)]

end
end Libconfig.C01L
