import LibconfigModel.Bisim
/-
  Helper lemmas for Properties/C18.lean:
  * a rule list whose last rule is a single-byte class never selects that rule
    when every byte is the first byte of some earlier active rule
    (`never_last`, with the decidable check `coverOK`);
  * a regular expression that matches a word containing `\n` mentions `\n` in
    one of its classes (`mentionsNl`), and the decidable check `eolFlagsOK`
    of flex's `yy_rule_can_match_eol` table against it.
-/
namespace Libconfig
namespace ScanSpec
open Rx

/-! ### the last (default) rule is never selected -/

/-- bytes `0 … n-1`: some rule numbered below `N` matches the one-byte word -/
def coverOK (rules : List SpecRule) (N sc : Nat) (bol : Bool) : Nat → Bool
  | 0 => true
  | c + 1 =>
    (match acceptLabel (derivVec c (startVec rules sc bol)) with
      | some r => Nat.blt r N
      | none => false) && coverOK rules N sc bol c

/-- start conditions `0 … n-1`, at and away from the beginning of a line -/
def coverAll (rules : List SpecRule) (N : Nat) : Nat → Bool
  | 0 => true
  | sc + 1 => coverOK rules N sc false 256 && (coverOK rules N sc true 256 && coverAll rules N sc)

theorem coverOK_lt {rules : List SpecRule} {N sc : Nat} {bol : Bool} :
    ∀ {n : Nat}, coverOK rules N sc bol n = true → ∀ c, c < n →
      ∃ r, r < N ∧ RuleMatches rules sc bol r [c] := by
  intro n
  induction n with
  | zero => intro _ c hc; omega
  | succ n ih =>
    intro h c hc
    simp only [coverOK, Bool.and_eq_true] at h
    by_cases hcn : c = n
    · subst hcn
      have h1 := h.1
      split at h1
      · next r hr =>
        refine ⟨r, ?_, ?_⟩
        · exact Nat.le_of_ble_eq_true h1
        · exact startVec_iff.mp (derivVec_iff.mp (acceptLabel_some hr).1)
      · cases h1
    · exact ih h.2 c (by omega)

theorem coverAll_lt {rules : List SpecRule} {N : Nat} :
    ∀ {n : Nat}, coverAll rules N n = true → ∀ sc, sc < n → ∀ (bol : Bool) c, c < 256 →
      ∃ r, r < N ∧ RuleMatches rules sc bol r [c] := by
  intro n
  induction n with
  | zero => intro _ sc h; omega
  | succ n ih =>
    intro h sc hsc bol c hc
    simp only [coverAll, Bool.and_eq_true] at h
    by_cases hn : sc = n
    · subst hn
      cases bol
      · exact coverOK_lt h.1 c hc
      · exact coverOK_lt h.2.1 c hc
    · exact ih h.2.2 sc (by omega) bol c hc

/-- If rule `N` is a single-byte class and every byte is matched, as a one-byte
word, by an active rule numbered below `N`, then on non-empty input `specNext`
selects a rule and it is not rule `N`. -/
theorem never_last {rules : List SpecRule} {sc : Nat} {bol : Bool} {N : Nat}
    (hN : ∀ rule, rules[N - 1]? = some rule → ∃ m, rule.rx = .cls m)
    (hcov : ∀ c, c < 256 → ∃ r, r < N ∧ RuleMatches rules sc bol r [c])
    (inp : List Nat) (hne : inp ≠ []) (hb : ∀ b ∈ inp, b < 256) :
    ∃ r n, specNext rules sc bol inp = some (r, n) ∧ r ≠ N := by
  cases inp with
  | nil => exact (hne rfl).elim
  | cons c cs =>
    obtain ⟨r0, hr0, hm0⟩ := hcov c (hb c (List.Mem.head _))
    have htake1 : (c :: cs).take 1 = [c] := by simp
    cases hs : specNext rules sc bol (c :: cs) with
    | none =>
      have := specNext_eq_none_iff.mp hs 1 (by omega) (by simp) r0
      rw [htake1] at this
      exact (this hm0).elim
    | some p =>
      obtain ⟨r, n⟩ := p
      refine ⟨r, n, rfl, ?_⟩
      intro hrN
      subst hrN
      have hsel := specNext_eq_some_iff.mp hs
      obtain ⟨rule, _, hget, _, hmatch⟩ := hsel.matched
      obtain ⟨m, hm⟩ := hN rule hget
      rw [hm] at hmatch
      obtain ⟨b, hw, _⟩ := matches_cls_iff.mp hmatch
      have hlen : ((c :: cs).take n).length = 1 := by rw [hw]; rfl
      rw [List.length_take, Nat.min_eq_left hsel.le] at hlen
      subst hlen
      rw [← htake1] at hm0
      exact hsel.first r0 hr0 hm0

/-! ### rules that can match a newline -/

/-- some byte class of the expression contains `\n` -/
def mentionsNl : Rx → Bool
  | .empty => false
  | .eps => false
  | .cls m => mem m 10
  | .cat a b => mentionsNl a || mentionsNl b
  | .alt a b => mentionsNl a || mentionsNl b
  | .star a => mentionsNl a

theorem mentionsNl_of_matches {r : Rx} {w : List Nat} (h : Matches r w) :
    10 ∈ w → mentionsNl r = true := by
  induction h with
  | eps => intro h; cases h
  | cls hm =>
    intro h
    simp only [List.mem_singleton] at h
    subst h
    exact hm
  | cat _ _ ih1 ih2 =>
    intro h
    simp only [mentionsNl, Bool.or_eq_true]
    exact (List.mem_append.mp h).elim (fun h => .inl (ih1 h)) (fun h => .inr (ih2 h))
  | altL _ ih => intro h; simp only [mentionsNl, Bool.or_eq_true]; exact .inl (ih h)
  | altR _ ih => intro h; simp only [mentionsNl, Bool.or_eq_true]; exact .inr (ih h)
  | starNil => intro h; cases h
  | starCons _ _ ih1 ih2 =>
    intro h
    exact (List.mem_append.mp h).elim ih1 ih2

/-- every rule (numbered from `i`) that mentions `\n` is flagged in flex's
`yy_rule_can_match_eol` -/
def eolFlagsOK (T : FlexTables) : Nat → List SpecRule → Bool
  | _, [] => true
  | i, r :: rs =>
    (!mentionsNl r.rx || Nat.beq (T.canMatchEol.getN i) 1) && eolFlagsOK T (i + 1) rs

theorem eolFlagsOK_spec {T : FlexTables} : ∀ {rules : List SpecRule} {k : Nat},
    eolFlagsOK T k rules = true → ∀ i rule, k ≤ i → rules[i - k]? = some rule →
      mentionsNl rule.rx = true → T.canMatchEol.getN i = 1 := by
  intro rules
  induction rules with
  | nil => intro k _ i rule _ hget; simp at hget
  | cons r rs ih =>
    intro k h i rule hk hget hnl
    simp only [eolFlagsOK, Bool.and_eq_true, Bool.or_eq_true, Bool.not_eq_true'] at h
    by_cases hik : i = k
    · subst hik
      simp only [Nat.sub_self, List.getElem?_cons_zero, Option.some.injEq] at hget
      subst hget
      cases h.1 with
      | inl h1 => rw [hnl] at h1; cases h1
      | inr h1 => exact Nat.eq_of_beq_eq_true h1
    · have : i - k = (i - (k + 1)) + 1 := by omega
      rw [this, List.getElem?_cons_succ] at hget
      exact ih h.2 i rule (by omega) hget hnl

end ScanSpec
end Libconfig
