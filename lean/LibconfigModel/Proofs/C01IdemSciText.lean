import LibconfigModel.Proofs.C01IdemSciLen
/-
  C01F, part 6 (scientific notation) — the value `strtod` reads off the text that
  `libconfig_format_double` makes of a `%.{p}g` rendering: for digits `d` (`10^(p-1) ≤ d < 10^p`)
  and exponent `x` the text denotes exactly `d·10^(x-p+1)`.
-/
namespace Libconfig.C01I
open Libconfig F64 C01P C01L

/-! ### `strtod` = `parseDecimal`, then `strtodCore` -/

/-- the part of `strtod` after the literal has been split -/
def strtodCore (neg : Bool) (ip fp : Bytes) (ex : Int) : Nat :=
  if ip.isEmpty && fp.isEmpty then 0 else
  let ds := (ip ++ fp).dropWhile (· == 48)
  let d := digitsVal 10 ds
  if d = 0 then mkBits neg 0 0 else
  let k : Int := ex - fp.length
  let mag : Int := k + ds.length
  if mag > 400 then mkBits neg 2047 0
  else if mag < -400 then mkBits neg 0 0
  else if k ≥ 0 then ofRat neg (d * 10^k.toNat) 1
  else ofRat neg d (10^((-k).toNat))

theorem strtod_eq (s : Bytes) :
    strtod s = strtodCore (parseDecimal s).1 (parseDecimal s).2.1 (parseDecimal s).2.2.1
      (parseDecimal s).2.2.2 := rfl

/-- the value of a literal with at least one integer digit, when the magnitude guards of the
model's `strtod` do not apply -/
theorem strtodCore_val (neg : Bool) (ip fp : Bytes) (ex : Int) (hne : ip ≠ [])
    (h0 : 0 < digitsVal 10 (ip ++ fp))
    (h1 : ex + ip.length ≤ 400) (h2 : -400 ≤ ex - fp.length) :
    strtodCore neg ip fp ex =
      ofRat neg (digitsVal 10 (ip ++ fp) * 10 ^ (ex - fp.length).toNat)
        (10 ^ (-(ex - (fp.length : Int))).toNat) := by
  unfold strtodCore
  have he : (ip.isEmpty && fp.isEmpty) = false := by
    cases ip with
    | nil => exact absurd rfl hne
    | cons _ _ => rfl
  rw [he]
  simp only [Bool.false_eq_true, if_false, dv_dropWhile]
  rw [if_neg (by omega)]
  have hdl : ((ip ++ fp).dropWhile (· == 48)).length ≤ ip.length + fp.length := by
    have := (List.dropWhile_sublist (l := ip ++ fp) (· == 48)).length_le
    simpa using this
  rw [if_neg (by omega), if_neg (by omega)]
  by_cases hk : ex - (fp.length : Int) ≥ 0
  · rw [if_pos hk, show (-(ex - (fp.length : Int))).toNat = 0 by omega, Nat.pow_zero]
  · rw [if_neg hk, show (ex - (fp.length : Int)).toNat = 0 by omega, Nat.pow_zero, Nat.mul_one]

/-! ### `parseDecimal` on the shapes the writer produces -/

/-- the exponent part of `parseDecimal` -/
def parseExp (s : Bytes) : Int :=
  match s with
  | c :: r =>
    if c == 101 || c == 69 then
      let (eneg, r) := match r with
        | 45 :: r' => (true, r')
        | 43 :: r' => (false, r')
        | _ => (false, r)
      let ds := r.takeWhile isDigit
      if ds.isEmpty then 0 else
      let v : Int := digitsVal 10 ds
      if eneg then -v else v
    else 0
  | [] => 0

/-- the fraction part of `parseDecimal`: digits, rest -/
def parseFrac (s : Bytes) : Bytes × Bytes :=
  match s with
  | 46 :: r => (r.takeWhile isDigit, r.dropWhile isDigit)
  | _ => ([], s)

/-- `parseDecimal` after the sign -/
def parseTail (s : Bytes) : Bytes × Bytes × Int :=
  (s.takeWhile isDigit, (parseFrac (s.dropWhile isDigit)).1,
    parseExp (parseFrac (s.dropWhile isDigit)).2)

theorem parseDecimal_signed (neg : Bool) (d : Nat) (r : Bytes) (hd : isDigit d = true) :
    parseDecimal (signBytes neg ++ d :: r) = (neg, parseTail (d :: r)) := by
  have hd45 : d ≠ 45 := by intro e; subst e; revert hd; decide
  have hd43 : d ≠ 43 := by intro e; subst e; revert hd; decide
  cases neg
  · simp only [signBytes, Bool.false_eq_true, if_false, List.nil_append]
    unfold parseDecimal
    simp only []
    split
    · rename_i r' h; simp only [List.cons.injEq] at h; exact absurd h.1 hd45
    · rename_i r' h; simp only [List.cons.injEq] at h; exact absurd h.1 hd43
    · rfl
  · simp only [signBytes, if_true, List.cons_append, List.nil_append]
    rfl

/-- the exponent value `e±digits` denotes -/
def expOf (sg : Nat) (exds : Bytes) : Int :=
  if sg = 45 then -(digitsVal 10 exds : Int) else (digitsVal 10 exds : Int)

theorem exp_part (sg : Nat) (exds : Bytes) (hsg : sg = 43 ∨ sg = 45) (hne : exds ≠ [])
    (hds : AllDigits exds) : parseExp (101 :: sg :: exds) = expOf sg exds := by
  have hta := (takeWhile_all isDigit exds hds).1
  have hemp : exds.isEmpty = false := by
    cases exds with
    | nil => exact absurd rfl hne
    | cons _ _ => rfl
  unfold expOf parseExp
  rcases hsg with rfl | rfl
  · simp only [show ((101 : Nat) == 101 || (101 : Nat) == 69) = true from rfl, if_true, hta, hemp,
      Bool.false_eq_true, if_false, show ¬ ((43 : Nat) = 45) by decide]
  · simp only [show ((101 : Nat) == 101 || (101 : Nat) == 69) = true from rfl, if_true, hta, hemp,
      Bool.false_eq_true, if_false]

theorem parseExp_nil : parseExp [] = 0 := rfl

theorem parseTail_point (ip fq : Bytes) (hip : AllDigits ip) (hfq : AllDigits fq) :
    parseTail (ip ++ 46 :: fq) = (ip, fq, 0) := by
  have hsp := takeWhile_split isDigit ip 46 fq hip (by decide)
  have hfa := takeWhile_all isDigit fq hfq
  unfold parseTail
  rw [hsp.1, hsp.2]
  unfold parseFrac
  simp only [hfa.1, hfa.2, parseExp_nil]

theorem parseTail_point_exp (ip fq : Bytes) (sg : Nat) (exds : Bytes) (hip : AllDigits ip)
    (hfq : AllDigits fq) (hsg : sg = 43 ∨ sg = 45) (hne : exds ≠ []) (hds : AllDigits exds) :
    parseTail (ip ++ 46 :: (fq ++ 101 :: sg :: exds)) = (ip, fq, expOf sg exds) := by
  have hsp := takeWhile_split isDigit ip 46 (fq ++ 101 :: sg :: exds) hip (by decide)
  have hsp2 := takeWhile_split isDigit fq 101 (sg :: exds) hfq (by decide)
  have hE := exp_part sg exds hsg hne hds
  unfold parseTail
  rw [hsp.1, hsp.2]
  unfold parseFrac
  simp only [hsp2.1, hsp2.2, hE]

theorem parseTail_exp (ip : Bytes) (sg : Nat) (exds : Bytes) (hip : AllDigits ip)
    (hsg : sg = 43 ∨ sg = 45) (hne : exds ≠ []) (hds : AllDigits exds) :
    parseTail (ip ++ 101 :: sg :: exds) = (ip, [], expOf sg exds) := by
  have hsp := takeWhile_split isDigit ip 101 (sg :: exds) hip (by decide)
  have hE := exp_part sg exds hsg hne hds
  unfold parseTail
  rw [hsp.1, hsp.2]
  have : parseFrac (101 :: sg :: exds) = ([], 101 :: sg :: exds) := rfl
  rw [this, hE]

/-! ### the three shapes, as values -/

theorem cons_of_ne_nil {ip : Bytes} (hne : ip ≠ []) (hip : AllDigits ip) :
    ∃ d r, ip = d :: r ∧ isDigit d = true := by
  cases ip with
  | nil => exact absurd rfl hne
  | cons d r => exact ⟨d, r, rfl, hip d (List.mem_cons_self ..)⟩

theorem strtod_point (neg : Bool) (ip fq : Bytes) (hne : ip ≠ []) (hip : AllDigits ip)
    (hfq : AllDigits fq) :
    strtod (signBytes neg ++ ip ++ 46 :: fq) = strtodCore neg ip fq 0 := by
  obtain ⟨d, r, rfl, hd⟩ := cons_of_ne_nil hne hip
  rw [strtod_eq, List.append_assoc, List.cons_append, parseDecimal_signed neg d _ hd,
    ← List.cons_append, parseTail_point _ _ hip hfq]

theorem strtod_point_exp (neg : Bool) (ip fq : Bytes) (sg : Nat) (exds : Bytes) (hne : ip ≠ [])
    (hip : AllDigits ip) (hfq : AllDigits fq) (hsg : sg = 43 ∨ sg = 45) (hxne : exds ≠ [])
    (hds : AllDigits exds) :
    strtod (signBytes neg ++ ip ++ 46 :: (fq ++ 101 :: sg :: exds)) =
      strtodCore neg ip fq (expOf sg exds) := by
  obtain ⟨d, r, rfl, hd⟩ := cons_of_ne_nil hne hip
  rw [strtod_eq, List.append_assoc, List.cons_append, parseDecimal_signed neg d _ hd,
    ← List.cons_append, parseTail_point_exp _ _ _ _ hip hfq hsg hxne hds]

theorem strtod_exp (neg : Bool) (ip : Bytes) (sg : Nat) (exds : Bytes) (hne : ip ≠ [])
    (hip : AllDigits ip) (hsg : sg = 43 ∨ sg = 45) (hxne : exds ≠ []) (hds : AllDigits exds) :
    strtod (signBytes neg ++ ip ++ 101 :: sg :: exds) = strtodCore neg ip [] (expOf sg exds) := by
  obtain ⟨d, r, rfl, hd⟩ := cons_of_ne_nil hne hip
  rw [strtod_eq, List.append_assoc, List.cons_append, parseDecimal_signed neg d _ hd,
    ← List.cons_append, parseTail_exp _ _ _ hip hsg hxne hds]

/-! ### the exponent field of `%e` -/

/-- the two-or-more-digit exponent `printf` writes -/
def expDigits (x : Int) : Bytes :=
  if (natToDec x.natAbs).length < 2 then 48 :: natToDec x.natAbs else natToDec x.natAbs

theorem expDigits_spec (x : Int) :
    expDigits x ≠ [] ∧ AllDigits (expDigits x) ∧
      expOf (if x < 0 then 45 else 43) (expDigits x) = x := by
  have hv : digitsVal 10 (expDigits x) = x.natAbs := by
    unfold expDigits
    split
    · rw [show (48 :: natToDec x.natAbs) = List.replicate 1 48 ++ natToDec x.natAbs from rfl,
        dv_lead_zeros, digitsVal_natToDec]
    · exact digitsVal_natToDec _
  refine ⟨?_, ?_, ?_⟩
  · unfold expDigits
    split
    · simp
    · exact natToDec_ne_nil _
  · unfold expDigits
    split
    · intro c hc
      rcases List.mem_cons.mp hc with rfl | hc
      · decide
      · exact allDigits_dec _ c hc
    · exact allDigits_dec _
  · unfold expOf
    rw [hv]
    by_cases hx : x < 0
    · simp only [hx, if_true]; omega
    · simp only [hx, if_false, show ¬ ((43 : Nat) = 45) by decide]; omega

/-! ### the value of the written text -/

/-- the text denotes `D·10^k`; relation to the digits `d` and the scale `s = x-p+1`:
`D·10^z = d·10^y` and `k + y = s + z` -/
structure TextVal (neg : Bool) (text : Bytes) (d : Nat) (s : Int) (D : Nat) (k : Int) (z y : Nat) : Prop where
  digits : D * 10 ^ z = d * 10 ^ y
  scale : k + y = s + z
  value : strtod text = ofRat neg (D * 10 ^ k.toNat) (10 ^ (-k).toNat)

/-- splitting a digit string into its head part, the stripped tail and the zeros stripped -/
theorem split_strip (ds : Bytes) (n : Nat) :
    ∃ z, ds = ds.take n ++ stripZeros (ds.drop n) ++ List.replicate z 48 ∧
      (stripZeros (ds.drop n)).length + z = ds.length - n := by
  obtain ⟨z, hz⟩ := stripZeros_spec (ds.drop n)
  refine ⟨z, ?_, ?_⟩
  · rw [List.append_assoc, ← hz, List.take_append_drop]
  · have := congrArg List.length hz
    simp only [List.length_append, List.length_replicate, List.length_drop] at this
    omega

theorem pos_of_mul_pow {D z d y : Nat} (h : D * 10 ^ z = d * 10 ^ y) (hd : 0 < d) : 0 < D := by
  have : 0 < d * 10 ^ y := Nat.mul_pos hd (Nat.pow_pos (by omega))
  rw [← h] at this
  exact Nat.pos_of_mul_pos_right this |> fun _ => by
    rcases Nat.eq_zero_or_pos D with h0 | h0
    · rw [h0, Nat.zero_mul] at this; omega
    · exact h0

/-- **the value of the written text**, scientific style or fixed style, after the
post-processing of `libconfig_format_double` -/
theorem gTail_value (neg : Bool) (p d : Nat) (x : Int) (hp : 1 ≤ p) (hp70 : p ≤ 70)
    (hdlo : 0 < d) (hdhi : d < 10 ^ p) (hx1 : -331 ≤ x) (hx2 : x ≤ 321) :
    ∃ D k z y, TextVal neg (postProc (gTail (signBytes neg) p d x)) d (x - (p : Int) + 1) D k z y := by
  have hdl : (natToDec d).length ≤ p := natToDec_length d p hdhi hp
  unfold gTail
  by_cases hst : (decide (x < -4) || decide (x ≥ (p : Int))) = true
  · -- exponent style: the text is kept
    rw [if_pos hst]
    simp only []
    have hds : AllDigits (pad0 p (natToDec d)) := allDigits_pad0 _ (allDigits_dec _)
    have hlen : (pad0 p (natToDec d)).length = p := by rw [pad0_length_eq]; omega
    have hval := dv_pad0 p d
    generalize pad0 p (natToDec d) = Dg at hds hlen hval ⊢
    obtain ⟨z, hz, hzl⟩ := split_strip Dg 1
    have hipne : Dg.take 1 ≠ [] := take_ne_nil (by omega) (by intro e; rw [e] at hlen; simp at hlen; omega)
    have hipd : AllDigits (Dg.take 1) := allDigits_take _ hds
    have hipl : (Dg.take 1).length = 1 := by simp only [List.length_take]; omega
    have hfqd : AllDigits (stripZeros (Dg.drop 1)) := allDigits_strip (allDigits_drop _ hds)
    obtain ⟨he1, he2, he3⟩ := expDigits_spec x
    have hdig : digitsVal 10 (Dg.take 1 ++ stripZeros (Dg.drop 1)) * 10 ^ z = d * 10 ^ 0 := by
      rw [← dv_trail_zeros, ← hz, hval, Nat.pow_zero, Nat.mul_one]
    have hDpos := pos_of_mul_pow hdig hdlo
    have hfl : (stripZeros (Dg.drop 1)).length ≤ p - 1 := by omega
    -- the exponent text
    have hexp : ([101, (if x < 0 then 45 else 43)] : Bytes) ++
        (if (natToDec x.natAbs).length < 2 then 48 :: natToDec x.natAbs else natToDec x.natAbs) =
        101 :: (if x < 0 then 45 else 43) :: expDigits x := rfl
    have hsg : (if x < 0 then (45 : Nat) else 43) = 43 ∨ (if x < 0 then (45 : Nat) else 43) = 45 := by
      split <;> simp
    rw [List.append_assoc _ _ (if (natToDec x.natAbs).length < 2 then 48 :: natToDec x.natAbs
      else natToDec x.natAbs), hexp]
    -- the post-processing keeps a text with an exponent
    have hkeep : ∀ t : Bytes, postProc (t ++ 101 :: (if x < 0 then 45 else 43) :: expDigits x) =
        t ++ 101 :: (if x < 0 then 45 else 43) :: expDigits x := by
      intro t
      unfold postProc
      have : (t ++ 101 :: (if x < 0 then 45 else 43) :: expDigits x).contains 101 = true := by
        rw [List.contains_iff_mem]; simp
      rw [this]; rfl
    rw [hkeep]
    by_cases hfe : (stripZeros (Dg.drop 1)).isEmpty = true
    · -- no fraction digits left: `d e±xx`
      have hnil : stripZeros (Dg.drop 1) = [] := List.isEmpty_iff.mp hfe
      rw [if_pos hfe, List.append_nil]
      rw [hnil, List.append_nil] at hdig hDpos
      rw [hnil] at hzl
      refine ⟨_, x - ((([] : Bytes).length : Nat) : Int), z, 0, hdig, ?_, ?_⟩
      · simp only [List.length_nil] at hzl ⊢; omega
      · rw [strtod_exp neg _ _ _ hipne hipd hsg he1 he2, he3]
        have := strtodCore_val neg (Dg.take 1) [] x hipne (by rw [List.append_nil]; exact hDpos)
          (by rw [hipl]; omega) (by simp only [List.length_nil]; omega)
        rw [List.append_nil] at this
        exact this
    · -- `d.ddd e±xx`
      rw [if_neg hfe, List.append_assoc (signBytes neg ++ Dg.take 1), List.cons_append]
      refine ⟨_, x - ((stripZeros (Dg.drop 1)).length : Int), z, 0, hdig, by omega, ?_⟩
      rw [strtod_point_exp neg _ _ _ _ hipne hipd hfqd hsg he1 he2, he3]
      exact strtodCore_val neg _ _ x hipne hDpos (by rw [hipl]; omega) (by omega)
  · -- fixed style
    rw [if_neg hst]
    simp only [Bool.or_eq_true, decide_eq_true_eq, not_or, Int.not_lt] at hst
    simp only []
    have hfdv : (((p : Int) - 1 - x).toNat : Int) = (p : Int) - 1 - x := by omega
    have hfd : ((p : Int) - 1 - x).toNat ≤ p + 3 := by omega
    generalize ((p : Int) - 1 - x).toNat = fd at hfdv hfd ⊢
    have hds : AllDigits (pad0 (fd + 1) (natToDec d)) := allDigits_pad0 _ (allDigits_dec _)
    have hlen1 : fd + 1 ≤ (pad0 (fd + 1) (natToDec d)).length := pad0_length _ _
    have hlen2 : (pad0 (fd + 1) (natToDec d)).length ≤ p + 4 := by rw [pad0_length_eq]; omega
    have hval := dv_pad0 (fd + 1) d
    generalize pad0 (fd + 1) (natToDec d) = Dg at hds hlen1 hlen2 hval ⊢
    obtain ⟨z, hz, hzl⟩ := split_strip Dg (Dg.length - fd)
    have hipne : Dg.take (Dg.length - fd) ≠ [] :=
      take_ne_nil (by omega) (by intro e; rw [e] at hlen1; simp at hlen1)
    have hipd : AllDigits (Dg.take (Dg.length - fd)) := allDigits_take _ hds
    have hipl : (Dg.take (Dg.length - fd)).length ≤ p + 4 := by
      simp only [List.length_take]; omega
    have hfqd : AllDigits (stripZeros (Dg.drop (Dg.length - fd))) :=
      allDigits_strip (allDigits_drop _ hds)
    have hdig : digitsVal 10 (Dg.take (Dg.length - fd) ++ stripZeros (Dg.drop (Dg.length - fd))) *
        10 ^ z = d := by
      rw [← dv_trail_zeros, ← hz, hval]
    by_cases hfe : (stripZeros (Dg.drop (Dg.length - fd))).isEmpty = true
    · -- an integer: `.0` is appended
      have hnil : stripZeros (Dg.drop (Dg.length - fd)) = [] := List.isEmpty_iff.mp hfe
      rw [if_pos hfe, List.append_nil, postProc_nopoint _ _ hipd]
      rw [hnil, List.append_nil] at hdig
      rw [hnil] at hzl
      have h48 : AllDigits ([48] : Bytes) := by intro c hc; simp at hc; subst hc; decide
      have hdig' : digitsVal 10 (Dg.take (Dg.length - fd) ++ [48]) * 10 ^ z = d * 10 ^ 1 := by
        rw [dv_append, show digitsVal 10 [48] = 0 from by decide, Nat.add_zero,
          show ([48] : Bytes).length = 1 from rfl, Nat.mul_right_comm, hdig]
      have hDpos := pos_of_mul_pow hdig' hdlo
      rw [show signBytes neg ++ Dg.take (Dg.length - fd) ++ [46, 48] =
        signBytes neg ++ Dg.take (Dg.length - fd) ++ 46 :: [48] from rfl]
      refine ⟨_, (0 : Int) - ((([48] : Bytes).length : Nat) : Int), z, 1, hdig', ?_, ?_⟩
      · simp only [List.length_nil, List.length_cons] at hzl ⊢; omega
      · rw [strtod_point neg _ _ hipne hipd h48]
        exact strtodCore_val neg _ _ 0 hipne hDpos (by omega)
          (by simp only [List.length_cons, List.length_nil]; omega)
    · -- a fraction: trailing zeros are stripped (again)
      rw [if_neg hfe]
      cases hfq : stripZeros (Dg.drop (Dg.length - fd)) with
      | nil => rw [hfq] at hfe; exact absurd rfl hfe
      | cons f0 fr =>
        rw [hfq] at hfqd hdig hzl
        rw [postProc_point neg _ f0 fr hipd hfqd]
        obtain ⟨z2, hz2⟩ := stripZeros_spec fr
        have hfq'd : AllDigits (f0 :: stripZeros fr) := by
          intro c hc
          rcases List.mem_cons.mp hc with rfl | hc
          · exact hfqd _ (List.mem_cons_self ..)
          · exact hfqd c (List.mem_cons_of_mem _ (mem_stripZeros hc))
        have hl2 : (stripZeros fr).length + z2 = fr.length := by
          have := congrArg List.length hz2
          simp only [List.length_append, List.length_replicate] at this
          omega
        have hdig' : digitsVal 10 (Dg.take (Dg.length - fd) ++ f0 :: stripZeros fr) * 10 ^ (z2 + z) =
            d * 10 ^ 0 := by
          rw [Nat.pow_add, ← Nat.mul_assoc, ← dv_trail_zeros, List.append_assoc, List.cons_append,
            ← hz2, hdig, Nat.pow_zero, Nat.mul_one]
        have hDpos := pos_of_mul_pow hdig' hdlo
        refine ⟨_, (0 : Int) - (((f0 :: stripZeros fr).length : Nat) : Int), z2 + z, 0, hdig', ?_, ?_⟩
        · simp only [List.length_cons] at hzl ⊢; omega
        · rw [strtod_point neg _ _ hipne hipd hfq'd]
          exact strtodCore_val neg _ _ 0 hipne hDpos (by omega)
            (by simp only [List.length_cons] at hzl ⊢; omega)

end Libconfig.C01I

