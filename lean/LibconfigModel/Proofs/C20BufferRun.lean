import LibconfigModel.Proofs.C20BufferInv
/-
  C20B helpers, part 3: whole executions (`run`), the end-of-input behaviour when the stream
  never fails, and the size of the buffer.
-/
namespace Libconfig.C20BP

open Libconfig Libconfig.FlexBuffer

theorem step_inv (P : Params) (hP : P.OK) (s : State) (e : Event) (h : Inv P s) :
    Inv P (step P s e) := by
  cases e with
  | tok l => exact tokStep_inv P l s h
  | eob k => exact eobStep_inv P hP k s h

theorem run_inv (P : Params) (hP : P.OK) (es : List Event) (s : State) (h : Inv P s) :
    Inv P (run P es s) := by
  induction es generalizing s with
  | nil => exact h
  | cons e es ih => exact ih _ (step_inv P hP s e h)

theorem run_append (P : Params) (es fs : List Event) (s : State) :
    run P (es ++ fs) s = run P fs (run P es s) := by
  simp [run, List.foldl_append]

/-- what has been handed to the actions, followed by what is still to be scanned -/
def seen (s : State) : Bytes := s.tokens.flatten ++ pending s

theorem step_seen (P : Params) (hP : P.OK) (s : State) (e : Event) (h : Inv P s) :
    seen (step P s e) = seen s := by
  cases e with
  | tok l =>
    show seen (tokStep l s) = seen s
    by_cases hv : s.textPtr + l ≤ s.nChars
    · obtain ⟨t, h1, _, h3⟩ := tokStep_pending P l s h hv
      unfold seen
      rw [h1, h3]
      simp
    · rw [tokStep_invalid l s hv]
  | eob k =>
    obtain ⟨h1, h2⟩ := eobStep_pending P hP k s h
    show seen (eobStep P k s).1 = seen s
    unfold seen
    rw [h1, h2]

theorem run_seen (P : Params) (hP : P.OK) (es : List Event) (s : State) (h : Inv P s) :
    seen (run P es s) = seen s := by
  induction es generalizing s with
  | nil => rfl
  | cons e es ih =>
    show seen (run P es (step P s e)) = seen s
    rw [ih _ (step_inv P hP s e h), step_seen P hP s e h]

theorem seen_create (P : Params) (stream : Bytes) : seen (create P stream) = stream := by
  simp [seen, create, flush, loadBufferState, pending, window]

/-- the window is `yy_n_chars - yytext_ptr` bytes long -/
theorem length_window (P : Params) (s : State) (h : Inv P s) :
    (window s).length = s.nChars - s.textPtr := by
  rw [window_eq_slice]
  exact length_slice _ _ _ (by have := h.alloc; have := h.room; have := h.text; have := h.cur; omega)

/-! ### end of input is reported only at the end of the stream -/

/-- every read of the execution is offered at least one byte (the stream never fails) -/
def Willing : List Event → Prop
  | [] => True
  | .tok _ :: es => Willing es
  | .eob k :: es => 1 ≤ k ∧ Willing es

/-- `YY_BUFFER_EOF_PENDING` only when the stream is exhausted -/
def EofOK (s : State) : Prop := s.status = .eofPending → s.rest = []

theorem eobStep_eofOK (P : Params) (hP : P.OK) (k : Nat) (hk : 1 ≤ k) (s : State) (h : Inv P s)
    (he : EofOK s) : EofOK (eobStep P k s).1 := by
  obtain ⟨E, G, _⟩ := eobStep_spec P hP k s h
  intro hst
  have hrest : (eobEnter s).rest = [] → (eobStep P k s).1.rest = [] := fun h0 => by
    have := G.data
    rw [h0] at this
    exact (List.append_eq_nil_iff.mp this).2
  rw [G.status] at hst
  by_cases h0 : (eobStep P k s).1.nChars = s.nChars - s.textPtr
  · rcases G.dry h0 with h1 | h1 | h1
    · rw [E.status, enteredStatus_eof] at h1
      exact hrest (by rw [E.rest]; exact he h1)
    · omega
    · exact hrest h1
  · rw [if_neg h0, E.status, enteredStatus_eof] at hst
    exact hrest (by rw [E.rest]; exact he hst)

theorem tokStep_eofOK (P : Params) (l : Nat) (s : State) (h : Inv P s) (he : EofOK s) :
    EofOK (tokStep l s) := by
  by_cases hv : s.textPtr + l ≤ s.nChars
  · have T := tokStep_spec l s (by have := h.alloc; have := h.room; omega) hv
    intro hst
    rw [T.rest]
    exact he (by rw [← T.status]; exact hst)
  · rw [tokStep_invalid l s hv]; exact he

theorem run_eofOK (P : Params) (hP : P.OK) (es : List Event) (hw : Willing es) (s : State)
    (h : Inv P s) (he : EofOK s) : EofOK (run P es s) := by
  induction es generalizing s with
  | nil => exact he
  | cons e es ih =>
    cases e with
    | tok l => exact ih hw _ (tokStep_inv P l s h) (tokStep_eofOK P l s h he)
    | eob k => exact ih hw.2 _ (eobStep_inv P hP k s h) (eobStep_eofOK P hP k hw.1 s h he)

theorem create_eofOK (P : Params) (stream : Bytes) : EofOK (create P stream) := by
  intro h
  simp [create, flush, loadBufferState] at h

/-! ### the size of the buffer -/

/-- the buffer is never larger than `YY_BUF_SIZE` or twice (the length of the text + 1) -/
def SizeOK (P : Params) (n : Nat) (s : State) : Prop := s.bufSize ≤ max P.B (2 * (n + 1))

theorem length_window_le_seen (P : Params) (s : State) (h : Inv P s) :
    s.nChars - s.textPtr ≤ (seen s).length := by
  rw [← length_window P s h]
  simp only [seen, pending, List.length_append]
  omega

theorem eobStep_sizeOK (P : Params) (hP : P.OK) (k : Nat) (s : State) (h : Inv P s) (n : Nat)
    (hn : (seen s).length ≤ n) (hs : SizeOK P n s) : SizeOK P n (eobStep P k s).1 := by
  obtain ⟨E, G, _⟩ := eobStep_spec P hP k s h
  unfold SizeOK at *
  rcases G.size with h1 | ⟨h1, h2, _⟩
  · rw [h1, E.bufSize]; exact hs
  · have := length_window_le_seen P s h
    rw [h1, h2]
    have : 2 * (s.nChars - s.textPtr + 1) ≤ 2 * (n + 1) := by omega
    exact Nat.le_trans this (Nat.le_max_right _ _)

theorem run_sizeOK (P : Params) (hP : P.OK) (es : List Event) (s : State) (h : Inv P s) (n : Nat)
    (hn : (seen s).length ≤ n) (hs : SizeOK P n s) : SizeOK P n (run P es s) := by
  induction es generalizing s with
  | nil => exact hs
  | cons e es ih =>
    refine ih _ (step_inv P hP s e h) (by rw [step_seen P hP s e h]; exact hn) ?_
    cases e with
    | tok l =>
      show SizeOK P n (tokStep l s)
      by_cases hv : s.textPtr + l ≤ s.nChars
      · have T := tokStep_spec l s (by have := h.alloc; have := h.room; omega) hv
        unfold SizeOK; rw [T.bufSize]; exact hs
      · rw [tokStep_invalid l s hv]; exact hs
    | eob k => exact eobStep_sizeOK P hP k s h n hn hs


/-! ### one refill, seen from the matcher -/

/-- What the end-of-buffer action does, in terms of the window and the stream: `data` is
what the read delivered. -/
structure Progress (k : Nat) (s s' : State) (ret : Ret) (data : Bytes) : Prop where
  /-- the bytes read are the next bytes of the stream … -/
  stream : s.rest = data ++ s'.rest
  /-- … and are appended to the window, which is otherwise unchanged -/
  window : window s' = window s ++ data
  le : data.length ≤ k
  /-- the three results -/
  result : ret = Ret.continueScan ∧ data ≠ [] ∨
        ret = Ret.lastMatch ∧ data = [] ∧ FlexBuffer.window s ≠ [] ∧ s'.status = .eofPending ∨
        ret = Ret.endOfFile ∧ data = [] ∧ FlexBuffer.window s = [] ∧ s'.status = .new
  /-- a read from a stream that has bytes and offers some delivers some -/
  live : s.status ≠ .eofPending → 1 ≤ k → s.rest ≠ [] → ret = Ret.continueScan
  /-- end of input is reported because of `YY_BUFFER_EOF_PENDING`, because the read was
  offered nothing, or because the stream is at its end -/
  dry : ret ≠ Ret.continueScan → s.status = .eofPending ∨ k = 0 ∨ s.rest = []
  /-- the buffer grows only when the token in progress fills it, and then it doubles -/
  grow : s'.bufSize = s.bufSize ∨
    (s'.bufSize = 2 * s.bufSize ∧ s.textPtr = 0 ∧ (FlexBuffer.window s).length + 1 = s.bufSize ∧
      s.status ≠ .eofPending)

theorem eobStep_progress (P : Params) (hP : P.OK) (k : Nat) (s : State) (h : Inv P s) :
    ∃ data, Progress k s (eobStep P k s).1 (eobStep P k s).2 data := by
  obtain ⟨E, G, _⟩ := eobStep_spec P hP k s h
  have hw := length_window P s h
  generalize hs' : (eobStep P k s).1 = s' at G
  generalize (eobStep P k s).2 = ret at G
  have htext : s.textPtr ≤ s.nChars := Nat.le_trans h.text h.cur
  obtain ⟨d, hd⟩ : ∃ d, s'.nChars = (s.nChars - s.textPtr) + d :=
    ⟨s'.nChars - (s.nChars - s.textPtr), by have := G.ge; omega⟩
  have hdata := G.data
  rw [hd, Nat.add_sub_cancel_left, E.rest] at hdata
  have hfit : (s.nChars - s.textPtr) + d ≤ s'.ch.length := by
    rw [G.alloc]; have := G.room; omega
  have hdl : (slice s'.ch (s.nChars - s.textPtr) d).length = d := length_slice _ _ _ hfit
  have hnil : slice s'.ch (s.nChars - s.textPtr) d = [] ↔ d = 0 := by
    rw [← List.length_eq_zero_iff, hdl]
  have hwnil : FlexBuffer.window s = [] ↔ s.nChars - s.textPtr = 0 := by
    rw [← List.length_eq_zero_iff, hw]
  have hcase : (s'.nChars = s.nChars - s.textPtr) ↔ d = 0 := by omega
  refine ⟨slice s'.ch (s.nChars - s.textPtr) d, ?_⟩
  exact {
    stream := hdata.symm
    window := by
      rw [window_eq_slice, window_eq_slice, G.textPtr, Nat.sub_zero, hd, slice_append, Nat.zero_add,
        G.moved, E.ch, E.textPtr]
    le := by rw [hdl]; have := G.le; omega
    result := by
      have hr := G.ret
      have hst := G.status
      by_cases h0 : d = 0
      · rw [if_pos (hcase.mpr h0)] at hr hst
        by_cases hz : s.nChars - s.textPtr = 0
        · rw [if_pos hz] at hr hst
          exact .inr (.inr ⟨hr, hnil.mpr h0, hwnil.mpr hz, hst⟩)
        · rw [if_neg hz] at hr hst
          exact .inr (.inl ⟨hr, hnil.mpr h0, fun hc => hz (hwnil.mp hc), hst⟩)
      · rw [if_neg (fun hc => h0 (hcase.mp hc))] at hr
        exact .inl ⟨hr, fun hc => h0 (hnil.mp hc)⟩
    live := fun h1 h2 h3 => by
      have := G.live (by rw [E.status, Ne, enteredStatus_eof]; exact h1) h2 (by rw [E.rest]; exact h3)
      rw [G.ret, if_neg this]
    dry := fun hne => by
      have hr := G.ret
      by_cases h0 : s'.nChars = s.nChars - s.textPtr
      · have := G.dry h0
        rw [E.status, enteredStatus_eof, E.rest] at this
        exact this
      · rw [if_neg h0] at hr
        exact absurd hr hne
    grow := by
      rcases G.size with h1 | ⟨h1, h2, h3⟩
      · exact .inl (by rw [h1, E.bufSize])
      · rw [E.bufSize] at h1 h2
        rw [E.status, Ne, enteredStatus_eof] at h3
        have := h.room
        exact .inr ⟨h1, by omega, by rw [hw]; omega, h3⟩ }


/-! ### scenarios replayed in `Proofs/C20BufferReplay*.lean` and `Properties/C20Buffer.lean` -/

/-- the integer fields of a state and the number of bytes the stream still holds -/
def sizes (s : State) : Nat × Nat × Nat × Nat × Nat :=
  (s.bufSize, s.nChars, s.textPtr, s.cBufP, s.rest.length)

/-- a text that starts with a token of `YY_BUF_SIZE - 1` = 16383 bytes (16382 × `a`, then
`b`), followed by `c`, `d` and 20000 × `e` -/
def longTok : Bytes := List.replicate 16382 97 ++ [98, 99, 100] ++ List.replicate 20000 101

/-- scanner.c with the seeded change `while ( num_to_read < 0 )` -/
def seededParams : Params := { scannerParams with test := growTestSeeded }

/-- a `YY_INPUT` that is asked for no bytes at all -/
def zeroRead : Access → Bool
  | .input _ _ max => decide (max ≤ 0)
  | _ => false

theorem zeroRead_not_ok (a : Access) (h : zeroRead a = true) : ¬ a.ok := by
  cases a with
  | input alloc dst max =>
    simp only [zeroRead, decide_eq_true_eq] at h
    simp only [Access.ok]
    omega
  | _ => simp [zeroRead] at h

theorem any_zeroRead_not_safe (l : List Access) (h : l.any zeroRead = true) : ¬ ∀ a ∈ l, a.ok := by
  obtain ⟨a, ha, hz⟩ := List.any_eq_true.mp h
  exact fun hall => zeroRead_not_ok a hz (hall a ha)

theorem run_snoc (P : Params) (es : List Event) (k : Nat) (s : State) :
    run P (es ++ [.eob k]) s = (eobStep P k (run P es s)).1 := by
  rw [run_append]; rfl

end Libconfig.C20BP
