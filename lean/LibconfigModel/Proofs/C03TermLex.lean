import LibconfigModel.Proofs.C03Lex
import LibconfigModel.Proofs.C02
/-
  C03T, scanner side of the termination argument: in a world without readable files, started
  with an empty include stack and more fuel than bytes left, every `yylex` call returns the end
  of input or consumes at least one byte and returns a token (or an include error).  Hence the
  scanner delivers at most as many tokens as there are bytes and then the end of input:
  the hypothesis `Lexes` of `yyparse_fuel`.
-/
namespace Libconfig.C03T
open Libconfig C03P

/-- what one `yylex` call started in `s` returned -/
structure LexStep (s : ScanState) (r : ScanState × LexOut) : Prop where
  fuel : r.2 ≠ .outOfFuel
  echo : ∀ b, r.2 ≠ .echo b
  ok : ScanOK r.1
  stack : r.1.stack = []
  le : r.1.buf.rest.length ≤ s.buf.rest.length
  lt : r.2 = .eof ∨ r.1.buf.rest.length < s.buf.rest.length

theorem yylex_strict_gen (T : FlexTables) (acts : List ScanAct) (hact : ActsOK T acts) (hpos : PosOK T)
    (w : World) (hw : NoFiles w) (ic : IncludeCfg) :
    ∀ (fuel : Nat) (s : ScanState), ScanOK s → s.stack = [] → s.buf.rest.length < fuel →
      LexStep s (yylex T acts w ic fuel s) := by
  intro fuel
  induction fuel with
  | zero => intro s _ _ h; exact absurd h (Nat.not_lt_zero _)
  | succ fuel ih =>
    intro s h hst hlen
    rw [yylex]
    split
    · split
      · exact ⟨fun hb => (by cases hb), fun b hb => (by cases hb), h, hst, Nat.le_refl _, .inl rfl⟩
      · rename_i f fs hst'
        rw [hst] at hst'; cases hst'
    · rename_i rule len hnext
      have hok := hact s.sc h.sc s.buf.bol s.buf.rest h.buf rule len hnext
      have hl := hpos s.sc h.sc s.buf.bol s.buf.rest rule len hnext
      extract_lets text lineno bol s' path s2
      have hs' : ScanOK s' := ⟨h.sc, fun x hx => h.buf x (List.mem_of_mem_drop hx), h.parents⟩
      have hst' : s'.stack = [] := hst
      have hlt0 : s'.buf.rest.length < s.buf.rest.length := by
        show (s.buf.rest.drop len).length < _
        rw [List.length_drop]; omega
      have hlt' : s'.buf.rest.length < fuel := by omega
      have h0 : Generated.SC_INITIAL < 5 := by decide
      have hrec : ∀ s'' : ScanState, s''.sc < 5 → s''.stack = s'.stack → s''.buf = s'.buf →
          LexStep s (yylex T acts w ic fuel s'') := by
        intro s'' h1 h2 h3
        have := ih s'' ⟨h1, h3 ▸ hs'.buf, h2 ▸ hs'.parents⟩ (h2.trans hst') (h3 ▸ hlt')
        have hle := this.le
        rw [h3] at hle
        exact ⟨this.fuel, this.echo, this.ok, this.stack, by omega, .inr (by omega)⟩
      have hret : ∀ (s'' : ScanState) (o : LexOut), s''.sc < 5 → s''.stack = s'.stack →
          s''.buf = s'.buf → o ≠ .outOfFuel → (∀ b, o ≠ .echo b) → LexStep s (s'', o) := by
        intro s'' o h1 h2 h3 h4 h5
        refine ⟨h4, h5, ⟨h1, h3 ▸ hs'.buf, h2 ▸ hs'.parents⟩, h2.trans hst', ?_, .inr ?_⟩
        · show s''.buf.rest.length ≤ _
          rw [h3]; omega
        · show s''.buf.rest.length < _
          rw [h3]; omega
      have hs2 : s2.sc = s'.sc ∧ s2.stack = s'.stack ∧ s2.buf = s'.buf := ⟨rfl, rfl, rfl⟩
      clear_value s' path s2
      split
      all_goals try (rename_i heq; rw [heq] at hok)
      all_goals try (exact absurd hok (by decide))
      all_goals try (exact hrec _ hs'.sc rfl rfl)
      all_goals try (exact hret _ _ hs'.sc rfl rfl (fun hb => by cases hb) (fun b hb => by cases hb))
      case h_1 =>
        rename_i sc
        have hsc : sc < 5 := by simpa [actOK] using hok
        exact hrec _ hsc rfl rfl
      case h_6 =>
        exact hret _ _ h0 rfl rfl (fun hb => by cases hb) (fun b hb => by cases hb)
      case h_7 =>
        obtain ⟨e1, e2, e3⟩ := hs2
        split
        · exact hret _ _ (e1 ▸ hs'.sc) e2 e3 (fun hb => by cases hb) (fun b hb => by cases hb)
        split
        · exact hret _ _ (e1 ▸ hs'.sc) e2 e3 (fun hb => by cases hb) (fun b hb => by cases hb)
        · exact hrec _ h0 e2 e3
        · exact hrec _ h0 e2 e3
        · rename_i files hne _
          extract_lets s1
          have hn := nif_spec w s1 true
          have hnone := nif_noFiles w hw s1 true
          split
          rename_i s3 content err heq
          rw [heq] at hn hnone; simp only at hn hnone
          obtain ⟨hsc, hbuf, hpar, hcont⟩ := hn
          subst hnone
          simp only
          exact hret _ _ (by show s3.sc < 5; rw [hsc]; exact e1 ▸ hs'.sc) e2
            (by show s3.buf = _; rw [hbuf]; exact e3) (fun hb => by cases hb) (fun b hb => by cases hb)

/-- the instance for the compiled scanner -/
theorem yylex_strict (w : World) (hw : NoFiles w) (ic : IncludeCfg) (fuel : Nat) (s : ScanState)
    (hs : ScanOK s) (hst : s.stack = []) (hf : s.buf.rest.length < fuel) :
    LexStep s (lex w ic fuel s) :=
  yylex_strict_gen _ _ gen_actsOK (fun sc hsc bol inp r n h => next_pos sc hsc bol inp r n h)
    w hw ic fuel s hs hst hf

/-- **The scanner delivers finitely many tokens**: at most one per byte left, then the end of
input. -/
theorem lexes_exists (E : ParserEnv)
    (hstep : ∀ s, ScanOK s → s.stack = [] → s.buf.rest.length < E.lexFuel →
      LexStep s (yylex E.T E.sacts E.w E.ic E.lexFuel s)) :
    ∀ (n : Nat) (s : ScanState), ScanOK s → s.stack = [] → s.buf.rest.length ≤ n → n < E.lexFuel →
      ∃ toks s', C02P.Lexes E s toks s' ∧ toks.length ≤ s.buf.rest.length := by
  intro n
  induction n with
  | zero =>
    intro s hs hst hn hf
    have h := hstep s hs hst (by omega)
    rcases hy : yylex E.T E.sacts E.w E.ic E.lexFuel s with ⟨s1, o⟩
    rw [hy] at h
    rcases h.lt with h1 | h1
    · have h1 : o = .eof := h1
      subst h1
      exact ⟨[], s1, .eof _ _ hy, Nat.zero_le _⟩
    · have : s1.buf.rest.length < s.buf.rest.length := h1
      omega
  | succ n ih =>
    intro s hs hst hn hf
    have h := hstep s hs hst (by omega)
    rcases hy : yylex E.T E.sacts E.w E.ic E.lexFuel s with ⟨s1, o⟩
    rw [hy] at h
    have hok : ScanOK s1 := h.ok
    have hst1 : s1.stack = [] := h.stack
    cases o with
    | eof => exact ⟨[], s1, .eof _ _ hy, Nat.zero_le _⟩
    | outOfFuel => exact absurd rfl h.fuel
    | echo b => exact absurd rfl (h.echo b)
    | tok t v =>
      have hlt : s1.buf.rest.length < s.buf.rest.length := by
        rcases h.lt with h1 | h1
        · cases h1
        · exact h1
      obtain ⟨toks, s', hl, hlen⟩ := ih s1 hok hst1 (by omega) (by omega)
      exact ⟨(t, v) :: toks, s', .tok _ _ _ _ _ _ hy hl, by simp only [List.length_cons]; omega⟩
    | includeError t text file line =>
      have hlt : s1.buf.rest.length < s.buf.rest.length := by
        rcases h.lt with h1 | h1
        · cases h1
        · exact h1
      obtain ⟨toks, s', hl, hlen⟩ := ih s1 hok hst1 (by omega) (by omega)
      exact ⟨(t, {}) :: toks, s', .incl _ _ _ _ _ _ _ _ hy hl, by simp only [List.length_cons]; omega⟩

end Libconfig.C03T
