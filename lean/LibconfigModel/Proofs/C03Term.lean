import LibconfigModel.Proofs.C02
import LibconfigModel.Proofs.C03Parse
import LibconfigModel.Proofs.C03TermStatic
/-
  C03T, dynamic part: along every run of `yyparseLoop` (as the iteration of `C03P.yystep`)

  * the state stack is a path of certificate edges from state 0 (`StackPath`), hence a reduction
    never pops more entries than the stack holds above its bottom (`no_underflow`);
  * every iteration that continues either consumes the lookahead token (`Shifts`) or lowers
    the rank of the top state (`step_dichotomy`), hence at most `R` consecutive iterations do
    not consume a token (`quiet_bound`);
  * if the scanner delivers `n` tokens and then the end of input, `(R+1)·(n+1) + rank(0) + 1`
    units of fuel suffice (`loop_fuel`, `yyparse_fuel`), and the outcome does not depend on the
    fuel beyond that (`loop_stable`).
-/
namespace Libconfig.C03T
open Libconfig C03P

/-! ### one iteration, with what happens to the lookahead -/

/-- `yybackup` makes sure there is a lookahead: the one it has, or the next token of the
scanner (`0` for the end of input, the error token for a failing `@include`).  `s'` is the
scanner state afterwards. -/
inductive Fetched (E : ParserEnv) (la : Lookahead) (s : ScanState) : Nat → TokVal → ScanState → Prop where
  | have (t : Nat) (v : TokVal) : la = some (t, v) → Fetched E la s t v s
  | tok (s' : ScanState) (t : Nat) (v : TokVal) : la = none →
      yylex E.T E.sacts E.w E.ic E.lexFuel s = (s', .tok t v) → Fetched E la s t v s'
  | eof (s' : ScanState) : la = none →
      yylex E.T E.sacts E.w E.ic E.lexFuel s = (s', .eof) → Fetched E la s 0 {} s'
  | incl (s' : ScanState) (t : Nat) (text : Bytes) (file : Option Bytes) (line : Nat) : la = none →
      yylex E.T E.sacts E.w E.ic E.lexFuel s = (s', .includeError t text file line) →
      Fetched E la s t {} s'

/-- Case analysis of one step, finest version: every ending exit is `.inl`; the reduce and shift
exits say which rule is reduced / which state is pushed, that the stack is below the limit and
its top is not the final state, and how lookahead and scanner state were obtained. -/
theorem yystep_ind3 (E : ParserEnv) (X : PState)
    (Q : Sum (ScanState × ParseCtx × ParseResult) PState → Prop)
    (h_inl : ∀ r, Q (.inl r))
    (h_red : ∀ rule yyval la1 s1 c', X.stack ≠ [] → X.stack.length < E.P.maxDepth →
      topState X.stack ≠ E.P.final →
      ((la1 = X.la ∧ s1 = X.s) ∨ ∃ t v, Fetched E X.la X.s t v s1 ∧ la1 = some (t, v)) →
      ReduceBy E.P (topState X.stack) rule →
      Q (.inr ⟨(gotoTarget E.P rule (topState (X.stack.drop (E.P.r2.get rule).toNat)), yyval) ::
        X.stack.drop (E.P.r2.get rule).toNat, la1, s1, c'⟩))
    (h_shift : ∀ t a v s1 c1, X.stack ≠ [] → X.stack.length < E.P.maxDepth →
      topState X.stack ≠ E.P.final → Fetched E X.la X.s t v s1 →
      Action E.P (topState X.stack) (translateTok E.P t) a → 0 < a →
      Q (.inr ⟨(a.toNat, v) :: X.stack, none, s1, c1⟩)) :
    Q (yystep E X) := by
  rcases X with ⟨stack, la, s, ctx⟩
  dsimp only at h_red h_shift
  rcases stack with _ | ⟨⟨state, v0⟩, tail⟩
  · exact h_inl _
  have hne : ((state, v0) :: tail) ≠ [] := by simp
  unfold yystep
  dsimp -zeta only
  extract_lets P v reduce syn r dflt yyn src fetched
  split
  · exact h_inl _
  rename_i hge
  have hlt : ((state, v0) :: tail).length < E.P.maxDepth := Nat.lt_of_not_le hge
  split
  · exact h_inl _
  rename_i hfin
  have hnf : topState ((state, v0) :: tail) ≠ E.P.final := by
    intro h
    apply hfin
    show (state == E.P.final) = true
    rw [show state = E.P.final from h]
    exact beq_self_eq_true _
  have hsyn : ∀ s1 c1, Q (syn s1 c1) := fun s1 c1 => h_inl _
  have hred : ∀ rule la1 s1 c1,
      ((la1 = la ∧ s1 = s) ∨ ∃ t v, Fetched E la s t v s1 ∧ la1 = some (t, v)) →
      ReduceBy E.P state rule → Q (reduce rule la1 s1 c1) := by
    intro rule la1 s1 c1 hs1 hrule
    simp only [reduce]
    split
    · exact h_inl _
    · exact h_inl _
    · exact h_red rule _ _ _ _ hne hlt hnf hs1 hrule
  have hdflt : ∀ la1 s1 c1,
      ((la1 = la ∧ s1 = s) ∨ ∃ t v, Fetched E la s t v s1 ∧ la1 = some (t, v)) →
      Q (dflt la1 s1 c1) := by
    intro la1 s1 c1 hs1
    simp only [dflt]
    split
    · exact hsyn _ _
    · rename_i hr0
      exact hred _ _ _ _ hs1 (.inl ⟨rfl, by simpa using hr0⟩)
  have hfetch : ∀ t v, fetched.2.1 = some (t, v) → fetched.2.2.1 = none →
      Fetched E la s t v fetched.1 := by
    intro t v
    simp only [fetched]
    split
    · intro h _; cases h; exact .have _ _ rfl
    · split
      · rename_i heq; intro h _; cases h; exact .tok _ _ _ rfl heq
      · rename_i heq; intro h _; cases h; exact .eof _ rfl heq
      · rename_i heq; intro h _; cases h; exact .incl _ _ _ _ _ rfl heq
      · intro h; cases h
      · intro h; cases h
  clear_value fetched dflt syn reduce
  split
  · exact hdflt _ _ _ (.inl ⟨rfl, rfl⟩)
  rename_i hpact
  have hpact' : E.P.pact.get state ≠ E.P.pactNinf := by simpa [yyn, P] using hpact
  rcases fetched with ⟨s1, _ | ⟨t, v⟩, _ | r1, c1⟩
  · exact h_inl _
  · exact h_inl _
  · have hf : Fetched E la s t v s1 := hfetch t v rfl rfl
    dsimp -zeta only
    extract_lets tok idx a
    split
    · exact hdflt _ _ _ (.inr ⟨t, v, hf, rfl⟩)
    rename_i hguard
    have hact : Action E.P state (translateTok E.P t) a := by
      simp only [Bool.or_eq_true, decide_eq_true_eq, bne_iff_ne, ne_eq, not_or, Int.not_lt,
        Decidable.not_not] at hguard
      exact ⟨hpact', hguard.1.1, hguard.1.2, hguard.2, rfl⟩
    split
    · rename_i hle
      split
      · exact hsyn _ _
      · rename_i hninf
        exact hred _ _ _ _ (.inr ⟨t, v, hf, rfl⟩) (.inr ⟨t, a, hact, hle, by simpa using hninf, rfl⟩)
    · rename_i hpos
      exact h_shift t a _ _ _ hne hlt hnf hf hact (Int.not_le.mp hpos)
  · exact h_inl _

/-- the iteration from `X` to `Y` consumed the token `(t, v)`: it was the lookahead (fetched
from the scanner if there was none), the action table has a shift `a` for its kind in the top
state, and `Y` is `X` with the target state pushed and no lookahead -/
def Shifts (E : ParserEnv) (X Y : PState) : Prop :=
  ∃ t v a, Fetched E X.la X.s t v Y.s ∧ Action E.P (topState X.stack) (translateTok E.P t) a ∧
    0 < a ∧ Y.stack = (a.toNat, v) :: X.stack ∧ Y.la = none

/-- the iteration from `X` to `Y` reduced by `rule`: the tables call for it in the top state,
`yyr2[rule]` entries are dropped, the goto of the uncovered state is pushed; the lookahead and
the scanner state are unchanged, or the lookahead was fetched in this iteration -/
def Reduces (E : ParserEnv) (X Y : PState) (rule : Nat) : Prop :=
  ReduceBy E.P (topState X.stack) rule ∧
  (∃ yyval, Y.stack =
    (gotoTarget E.P rule (topState (X.stack.drop (E.P.r2.get rule).toNat)), yyval) ::
      X.stack.drop (E.P.r2.get rule).toNat) ∧
  ((Y.la = X.la ∧ Y.s = X.s) ∨ ∃ t v, Fetched E X.la X.s t v Y.s ∧ Y.la = some (t, v))

/-- every iteration that continues is a shift or a reduction, is made below the stack limit
and with a top state other than the final one -/
theorem yystep_inr (E : ParserEnv) (X Y : PState) (h : yystep E X = .inr Y) :
    X.stack ≠ [] ∧ X.stack.length < E.P.maxDepth ∧ topState X.stack ≠ E.P.final ∧
    (Shifts E X Y ∨ ∃ rule, Reduces E X Y rule) := by
  revert h
  refine yystep_ind3 E X (fun o => o = .inr Y →
    X.stack ≠ [] ∧ X.stack.length < E.P.maxDepth ∧ topState X.stack ≠ E.P.final ∧
    (Shifts E X Y ∨ ∃ rule, Reduces E X Y rule)) ?_ ?_ ?_
  · intro r h; cases h
  · intro rule yyval la1 s1 c' hne hlt hnf hla hrule h
    cases h
    exact ⟨hne, hlt, hnf, .inr ⟨rule, hrule, ⟨yyval, rfl⟩, hla⟩⟩
  · intro t a v s1 c1 hne hlt hnf hf hact hpos h
    cases h
    exact ⟨hne, hlt, hnf, .inl ⟨t, v, a, hf, hact, hpos, rfl, rfl⟩⟩

/-- in the final state the loop ends -/
theorem yystep_final (E : ParserEnv) (X : PState) (hne : X.stack ≠ [])
    (h : topState X.stack = E.P.final) :
    yystep E X = .inl (X.s, X.ctx.yyerror X.s.buf.lineno Generated.ERR_EXHAUSTED, .exhausted) ∨
    yystep E X = .inl (X.s, X.ctx, .accept) := by
  rcases X with ⟨stack, la, s, ctx⟩
  rcases stack with _ | ⟨⟨state, v0⟩, tail⟩
  · exact (hne rfl).elim
  have hst : state = E.P.final := h
  unfold yystep
  dsimp -zeta only
  extract_lets P
  split
  · exact .inl rfl
  · right
    rw [if_pos (by rw [hst]; exact beq_self_eq_true _)]

/-! ### the stack is a path of certificate edges -/

/-- the state stack (top first) is a path of certificate edges from state 0 at the bottom -/
inductive StackPath (ed : List (Nat × Nat)) : List (Nat × TokVal) → Prop where
  | base (v : TokVal) : StackPath ed [(0, v)]
  | push (p q : Nat) (v v' : TokVal) (rest : List (Nat × TokVal)) :
      StackPath ed ((p, v) :: rest) → (p, q) ∈ ed → StackPath ed ((q, v') :: (p, v) :: rest)

theorem StackPath.ne_nil {ed : List (Nat × Nat)} {stack : List (Nat × TokVal)} (h : StackPath ed stack) :
    stack ≠ [] := by
  cases h <;> simp

theorem StackPath.top_lt {P : LalrTables} {ed : List (Nat × Nat)} (F : C02P.Facts P ed)
    {stack : List (Nat × TokVal)} (h : StackPath ed stack) : topState stack < P.nstates := by
  cases h with
  | base => exact F.zero_lt
  | push p q v v' rest h0 he => exact (F.ed_ok _ _ he).2.2

/-- popping a handle that every backward path spells: the pop stays above the bottom -/
theorem pop_spells {P : LalrTables} {ed : List (Nat × Nat)} {k : Nat → Bool} :
    ∀ (βr : List Nat) (s : Nat) (v : TokVal) (rest : List (Nat × TokVal)),
      StackPath ed ((s, v) :: rest) → C02P.spellsRev P ed k βr s = true →
      ∃ p v' rest', ((s, v) :: rest).drop βr.length = (p, v') :: rest' ∧
        StackPath ed ((p, v') :: rest') ∧ k p = true := by
  intro βr
  induction βr with
  | nil =>
    intro s v rest hp hs
    exact ⟨s, v, rest, rfl, hp, hs⟩
  | cons X βr ih =>
    intro s v rest hp hs
    rw [C02P.spellsRev] at hs
    simp only [Bool.and_eq_true] at hs
    obtain ⟨⟨_, hs0⟩, hall⟩ := hs
    have hs0 : s ≠ 0 := C02P.not_beq hs0
    cases hp with
    | base => exact absurd rfl hs0
    | push p _ v0 _ rest0 h0 he =>
      have hsp := C02P.all_pred hall he
      obtain ⟨p', v', rest', hd, hpath, hk⟩ := ih p v0 rest0 h0 hsp
      exact ⟨p', v', rest', by simpa using hd, hpath, hk⟩

/-- whatever a pop of `n` entries uncovers satisfies what holds at the end of every backward
path of `n` certificate edges -/
theorem pop_back {ed : List (Nat × Nat)} {k : Nat → Bool} :
    ∀ (n s : Nat) (v : TokVal) (rest : List (Nat × TokVal)) (p : Nat) (v' : TokVal)
      (rest' : List (Nat × TokVal)),
      StackPath ed ((s, v) :: rest) → backAll ed k n s = true →
      ((s, v) :: rest).drop n = (p, v') :: rest' → k p = true := by
  intro n
  induction n with
  | zero =>
    intro s v rest p v' rest' _ hb hd
    rw [List.drop_zero] at hd
    cases hd
    exact hb
  | succ n ih =>
    intro s v rest p v' rest' hp hb hd
    rw [backAll] at hb
    cases hp with
    | base => simp at hd
    | push p0 _ v0 _ rest0 h0 he =>
      have hb' := C02P.all_pred hb he
      exact ih p0 v0 rest0 p v' rest' h0 hb' (by simpa using hd)

/-! ### from the dynamic description of an action to the static checks -/

theorem actAt_of_action {P : LalrTables} {s tok : Nat} {a : Int} (h : Action P s tok a) :
    C02P.actAt P s tok = some a := by
  obtain ⟨hp, h0, hl, hc, rfl⟩ := h
  unfold C02P.actAt
  simp only
  rw [if_neg (by simpa using hp), if_neg]
  simp only [Bool.or_eq_true, decide_eq_true_eq, bne_iff_ne, ne_eq, not_or, Int.not_lt,
    Decidable.not_not]
  exact ⟨⟨h0, hl⟩, hc⟩

theorem gotoTarget_eq (P : LalrTables) (rule top : Nat) :
    gotoTarget P rule top = C02P.gotoTo P top (P.r1.get rule).toNat := rfl

/-- a reduction the loop makes was justified by the static check of C02 -/
theorem reduceBy_ruleOK {P : LalrTables} {ed : List (Nat × Nat)} (F : C02P.Facts P ed) {s rule : Nat}
    (hs : s < P.nstates) (hne : s ≠ P.final) (h : ReduceBy P s rule) :
    C02P.ruleOK P ed s rule = true := by
  have hst := F.st s hs hne
  unfold C02P.stateOK at hst
  simp only [Bool.and_eq_true, Bool.or_eq_true] at hst
  rcases h with ⟨rfl, h0⟩ | ⟨t, a, hact, hle, hn, rfl⟩
  · rcases hst.1 with h1 | h1
    · exact absurd (Nat.eq_of_beq_eq_true h1) h0
    · exact h1
  · have hent := C02P.allBelow_spec hst.2 _ (C02P.translateTok_lt F t)
    unfold C02P.entryOK at hent
    rw [actAt_of_action hact] at hent
    simp only at hent
    rw [if_pos hle] at hent
    simp only [Bool.or_eq_true] at hent
    rcases hent with h1 | h1
    · exact absurd (by simpa using h1) hn
    · exact h1

/-- a reduction the loop makes is covered by the ranking check -/
theorem reduceBy_rankOK {P : LalrTables} {ed : List (Nat × Nat)} {rk : List Nat} {R : Nat}
    (F : C02P.Facts P ed) (RF : RankFacts P ed rk R) {s rule : Nat}
    (hs : s < P.nstates) (hne : s ≠ P.final) (h : ReduceBy P s rule) :
    redRankOK P ed rk s rule = true := by
  have hst := RF.st s hs hne
  unfold stateRankOK at hst
  simp only [Bool.and_eq_true, Bool.or_eq_true] at hst
  rcases h with ⟨rfl, h0⟩ | ⟨t, a, hact, hle, hn, rfl⟩
  · rcases hst.1 with h1 | h1
    · exact absurd (Nat.eq_of_beq_eq_true h1) h0
    · exact h1
  · have hent := C02P.allBelow_spec hst.2 _ (C02P.translateTok_lt F t)
    unfold entryRankOK at hent
    rw [actAt_of_action hact] at hent
    simp only at hent
    rw [if_pos hle] at hent
    simp only [Bool.or_eq_true] at hent
    rcases hent with h1 | h1
    · exact absurd (by simpa using h1) hn
    · exact h1

/-- a shift the loop makes follows a certificate edge; the end marker is shifted only into the
final state -/
theorem shift_edge {P : LalrTables} {ed : List (Nat × Nat)} (F : C02P.Facts P ed) {s t : Nat} {a : Int}
    (hs : s < P.nstates) (hne : s ≠ P.final) (hact : Action P s (translateTok P t) a) (hpos : 0 < a) :
    (s, a.toNat) ∈ ed ∧ (translateTok P t = 0 → a.toNat = P.final) := by
  have hst := F.st s hs hne
  unfold C02P.stateOK at hst
  simp only [Bool.and_eq_true] at hst
  have hent := C02P.allBelow_spec hst.2 _ (C02P.translateTok_lt F t)
  unfold C02P.entryOK at hent
  rw [actAt_of_action hact] at hent
  simp only at hent
  rw [if_neg (by omega)] at hent
  unfold C02P.shiftOK at hent
  simp only [Bool.and_eq_true] at hent
  obtain ⟨⟨hedge, _⟩, hcase⟩ := hent
  refine ⟨C02P.edgeB_mem hedge, ?_⟩
  intro h0
  rw [h0] at hcase
  simp only [Nat.beq_refl, if_true, Bool.and_eq_true] at hcase
  exact Nat.eq_of_beq_eq_true hcase.1.1.1

/-! ### G1: no underflow -/

/-- **No underflow.**  When the stack is a certificate path and the tables call for a reduction
by `rule` in its top state (not the final one), the stack holds MORE than `yyr2[rule]` entries:
the pop uncovers a real entry `(p, v')`, the rest is again a certificate path, and the goto of
`p` is a certificate edge into a state other than the final one. -/
theorem no_underflow {P : LalrTables} {ed : List (Nat × Nat)} (F : C02P.Facts P ed)
    {stack : List (Nat × TokVal)} (hp : StackPath ed stack) (hne : topState stack ≠ P.final) {rule : Nat}
    (h : ReduceBy P (topState stack) rule) :
    (P.r2.get rule).toNat < stack.length ∧
    ∃ p v' rest', stack.drop (P.r2.get rule).toNat = (p, v') :: rest' ∧ StackPath ed ((p, v') :: rest') ∧
      (p, gotoTarget P rule p) ∈ ed ∧ gotoTarget P rule p ≠ P.final := by
  have hr := reduceBy_ruleOK F (hp.top_lt F) hne h
  unfold C02P.ruleOK at hr
  simp only [Bool.and_eq_true] at hr
  obtain ⟨⟨⟨_, hlen⟩, hlhs⟩, hsp⟩ := hr
  have hlen := Nat.eq_of_beq_eq_true hlen
  have hlhs := Nat.eq_of_beq_eq_true hlhs
  rcases stack with _ | ⟨⟨s, v⟩, rest⟩
  · exact absurd rfl hp.ne_nil
  obtain ⟨p, v', rest', hd, hpath, hk⟩ := pop_spells _ _ _ _ hp hsp
  rw [List.length_reverse, ← hlen] at hd
  unfold C02P.gotoOK at hk
  simp only [Bool.and_eq_true] at hk
  obtain ⟨⟨hedge, _⟩, hnf⟩ := hk
  rw [← hlhs] at hedge hnf
  refine ⟨?_, p, v', rest', hd, hpath, C02P.edgeB_mem hedge, C02P.not_beq hnf⟩
  apply Classical.byContradiction
  intro hge
  rw [List.drop_eq_nil_of_le (Nat.le_of_not_lt hge)] at hd
  cases hd

/-- the path invariant is kept by every iteration -/
theorem step_path {E : ParserEnv} {ed : List (Nat × Nat)} (F : C02P.Facts E.P ed) {X Y : PState}
    (hp : StackPath ed X.stack) (h : yystep E X = .inr Y) : StackPath ed Y.stack := by
  obtain ⟨_, _, hnf, hsh | ⟨rule, hrule, ⟨yyval, hst⟩, _⟩⟩ := yystep_inr E X Y h
  · obtain ⟨t, v, a, _, hact, hpos, hst, _⟩ := hsh
    have he := (shift_edge F (hp.top_lt F) hnf hact hpos).1
    rw [hst]
    rcases hX : X.stack with _ | ⟨⟨s, v0⟩, rest⟩
    · exact absurd hX hp.ne_nil
    · rw [hX] at hp he
      exact .push _ _ _ _ _ hp he
  · obtain ⟨_, p, v', rest', hd, hpath, hedge, _⟩ := no_underflow F hp hnf hrule
    rw [hst, hd]
    exact .push _ _ _ _ _ hpath hedge

theorem reach_path {E : ParserEnv} {ed : List (Nat × Nat)} (F : C02P.Facts E.P ed)
    (s : ScanState) (ctx : ParseCtx) (X : PState) (h : Reach E (initial s ctx) X) :
    StackPath ed X.stack := by
  induction h with
  | refl => exact .base _
  | step _ hs ih => exact step_path F ih hs

/-! ### G2: every iteration consumes a token or lowers the rank -/

/-- a reduction lowers the rank of the top state -/
theorem reduce_rank {P : LalrTables} {ed : List (Nat × Nat)} {rk : List Nat} {R : Nat}
    (F : C02P.Facts P ed) (RF : RankFacts P ed rk R)
    {stack : List (Nat × TokVal)} (hp : StackPath ed stack) (hne : topState stack ≠ P.final) {rule : Nat}
    (h : ReduceBy P (topState stack) rule) :
    rkOf rk (gotoTarget P rule (topState (stack.drop (P.r2.get rule).toNat))) <
      rkOf rk (topState stack) := by
  obtain ⟨_, p, v', rest', hd, _, _, _⟩ := no_underflow F hp hne h
  have hr := reduceBy_rankOK F RF (hp.top_lt F) hne h
  unfold redRankOK at hr
  rcases stack with _ | ⟨⟨s, v⟩, rest⟩
  · exact absurd rfl hp.ne_nil
  have := pop_back _ _ _ _ _ _ _ hp hr hd
  rw [hd]
  exact C02P.blt_lt this

/-- **Dichotomy.**  From a certificate path, an iteration that continues either consumes the
lookahead token or lowers the rank of the top state. -/
theorem step_dichotomy {E : ParserEnv} {ed : List (Nat × Nat)} {rk : List Nat} {R : Nat}
    (F : C02P.Facts E.P ed) (RF : RankFacts E.P ed rk R) {X Y : PState}
    (hp : StackPath ed X.stack) (h : yystep E X = .inr Y) :
    Shifts E X Y ∨ rkOf rk (topState Y.stack) < rkOf rk (topState X.stack) := by
  obtain ⟨_, _, hnf, hsh | ⟨rule, hrule, ⟨yyval, hst⟩, _⟩⟩ := yystep_inr E X Y h
  · exact .inl hsh
  · right
    rw [hst]
    exact reduce_rank F RF hp hnf hrule

/-- `k` consecutive iterations from `X` to `Y`, none of which consumes a token -/
inductive Quiet (E : ParserEnv) (X : PState) : Nat → PState → Prop where
  | refl : Quiet E X 0 X
  | step {k : Nat} {Y Z : PState} : Quiet E X k Y → yystep E Y = .inr Z → ¬ Shifts E Y Z →
      Quiet E X (k + 1) Z

theorem quiet_path {E : ParserEnv} {ed : List (Nat × Nat)} (F : C02P.Facts E.P ed) {X Y : PState}
    {k : Nat} (hp : StackPath ed X.stack) (h : Quiet E X k Y) : StackPath ed Y.stack := by
  induction h with
  | refl => exact hp
  | step _ hs _ ih => exact step_path F ih hs

/-- a run of `k` iterations that consume no token lowers the rank of the top state by at
least `k` -/
theorem quiet_rank {E : ParserEnv} {ed : List (Nat × Nat)} {rk : List Nat} {R : Nat}
    (F : C02P.Facts E.P ed) (RF : RankFacts E.P ed rk R) {X Y : PState} {k : Nat}
    (hp : StackPath ed X.stack) (h : Quiet E X k Y) :
    k + rkOf rk (topState Y.stack) ≤ rkOf rk (topState X.stack) := by
  induction h with
  | refl => omega
  | step hq hs hns ih =>
    rcases step_dichotomy F RF (quiet_path F hp hq) hs with h1 | h1
    · exact absurd h1 hns
    · omega

/-- hence there are at most `R` of them in a row -/
theorem quiet_bound {E : ParserEnv} {ed : List (Nat × Nat)} {rk : List Nat} {R : Nat}
    (F : C02P.Facts E.P ed) (RF : RankFacts E.P ed rk R) {X Y : PState} {k : Nat}
    (hp : StackPath ed X.stack) (h : Quiet E X k Y) : k ≤ R := by
  have h1 := quiet_rank F RF hp h
  have h2 := RF.le _ (hp.top_lt F)
  omega

end Libconfig.C03T
