import LibconfigModel.BisonStack
/-
  C03S, part 1: what each piece of the stack code of grammar.c (`BisonStack.lean`) does to the
  state, as equations with the log delta made explicit, and the invariant `Inv` along every
  execution.
-/
namespace Libconfig.C03SP

open Libconfig Libconfig.BisonStack

variable {V : Type}

/-! ### the test -/

theorem fullTestC_iff (sz off : Nat) : fullTestC sz off = true ↔ sz ≤ off + 1 := by
  unfold fullTestC
  rw [decide_eq_true_iff]
  omega

theorem fullTestSeeded_iff (sz off : Nat) : fullTestSeeded sz off = true ↔ sz < off + 1 := by
  unfold fullTestSeeded
  rw [decide_eq_true_iff]
  omega

/-! ### slots -/

theorem isInit_set_self {α : Type} (l : List (Option α)) (i : Nat) (x : α) (h : i < l.length) :
    isInit (l.set i (some x)) i = true := by
  unfold isInit
  rw [List.getElem?_set_self h]

theorem isInit_set_ne {α : Type} (l : List (Option α)) (i j : Nat) (x : Option α) (h : j ≠ i) :
    isInit (l.set j x) i = isInit l i := by
  unfold isInit
  rw [List.getElem?_set_ne h]

theorem isInit_lt {α : Type} (l : List (Option α)) (i : Nat) (h : isInit l i = true) : i < l.length := by
  unfold isInit at h
  cases hx : l[i]? with
  | none => rw [hx] at h; cases h
  | some _ => exact (List.getElem?_eq_some_iff.mp hx).1

theorem length_relocate {α : Type} (old : List (Option α)) (n sz : Nat) (h1 : n ≤ old.length)
    (h2 : n ≤ sz) : (relocate old n sz).length = sz := by
  unfold relocate
  rw [List.length_append, List.length_take, List.length_replicate]
  omega

theorem take_relocate {α : Type} (old : List (Option α)) (n sz : Nat) (h1 : n ≤ old.length) :
    (relocate old n sz).take n = old.take n := by
  unfold relocate
  rw [List.take_append_of_le_length (by rw [List.length_take]; omega)]
  rw [List.take_take, Nat.min_self]

theorem getElem?_relocate {α : Type} (old : List (Option α)) (n sz i : Nat) (h1 : n ≤ old.length)
    (hi : i < n) : (relocate old n sz)[i]? = old[i]? := by
  unfold relocate
  rw [List.getElem?_append_left (by rw [List.length_take]; omega), List.getElem?_take_of_lt hi]

theorem isInit_relocate {α : Type} (old : List (Option α)) (n sz i : Nat) (h1 : n ≤ old.length)
    (hi : i < n) : isInit (relocate old n sz) i = isInit old i := by
  unfold isInit
  rw [getElem?_relocate old n sz i h1 hi]

/-- the slots behind the copied prefix are as `YYSTACK_ALLOC` delivered them -/
theorem getElem?_relocate_ge {α : Type} (old : List (Option α)) (n sz i : Nat) (h1 : n ≤ old.length)
    (hi : n ≤ i) (h2 : i < sz) : (relocate old n sz)[i]? = some none := by
  unfold relocate
  rw [List.getElem?_append_right (by rw [List.length_take]; omega), List.length_take,
    Nat.min_eq_left h1, List.getElem?_replicate]
  rw [if_pos (by omega)]

/-- The element loop of `YYCOPY` into fresh memory leaves what `relocate` says. -/
theorem yycopy_spec {α : Type} (src : List (Option α)) :
    ∀ (n i : Nat) (dst : List (Option α)), i + n ≤ src.length → i + n ≤ dst.length →
      yycopy n i src dst = dst.take i ++ (src.drop i).take n ++ dst.drop (i + n) := by
  intro n
  induction n with
  | zero =>
    intro i dst _ _
    simp [yycopy]
  | succ n ih =>
    intro i dst h1 h2
    rw [yycopy, ih (i + 1) _ (by omega) (by rw [List.length_set]; omega)]
    have hi : i < src.length := by omega
    have hd : i < dst.length := by omega
    have hg : src.getD i none = src[i] := by
      rw [List.getD_eq_getElem?_getD, List.getElem?_eq_getElem hi]; rfl
    rw [List.drop_set_of_lt (by omega), List.take_add_one, List.getElem?_set_self hd,
      List.take_set_of_le (Nat.le_refl i), hg]
    rw [show (src.drop i).take (n + 1) = src[i] :: (src.drop (i + 1)).take n by
      rw [List.drop_eq_getElem_cons hi, List.take_succ_cons]]
    simp [Nat.add_assoc, Nat.add_comm 1 n]

theorem yycopy_eq_relocate {α : Type} (old : List (Option α)) (n sz : Nat) (h1 : n ≤ old.length)
    (h2 : n ≤ sz) : yycopy n 0 old (List.replicate sz none) = relocate old n sz := by
  rw [yycopy_spec old n 0 _ (by omega) (by rw [List.length_replicate]; omega)]
  unfold relocate
  simp

/-! ### `yyreturnlab` -/

/-- a plain load or store in the block `b` of `cap` slots -/
def plain (b : Blk) (cap : Nat) : Access → Prop
  | .storeS b' c _ => b' = b ∧ c = cap
  | .storeV b' c _ => b' = b ∧ c = cap
  | .loadS b' c _ _ => b' = b ∧ c = cap
  | .loadV b' c _ _ => b' = b ∧ c = cap
  | .garbageV b' c _ => b' = b ∧ c = cap
  | _ => False

/-- `if (b != yyssa) YYSTACK_FREE (b);` -/
def freeOf : Blk → List Access
  | .auto => []
  | .heap id => [.free (.heap id)]

/-- the cleanup loop empties the stack down to its bottom entry, loading initialised slots of
the current block only -/
theorem cleanup_spec : ∀ (fuel : Nat) (s : State V), s.ssp ≤ fuel → s.vsp = s.ssp →
    s.ssp < s.ss.length → s.vs.length = s.ss.length →
    (∀ i, i ≤ s.ssp → isInit s.ss i = true) → (∀ i, 1 ≤ i → i ≤ s.vsp → isInit s.vs i = true) →
    ∃ new, cleanup fuel s = { s with ssp := 0, vsp := 0, log := new ++ s.log } ∧
      ∀ a ∈ new, a.ok ∧ plain s.loc s.ss.length a := by
  intro fuel
  induction fuel with
  | zero =>
    intro s hf hsame _ _ _ _
    refine ⟨[], ?_, by simp⟩
    have h0 : s.ssp = 0 := by omega
    rw [cleanup]
    cases s
    simp_all
  | succ fuel ih =>
    intro s hf hsame htop hcap hS hV
    rw [cleanup]
    split
    · rename_i h0
      refine ⟨[], ?_, by simp⟩
      cases s
      simp_all
    · rename_i h0
      obtain ⟨new, heq, hnew⟩ := ih
        { s with ssp := s.ssp - 1, vsp := s.vsp - 1,
                 log := .loadV s.loc s.vs.length s.vsp (isInit s.vs s.vsp) ::
                        .loadS s.loc s.ss.length s.ssp (isInit s.ss s.ssp) :: s.log }
        (by show s.ssp - 1 ≤ fuel; omega) (by show s.vsp - 1 = s.ssp - 1; omega)
        (by show s.ssp - 1 < s.ss.length; omega) hcap
        (fun i hi => hS i (by have : i ≤ s.ssp - 1 := hi; omega))
        (fun i h1 hi => hV i h1 (by have : i ≤ s.vsp - 1 := hi; omega))
      refine ⟨new ++ [.loadV s.loc s.vs.length s.vsp (isInit s.vs s.vsp),
        .loadS s.loc s.ss.length s.ssp (isInit s.ss s.ssp)], ?_, ?_⟩
      · rw [heq]
        simp
      · intro a ha
        rcases List.mem_append.mp ha with ha | ha
        · exact hnew a ha
        · simp only [List.mem_cons, List.not_mem_nil, or_false] at ha
          rcases ha with rfl | rfl
          · exact ⟨⟨by rw [hcap, hsame]; exact htop, hV _ (by omega) (Nat.le_refl _)⟩, rfl, hcap⟩
          · exact ⟨⟨htop, hS _ (Nat.le_refl _)⟩, rfl, rfl⟩

/-- `yyreturnlab` with `yylen ≤ yyssp - yyss`: the stack is emptied with in-bounds loads of the
current block, the block is released if it is not the automatic one, `yyparse` returns -/
theorem returnLab_spec (r : Result) (len : Nat) (s : State V) (hlen : len ≤ s.ssp)
    (hsame : s.vsp = s.ssp) (htop : s.ssp < s.ss.length) (hcap : s.vs.length = s.ss.length)
    (hS : ∀ i, i ≤ s.ssp → isInit s.ss i = true) (hV : ∀ i, 1 ≤ i → i ≤ s.vsp → isInit s.vs i = true) :
    ∃ new, returnLab r len s =
        { s with ssp := 0, vsp := 0, status := .done r, log := freeOf s.loc ++ (new ++ s.log) } ∧
      ∀ a ∈ new, a.ok ∧ plain s.loc s.ss.length a := by
  obtain ⟨new, heq, hnew⟩ := cleanup_spec (s.ssp - len) { s with ssp := s.ssp - len, vsp := s.vsp - len }
    (Nat.le_refl _) (by show s.vsp - len = s.ssp - len; omega) (by show s.ssp - len < s.ss.length; omega)
    hcap (fun i hi => hS i (by have : i ≤ s.ssp - len := hi; omega))
    (fun i h1 hi => hV i h1 (by have : i ≤ s.vsp - len := hi; omega))
  refine ⟨new, ?_, hnew⟩
  unfold returnLab
  rw [if_neg (by omega)]
  simp only [heq]
  cases hl : s.loc <;> simp [freeOf]

/-! ### `yysetstate` -/

/-- `yystacksize *= 2; if (YYMAXDEPTH < yystacksize) yystacksize = YYMAXDEPTH;` -/
def newSize (P : Params) (sz : Nat) : Nat := if P.M < 2 * sz then P.M else 2 * sz

/-- the state behind `*yyssp = yystate;` -/
def stored (st : Nat) (s : State V) : State V :=
  { s with ss := s.ss.set s.ssp (some st), log := .storeS s.loc s.ss.length s.ssp :: s.log }

/-- the state behind a successful extension of the stacks -/
def grown (P : Params) (st : Nat) (s : State V) : State V :=
  { s with loc := .heap s.nextId, stacksize := newSize P s.stacksize, nextId := s.nextId + 1
           ss := relocate (s.ss.set s.ssp (some st)) (s.ssp + 1) (newSize P s.stacksize)
           vs := relocate s.vs (s.ssp + 1) (newSize P s.stacksize)
           ssp := s.ssp, vsp := s.ssp
           log := freeOf s.loc ++
             ([.copyV s.loc s.vs.length (.heap s.nextId) (newSize P s.stacksize) (s.ssp + 1),
               .copyS s.loc s.ss.length (.heap s.nextId) (newSize P s.stacksize) (s.ssp + 1),
               .alloc (.heap s.nextId) (newSize P s.stacksize)] ++
              (.storeS s.loc s.ss.length s.ssp :: s.log)) }

/-- the state in which `yyreturnlab` is entered when `YYSTACK_ALLOC` fails -/
def failed (P : Params) (st : Nat) (s : State V) : State V :=
  { s with ss := s.ss.set s.ssp (some st), stacksize := newSize P s.stacksize
           log := .allocFail (newSize P s.stacksize) :: .storeS s.loc s.ss.length s.ssp :: s.log }

theorem lt_newSize (P : Params) (sz : Nat) (h0 : 0 < sz) (h : sz < P.M) : sz < newSize P sz := by
  unfold newSize
  split <;> omega

/-- The four ways through `yysetstate`, for the test of grammar.c, when `yyssp` points into
the block: (1) a slot is still spare behind `yyssp`: nothing but the store; (2) the last slot
was just filled and `yystacksize` is `YYMAXDEPTH` (or more): `YYNOMEM`; (3) the last slot was
filled, `YYSTACK_ALLOC` fails: `YYNOMEM` with `yystacksize` already raised; (4) the stacks move
into a new block of `newSize` slots — the second test, `YYABORT`, is not taken. -/
theorem setState_cases (P : Params) (hP : P.OK) (st : Nat) (ok : Bool) (s : State V) :
    (s.ssp + 1 < s.stacksize → setState P st ok s = stored st s) ∧
    (s.ssp + 1 = s.stacksize → P.M ≤ s.stacksize →
      setState P st ok s = returnLab .nomem 0 (stored st s)) ∧
    (s.ssp + 1 = s.stacksize → s.stacksize < P.M → ok = false →
      setState P st ok s = returnLab .nomem 0 (failed P st s)) ∧
    (s.ssp + 1 = s.stacksize → s.stacksize < P.M → ok = true →
      setState P st ok s = grown P st s) := by
  have ht : ∀ a b, P.test a b = true ↔ a ≤ b + 1 := fun a b => by rw [hP.test]; exact fullTestC_iff a b
  refine ⟨fun h => ?_, fun h hM => ?_, fun h hM hok => ?_, fun h hM hok => ?_⟩
  · unfold setState
    simp only
    rw [if_neg (by rw [ht]; omega)]
    rfl
  · unfold setState
    simp only
    rw [if_pos (by rw [ht]; omega)]
    unfold growStack
    simp only
    rw [if_pos hM]
    rfl
  · unfold setState
    simp only
    rw [if_pos (by rw [ht]; omega)]
    unfold growStack
    simp only
    rw [if_neg (by omega), hok]
    rfl
  · unfold setState
    simp only
    rw [if_pos (by rw [ht]; omega)]
    unfold growStack
    simp only
    rw [if_neg (by omega), hok]
    simp only [Bool.not_true, Bool.false_eq_true, if_false]
    have hlt := lt_newSize P s.stacksize (by omega) hM
    have hsz : (if P.M < 2 * s.stacksize then P.M else 2 * s.stacksize) = newSize P s.stacksize := rfl
    rw [hsz, if_neg (by rw [ht]; show ¬ newSize P s.stacksize ≤ s.ssp + 1 - 1 + 1; omega)]
    unfold grown
    cases hl : s.loc <;> simp [freeOf]

theorem freeOf_ok (b : Blk) : ∀ a ∈ freeOf b, a.ok := by
  cases b <;> simp [freeOf, Access.ok]

/-- `yyreturnlab` leaves a state satisfying the invariant -/
theorem inv_returnLab (P : Params) (r : Result) (len : Nat) (s : State V) (hlen : len ≤ s.ssp)
    (hsame : s.vsp = s.ssp) (htop : s.ssp < s.ss.length) (hcap : s.vs.length = s.ss.length)
    (hS : ∀ i, i ≤ s.ssp → isInit s.ss i = true) (hV : ∀ i, 1 ≤ i → i ≤ s.vsp → isInit s.vs i = true)
    (hsafe : ∀ a ∈ s.log, a.ok) (hsteps : s.nextId = 0 ∨ P.I * 2 ^ (s.nextId - 1) < P.M)
    (hwhere : s.loc = (match s.nextId with | 0 => .auto | k + 1 => .heap k)) :
    Inv P (returnLab r len s) := by
  obtain ⟨new, heq, hnew⟩ := returnLab_spec r len s hlen hsame htop hcap hS hV
  rw [heq]
  exact {
    safe := by
      intro a ha
      rcases List.mem_append.mp ha with ha | ha
      · exact freeOf_ok _ a ha
      · rcases List.mem_append.mp ha with ha | ha
        · exact (hnew a ha).1
        · exact hsafe a ha
    same := rfl
    capS := fun h => by cases h
    capV := hcap
    spare := fun h => by cases h
    top := by show 0 < s.ss.length; omega
    initS := fun i hi => hS i (by have : i ≤ 0 := hi; omega)
    initV := fun i h1 hi => by have : i ≤ 0 := hi; omega
    size := fun h => by cases h
    steps := hsteps
    where_ := hwhere }

/-- the conditions under which `yysetstate` is entered: `yyssp` points into the block, at a slot
that may not have been written yet -/
structure Pre (P : Params) (s : State V) : Prop where
  running : s.status = .running
  safe : ∀ a ∈ s.log, a.ok
  same : s.vsp = s.ssp
  capS : s.ss.length = s.stacksize
  capV : s.vs.length = s.ss.length
  room : s.ssp < s.stacksize
  initS : ∀ i, i < s.ssp → isInit s.ss i = true
  initV : ∀ i, 1 ≤ i → i ≤ s.vsp → isInit s.vs i = true
  size : s.stacksize = min (P.I * 2 ^ s.nextId) P.M
  steps : s.nextId = 0 ∨ P.I * 2 ^ (s.nextId - 1) < P.M
  where_ : s.loc = (match s.nextId with | 0 => .auto | k + 1 => .heap k)

theorem newSize_min (P : Params) (k : Nat) (h : min (P.I * 2 ^ k) P.M < P.M) :
    newSize P (min (P.I * 2 ^ k) P.M) = min (P.I * 2 ^ (k + 1)) P.M ∧ P.I * 2 ^ k < P.M := by
  have e : P.I * 2 ^ (k + 1) = 2 * (P.I * 2 ^ k) := by rw [Nat.pow_succ]; ac_rfl
  rw [e]
  generalize P.I * 2 ^ k = a at h ⊢
  unfold newSize
  split <;> omega

theorem initS_stored (st : Nat) (s : State V) (htop : s.ssp < s.ss.length)
    (hS : ∀ i, i < s.ssp → isInit s.ss i = true) :
    ∀ i, i ≤ s.ssp → isInit (s.ss.set s.ssp (some st)) i = true := by
  intro i hi
  rcases Nat.lt_or_eq_of_le hi with h | h
  · rw [isInit_set_ne _ _ _ _ (by omega)]; exact hS i h
  · rw [h]; exact isInit_set_self _ _ _ htop

theorem setState_inv (P : Params) (hP : P.OK) (st : Nat) (ok : Bool) (s : State V) (h : Pre P s) :
    Inv P (setState P st ok s) := by
  obtain ⟨c1, c2, c3, c4⟩ := setState_cases P hP st ok s
  have htop : s.ssp < s.ss.length := by rw [h.capS]; exact h.room
  have hS := initS_stored st s htop h.initS
  rcases Nat.lt_or_ge (s.ssp + 1) s.stacksize with hlt | hge
  · rw [c1 hlt]
    exact {
      safe := by
        intro a ha
        rcases List.mem_cons.mp ha with rfl | ha
        · exact htop
        · exact h.safe a ha
      same := h.same
      capS := fun _ => by show (s.ss.set _ _).length = _; rw [List.length_set]; exact h.capS
      capV := by show _ = (s.ss.set _ _).length; rw [List.length_set]; exact h.capV
      spare := fun _ => hlt
      top := by show _ < (s.ss.set _ _).length; rw [List.length_set]; exact htop
      initS := hS
      initV := h.initV
      size := fun _ => h.size
      steps := h.steps
      where_ := h.where_ }
  · have heq : s.ssp + 1 = s.stacksize := by have := h.room; omega
    rcases Nat.lt_or_ge s.stacksize P.M with hM | hM
    · cases ok with
      | false =>
        rw [c3 heq hM rfl]
        refine inv_returnLab P .nomem 0 (failed P st s) (Nat.zero_le _) h.same ?_ ?_ hS h.initV ?_
          h.steps h.where_
        · show _ < (s.ss.set _ _).length; rw [List.length_set]; exact htop
        · show _ = (s.ss.set _ _).length; rw [List.length_set]; exact h.capV
        · intro a ha
          rcases List.mem_cons.mp ha with rfl | ha
          · trivial
          · rcases List.mem_cons.mp ha with rfl | ha
            · exact htop
            · exact h.safe a ha
      | true =>
        rw [c4 heq hM rfl]
        have hlt := lt_newSize P s.stacksize (by omega) hM
        have hsz := h.size
        have hns := newSize_min P s.nextId (by rw [← hsz]; exact hM)
        rw [← hsz] at hns
        have hl1 : s.ssp + 1 ≤ (s.ss.set s.ssp (some st)).length := by rw [List.length_set]; omega
        have hl2 : s.ssp + 1 ≤ s.vs.length := by rw [h.capV]; omega
        exact {
          safe := by
            intro a ha
            rcases List.mem_append.mp ha with ha | ha
            · exact freeOf_ok _ a ha
            · simp only [List.cons_append, List.nil_append, List.mem_cons] at ha
              rcases ha with rfl | rfl | rfl | rfl | ha
              · exact ⟨hl2, by omega⟩
              · exact ⟨by omega, by omega⟩
              · exact ⟨(by intro hh; cases hh), by omega⟩
              · exact htop
              · exact h.safe a ha
          same := rfl
          capS := fun _ => length_relocate _ _ _ hl1 (by omega)
          capV := by
            show (relocate _ _ _).length = (relocate _ _ _).length
            rw [length_relocate _ _ _ hl1 (by omega), length_relocate _ _ _ hl2 (by omega)]
          spare := fun _ => by show s.ssp + 2 ≤ newSize P s.stacksize; omega
          top := by
            show s.ssp < (relocate _ _ _).length
            rw [length_relocate _ _ _ hl1 (by omega)]; omega
          initS := fun i hi => by
            have : i ≤ s.ssp := hi
            show isInit (relocate _ _ _) i = true
            rw [isInit_relocate _ _ _ _ hl1 (by omega)]
            exact hS i this
          initV := fun i h1 hi => by
            have : i ≤ s.ssp := hi
            show isInit (relocate _ _ _) i = true
            rw [isInit_relocate _ _ _ _ hl2 (by omega)]
            exact h.initV i h1 (by rw [h.same]; exact this)
          size := fun _ => hns.1
          steps := .inr hns.2
          where_ := rfl }
    · rw [c2 heq hM]
      refine inv_returnLab P .nomem 0 (stored st s) (Nat.zero_le _) h.same ?_ ?_ hS h.initV ?_
        h.steps h.where_
      · show _ < (s.ss.set _ _).length; rw [List.length_set]; exact htop
      · show _ = (s.ss.set _ _).length; rw [List.length_set]; exact h.capV
      · intro a ha
        rcases List.mem_cons.mp ha with rfl | ha
        · exact htop
        · exact h.safe a ha

/-! ### the events -/

/-- `*++yyvsp = v; yyssp++;` -/
def pushed (v : V) (s : State V) : State V :=
  { s with vsp := s.vsp + 1, vs := s.vs.set (s.vsp + 1) (some v), ssp := s.ssp + 1,
           log := .storeV s.loc s.vs.length (s.vsp + 1) :: s.log }

theorem shiftStep_eq (P : Params) (st : Nat) (v : V) (ok : Bool) (s : State V) :
    shiftStep P st v ok s = setState P st ok (pushed v s) := rfl

/-- thanks to the spare slot, the value store of a push is in bounds and `yyssp++` yields a
pointer to a slot of the block -/
theorem pre_pushed (P : Params) (v : V) (s : State V) (h : Inv P s) (hr : s.status = .running) :
    Pre P (pushed v s) := by
  have hsp := h.spare hr
  have hcS := h.capS hr
  have hcV := h.capV
  have hsame := h.same
  exact {
    running := hr
    safe := by
      intro a ha
      rcases List.mem_cons.mp ha with rfl | ha
      · show s.vsp + 1 < s.vs.length; omega
      · exact h.safe a ha
    same := by show s.vsp + 1 = s.ssp + 1; omega
    capS := hcS
    capV := by show (s.vs.set _ _).length = _; rw [List.length_set]; exact hcV
    room := by show s.ssp + 1 < s.stacksize; omega
    initS := fun i hi => h.initS i (by have : i < s.ssp + 1 := hi; omega)
    initV := fun i h1 hi => by
      have hi' : i ≤ s.vsp + 1 := hi
      show isInit (s.vs.set (s.vsp + 1) (some v)) i = true
      rcases Nat.lt_or_eq_of_le hi' with hlt | heq
      · rw [isInit_set_ne _ _ _ _ (by omega)]; exact h.initV i h1 (by omega)
      · rw [heq]; exact isInit_set_self _ _ _ (by omega)
    size := h.size hr
    steps := h.steps
    where_ := h.where_ }

theorem pre_log (P : Params) (a : Access) (s : State V) (h : Pre P s) (ha : a.ok) :
    Pre P { s with log := a :: s.log } :=
  { running := h.running
    safe := by
      intro b hb
      rcases List.mem_cons.mp hb with rfl | hb
      · exact ha
      · exact h.safe b hb
    same := h.same, capS := h.capS, capV := h.capV, room := h.room, initS := h.initS
    initV := h.initV, size := h.size, steps := h.steps, where_ := h.where_ }

/-- `YYPOPSTACK (n)` with `n ≤ yyssp - yyss` (and some in-bounds accesses) keeps the invariant -/
theorem inv_pop (P : Params) (n : Nat) (new : List Access) (s : State V) (h : Inv P s)
    (hn : n ≤ s.ssp) (hnew : ∀ a ∈ new, a.ok) :
    Inv P { s with ssp := s.ssp - n, vsp := s.vsp - n, log := new ++ s.log } :=
  { safe := by
      intro a ha
      rcases List.mem_append.mp ha with ha | ha
      · exact hnew a ha
      · exact h.safe a ha
    same := by show s.vsp - n = s.ssp - n; rw [h.same]
    capS := h.capS
    capV := h.capV
    spare := fun hr => by have := h.spare hr; show s.ssp - n + 2 ≤ s.stacksize; omega
    top := by have := h.top; show s.ssp - n < s.ss.length; omega
    initS := fun i hi => h.initS i (by have : i ≤ s.ssp - n := hi; omega)
    initV := fun i h1 hi => h.initV i h1 (by have : i ≤ s.vsp - n := hi; omega)
    size := h.size
    steps := h.steps
    where_ := h.where_ }

theorem inv_fault (P : Params) (s : State V) (h : Inv P s) : Inv P { s with status := .fault } :=
  { safe := h.safe
    same := h.same
    capS := fun hh => by cases hh
    capV := h.capV
    spare := fun hh => by cases hh
    top := h.top
    initS := h.initS
    initV := h.initV
    size := fun hh => by cases hh
    steps := h.steps
    where_ := h.where_ }

theorem shiftStep_inv (P : Params) (hP : P.OK) (st : Nat) (v : V) (ok : Bool) (s : State V)
    (h : Inv P s) (hr : s.status = .running) : Inv P (shiftStep P st v ok s) :=
  setState_inv P hP st ok _ (pre_pushed P v s h hr)

/-- `yyval = yyvsp[1-yylen];` -/
def preload (n : Nat) (s : State V) : Access :=
  if n = 0 then .garbageV s.loc s.vs.length (s.vsp + 1)
  else .loadV s.loc s.vs.length (s.vsp + 1 - n) (isInit s.vs (s.vsp + 1 - n))

/-- the state behind `YYPOPSTACK (yylen)` in `yyreduce` -/
def popped (n : Nat) (s : State V) : State V :=
  { s with ssp := s.ssp - n, vsp := s.vsp - n, log := [preload n s] ++ s.log }

/-- `yyreduce` is: the load of `yyvsp[1-yylen]`, the pop, then a push with the load of the
uncovered state in between -/
theorem reduceStep_eq (P : Params) (n st : Nat) (v : V) (ok : Bool) (s : State V) (hn : n ≤ s.ssp) :
    reduceStep P n st v ok s =
      setState P st ok
        { pushed v (popped n s) with
          log := .loadS s.loc s.ss.length (s.ssp - n) (isInit s.ss (s.ssp - n)) ::
            (pushed v (popped n s)).log } := by
  unfold reduceStep
  rw [if_neg (by omega)]
  rfl

/-- the load `yyval = yyvsp[1-yylen]` is in bounds; for `yylen ≥ 1` it reads a written slot,
for `yylen = 0` the spare slot above the top -/
theorem preload_ok (P : Params) (n : Nat) (s : State V) (h : Inv P s) (hr : s.status = .running)
    (hn : n ≤ s.ssp) : (preload n s).ok := by
  have hsp := h.spare hr
  have hcS := h.capS hr
  have hcV := h.capV
  have hsame := h.same
  unfold preload
  split
  · show s.vsp + 1 < s.vs.length; omega
  · exact ⟨by omega, h.initV _ (by omega) (by omega)⟩

theorem inv_popped (P : Params) (n : Nat) (s : State V) (h : Inv P s) (hr : s.status = .running)
    (hn : n ≤ s.ssp) : Inv P (popped n s) :=
  inv_pop P n [preload n s] s h hn (fun a ha => by
    rcases List.mem_cons.mp ha with rfl | ha
    · exact preload_ok P n s h hr hn
    · cases ha)

theorem reduceStep_inv (P : Params) (hP : P.OK) (n st : Nat) (v : V) (ok : Bool) (s : State V)
    (h : Inv P s) (hr : s.status = .running) : Inv P (reduceStep P n st v ok s) := by
  rcases Nat.lt_or_ge s.ssp n with hn | hn
  · unfold reduceStep
    rw [if_pos hn]
    exact inv_fault P s h
  · rw [reduceStep_eq P n st v ok s hn]
    have hi := inv_popped P n s h hr hn
    refine setState_inv P hP st ok _ (pre_log P _ _ (pre_pushed P v _ hi hr) ?_)
    exact ⟨by have := h.top; omega, h.initS _ (by omega)⟩

theorem errPop_inv (P : Params) : ∀ (k : Nat) (s : State V), Inv P s → Inv P (errPop k s) := by
  intro k
  induction k with
  | zero => intro s h; exact h
  | succ k ih =>
    intro s h
    rw [errPop]
    split
    · exact inv_returnLab P .abort 0 s (Nat.zero_le _) h.same h.top h.capV h.initS h.initV h.safe
        h.steps h.where_
    · rename_i h0
      refine ih _ (inv_pop P 1 [.loadS s.loc s.ss.length (s.ssp - 1) (isInit s.ss (s.ssp - 1)),
        .loadV s.loc s.vs.length s.vsp (isInit s.vs s.vsp)] s h (by omega) ?_)
      intro a ha
      simp only [List.mem_cons, List.not_mem_nil, or_false] at ha
      have htop := h.top
      rcases ha with rfl | rfl
      · exact ⟨by omega, h.initS _ (by omega)⟩
      · exact ⟨by rw [h.capV, h.same]; exact htop, h.initV _ (by rw [h.same]; omega) (Nat.le_refl _)⟩

/-- the error loop, asked for more pops than there are entries above the bottom, runs into
`if (yyssp == yyss) YYABORT;` -/
theorem errPop_status (P : Params) : ∀ (k : Nat) (s : State V), Inv P s → s.ssp < k →
    (errPop k s).status = .done .abort := by
  intro k
  induction k with
  | zero => intro s _ hk; omega
  | succ k ih =>
    intro s h hk
    rw [errPop]
    split
    · obtain ⟨new, he, _⟩ := returnLab_spec .abort 0 s (Nat.zero_le _) h.same h.top h.capV h.initS
        h.initV
      rw [he]
    · rename_i h0
      refine ih _ (inv_pop P 1 [.loadS s.loc s.ss.length (s.ssp - 1) (isInit s.ss (s.ssp - 1)),
        .loadV s.loc s.vs.length s.vsp (isInit s.vs s.vsp)] s h (by omega) ?_)
        (by show s.ssp - 1 < k; omega)
      intro a ha
      simp only [List.mem_cons, List.not_mem_nil, or_false] at ha
      have htop := h.top
      rcases ha with rfl | rfl
      · exact ⟨by omega, h.initS _ (by omega)⟩
      · exact ⟨by rw [h.capV, h.same]; exact htop, h.initV _ (by rw [h.same]; omega) (Nat.le_refl _)⟩

theorem finish_inv (P : Params) (r : Result) (len : Nat) (s : State V) (h : Inv P s) :
    Inv P (returnLab r len s) := by
  rcases Nat.lt_or_ge s.ssp len with hn | hn
  · unfold returnLab
    rw [if_pos hn]
    exact inv_fault P s h
  · exact inv_returnLab P r len s hn h.same h.top h.capV h.initS h.initV h.safe h.steps h.where_

theorem step_inv (P : Params) (hP : P.OK) (s : State V) (e : Event V) (h : Inv P s) :
    Inv P (step P s e) := by
  unfold step
  split
  · rename_i hr
    cases e with
    | shift st v ok => exact shiftStep_inv P hP st v ok s h hr
    | reduce n st v ok => exact reduceStep_inv P hP n st v ok s h hr
    | errPop k => exact errPop_inv P k s h
    | finish r len => exact finish_inv P r len s h
  · exact h

theorem run_inv (P : Params) (hP : P.OK) : ∀ (es : List (Event V)) (s : State V), Inv P s →
    Inv P (run P es s)
  | [], _, h => h
  | e :: es, s, h => run_inv P hP es (step P s e) (step_inv P hP s e h)

theorem pre_start (P : Params) (hP : P.OK) : Pre P (start P : State V) :=
  { running := rfl
    safe := fun a ha => by cases ha
    same := rfl
    capS := List.length_replicate ..
    capV := by show (List.replicate _ _).length = (List.replicate _ _).length; simp
    room := hP.I
    initS := fun i hi => by have : i < 0 := hi; omega
    initV := fun i h1 hi => by have : i ≤ 0 := hi; omega
    size := by
      show P.I = min (P.I * 2 ^ 0) P.M
      have := hP.M
      simp only [Nat.pow_zero, Nat.mul_one]
      omega
    steps := .inl rfl
    where_ := rfl }

theorem init_inv (P : Params) (hP : P.OK) (ok : Bool) : Inv P (init P ok : State V) :=
  setState_inv P hP 0 ok _ (pre_start P hP)

/-! ### how a push ends -/

/-- The status behind `yysetstate`: the parser goes on unless the last slot was just filled and
the stacks cannot be extended (`yystacksize` at `YYMAXDEPTH`, or `YYSTACK_ALLOC` failing); then
it is "memory exhausted".  The `YYABORT` behind the relocation is never taken. -/
theorem setState_status (P : Params) (hP : P.OK) (st : Nat) (ok : Bool) (t : State V) (h : Pre P t) :
    (t.ssp + 1 < t.stacksize → (setState P st ok t).status = .running) ∧
    (t.ssp + 1 = t.stacksize → t.stacksize < P.M → ok = true →
      (setState P st ok t).status = .running) ∧
    (t.ssp + 1 = t.stacksize → (P.M ≤ t.stacksize ∨ ok = false) →
      (setState P st ok t).status = .done .nomem) := by
  obtain ⟨c1, c2, c3, c4⟩ := setState_cases P hP st ok t
  have htop : t.ssp < t.ss.length := by rw [h.capS]; exact h.room
  have hS := initS_stored st t htop h.initS
  have hlen : (t.ss.set t.ssp (some st)).length = t.ss.length := List.length_set ..
  refine ⟨fun hlt => ?_, fun heq hM hok => ?_, fun heq hor => ?_⟩
  · rw [c1 hlt]; exact h.running
  · rw [c4 heq hM hok]; exact h.running
  · have hdone : ∀ (u : State V), u.ssp < u.ss.length → u.vsp = u.ssp → u.vs.length = u.ss.length →
        (∀ i, i ≤ u.ssp → isInit u.ss i = true) → (∀ i, 1 ≤ i → i ≤ u.vsp → isInit u.vs i = true) →
        (returnLab .nomem 0 u).status = .done .nomem := by
      intro u h1 h2 h3 h4 h5
      obtain ⟨new, he, _⟩ := returnLab_spec .nomem 0 u (Nat.zero_le _) h2 h1 h3 h4 h5
      rw [he]
    rcases Nat.lt_or_ge t.stacksize P.M with hM | hM
    · have hok : ok = false := by
        rcases hor with h' | h'
        · omega
        · exact h'
      rw [c3 heq hM hok]
      exact hdone (failed P st t) (by show _ < (t.ss.set _ _).length; rw [hlen]; exact htop) h.same
        (by show _ = (t.ss.set _ _).length; rw [hlen]; exact h.capV) hS h.initV
    · rw [c2 heq hM]
      exact hdone (stored st t) (by show _ < (t.ss.set _ _).length; rw [hlen]; exact htop) h.same
        (by show _ = (t.ss.set _ _).length; rw [hlen]; exact h.capV) hS h.initV

/-- the number of entries a pushing event leaves on the stack (`yysize` at its `yysetstate`) -/
def entriesAfter (s : State V) : Event V → Nat
  | .shift _ _ _ => s.ssp + 2
  | .reduce n _ _ _ => s.ssp - n + 2
  | _ => 0

/-- whether the event's `YYSTACK_ALLOC`, if any, succeeds -/
def allocOk : Event V → Bool
  | .shift _ _ ok => ok
  | .reduce _ _ _ ok => ok
  | _ => true

/-- a shift, or a reduction that pops no more entries than lie above the bottom -/
def pushing (s : State V) : Event V → Prop
  | .shift _ _ _ => True
  | .reduce n _ _ _ => n ≤ s.ssp
  | _ => False

/-- **"memory exhausted", exactly**: from a running state satisfying the invariant, a pushing
event leaves at most `yystacksize` entries; the parser goes on if these are fewer than
`yystacksize`, or if they are `yystacksize < YYMAXDEPTH` and `YYSTACK_ALLOC` succeeds; it ends
with "memory exhausted" in the one remaining case: the last slot was filled and `yystacksize` is
`YYMAXDEPTH` or the allocation fails.  No other outcome (in particular not `YYABORT`). -/
theorem push_status (P : Params) (hP : P.OK) (s : State V) (e : Event V) (h : Inv P s)
    (hr : s.status = .running) (he : pushing s e) :
    entriesAfter s e ≤ s.stacksize ∧
    (entriesAfter s e < s.stacksize → (step P s e).status = .running) ∧
    (entriesAfter s e = s.stacksize → s.stacksize < P.M → allocOk e = true →
      (step P s e).status = .running) ∧
    (entriesAfter s e = s.stacksize → (P.M ≤ s.stacksize ∨ allocOk e = false) →
      (step P s e).status = .done .nomem) := by
  have hsp := h.spare hr
  cases e with
  | shift st v ok =>
    have hstep : step P s (.shift st v ok) = setState P st ok (pushed v s) := by
      unfold step; rw [hr]; rfl
    rw [hstep]
    obtain ⟨a1, a2, a3⟩ := setState_status P hP st ok _ (pre_pushed P v s h hr)
    refine ⟨by show s.ssp + 2 ≤ _; omega, fun hlt => a1 ?_, fun heq hM hok => a2 ?_ hM hok,
      fun heq hor => a3 ?_ hor⟩
    · show s.ssp + 1 + 1 < s.stacksize; have : s.ssp + 2 < s.stacksize := hlt; omega
    · show s.ssp + 1 + 1 = s.stacksize; have : s.ssp + 2 = s.stacksize := heq; omega
    · show s.ssp + 1 + 1 = s.stacksize; have : s.ssp + 2 = s.stacksize := heq; omega
  | reduce n st v ok =>
    have hn : n ≤ s.ssp := he
    have hstep : step P s (.reduce n st v ok) = reduceStep P n st v ok s := by
      unfold step; rw [hr]
    rw [hstep, reduceStep_eq P n st v ok s hn]
    have hi := inv_popped P n s h hr hn
    have hpre := pre_log P (.loadS s.loc s.ss.length (s.ssp - n) (isInit s.ss (s.ssp - n))) _
      (pre_pushed P v _ hi hr) ⟨by have := h.top; omega, h.initS _ (by omega)⟩
    obtain ⟨a1, a2, a3⟩ := setState_status P hP st ok _ hpre
    refine ⟨by show s.ssp - n + 2 ≤ _; omega, fun hlt => a1 ?_, fun heq hM hok => a2 ?_ hM hok,
      fun heq hor => a3 ?_ hor⟩
    · show s.ssp - n + 1 + 1 < s.stacksize; have : s.ssp - n + 2 < s.stacksize := hlt; omega
    · show s.ssp - n + 1 + 1 = s.stacksize; have : s.ssp - n + 2 = s.stacksize := heq; omega
    · show s.ssp - n + 1 + 1 = s.stacksize; have : s.ssp - n + 2 = s.stacksize := heq; omega
  | errPop k => exact he.elim
  | finish r len => exact he.elim

end Libconfig.C03SP
