import LibconfigModel.Proofs.C01ParseMain
/-
  C01 (parsing half), why the nesting depth has to be bounded: the parser's stack is limited to
  `YYMAXDEPTH` = 10000 entries.  A setting `a = ( ( … ( ) … ) )` with 4998 or more nested lists
  makes the stack reach the limit — two entries per `(` on top of the four of `NAME $@1 =` and the
  bottom — and `yyparse` returns 2 ("memory exhausted") instead of accepting.
-/
namespace Libconfig.C01PP
open Libconfig C02P C05P C02C C04R

/-- `d + 1` nested lists, the innermost empty -/
def nestedLists : Nat → Node
  | 0 => { ty := T_LIST }
  | d + 1 => { ty := T_LIST, kids := [nestedLists d] }

/-- the configuration `a = ( ( … ( ) … ) )` with `d + 1` nested lists -/
def deepConfig (d : Nat) : Config :=
  { root := { ty := T_GROUP, kids := [{ nestedLists d with name := some [97] }] } }

theorem nestedLists_ty (d : Nat) : (nestedLists d).ty = T_LIST := by
  cases d <;> rfl

section
variable {E : ParserEnv} (bufLen : Nat) (c : Config)

theorem tokValue_nested (d : Nat) :
    tokValue bufLen c (nestedLists d) =
      List.replicate (d + 1) tLS ++ List.replicate (d + 1) tLE := by
  induction d with
  | zero =>
    rw [tokValue_eq]
    rfl
  | succ d ih =>
    rw [tokValue_eq]
    simp only [nestedLists, beq_self_eq_true, if_true, tokElems, List.isEmpty_nil, List.append_nil, ih]
    rw [List.replicate_succ (n := d + 1), List.replicate_succ' (n := d + 1)]
    simp only [List.append_assoc, List.cons_append, List.nil_append]

theorem tokens_deep (d : Nat) :
    tokensOfConfig tk bufLen (deepConfig d) =
      tNAME [97] :: tEQ :: tLS ::
        (List.replicate d tLS ++ (List.replicate (d + 1) tLE ++ tokSuffix (deepConfig d))) := by
  rw [tokensOfConfig_eq bufLen (deepConfig d) rfl rfl]
  show tokMembers bufLen (deepConfig d) [{ nestedLists d with name := some [97] }] = _
  rw [tokMembers_cons]
  have h1 : tokValue bufLen (deepConfig d) { nestedLists d with name := some [97] } =
      tokValue bufLen (deepConfig d) (nestedLists d) := by
    rw [tokValue_eq, tokValue_eq]
    rfl
  rw [h1, tokValue_nested, List.replicate_succ]
  simp [tokPrefix, tokMembers]

/-- descending through `m` opening parentheses: two more stack entries each -/
theorem descend (hE : Compiled E) (m : Nat) :
    ∀ (v26 : TokVal) (rest : List (Nat × TokVal)) (la : Lookahead) (sc : ScanState)
      (ctx : ParseCtx) (K : Node → Node) (pp : Path) (a : Node) (st : Option Path)
      (toks : List (Nat × TokVal)),
    rest.length + 1 + 2 * m ≤ 10000 → View ctx K pp a none st → a.ty = T_LIST →
    Inp E la sc (List.replicate m tLS ++ toks) →
    ∃ vv rest' la' sc' ctx', Reaches E ⟨(26, v26) :: rest, la, sc, ctx⟩
        ⟨(26, vv) :: rest', la', sc', ctx'⟩ ∧ rest'.length = rest.length + 2 * m := by
  induction m with
  | zero =>
    intro v26 rest la sc ctx K pp a st toks _ _ _ _
    exact ⟨v26, rest, la, sc, ctx, Reaches.refl _ _, rfl⟩
  | succ m ih =>
    intro v26 rest la sc ctx K pp a st toks hd hV hty hinp
    rw [List.replicate_succ, List.cons_append] at hinp
    obtain ⟨sc1, ctx1, hR1, hI1, hS1⟩ := shift' hE (v0 := v26) (rest := rest) (ctx := ctx)
      (t := tk.listStart) (v := ({} : TokVal)) (by omega) (by decide) kind_listStart
      val_26.listStart (by decide) hinp
    obtain ⟨ctx2, vv2, hR2, a2, st2, hV2, ha2⟩ := reduceN' hE (la := none) (sc := sc1) (ctx := ctx1)
      (Post := fun c2 => ∃ a2 st', View c2 (fun y => K { a with kids := a.kids ++ [y] })
        (pp ++ [a.kids.length]) a2 none st' ∧ stripPos a2 = { name := none, ty := T_LIST })
      (pushed := []) (p := 17) (vp := ({} : TokVal)) (rest := (26, v26) :: rest) rfl rfl
      (by simp only [List.nil_append, List.length_cons]; omega)
      (by decide) ninf_17 (by decide) rule_15 rfl go_17_M3
      (fun l f => by
        obtain ⟨c2, a2, st', h1, h2, h3⟩ := act_aggStart (hV.of_same hS1)
          (Slot.elem (.inl hty) rfl rfl) (by rw [hty]; decide) T_LIST (by decide) l f
        exact ⟨c2, h1, a2, st', h2, h3⟩)
    have ha2' := eq_of_stripPos ha2 rfl
    have ha2ty : a2.ty = T_LIST := by rw [ha2']
    obtain ⟨vv, rest', la', sc', ctx', hR3, hlen⟩ := ih vv2 ((17, ({} : TokVal)) :: (26, v26) :: rest)
      none sc1 ctx2 _ _ a2 st2 toks (by simp only [List.length_cons]; omega) hV2 ha2ty hI1
    refine ⟨vv, rest', la', sc', ctx', (hR1.trans hR2).trans hR3, ?_⟩
    rw [hlen]
    simp only [List.length_cons]
    omega

/-- a stack at the limit: the next iteration gives up -/
theorem run_exhausted (hE : Compiled E) {s : Nat} {v : TokVal} {rest : List (Nat × TokVal)}
    {la : Lookahead} {sc : ScanState} {ctx : ParseCtx} (hlen : rest.length + 1 = 10000) (f : Nat) :
    run E (f + 1) ⟨(s, v) :: rest, la, sc, ctx⟩ =
      (sc, ctx.yyerror sc.buf.lineno Generated.ERR_EXHAUSTED, .exhausted) := by
  unfold run
  rw [yyparseLoop_succ, bodyK_cons, if_pos]
  rw [hE.tables]
  simp only [List.length_cons, ge_iff_le]
  rw [hlen]
  decide

/-- the parse of `a = ( ( … ( ) … ) )` with at least 4998 nested lists reaches a stack of 10000
entries -/
theorem deep_reaches (hE : Compiled E) (d : Nat) (hd : 4997 ≤ d) {s₀ : ScanState}
    {ctx₀ : ParseCtx}
    (hlex : LexT E s₀ (tokensOfConfig tk bufLen (deepConfig d) ++ [tEOF]))
    (hroot : stripPos ctx₀.cfg.root = { ty := T_GROUP }) (hpar : ctx₀.parent = some [])
    (hstr : ctx₀.str = none) :
    ∃ vv rest' la' sc' ctx', Reaches E ⟨[(0, {})], none, s₀, ctx₀⟩
        ⟨(26, vv) :: rest', la', sc', ctx'⟩ ∧ rest'.length + 1 = 10000 := by
  rw [tokens_deep] at hlex
  simp only [List.cons_append] at hlex
  have hr0 := eq_of_stripPos hroot rfl
  have hr0ty : ctx₀.cfg.root.ty = T_GROUP := by rw [hr0]
  have hr0k : ctx₀.cfg.root.kids = [] := by rw [hr0]
  have hV : View ctx₀ (fun x => x) [] ctx₀.cfg.root none ctx₀.setting :=
    ⟨Hole.root, rfl, hpar, hstr, rfl⟩
  -- NAME
  obtain ⟨sc1, ctx1, hR1, hI1, hS1⟩ := shift' hE (v0 := ({} : TokVal)) (rest := []) (ctx := ctx₀)
    (la := none) (sc := s₀) (t := tk.name) (v := ({ sval := [97] } : TokVal))
    (by simp) (by decide) kind_name mem_0.name0 (by decide) hlex
  -- `$@1`
  obtain ⟨la2, sc2, ctx2, vv2, hR2, hI2, m, hV2, hm⟩ := reduce' hE (ctx := ctx1)
    (Post := fun c2 => ∃ m, View c2 (fun x => x) []
      { ctx₀.cfg.root with kids := ctx₀.cfg.root.kids ++ [m] } none
      (some ([] ++ [ctx₀.cfg.root.kids.length])) ∧ stripPos m = { name := some [97] })
    (pushed := []) (p := 1) (vp := ({ sval := [97] } : TokVal)) (rest := [(0, ({} : TokVal))])
    rfl rfl (by simp) (by decide) (red_1 _ (kind_lt _)) rule_11 rfl go_1_M1 hI1
    (fun ctx₁ l f hs => by
      obtain ⟨c2, h1, h2⟩ := act_settingName ((hV.of_same hS1).of_same hs) hr0ty
        (nm := [97]) (by decide) (by rw [hr0k]; intro k hk; cases hk)
        ({ sval := [97] } : TokVal) rfl l f
      exact ⟨c2, h1, _, h2, rfl⟩)
  -- `=`
  obtain ⟨sc3, ctx3, hR3, hI3, hS3⟩ := shift' hE (v0 := vv2)
    (rest := [(1, ({ sval := [97] } : TokVal)), (0, ({} : TokVal))]) (ctx := ctx2)
    (by simp) (by decide) kind_equals sh_5_equals (by decide) hI2
  -- the outermost `(`
  obtain ⟨sc4, ctx4, hR4, hI4, hS4⟩ := shift' hE (v0 := ({} : TokVal))
    (rest := [(5, vv2), (1, ({ sval := [97] } : TokVal)), (0, ({} : TokVal))]) (ctx := ctx3)
    (t := tk.listStart) (v := ({} : TokVal))
    (by simp) (by decide) kind_listStart val_8.listStart (by decide) hI3
  obtain ⟨ctx5, vv5, hR5, a5, st5, hV5, ha5⟩ := reduceN' hE (la := none) (sc := sc4) (ctx := ctx4)
    (Post := fun c2 => ∃ a2 st', View c2
      (fun y => (fun x => x) { { ctx₀.cfg.root with kids := ctx₀.cfg.root.kids ++ [m] } with
        kids := ctx₀.cfg.root.kids ++ [y] })
      ([] ++ [ctx₀.cfg.root.kids.length]) a2 none st' ∧
      stripPos a2 = { name := some [97], ty := T_LIST })
    (pushed := []) (p := 17) (vp := ({} : TokVal))
    (rest := [(8, ({} : TokVal)), (5, vv2), (1, ({ sval := [97] } : TokVal)), (0, ({} : TokVal))])
    rfl rfl (by simp) (by decide) ninf_17 (by decide) rule_15 rfl go_17_M3
    (fun l f => by
      obtain ⟨c2, a2, st', h1, h2, h3⟩ := act_aggStart ((hV2.of_same hS3).of_same hS4)
        (Slot.member m [97] hr0ty rfl hm rfl rfl) (by rw [show _ = ctx₀.cfg.root.ty from rfl, hr0ty]; decide)
        T_LIST (by decide) l f
      exact ⟨c2, h1, a2, st', h2, h3⟩)
  have ha5' := eq_of_stripPos ha5 rfl
  have ha5ty : a5.ty = T_LIST := by rw [ha5']
  -- 4997 more
  obtain ⟨m0, hm0⟩ : ∃ m0 : Nat, m0 = 4997 := ⟨_, rfl⟩
  obtain ⟨k, rfl⟩ : ∃ k, d = m0 + k := ⟨d - m0, by omega⟩
  rw [← List.replicate_append_replicate] at hI4
  simp only [List.append_assoc] at hI4
  obtain ⟨vv, rest', la', sc', ctx', hR6, hlen⟩ := descend hE m0 vv5
    [(17, ({} : TokVal)), (8, ({} : TokVal)), (5, vv2), (1, ({ sval := [97] } : TokVal)),
      (0, ({} : TokVal))] none sc4 ctx5 _ _ a5 st5 _
    (by simp only [List.length_cons, List.length_nil]; omega) hV5 ha5ty hI4
  refine ⟨vv, rest', la', sc', ctx', ((((hR1.trans hR2).trans hR3).trans hR4).trans hR5).trans hR6, ?_⟩
  rw [hlen]
  simp only [List.length_cons, List.length_nil]
  omega

/-- … so whatever `yyparse` returns with enough fuel is "memory exhausted", not acceptance -/
theorem deep_exhausts (hE : Compiled E) (d : Nat) (hd : 4997 ≤ d) {fuel : Nat}
    {s₀ s' : ScanState} {ctx₀ ctx' : ParseCtx} {r : ParseResult}
    (hlex : LexT E s₀ (tokensOfConfig tk bufLen (deepConfig d) ++ [tEOF]))
    (hroot : stripPos ctx₀.cfg.root = { ty := T_GROUP }) (hpar : ctx₀.parent = some [])
    (hstr : ctx₀.str = none)
    (h : yyparse E fuel s₀ ctx₀ = (s', ctx', r)) (hr : r ≠ .outOfFuel) : r = .exhausted := by
  obtain ⟨vv, rest', la', sc', ctx1, hR, hlen⟩ := deep_reaches bufLen hE d hd hlex hroot hpar hstr
  rw [yyparse_eq_run] at h
  rcases hR.part fuel with hout | ⟨fuel', heq⟩
  · rw [h] at hout
    exact absurd hout hr
  · rw [h] at heq
    cases fuel' with
    | zero =>
      rw [run_zero] at heq
      injection heq with _ h2
      injection h2 with _ h3
      exact absurd h3 hr
    | succ f =>
      rw [run_exhausted hE hlen] at heq
      injection heq with _ h2
      injection h2 with _ h4

/-- … and with enough fuel it does return -/
theorem deep_exhausts_total (hE : Compiled E) (d : Nat) (hd : 4997 ≤ d) {s₀ : ScanState}
    {ctx₀ : ParseCtx}
    (hlex : LexT E s₀ (tokensOfConfig tk bufLen (deepConfig d) ++ [tEOF]))
    (hroot : stripPos ctx₀.cfg.root = { ty := T_GROUP }) (hpar : ctx₀.parent = some [])
    (hstr : ctx₀.str = none) :
    ∃ N, ∀ fuel, N ≤ fuel → (yyparse E fuel s₀ ctx₀).2.2 = .exhausted := by
  obtain ⟨vv, rest', la', sc', ctx1, hR, hlen⟩ := deep_reaches bufLen hE d hd hlex hroot hpar hstr
  obtain ⟨n, hn⟩ := hR.steps
  refine ⟨n + 1, fun fuel hfuel => ?_⟩
  obtain ⟨f, rfl⟩ : ∃ f, fuel = (f + 1) + n := ⟨fuel - (n + 1), by omega⟩
  rw [yyparse_eq_run, hn, run_exhausted hE hlen]

end

end Libconfig.C01PP
