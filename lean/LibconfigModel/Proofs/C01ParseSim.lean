import LibconfigModel.Proofs.C01ParseSem
/-
  C01 (parsing half), the simulation: `yyparseLoop` over the compiled tables, fed with the tokens
  of a written value / element list / member list, pushes the corresponding nonterminal and
  extends the tree under construction by the expected settings.
-/
namespace Libconfig.C01PP
open Libconfig C02P C05P C02C C04R

section
variable {E : ParserEnv} (bufLen : Nat) (c : Config)

/-- stack-depth side conditions -/
macro "dep" : tactic =>
  `(tactic| (simp only [List.length_append, List.length_cons, List.length_nil]; omega))

/-! ### scalars -/

/-- a one-token scalar: shift it, reduce `simple_value: TOKEN` running its action -/
theorem sim_tok1 (hE : Compiled E) {q qs : Nat} (hC : ScalCtx q qs) {tt : Nat} {tv : TokVal} {k s r : Nat}
    {act : ParseAct} (hk : translateTok P tt = k) (hsh : actAt P q k = some (s : Int))
    (hs0 : 0 < s) (hsf : s ≠ 6) (hred : ∀ k' < 23, redOK P s k' r = true)
    (hrule : RuleIs r 36 1 act) {vq : TokVal} {rest : List (Nat × TokVal)} {la : Lookahead}
    {sc : ScanState} {ctx : ParseCtx} {Post : ParseCtx → Prop}
    (hact : ∀ ctx₁ l f, SameSem ctx ctx₁ →
      ∃ ctx₂, runAction act ctx₁ tv l f = .ok ctx₂ ∧ Post ctx₂)
    (hd : rest.length + 2 < 10000) {t : Nat} {v : TokVal} {ks : List (Nat × TokVal)}
    (hinp : Inp E la sc ((tt, tv) :: (t, v) :: ks)) :
    ∃ la' sc' ctx' vv, Reaches E ⟨(q, vq) :: rest, la, sc, ctx⟩
        ⟨(qs, vv) :: (q, vq) :: rest, la', sc', ctx'⟩ ∧
      Inp E la' sc' ((t, v) :: ks) ∧ Post ctx' := by
  obtain ⟨sc1, ctx1, hR1, hI1, hS1⟩ := shift' hE (v0 := vq) (rest := rest) (ctx := ctx)
    (by omega) hC.notFinal hk hsh hs0 hinp
  obtain ⟨la2, sc2, ctx2, vv, hR2, hI2, hP2⟩ := reduce' hE (Post := Post) (pushed := [(s, tv)])
    (p := q) (vp := vq) (rest := rest) rfl rfl (by dep) hsf
    (hred _ (kind_lt t)) hrule rfl hC.gSimple hI1
    (fun ctx₁ l f hs => hact ctx₁ l f (hS1.trans hs))
  exact ⟨la2, sc2, ctx2, vv, hR1.trans hR2, hI2, hP2⟩

theorem scalar_ty {n : Node} (hok : okNode n = true) (hsc : isAggregateTy n.ty = false) :
    n.ty = T_INT ∨ n.ty = T_INT64 ∨ n.ty = T_FLOAT ∨ n.ty = T_STRING ∨ n.ty = T_BOOL := by
  rw [okNode_eq] at hok
  simp only [Bool.and_eq_true, decide_eq_true_eq] at hok
  obtain ⟨⟨⟨h1, h8⟩, _⟩, _⟩ := hok
  unfold isAggregateTy at hsc
  simp only [Bool.or_eq_false_iff, beq_eq_false_iff_ne, T_ARRAY, T_LIST, T_GROUP] at hsc
  simp only [T_INT, T_INT64, T_FLOAT, T_STRING, T_BOOL]
  omega

theorem tokValue_scalar (n : Node) (hsc : isAggregateTy n.ty = false) :
    tokValue bufLen c n = (scalTok bufLen c n).toList := by
  unfold isAggregateTy at hsc
  simp only [Bool.or_eq_false_iff] at hsc
  rw [tokValue_eq, hsc.1.1, hsc.1.2, hsc.2]
  rfl

/-- a scalar in any context that admits one: its token is consumed, `simple_value` is pushed,
the slot is filled with the expected setting -/
theorem sim_scalar (hE : Compiled E) {q qs : Nat} (hC : ScalCtx q qs) (n : Node) (hok : okNode n = true)
    (hsc : isAggregateTy n.ty = false) {vq : TokVal} {rest : List (Nat × TokVal)}
    {la : Lookahead} {sc : ScanState} {ctx : ParseCtx} {K : Node → Node} {pp : Path} {pn : Node}
    {st : Option Path} {pre : List Node} (hd : rest.length + 2 < 10000)
    (hV : View ctx K pp pn none st) (hS : Slot st pp pn pre n.name)
    (hck : pn.ty = T_ARRAY → checkType pn n.ty = true) {t : Nat} {v : TokVal}
    {ks : List (Nat × TokVal)} (hfollow : translateTok P t ≠ 9)
    (hinp : Inp E la sc (tokValue bufLen c n ++ (t, v) :: ks)) :
    ∃ la' sc' ctx' vv, Reaches E ⟨(q, vq) :: rest, la, sc, ctx⟩
        ⟨(qs, vv) :: (q, vq) :: rest, la', sc', ctx'⟩ ∧
      Inp E la' sc' ((t, v) :: ks) ∧ Built bufLen c K pp pn pre n ctx' := by
  rw [tokValue_scalar bufLen c n hsc] at hinp
  rcases scalar_ty hok hsc with h | h | h | h | h
  · -- int
    rw [scalTok_int bufLen c n h] at hinp
    by_cases hf : (effFormat c n == FMT_HEX) = true
    · rw [if_pos hf] at hinp
      exact sim_tok1 hE hC kind_hex hC.hex (by decide) (by decide) red_11 rule_26
        (fun ctx₁ l f hs => act_valHex bufLen c (hV.of_same hs) n hS hck h _ rfl hf l f) hd hinp
    · rw [if_neg hf] at hinp
      exact sim_tok1 hE hC kind_integer hC.integer (by decide) (by decide) red_10 rule_24
        (fun ctx₁ l f hs => act_valInt bufLen c (hV.of_same hs) n hS hck h _ rfl hf l f) hd hinp
  · -- int64
    rw [scalTok_int64 bufLen c n h] at hinp
    by_cases hf : (effFormat c n == FMT_HEX) = true
    · rw [if_pos hf] at hinp
      exact sim_tok1 hE hC kind_hex64 hC.hex64 (by decide) (by decide) red_13 rule_27
        (fun ctx₁ l f hs => act_valHex64 bufLen c (hV.of_same hs) n hS hck h _ rfl hf l f) hd hinp
    · rw [if_neg hf] at hinp
      exact sim_tok1 hE hC kind_integer64 hC.integer64 (by decide) (by decide) red_12 rule_25
        (fun ctx₁ l f hs => act_valInt64 bufLen c (hV.of_same hs) n hS hck h _ rfl hf l f) hd hinp
  · -- float
    rw [scalTok_float bufLen c n h] at hinp
    exact sim_tok1 hE hC kind_float hC.float (by decide) (by decide) red_14 rule_28
      (fun ctx₁ l f hs => act_valFloat bufLen c (hV.of_same hs) n hS hck h _ rfl l f) hd hinp
  · -- string: STRING is shifted, `string: STRING` collects it, `simple_value: string` stores it
    rw [scalTok_string bufLen c n h] at hinp
    obtain ⟨sc1, ctx1, hR1, hI1, hS1⟩ := shift' hE (v0 := vq) (rest := rest) (ctx := ctx)
      (by omega) hC.notFinal kind_string hC.string (by decide) hinp
    obtain ⟨la2, sc2, ctx2, vv2, hR2, hI2, hP2⟩ := reduce' hE
      (Post := fun c2 => View c2 K pp pn (some (n.sval.getD [])) st)
      (pushed := [(15, ({ sval := n.sval.getD [] } : TokVal))])
      (p := q) (vp := vq) (rest := rest) rfl rfl (by dep)
      (by decide) (red_15 _ (kind_lt t)) rule_21 rfl hC.gString hI1
      (fun ctx₁ l f hs => act_stringFirst ((hV.of_same hS1).of_same hs) _ l f)
    obtain ⟨la3, sc3, ctx3, vv3, hR3, hI3, hP3⟩ := reduce' hE
      (Post := Built bufLen c K pp pn pre n) (pushed := [(22, vv2)])
      (p := q) (vp := vq) (rest := rest) rfl rfl (by dep)
      (by decide) (red_22 _ (kind_lt t) hfollow) rule_29 rfl hC.gSimple hI2
      (fun ctx₁ l f hs => act_valString bufLen c (hP2.of_same hs) n hS hck h rfl _ l f)
    exact ⟨la3, sc3, ctx3, vv3, (hR1.trans hR2).trans hR3, hI3, hP3⟩
  · -- bool
    rw [scalTok_bool bufLen c n h] at hinp
    exact sim_tok1 hE hC kind_boolean hC.boolean (by decide) (by decide) red_9 rule_23
      (fun ctx₁ l f hs => act_valBool bufLen c (hV.of_same hs) n hS hck h _ rfl l f) hd hinp

/-! ### arrays -/

theorem tokRest_head (ks : List Node) {t : Nat} {v : TokVal} {ks' : List (Nat × TokVal)}
    (h : translateTok P t ≠ 9) :
    ∃ t' v' r, tokRest bufLen c ks ++ (t, v) :: ks' = (t', v') :: r ∧ translateTok P t' ≠ 9 := by
  cases ks with
  | nil => exact ⟨t, v, ks', rfl, h⟩
  | cons k ks =>
    rw [tokRest_cons]
    refine ⟨tk.comma, {}, _, rfl, ?_⟩
    rw [kind_comma]; decide

theorem view_kids_nil {ctx : ParseCtx} {K : Node → Node} {pp : Path} {pn : Node}
    {str : Option Bytes} {st : Option Path} (hV : View ctx K pp pn str st) :
    View ctx K pp { pn with kids := pn.kids ++ [] } str st := by
  have : pn = { pn with kids := pn.kids ++ [] } := node_kids_eq (List.append_nil _).symm
  rw [← this]
  exact hV

theorem expNode_ty (n : Node) : (expNode bufLen c n).ty = n.ty := by
  rw [expNode_eq]
  split
  · rfl
  · unfold expScalar
    repeat' split
    all_goals first | rfl | (rename_i h; simpa using h.symm) | skip
    all_goals simp_all

theorem stripPos_ty (n : Node) : (stripPos n).ty = n.ty := by
  rw [stripPos_eq]

theorem stripPos_name (n : Node) : (stripPos n).name = n.name := by
  rw [stripPos_eq]

theorem expNode_name (n : Node) : (expNode bufLen c n).name = n.name := by
  rw [expNode_eq]
  split
  · rfl
  · unfold expScalar
    repeat' split
    all_goals rfl

/-- the elements of an array after the first -/
theorem sim_arr_rest (hE : Compiled E) (ty0 : Nat) (ks : List Node) :
    (∀ k ∈ ks, okNode k = true) → (∀ k ∈ ks, isAggregateTy k.ty = false) →
    (∀ k ∈ ks, k.name = none) → (∀ k ∈ ks, k.ty = ty0) →
    ∀ (v33 v25 : TokVal) (rest : List (Nat × TokVal)) (la : Lookahead) (sc : ScanState)
      (ctx : ParseCtx) (K : Node → Node) (pp : Path) (pn : Node) (st : Option Path),
    rest.length + 5 < 10000 → View ctx K pp pn none st → pn.ty = T_ARRAY →
    (∃ k0 tl, pn.kids = k0 :: tl ∧ k0.ty = ty0) →
    ∀ (t : Nat) (v : TokVal) (ks' : List (Nat × TokVal)), translateTok P t ≠ 9 →
    Inp E la sc (tokRest bufLen c ks ++ (t, v) :: ks') →
    ∃ la' sc' ctx' vv ks2 st', Reaches E ⟨(33, v33) :: (25, v25) :: rest, la, sc, ctx⟩
        ⟨(33, vv) :: (25, v25) :: rest, la', sc', ctx'⟩ ∧
      Inp E la' sc' ((t, v) :: ks') ∧
      View ctx' K pp { pn with kids := pn.kids ++ ks2 } none st' ∧
      stripPosList ks2 = expList bufLen c ks := by
  induction ks with
  | nil =>
    intro _ _ _ _ v33 v25 rest la sc ctx K pp pn st _ hV _ _ t v ks' _ hinp
    exact ⟨la, sc, ctx, v33, [], st, Reaches.refl _ _, hinp, view_kids_nil hV, rfl⟩
  | cons k ks ih =>
    intro hok hsc hnl hty v33 v25 rest la sc ctx K pp pn st hd hV hpa hhead t v ks' hfol hinp
    rw [tokRest_cons, List.append_assoc, List.cons_append] at hinp
    obtain ⟨t', v', r, hr, hfol'⟩ := tokRest_head bufLen c ks (v := v) (ks' := ks') hfol
    rw [hr] at hinp
    -- the comma
    obtain ⟨sc1, ctx1, hR1, hI1, hS1⟩ := shift' hE (v0 := v33) (rest := (25, v25) :: rest)
      (ctx := ctx) (by dep) (by decide) kind_comma sh_33_comma (by decide) hinp
    -- the scalar
    have hck : pn.ty = T_ARRAY → checkType pn k.ty = true := by
      intro _
      obtain ⟨k0, tl, hk0, hty0⟩ := hhead
      unfold checkType
      rw [hk0]
      simp only
      rw [hpa, hty0, hty k (List.mem_cons_self)]
      simp [T_ARRAY, T_LIST]
    obtain ⟨la2, sc2, ctx2, vv2, hR2, hI2, n', st2, hV2, hn'⟩ := sim_scalar bufLen c hE scal_40 k
      (hok k List.mem_cons_self) (hsc k List.mem_cons_self)
      (vq := ({} : TokVal)) (rest := (33, v33) :: (25, v25) :: rest) (by dep)
      (hV.of_same hS1) (Slot.elem (.inr hpa) rfl (hnl k List.mem_cons_self)) hck hfol' hI1
    -- `simple_value_list: simple_value_list , simple_value`
    obtain ⟨la3, sc3, ctx3, vv3, hR3, hI3, hS3⟩ := reduce0 hE (ctx := ctx2)
      (pushed := [(45, vv2), (40, ({} : TokVal)), (33, v33)]) (p := 25) (vp := v25) (rest := rest)
      rfl rfl (by dep) (by decide) (red_45 _ (kind_lt t')) rule_36 rfl go_25_svl hI2
    rw [← hr] at hI3
    -- the remaining elements
    obtain ⟨la4, sc4, ctx4, vv4, ks2, st4, hR4, hI4, hV4, hks2⟩ := ih
      (fun x hx => hok x (List.mem_cons_of_mem _ hx)) (fun x hx => hsc x (List.mem_cons_of_mem _ hx))
      (fun x hx => hnl x (List.mem_cons_of_mem _ hx)) (fun x hx => hty x (List.mem_cons_of_mem _ hx))
      vv3 v25 rest la3 sc3 ctx3 K pp { pn with kids := pn.kids ++ [n'] } st2 hd
      (hV2.of_same hS3) hpa
      (by
        obtain ⟨k0, tl, hk0, hty0⟩ := hhead
        exact ⟨k0, tl ++ [n'], by simp [hk0], hty0⟩)
      t v ks' hfol hI3
    refine ⟨la4, sc4, ctx4, vv4, n' :: ks2, st4, ((hR1.trans hR2).trans hR3).trans hR4, hI4, ?_, ?_⟩
    · have : ({ pn with kids := pn.kids ++ n' :: ks2 } : Node) =
          { pn with kids := (pn.kids ++ [n']) ++ ks2 } := by simp
      rw [this]
      exact hV4
    · rw [stripPosList, expList, hn', hks2]

/-! ### closing an aggregate -/

/-- the closing bracket of an aggregate: shift it, reduce `array / list / group: OPEN $@n body
CLOSE` (which moves `ctx->parent` back up), reduce `value: array / list / group` -/
theorem sim_close (hE : Compiled E) {q qv : Nat} (hgv : gotoTo P q 34 = qv)
    {s3 s2 s1 se sv k r r2 lhs tt : Nat} {tv : TokVal}
    (hk : translateTok P tt = k) (hsh : actAt P s3 k = some (se : Int)) (hse0 : 0 < se)
    (hs3f : s3 ≠ 6) (hsef : se ≠ 6) (hsvf : sv ≠ 6)
    (hred : ∀ k' < 23, redOK P se k' r = true) (hrule : RuleIs r lhs 4 .aggEnd)
    (hgoto : gotoTo P q lhs = sv)
    (hred2 : ∀ k' < 23, redOK P sv k' r2 = true) (hrule2 : RuleIs r2 34 1 .none)
    {v3 v2 v1 vq : TokVal} {rest : List (Nat × TokVal)} {la : Lookahead} {sc : ScanState}
    {ctx : ParseCtx} {K : Node → Node} {pp : Path} {pn : Node} {pre : List Node} {a : Node}
    {st : Option Path} {t : Nat} {v : TokVal} {ks : List (Nat × TokVal)}
    (hd : rest.length + 5 < 10000) (hH : Hole K pp)
    (hV : View ctx (fun y => K { pn with kids := pre ++ [y] }) (pp ++ [pre.length]) a none st)
    (hinp : Inp E la sc ((tt, tv) :: (t, v) :: ks)) :
    ∃ la' sc' ctx' vv st', Reaches E
        ⟨(s3, v3) :: (s2, v2) :: (s1, v1) :: (q, vq) :: rest, la, sc, ctx⟩
        ⟨(qv, vv) :: (q, vq) :: rest, la', sc', ctx'⟩ ∧
      Inp E la' sc' ((t, v) :: ks) ∧ View ctx' K pp { pn with kids := pre ++ [a] } none st' := by
  obtain ⟨sc1, ctx1, hR1, hI1, hS1⟩ := shift' hE (v0 := v3)
    (rest := (s2, v2) :: (s1, v1) :: (q, vq) :: rest) (ctx := ctx) (by dep) hs3f hk hsh hse0 hinp
  obtain ⟨la2, sc2, ctx2, vv2, hR2, hI2, hP2⟩ := reduce' hE
    (Post := fun c2 => View c2 K pp { pn with kids := pre ++ [a] } none st)
    (pushed := [(se, tv), (s3, v3), (s2, v2), (s1, v1)]) (p := q) (vp := vq) (rest := rest)
    rfl rfl (by dep) hsef (hred _ (kind_lt t)) hrule rfl hgoto hI1
    (fun ctx₁ l f hs => act_aggEnd hH ((hV.of_same hS1).of_same hs) _ l f)
  obtain ⟨la3, sc3, ctx3, vv3, hR3, hI3, hS3⟩ := reduce0 hE (ctx := ctx2)
    (pushed := [(sv, vv2)]) (p := q) (vp := vq) (rest := rest)
    rfl rfl (by dep) hsvf (hred2 _ (kind_lt t)) hrule2 rfl hgv hI2
  exact ⟨la3, sc3, ctx3, vv3, st, (hR1.trans hR2).trans hR3, hI3, hP2.of_same hS3⟩

/-- the finished aggregate is the expected one -/
theorem built_agg {a n : Node} {ks2 : List Node} (ha : stripPos a = { name := n.name, ty := n.ty })
    (hks : stripPosList ks2 = expList bufLen c n.kids) (hagg : isAggregateTy n.ty = true) :
    stripPos { a with kids := a.kids ++ ks2 } = expNode bufLen c n := by
  have ha' := eq_of_stripPos ha rfl
  rw [stripPos_eq, expNode_eq, if_pos hagg]
  simp only
  rw [ha']
  simp only [List.nil_append, hks]

/-! ### arrays, whole -/

theorem okNode_parts {n : Node} (hok : okNode n = true) :
    1 ≤ n.ty ∧ n.ty ≤ 8 ∧ kidsOKB n.ty n.kids = true ∧ ∀ k ∈ n.kids, okNode k = true := by
  rw [okNode_eq] at hok
  simp only [Bool.and_eq_true, decide_eq_true_eq] at hok
  exact ⟨hok.1.1.1, hok.1.1.2, hok.1.2, (okList_iff _).mp hok.2⟩

theorem isScalarTy_not_agg {t : Nat} (h : isScalarTy (t : Int) = true) : isAggregateTy t = false := by
  unfold isScalarTy at h
  simp only [Bool.and_eq_true, decide_eq_true_eq] at h
  unfold isAggregateTy
  simp only [Bool.or_eq_false_iff, beq_eq_false_iff_ne, T_ARRAY, T_LIST, T_GROUP]
  omega

/-- what `okNode` says about the elements of an array -/
theorem array_kids {n : Node} (hok : okNode n = true) (hty : n.ty = T_ARRAY) :
    (∀ k ∈ n.kids, okNode k = true) ∧ (∀ k ∈ n.kids, isAggregateTy k.ty = false) ∧
    (∀ k ∈ n.kids, k.name = none) ∧
    (∀ k0 tl, n.kids = k0 :: tl → ∀ k ∈ tl, k.ty = k0.ty) := by
  obtain ⟨_, _, hk, hall⟩ := okNode_parts hok
  rw [hty] at hk
  unfold kidsOKB at hk
  simp only [show (T_ARRAY == T_GROUP) = false from rfl, show (T_ARRAY == T_LIST) = false from rfl,
    Bool.false_eq_true, if_false, beq_self_eq_true, if_true, Bool.and_eq_true, List.all_eq_true,
    Option.isNone_iff_eq_none] at hk
  refine ⟨hall, fun k hk' => isScalarTy_not_agg (hk.1 k hk').2, fun k hk' => (hk.1 k hk').1, ?_⟩
  intro k0 tl hkids k hk'
  have h2 := hk.2
  rw [hkids] at h2
  simp only [List.all_eq_true, beq_iff_eq] at h2
  exact h2 k hk'

/-- an array value: `[`, `$@2`, the scalars, `]` -/
theorem sim_array (hE : Compiled E) {q qv : Nat} (hC : ValCtx q qv) (n : Node)
    (hok : okNode n = true) (hty : n.ty = T_ARRAY) {vq : TokVal} {rest : List (Nat × TokVal)}
    {la : Lookahead} {sc : ScanState} {ctx : ParseCtx} {K : Node → Node} {pp : Path} {pn : Node}
    {st : Option Path} {pre : List Node} (hd : rest.length + 6 * nodeDepth n + 5 < 10000)
    (hV : View ctx K pp pn none st) (hS : Slot st pp pn pre n.name) (hna : pn.ty ≠ T_ARRAY)
    {t : Nat} {v : TokVal} {ks : List (Nat × TokVal)}
    (hinp : Inp E la sc (tokValue bufLen c n ++ (t, v) :: ks)) :
    ∃ la' sc' ctx' vv, Reaches E ⟨(q, vq) :: rest, la, sc, ctx⟩
        ⟨(qv, vv) :: (q, vq) :: rest, la', sc', ctx'⟩ ∧
      Inp E la' sc' ((t, v) :: ks) ∧ Built bufLen c K pp pn pre n ctx' := by
  obtain ⟨hkok, hksc, hknl, hkty⟩ := array_kids hok hty
  rw [tokValue_eq, hty] at hinp
  simp only [show (T_ARRAY == T_LIST) = false from rfl, Bool.false_eq_true, if_false,
    beq_self_eq_true, if_true, List.append_assoc, List.cons_append,
    List.nil_append] at hinp
  -- `[`
  obtain ⟨sc1, ctx1, hR1, hI1, hS1⟩ := shift' hE (v0 := vq) (rest := rest) (ctx := ctx)
    (by omega) hC.scal.notFinal kind_arrayStart hC.arrayStart (by decide) hinp
  -- `$@2`
  obtain ⟨ctx2, vv2, hR2, a, st2, hV2, ha⟩ := reduceN' hE (la := none) (sc := sc1) (ctx := ctx1)
    (Post := fun c2 => ∃ a st', View c2 (fun y => K { pn with kids := pre ++ [y] })
      (pp ++ [pre.length]) a none st' ∧ stripPos a = { name := n.name, ty := T_ARRAY })
    (pushed := []) (p := 16) (vp := ({} : TokVal)) (rest := (q, vq) :: rest) rfl rfl (by dep)
    (by decide) ninf_16 (by decide) rule_13 rfl go_16_M2
    (fun l f => by
      obtain ⟨c2, a, st', h1, h2, h3⟩ := act_aggStart (hV.of_same hS1) hS hna T_ARRAY (by decide) l f
      exact ⟨c2, h1, a, st', h2, h3⟩)
  have ha' := eq_of_stripPos ha rfl
  have haty : a.ty = T_ARRAY := by rw [ha']
  have hakids : a.kids = [] := by rw [ha']
  -- the elements
  have body : ∃ la3 sc3 ctx3 vv3 ks2 st3,
      Reaches E ⟨(25, vv2) :: (16, ({} : TokVal)) :: (q, vq) :: rest, none, sc1, ctx2⟩
        ⟨(34, vv3) :: (25, vv2) :: (16, ({} : TokVal)) :: (q, vq) :: rest, la3, sc3, ctx3⟩ ∧
      Inp E la3 sc3 (tAE :: (t, v) :: ks) ∧
      View ctx3 (fun y => K { pn with kids := pre ++ [y] }) (pp ++ [pre.length])
        { a with kids := a.kids ++ ks2 } none st3 ∧
      stripPosList ks2 = expList bufLen c n.kids := by
    cases hkids : n.kids with
    | nil =>
      rw [hkids] at hI1
      simp only [tokElems, List.nil_append] at hI1
      obtain ⟨la3, sc3, ctx3, vv3, hR3, hI3, hS3⟩ := reduce0 hE (ctx := ctx2)
        (pushed := []) (p := 25) (vp := vv2) (rest := (16, ({} : TokVal)) :: (q, vq) :: rest)
        rfl rfl (by dep) (by decide) (by rw [kind_arrayEnd]; exact red_25_arrayEnd)
        rule_38 rfl go_25_svlo hI1
      exact ⟨la3, sc3, ctx3, vv3, [], st2, hR3, hI3, view_kids_nil (hV2.of_same hS3), rfl⟩
    | cons k0 tl =>
      rw [hkids] at hI1 hkok hksc hknl
      have hdep : 1 ≤ nodeDepth n := by
        rw [nodeDepth_eq, hkids, listDepth]
        exact Nat.le_trans (Nat.le_add_left 1 _) (Nat.le_max_left _ _)
      rw [tokElems_cons, List.append_assoc] at hI1
      have hfol : translateTok P tAE.1 ≠ 9 := by
        rw [show tAE.1 = tk.arrayEnd from rfl, kind_arrayEnd]; decide
      obtain ⟨t', v', r, hr, hfol'⟩ := tokRest_head bufLen c tl (v := tAE.2)
        (ks' := (t, v) :: ks) hfol
      rw [show (tAE :: (t, v) :: ks) = (tAE.1, tAE.2) :: (t, v) :: ks from rfl, hr] at hI1
      -- the first scalar
      obtain ⟨la3, sc3, ctx3, vv3, hR3, hI3, n', st3, hV3, hn'⟩ := sim_scalar bufLen c hE scal_25 k0
        (hkok k0 List.mem_cons_self) (hksc k0 List.mem_cons_self)
        (vq := vv2) (rest := (16, ({} : TokVal)) :: (q, vq) :: rest) (by dep)
        hV2 (Slot.elem (.inr haty) hakids (hknl k0 List.mem_cons_self))
        (fun _ => by unfold checkType; rw [hakids]) hfol' hI1
      -- `simple_value_list: simple_value`
      obtain ⟨la4, sc4, ctx4, vv4, hR4, hI4, hS4⟩ := reduce0 hE (ctx := ctx3)
        (pushed := [(32, vv3)]) (p := 25) (vp := vv2)
        (rest := (16, ({} : TokVal)) :: (q, vq) :: rest)
        rfl rfl (by dep) (by decide) (red_32 _ (kind_lt t')) rule_35 rfl go_25_svl hI3
      rw [← hr] at hI4
      -- the others
      have hn'ty : n'.ty = k0.ty := by
        rw [← stripPos_ty n', hn', expNode_ty]
      obtain ⟨la5, sc5, ctx5, vv5, ks2, st5, hR5, hI5, hV5, hks2⟩ := sim_arr_rest bufLen c hE k0.ty tl
        (fun x hx => hkok x (List.mem_cons_of_mem _ hx))
        (fun x hx => hksc x (List.mem_cons_of_mem _ hx))
        (fun x hx => hknl x (List.mem_cons_of_mem _ hx))
        (fun x hx => hkty k0 tl hkids x hx)
        vv4 vv2 ((16, ({} : TokVal)) :: (q, vq) :: rest) la4 sc4 ctx4 _ _
        { a with kids := [] ++ [n'] } st3 (by dep) (hV3.of_same hS4) haty
        ⟨n', [], rfl, hn'ty⟩ tAE.1 tAE.2 ((t, v) :: ks) hfol hI4
      -- `simple_value_list_optional: simple_value_list`
      obtain ⟨la6, sc6, ctx6, vv6, hR6, hI6, hS6⟩ := reduce0 hE (ctx := ctx5)
        (pushed := [(33, vv5)]) (p := 25) (vp := vv2)
        (rest := (16, ({} : TokVal)) :: (q, vq) :: rest)
        rfl rfl (by dep) (by decide)
        (by show redOK P 33 (translateTok P tk.arrayEnd) 39 = true; rw [kind_arrayEnd]; exact red_33_arrayEnd)
        rule_39 rfl go_25_svlo hI5
      refine ⟨la6, sc6, ctx6, vv6, n' :: ks2, st5, ((hR3.trans hR4).trans hR5).trans hR6, hI6, ?_, ?_⟩
      · have : ({ a with kids := a.kids ++ n' :: ks2 } : Node) =
            { a with kids := ([] ++ [n']) ++ ks2 } := by rw [hakids]; rfl
        rw [this]
        exact hV5.of_same hS6
      · rw [stripPosList, expList, hn', hks2]
  obtain ⟨la3, sc3, ctx3, vv3, ks2, st3, hR3, hI3, hV3, hks2⟩ := body
  -- `]`
  obtain ⟨la4, sc4, ctx4, vv4, st4, hR4, hI4, hV4⟩ := sim_close hE hC.gValue
    (tt := tk.arrayEnd) (tv := ({} : TokVal)) kind_arrayEnd sh_34_arrayEnd (by decide) (by decide)
    (by decide) (by decide) red_41 rule_14 hC.gArray red_19 rule_18
    (v3 := vv3) (v2 := vv2) (v1 := ({} : TokVal)) (vq := vq) (rest := rest)
    (by omega) hV.hole hV3 hI3
  refine ⟨la4, sc4, ctx4, vv4, (hR1.trans hR2).trans (hR3.trans hR4), hI4, _, st4, hV4, ?_⟩
  exact built_agg bufLen c (by rw [hty]; exact ha) hks2 (by rw [hty]; rfl)

/-! ### values in general: the induction hypothesis -/

/-- what the simulation says about a value `n`: in a state that admits a value, in front of the
tokens of `n` followed by a token that is not a string, the loop arrives — unless the fuel runs
out — with `value` pushed, in front of that token, the slot filled with the expected setting -/
def ValueProp (E : ParserEnv) (bufLen : Nat) (c : Config) (n : Node) : Prop :=
  okNode n = true →
  ∀ (q qv : Nat), ValCtx q qv →
  ∀ (vq : TokVal) (rest : List (Nat × TokVal)) (la : Lookahead) (sc : ScanState) (ctx : ParseCtx)
    (K : Node → Node) (pp : Path) (pn : Node) (st : Option Path) (pre : List Node) (t : Nat)
    (v : TokVal) (ks : List (Nat × TokVal)),
    rest.length + 6 * nodeDepth n + 5 < 10000 → View ctx K pp pn none st →
    Slot st pp pn pre n.name → pn.ty ≠ T_ARRAY → translateTok P t ≠ 9 →
    Inp E la sc (tokValue bufLen c n ++ (t, v) :: ks) →
    ∃ la' sc' ctx' vv, Reaches E ⟨(q, vq) :: rest, la, sc, ctx⟩
        ⟨(qv, vv) :: (q, vq) :: rest, la', sc', ctx'⟩ ∧
      Inp E la' sc' ((t, v) :: ks) ∧ Built bufLen c K pp pn pre n ctx'

/-! ### lists -/

/-- the elements of a list after the first -/
theorem sim_list_rest (hE : Compiled E) (ks : List Node) :
    (∀ k ∈ ks, ValueProp E bufLen c k) → (∀ k ∈ ks, okNode k = true) →
    (∀ k ∈ ks, k.name = none) →
    ∀ (v36 v26 : TokVal) (rest : List (Nat × TokVal)) (la : Lookahead) (sc : ScanState)
      (ctx : ParseCtx) (K : Node → Node) (pp : Path) (pn : Node) (st : Option Path),
    rest.length + 6 * listDepth ks + 1 < 10000 → View ctx K pp pn none st → pn.ty = T_LIST →
    ∀ (t : Nat) (v : TokVal) (ks' : List (Nat × TokVal)), translateTok P t ≠ 9 →
    Inp E la sc (tokRest bufLen c ks ++ (t, v) :: ks') →
    ∃ la' sc' ctx' vv ks2 st', Reaches E ⟨(36, v36) :: (26, v26) :: rest, la, sc, ctx⟩
        ⟨(36, vv) :: (26, v26) :: rest, la', sc', ctx'⟩ ∧
      Inp E la' sc' ((t, v) :: ks') ∧
      View ctx' K pp { pn with kids := pn.kids ++ ks2 } none st' ∧
      stripPosList ks2 = expList bufLen c ks := by
  induction ks with
  | nil =>
    intro _ _ _ v36 v26 rest la sc ctx K pp pn st _ hV _ t v ks' _ hinp
    exact ⟨la, sc, ctx, v36, [], st, Reaches.refl _ _, hinp, view_kids_nil hV, rfl⟩
  | cons k ks ih =>
    intro hval hok hnl v36 v26 rest la sc ctx K pp pn st hd hV hpl t v ks' hfol hinp
    rw [tokRest_cons, List.append_assoc, List.cons_append] at hinp
    obtain ⟨t', v', r, hr, hfol'⟩ := tokRest_head bufLen c ks (v := v) (ks' := ks') hfol
    rw [hr] at hinp
    have hdk : nodeDepth k + 1 ≤ listDepth (k :: ks) := listDepth_mem List.mem_cons_self
    have hdks : listDepth ks ≤ listDepth (k :: ks) := listDepth_cons_le k ks
    -- the comma
    obtain ⟨sc1, ctx1, hR1, hI1, hS1⟩ := shift' hE (v0 := v36) (rest := (26, v26) :: rest)
      (ctx := ctx) (by dep) (by decide) kind_comma sh_36_comma (by decide) hinp
    -- the value
    obtain ⟨la2, sc2, ctx2, vv2, hR2, hI2, n', st2, hV2, hn'⟩ := hval k List.mem_cons_self
      (hok k List.mem_cons_self) 42 46 val_42 ({} : TokVal) ((36, v36) :: (26, v26) :: rest)
      none sc1 ctx1 K pp pn st pn.kids t' v' r (by dep) (hV.of_same hS1)
      (Slot.elem (.inl hpl) rfl (hnl k List.mem_cons_self)) (by rw [hpl]; decide) hfol' hI1
    -- `value_list: value_list , value`
    obtain ⟨la3, sc3, ctx3, vv3, hR3, hI3, hS3⟩ := reduce0 hE (ctx := ctx2)
      (pushed := [(46, vv2), (42, ({} : TokVal)), (36, v36)]) (p := 26) (vp := v26) (rest := rest)
      rfl rfl (by dep) (by decide) (red_46 _ (kind_lt t')) rule_31 rfl go_26_vl hI2
    rw [← hr] at hI3
    -- the remaining elements
    obtain ⟨la4, sc4, ctx4, vv4, ks2, st4, hR4, hI4, hV4, hks2⟩ := ih
      (fun x hx => hval x (List.mem_cons_of_mem _ hx)) (fun x hx => hok x (List.mem_cons_of_mem _ hx))
      (fun x hx => hnl x (List.mem_cons_of_mem _ hx))
      vv3 v26 rest la3 sc3 ctx3 K pp { pn with kids := pn.kids ++ [n'] } st2 (by omega)
      (hV2.of_same hS3) hpl t v ks' hfol hI3
    refine ⟨la4, sc4, ctx4, vv4, n' :: ks2, st4, ((hR1.trans hR2).trans hR3).trans hR4, hI4, ?_, ?_⟩
    · have : ({ pn with kids := pn.kids ++ n' :: ks2 } : Node) =
          { pn with kids := (pn.kids ++ [n']) ++ ks2 } := by simp
      rw [this]
      exact hV4
    · rw [stripPosList, expList, hn', hks2]

/-- what `okNode` says about the elements of a list -/
theorem list_kids {n : Node} (hok : okNode n = true) (hty : n.ty = T_LIST) :
    (∀ k ∈ n.kids, okNode k = true) ∧ (∀ k ∈ n.kids, k.name = none) := by
  obtain ⟨_, _, hk, hall⟩ := okNode_parts hok
  rw [hty] at hk
  unfold kidsOKB at hk
  simp only [show (T_LIST == T_GROUP) = false from rfl, Bool.false_eq_true, if_false,
    beq_self_eq_true, if_true, List.all_eq_true, Option.isNone_iff_eq_none] at hk
  exact ⟨hall, hk⟩

/-- the elements of a list, from the state after `( $@3` to the state before `)` -/
theorem sim_list_body (hE : Compiled E) (kids : List Node)
    (hval : ∀ k ∈ kids, ValueProp E bufLen c k) (hok : ∀ k ∈ kids, okNode k = true)
    (hnl : ∀ k ∈ kids, k.name = none) {v26 : TokVal} {rest : List (Nat × TokVal)}
    {la : Lookahead} {sc : ScanState} {ctx : ParseCtx} {K : Node → Node} {pp : Path} {a : Node}
    {st : Option Path} {t : Nat} {v : TokVal} {ks : List (Nat × TokVal)}
    (hd : rest.length + 6 * listDepth kids + 1 < 10000) (hV : View ctx K pp a none st)
    (haty : a.ty = T_LIST)
    (hinp : Inp E la sc (tokElems bufLen c kids ++ tLE :: (t, v) :: ks)) :
    ∃ la' sc' ctx' vv ks2 st', Reaches E ⟨(26, v26) :: rest, la, sc, ctx⟩
        ⟨(37, vv) :: (26, v26) :: rest, la', sc', ctx'⟩ ∧
      Inp E la' sc' (tLE :: (t, v) :: ks) ∧
      View ctx' K pp { a with kids := a.kids ++ ks2 } none st' ∧
      stripPosList ks2 = expList bufLen c kids := by
  cases kids with
  | nil =>
    simp only [tokElems, List.nil_append] at hinp
    obtain ⟨la3, sc3, ctx3, vv3, hR3, hI3, hS3⟩ := reduce0 hE (ctx := ctx)
      (pushed := []) (p := 26) (vp := v26) (rest := rest)
      rfl rfl (by dep) (by decide) (by rw [kind_listEnd]; exact red_26_listEnd)
      rule_33 rfl go_26_vlo hinp
    exact ⟨la3, sc3, ctx3, vv3, [], st, hR3, hI3, view_kids_nil (hV.of_same hS3), rfl⟩
  | cons k0 tl =>
    have hdk : nodeDepth k0 + 1 ≤ listDepth (k0 :: tl) := listDepth_mem List.mem_cons_self
    have hdks : listDepth tl ≤ listDepth (k0 :: tl) := listDepth_cons_le k0 tl
    rw [tokElems_cons, List.append_assoc] at hinp
    have hfol : translateTok P tLE.1 ≠ 9 := by
      rw [show tLE.1 = tk.listEnd from rfl, kind_listEnd]; decide
    obtain ⟨t', v', r, hr, hfol'⟩ := tokRest_head bufLen c tl (v := tLE.2)
      (ks' := (t, v) :: ks) hfol
    rw [show (tLE :: (t, v) :: ks) = (tLE.1, tLE.2) :: (t, v) :: ks from rfl, hr] at hinp
    -- the first value
    obtain ⟨la2, sc2, ctx2, vv2, hR2, hI2, n', st2, hV2, hn'⟩ := hval k0 List.mem_cons_self
      (hok k0 List.mem_cons_self) 26 35 val_26 v26 rest la sc ctx K pp a st a.kids t' v' r
      (by omega) hV (Slot.elem (.inl haty) rfl (hnl k0 List.mem_cons_self)) (by rw [haty]; decide)
      hfol' hinp
    -- `value_list: value`
    obtain ⟨la3, sc3, ctx3, vv3, hR3, hI3, hS3⟩ := reduce0 hE (ctx := ctx2)
      (pushed := [(35, vv2)]) (p := 26) (vp := v26) (rest := rest)
      rfl rfl (by dep) (by decide) (red_35 _ (kind_lt t')) rule_30 rfl go_26_vl hI2
    rw [← hr] at hI3
    -- the others
    obtain ⟨la4, sc4, ctx4, vv4, ks2, st4, hR4, hI4, hV4, hks2⟩ := sim_list_rest bufLen c hE tl
      (fun x hx => hval x (List.mem_cons_of_mem _ hx)) (fun x hx => hok x (List.mem_cons_of_mem _ hx))
      (fun x hx => hnl x (List.mem_cons_of_mem _ hx))
      vv3 v26 rest la3 sc3 ctx3 K pp { a with kids := a.kids ++ [n'] } st2 (by omega)
      (hV2.of_same hS3) haty tLE.1 tLE.2 ((t, v) :: ks) hfol hI3
    -- `value_list_optional: value_list`
    obtain ⟨la5, sc5, ctx5, vv5, hR5, hI5, hS5⟩ := reduce0 hE (ctx := ctx4)
      (pushed := [(36, vv4)]) (p := 26) (vp := v26) (rest := rest)
      rfl rfl (by dep) (by decide)
      (by show redOK P 36 (translateTok P tk.listEnd) 34 = true; rw [kind_listEnd]; exact red_36_listEnd)
      rule_34 rfl go_26_vlo hI4
    refine ⟨la5, sc5, ctx5, vv5, n' :: ks2, st4, ((hR2.trans hR3).trans hR4).trans hR5, hI5, ?_, ?_⟩
    · have : ({ a with kids := a.kids ++ n' :: ks2 } : Node) =
          { a with kids := (a.kids ++ [n']) ++ ks2 } := by simp
      rw [this]
      exact hV4.of_same hS5
    · rw [stripPosList, expList, hn', hks2]

/-- a list value: `(`, `$@3`, the elements, `)` -/
theorem sim_list (hE : Compiled E) {q qv : Nat} (hC : ValCtx q qv) (n : Node)
    (hval : ∀ k ∈ n.kids, ValueProp E bufLen c k)
    (hok : okNode n = true) (hty : n.ty = T_LIST) {vq : TokVal} {rest : List (Nat × TokVal)}
    {la : Lookahead} {sc : ScanState} {ctx : ParseCtx} {K : Node → Node} {pp : Path} {pn : Node}
    {st : Option Path} {pre : List Node} (hd : rest.length + 6 * nodeDepth n + 5 < 10000)
    (hV : View ctx K pp pn none st) (hS : Slot st pp pn pre n.name) (hna : pn.ty ≠ T_ARRAY)
    {t : Nat} {v : TokVal} {ks : List (Nat × TokVal)}
    (hinp : Inp E la sc (tokValue bufLen c n ++ (t, v) :: ks)) :
    ∃ la' sc' ctx' vv, Reaches E ⟨(q, vq) :: rest, la, sc, ctx⟩
        ⟨(qv, vv) :: (q, vq) :: rest, la', sc', ctx'⟩ ∧
      Inp E la' sc' ((t, v) :: ks) ∧ Built bufLen c K pp pn pre n ctx' := by
  obtain ⟨hkok, hknl⟩ := list_kids hok hty
  rw [nodeDepth_eq] at hd
  rw [tokValue_eq, hty] at hinp
  simp only [beq_self_eq_true, if_true, List.append_assoc, List.cons_append,
    List.nil_append] at hinp
  -- `(`
  obtain ⟨sc1, ctx1, hR1, hI1, hS1⟩ := shift' hE (v0 := vq) (rest := rest) (ctx := ctx)
    (by omega) hC.scal.notFinal kind_listStart hC.listStart (by decide) hinp
  -- `$@3`
  obtain ⟨ctx2, vv2, hR2, a, st2, hV2, ha⟩ := reduceN' hE (la := none) (sc := sc1) (ctx := ctx1)
    (Post := fun c2 => ∃ a st', View c2 (fun y => K { pn with kids := pre ++ [y] })
      (pp ++ [pre.length]) a none st' ∧ stripPos a = { name := n.name, ty := T_LIST })
    (pushed := []) (p := 17) (vp := ({} : TokVal)) (rest := (q, vq) :: rest) rfl rfl (by dep)
    (by decide) ninf_17 (by decide) rule_15 rfl go_17_M3
    (fun l f => by
      obtain ⟨c2, a, st', h1, h2, h3⟩ := act_aggStart (hV.of_same hS1) hS hna T_LIST (by decide) l f
      exact ⟨c2, h1, a, st', h2, h3⟩)
  have ha' := eq_of_stripPos ha rfl
  have haty : a.ty = T_LIST := by rw [ha']
  -- the elements
  obtain ⟨la3, sc3, ctx3, vv3, ks2, st3, hR3, hI3, hV3, hks2⟩ := sim_list_body bufLen c hE n.kids
    hval hkok hknl (v26 := vv2) (rest := (17, ({} : TokVal)) :: (q, vq) :: rest) (by dep) hV2 haty hI1
  -- `)`
  obtain ⟨la4, sc4, ctx4, vv4, st4, hR4, hI4, hV4⟩ := sim_close hE hC.gValue
    (tt := tk.listEnd) (tv := ({} : TokVal)) kind_listEnd sh_37_listEnd (by decide) (by decide)
    (by decide) (by decide) red_43 rule_16 hC.gList red_20 rule_19
    (v3 := vv3) (v2 := vv2) (v1 := ({} : TokVal)) (vq := vq) (rest := rest)
    (by omega) hV.hole hV3 hI3
  refine ⟨la4, sc4, ctx4, vv4, (hR1.trans hR2).trans (hR3.trans hR4), hI4, _, st4, hV4, ?_⟩
  exact built_agg bufLen c (by rw [hty]; exact ha) hks2 (by rw [hty]; rfl)

/-! ### settings -/

theorem nameOKB_spec {k : Node} (h : nameOKB k = true) :
    ∃ nm, k.name = some nm ∧ validName nm = true := by
  unfold nameOKB at h
  cases hk : k.name with
  | none => rw [hk] at h; cases h
  | some nm => rw [hk] at h; exact ⟨nm, rfl, h⟩

/-- the follow condition of a setting: the next token is not a string, a comma or a semicolon -/
def MemFollow (t : Nat) : Prop :=
  translateTok P t ≠ 9 ∧ translateTok P t ≠ 17 ∧ translateTok P t ≠ 20

theorem memFollow_name : MemFollow tk.name := by
  unfold MemFollow; rw [kind_name]; decide

theorem memFollow_groupEnd : MemFollow tk.groupEnd := by
  unfold MemFollow; rw [kind_groupEnd]; decide

theorem memFollow_eof : MemFollow 0 := by
  unfold MemFollow; rw [kind_eof]; decide

/-- one setting `name = value [;]` in a state `q` that shifts NAME; `qs` is the goto of `q` on
`setting` -/
theorem sim_member (hE : Compiled E) (k : Node) (hval : ValueProp E bufLen c k)
    (hok : okNode k = true) {nm : Bytes} (hname : k.name = some nm) (hvalid : validName nm = true)
    {q qs : Nat} (hq : actAt P q 10 = some 1) (hqf : q ≠ 6) (hg : gotoTo P q 28 = qs)
    {vq : TokVal} {rest : List (Nat × TokVal)} {la : Lookahead} {sc : ScanState} {ctx : ParseCtx}
    {K : Node → Node} {pp : Path} {pn : Node} {st : Option Path} {t : Nat} {v : TokVal}
    {ks : List (Nat × TokVal)} (hd : rest.length + 6 * nodeDepth k + 8 < 10000)
    (hV : View ctx K pp pn none st) (hgty : pn.ty = T_GROUP)
    (hfresh : ∀ x ∈ pn.kids, x.name ≠ some nm) (hfol : MemFollow t)
    (hinp : Inp E la sc
      (tokPrefix k.name ++ tokValue bufLen c k ++ tokSuffix c ++ (t, v) :: ks)) :
    ∃ la' sc' ctx' vv k' st', Reaches E ⟨(q, vq) :: rest, la, sc, ctx⟩
        ⟨(qs, vv) :: (q, vq) :: rest, la', sc', ctx'⟩ ∧
      Inp E la' sc' ((t, v) :: ks) ∧
      View ctx' K pp { pn with kids := pn.kids ++ [k'] } none st' ∧
      stripPos k' = expNode bufLen c k := by
  obtain ⟨hf9, hf17, hf20⟩ := hfol
  rw [hname] at hinp
  simp only [tokPrefix, List.append_assoc, List.cons_append, List.nil_append] at hinp
  -- NAME
  obtain ⟨sc1, ctx1, hR1, hI1, hS1⟩ := shift' hE (v0 := vq) (rest := rest) (ctx := ctx)
    (by omega) hqf kind_name hq (by decide) hinp
  -- `$@1`
  obtain ⟨la2, sc2, ctx2, vv2, hR2, hI2, m, hV2, hm⟩ := reduce' hE (ctx := ctx1)
    (Post := fun c2 => ∃ m, View c2 K pp { pn with kids := pn.kids ++ [m] } none
      (some (pp ++ [pn.kids.length])) ∧ stripPos m = { name := some nm })
    (pushed := []) (p := 1) (vp := ({ sval := nm } : TokVal)) (rest := (q, vq) :: rest)
    rfl rfl (by dep) (by decide) (red_1 _ (kind_lt _)) rule_11 rfl go_1_M1 hI1
    (fun ctx₁ l f hs => by
      obtain ⟨c2, h1, h2⟩ := act_settingName ((hV.of_same hS1).of_same hs) hgty hvalid hfresh
        ({ sval := nm } : TokVal) rfl l f
      exact ⟨c2, h1, _, h2, rfl⟩)
  -- `=`
  obtain ⟨sc3, ctx3, hR3, hI3, hS3⟩ := shift' hE (v0 := vv2)
    (rest := (1, ({ sval := nm } : TokVal)) :: (q, vq) :: rest) (ctx := ctx2)
    (by dep) (by decide) kind_equals sh_5_equals (by decide) hI2
  -- the value; what follows it is `;` or the token after the setting
  have hnext : ∃ t' v' r, tokSuffix c ++ (t, v) :: ks = (t', v') :: r ∧ translateTok P t' ≠ 9 := by
    unfold tokSuffix
    by_cases hs : c.opt OPT_SEMICOLON = true
    · rw [if_pos hs]
      refine ⟨tk.semicolon, {}, _, rfl, ?_⟩
      rw [kind_semicolon]; decide
    · rw [if_neg hs]
      exact ⟨t, v, ks, rfl, hf9⟩
  obtain ⟨t', v', r, hr, hfol'⟩ := hnext
  rw [hr] at hI3
  obtain ⟨la4, sc4, ctx4, vv4, hR4, hI4, k', st4, hV4, hk'⟩ := hval hok 8 21 val_8 ({} : TokVal)
    ((5, vv2) :: (1, ({ sval := nm } : TokVal)) :: (q, vq) :: rest) none sc3 ctx3 K pp
    { pn with kids := pn.kids ++ [m] } (some (pp ++ [pn.kids.length])) pn.kids t' v' r (by dep)
    (hV2.of_same hS3) (Slot.member m nm hgty rfl hm hname rfl) (by rw [show _ = pn.ty from rfl, hgty]; decide)
    hfol' hI3
  rw [← hr] at hI4
  -- the terminator
  have hterm : ∃ la5 sc5 ctx5 vv5, Reaches E
      ⟨(21, vv4) :: (8, ({} : TokVal)) :: (5, vv2) :: (1, ({ sval := nm } : TokVal)) :: (q, vq) :: rest,
        la4, sc4, ctx4⟩
      ⟨(30, vv5) :: (21, vv4) :: (8, ({} : TokVal)) :: (5, vv2) ::
        (1, ({ sval := nm } : TokVal)) :: (q, vq) :: rest, la5, sc5, ctx5⟩ ∧
      Inp E la5 sc5 ((t, v) :: ks) ∧ SameSem ctx4 ctx5 := by
    unfold tokSuffix at hI4
    by_cases hs : c.opt OPT_SEMICOLON = true
    · rw [if_pos hs] at hI4
      obtain ⟨sc5, ctx5, hR5, hI5, hS5⟩ := shift' hE (v0 := vv4)
        (rest := (8, ({} : TokVal)) :: (5, vv2) :: (1, ({ sval := nm } : TokVal)) :: (q, vq) :: rest)
        (ctx := ctx4) (by dep) (by decide) kind_semicolon sh_21_semicolon (by decide) hI4
      obtain ⟨la6, sc6, ctx6, vv6, hR6, hI6, hS6⟩ := reduce0 hE (ctx := ctx5)
        (pushed := [(29, ({} : TokVal))]) (p := 21) (vp := vv4)
        (rest := (8, ({} : TokVal)) :: (5, vv2) :: (1, ({ sval := nm } : TokVal)) :: (q, vq) :: rest)
        rfl rfl (by dep) (by decide) (red_29 _ (kind_lt t)) rule_9 rfl go_21_term hI5
      exact ⟨la6, sc6, ctx6, vv6, hR5.trans hR6, hI6, hS5.trans hS6⟩
    · rw [if_neg hs] at hI4
      obtain ⟨la6, sc6, ctx6, vv6, hR6, hI6, hS6⟩ := reduce0 hE (ctx := ctx4)
        (pushed := []) (p := 21) (vp := vv4)
        (rest := (8, ({} : TokVal)) :: (5, vv2) :: (1, ({ sval := nm } : TokVal)) :: (q, vq) :: rest)
        rfl rfl (by dep) (by decide) (red_21 _ (kind_lt t) hf17 hf20) rule_8 rfl go_21_term hI4
      exact ⟨la6, sc6, ctx6, vv6, hR6, hI6, hS6⟩
  obtain ⟨la5, sc5, ctx5, vv5, hR5, hI5, hS5⟩ := hterm
  -- `setting: NAME $@1 = value setting_terminator`
  obtain ⟨la6, sc6, ctx6, vv6, hR6, hI6, hS6⟩ := reduce0 hE (ctx := ctx5)
    (pushed := [(30, vv5), (21, vv4), (8, ({} : TokVal)), (5, vv2), (1, ({ sval := nm } : TokVal))])
    (p := q) (vp := vq) (rest := rest)
    rfl rfl (by dep) (by decide) (red_30 _ (kind_lt t)) rule_12 rfl hg hI5
  exact ⟨la6, sc6, ctx6, vv6, k', st4,
    ((((hR1.trans hR2).trans hR3).trans hR4).trans hR5).trans hR6, hI6,
    (hV4.of_same hS5).of_same hS6, hk'⟩

/-- the first token after a member list -/
theorem tokMembers_head (ks : List Node) (hnames : ∀ k ∈ ks, nameOKB k = true) {t : Nat}
    {v : TokVal} {ks' : List (Nat × TokVal)} (h : MemFollow t) :
    ∃ t' v' r, tokMembers bufLen c ks ++ (t, v) :: ks' = (t', v') :: r ∧ MemFollow t' := by
  cases ks with
  | nil => exact ⟨t, v, ks', rfl, h⟩
  | cons k ks =>
    obtain ⟨nm, hnm, _⟩ := nameOKB_spec (hnames k List.mem_cons_self)
    rw [tokMembers_cons, hnm]
    simp only [tokPrefix, List.append_assoc, List.cons_append, List.nil_append]
    exact ⟨tk.name, _, _, rfl, memFollow_name⟩

/-- the settings after the first: the loop `setting_list: setting_list setting` -/
theorem sim_mem_rest (hE : Compiled E) {q0 q1 : Nat} (hM : MemCtx q0 q1) (ks : List Node) :
    (∀ k ∈ ks, ValueProp E bufLen c k) → (∀ k ∈ ks, okNode k = true) →
    (∀ k ∈ ks, nameOKB k = true) → (ks.map (·.name)).Nodup →
    ∀ (v1 v0 : TokVal) (rest : List (Nat × TokVal)) (la : Lookahead) (sc : ScanState)
      (ctx : ParseCtx) (K : Node → Node) (pp : Path) (pn : Node) (st : Option Path),
    rest.length + 6 * listDepth ks + 3 < 10000 → View ctx K pp pn none st → pn.ty = T_GROUP →
    (∀ k ∈ ks, ∀ x ∈ pn.kids, x.name ≠ k.name) →
    ∀ (t : Nat) (v : TokVal) (ks' : List (Nat × TokVal)), MemFollow t →
    Inp E la sc (tokMembers bufLen c ks ++ (t, v) :: ks') →
    ∃ la' sc' ctx' vv ks2 st', Reaches E ⟨(q1, v1) :: (q0, v0) :: rest, la, sc, ctx⟩
        ⟨(q1, vv) :: (q0, v0) :: rest, la', sc', ctx'⟩ ∧
      Inp E la' sc' ((t, v) :: ks') ∧
      View ctx' K pp { pn with kids := pn.kids ++ ks2 } none st' ∧
      stripPosList ks2 = expList bufLen c ks := by
  induction ks with
  | nil =>
    intro _ _ _ _ v1 v0 rest la sc ctx K pp pn st _ hV _ _ t v ks' _ hinp
    exact ⟨la, sc, ctx, v1, [], st, Reaches.refl _ _, hinp, view_kids_nil hV, rfl⟩
  | cons k ks ih =>
    intro hval hok hnames hnd v1 v0 rest la sc ctx K pp pn st hd hV hgty hfresh t v ks' hfol hinp
    have hdk : nodeDepth k + 1 ≤ listDepth (k :: ks) := listDepth_mem List.mem_cons_self
    have hdks : listDepth ks ≤ listDepth (k :: ks) := listDepth_cons_le k ks
    obtain ⟨nm, hnm, hvalid⟩ := nameOKB_spec (hnames k List.mem_cons_self)
    rw [tokMembers_cons, List.append_assoc] at hinp
    obtain ⟨t', v', r, hr, hfol'⟩ := tokMembers_head bufLen c ks
      (fun x hx => hnames x (List.mem_cons_of_mem _ hx)) (v := v) (ks' := ks') hfol
    rw [hr] at hinp
    -- the setting
    obtain ⟨la2, sc2, ctx2, vv2, k', st2, hR2, hI2, hV2, hk'⟩ := sim_member bufLen c hE k
      (hval k List.mem_cons_self) (hok k List.mem_cons_self) hnm hvalid hM.name1 hM.notFinal1
      hM.gSetting1 (vq := v1) (rest := (q0, v0) :: rest) (by dep) hV hgty
      (fun x hx => by rw [← hnm]; exact hfresh k List.mem_cons_self x hx) hfol' hinp
    -- `setting_list: setting_list setting`
    obtain ⟨la3, sc3, ctx3, vv3, hR3, hI3, hS3⟩ := reduce0 hE (ctx := ctx2)
      (pushed := [(7, vv2), (q1, v1)]) (p := q0) (vp := v0) (rest := rest)
      rfl rfl (by dep) (by decide) (red_7 _ (kind_lt t')) rule_5 rfl hM.gList hI2
    rw [← hr] at hI3
    -- the remaining settings
    have hk'name : k'.name = k.name := by
      rw [← stripPos_name k', hk', expNode_name]
    rw [List.map_cons, List.nodup_cons] at hnd
    obtain ⟨la4, sc4, ctx4, vv4, ks2, st4, hR4, hI4, hV4, hks2⟩ := ih
      (fun x hx => hval x (List.mem_cons_of_mem _ hx)) (fun x hx => hok x (List.mem_cons_of_mem _ hx))
      (fun x hx => hnames x (List.mem_cons_of_mem _ hx)) hnd.2
      vv3 v0 rest la3 sc3 ctx3 K pp { pn with kids := pn.kids ++ [k'] } st2 (by omega)
      (hV2.of_same hS3) hgty
      (by
        intro k2 hk2 x hx
        rcases List.mem_append.mp hx with hx | hx
        · exact hfresh k2 (List.mem_cons_of_mem _ hk2) x hx
        · rw [List.mem_singleton.mp hx, hk'name]
          intro heq
          exact hnd.1 (by rw [heq]; exact List.mem_map_of_mem hk2))
      t v ks' hfol hI3
    refine ⟨la4, sc4, ctx4, vv4, k' :: ks2, st4, (hR2.trans hR3).trans hR4, hI4, ?_, ?_⟩
    · have : ({ pn with kids := pn.kids ++ k' :: ks2 } : Node) =
          { pn with kids := (pn.kids ++ [k']) ++ ks2 } := by simp
      rw [this]
      exact hV4
    · rw [stripPosList, expList, hk', hks2]

/-- a non-empty list of settings, from a state `q0` in which one may start to the state `q1`
after `setting_list` -/
theorem sim_members (hE : Compiled E) {q0 q1 : Nat} (hM : MemCtx q0 q1) (k : Node)
    (ks : List Node) (hval : ∀ x ∈ k :: ks, ValueProp E bufLen c x)
    (hok : ∀ x ∈ k :: ks, okNode x = true) (hnames : ∀ x ∈ k :: ks, nameOKB x = true)
    (hnd : ((k :: ks).map (·.name)).Nodup)
    {v0 : TokVal} {rest : List (Nat × TokVal)} {la : Lookahead} {sc : ScanState} {ctx : ParseCtx}
    {K : Node → Node} {pp : Path} {pn : Node} {st : Option Path} {t : Nat} {v : TokVal}
    {ks' : List (Nat × TokVal)} (hd : rest.length + 6 * listDepth (k :: ks) + 3 < 10000)
    (hV : View ctx K pp pn none st) (hgty : pn.ty = T_GROUP) (hempty : pn.kids = [])
    (hfol : MemFollow t)
    (hinp : Inp E la sc (tokMembers bufLen c (k :: ks) ++ (t, v) :: ks')) :
    ∃ la' sc' ctx' vv ks2 st', Reaches E ⟨(q0, v0) :: rest, la, sc, ctx⟩
        ⟨(q1, vv) :: (q0, v0) :: rest, la', sc', ctx'⟩ ∧
      Inp E la' sc' ((t, v) :: ks') ∧
      View ctx' K pp { pn with kids := pn.kids ++ ks2 } none st' ∧
      stripPosList ks2 = expList bufLen c (k :: ks) := by
  have hdk : nodeDepth k + 1 ≤ listDepth (k :: ks) := listDepth_mem List.mem_cons_self
  have hdks : listDepth ks ≤ listDepth (k :: ks) := listDepth_cons_le k ks
  obtain ⟨nm, hnm, hvalid⟩ := nameOKB_spec (hnames k List.mem_cons_self)
  rw [tokMembers_cons, List.append_assoc] at hinp
  obtain ⟨t', v', r, hr, hfol'⟩ := tokMembers_head bufLen c ks
    (fun x hx => hnames x (List.mem_cons_of_mem _ hx)) (v := v) (ks' := ks') hfol
  rw [hr] at hinp
  -- the first setting
  obtain ⟨la2, sc2, ctx2, vv2, k', st2, hR2, hI2, hV2, hk'⟩ := sim_member bufLen c hE k
    (hval k List.mem_cons_self) (hok k List.mem_cons_self) hnm hvalid hM.name0 hM.notFinal0
    hM.gSetting0 (vq := v0) (rest := rest) (by omega) hV hgty
    (fun x hx => by rw [hempty] at hx; cases hx) hfol' hinp
  -- `setting_list: setting`
  obtain ⟨la3, sc3, ctx3, vv3, hR3, hI3, hS3⟩ := reduce0 hE (ctx := ctx2)
    (pushed := [(4, vv2)]) (p := q0) (vp := v0) (rest := rest)
    rfl rfl (by dep) (by decide) (red_4 _ (kind_lt t')) rule_4 rfl hM.gList hI2
  rw [← hr] at hI3
  -- the others
  have hk'name : k'.name = k.name := by
    rw [← stripPos_name k', hk', expNode_name]
  rw [List.map_cons, List.nodup_cons] at hnd
  obtain ⟨la4, sc4, ctx4, vv4, ks2, st4, hR4, hI4, hV4, hks2⟩ := sim_mem_rest bufLen c hE hM ks
    (fun x hx => hval x (List.mem_cons_of_mem _ hx)) (fun x hx => hok x (List.mem_cons_of_mem _ hx))
    (fun x hx => hnames x (List.mem_cons_of_mem _ hx)) hnd.2
    vv3 v0 rest la3 sc3 ctx3 K pp { pn with kids := pn.kids ++ [k'] } st2 (by omega)
    (hV2.of_same hS3) hgty
    (by
      intro k2 hk2 x hx
      rcases List.mem_append.mp hx with hx | hx
      · rw [hempty] at hx; cases hx
      · rw [List.mem_singleton.mp hx, hk'name]
        intro heq
        exact hnd.1 (by rw [heq]; exact List.mem_map_of_mem hk2))
    t v ks' hfol hI3
  refine ⟨la4, sc4, ctx4, vv4, k' :: ks2, st4, (hR2.trans hR3).trans hR4, hI4, ?_, ?_⟩
  · have : ({ pn with kids := pn.kids ++ k' :: ks2 } : Node) =
        { pn with kids := (pn.kids ++ [k']) ++ ks2 } := by simp
    rw [this]
    exact hV4
  · rw [stripPosList, expList, hk', hks2]

/-! ### groups -/

/-- what `okNode` says about the members of a group -/
theorem group_kids {n : Node} (hok : okNode n = true) (hty : n.ty = T_GROUP) :
    (∀ k ∈ n.kids, okNode k = true) ∧ (∀ k ∈ n.kids, nameOKB k = true) ∧
    (n.kids.map (·.name)).Nodup := by
  obtain ⟨_, _, hk, hall⟩ := okNode_parts hok
  rw [hty] at hk
  unfold kidsOKB at hk
  simp only [beq_self_eq_true, if_true, Bool.and_eq_true, List.all_eq_true] at hk
  exact ⟨hall, hk.1, (C04.nodupB_iff _).mp hk.2⟩

/-- the members of a group, from the state after `{ $@4` to the state before `}` -/
theorem sim_group_body (hE : Compiled E) (kids : List Node)
    (hval : ∀ k ∈ kids, ValueProp E bufLen c k) (hok : ∀ k ∈ kids, okNode k = true)
    (hnames : ∀ k ∈ kids, nameOKB k = true) (hnd : (kids.map (·.name)).Nodup)
    {v27 : TokVal} {rest : List (Nat × TokVal)}
    {la : Lookahead} {sc : ScanState} {ctx : ParseCtx} {K : Node → Node} {pp : Path} {a : Node}
    {st : Option Path} {t : Nat} {v : TokVal} {ks : List (Nat × TokVal)}
    (hd : rest.length + 6 * listDepth kids + 3 < 10000) (hV : View ctx K pp a none st)
    (haty : a.ty = T_GROUP) (hakids : a.kids = [])
    (hinp : Inp E la sc (tokMembers bufLen c kids ++ tGE :: (t, v) :: ks)) :
    ∃ la' sc' ctx' vv ks2 st', Reaches E ⟨(27, v27) :: rest, la, sc, ctx⟩
        ⟨(39, vv) :: (27, v27) :: rest, la', sc', ctx'⟩ ∧
      Inp E la' sc' (tGE :: (t, v) :: ks) ∧
      View ctx' K pp { a with kids := a.kids ++ ks2 } none st' ∧
      stripPosList ks2 = expList bufLen c kids := by
  cases kids with
  | nil =>
    simp only [tokMembers, List.nil_append] at hinp
    obtain ⟨la3, sc3, ctx3, vv3, hR3, hI3, hS3⟩ := reduce0 hE (ctx := ctx)
      (pushed := []) (p := 27) (vp := v27) (rest := rest)
      rfl rfl (by dep) (by decide) (by rw [kind_groupEnd]; exact red_27_groupEnd)
      rule_6 rfl go_27_slo hinp
    exact ⟨la3, sc3, ctx3, vv3, [], st, hR3, hI3, view_kids_nil (hV.of_same hS3), rfl⟩
  | cons k0 tl =>
    obtain ⟨la2, sc2, ctx2, vv2, ks2, st2, hR2, hI2, hV2, hks2⟩ := sim_members bufLen c hE mem_27
      k0 tl hval hok hnames hnd (v0 := v27) (rest := rest) (t := tGE.1) (v := tGE.2)
      (ks' := (t, v) :: ks) hd hV haty hakids memFollow_groupEnd hinp
    -- `setting_list_optional: setting_list`
    obtain ⟨la3, sc3, ctx3, vv3, hR3, hI3, hS3⟩ := reduce0 hE (ctx := ctx2)
      (pushed := [(38, vv2)]) (p := 27) (vp := v27) (rest := rest)
      rfl rfl (by dep) (by decide)
      (by show redOK P 38 (translateTok P tk.groupEnd) 7 = true; rw [kind_groupEnd]; exact red_38_groupEnd)
      rule_7 rfl go_27_slo hI2
    exact ⟨la3, sc3, ctx3, vv3, ks2, st2, hR2.trans hR3, hI3, hV2.of_same hS3, hks2⟩

/-- a group value: `{`, `$@4`, the members, `}` -/
theorem sim_group (hE : Compiled E) {q qv : Nat} (hC : ValCtx q qv) (n : Node)
    (hval : ∀ k ∈ n.kids, ValueProp E bufLen c k)
    (hok : okNode n = true) (hty : n.ty = T_GROUP) {vq : TokVal} {rest : List (Nat × TokVal)}
    {la : Lookahead} {sc : ScanState} {ctx : ParseCtx} {K : Node → Node} {pp : Path} {pn : Node}
    {st : Option Path} {pre : List Node} (hd : rest.length + 6 * nodeDepth n + 5 < 10000)
    (hV : View ctx K pp pn none st) (hS : Slot st pp pn pre n.name) (hna : pn.ty ≠ T_ARRAY)
    {t : Nat} {v : TokVal} {ks : List (Nat × TokVal)}
    (hinp : Inp E la sc (tokValue bufLen c n ++ (t, v) :: ks)) :
    ∃ la' sc' ctx' vv, Reaches E ⟨(q, vq) :: rest, la, sc, ctx⟩
        ⟨(qv, vv) :: (q, vq) :: rest, la', sc', ctx'⟩ ∧
      Inp E la' sc' ((t, v) :: ks) ∧ Built bufLen c K pp pn pre n ctx' := by
  obtain ⟨hkok, hknames, hknd⟩ := group_kids hok hty
  rw [nodeDepth_eq] at hd
  rw [tokValue_eq, hty] at hinp
  simp only [show (T_GROUP == T_LIST) = false from rfl, show (T_GROUP == T_ARRAY) = false from rfl,
    Bool.false_eq_true, if_false, beq_self_eq_true, if_true, List.append_assoc,
    List.cons_append, List.nil_append] at hinp
  -- `{`
  obtain ⟨sc1, ctx1, hR1, hI1, hS1⟩ := shift' hE (v0 := vq) (rest := rest) (ctx := ctx)
    (by omega) hC.scal.notFinal kind_groupStart hC.groupStart (by decide) hinp
  -- `$@4`
  obtain ⟨ctx2, vv2, hR2, a, st2, hV2, ha⟩ := reduceN' hE (la := none) (sc := sc1) (ctx := ctx1)
    (Post := fun c2 => ∃ a st', View c2 (fun y => K { pn with kids := pre ++ [y] })
      (pp ++ [pre.length]) a none st' ∧ stripPos a = { name := n.name, ty := T_GROUP })
    (pushed := []) (p := 18) (vp := ({} : TokVal)) (rest := (q, vq) :: rest) rfl rfl (by dep)
    (by decide) ninf_18 (by decide) rule_40 rfl go_18_M4
    (fun l f => by
      obtain ⟨c2, a, st', h1, h2, h3⟩ := act_aggStart (hV.of_same hS1) hS hna T_GROUP (by decide) l f
      exact ⟨c2, h1, a, st', h2, h3⟩)
  have ha' := eq_of_stripPos ha rfl
  have haty : a.ty = T_GROUP := by rw [ha']
  have hakids : a.kids = [] := by rw [ha']
  -- the members
  obtain ⟨la3, sc3, ctx3, vv3, ks2, st3, hR3, hI3, hV3, hks2⟩ := sim_group_body bufLen c hE n.kids
    hval hkok hknames hknd (v27 := vv2) (rest := (18, ({} : TokVal)) :: (q, vq) :: rest) (by dep)
    hV2 haty hakids hI1
  -- `}`
  obtain ⟨la4, sc4, ctx4, vv4, st4, hR4, hI4, hV4⟩ := sim_close hE hC.gValue
    (tt := tk.groupEnd) (tv := ({} : TokVal)) kind_groupEnd sh_39_groupEnd (by decide) (by decide)
    (by decide) (by decide) red_44 rule_41 hC.gGroup red_24 rule_20
    (v3 := vv3) (v2 := vv2) (v1 := ({} : TokVal)) (vq := vq) (rest := rest)
    (by omega) hV.hole hV3 hI3
  refine ⟨la4, sc4, ctx4, vv4, (hR1.trans hR2).trans (hR3.trans hR4), hI4, _, st4, hV4, ?_⟩
  exact built_agg bufLen c (by rw [hty]; exact ha) hks2 (by rw [hty]; rfl)

/-! ### every value -/

/-- the induction step: a value whose children satisfy `ValueProp` satisfies it -/
theorem value_of (hE : Compiled E) (n : Node) (hval : ∀ k ∈ n.kids, ValueProp E bufLen c k) :
    ValueProp E bufLen c n := by
  intro hok q qv hC vq rest la sc ctx K pp pn st pre t v ks hd hV hS hna hfol hinp
  by_cases hl : n.ty = T_LIST
  · exact sim_list bufLen c hE hC n hval hok hl hd hV hS hna hinp
  by_cases ha : n.ty = T_ARRAY
  · exact sim_array bufLen c hE hC n hok ha hd hV hS hna hinp
  by_cases hg : n.ty = T_GROUP
  · exact sim_group bufLen c hE hC n hval hok hg hd hV hS hna hinp
  -- a scalar
  have hsc : isAggregateTy n.ty = false := by
    unfold isAggregateTy
    simp only [Bool.or_eq_false_iff, beq_eq_false_iff_ne]
    exact ⟨⟨ha, hl⟩, hg⟩
  obtain ⟨la2, sc2, ctx2, vv2, hR2, hI2, hB2⟩ := sim_scalar bufLen c hE hC.scal n hok hsc
    (vq := vq) (rest := rest) (by omega) hV hS (fun h => absurd h hna) hfol hinp
  -- `value: simple_value`
  obtain ⟨la3, sc3, ctx3, vv3, hR3, hI3, hS3⟩ := reduce0 hE (ctx := ctx2)
    (pushed := [(23, vv2)]) (p := q) (vp := vq) (rest := rest)
    rfl rfl (by dep) (by decide) (red_23 _ (kind_lt t)) rule_17 rfl hC.gValue hI2
  obtain ⟨n', st', hV', hn'⟩ := hB2
  exact ⟨la3, sc3, ctx3, vv3, hR2.trans hR3, hI3, n', st', hV'.of_same hS3, hn'⟩

mutual
/-- induction over the setting tree -/
theorem node_ind {Pr : Node → Prop} (h : ∀ n : Node, (∀ k ∈ n.kids, Pr k) → Pr n) :
    (n : Node) → Pr n
  | .mk name ty fmt ival fval sval kids hook line file =>
    h (.mk name ty fmt ival fval sval kids hook line file) (list_ind h kids)
theorem list_ind {Pr : Node → Prop} (h : ∀ n : Node, (∀ k ∈ n.kids, Pr k) → Pr n) :
    (ks : List Node) → ∀ k ∈ ks, Pr k
  | [] => fun _ hk => by cases hk
  | k :: ks => fun x hx => by
    rcases List.mem_cons.mp hx with hx | hx
    · rw [hx]; exact node_ind h k
    · exact list_ind h ks x hx
end

/-- the simulation of a value, for every value -/
theorem all_values (hE : Compiled E) (n : Node) : ValueProp E bufLen c n :=
  node_ind (Pr := ValueProp E bufLen c) (fun n hk => value_of bufLen c hE n hk) n

/-! ### the whole configuration -/

/-- From the start configuration of `yyparse`, over a root that is an empty group, in front of
the tokens of the members of `root` followed by end of input, the loop — unless the fuel runs
out — arrives with the final state on top, and the root has the expected members. -/
theorem sim_config (hE : Compiled E) (root : Node) (hok : okNode root = true)
    (hty : root.ty = T_GROUP) (hdepth : 6 * nodeDepth root + 3 < 10000)
    {sc : ScanState} {ctx : ParseCtx} {r0 : Node} {st : Option Path}
    (hV : View ctx (fun x => x) [] r0 none st) (hr0ty : r0.ty = T_GROUP) (hr0k : r0.kids = [])
    (hinp : Inp E none sc (tokMembers bufLen c root.kids ++ [tEOF])) :
    ∃ la' sc' ctx' vv v2 ks2 st', Reaches E ⟨[(0, {})], none, sc, ctx⟩
        ⟨[(6, vv), (2, v2), (0, {})], la', sc', ctx'⟩ ∧
      View ctx' (fun x => x) [] { r0 with kids := r0.kids ++ ks2 } none st' ∧
      stripPosList ks2 = expList bufLen c root.kids := by
  obtain ⟨hkok, hknames, hknd⟩ := group_kids hok hty
  rw [nodeDepth_eq] at hdepth
  have body : ∃ la3 sc3 ctx3 vv3 ks2 st3,
      Reaches E ⟨[(0, {})], none, sc, ctx⟩ ⟨[(2, vv3), (0, {})], la3, sc3, ctx3⟩ ∧
      Inp E la3 sc3 [tEOF] ∧
      View ctx3 (fun x => x) [] { r0 with kids := r0.kids ++ ks2 } none st3 ∧
      stripPosList ks2 = expList bufLen c root.kids := by
    cases hkids : root.kids with
    | nil =>
      rw [hkids] at hinp
      simp only [tokMembers, List.nil_append] at hinp
      obtain ⟨la3, sc3, ctx3, vv3, hR3, hI3, hS3⟩ := reduce0 hE (ctx := ctx)
        (pushed := []) (p := 0) (vp := ({} : TokVal)) (rest := [])
        rfl rfl (by dep) (by decide) (by rw [kind_eof]; exact red_0_eof)
        rule_2 rfl go_0_conf hinp
      exact ⟨la3, sc3, ctx3, vv3, [], st, hR3, hI3, view_kids_nil (hV.of_same hS3), rfl⟩
    | cons k0 tl =>
      rw [hkids] at hinp hkok hknames hknd hdepth
      obtain ⟨la2, sc2, ctx2, vv2, ks2, st2, hR2, hI2, hV2, hks2⟩ := sim_members bufLen c hE mem_0
        k0 tl (fun x _ => all_values bufLen c hE x) hkok hknames hknd (v0 := ({} : TokVal))
        (rest := []) (t := tEOF.1) (v := tEOF.2) (ks' := [])
        (by simp only [List.length_nil]; omega) hV hr0ty hr0k memFollow_eof hinp
      -- `configuration: setting_list`
      obtain ⟨la3, sc3, ctx3, vv3, hR3, hI3, hS3⟩ := reduce0 hE (ctx := ctx2)
        (pushed := [(3, vv2)]) (p := 0) (vp := ({} : TokVal)) (rest := [])
        rfl rfl (by dep) (by decide)
        (by show redOK P 3 (translateTok P 0) 3 = true; rw [kind_eof]; exact red_3_eof)
        rule_3 rfl go_0_conf hI2
      exact ⟨la3, sc3, ctx3, vv3, ks2, st2, hR2.trans hR3, hI3, hV2.of_same hS3, hks2⟩
  obtain ⟨la3, sc3, ctx3, vv3, ks2, st3, hR3, hI3, hV3, hks2⟩ := body
  -- the end marker
  obtain ⟨sc4, ctx4, hR4, hI4, hS4⟩ := shift' hE (v0 := vv3) (rest := [(0, ({} : TokVal))])
    (ctx := ctx3) (t := 0) (v := ({} : TokVal)) (ks := []) (by dep) (by decide) kind_eof sh_2_eof
    (by decide) hI3
  exact ⟨none, sc4, ctx4, _, vv3, ks2, st3, hR3.trans hR4, hV3.of_same hS4, hks2⟩

end

end Libconfig.C01PP
