import LibconfigModel.Properties.C10
import LibconfigModel.Proofs.C10SpliceLex
/-
  Helper lemmas for Properties/C10Splice.lean, text side: lines of a text, the shape of a
  directive line (`directive?`), plain lines, `splice` line by line, and the internal form
  `TreeOK` of the strengthened tree hypothesis with its per-line views.
-/
set_option autoImplicit false

namespace Libconfig.C10S

open Libconfig Libconfig.C10

/-! ### lines -/

theorem mem_takeWhile_imp {α} {p : α → Bool} {l : List α} {a : α} (h : a ∈ l.takeWhile p) :
    p a = true :=
  List.all_eq_true.mp List.all_takeWhile a h

theorem takeWhile_eq_self {α} {p : α → Bool} : ∀ {l : List α}, (∀ a ∈ l, p a = true) →
    l.takeWhile p = l
  | [], _ => rfl
  | x :: xs, h => by
    rw [List.takeWhile_cons_of_pos (h x (List.mem_cons_self ..)),
      takeWhile_eq_self (fun a ha => h a (List.mem_cons_of_mem _ ha))]

/-- empty, or ending in a newline -/
def NLT (t : Bytes) : Prop := t = [] ∨ t.getLast? = some 10

/-- bytes 1 … 255 (a C string's characters; the model's `Bytes` are unbounded naturals) -/
def ByteText (t : Bytes) : Prop := ∀ b ∈ t, 1 ≤ b ∧ b < 256

def firstLine (t : Bytes) : Bytes := t.takeWhile (· != 10)

theorem follow_nil : Follow [] := .inl rfl
theorem follow_cons (m : Bytes) : Follow (10 :: m) := .inr rfl

theorem follow_cases {t : Bytes} (h : Follow t) : t = [] ∨ ∃ m, t = 10 :: m := by
  rcases h with h | h
  · exact .inl h
  · cases t with
    | nil => cases h
    | cons c m =>
      simp only [List.head?_cons, Option.some.injEq] at h
      exact .inr ⟨m, by rw [h]⟩

theorem follow_append {a b : Bytes} (ha : Follow a) (hb : Follow b) : Follow (a ++ b) := by
  rcases follow_cases ha with rfl | ⟨m, rfl⟩
  · simpa using hb
  · exact .inr rfl

/-- every text is a first line followed by nothing or by a newline and more text -/
theorem line_split (t : Bytes) : ∃ l tail, t = l ++ tail ∧ 10 ∉ l ∧ Follow tail := by
  refine ⟨t.takeWhile (· != 10), t.dropWhile (· != 10), List.takeWhile_append_dropWhile.symm, ?_, ?_⟩
  · intro h
    have := mem_takeWhile_imp h
    simp at this
  · have := List.head?_dropWhile_not (· != 10) t
    cases hd : (t.dropWhile (· != 10)) with
    | nil => exact .inl rfl
    | cons c m =>
      rw [hd] at this
      simp only [List.head?_cons, bne_eq_false_iff_eq] at this
      exact .inr (by rw [this]; rfl)

theorem firstLine_append {l tail : Bytes} (hl : 10 ∉ l) (ht : Follow tail) :
    firstLine (l ++ tail) = l := by
  unfold firstLine
  have hall : ∀ x ∈ l, (x != 10) = true := by
    intro x hx
    simp only [bne_iff_ne, ne_eq]
    intro h; exact hl (h ▸ hx)
  rw [List.takeWhile_append_of_pos hall]
  rcases follow_cases ht with rfl | ⟨m, rfl⟩
  · simp
  · simp

theorem splitOn_line {l tail : Bytes} (hl : 10 ∉ l) (ht : Follow tail) :
    (l ++ tail).splitOn 10 = l :: (match tail with | [] => [] | _ :: m => m.splitOn 10) := by
  rcases follow_cases ht with rfl | ⟨m, rfl⟩
  · simp only [List.append_nil]
    exact List.splitOn_eq_singleton hl
  · exact List.splitOn_append_cons_self_of_not_mem hl m

theorem byteText_append {a b : Bytes} : ByteText (a ++ b) ↔ ByteText a ∧ ByteText b := by
  simp only [ByteText, List.mem_append]
  constructor
  · intro h; exact ⟨fun x hx => h x (.inl hx), fun x hx => h x (.inr hx)⟩
  · rintro ⟨h1, h2⟩ x (hx | hx)
    · exact h1 x hx
    · exact h2 x hx

theorem byteText_cons {c : Nat} {b : Bytes} : ByteText (c :: b) ↔ (1 ≤ c ∧ c < 256) ∧ ByteText b := by
  simp only [ByteText, List.mem_cons, forall_eq_or_imp]

theorem byteText_drop {a : Bytes} (n : Nat) (h : ByteText a) : ByteText (a.drop n) :=
  fun b hb => h b (List.mem_of_mem_drop hb)

theorem nlt_drop {t : Bytes} (n : Nat) (h : NLT t) : NLT (t.drop n) := by
  by_cases hle : t.length ≤ n
  · exact .inl (List.drop_of_length_le hle)
  · rcases h with rfl | h
    · exact .inl (by simp)
    · exact .inr (by rw [List.getLast?_drop, if_neg hle, h])

/-- the C string view of a NUL-free text is the text -/
theorem cstr_of_byteText {t : Bytes} (h : ByteText t) : cstr t = t := by
  unfold cstr
  apply takeWhile_eq_self
  intro b hb
  have := (h b hb).1
  simp only [bne_iff_ne, ne_eq]
  omega

/-! ### the shape of a directive line -/

theorem kw_eq : bytesOfString "@include" = kw := by decide +kernel
theorem slashStar_eq : bytesOfString "/*" = [47, 42] := by decide +kernel

theorem drop_takeWhile_length {α} (p : α → Bool) : ∀ l : List α,
    l.drop (l.takeWhile p).length = l.dropWhile p
  | [] => rfl
  | x :: xs => by
    simp only [List.takeWhile_cons, List.dropWhile_cons]
    split
    · simp only [List.length_cons, List.drop_succ_cons]; exact drop_takeWhile_length p xs
    · rfl

theorem blank_of_mem_takeWhile {l : Bytes} {c : Nat}
    (h : c ∈ l.takeWhile fun c => c == 32 || c == 9) : c = 32 ∨ c = 9 := by
  have := mem_takeWhile_imp h
  simpa using this

/-- **Shape of a directive line**: blanks, `@include`, at least one blank, a quote, a path
without quote and backslash, a quote, the rest. -/
theorem directive?_shape {line path rest : Bytes} (h : directive? line = some (path, rest)) :
    ∃ b1 b2, line = b1 ++ kw ++ b2 ++ 34 :: (path ++ 34 :: rest) ∧ (∀ c ∈ b1, c = 32 ∨ c = 9) ∧
      (∀ c ∈ b2, c = 32 ∨ c = 9) ∧ b2 ≠ [] ∧ ∀ c ∈ path, c ≠ 34 ∧ c ≠ 92 := by
  unfold directive? at h
  simp only [kw_eq] at h
  split at h
  · rename_i hpre
    split at h
    · rename_i hlen
      split at h
      · rename_i q hq
        split at h
        · rename_i rest' hrest
          simp only [Option.some.injEq, Prod.mk.injEq] at h
          obtain ⟨hpath, rfl⟩ := h
          -- name the pieces
          have hl : line = (line.takeWhile fun c => c == 32 || c == 9) ++ skipBlanks line :=
            List.takeWhile_append_dropWhile.symm
          obtain ⟨r, hr⟩ := List.isPrefixOf_iff_prefix.mp hpre
          have hdrop : (skipBlanks line).drop 8 = r := by rw [← hr]; rfl
          rw [hdrop] at hq hlen
          have hr2 : r = (r.takeWhile fun c => c == 32 || c == 9) ++ skipBlanks r :=
            List.takeWhile_append_dropWhile.symm
          have hq2 : q = path ++ 34 :: rest' := by
            rw [← hpath, ← hrest, drop_takeWhile_length]
            exact List.takeWhile_append_dropWhile.symm
          refine ⟨line.takeWhile fun c => c == 32 || c == 9, r.takeWhile fun c => c == 32 || c == 9,
            ?_, fun c hc => blank_of_mem_takeWhile hc, fun c hc => blank_of_mem_takeWhile hc, ?_, ?_⟩
          · rw [← hq2, ← hq, List.append_assoc, List.append_assoc, ← hr2, hr]
            exact hl
          · intro hnil
            rw [hnil, List.nil_append] at hr2
            rw [← hr2] at hlen
            exact Nat.lt_irrefl _ hlen
          · intro c hc
            rw [← hpath] at hc
            have := mem_takeWhile_imp hc
            simpa using this
        · cases h
      · cases h
    · cases h
  · cases h

theorem directive?_quote {line : Bytes} {x : Bytes × Bytes} (h : directive? line = some x) :
    34 ∈ line := by
  obtain ⟨path, rest⟩ := x
  obtain ⟨b1, b2, rfl, -⟩ := directive?_shape h
  simp

theorem directive?_none_of_noquote {line : Bytes} (h : 34 ∉ line) : directive? line = none := by
  cases hd : directive? line with
  | none => rfl
  | some x => exact (h (directive?_quote hd)).elim

/-! ### plain lines -/

theorem hasInfix_of_prefix {a b : Bytes} (h : a <+: b) : hasInfix a b = true := by
  unfold hasInfix
  rw [List.any_eq_true]
  exact ⟨0, by simp, by simpa using h⟩

theorem hasInfix_drop {a b : Bytes} (n : Nat) (h : hasInfix a (b.drop n) = true) :
    hasInfix a b = true := by
  unfold hasInfix at h ⊢
  rw [List.any_eq_true] at h ⊢
  obtain ⟨i, hi, hp⟩ := h
  simp only [List.mem_range, List.length_drop] at hi
  rw [List.drop_drop] at hp
  by_cases hle : i + n ≤ b.length
  · exact ⟨i + n, by simp only [List.mem_range]; omega, by rw [Nat.add_comm]; exact hp⟩
  · -- beyond the end: the prefix is empty, found at position 0
    rw [List.drop_of_length_le (by omega)] at hp
    have : a = [] := by
      cases a with
      | nil => rfl
      | cons x xs => simp [List.isPrefixOf] at hp
    subst this
    exact ⟨0, by simp, by simp [List.isPrefixOf]⟩

/-- a line remainder on which nothing special can start: no quote, no `/*` -/
def PlainRem (l : Bytes) : Prop := 34 ∉ l ∧ hasInfix [47, 42] l = false

theorem plainRem_drop {l : Bytes} (n : Nat) (h : PlainRem l) : PlainRem (l.drop n) := by
  refine ⟨fun hm => h.1 (List.mem_of_mem_drop hm), ?_⟩
  cases hh : hasInfix [47, 42] (l.drop n) with
  | false => rfl
  | true => have h2 := h.2; rw [hasInfix_drop n hh] at h2; exact (Bool.noConfusion h2)

theorem plainRem_not_prefix {l : Bytes} (h : PlainRem l) : ¬ [47, 42] <+: l := by
  intro hp
  have h2 := h.2
  rw [hasInfix_of_prefix hp] at h2
  exact Bool.noConfusion h2

theorem plainRem_nil : PlainRem [] := ⟨by simp, by decide⟩

theorem plain_nondir {l : Bytes} (hp : plainLine l = true) (hd : directive? l = none) :
    PlainRem l := by
  unfold plainLine at hp
  rw [hd] at hp
  simp only [slashStar_eq, Bool.and_eq_true, Bool.not_eq_true', List.contains_eq_mem,
    decide_eq_false_iff_not] at hp
  exact ⟨hp.1, hp.2⟩

theorem plain_dir {l path rest : Bytes} (hp : plainLine l = true)
    (hd : directive? l = some (path, rest)) : PlainRem rest := by
  unfold plainLine at hp
  rw [hd] at hp
  simp only [slashStar_eq, Bool.and_eq_true, Bool.not_eq_true', List.contains_eq_mem,
    decide_eq_false_iff_not] at hp
  exact ⟨hp.1, hp.2⟩

theorem plainLine_of_rem {l : Bytes} (h : PlainRem l) : plainLine l = true := by
  unfold plainLine
  rw [directive?_none_of_noquote h.1]
  simp only [slashStar_eq, Bool.and_eq_true, Bool.not_eq_true', List.contains_eq_mem,
    decide_eq_false_iff_not]
  exact ⟨h.1, h.2⟩

/-! ### `splice`, line by line -/

/-- what `splice` (with `n + 1` levels) puts in place of one line -/
def spliceLine (w : World) (ic : IncludeCfg) (n : Nat) (line : Bytes) : Bytes :=
  match directive? line with
  | some (path, rest) =>
    match includeFnEval ic.fn ic.dir path with
    | (some files, none) => (files.flatMap fun p => splice w ic n ((w.open? p).getD [])) ++ rest
    | _ => rest
  | none => line

/-- what `splice` makes of the lines after the current one -/
def spliceTail (w : World) (ic : IncludeCfg) (n : Nat) : Bytes → Bytes
  | [] => []
  | _ :: m => 10 :: splice w ic n m

theorem splice_succ (w : World) (ic : IncludeCfg) (n : Nat) (text : Bytes) :
    splice w ic (n + 1) text = [10].intercalate ((text.splitOn 10).map (spliceLine w ic n)) := by
  rw [splice]
  congr 2

theorem splice_line (w : World) (ic : IncludeCfg) (n : Nat) {l tail : Bytes} (hl : 10 ∉ l)
    (ht : Follow tail) :
    splice w ic (n + 1) (l ++ tail) = spliceLine w ic n l ++ spliceTail w ic (n + 1) tail := by
  rw [splice_succ, splitOn_line hl ht]
  rcases follow_cases ht with rfl | ⟨m, rfl⟩
  · simp [spliceTail]
  · simp only [List.map_cons, spliceTail]
    rw [List.intercalate_cons_of_ne_nil (by simp), splice_succ]
    simp

theorem follow_spliceTail (w : World) (ic : IncludeCfg) (n : Nat) (tail : Bytes) :
    Follow (spliceTail w ic n tail) := by
  cases tail with
  | nil => exact .inl rfl
  | cons c m => exact .inr rfl

theorem spliceLine_nondir (w : World) (ic : IncludeCfg) (n : Nat) {l : Bytes}
    (h : directive? l = none) : spliceLine w ic n l = l := by
  unfold spliceLine; rw [h]

theorem splice_nil (w : World) (ic : IncludeCfg) (n : Nat) : splice w ic n [] = [] := by
  cases n with
  | zero => rfl
  | succ n =>
    have := splice_line w ic n (l := []) (tail := []) (by simp) follow_nil
    simpa [spliceLine_nondir w ic n (directive?_none_of_noquote (line := []) (by simp)),
      spliceTail] using this

/-! ### a bound on the iterations of the scanner loop over a text with its includes -/

/-- iterations for one line: its bytes; for a directive line the three iterations of the
directive, the included files, and the rest of the line -/
def lineWeight (w : World) (ic : IncludeCfg) (weight : Bytes → Nat) (line : Bytes) : Nat :=
  match directive? line with
  | some (path, rest) =>
    match includeFnEval ic.fn ic.dir path with
    | (some files, none) => 3 + (files.map fun p => weight ((w.open? p).getD [])).sum + rest.length
    | _ => 3 + rest.length
  | none => line.length

/-- an upper bound on the number of iterations of the `yylex` loop it takes to scan `text` with
its includes (`n` levels), including the end-of-buffer iteration: one per line (the newline,
or the end of the buffer) plus the weight of the line -/
def weight (w : World) (ic : IncludeCfg) : Nat → Bytes → Nat
  | 0, text => text.length + 1
  | n + 1, text => ((text.splitOn 10).map fun line => 1 + lineWeight w ic (weight w ic n) line).sum

def weightTail (w : World) (ic : IncludeCfg) (n : Nat) : Bytes → Nat
  | [] => 0
  | _ :: m => weight w ic n m

theorem weight_line (w : World) (ic : IncludeCfg) (n : Nat) {l tail : Bytes} (hl : 10 ∉ l)
    (ht : Follow tail) :
    weight w ic (n + 1) (l ++ tail) =
      1 + lineWeight w ic (weight w ic n) l + weightTail w ic (n + 1) tail := by
  rw [weight, splitOn_line hl ht]
  rcases follow_cases ht with rfl | ⟨m, rfl⟩
  · simp [weightTail]
  · simp only [List.map_cons, List.sum_cons, weightTail]
    rw [weight]

theorem lineWeight_nondir (w : World) (ic : IncludeCfg) (f : Bytes → Nat) {l : Bytes}
    (h : directive? l = none) : lineWeight w ic f l = l.length := by
  unfold lineWeight; rw [h]

theorem lineWeight_dir (w : World) (ic : IncludeCfg) (f : Bytes → Nat) {l path rest : Bytes}
    {files : List Bytes} (hd : directive? l = some (path, rest))
    (hfn : includeFnEval ic.fn ic.dir path = (some files, none)) :
    lineWeight w ic f l = 3 + (files.map fun p => f ((w.open? p).getD [])).sum + rest.length := by
  unfold lineWeight
  rw [hd]
  simp only [hfn]

/-! ### the tree hypothesis, line by line -/

/-- internal form of `IncludeTreeOK'` (Properties/C10Splice.lean) -/
def TreeOK (w : World) (ic : IncludeCfg) : Nat → Bytes → Prop
  | 0, text => ByteText text ∧
      ∀ line ∈ text.splitOn 10, plainLine line = true ∧ directive? line = none
  | D + 1, text => ByteText text ∧
      ∀ line ∈ text.splitOn 10, plainLine line = true ∧
        ∀ path rest, directive? line = some (path, rest) →
          ∃ files, includeFnEval ic.fn ic.dir path = (some files, none) ∧
            (∀ p ∈ files, ∃ content, w.open? p = some content ∧ TreeOK w ic D content) ∧
            (∀ p ∈ files.dropLast, ∀ content, w.open? p = some content → NLT content) ∧
            (∀ p, files.getLast? = some p → ∀ content, w.open? p = some content →
              NLT content ∨ rest = [])

/-- a directive with path `path` and rest of line `rest` is resolvable at depth `D` -/
def DirOK (w : World) (ic : IncludeCfg) : Nat → Bytes → Bytes → Prop
  | 0, _, _ => False
  | D + 1, path, rest =>
    ∃ files, includeFnEval ic.fn ic.dir path = (some files, none) ∧
      (∀ p ∈ files, ∃ content, w.open? p = some content ∧ TreeOK w ic D content) ∧
      (∀ p ∈ files.dropLast, ∀ content, w.open? p = some content → NLT content) ∧
      (∀ p, files.getLast? = some p → ∀ content, w.open? p = some content →
        NLT content ∨ rest = [])

def LineOK (w : World) (ic : IncludeCfg) (D : Nat) (line : Bytes) : Prop :=
  plainLine line = true ∧ ∀ path rest, directive? line = some (path, rest) → DirOK w ic D path rest

theorem treeOK_iff (w : World) (ic : IncludeCfg) (D : Nat) (text : Bytes) :
    TreeOK w ic D text ↔ ByteText text ∧ ∀ line ∈ text.splitOn 10, LineOK w ic D line := by
  cases D with
  | zero =>
    simp only [TreeOK, LineOK, DirOK]
    constructor
    · rintro ⟨hb, h⟩
      exact ⟨hb, fun line hl => ⟨(h line hl).1, fun path rest hd => by
        rw [(h line hl).2] at hd; cases hd⟩⟩
    · rintro ⟨hb, h⟩
      refine ⟨hb, fun line hl => ⟨(h line hl).1, ?_⟩⟩
      cases hd : directive? line with
      | none => rfl
      | some x => exact ((h line hl).2 x.1 x.2 hd).elim
  | succ D => simp only [TreeOK, LineOK, DirOK]

theorem lineOK_of_rem (w : World) (ic : IncludeCfg) (D : Nat) {l : Bytes} (h : PlainRem l) :
    LineOK w ic D l :=
  ⟨plainLine_of_rem h, fun path rest hd => by
    rw [directive?_none_of_noquote h.1] at hd; cases hd⟩

/-- the first line of a well-formed text, and the text after it -/
theorem treeOK_line {w : World} {ic : IncludeCfg} {D : Nat} {l tail : Bytes} (hl : 10 ∉ l)
    (ht : Follow tail) (h : TreeOK w ic D (l ++ tail)) :
    ByteText l ∧ LineOK w ic D l ∧ ∀ m, tail = 10 :: m → TreeOK w ic D m := by
  rw [treeOK_iff, splitOn_line hl ht] at h
  obtain ⟨hb, hlines⟩ := h
  refine ⟨(byteText_append.mp hb).1, hlines l (List.mem_cons_self ..), ?_⟩
  rintro m rfl
  rw [treeOK_iff]
  exact ⟨fun b hbm => (byteText_append.mp hb).2 b (List.mem_cons_of_mem _ hbm),
    fun line hm => hlines line (List.mem_cons_of_mem _ hm)⟩

/-- replacing the first line -/
theorem treeOK_replace {w : World} {ic : IncludeCfg} {D : Nat} {l l' tail : Bytes} (hl : 10 ∉ l)
    (hl' : 10 ∉ l') (ht : Follow tail) (h : TreeOK w ic D (l ++ tail)) (hb' : ByteText l')
    (hok : LineOK w ic D l') : TreeOK w ic D (l' ++ tail) := by
  rw [treeOK_iff, splitOn_line hl ht] at h
  rw [treeOK_iff, splitOn_line hl' ht]
  obtain ⟨hb, hlines⟩ := h
  refine ⟨byteText_append.mpr ⟨hb', (byteText_append.mp hb).2⟩, ?_⟩
  intro line hm
  rcases List.mem_cons.mp hm with rfl | hm
  · exact hok
  · exact hlines line (List.mem_cons_of_mem _ hm)

theorem treeOK_byteText {w : World} {ic : IncludeCfg} {D : Nat} {t : Bytes} (h : TreeOK w ic D t) :
    ByteText t := ((treeOK_iff w ic D t).mp h).1

end Libconfig.C10S
