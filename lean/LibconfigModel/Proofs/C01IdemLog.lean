import LibconfigModel.Proofs.C01IdemFloat
/-
  C01F, part 3 (scientific notation) — `F64.floorLog10` is correct, and the digits / exponent pair
  that `%.{p}g` computes (`C01P.gDX`) is what it should be: `10^(p-1) ≤ d < 10^p`, and `d` is the
  magnitude divided by `10^(x-p+1)` rounded half-even (with the carry `d0 = 10^p ↦ (10^(p-1), x0+1)`).
-/
namespace Libconfig.C01I
open Libconfig F64 C01P C01L
open Libconfig.F64R (dist sMag)

/-! ### the two loops of `floorLog10` -/

theorem down_spec (le : Int → Bool) : ∀ (fuel : Nat) (x : Int) (j : Nat), j < fuel →
    le (x - j) = true →
    le (floorLog10.down le fuel x) = true ∧ x - j ≤ floorLog10.down le fuel x ∧
      floorLog10.down le fuel x ≤ x ∧
      (floorLog10.down le fuel x < x → le (floorLog10.down le fuel x + 1) = false) := by
  intro fuel
  induction fuel with
  | zero => intro x j hj; omega
  | succ f ih =>
    intro x j hj hle
    rw [floorLog10.down.eq_2]
    by_cases hx : le x = true
    · rw [if_pos hx]
      exact ⟨hx, by omega, by omega, fun h => by omega⟩
    · rw [if_neg hx]
      cases j with
      | zero => simp at hle; exact absurd hle hx
      | succ j' =>
        have e : x - 1 - (j' : Int) = x - ((j' + 1 : Nat) : Int) := by omega
        obtain ⟨a1, a2, a3, a4⟩ := ih (x - 1) j' (by omega) (by rw [e]; exact hle)
        refine ⟨a1, by omega, by omega, fun _ => ?_⟩
        by_cases hlt : floorLog10.down le f (x - 1) < x - 1
        · exact a4 hlt
        · have : floorLog10.down le f (x - 1) + 1 = x := by omega
          rw [this]
          simpa using hx

theorem up_spec (le : Int → Bool) : ∀ (fuel : Nat) (x : Int) (j : Nat), j < fuel →
    le (x + j + 1) = false → le x = true →
    le (floorLog10.up le fuel x) = true ∧ le (floorLog10.up le fuel x + 1) = false ∧
      x ≤ floorLog10.up le fuel x ∧ floorLog10.up le fuel x ≤ x + j := by
  intro fuel
  induction fuel with
  | zero => intro x j hj; omega
  | succ f ih =>
    intro x j hj hfalse hx
    rw [floorLog10.up.eq_2]
    by_cases h1 : le (x + 1) = true
    · rw [if_pos h1]
      cases j with
      | zero =>
        simp only [Int.natCast_zero, Int.add_zero] at hfalse
        rw [hfalse] at h1; cases h1
      | succ j' =>
        have e : x + 1 + (j' : Int) + 1 = x + ((j' + 1 : Nat) : Int) + 1 := by omega
        obtain ⟨a1, a2, a3, a4⟩ := ih (x + 1) j' (by omega) (by rw [e]; exact hfalse) h1
        exact ⟨a1, a2, by omega, by omega⟩
    · rw [if_neg h1]
      exact ⟨hx, by simpa using h1, by omega, by omega⟩

/-! ### `floorLog10` from its two ingredients -/

/-- `10^x ≤ num/den` -/
def leP (num den : Nat) (x : Int) : Bool :=
  if x ≥ 0 then decide (den * 10 ^ x.toNat ≤ num) else decide (den ≤ num * 10 ^ ((-x).toNat))

/-- the estimate `⌊0.30103·B⌋` -/
def estB (B : Int) : Int := (B * 30103) / 100000

theorem floorLog10_eq (num den : Nat) :
    floorLog10 num den = floorLog10.up (leP num den) 8
      (floorLog10.down (leP num den) 8 (estB ((bitLen num : Int) - (bitLen den : Int)) + 1)) := rfl

theorem floorLog10_of_bracket (num den : Nat) (e : Int)
    (he : e = estB ((bitLen num : Int) - (bitLen den : Int)))
    (h1 : leP num den (e - 1) = true) (h2 : leP num den (e + 2) = false) :
    leP num den (floorLog10 num den) = true ∧ leP num den (floorLog10 num den + 1) = false ∧
      e - 1 ≤ floorLog10 num den ∧ floorLog10 num den ≤ e + 1 := by
  rw [floorLog10_eq, ← he]
  obtain ⟨a1, a2, a3, -⟩ := down_spec (leP num den) 8 (e + 1) 2 (by omega)
    (by rw [show e + 1 - ((2 : Nat) : Int) = e - 1 by omega]; exact h1)
  generalize floorLog10.down (leP num den) 8 (e + 1) = r at *
  obtain ⟨j, hj⟩ : ∃ j : Nat, (j : Int) = e + 1 - r := ⟨(e + 1 - r).toNat, by omega⟩
  obtain ⟨b1, b2, b3, b4⟩ := up_spec (leP num den) 8 r j (by omega)
    (by rw [show r + (j : Int) + 1 = e + 2 by omega]; exact h2) a1
  exact ⟨b1, b2, by omega, by omega⟩

/-! ### the estimate brackets the logarithm: a table of powers, checked by the kernel -/

/-- `10^a ≤ 2^b` for integer exponents (cross-multiplied) -/
def pow10le2 (a b : Int) : Bool :=
  decide (10 ^ a.toNat * 2 ^ (-b).toNat ≤ 2 ^ b.toNat * 10 ^ (-a).toNat)

/-- `2^c ≤ 10^a` for integer exponents (cross-multiplied) -/
def pow2le10 (c a : Int) : Bool :=
  decide (2 ^ c.toNat * 10 ^ (-a).toNat ≤ 10 ^ a.toNat * 2 ^ (-c).toNat)

/-- for a ratio with bit-length difference `B`: `10^(est-1) ≤ 2^(B-1)` and `2^(B+1) ≤ 10^(est+2)` -/
def tabOK (B : Int) : Bool := pow10le2 (estB B - 1) (B - 1) && pow2le10 (B + 1) (estB B + 2)

def tabAll : Nat → Bool
  | 0 => true
  | n + 1 => tabOK ((n : Int) - 1080) && tabAll n

theorem tabAll_sound : ∀ n, tabAll n = true → ∀ i : Nat, i < n → tabOK ((i : Int) - 1080) = true := by
  intro n
  induction n with
  | zero => intro _ i hi; omega
  | succ n ih =>
    intro h i hi
    rw [tabAll, Bool.and_eq_true] at h
    by_cases hin : i = n
    · rw [hin]; exact h.1
    · exact ih h.2 i (by omega)

set_option exponentiation.threshold 2000 in
theorem tabAll_ok : tabAll 2120 = true := by decide +kernel

theorem tab (B : Int) (h1 : -1080 ≤ B) (h2 : B < 1040) : tabOK B = true := by
  have := tabAll_sound 2120 tabAll_ok (B + 1080).toNat (by omega)
  rwa [show (((B + 1080).toNat : Nat) : Int) - 1080 = B by omega] at this

/-! ### from the table to the ratio -/

theorem le_of_pow10le2 (num den : Nat) (hn : 0 < num) (a : Int)
    (h : pow10le2 a ((bitLen num : Int) - (bitLen den : Int) - 1) = true) :
    den * 10 ^ a.toNat ≤ num * 10 ^ (-a).toNat := by
  have hp := bitLen_pos num hn
  have hP := pow_pred_bitLen_le num hn
  have hQ := Nat.le_of_lt (C08P.lt_pow_bitLen den)
  unfold pow10le2 at h
  simp only [decide_eq_true_eq] at h
  generalize hb : (bitLen num : Int) - (bitLen den : Int) - 1 = b at h
  have hid : 2 ^ b.toNat * 2 ^ bitLen den = 2 ^ (bitLen num - 1) * 2 ^ (-b).toNat := by
    rw [← Nat.pow_add, ← Nat.pow_add]; congr 1; omega
  have hE : 0 < 2 ^ (-b).toNat := Nat.two_pow_pos _
  generalize 10 ^ a.toNat = A at *
  generalize 10 ^ (-a).toNat = A' at *
  generalize 2 ^ (-b).toNat = E at *
  generalize 2 ^ b.toNat = E' at *
  generalize 2 ^ bitLen den = Q at *
  generalize 2 ^ (bitLen num - 1) = P at *
  apply Nat.le_of_mul_le_mul_right _ hE
  calc den * A * E ≤ Q * A * E := Nat.mul_le_mul_right _ (Nat.mul_le_mul_right _ hQ)
    _ = Q * (A * E) := Nat.mul_assoc _ _ _
    _ ≤ Q * (E' * A') := Nat.mul_le_mul_left _ h
    _ = (E' * Q) * A' := by rw [Nat.mul_comm E' Q, Nat.mul_assoc]
    _ = P * E * A' := by rw [hid]
    _ ≤ num * E * A' := Nat.mul_le_mul_right _ (Nat.mul_le_mul_right _ hP)
    _ = num * A' * E := Nat.mul_right_comm _ _ _

theorem lt_of_pow2le10 (num den : Nat) (hd : 0 < den) (a : Int)
    (h : pow2le10 ((bitLen num : Int) - (bitLen den : Int) + 1) a = true) :
    num * 10 ^ (-a).toNat < den * 10 ^ a.toNat := by
  have hq := bitLen_pos den hd
  have hQ := pow_pred_bitLen_le den hd
  have hP := C08P.lt_pow_bitLen num
  unfold pow2le10 at h
  simp only [decide_eq_true_eq] at h
  generalize hc : (bitLen num : Int) - (bitLen den : Int) + 1 = c at h
  have hid : 2 ^ bitLen num * 2 ^ (-c).toNat = 2 ^ c.toNat * 2 ^ (bitLen den - 1) := by
    rw [← Nat.pow_add, ← Nat.pow_add]; congr 1; omega
  have hC : 0 < 2 ^ (-c).toNat := Nat.two_pow_pos _
  have hA' : 0 < 10 ^ (-a).toNat := Nat.pow_pos (by omega)
  generalize 10 ^ a.toNat = A at *
  generalize 10 ^ (-a).toNat = A' at *
  generalize 2 ^ (-c).toNat = C at *
  generalize 2 ^ c.toNat = C' at *
  generalize 2 ^ (bitLen den - 1) = Q at *
  generalize 2 ^ bitLen num = P at *
  apply Nat.lt_of_mul_lt_mul_right (a := C)
  calc num * A' * C < P * A' * C :=
        Nat.mul_lt_mul_of_pos_right (Nat.mul_lt_mul_of_pos_right hP hA') hC
    _ = (P * C) * A' := Nat.mul_right_comm _ _ _
    _ = C' * Q * A' := by rw [hid]
    _ = Q * (C' * A') := by rw [Nat.mul_comm C' Q, Nat.mul_assoc]
    _ ≤ Q * (A * C) := Nat.mul_le_mul_left _ h
    _ ≤ den * (A * C) := Nat.mul_le_mul_right _ hQ
    _ = den * A * C := (Nat.mul_assoc _ _ _).symm

theorem leP_true_of (num den : Nat) (x : Int) (h : den * 10 ^ x.toNat ≤ num * 10 ^ (-x).toNat) :
    leP num den x = true := by
  unfold leP
  by_cases hx : x ≥ 0
  · rw [if_pos hx]
    rw [show (-x).toNat = 0 by omega, Nat.pow_zero, Nat.mul_one] at h
    simpa using h
  · rw [if_neg hx]
    rw [show x.toNat = 0 by omega, Nat.pow_zero, Nat.mul_one] at h
    simpa using h

theorem leP_false_of (num den : Nat) (x : Int) (h : num * 10 ^ (-x).toNat < den * 10 ^ x.toNat) :
    leP num den x = false := by
  unfold leP
  by_cases hx : x ≥ 0
  · rw [if_pos hx]
    rw [show (-x).toNat = 0 by omega, Nat.pow_zero, Nat.mul_one] at h
    simp only [decide_eq_false_iff_not]; omega
  · rw [if_neg hx]
    rw [show x.toNat = 0 by omega, Nat.pow_zero, Nat.mul_one] at h
    simp only [decide_eq_false_iff_not]; omega

theorem leP_true_iff (num den : Nat) (x : Int) :
    leP num den x = true ↔ den * 10 ^ x.toNat ≤ num * 10 ^ (-x).toNat := by
  refine ⟨fun h => ?_, leP_true_of num den x⟩
  false_or_by_contra
  rename_i hn
  rw [leP_false_of num den x (by omega)] at h
  cases h

theorem leP_false_iff (num den : Nat) (x : Int) :
    leP num den x = false ↔ num * 10 ^ (-x).toNat < den * 10 ^ x.toNat := by
  refine ⟨fun h => ?_, leP_false_of num den x⟩
  false_or_by_contra
  rename_i hn
  rw [leP_true_of num den x (by omega)] at h
  cases h

/-- **`floorLog10` is correct**: for a positive ratio whose bit lengths differ by less than 1040,
`10^x0 ≤ num/den < 10^(x0+1)`, and `x0` is within one of the estimate -/
theorem floorLog10_spec (num den : Nat) (hn : 0 < num) (hd : 0 < den)
    (h1 : -1080 ≤ (bitLen num : Int) - (bitLen den : Int))
    (h2 : (bitLen num : Int) - (bitLen den : Int) < 1040) :
    den * 10 ^ (floorLog10 num den).toNat ≤ num * 10 ^ (-floorLog10 num den).toNat ∧
    num * 10 ^ (-(floorLog10 num den + 1)).toNat < den * 10 ^ (floorLog10 num den + 1).toNat ∧
    estB ((bitLen num : Int) - (bitLen den : Int)) - 1 ≤ floorLog10 num den ∧
    floorLog10 num den ≤ estB ((bitLen num : Int) - (bitLen den : Int)) + 1 := by
  have ht := tab _ h1 h2
  unfold tabOK at ht
  rw [Bool.and_eq_true] at ht
  obtain ⟨a1, a2, a3, a4⟩ := floorLog10_of_bracket num den _ rfl
    (leP_true_of _ _ _ (le_of_pow10le2 num den hn _ ht.1))
    (leP_false_of _ _ _ (lt_of_pow2le10 num den hd _ ht.2))
  exact ⟨(leP_true_iff _ _ _).mp a1, (leP_false_iff _ _ _).mp a2, a3, a4⟩

end Libconfig.C01I

