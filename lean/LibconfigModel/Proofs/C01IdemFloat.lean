import LibconfigModel.Proofs.C01LexFloatOK
/-
  C01F, part 1 — the float lemma of "writing is idempotent": with scientific notation off, the
  text `libconfig_format_double` writes for a finite double `b` is a fixed point of
  `text ↦ strtod ↦ format`:

      formatDouble 341 (strtod (formatDouble 341 b p false)) p false = formatDouble 341 b p false.

  Mathematical core (`reround`): `N = round-half-even(|b|·10^p)` is the integer that `%.{p}f`
  prints; the double `b'` read back is nearest to `N / 10^p` (`F64R.ofRat_nearest_R`), hence at
  least as close to it as `b` is, so `| |b'|·10^p − N | ≤ | |b|·10^p − N | ≤ 1/2`; if the inequality
  is strict `b'` rounds to `N`; if not, `b` was a tie too, ties-to-even chose `N` for `b`, so `N`
  is even and the tie of `b'` goes to `N` as well.
-/
namespace Libconfig.C01I
open Libconfig F64 C01P C01L
open Libconfig.F64R (dist sMag)

/-! ### `divRoundEven`: scaling, half-unit bound, uniqueness -/

theorem dre_zero (d : Nat) : divRoundEven 0 d = 0 := by
  unfold divRoundEven
  simp

/-- a common factor of numerator and denominator does not matter -/
theorem dre_scale (n d k : Nat) (hk : 0 < k) : divRoundEven (n * k) (d * k) = divRoundEven n d := by
  unfold divRoundEven
  simp only [Nat.mul_div_mul_right n d hk, Nat.mul_mod_mul_right]
  have e1 : 2 * (n % d * k) = 2 * (n % d) * k := by rw [Nat.mul_assoc]
  have h1 : (2 * (n % d * k) > d * k) ↔ (2 * (n % d) > d) := by
    rw [e1]; exact Nat.mul_lt_mul_right hk
  have h2 : (2 * (n % d * k) == d * k) = (2 * (n % d) == d) := by
    rw [e1]
    by_cases h : 2 * (n % d) = d
    · simp [h]
    · have : ¬ (2 * (n % d) * k = d * k) := fun e => h (Nat.eq_of_mul_eq_mul_right hk e)
      rw [beq_eq_false_iff_ne.mpr this, beq_eq_false_iff_ne.mpr h]
  rw [h2]
  by_cases h : 2 * (n % d) > d
  · rw [if_pos h, if_pos (h1.mpr h)]
  · rw [if_neg h, if_neg (fun x => h (h1.mp x))]

/-- an exact quotient is not rounded -/
theorem dre_exact (q d : Nat) (hd : 0 < d) : divRoundEven (q * d) d = q := by
  have := dre_scale q 1 d hd
  rw [Nat.one_mul] at this
  rw [this, divRoundEven_one]

/-- the result of `divRoundEven` is within half a unit; a result exactly half a unit away is even -/
theorem dre_half (n d : Nat) (hd : 0 < d) :
    2 * dist n (divRoundEven n d * d) ≤ d ∧
      (2 * dist n (divRoundEven n d * d) = d → divRoundEven n d % 2 = 0) := by
  have hn := Nat.div_add_mod n d
  have hr := Nat.mod_lt n hd
  rw [Nat.mul_comm] at hn
  have hs : (n / d + 1) * d = n / d * d + d := Nat.succ_mul _ _
  unfold dist
  rcases F64R.dre_cases n d with ⟨h1, h2, h3⟩ | ⟨h1, h2, h3⟩ <;> rw [h1] <;>
    generalize n / d * d = qd at * <;> omega

/-- conversely, an integer within half a unit (even, if exactly half a unit away) is the result -/
theorem dre_unique (n d N : Nat) (hd : 0 < d) (h : 2 * dist n (N * d) ≤ d)
    (ht : 2 * dist n (N * d) = d → N % 2 = 0) : divRoundEven n d = N := by
  have hn := Nat.div_add_mod n d
  have hr := Nat.mod_lt n hd
  rw [Nat.mul_comm] at hn
  obtain ⟨g1, g2, g3, g4⟩ := F64R.mul_grid N (n / d) d
  have hs : (n / d + 1) * d = n / d * d + d := Nat.succ_mul _ _
  unfold dist at h ht
  rcases F64R.dre_cases n d with ⟨h1, h2, h3⟩ | ⟨h1, h2, h3⟩ <;> rw [h1] <;>
    generalize n / d * d = qd at * <;> generalize N * d = Nd at * <;> omega

/-- **re-rounding.**  If `S'` is at least as close to `N·T/P` as `S` is, and `S·P/T` rounds
(half-even) to `N`, then so does `S'·P/T`. -/
theorem reround (S S' P T : Nat) (hT : 0 < T)
    (hnear : dist (divRoundEven (S * P) T * T) (S' * P) ≤ dist (divRoundEven (S * P) T * T) (S * P)) :
    divRoundEven (S' * P) T = divRoundEven (S * P) T := by
  obtain ⟨h1, h2⟩ := dre_half (S * P) T hT
  generalize divRoundEven (S * P) T = N at *
  apply dre_unique _ _ _ hT
  · unfold dist at *; omega
  · intro h; apply h2; unfold dist at *; omega

/-! ### `scaledRound` through the scaled magnitude -/

theorem expo_ge (b : Nat) : -1074 ≤ expo b := by
  unfold expo
  split
  · omega
  · rename_i h
    have : expField b ≠ 0 := by simpa using h
    omega

/-- `%.{p}f` prints `round-half-even(|b|·10^p)`, with `|b| = sMag b / 2^1074` -/
theorem scaledRound_eq (b p : Nat) : scaledRound b p = divRoundEven (sMag b * 10 ^ p) (2 ^ 1074) := by
  have he := expo_ge b
  unfold scaledRound sMag
  simp only []
  split
  · rename_i h
    have e : (expo b + 1074).toNat = (expo b).toNat + 1074 := by omega
    rw [e, Nat.pow_add, ← Nat.mul_assoc, Nat.mul_right_comm _ (2 ^ 1074) (10 ^ p),
      dre_exact _ _ (Nat.two_pow_pos 1074)]
  · rename_i h
    have e : 2 ^ 1074 = 2 ^ (-expo b).toNat * 2 ^ (expo b + 1074).toNat := by
      rw [← Nat.pow_add]; congr 1; omega
    rw [e, Nat.mul_right_comm (mant b) _ (10 ^ p), dre_scale _ _ _ (Nat.two_pow_pos _)]

/-! ### finiteness -/

theorem finite_of (b : Nat) (h1 : isNaN b = false) (h2 : isInf b = false) : isFinite b = true := by
  unfold isNaN at h1
  unfold isInf at h2
  unfold isFinite
  by_cases h : expField b = 2047
  · rw [h] at h1 h2
    simp only [beq_self_eq_true, Bool.true_and] at h1 h2
    have a1 : fracField b = 0 := by simpa using h1
    have a2 : fracField b ≠ 0 := by simpa using h2
    exact absurd a1 a2
  · simpa using h

/-! ### the double read back -/

/-- the distance to `num/den = N/P` at the scale `den` and at the scale `P` -/
theorem err_transport (num den N P Y Z T S : Nat) (hval : num * Z = N * Y) (hden : den * Z = P * Y) :
    dist (num * T) (S * den) * Z = dist (N * T) (S * P) * Y := by
  rw [F64R.dist_mul_right, F64R.dist_mul_right]
  congr 1
  · rw [Nat.mul_right_comm, hval, Nat.mul_right_comm]
  · rw [Nat.mul_assoc, hden, Nat.mul_assoc]

/-- the nearest double to `N / 10^p` (given as `num / den` with `num·10^z = N·10^y`,
`den·10^z = 10^(p+y)`) prints as `N` again, if `N` is what `b` prints as -/
theorem ofRat_scaledRound (neg : Bool) (b p num fl z y : Nat) (hnum : 0 < num)
    (hval : num * 10 ^ z = scaledRound b p * 10 ^ y) (hlen : fl + z = p + y)
    (hinf : isInf (ofRat neg num (10 ^ fl)) = false) :
    isFinite (ofRat neg num (10 ^ fl)) = true ∧ signBit (ofRat neg num (10 ^ fl)) = neg ∧
      scaledRound (ofRat neg num (10 ^ fl)) p = scaledRound b p := by
  have hden : 0 < 10 ^ fl := Nat.pow_pos (by omega)
  obtain ⟨hsg, hnan, hnear, -⟩ := F64R.ofRat_nearest_R neg num (10 ^ fl) hnum hden
  have hfin := finite_of _ hnan hinf
  refine ⟨hfin, hsg, ?_⟩
  have hle := (hnear hfin b).1
  generalize ofRat neg num (10 ^ fl) = b' at *
  have hN := scaledRound_eq b p
  rw [scaledRound_eq b' p]
  have e : ∀ c, F64R.errR num (10 ^ fl) c = dist (num * 2 ^ 1074) (sMag c * 10 ^ fl) := by
    intro c
    unfold F64R.errR
    rw [F64R.err_eq_dist]
  rw [e, e] at hle
  have hT : 0 < 2 ^ 1074 := Nat.two_pow_pos 1074
  generalize (2 : Nat) ^ 1074 = T at *
  generalize scaledRound b p = N at *
  -- transport the error inequality from the scale `den` to the scale `10^p`
  have hy : 0 < 10 ^ y := Nat.pow_pos (by omega)
  have key : ∀ c : Nat, dist (num * T) (sMag c * 10 ^ fl) * 10 ^ z =
      dist (N * T) (sMag c * 10 ^ p) * 10 ^ y := fun c =>
    err_transport num (10 ^ fl) N (10 ^ p) (10 ^ y) (10 ^ z) T (sMag c) hval
      (by rw [← Nat.pow_add, ← Nat.pow_add, hlen])
  have := Nat.mul_le_mul_right (10 ^ z) hle
  rw [key, key] at this
  have hle' := Nat.le_of_mul_le_mul_right this hy
  subst hN
  exact reround _ _ _ _ hT hle'

theorem scaledRound_zero (neg : Bool) (p : Nat) :
    isFinite (mkBits neg 0 0) = true ∧ signBit (mkBits neg 0 0) = neg ∧
      scaledRound (mkBits neg 0 0) p = 0 := by
  obtain ⟨a1, a2, -, a4, -⟩ := F64R.mkBits_finite neg 0 0 (by omega) (by omega)
  refine ⟨a2, a1, ?_⟩
  rw [scaledRound_eq]
  unfold sMag
  rw [a4]
  simp only [if_true, Nat.zero_mul]
  exact dre_zero _

/-! ### `strtod` on `-?digits.digits`, exactly -/

theorem strtod_form' (neg : Bool) (ip fq : Bytes) (hne : ip ≠ []) (hip : AllDigits ip)
    (hfq : AllDigits fq) (hlen : ip.length ≤ 400) (hflen : fq.length ≤ 400) :
    strtod (signBytes neg ++ ip ++ 46 :: fq) =
      if digitsVal 10 (ip ++ fq) = 0 then mkBits neg 0 0
      else ofRat neg (digitsVal 10 (ip ++ fq)) (10 ^ fq.length) := by
  unfold strtod
  rw [parseDecimal_form neg ip fq hne hip hfq]
  simp only []
  have h1 : (ip.isEmpty && fq.isEmpty) = false := by
    cases ip with
    | nil => exact absurd rfl hne
    | cons _ _ => rfl
  rw [h1]
  simp only [Bool.false_eq_true, if_false, dv_dropWhile]
  split
  · rfl
  · rename_i hd
    have hdl : ((ip ++ fq).dropWhile (· == 48)).length ≤ ip.length + fq.length := by
      have := (List.dropWhile_sublist (l := ip ++ fq) (· == 48)).length_le
      simpa using this
    split
    · omega
    · split
      · omega
      · split
        · have : fq.length = 0 := by omega
          have hnil : fq = [] := List.eq_nil_of_length_eq_zero this
          subst hnil
          simp
        · congr 2
          omega

/-! ### the written text (as `C01L.fixed_text`, with the bound on `y`) -/

theorem fixed_text' (b p : Nat) (h : isFinite b = true) (hp : p ≤ 26) :
    ∃ ip fq z y, formatDouble 341 b p false = signBytes (signBit b) ++ ip ++ 46 :: fq ∧
      ip ≠ [] ∧ AllDigits ip ∧ AllDigits fq ∧ fq ≠ [] ∧ ip.length ≤ 400 ∧
      digitsVal 10 (ip ++ fq) * 10 ^ z = scaledRound b p * 10 ^ y ∧ fq.length + z = p + y ∧
      y ≤ 1 := by
  have hraw : rawText 341 b p false = fmtF b p := by simp [rawText]
  rw [formatDouble_eq, List.take_of_length_le (rawText_fits b p h hp), hraw]
  unfold fmtF
  simp only [h, Bool.not_true, Bool.false_eq_true, if_false, sign_eq]
  have hds : AllDigits (pad0 (p + 1) (natToDec (scaledRound b p))) := allDigits_pad0 _ (allDigits_dec _)
  have hlen := pad0_length (p + 1) (natToDec (scaledRound b p))
  have hle : (pad0 (p + 1) (natToDec (scaledRound b p))).length ≤ 309 + p :=
    pad0_length_le _ _ _ (by omega) (natToDec_length _ _ (scaledRound_digits b p h) (by omega))
  have hval := dv_pad0 (p + 1) (scaledRound b p)
  generalize pad0 (p + 1) (natToDec (scaledRound b p)) = D at hds hlen hle hval ⊢
  have hDne : D ≠ [] := by intro e; rw [e] at hlen; simp at hlen
  by_cases hp0 : p = 0
  · subst hp0
    simp only [Nat.sub_zero, List.take_length, if_true, List.append_nil]
    rw [postProc_nopoint _ D hds]
    refine ⟨D, [48], 0, 1, by simp, hDne, hds, by intro c hc; simp at hc; subst hc; decide, by simp,
      by omega, ?_, rfl, by omega⟩
    rw [dv_append, hval]
    simp [digitsVal, hexVal, isDigit]
  · simp only [hp0, if_false]
    have hsplit : D.take (D.length - p) ++ D.drop (D.length - p) = D := List.take_append_drop _ _
    have hfl : (D.drop (D.length - p)).length = p := by simp only [List.length_drop]; omega
    cases hfp : D.drop (D.length - p) with
    | nil => rw [hfp] at hfl; simp at hfl; omega
    | cons f0 fr =>
      have hfd : AllDigits (f0 :: fr) := hfp ▸ allDigits_drop _ hds
      have hipd : AllDigits (D.take (D.length - p)) := allDigits_take _ hds
      rw [postProc_point _ _ f0 fr hipd hfd]
      obtain ⟨z, hz⟩ := stripZeros_spec fr
      refine ⟨D.take (D.length - p), f0 :: stripZeros fr, z, 0, rfl, ?_, hipd, ?_, by simp, ?_, ?_, ?_,
        by omega⟩
      · apply take_ne_nil (by omega) hDne
      · intro c hc
        rcases List.mem_cons.mp hc with rfl | hc
        · exact hfd _ (List.mem_cons_self ..)
        · exact hfd c (List.mem_cons_of_mem _ (mem_stripZeros hc))
      · simp only [List.length_take]; omega
      · have hD : D.take (D.length - p) ++ f0 :: fr = D := by rw [← hfp]; exact hsplit
        have e : (D.take (D.length - p) ++ f0 :: stripZeros fr) ++ List.replicate z 48 = D := by
          rw [List.append_assoc, List.cons_append, ← hz]; exact hD
        rw [Nat.pow_zero, Nat.mul_one, ← dv_trail_zeros, e, hval]
      · rw [hfp] at hfl
        have := congrArg List.length hz
        simp only [List.length_cons, List.length_append, List.length_replicate] at this hfl ⊢
        omega

/-! ### the float lemma -/

/-- what is read back for the text of a finite double: a finite double of the same sign that
`%.{p}f` rounds to the same integer -/
theorem readback (b p : Nat) (h : isFinite b = true) (hp : p ≤ 26) :
    isFinite (strtod (formatDouble 341 b p false)) = true ∧
      signBit (strtod (formatDouble 341 b p false)) = signBit b ∧
      scaledRound (strtod (formatDouble 341 b p false)) p = scaledRound b p := by
  have hinf := fixed_no_overflow b p h hp
  obtain ⟨ip, fq, z, y, htext, hne, hip, hfq, hfqne, hlen, hval, hlenq, hy⟩ := fixed_text' b p h hp
  rw [htext] at hinf ⊢
  rw [strtod_form' (signBit b) ip fq hne hip hfq hlen (by omega)] at hinf ⊢
  by_cases h0 : digitsVal 10 (ip ++ fq) = 0
  · rw [if_pos h0]
    obtain ⟨a1, a2, a3⟩ := scaledRound_zero (signBit b) p
    refine ⟨a1, a2, ?_⟩
    rw [a3]
    rw [h0, Nat.zero_mul] at hval
    have hy' : 0 < 10 ^ y := Nat.pow_pos (by omega)
    rcases Nat.mul_eq_zero.mp hval.symm with h | h
    · exact h.symm
    · omega
  · rw [if_neg h0] at hinf ⊢
    exact ofRat_scaledRound (signBit b) b p _ fq.length z y (by omega) hval hlenq hinf

/-- `%.{p}f` depends on the double only through finiteness, sign and `scaledRound` -/
theorem fmtF_congr (b b' p : Nat) (h : isFinite b = true) (h' : isFinite b' = true)
    (hs : signBit b' = signBit b) (hr : scaledRound b' p = scaledRound b p) : fmtF b' p = fmtF b p := by
  unfold fmtF
  simp only [h, h', hs, hr, Bool.not_true, Bool.false_eq_true, if_false]

/-- the written text depends on the double only through finiteness, sign and `scaledRound` -/
theorem formatDouble_congr (bufLen b b' p : Nat) (h : isFinite b = true) (h' : isFinite b' = true)
    (hs : signBit b' = signBit b) (hr : scaledRound b' p = scaledRound b p) :
    formatDouble bufLen b' p false = formatDouble bufLen b p false := by
  have e : ∀ x, rawText bufLen x p false = fmtF x p := by intro x; simp [rawText]
  rw [formatDouble_eq, formatDouble_eq, e, e, fmtF_congr b b' p h h' hs hr]

/-- **the float lemma**: the written text is a fixed point of read-then-write -/
theorem formatDouble_idem (b p : Nat) (h : isFinite b = true) (hp : p ≤ 26) :
    formatDouble 341 (strtod (formatDouble 341 b p false)) p false = formatDouble 341 b p false := by
  obtain ⟨h1, h2, h3⟩ := readback b p h hp
  exact formatDouble_congr 341 b _ p h h1 h2 h3

end Libconfig.C01I

