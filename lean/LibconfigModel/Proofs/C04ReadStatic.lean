import LibconfigModel.Proofs.C02Static
/-
  C04 (reads), static part.  The one fact about the grammar that the well-formedness proof
  needs: the mid-rule actions `$@2/$@3/$@4` (which retype the node `ctx->setting`) and the
  `simple_value` actions never run before the first `$@1` (which points `ctx->setting` away
  from the root).  Statically: in the certificate graph `C02P.edges` of the automaton, every
  state in which such a rule can be reduced is reachable from state 0 only through a state
  whose accessing symbol is `$@1` — so, the stack being a path of certificate edges, a `$@1`
  entry is on the stack whenever such an action runs.

  `safe` is an (untrusted) certificate: a set of states closed under certificate edges whose
  target is not accessed by `$@1`; the kernel checks the closure and that no state of `safe`
  reduces a rule carrying one of those actions.
-/
namespace Libconfig.C04R
open Libconfig Grammar C02P

/-- the actions that write through `ctx->setting` -/
def usesSetting : ParseAct → Bool
  | .arrayStart | .listStart | .groupStart => true
  | .valBool | .valInt | .valInt64 | .valHex | .valHex64 | .valFloat | .valString => true
  | _ => false

def isSettingName : ParseAct → Bool
  | .settingName => true
  | _ => false

def memB (l : List Nat) (x : Nat) : Bool := l.any fun y => Nat.beq y x

/-- no rule whose action writes through `ctx->setting` can be reduced in state `s` -/
def quietIn (P : LalrTables) (acts : List ParseAct) (s : Nat) : Bool :=
  !(usesSetting (acts.getD (P.defact.get s).toNat .unknown)) &&
  allBelow P.ntokens fun tok =>
    match actAt P s tok with
    | none => true
    | some a => !(usesSetting (acts.getD (-a).toNat .unknown))

/-- the static check -/
def safeOK (P : LalrTables) (acts : List ParseAct) (ed : List (Nat × Nat)) (safe : List Nat) : Bool :=
  memB safe 0 && !(Nat.beq (stosN P 0) M1) &&
  (ed.all fun e => !(memB safe e.1) || Nat.beq (stosN P e.2) M1 || memB safe e.2) &&
  (safe.all fun s => quietIn P acts s) &&
  allBelow rules.length (fun r =>
    !(Nat.beq (rules.getD r (0, [])).1 M1) || isSettingName (acts.getD r .unknown))

/-- the states reachable from 0 without entering a state accessed by `$@1` -/
def safe : List Nat := [0, 1, 2, 3, 4, 6, 7]

theorem safe_ok : safeOK Generated.parser Generated.parseActions edges safe = true := by
  decide +kernel

end Libconfig.C04R
