import LibconfigModel.Proofs.C01IdemSciIdem
import LibconfigModel.Proofs.C01IdemTree
/-
  C01F, part 12 (scientific notation) — the float condition of the tree lemma, discharged for
  `%.{p}g`: finite floats that are normal or zero at precisions up to 15, finite floats at
  precisions from 17 to 70.
-/
namespace Libconfig.C01I
open Libconfig F64 C01P C01L

/-- the condition on one float value under scientific notation with precision `p`: finite, and
normal or zero unless at least 17 digits are written -/
def sciFloatOK (p : Nat) (b : Nat) : Bool :=
  isFinite b && (decide (17 ≤ p) || (decide (p ≤ 15) && (expField b != 0 || mant b == 0)))

theorem floatIdem_sci (c : Config) (b : Nat) (hsci : c.opt OPT_SCIENTIFIC = true)
    (hp : c.floatPrecision ≤ 70) (h : sciFloatOK c.floatPrecision b = true) :
    floatIdem 341 c b = true := by
  unfold sciFloatOK at h
  simp only [Bool.and_eq_true, Bool.or_eq_true, decide_eq_true_eq, bne_iff_ne, ne_eq,
    beq_iff_eq] at h
  unfold floatIdem
  rw [hsci, formatDouble_idem_sci b _ h.1 hp (by
    rcases h.2 with h17 | ⟨h15, hn⟩
    · exact .inr (.inl h17)
    · exact .inl ⟨h15, hn⟩)]
  exact beq_self_eq_true _

end Libconfig.C01I

