import LibconfigModel.Proofs.C09LineLex
/-
  C10P (provenance of the tree), the scanner's side of "the scan state right after a token": a
  token is always returned by the iteration of `yylex` that matched its (last) lexeme, and that
  iteration neither pushes nor pops an include frame: the state recorded with a token has the
  include stack — hence the current file — of the buffer the lexeme was matched in, that buffer
  with the lexeme consumed, and its line counter advanced over the lexeme.  (Buffer switches —
  a directive, the end of an included file — happen in iterations that return no token.)
-/
namespace Libconfig.C10Prov
open Libconfig

/-- `s'` is `sm` with the lexeme matched at the head of its buffer consumed — the same include
stack and top-level file, hence the same current file; the buffer's rest behind the lexeme; the
line counter advanced by the newlines of the lexeme (if its rule can match one) -/
def ConsumedFrom (T : FlexTables) (sm s' : ScanState) : Prop :=
  ∃ rule len, Flex.next T sm.sc sm.buf.bol sm.buf.rest = some (rule, len) ∧
    s'.stack = sm.stack ∧ s'.topFile = sm.topFile ∧
    s'.buf.rest = sm.buf.rest.drop len ∧
    s'.buf.lineno =
      (if T.canMatchEol.getN rule != 0 then sm.buf.lineno + countNl (sm.buf.rest.take len)
       else sm.buf.lineno)

theorem ConsumedFrom.currentFilename {T : FlexTables} {sm s' : ScanState}
    (h : ConsumedFrom T sm s') : s'.currentFilename = sm.currentFilename := by
  obtain ⟨_, _, _, h1, h2, _⟩ := h
  unfold ScanState.currentFilename
  rw [h1, h2]

/-- what is claimed of an outcome of `yylex` -/
def TokLast (T : FlexTables) (out : ScanState × LexOut) : Prop :=
  ∀ t v, out.2 = .tok t v → ∃ sm, ConsumedFrom T sm out.1

theorem yylex_tokLast (T : FlexTables) (acts : List ScanAct) (w : World) (ic : IncludeCfg) :
    ∀ (fuel : Nat) (s : ScanState), TokLast T (yylex T acts w ic fuel s) := by
  intro fuel
  induction fuel with
  | zero => intro s; rw [yylex]; intro t v h; cases h
  | succ fuel ih =>
    intro s
    rw [yylex]
    split
    · split
      · intro t v h; cases h
      · split
        rename_i s1 content err heq
        split
        · exact ih _
        · split
          · intro t v h; cases h
          · exact ih _
    · rename_i rule len hnext
      extract_lets text lineno bol s'
      have hs' : ConsumedFrom T s s' := by
        refine ⟨rule, len, hnext, ?_, ?_, ?_, ?_⟩
        · show s.stack = s.stack; rfl
        · show s.topFile = s.topFile; rfl
        · show s.buf.rest.drop len = s.buf.rest.drop len; rfl
        · simp only [s', lineno, text]
      have hret : ∀ (s'' : ScanState) (o : LexOut), s''.stack = s'.stack → s''.topFile = s'.topFile →
          s''.buf = s'.buf → TokLast T (s'', o) := by
        intro s'' o h1 h2 h3 t v _
        obtain ⟨r, l, g0, g1, g2, g3, g4⟩ := hs'
        exact ⟨s, r, l, g0, h1.trans g1, h2.trans g2, by rw [h3]; exact g3, by rw [h3]; exact g4⟩
      clear_value s'
      split
      all_goals try exact ih _
      all_goals try exact hret _ _ rfl rfl rfl
      · -- the include directive
        rename_i path s2 _ errTok _
        split
        · intro t v h; cases h
        split
        · intro t v h; cases h
        · exact ih _
        · exact ih _
        · extract_lets s1
          split
          split
          · exact ih _
          · intro t v h; cases h

/-- **a token is returned from the buffer that is current in the state recorded with it** -/
theorem yylex_tok_last {T : FlexTables} {acts : List ScanAct} {w : World} {ic : IncludeCfg}
    {fuel : Nat} {s s' : ScanState} {t : Nat} {v : TokVal}
    (h : yylex T acts w ic fuel s = (s', .tok t v)) : ∃ sm, ConsumedFrom T sm s' := by
  have := yylex_tokLast T acts w ic fuel s
  rw [h] at this
  exact this t v rfl

end Libconfig.C10Prov
