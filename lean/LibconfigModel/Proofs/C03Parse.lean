import LibconfigModel.Read
import LibconfigModel.Proofs.C09
/-
  Helper lemmas for property C03, parser half: `yyparseLoop` as the iteration of a
  one-step function, so that "along the run" has a meaning; the stack bound; where
  `crash` can come from.
-/
namespace Libconfig.C03P

open Libconfig

/-- the arguments of one iteration of `yyparseLoop` -/
structure PState where
  stack : List (Nat × TokVal)
  la : Lookahead
  s : ScanState
  ctx : ParseCtx

/-- One iteration of `yyparseLoop`: either the parse ends (`.inl`) or the loop continues
with new arguments (`.inr`).  The body is the body of `yyparseLoop` with each recursive call
replaced by `.inr`. -/
def yystep (E : ParserEnv) (X : PState) : Sum (ScanState × ParseCtx × ParseResult) PState :=
  match X with
  | ⟨stack, la, s, ctx⟩ =>
    let P := E.P
    match stack with
    | [] => .inl (s, ctx, .crash)
    | (state, _) :: _ =>
    -- yysetstate: stack limit
    if stack.length ≥ P.maxDepth then
      .inl (s, ctx.yyerror s.buf.lineno Generated.ERR_EXHAUSTED, .exhausted)
    else if state == P.final then .inl (s, ctx, .accept)
    else
      let reduce (rule : Nat) (la : Lookahead) (s : ScanState) (ctx : ParseCtx) :
          Sum (ScanState × ParseCtx × ParseResult) PState :=
        let len := (P.r2.get rule).toNat
        let v := (stack.headD (0, {})).2
        match runAction (E.acts.getD rule .unknown) ctx v s.buf.lineno s.currentFilename with
        | .abort ctx' => .inl (s, ctx', ParseResult.abort)
        | .crash ctx' => .inl (s, ctx', ParseResult.crash)
        | .ok ctx' =>
          let stack' := stack.drop len
          let top := (stack'.headD (0, {})).1
          let lhs := (P.r1.get rule).toNat - P.ntokens
          let yyi := P.pgoto.get lhs + top
          let st' : Nat :=
            if 0 ≤ yyi && yyi ≤ P.last && P.check.get yyi.toNat == top then (P.table.get yyi.toNat).toNat
            else (P.defgoto.get lhs).toNat
          -- `$$ = $1`: the value of the first right-hand-side symbol (garbage for empty rules)
          let yyval := if len == 0 then v else ((stack.drop (len - 1)).headD (0, {})).2
          .inr ⟨(st', yyval) :: stack', la, s, ctx'⟩
      let syntaxError (s : ScanState) (ctx : ParseCtx) :
          Sum (ScanState × ParseCtx × ParseResult) PState :=
        .inl (s, ctx.yyerror s.buf.lineno Generated.ERR_SYNTAX, ParseResult.abort)
      let dflt (la : Lookahead) (s : ScanState) (ctx : ParseCtx) :=
        let r := (P.defact.get state).toNat
        if r == 0 then syntaxError s ctx else reduce r la s ctx
      let yyn := P.pact.get state
      if yyn == P.pactNinf then dflt la s ctx
      else
        -- need a lookahead
        let fetched : ScanState × Option (Nat × TokVal) × Option ParseResult × ParseCtx :=
          match la with
          | some l => (s, some l, none, ctx)
          | none =>
            match yylex E.T E.sacts E.w E.ic E.lexFuel s with
            | (s', .tok t v) => (s', some (t, v), none, ctx)
            | (s', .eof) => (s', some (0, {}), none, ctx)
            | (s', .includeError t text file line) =>
              (s', some (t, {}), none,
               { ctx with cfg := { ctx.cfg with errText := some text, errFile := file, errLine := line } })
            | (s', .echo b) => (s', none, some (.echo b), ctx)
            | (s', .outOfFuel) => (s', none, some .outOfFuel, ctx)
        match fetched with
        | (s, _, some r, ctx) => .inl (s, ctx, r)
        | (s, none, none, ctx) => .inl (s, ctx, .crash)
        | (s, some (t, v), none, ctx) =>
          let tok := translateTok P t
          let idx := yyn + tok
          if idx < 0 || idx > P.last || P.check.get idx.toNat != tok then dflt (some (t, v)) s ctx
          else
            let a := P.table.get idx.toNat
            if a ≤ 0 then
              if a == P.tableNinf then syntaxError s ctx
              else reduce (-a).toNat (some (t, v)) s ctx
            else
              .inr ⟨(a.toNat, v) :: stack, none, s, ctx⟩

/-- what the loop does with the outcome of one step -/
def cont (E : ParserEnv) (fuel : Nat) :
    Sum (ScanState × ParseCtx × ParseResult) PState → ScanState × ParseCtx × ParseResult
  | .inl r => r
  | .inr Y => yyparseLoop E fuel Y.stack Y.la Y.s Y.ctx

theorem yyparseLoop_succ_cont (E : ParserEnv) (fuel : Nat) (stack : List (Nat × TokVal))
    (la : Lookahead) (s : ScanState) (ctx : ParseCtx) :
    yyparseLoop E (fuel + 1) stack la s ctx = cont E fuel (yystep E ⟨stack, la, s, ctx⟩) := by
  rw [yyparseLoop.eq_def]
  unfold yystep
  dsimp -zeta only
  extract_lets P v reduceL synL src fetchedL reduceR synR fetchedR
  have hfetch : fetchedR = fetchedL := rfl
  have hsyn : ∀ s c, synL s c = cont E fuel (synR s c) := fun _ _ => rfl
  have hred : ∀ rule la s c, reduceL rule la s c = cont E fuel (reduceR rule la s c) := by
    intro rule la s c
    simp only [reduceL, reduceR]
    generalize runAction _ _ _ _ _ = out
    cases out <;> rfl
  clear_value synL synR reduceL reduceR fetchedL fetchedR
  subst hfetch
  rcases stack with _ | ⟨⟨state, v0⟩, tail⟩
  · rfl
  dsimp -zeta only
  split
  · rfl
  split
  · rfl
  extract_lets r dfltL yyn dfltR
  have hdflt : ∀ la s c, dfltL la s c = cont E fuel (dfltR la s c) := by
    intro la s c
    simp only [dfltL, dfltR]
    split
    · exact hsyn _ _
    · exact hred _ _ _ _
  clear_value dfltL dfltR
  split
  · exact hdflt _ _ _
  rcases fetchedR with ⟨s1, _ | ⟨t, v⟩, _ | r1, c1⟩
  · rfl
  · rfl
  · dsimp -zeta only
    extract_lets tok idx a
    split
    · exact hdflt _ _ _
    split
    · split
      · exact hsyn _ _
      · exact hred _ _ _ _
    · rfl
  · rfl

/-- `yyparseLoop` is the iteration of `yystep` -/
theorem yyparseLoop_succ (E : ParserEnv) (fuel : Nat) (X : PState) :
    yyparseLoop E (fuel + 1) X.stack X.la X.s X.ctx =
      match yystep E X with
      | .inl r => r
      | .inr Y => yyparseLoop E fuel Y.stack Y.la Y.s Y.ctx := by
  rcases X with ⟨stack, la, s, ctx⟩
  exact yyparseLoop_succ_cont E fuel stack la s ctx

/-- the states the loop passes through, starting from `X` -/
inductive Reach (E : ParserEnv) (X : PState) : PState → Prop where
  | refl : Reach E X X
  | step {Y Z : PState} : Reach E X Y → yystep E Y = .inr Z → Reach E X Z

/-- the state `yyparse` starts from -/
def initial (s : ScanState) (ctx : ParseCtx) : PState := ⟨[(0, {})], none, s, ctx⟩

theorem Reach.trans {E : ParserEnv} {X Y Z : PState} (h1 : Reach E X Y) (h2 : Reach E Y Z) :
    Reach E X Z := by
  induction h2 with
  | refl => exact h1
  | step _ hs ih => exact .step ih hs

/-- every result other than running out of the loop's own fuel is produced by one step from
a state the loop reaches -/
theorem yyparseLoop_final (E : ParserEnv) :
    ∀ (fuel : Nat) (X : PState),
      ∃ Y, Reach E X Y ∧ (yystep E Y = .inl (yyparseLoop E fuel X.stack X.la X.s X.ctx) ∨
        -- the loop's own fuel ran out at `Y`
        yyparseLoop E fuel X.stack X.la X.s X.ctx = (Y.s, Y.ctx, ParseResult.outOfFuel)) := by
  intro fuel
  induction fuel with
  | zero => intro X; exact ⟨X, .refl, .inr (by rw [yyparseLoop.eq_def])⟩
  | succ fuel ih =>
    intro X
    rw [yyparseLoop_succ]
    generalize hs : yystep E X = o
    cases o with
    | inl r => exact ⟨X, .refl, .inl hs⟩
    | inr Z =>
      obtain ⟨Y, hr, h⟩ := ih Z
      exact ⟨Y, Reach.trans (.step .refl hs) hr, h⟩

/-- the parser state on top of the stack (`0` for the empty stack, as `headD` has it) -/
def topState (stack : List (Nat × TokVal)) : Nat := (stack.headD (0, {})).1

/-- the state `yyreduce` pushes after reducing by `rule` when `top` is uncovered: the `st'` of
`yystep`/`yyparseLoop` -/
def gotoTarget (P : LalrTables) (rule top : Nat) : Nat :=
  let lhs := (P.r1.get rule).toNat - P.ntokens
  let yyi := P.pgoto.get lhs + top
  if 0 ≤ yyi && yyi ≤ P.last && P.check.get yyi.toNat == top then (P.table.get yyi.toNat).toNat
  else (P.defgoto.get lhs).toNat

/-- `yybackup` found the explicit action `a` for token kind `tok` in state `state`:
`yypact[state]` is not the default marker, `yypact[state] + tok` is in `0 … YYLAST`,
`yycheck` confirms the entry and `a` is the `yytable` entry. -/
def Action (P : LalrTables) (state tok : Nat) (a : Int) : Prop :=
  P.pact.get state ≠ P.pactNinf ∧ 0 ≤ P.pact.get state + tok ∧ P.pact.get state + tok ≤ P.last ∧
    P.check.get (P.pact.get state + tok).toNat = tok ∧ a = P.table.get (P.pact.get state + tok).toNat

/-- the two ways `yystep` comes to reduce by `rule` in state `state`: the default reduction
(`yydefact[state]`, not `0`) or a non-positive explicit action that is not the error marker -/
def ReduceBy (P : LalrTables) (state rule : Nat) : Prop :=
  (rule = (P.defact.get state).toNat ∧ rule ≠ 0) ∨
    ∃ t a, Action P state (translateTok P t) a ∧ a ≤ 0 ∧ a ≠ P.tableNinf ∧ rule = (-a).toNat

/-- Case analysis of one step, fine version: as `yystep_ind` below, but the reduce and shift
exits say which rule is reduced, which state is pushed and how many entries are popped. -/
theorem yystep_ind2 (E : ParserEnv) (X : PState)
    (Q : Sum (ScanState × ParseCtx × ParseResult) PState → Prop)
    (h_empty : X.stack = [] → Q (.inl (X.s, X.ctx, .crash)))
    (h_exh : X.stack ≠ [] → E.P.maxDepth ≤ X.stack.length →
      Q (.inl (X.s, X.ctx.yyerror X.s.buf.lineno Generated.ERR_EXHAUSTED, .exhausted)))
    (h_acc : X.stack.length < E.P.maxDepth → Q (.inl (X.s, X.ctx, .accept)))
    (h_abort : ∀ s1 c1, X.stack.length < E.P.maxDepth → Q (.inl (s1, c1, .abort)))
    (h_crash : ∀ rule s1 c1 c' v line file, X.stack.length < E.P.maxDepth →
      runAction (E.acts.getD rule .unknown) c1 v line file = .crash c' → Q (.inl (s1, c', .crash)))
    (h_red : ∀ rule yyval la1 s1 c', X.stack.length < E.P.maxDepth →
      (s1 = X.s ∨ s1 = (yylex E.T E.sacts E.w E.ic E.lexFuel X.s).1) →
      ReduceBy E.P (topState X.stack) rule →
      Q (.inr ⟨(gotoTarget E.P rule (topState (X.stack.drop (E.P.r2.get rule).toNat)), yyval) ::
        X.stack.drop (E.P.r2.get rule).toNat, la1, s1, c'⟩))
    (h_shift : ∀ t a v s1 c1, X.stack.length < E.P.maxDepth →
      (s1 = X.s ∨ s1 = (yylex E.T E.sacts E.w E.ic E.lexFuel X.s).1) →
      Action E.P (topState X.stack) (translateTok E.P t) a → 0 < a →
      Q (.inr ⟨(a.toNat, v) :: X.stack, none, s1, c1⟩))
    (h_echo : ∀ s' b, X.stack.length < E.P.maxDepth → X.la = none →
      yylex E.T E.sacts E.w E.ic E.lexFuel X.s = (s', .echo b) → Q (.inl (s', X.ctx, .echo b)))
    (h_fuel : ∀ s', X.stack.length < E.P.maxDepth → X.la = none →
      yylex E.T E.sacts E.w E.ic E.lexFuel X.s = (s', .outOfFuel) → Q (.inl (s', X.ctx, .outOfFuel))) :
    Q (yystep E X) := by
  rcases X with ⟨stack, la, s, ctx⟩
  dsimp only at h_empty h_exh h_acc h_abort h_crash h_red h_shift h_echo h_fuel
  rcases stack with _ | ⟨⟨state, v0⟩, tail⟩
  · exact h_empty rfl
  unfold yystep
  dsimp -zeta only
  extract_lets P v reduce syn r dflt yyn src fetched
  split
  · rename_i hge; exact h_exh (by simp) hge
  rename_i hge
  have hlt : ((state, v0) :: tail).length < E.P.maxDepth := Nat.lt_of_not_le hge
  split
  · exact h_acc hlt
  have hsyn : ∀ s1 c1, Q (syn s1 c1) := fun s1 c1 => h_abort _ _ hlt
  have hred : ∀ rule la1 s1 c1, (s1 = s ∨ s1 = (yylex E.T E.sacts E.w E.ic E.lexFuel s).1) →
      ReduceBy E.P state rule → Q (reduce rule la1 s1 c1) := by
    intro rule la1 s1 c1 hs1 hrule
    simp only [reduce]
    split
    · exact h_abort _ _ hlt
    · rename_i heq; exact h_crash _ _ _ _ _ _ _ hlt heq
    · exact h_red rule _ _ _ _ hlt hs1 hrule
  have hdflt : ∀ la1 s1 c1, (s1 = s ∨ s1 = (yylex E.T E.sacts E.w E.ic E.lexFuel s).1) →
      Q (dflt la1 s1 c1) := by
    intro la1 s1 c1 hs1
    simp only [dflt]
    split
    · exact hsyn _ _
    · rename_i hr0
      exact hred _ _ _ _ hs1 (.inl ⟨rfl, by simpa using hr0⟩)
  have hfetch : (fetched.1 = s ∨ fetched.1 = (yylex E.T E.sacts E.w E.ic E.lexFuel s).1) ∧
      (fetched.2.1 = none → fetched.2.2.1 ≠ none) ∧
      (∀ r, fetched.2.2.1 = some r → la = none ∧ fetched.2.2.2 = ctx ∧
        ((r = .outOfFuel ∧ yylex E.T E.sacts E.w E.ic E.lexFuel s = (fetched.1, .outOfFuel)) ∨
          ∃ b, r = .echo b ∧ yylex E.T E.sacts E.w E.ic E.lexFuel s = (fetched.1, .echo b))) := by
    simp only [fetched]
    split
    · exact ⟨.inl rfl, (fun h => by cases h), (fun r h => by cases h)⟩
    · split
      · rename_i heq; exact ⟨.inr (by rw [heq]), (fun h => by cases h), (fun r h => by cases h)⟩
      · rename_i heq; exact ⟨.inr (by rw [heq]), (fun h => by cases h), (fun r h => by cases h)⟩
      · rename_i heq; exact ⟨.inr (by rw [heq]), (fun h => by cases h), (fun r h => by cases h)⟩
      · rename_i heq
        refine ⟨.inr (by rw [heq]), (fun _ h => by cases h), ?_⟩
        intro r h
        cases h
        exact ⟨rfl, rfl, .inr ⟨_, rfl, heq⟩⟩
      · rename_i heq
        refine ⟨.inr (by rw [heq]), (fun _ h => by cases h), ?_⟩
        intro r h
        cases h
        exact ⟨rfl, rfl, .inl ⟨rfl, heq⟩⟩
  clear_value fetched dflt syn reduce
  split
  · exact hdflt _ _ _ (.inl rfl)
  rename_i hpact
  have hpact' : E.P.pact.get state ≠ E.P.pactNinf := by simpa [yyn, P] using hpact
  rcases fetched with ⟨s1, _ | ⟨t, v⟩, _ | r1, c1⟩
  · exact (hfetch.2.1 rfl rfl).elim
  · obtain ⟨hla, hc, h | ⟨b, hb, h⟩⟩ := hfetch.2.2 r1 rfl
    · obtain ⟨hr, h⟩ := h
      dsimp only at hc h
      subst hr hc
      exact h_fuel _ hlt hla h
    · dsimp only at hc h
      subst hb hc
      exact h_echo _ _ hlt hla h
  · dsimp -zeta only
    extract_lets tok idx a
    split
    · exact hdflt _ _ _ hfetch.1
    rename_i hguard
    have hact : Action E.P state (translateTok E.P t) a := by
      simp only [Bool.or_eq_true, decide_eq_true_eq, bne_iff_ne, ne_eq, not_or, Int.not_lt,
        Decidable.not_not] at hguard
      exact ⟨hpact', hguard.1.1, hguard.1.2, hguard.2, rfl⟩
    split
    · rename_i hle
      split
      · exact hsyn _ _
      · rename_i hninf
        exact hred _ _ _ _ hfetch.1 (.inr ⟨t, a, hact, hle, by simpa using hninf, rfl⟩)
    · rename_i hpos
      exact h_shift t a _ _ _ hlt hfetch.1 hact (Int.not_le.mp hpos)
  · obtain ⟨hla, hc, h | ⟨b, hb, h⟩⟩ := hfetch.2.2 r1 rfl
    · obtain ⟨hr, h⟩ := h
      dsimp only at hc h
      subst hr hc
      exact h_fuel _ hlt hla h
    · dsimp only at hc h
      subst hb hc
      exact h_echo _ _ hlt hla h

/-- Case analysis of one step: every exit of `yystep` with the facts the lemmas below need. -/
theorem yystep_ind (E : ParserEnv) (X : PState)
    (Q : Sum (ScanState × ParseCtx × ParseResult) PState → Prop)
    (h_empty : X.stack = [] → Q (.inl (X.s, X.ctx, .crash)))
    (h_exh : X.stack ≠ [] → E.P.maxDepth ≤ X.stack.length →
      Q (.inl (X.s, X.ctx.yyerror X.s.buf.lineno Generated.ERR_EXHAUSTED, .exhausted)))
    (h_acc : X.stack.length < E.P.maxDepth → Q (.inl (X.s, X.ctx, .accept)))
    (h_abort : ∀ s1 c1, X.stack.length < E.P.maxDepth → Q (.inl (s1, c1, .abort)))
    (h_crash : ∀ rule s1 c1 c' v line file, X.stack.length < E.P.maxDepth →
      runAction (E.acts.getD rule .unknown) c1 v line file = .crash c' → Q (.inl (s1, c', .crash)))
    (h_red : ∀ st' yyval n la1 s1 c', X.stack.length < E.P.maxDepth →
      (s1 = X.s ∨ s1 = (yylex E.T E.sacts E.w E.ic E.lexFuel X.s).1) →
      Q (.inr ⟨(st', yyval) :: X.stack.drop n, la1, s1, c'⟩))
    (h_shift : ∀ a v s1 c1, X.stack.length < E.P.maxDepth →
      (s1 = X.s ∨ s1 = (yylex E.T E.sacts E.w E.ic E.lexFuel X.s).1) →
      Q (.inr ⟨(a, v) :: X.stack, none, s1, c1⟩))
    (h_echo : ∀ s' b, X.stack.length < E.P.maxDepth → X.la = none →
      yylex E.T E.sacts E.w E.ic E.lexFuel X.s = (s', .echo b) → Q (.inl (s', X.ctx, .echo b)))
    (h_fuel : ∀ s', X.stack.length < E.P.maxDepth → X.la = none →
      yylex E.T E.sacts E.w E.ic E.lexFuel X.s = (s', .outOfFuel) → Q (.inl (s', X.ctx, .outOfFuel))) :
    Q (yystep E X) :=
  yystep_ind2 E X Q h_empty h_exh h_acc h_abort h_crash
    (fun _ _ _ _ _ hlt hs _ => h_red _ _ _ _ _ _ hlt hs)
    (fun _ _ _ _ _ hlt hs _ _ => h_shift _ _ _ _ hlt hs) h_echo h_fuel

/-! ### the stack bound -/

/-- a step that continues was taken below the limit and grows the stack by at most one entry;
the new stack is not empty -/
theorem yystep_stack (E : ParserEnv) (X Y : PState) (h : yystep E X = .inr Y) :
    X.stack.length < E.P.maxDepth ∧ Y.stack.length ≤ X.stack.length + 1 ∧ Y.stack ≠ [] := by
  revert h
  refine yystep_ind E X
    (fun o => o = .inr Y →
      X.stack.length < E.P.maxDepth ∧ Y.stack.length ≤ X.stack.length + 1 ∧ Y.stack ≠ [])
    ?_ ?_ ?_ ?_ ?_ ?_ ?_ ?_ ?_
  · intro _ h; cases h
  · intro _ _ h; cases h
  · intro _ h; cases h
  · intro _ _ _ h; cases h
  · intro _ _ _ _ _ _ _ _ _ h; cases h
  · intro st' yyval n la1 s1 c' hlt _ h
    cases h
    refine ⟨hlt, ?_, by simp⟩
    simp only [List.length_cons, List.length_drop]
    omega
  · intro a v s1 c1 hlt _ h
    cases h
    exact ⟨hlt, by simp, by simp⟩
  · intro _ _ _ _ _ h; cases h
  · intro _ _ _ _ h; cases h

/-- reaching the limit ends the parse: `yyexhaustedlab` -/
theorem yystep_limit (E : ParserEnv) (X : PState) (hne : X.stack ≠ [])
    (h : E.P.maxDepth ≤ X.stack.length) :
    yystep E X = .inl (X.s, X.ctx.yyerror X.s.buf.lineno Generated.ERR_EXHAUSTED, .exhausted) := by
  rcases X with ⟨stack, la, s, ctx⟩
  rcases stack with _ | ⟨⟨state, v0⟩, tail⟩
  · exact (hne rfl).elim
  unfold yystep
  dsimp -zeta only
  extract_lets P
  exact if_pos h

theorem reach_stack (E : ParserEnv) (s : ScanState) (ctx : ParseCtx) (X : PState)
    (h : Reach E (initial s ctx) X) : X.stack ≠ [] ∧ X.stack.length ≤ max 1 E.P.maxDepth := by
  induction h with
  | refl => exact ⟨by simp [initial], by simp [initial]; omega⟩
  | step _ hs ih =>
    obtain ⟨hlt, hle, hne⟩ := yystep_stack E _ _ hs
    refine ⟨hne, ?_⟩
    omega

/-- conversely `.exhausted` is reported only at the limit -/
theorem yystep_exhausted (E : ParserEnv) (X : PState) (s : ScanState) (ctx : ParseCtx)
    (h : yystep E X = .inl (s, ctx, .exhausted)) : E.P.maxDepth ≤ X.stack.length := by
  revert h
  refine yystep_ind E X (fun o => o = .inl (s, ctx, .exhausted) → E.P.maxDepth ≤ X.stack.length)
    ?_ ?_ ?_ ?_ ?_ ?_ ?_ ?_ ?_
  · intro _ h; cases h
  · intro _ hge _; exact hge
  · intro _ h; cases h
  · intro _ _ _ h; cases h
  · intro _ _ _ _ _ _ _ _ _ h; cases h
  · intro _ _ _ _ _ _ _ _ h; cases h
  · intro _ _ _ _ _ _ h; cases h
  · intro _ _ _ _ _ h; cases h
  · intro _ _ _ _ h; cases h

/-! ### where `crash` comes from -/

/-- A step ends in `crash` only if the stack is empty (never, by `reach_stack`) or a semantic
action reported it (`runAction` on an `.unknown` action, or on a NULL `ctx->setting` /
`ctx->parent`); the skeleton itself has no other crashing exit. -/
theorem yystep_crash (E : ParserEnv) (X : PState) (s : ScanState) (ctx : ParseCtx)
    (h : yystep E X = .inl (s, ctx, .crash)) :
    X.stack = [] ∨ ∃ rule c v line file, runAction (E.acts.getD rule .unknown) c v line file = .crash ctx := by
  revert h
  refine yystep_ind E X (fun o => o = .inl (s, ctx, .crash) →
      X.stack = [] ∨
        ∃ rule c v line file, runAction (E.acts.getD rule .unknown) c v line file = .crash ctx)
    ?_ ?_ ?_ ?_ ?_ ?_ ?_ ?_ ?_
  · intro h _; exact .inl h
  · intro _ _ h; cases h
  · intro _ h; cases h
  · intro _ _ _ h; cases h
  · intro rule s1 c1 c' v line file _ hact h
    cases h
    exact .inr ⟨rule, c1, v, line, file, hact⟩
  · intro _ _ _ _ _ _ _ _ h; cases h
  · intro _ _ _ _ _ _ h; cases h
  · intro _ _ _ _ _ h; cases h
  · intro _ _ _ _ h; cases h

/-- a step reports `.outOfFuel` or `.echo` only when `yylex` did -/
theorem yystep_lex (E : ParserEnv) (X : PState) (s : ScanState) (ctx : ParseCtx) (r : ParseResult)
    (h : yystep E X = .inl (s, ctx, r)) :
    (r = .outOfFuel → X.la = none ∧ yylex E.T E.sacts E.w E.ic E.lexFuel X.s = (s, .outOfFuel)) ∧
    (∀ b, r = .echo b → X.la = none ∧ yylex E.T E.sacts E.w E.ic E.lexFuel X.s = (s, .echo b)) := by
  revert h
  refine yystep_ind E X (fun o => o = .inl (s, ctx, r) →
      (r = .outOfFuel → X.la = none ∧ yylex E.T E.sacts E.w E.ic E.lexFuel X.s = (s, .outOfFuel)) ∧
      (∀ b, r = .echo b → X.la = none ∧ yylex E.T E.sacts E.w E.ic E.lexFuel X.s = (s, .echo b)))
    ?_ ?_ ?_ ?_ ?_ ?_ ?_ ?_ ?_
  · intro _ h; cases h; exact ⟨(fun h => by cases h), (fun _ h => by cases h)⟩
  · intro _ _ h; cases h; exact ⟨(fun h => by cases h), (fun _ h => by cases h)⟩
  · intro _ h; cases h; exact ⟨(fun h => by cases h), (fun _ h => by cases h)⟩
  · intro _ _ _ h; cases h; exact ⟨(fun h => by cases h), (fun _ h => by cases h)⟩
  · intro _ _ _ _ _ _ _ _ _ h; cases h; exact ⟨(fun h => by cases h), (fun _ h => by cases h)⟩
  · intro _ _ _ _ _ _ _ _ h; cases h
  · intro _ _ _ _ _ _ h; cases h
  · intro s' b _ hla hy h
    cases h
    refine ⟨(fun h => by cases h), ?_⟩
    intro b' hb
    cases hb
    exact ⟨hla, hy⟩
  · intro s' _ hla hy h
    cases h
    exact ⟨(fun _ => ⟨hla, hy⟩), (fun _ h => by cases h)⟩

/-- the scanner state of the next iteration is the current one or the one `yylex` returned -/
theorem yystep_scan (E : ParserEnv) (X Y : PState) (h : yystep E X = .inr Y) :
    Y.s = X.s ∨ Y.s = (yylex E.T E.sacts E.w E.ic E.lexFuel X.s).1 := by
  revert h
  refine yystep_ind E X (fun o => o = .inr Y →
      Y.s = X.s ∨ Y.s = (yylex E.T E.sacts E.w E.ic E.lexFuel X.s).1)
    ?_ ?_ ?_ ?_ ?_ ?_ ?_ ?_ ?_
  · intro _ h; cases h
  · intro _ _ h; cases h
  · intro _ h; cases h
  · intro _ _ _ h; cases h
  · intro _ _ _ _ _ _ _ _ _ h; cases h
  · intro _ _ _ _ _ _ _ hs h; cases h; exact hs
  · intro _ _ _ _ _ hs h; cases h; exact hs
  · intro _ _ _ _ _ h; cases h
  · intro _ _ _ _ h; cases h

end Libconfig.C03P
