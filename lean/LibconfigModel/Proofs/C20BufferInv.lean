import LibconfigModel.Proofs.C20BufferList
/-
  C20B helpers, part 2: the stages of `yy_get_next_buffer` one by one, and the
  preservation of `FlexBuffer.Inv` and of the text still to be scanned by every event.
-/
namespace Libconfig.C20BP

open Libconfig Libconfig.FlexBuffer

/-! ### log extension -/

/-- `s'` has logged some more accesses than `s`, all of them in bounds -/
def LogExt (s s' : State) : Prop := ∃ l, s'.log = s.log ++ l ∧ ∀ a ∈ l, a.ok

theorem LogExt.refl (s : State) : LogExt s s := ⟨[], by simp, by simp⟩

theorem LogExt.trans {a b c : State} (h1 : LogExt a b) (h2 : LogExt b c) : LogExt a c := by
  obtain ⟨l1, e1, o1⟩ := h1
  obtain ⟨l2, e2, o2⟩ := h2
  refine ⟨l1 ++ l2, by rw [e2, e1, List.append_assoc], ?_⟩
  intro x hx
  rcases List.mem_append.mp hx with h | h
  · exact o1 x h
  · exact o2 x h

theorem LogExt.safe {s s' : State} (h : LogExt s s') (hs : ∀ a ∈ s.log, a.ok) :
    ∀ a ∈ s'.log, a.ok := by
  obtain ⟨l, e, o⟩ := h
  intro a ha
  rw [e] at ha
  rcases List.mem_append.mp ha with h | h
  · exact hs a h
  · exact o a h

/-- same log: any two states that differ in other fields only -/
theorem LogExt.of_eq {s s' : State} (h : s'.log = s.log) : LogExt s s' := ⟨[], by simp [h], by simp⟩

/-! ### the growth loop -/

theorem growTestC_true (n : Int) : growTestC n = true ↔ n ≤ 0 := by simp [growTestC]

theorem growTestSeeded_true (n : Int) : growTestSeeded n = true ↔ n < 0 := by simp [growTestSeeded]

/-- From a state in which the text to keep fits (`number_to_move + 1 ≤ yy_buf_size`, which
`Inv` guarantees) the growth loop runs at most once: exactly when the text to keep fills
the buffer, and then it doubles it. -/
theorem growLoop_eq (P : Params) (hP : P.test = growTestC) (ntm : Nat) (s : State)
    (h : ntm + 1 ≤ s.bufSize) :
    growLoop P (ntm + 2) ntm s =
      if s.bufSize = ntm + 1 then
        { s with bufSize := 2 * s.bufSize, ch := resize P.junk s.ch (2 * s.bufSize + 2),
                 log := s.log ++ [.realloc s.ch.length (2 * s.bufSize + 2)] }
      else s := by
  by_cases h1 : s.bufSize = ntm + 1
  · rw [if_pos h1]
    have t1 : P.test (numToRead s.bufSize ntm) = true := by
      rw [hP, growTestC_true]; unfold numToRead; omega
    have t2 : ¬ P.test (numToRead (2 * s.bufSize) ntm) = true := by
      rw [hP, growTestC_true]; unfold numToRead; omega
    show growLoop P (ntm + 1 + 1) ntm s = _
    rw [growLoop, if_pos t1]
    show growLoop P (ntm + 1) ntm _ = _
    rw [growLoop, if_neg t2]
  · rw [if_neg h1]
    have t1 : ¬ P.test (numToRead s.bufSize ntm) = true := by
      rw [hP, growTestC_true]; unfold numToRead; omega
    show growLoop P (ntm + 1 + 1) ntm s = _
    rw [growLoop, if_neg t1]


/-- In general (any state with `yy_buf_size > 0`), `number_to_move + 2` iterations suffice
for the growth loop to make room for at least one byte. -/
theorem growLoop_room (P : Params) (hP : P.test = growTestC) (ntm : Nat) :
    ∀ (fuel : Nat) (s : State), 0 < s.bufSize → ntm + 2 ≤ s.bufSize + fuel →
      ntm + 1 < (growLoop P fuel ntm s).bufSize := by
  intro fuel
  induction fuel with
  | zero => intro s _ h; simp only [growLoop]; omega
  | succ f ih =>
    intro s h0 h
    rw [growLoop]
    by_cases ht : P.test (numToRead s.bufSize ntm) = true
    · rw [if_pos ht]
      exact ih _ (by show 0 < 2 * s.bufSize; omega) (by show ntm + 2 ≤ 2 * s.bufSize + f; omega)
    · rw [if_neg ht]
      rw [hP, growTestC_true] at ht
      unfold numToRead at ht
      omega

/-! ### the stages of `yy_get_next_buffer` -/

/-- after the growth loop (started with `number_to_move + 1 ≤ yy_buf_size`) -/
structure GrowSpec (ntm : Nat) (m g : State) : Prop where
  alloc : g.ch.length = g.bufSize + 2
  room : ntm + 1 < g.bufSize
  keep : ∀ i, i < m.ch.length → g.ch[i]? = m.ch[i]?
  size : g.bufSize = m.bufSize ∨ (g.bufSize = 2 * m.bufSize ∧ m.bufSize = ntm + 1)
  nChars : g.nChars = m.nChars
  textPtr : g.textPtr = m.textPtr
  cBufP : g.cBufP = m.cBufP
  holdChar : g.holdChar = m.holdChar
  status : g.status = m.status
  rest : g.rest = m.rest
  tokens : g.tokens = m.tokens
  log : LogExt m g

theorem growLoop_spec (P : Params) (hP : P.test = growTestC) (ntm : Nat) (m : State)
    (ha : m.ch.length = m.bufSize + 2) (h : ntm + 1 ≤ m.bufSize) :
    GrowSpec ntm m (growLoop P (ntm + 2) ntm m) := by
  rw [growLoop_eq P hP ntm m h]
  by_cases h1 : m.bufSize = ntm + 1
  · rw [if_pos h1]
    exact {
      alloc := by simp only [length_resize]
      room := by simp only; omega
      keep := fun i hi => getElem?_resize _ _ _ _ (by omega) hi
      size := .inr ⟨rfl, h1⟩
      nChars := rfl, textPtr := rfl, cBufP := rfl, holdChar := rfl, status := rfl, rest := rfl
      tokens := rfl
      log := ⟨[_], rfl, by simp only [List.mem_singleton, forall_eq, Access.ok]; omega⟩ }
  · rw [if_neg h1]
    exact {
      alloc := ha
      room := by omega
      keep := fun _ _ => rfl
      size := .inl rfl
      nChars := rfl, textPtr := rfl, cBufP := rfl, holdChar := rfl, status := rfl, rest := rfl
      tokens := rfl
      log := LogExt.refl _ }

/-- after the read (or the forced end of file) -/
structure ReadSpec (k ntm : Nat) (m r : State) : Prop where
  alloc : r.ch.length = r.bufSize + 2
  /-- `yy_n_chars` (the result of the read) + `number_to_move` stays below `yy_buf_size` -/
  room : ntm + r.nChars < r.bufSize
  /-- the moved text is untouched -/
  keep : ∀ i, i < ntm → r.ch[i]? = m.ch[i]?
  /-- the bytes read are the next bytes of the stream -/
  data : slice r.ch ntm r.nChars ++ r.rest = m.rest
  le : r.nChars ≤ k
  size : r.bufSize = m.bufSize ∨
    (r.bufSize = 2 * m.bufSize ∧ m.bufSize = ntm + 1 ∧ m.status ≠ .eofPending)
  eof : m.status = .eofPending → r.nChars = 0
  /-- a read from a stream that has bytes and is willing to deliver some gets some -/
  live : m.status ≠ .eofPending → 1 ≤ k → m.rest ≠ [] → r.nChars ≠ 0
  /-- a read that gets nothing: the stream is at its end or delivered nothing -/
  dry : r.nChars = 0 → m.status = .eofPending ∨ k = 0 ∨ m.rest = []
  textPtr : r.textPtr = m.textPtr
  cBufP : r.cBufP = m.cBufP
  holdChar : r.holdChar = m.holdChar
  status : r.status = m.status
  tokens : r.tokens = m.tokens
  log : LogExt m r

theorem readStage_spec (P : Params) (hP : P.OK) (k ntm : Nat) (m : State)
    (ha : m.ch.length = m.bufSize + 2) (h : ntm + 1 ≤ m.bufSize) :
    ReadSpec k ntm m (readStage P k ntm m) := by
  by_cases hs : m.status = .eofPending
  · have e : readStage P k ntm m = { m with nChars := 0 } := by
      unfold readStage; rw [hs]
    rw [e]
    exact {
      alloc := ha
      room := by simp only; omega
      keep := fun _ _ => rfl
      data := by simp [slice]
      le := Nat.zero_le _
      size := .inl rfl
      eof := fun _ => rfl
      live := fun h' => absurd hs h'
      dry := fun _ => .inl hs
      textPtr := rfl, cBufP := rfl, holdChar := rfl, status := rfl, tokens := rfl
      log := LogExt.refl _ }
  · have G := growLoop_spec P hP.test ntm m ha h
    generalize hg : growLoop P (ntm + 2) ntm m = g at G
    -- the clamped `num_to_read`
    let n0 : Int := numToRead g.bufSize ntm
    let n1 : Int := if n0 > (P.R : Int) then (P.R : Int) else n0
    let data := g.rest.take (min k n1.toNat)
    have e : readStage P k ntm m =
        { g with ch := writeAt g.ch ntm data, nChars := data.length,
                 rest := g.rest.drop data.length,
                 log := g.log ++ [.input g.ch.length ntm n1] } := by
      unfold readStage
      cases hst : m.status with
      | eofPending => exact absurd hst hs
      | new => simp only [hg]; rfl
      | normal => simp only [hg]; rfl
    have hn1 : 1 ≤ n1 ∧ (ntm : Int) + n1 < g.bufSize := by
      have := G.room; have := hP.R
      simp only [n1, n0, numToRead]
      split <;> omega
    have hdl : data.length ≤ min k n1.toNat := by
      simp only [data, List.length_take]; omega
    have hfit : ntm + data.length ≤ g.ch.length := by rw [G.alloc]; omega
    rw [e]
    exact {
      alloc := by simp only; rw [length_writeAt _ _ _ hfit]; exact G.alloc
      room := by simp only; omega
      keep := fun i hi => by
        simp only
        rw [getElem?_writeAt _ _ _ _ hfit, if_pos hi]
        exact G.keep i (by rw [ha]; omega)
      data := by
        simp only
        have : slice (writeAt g.ch ntm data) ntm data.length = data := by
          apply List.ext_getElem?
          intro i
          rw [getElem?_slice, getElem?_writeAt _ _ _ _ hfit]
          by_cases hi : i < data.length
          · rw [if_pos hi, if_neg (by omega), if_pos (by omega)]; congr 1; omega
          · rw [if_neg hi, List.getElem?_eq_none (by omega)]
        rw [this, ← G.rest]
        have hd : data = g.rest.take data.length := (take_length_take _ _).symm
        calc data ++ g.rest.drop data.length = g.rest.take data.length ++ g.rest.drop data.length := by
              rw [← hd]
          _ = g.rest := List.take_append_drop _ _
      le := by simp only; omega
      size := by
        rcases G.size with h1 | ⟨h1, h2⟩
        · exact .inl h1
        · exact .inr ⟨h1, h2, hs⟩
      eof := fun h' => absurd h' hs
      live := fun _ hk hr => by
        simp only [data, List.length_take]
        have : 0 < g.rest.length := by
          rw [G.rest]; exact List.length_pos_iff.mpr hr
        omega
      dry := fun h0 => by
        simp only [data, List.length_take] at h0
        by_cases hk : k = 0
        · exact .inr (.inl hk)
        · refine .inr (.inr ?_)
          rw [← G.rest]
          exact List.eq_nil_of_length_eq_zero (by omega)
      textPtr := G.textPtr, cBufP := G.cBufP, holdChar := G.holdChar, status := G.status
      tokens := G.tokens
      log := G.log.trans ⟨[_], rfl, by
        intro a ha'
        simp only [List.mem_singleton] at ha'
        subst ha'
        simp only [Access.ok]
        refine ⟨hn1.1, ?_⟩
        rw [G.alloc]; omega⟩ }


/-- `yyrestart` / `YY_BUFFER_EOF_PENDING` -/
structure StatusSpec (ntm : Nat) (r x : State) : Prop where
  len : x.ch.length = r.ch.length
  bufSize : x.bufSize = r.bufSize
  nChars : x.nChars = r.nChars
  rest : x.rest = r.rest
  tokens : x.tokens = r.tokens
  keep : ∀ i, i < ntm + r.nChars → x.ch[i]? = r.ch[i]?
  status : x.status =
    if r.nChars = 0 then (if ntm = 0 then Status.new else Status.eofPending) else r.status
  log : LogExt r x

theorem statusStage_spec (ntm : Nat) (r : State) (h2 : 2 ≤ r.ch.length) :
    StatusSpec ntm r (statusStage ntm r) := by
  unfold statusStage
  by_cases h0 : r.nChars = 0
  · by_cases hn : ntm = 0
    · rw [if_pos h0, if_pos hn]
      exact {
        len := by simp [restart, flush, loadBufferState]
        bufSize := rfl
        nChars := by simp [restart, flush, loadBufferState, h0]
        rest := rfl
        tokens := rfl
        keep := fun i hi => by omega
        status := by simp [restart, flush, loadBufferState, h0, hn]
        log := ⟨[.store r.ch.length 0, .store r.ch.length 1, .load ((r.ch.set 0 0).set 1 0).length 0,
            .load ((r.ch.set 0 0).set 1 0).length 0],
          by simp [restart, flush, loadBufferState], by
          intro a ha
          simp only [List.mem_cons, List.not_mem_nil, or_false, List.length_set] at ha
          rcases ha with rfl | rfl | rfl | rfl <;> simp only [Access.ok] <;> omega⟩ }
    · rw [if_pos h0, if_neg hn]
      exact {
        len := rfl, bufSize := rfl, nChars := rfl, rest := rfl, tokens := rfl
        keep := fun _ _ => rfl
        status := by simp [h0, hn]
        log := LogExt.refl _ }
  · rw [if_neg h0]
    exact {
      len := rfl, bufSize := rfl, nChars := rfl, rest := rfl, tokens := rfl
      keep := fun _ _ => rfl
      status := by simp [h0]
      log := LogExt.refl _ }

/-- the last `yyrealloc` of `yy_get_next_buffer` does nothing when what is in the buffer fits -/
theorem extendStage_id (P : Params) (ntm : Nat) (x : State) (h : x.nChars + ntm ≤ x.bufSize) :
    extendStage P ntm x = x := by
  unfold extendStage
  rw [if_neg (by omega)]

/-- the two sentinel stores -/
structure SentinelSpec (ntm : Nat) (x f : State) : Prop where
  len : f.ch.length = x.ch.length
  bufSize : f.bufSize = x.bufSize
  nChars : f.nChars = x.nChars + ntm
  textPtr : f.textPtr = 0
  rest : f.rest = x.rest
  tokens : f.tokens = x.tokens
  status : f.status = x.status
  keep : ∀ i, i < x.nChars + ntm → f.ch[i]? = x.ch[i]?
  sentinel0 : f.ch[f.nChars]? = some 0
  sentinel1 : f.ch[f.nChars + 1]? = some 0
  log : LogExt x f

theorem sentinelStage_spec (ntm : Nat) (x : State) (h : x.nChars + ntm + 1 < x.ch.length) :
    SentinelSpec ntm x (sentinelStage ntm x) := by
  unfold sentinelStage
  exact {
    len := by simp
    bufSize := rfl, nChars := rfl, textPtr := rfl, rest := rfl, tokens := rfl, status := rfl
    keep := fun i hi => by
      simp only
      rw [getElem?_set2 _ _ _ h, if_neg (by omega)]
    sentinel0 := by
      simp only
      rw [getElem?_set2 _ _ _ h, if_pos (.inl rfl)]
    sentinel1 := by
      simp only
      rw [getElem?_set2 _ _ _ h, if_pos (.inr rfl)]
    log := ⟨[_, _], rfl, by
      intro a ha
      simp only [List.mem_cons, List.not_mem_nil, or_false] at ha
      rcases ha with rfl | rfl <;> simp only [Access.ok] <;> omega⟩ }


/-! ### `yy_get_next_buffer` as a whole -/

/-- the state in which `case YY_END_OF_BUFFER:` calls `yy_get_next_buffer` -/
structure Entered (e : State) : Prop where
  alloc : e.ch.length = e.bufSize + 2
  room : e.nChars < e.bufSize
  text : e.textPtr ≤ e.nChars
  cur : e.cBufP = e.nChars + 1

/-- what `yy_get_next_buffer` does to such a state; `ntm` is `number_to_move`
(`e.nChars - e.textPtr`) -/
structure RefillSpec (k ntm : Nat) (e f : State) (ret : Ret) : Prop where
  textPtr : f.textPtr = 0
  alloc : f.ch.length = f.bufSize + 2
  room : f.nChars < f.bufSize
  sentinel0 : f.ch[f.nChars]? = some 0
  sentinel1 : f.ch[f.nChars + 1]? = some 0
  ge : ntm ≤ f.nChars
  le : f.nChars - ntm ≤ k
  /-- the text from `yytext_ptr` to the old sentinel is now at the front -/
  moved : slice f.ch 0 ntm = slice e.ch e.textPtr ntm
  /-- behind it are the next bytes of the stream -/
  data : slice f.ch ntm (f.nChars - ntm) ++ f.rest = e.rest
  ret : ret = if f.nChars = ntm then
      (if ntm = 0 then Ret.endOfFile else Ret.lastMatch) else Ret.continueScan
  status : f.status = if f.nChars = ntm then
      (if ntm = 0 then Status.new else Status.eofPending) else e.status
  size : f.bufSize = e.bufSize ∨
    (f.bufSize = 2 * e.bufSize ∧ e.bufSize = ntm + 1 ∧ e.status ≠ .eofPending)
  live : e.status ≠ .eofPending → 1 ≤ k → e.rest ≠ [] → f.nChars ≠ ntm
  dry : f.nChars = ntm → e.status = .eofPending ∨ k = 0 ∨ e.rest = []
  tokens : f.tokens = e.tokens
  log : LogExt e f

theorem getNextBuffer_eq (P : Params) (k : Nat) (e : State) (ntm : Nat)
    (h : ¬ e.cBufP > e.nChars + 1) (hn : e.cBufP - e.textPtr - 1 = ntm) :
    getNextBuffer P k e =
      (sentinelStage ntm (extendStage P ntm (statusStage ntm
          (readStage P k ntm (moveStage ntm e)))),
        retVal ntm (readStage P k ntm (moveStage ntm e))) := by
  unfold getNextBuffer
  rw [if_neg h, hn]

theorem getNextBuffer_spec (P : Params) (hP : P.OK) (k : Nat) (e : State) (he : Entered e) :
    RefillSpec k (e.nChars - e.textPtr) e (getNextBuffer P k e).1 (getNextBuffer P k e).2 := by
  have hntm : e.cBufP - e.textPtr - 1 = e.nChars - e.textPtr := by rw [he.cur]; omega
  have hnf : ¬ e.cBufP > e.nChars + 1 := by rw [he.cur]; omega
  generalize hn : e.nChars - e.textPtr = ntm at hntm ⊢
  rw [getNextBuffer_eq P k e ntm hnf hntm]
  have hfit : e.textPtr + ntm ≤ e.ch.length := by have := he.alloc; have := he.room; have := he.text; omega
  -- the move
  have hmlen : (moveStage ntm e).ch.length = e.ch.length := length_moveFront _ _ _ hfit
  have hmkeep : ∀ i, i < ntm → (moveStage ntm e).ch[i]? = e.ch[e.textPtr + i]? := fun i hi => by
    show (moveFront e.ch e.textPtr ntm)[i]? = _
    rw [getElem?_moveFront _ _ _ _ hfit, if_pos hi]
  have hmlog : LogExt e (moveStage ntm e) := ⟨[_], rfl, by
    intro a ha
    simp only [List.mem_singleton] at ha
    subst ha
    simp only [Access.ok]; omega⟩
  -- the read
  have R := readStage_spec P hP k ntm (moveStage ntm e)
    (by rw [hmlen]; exact he.alloc) (by show ntm + 1 ≤ e.bufSize; have := he.room; have := he.text; omega)
  generalize readStage P k ntm (moveStage ntm e) = r at R
  have hr2 : 2 ≤ r.ch.length := by rw [R.alloc]; omega
  -- status
  have S := statusStage_spec ntm r hr2
  generalize statusStage ntm r = x at S
  have hxid : extendStage P ntm x = x :=
    extendStage_id P ntm x (by rw [S.nChars, S.bufSize]; have := R.room; omega)
  rw [hxid]
  have F := sentinelStage_spec ntm x (by rw [S.nChars, S.len, R.alloc]; have := R.room; omega)
  generalize sentinelStage ntm x = f at F
  have hfn : f.nChars = r.nChars + ntm := by rw [F.nChars, S.nChars]
  show RefillSpec k ntm e f (retVal ntm r)
  have hst : (moveStage ntm e).status = e.status := rfl
  have hrs : (moveStage ntm e).rest = e.rest := rfl
  exact {
    textPtr := F.textPtr
    alloc := by rw [F.len, F.bufSize, S.len, S.bufSize]; exact R.alloc
    room := by rw [hfn, F.bufSize, S.bufSize]; have := R.room; omega
    sentinel0 := F.sentinel0
    sentinel1 := F.sentinel1
    ge := by omega
    le := by have := R.le; omega
    moved := by
      apply slice_congr
      intro i hi
      rw [Nat.zero_add, F.keep i (by rw [S.nChars]; omega), S.keep i (by omega), R.keep i hi, hmkeep i hi]
    data := by
      rw [hfn, F.rest, S.rest, ← hrs, ← R.data]
      congr 1
      have : r.nChars + ntm - ntm = r.nChars := by omega
      rw [this]
      apply slice_congr
      intro i hi
      rw [F.keep _ (by rw [S.nChars]; omega), S.keep _ (by omega)]
    ret := by
      show retVal ntm r = _
      unfold retVal
      have e1 : (f.nChars = ntm) ↔ (r.nChars = 0) := by omega
      simp only [e1]
    status := by
      rw [F.status, S.status, R.status, hst]
      have e1 : (f.nChars = ntm) ↔ (r.nChars = 0) := by omega
      simp only [e1]
    size := by
      rw [F.bufSize, S.bufSize]
      rcases R.size with h | ⟨h1, h2, h3⟩
      · exact .inl h
      · exact .inr ⟨h1, h2, h3⟩
    live := fun h1 h2 h3 => by
      have := R.live h1 h2 h3
      omega
    dry := fun h0 => R.dry (by omega)
    tokens := by rw [F.tokens, S.tokens, R.tokens]; rfl
    log := hmlog.trans (R.log.trans (S.log.trans F.log)) }

/-- The last `yyrealloc` of `yy_get_next_buffer` (`yy_n_chars + number_to_move > yy_buf_size`)
is dead code for this kind of buffer: the function is equal to itself without that stage. -/
theorem getNextBuffer_no_extend (P : Params) (hP : P.OK) (k : Nat) (e : State) (he : Entered e) :
    getNextBuffer P k e =
      (sentinelStage (e.nChars - e.textPtr) (statusStage (e.nChars - e.textPtr)
          (readStage P k (e.nChars - e.textPtr) (moveStage (e.nChars - e.textPtr) e))),
        retVal (e.nChars - e.textPtr)
          (readStage P k (e.nChars - e.textPtr) (moveStage (e.nChars - e.textPtr) e))) := by
  have hntm : e.cBufP - e.textPtr - 1 = e.nChars - e.textPtr := by rw [he.cur]; omega
  have hnf : ¬ e.cBufP > e.nChars + 1 := by rw [he.cur]; omega
  generalize e.nChars - e.textPtr = ntm at *
  rw [getNextBuffer_eq P k e ntm hnf hntm]
  have hfit : e.textPtr + ntm ≤ e.ch.length := by
    have := he.alloc; have := he.room; have := he.text; omega
  have hmlen : (moveStage ntm e).ch.length = e.ch.length := length_moveFront _ _ _ hfit
  have R := readStage_spec P hP k ntm (moveStage ntm e)
    (by rw [hmlen]; exact he.alloc)
    (by show ntm + 1 ≤ e.bufSize; have := he.room; have := he.text; omega)
  generalize readStage P k ntm (moveStage ntm e) = r at R
  have S := statusStage_spec ntm r (by rw [R.alloc]; omega)
  rw [extendStage_id P ntm _ (by rw [S.nChars, S.bufSize]; have := R.room; omega)]


/-! ### the end-of-buffer action of `yylex` -/

/-- `YY_BUFFER_NEW` becomes `YY_BUFFER_NORMAL` in `case YY_END_OF_BUFFER:` -/
def enteredStatus : Status → Status
  | .new => .normal
  | x => x

theorem enteredStatus_eof (st : Status) : enteredStatus st = .eofPending ↔ st = .eofPending := by
  cases st <;> simp [enteredStatus]

/-- `eobEnter` leaves the buffer as it was (the hold character is stored and put back) -/
structure EnterSpec (s e : State) : Prop where
  ch : e.ch = s.ch
  bufSize : e.bufSize = s.bufSize
  nChars : e.nChars = s.nChars
  textPtr : e.textPtr = s.textPtr
  cBufP : e.cBufP = s.nChars + 1
  status : e.status = enteredStatus s.status
  rest : e.rest = s.rest
  tokens : e.tokens = s.tokens
  log : LogExt s e

theorem eobEnter_spec (s : State) (h1 : s.nChars + 1 < s.ch.length) (h2 : s.textPtr ≤ s.nChars) :
    EnterSpec s (eobEnter s) := by
  have hlog : ∀ a ∈ [Access.scan s.ch.length s.textPtr (s.nChars + 2),
      Access.load s.ch.length (s.nChars + 1), Access.store s.ch.length (s.nChars + 1),
      Access.store (s.ch.set (s.nChars + 1) 0).length (s.nChars + 1)], a.ok := by
    intro a ha
    simp only [List.mem_cons, List.not_mem_nil, or_false] at ha
    rcases ha with rfl | rfl | rfl | rfl <;> simp only [Access.ok, List.length_set] <;> omega
  have hch : (s.ch.set (s.nChars + 1) 0).set (s.nChars + 1) (s.ch.getD (s.nChars + 1) 0) = s.ch :=
    set_getD_self _ _ _ _ h1
  unfold eobEnter
  simp only [doBeforeAction, restoreHold]
  cases hs : s.status <;>
  exact {
    ch := hch, bufSize := rfl, nChars := rfl, textPtr := rfl, cBufP := rfl
    status := by simp [enteredStatus, hs]
    rest := rfl, tokens := rfl
    log := ⟨_, by simp only [List.append_assoc]; rfl, hlog⟩ }

/-- `eobExit` only sets `yy_c_buf_p` -/
theorem eobExit_fields (amount : Nat) (r : State × Ret) :
    (eobExit amount r).2 = r.2 ∧ (eobExit amount r).1.ch = r.1.ch ∧
    (eobExit amount r).1.bufSize = r.1.bufSize ∧ (eobExit amount r).1.nChars = r.1.nChars ∧
    (eobExit amount r).1.textPtr = r.1.textPtr ∧ (eobExit amount r).1.status = r.1.status ∧
    (eobExit amount r).1.rest = r.1.rest ∧ (eobExit amount r).1.tokens = r.1.tokens ∧
    (eobExit amount r).1.log = r.1.log := by
  obtain ⟨st, ret⟩ := r
  cases ret <;> simp [eobExit]

theorem eobExit_cBufP (amount : Nat) (r : State × Ret) :
    (eobExit amount r).1.cBufP = match r.2 with
      | .endOfFile => r.1.textPtr
      | .continueScan => r.1.textPtr + amount
      | .lastMatch => r.1.nChars
      | .fatal => r.1.cBufP := by
  obtain ⟨st, ret⟩ := r
  cases ret <;> rfl

/-- `RefillSpec` does not look at `yy_c_buf_p` -/
theorem RefillSpec.congr {k ntm : Nat} {e f f' : State} {ret : Ret} (H : RefillSpec k ntm e f ret)
    (h1 : f'.ch = f.ch) (h2 : f'.bufSize = f.bufSize) (h3 : f'.nChars = f.nChars)
    (h4 : f'.textPtr = f.textPtr) (h5 : f'.status = f.status) (h6 : f'.rest = f.rest)
    (h7 : f'.tokens = f.tokens) (h8 : f'.log = f.log) : RefillSpec k ntm e f' ret where
  textPtr := by rw [h4]; exact H.textPtr
  alloc := by rw [h1, h2]; exact H.alloc
  room := by rw [h2, h3]; exact H.room
  sentinel0 := by rw [h1, h3]; exact H.sentinel0
  sentinel1 := by rw [h1, h3]; exact H.sentinel1
  ge := by rw [h3]; exact H.ge
  le := by rw [h3]; exact H.le
  moved := by rw [h1]; exact H.moved
  data := by rw [h1, h3, h6]; exact H.data
  ret := by rw [h3]; exact H.ret
  status := by rw [h3, h5]; exact H.status
  size := by rw [h2]; exact H.size
  live := by rw [h3]; exact H.live
  dry := by rw [h3]; exact H.dry
  tokens := by rw [h7]; exact H.tokens
  log := by
    obtain ⟨l, e1, o1⟩ := H.log
    exact ⟨l, by rw [h8]; exact e1, o1⟩

/-- The whole end-of-buffer action, from a state satisfying `Inv`. -/
theorem eobStep_spec (P : Params) (hP : P.OK) (k : Nat) (s : State) (h : Inv P s) :
    EnterSpec s (eobEnter s) ∧
    RefillSpec k (s.nChars - s.textPtr) (eobEnter s) (eobStep P k s).1 (eobStep P k s).2 ∧
    (eobStep P k s).1.cBufP ≤ (eobStep P k s).1.nChars := by
  have h1 : s.nChars + 1 < s.ch.length := by have := h.alloc; have := h.room; omega
  have h2 : s.textPtr ≤ s.nChars := Nat.le_trans h.text h.cur
  have E := eobEnter_spec s h1 h2
  have he : Entered (eobEnter s) := {
    alloc := by rw [E.ch, E.bufSize]; exact h.alloc
    room := by rw [E.nChars, E.bufSize]; exact h.room
    text := by rw [E.nChars, E.textPtr]; exact h2
    cur := by rw [E.cBufP, E.nChars] }
  have G := getNextBuffer_spec P hP k (eobEnter s) he
  rw [E.nChars, E.textPtr] at G
  have hamount : (eobEnter s).cBufP - (eobEnter s).textPtr - 1 = s.nChars - s.textPtr := by
    rw [E.cBufP, E.textPtr]; omega
  have hstep : eobStep P k s = eobExit (s.nChars - s.textPtr) (getNextBuffer P k (eobEnter s)) := by
    unfold eobStep
    simp only [hamount]
  generalize getNextBuffer P k (eobEnter s) = r at G hstep
  obtain ⟨x1, x2, x3, x4, x5, x6, x7, x8, x9⟩ := eobExit_fields (s.nChars - s.textPtr) r
  rw [hstep]
  refine ⟨E, ?_, ?_⟩
  · rw [x1]
    exact G.congr x2 x3 x4 x5 x6 x7 x8 x9
  · rw [eobExit_cBufP, x4]
    have hret := G.ret
    have := G.ge
    have := G.textPtr
    generalize r.2 = ret at hret ⊢
    cases ret with
    | endOfFile => simp only; omega
    | continueScan => simp only; omega
    | lastMatch => simp only; omega
    | fatal =>
      exfalso
      revert hret
      split
      · split <;> simp
      · simp


/-! ### preservation of `Inv` -/

theorem eobStep_inv (P : Params) (hP : P.OK) (k : Nat) (s : State) (h : Inv P s) :
    Inv P (eobStep P k s).1 := by
  obtain ⟨E, G, hc⟩ := eobStep_spec P hP k s h
  exact {
    alloc := G.alloc
    room := G.room
    text := by rw [G.textPtr]; exact Nat.zero_le _
    cur := hc
    sentinel0 := G.sentinel0
    sentinel1 := G.sentinel1
    size := by
      obtain ⟨j, hj⟩ := h.size
      rcases G.size with h1 | ⟨h1, _, _⟩
      · exact ⟨j, by rw [h1, E.bufSize, hj]⟩
      · exact ⟨j + 1, by rw [h1, E.bufSize, hj, Nat.pow_succ]; ac_rfl⟩
    safe := (E.log.trans G.log).safe h.safe }

/-- the window of a state: `yy_n_chars - yytext_ptr` bytes from `yytext_ptr` -/
theorem window_eq_slice (s : State) : window s = slice s.ch s.textPtr (s.nChars - s.textPtr) := rfl

/-- The end-of-buffer action does not change the text still to be scanned, and hands nothing
to the rule actions. -/
theorem eobStep_pending (P : Params) (hP : P.OK) (k : Nat) (s : State) (h : Inv P s) :
    pending (eobStep P k s).1 = pending s ∧ (eobStep P k s).1.tokens = s.tokens := by
  obtain ⟨E, G, _⟩ := eobStep_spec P hP k s h
  refine ⟨?_, by rw [G.tokens, E.tokens]⟩
  unfold pending
  rw [window_eq_slice, window_eq_slice, G.textPtr, Nat.sub_zero]
  obtain ⟨d, hd⟩ : ∃ d, (eobStep P k s).1.nChars = (s.nChars - s.textPtr) + d :=
    ⟨(eobStep P k s).1.nChars - (s.nChars - s.textPtr), by have := G.ge; omega⟩
  have hdata := G.data
  rw [hd, Nat.add_sub_cancel_left] at hdata
  rw [hd, slice_append, Nat.zero_add, G.moved, List.append_assoc, hdata, E.ch, E.textPtr, E.rest]

/-- what a rule action is given and what it leaves: the token is the first `l` bytes of the
text still to be scanned -/
structure TokSpec (l : Nat) (s s' : State) : Prop where
  ch : s'.ch = s.ch
  bufSize : s'.bufSize = s.bufSize
  nChars : s'.nChars = s.nChars
  textPtr : s'.textPtr = s.textPtr + l
  cBufP : s'.cBufP = s.textPtr + l
  status : s'.status = s.status
  rest : s'.rest = s.rest
  tokens : s'.tokens = s.tokens ++ [slice s.ch s.textPtr l]
  log : LogExt s s'

theorem tokStep_spec (l : Nat) (s : State) (h1 : s.nChars + 1 < s.ch.length)
    (hv : s.textPtr + l ≤ s.nChars) : TokSpec l s (tokStep l s) := by
  have hp : s.textPtr + l < s.ch.length := by omega
  have hlog : ∀ a ∈ [Access.scan s.ch.length s.textPtr (s.nChars + 1),
      Access.load s.ch.length (s.textPtr + l), Access.store s.ch.length (s.textPtr + l),
      Access.store (s.ch.set (s.textPtr + l) 0).length (s.textPtr + l)], a.ok := by
    intro a ha
    simp only [List.mem_cons, List.not_mem_nil, or_false] at ha
    rcases ha with rfl | rfl | rfl | rfl <;> simp only [Access.ok, List.length_set] <;> omega
  have hch : (s.ch.set (s.textPtr + l) 0).set (s.textPtr + l) (s.ch.getD (s.textPtr + l) 0) = s.ch :=
    set_getD_self _ _ _ _ hp
  have htok : ((s.ch.set (s.textPtr + l) 0).drop s.textPtr).take l = slice s.ch s.textPtr l := by
    show slice (s.ch.set (s.textPtr + l) 0) s.textPtr l = _
    apply slice_congr
    intro i hi
    rw [List.getElem?_set_ne (by omega)]
  unfold tokStep
  rw [if_pos hv]
  simp only [doBeforeAction, restoreHold]
  exact {
    ch := hch, bufSize := rfl, nChars := rfl, textPtr := rfl, cBufP := rfl, status := rfl
    rest := rfl
    tokens := by simp only [htok]
    log := ⟨_, by simp only [List.append_assoc]; rfl, hlog⟩ }

theorem tokStep_invalid (l : Nat) (s : State) (hv : ¬ s.textPtr + l ≤ s.nChars) : tokStep l s = s := by
  unfold tokStep
  rw [if_neg hv]

theorem tokStep_inv (P : Params) (l : Nat) (s : State) (h : Inv P s) : Inv P (tokStep l s) := by
  by_cases hv : s.textPtr + l ≤ s.nChars
  · have T := tokStep_spec l s (by have := h.alloc; have := h.room; omega) hv
    exact {
      alloc := by rw [T.ch, T.bufSize]; exact h.alloc
      room := by rw [T.nChars, T.bufSize]; exact h.room
      text := by rw [T.textPtr, T.cBufP]; exact Nat.le_refl _
      cur := by rw [T.cBufP, T.nChars]; exact hv
      sentinel0 := by rw [T.ch, T.nChars]; exact h.sentinel0
      sentinel1 := by rw [T.ch, T.nChars]; exact h.sentinel1
      size := by rw [T.bufSize]; exact h.size
      safe := T.log.safe h.safe }
  · rw [tokStep_invalid l s hv]; exact h

/-- a valid token event removes the token from the front of the text still to be scanned -/
theorem tokStep_pending (P : Params) (l : Nat) (s : State) (h : Inv P s)
    (hv : s.textPtr + l ≤ s.nChars) :
    ∃ t, (tokStep l s).tokens = s.tokens ++ [t] ∧ t.length = l ∧ pending s = t ++ pending (tokStep l s) := by
  have T := tokStep_spec l s (by have := h.alloc; have := h.room; omega) hv
  refine ⟨slice s.ch s.textPtr l, T.tokens, ?_, ?_⟩
  · exact length_slice _ _ _ (by have := h.alloc; have := h.room; omega)
  · unfold pending
    rw [window_eq_slice, window_eq_slice, T.ch, T.nChars, T.textPtr, T.rest, ← List.append_assoc,
      ← slice_append]
    congr 2
    omega

theorem create_inv (P : Params) (hB : 0 < P.B) (stream : Bytes) : Inv P (create P stream) := by
  unfold create flush loadBufferState
  exact {
    alloc := by simp
    room := by
      show 0 < P.B
      exact hB
    text := Nat.le_refl _
    cur := Nat.le_refl _
    sentinel0 := by simp
    sentinel1 := by simp
    size := ⟨0, by simp⟩
    safe := by
      intro a ha
      simp only [List.nil_append, List.cons_append, List.mem_cons, List.not_mem_nil, or_false,
        List.length_replicate, List.length_set] at ha
      rcases ha with rfl | rfl | rfl <;> simp only [Access.ok] <;> omega }

end Libconfig.C20BP
