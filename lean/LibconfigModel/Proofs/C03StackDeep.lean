import LibconfigModel.Proofs.C01ParseDeep
/-
  C03S, part 10: the exact number of nested lists at which the parser stack is exhausted.

  `C01PP.deep_reaches` shows that `a = ( ( … ( ) … ) )` with 4998 or more nested lists reaches a
  stack of 10000 entries while the parentheses are still being opened (`4 + 2k` entries after the
  `k`-th `(` and its `$@3`).  That bound is not tight: the innermost list costs two MORE entries
  before anything is popped — the empty `value_list_optional` (reduced in state 26 on seeing `)`)
  and the `)` itself —, so the deepest point of `k` nested lists is `2k + 6` entries, and 4997
  nested lists reach 10000 too.  (4996 nested lists need 9998 entries and are accepted: observed
  on the compiled library — grammar.c with `YYDEBUG`, `Stack now …` lines: 9998 entries at most for
  4996 lists, "memory exhausted" for 4997 —, not proved here.)
-/
namespace Libconfig.C03SP

open Libconfig C02P C05P C02C C04R Libconfig.C01PP

section
variable {E : ParserEnv} (bufLen : Nat) (c : Config)

/-- `C01PP.descend`, with the remaining input in the conclusion: descending through `m` opening
parentheses costs two stack entries each and leaves the tokens behind them to be read -/
theorem descendInp (hE : Compiled E) (m : Nat) :
    ∀ (v26 : TokVal) (rest : List (Nat × TokVal)) (la : Lookahead) (sc : ScanState)
      (ctx : ParseCtx) (K : Node → Node) (pp : Path) (a : Node) (st : Option Path)
      (toks : List (Nat × TokVal)),
    rest.length + 1 + 2 * m ≤ 10000 → View ctx K pp a none st → a.ty = T_LIST →
    Inp E la sc (List.replicate m tLS ++ toks) →
    ∃ vv rest' la' sc' ctx', Reaches E ⟨(26, v26) :: rest, la, sc, ctx⟩
        ⟨(26, vv) :: rest', la', sc', ctx'⟩ ∧ rest'.length = rest.length + 2 * m ∧
      Inp E la' sc' toks := by
  induction m with
  | zero =>
    intro v26 rest la sc ctx K pp a st toks _ _ _ hinp
    exact ⟨v26, rest, la, sc, ctx, Reaches.refl _ _, rfl, by simpa using hinp⟩
  | succ m ih =>
    intro v26 rest la sc ctx K pp a st toks hd hV hty hinp
    rw [List.replicate_succ, List.cons_append] at hinp
    obtain ⟨sc1, ctx1, hR1, hI1, hS1⟩ := shift' hE (v0 := v26) (rest := rest) (ctx := ctx)
      (t := tk.listStart) (v := ({} : TokVal)) (by omega) (by decide) kind_listStart
      val_26.listStart (by decide) hinp
    obtain ⟨ctx2, vv2, hR2, a2, st2, hV2, ha2⟩ := reduceN' hE (la := none) (sc := sc1) (ctx := ctx1)
      (Post := fun c2 => ∃ a2 st', View c2 (fun y => K { a with kids := a.kids ++ [y] })
        (pp ++ [a.kids.length]) a2 none st' ∧ stripPos a2 = { name := none, ty := T_LIST })
      (pushed := []) (p := 17) (vp := ({} : TokVal)) (rest := (26, v26) :: rest) rfl rfl
      (by simp only [List.nil_append, List.length_cons]; omega)
      (by decide) ninf_17 (by decide) rule_15 rfl go_17_M3
      (fun l f => by
        obtain ⟨c2, a2, st', h1, h2, h3⟩ := act_aggStart (hV.of_same hS1)
          (Slot.elem (.inl hty) rfl rfl) (by rw [hty]; decide) T_LIST (by decide) l f
        exact ⟨c2, h1, a2, st', h2, h3⟩)
    have ha2' := eq_of_stripPos ha2 rfl
    have ha2ty : a2.ty = T_LIST := by rw [ha2']
    obtain ⟨vv, rest', la', sc', ctx', hR3, hlen, hI3⟩ := ih vv2
      ((17, ({} : TokVal)) :: (26, v26) :: rest)
      none sc1 ctx2 _ _ a2 st2 toks (by simp only [List.length_cons]; omega) hV2 ha2ty hI1
    refine ⟨vv, rest', la', sc', ctx', (hR1.trans hR2).trans hR3, ?_, hI3⟩
    rw [hlen]
    simp only [List.length_cons]
    omega

/-- the parse of `a = ( ( … ( ) … ) )` with exactly 4997 nested lists reaches a stack of 10000
entries: 9998 after the last `(` and its `$@3`, one more for the empty `value_list_optional`, and
the 10000th for `)` -/
theorem deep_reaches_4997 (hE : Compiled E) {s₀ : ScanState} {ctx₀ : ParseCtx}
    (hlex : LexT E s₀ (tokensOfConfig tk bufLen (deepConfig 4996) ++ [tEOF]))
    (hroot : stripPos ctx₀.cfg.root = { ty := T_GROUP }) (hpar : ctx₀.parent = some [])
    (hstr : ctx₀.str = none) :
    ∃ vv rest' la' sc' ctx', Reaches E ⟨[(0, {})], none, s₀, ctx₀⟩
        ⟨(43, vv) :: rest', la', sc', ctx'⟩ ∧ rest'.length + 1 = 10000 := by
  obtain ⟨d, hd⟩ : ∃ d : Nat, d = 4996 := ⟨_, rfl⟩
  rw [← hd] at hlex
  rw [tokens_deep] at hlex
  simp only [List.cons_append] at hlex
  have hr0 := eq_of_stripPos hroot rfl
  have hr0ty : ctx₀.cfg.root.ty = T_GROUP := by rw [hr0]
  have hr0k : ctx₀.cfg.root.kids = [] := by rw [hr0]
  have hV : View ctx₀ (fun x => x) [] ctx₀.cfg.root none ctx₀.setting :=
    ⟨Hole.root, rfl, hpar, hstr, rfl⟩
  -- NAME
  obtain ⟨sc1, ctx1, hR1, hI1, hS1⟩ := shift' hE (v0 := ({} : TokVal)) (rest := []) (ctx := ctx₀)
    (la := none) (sc := s₀) (t := tk.name) (v := ({ sval := [97] } : TokVal))
    (by simp) (by decide) kind_name mem_0.name0 (by decide) hlex
  -- `$@1`
  obtain ⟨la2, sc2, ctx2, vv2, hR2, hI2, m, hV2, hm⟩ := reduce' hE (ctx := ctx1)
    (Post := fun c2 => ∃ m, View c2 (fun x => x) []
      { ctx₀.cfg.root with kids := ctx₀.cfg.root.kids ++ [m] } none
      (some ([] ++ [ctx₀.cfg.root.kids.length])) ∧ stripPos m = { name := some [97] })
    (pushed := []) (p := 1) (vp := ({ sval := [97] } : TokVal)) (rest := [(0, ({} : TokVal))])
    rfl rfl (by simp) (by decide) (red_1 _ (kind_lt _)) rule_11 rfl go_1_M1 hI1
    (fun ctx₁ l f hs => by
      obtain ⟨c2, h1, h2⟩ := act_settingName ((hV.of_same hS1).of_same hs) hr0ty
        (nm := [97]) (by decide) (by rw [hr0k]; intro k hk; cases hk)
        ({ sval := [97] } : TokVal) rfl l f
      exact ⟨c2, h1, _, h2, rfl⟩)
  -- `=`
  obtain ⟨sc3, ctx3, hR3, hI3, hS3⟩ := shift' hE (v0 := vv2)
    (rest := [(1, ({ sval := [97] } : TokVal)), (0, ({} : TokVal))]) (ctx := ctx2)
    (by simp) (by decide) kind_equals sh_5_equals (by decide) hI2
  -- the outermost `(`
  obtain ⟨sc4, ctx4, hR4, hI4, hS4⟩ := shift' hE (v0 := ({} : TokVal))
    (rest := [(5, vv2), (1, ({ sval := [97] } : TokVal)), (0, ({} : TokVal))]) (ctx := ctx3)
    (t := tk.listStart) (v := ({} : TokVal))
    (by simp) (by decide) kind_listStart val_8.listStart (by decide) hI3
  obtain ⟨ctx5, vv5, hR5, a5, st5, hV5, ha5⟩ := reduceN' hE (la := none) (sc := sc4) (ctx := ctx4)
    (Post := fun c2 => ∃ a2 st', View c2
      (fun y => (fun x => x) { { ctx₀.cfg.root with kids := ctx₀.cfg.root.kids ++ [m] } with
        kids := ctx₀.cfg.root.kids ++ [y] })
      ([] ++ [ctx₀.cfg.root.kids.length]) a2 none st' ∧
      stripPos a2 = { name := some [97], ty := T_LIST })
    (pushed := []) (p := 17) (vp := ({} : TokVal))
    (rest := [(8, ({} : TokVal)), (5, vv2), (1, ({ sval := [97] } : TokVal)), (0, ({} : TokVal))])
    rfl rfl (by simp) (by decide) ninf_17 (by decide) rule_15 rfl go_17_M3
    (fun l f => by
      obtain ⟨c2, a2, st', h1, h2, h3⟩ := act_aggStart ((hV2.of_same hS3).of_same hS4)
        (Slot.member m [97] hr0ty rfl hm rfl rfl) (by rw [show _ = ctx₀.cfg.root.ty from rfl, hr0ty]; decide)
        T_LIST (by decide) l f
      exact ⟨c2, h1, a2, st', h2, h3⟩)
  have ha5' := eq_of_stripPos ha5 rfl
  have ha5ty : a5.ty = T_LIST := by rw [ha5']
  -- 4996 more
  simp only [List.append_assoc] at hI4
  obtain ⟨vv, rest', la', sc', ctx', hR6, hlen, hI6⟩ := descendInp hE d vv5
    [(17, ({} : TokVal)), (8, ({} : TokVal)), (5, vv2), (1, ({ sval := [97] } : TokVal)),
      (0, ({} : TokVal))] none sc4 ctx5 _ _ a5 st5 _
    (by simp only [List.length_cons, List.length_nil]; omega) hV5 ha5ty hI4
  have hlen' : rest'.length = 9997 := by
    rw [hlen]
    simp only [List.length_cons, List.length_nil]
    omega
  -- the innermost list is empty: `value_list_optional` on seeing `)`
  rw [List.replicate_succ, List.cons_append] at hI6
  obtain ⟨la7, sc7, ctx7, vv7, hR7, hI7, _⟩ := reduce0 hE (ctx := ctx')
    (stk := (26, vv) :: rest') (pushed := []) (p := 26) (vp := vv) (rest := rest') (s := 26)
    (v0 := vv) (rest0 := rest') (t := tk.listEnd) (v := ({} : TokVal)) rfl rfl
    (by simp only [List.length_cons]; omega) (by decide)
    (by rw [kind_listEnd]; exact red_26_listEnd) rule_33 rfl go_26_vlo hI6
  -- `)`
  obtain ⟨sc8, ctx8, hR8, _, _⟩ := shift' hE (v0 := vv7) (rest := (26, vv) :: rest') (ctx := ctx7)
    (t := tk.listEnd) (v := ({} : TokVal))
    (by simp only [List.length_cons]; omega) (by decide) kind_listEnd sh_37_listEnd (by decide) hI7
  refine ⟨_, _, _, _, _,
    ((((((hR1.trans hR2).trans hR3).trans hR4).trans hR5).trans hR6).trans hR7).trans hR8, ?_⟩
  simp only [List.length_cons]
  omega

/-- … so with enough fuel `yyparse` returns "memory exhausted" -/
theorem deep_exhausts_4997 (hE : Compiled E) {s₀ : ScanState} {ctx₀ : ParseCtx}
    (hlex : LexT E s₀ (tokensOfConfig tk bufLen (deepConfig 4996) ++ [tEOF]))
    (hroot : stripPos ctx₀.cfg.root = { ty := T_GROUP }) (hpar : ctx₀.parent = some [])
    (hstr : ctx₀.str = none) :
    ∃ N, ∀ fuel, N ≤ fuel → (yyparse E fuel s₀ ctx₀).2.2 = .exhausted := by
  obtain ⟨vv, rest', la', sc', ctx1, hR, hlen⟩ := deep_reaches_4997 bufLen hE hlex hroot hpar hstr
  obtain ⟨n, hn⟩ := hR.steps
  refine ⟨n + 1, fun fuel hfuel => ?_⟩
  obtain ⟨f, rfl⟩ : ∃ f, fuel = (f + 1) + n := ⟨fuel - (n + 1), by omega⟩
  rw [yyparse_eq_run, hn, run_exhausted hE hlen]

end

end Libconfig.C03SP
