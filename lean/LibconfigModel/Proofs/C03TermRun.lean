import LibconfigModel.Proofs.C03Term
/-
  C03T, executable companions of `Reach` and `Quiet`, so that concrete runs can be exhibited by
  kernel evaluation (non-vacuity examples of Properties/C03Term.lean).
-/
namespace Libconfig.C03T
open Libconfig C03P

/-- `k` iterations from `X` (`none` if the loop ends earlier) -/
def stepsRun (E : ParserEnv) : Nat → PState → Option PState
  | 0, X => some X
  | k+1, X =>
    match yystep E X with
    | .inr Y => stepsRun E k Y
    | .inl _ => none

theorem stepsRun_reach (E : ParserEnv) : ∀ (k : Nat) (X Y : PState), stepsRun E k X = some Y →
    Reach E X Y := by
  intro k
  induction k with
  | zero =>
    intro X Y h
    cases h
    exact .refl
  | succ k ih =>
    intro X Y h
    rw [stepsRun] at h
    generalize hs : yystep E X = o at h
    cases o with
    | inl r => cases h
    | inr Z => exact Reach.trans (.step .refl hs) (ih Z Y h)

/-- a sufficient test that the iteration from `X` to `Y` consumed no token: there is a
lookahead afterwards, or the stack did not grow -/
def quietB (X Y : PState) : Bool := Y.la.isSome || Nat.ble Y.stack.length X.stack.length

theorem quietB_spec {E : ParserEnv} {X Y : PState} (h : quietB X Y = true) : ¬ Shifts E X Y := by
  intro ⟨t, v, a, _, _, _, hst, hla⟩
  unfold quietB at h
  rw [hla, hst] at h
  simp only [Option.isSome_none, Bool.false_or, List.length_cons] at h
  have := Nat.le_of_ble_eq_true h
  omega

/-- `k` iterations from `X`, each passing the test `quietB` -/
def quietRun (E : ParserEnv) : Nat → PState → Option PState
  | 0, X => some X
  | k+1, X =>
    match yystep E X with
    | .inr Y => if quietB X Y then quietRun E k Y else none
    | .inl _ => none

theorem Quiet.cons {E : ParserEnv} {X Y Z : PState} {k : Nat} (hs : yystep E X = .inr Y)
    (hq : ¬ Shifts E X Y) (h : Quiet E Y k Z) : Quiet E X (k + 1) Z := by
  induction h with
  | refl => exact .step .refl hs hq
  | step _ hs' hq' ih => exact .step ih hs' hq'

theorem quietRun_quiet (E : ParserEnv) : ∀ (k : Nat) (X Y : PState), quietRun E k X = some Y →
    Quiet E X k Y := by
  intro k
  induction k with
  | zero =>
    intro X Y h
    cases h
    exact .refl
  | succ k ih =>
    intro X Y h
    rw [quietRun] at h
    generalize hs : yystep E X = o at h
    cases o with
    | inl r => cases h
    | inr Z =>
      simp only at h
      split at h
      · rename_i hq
        exact Quiet.cons hs (quietB_spec hq) (ih Z Y h)
      · cases h

/-- a run of `j` iterations followed by `k` quiet ones, from a test the kernel can evaluate -/
theorem exists_quiet_of_run (E : ParserEnv) (j k : Nat) (X₀ : PState)
    (h : ((stepsRun E j X₀).bind (quietRun E k)).isSome = true) :
    ∃ X Y, Reach E X₀ X ∧ Quiet E X k Y := by
  cases h1 : stepsRun E j X₀ with
  | none => rw [h1] at h; cases h
  | some X =>
    rw [h1] at h
    cases h2 : quietRun E k X with
    | none =>
      simp only [Option.bind_some] at h
      rw [h2] at h
      cases h
    | some Y => exact ⟨X, Y, stepsRun_reach E j X₀ X h1, quietRun_quiet E k X Y h2⟩

/-- the state stacks (top first) and whether there is a lookahead, along the first `k`
iterations -/
def trace (E : ParserEnv) : Nat → PState → List (List Nat × Bool)
  | 0, _ => []
  | k+1, X =>
    (X.stack.map (·.1), X.la.isSome) ::
      match yystep E X with
      | .inr Y => trace E k Y
      | .inl _ => []

end Libconfig.C03T
