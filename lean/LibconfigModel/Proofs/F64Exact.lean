import LibconfigModel.Proofs.C08
/-
  `(double)v` is exact for 32-bit integers (used for the int → float auto-conversion).
  Built on the step-by-step description of `F64.ofRat` in Proofs/C08.lean.
-/
namespace Libconfig.F64

open Libconfig Libconfig.C08P

theorem bitLen_one : bitLen 1 = 1 := by decide

theorem bitLen_pos (a : Nat) (ha : 0 < a) : 1 ≤ bitLen a := by
  unfold bitLen
  rw [if_neg (by omega)]
  omega

/-- `2^(bitLen a - 1) ≤ a` for positive `a` -/
theorem pow_pred_bitLen_le (a : Nat) (ha : 0 < a) : 2 ^ (bitLen a - 1) ≤ a := by
  unfold bitLen
  rw [if_neg (by omega), Nat.add_sub_cancel]
  exact Nat.log2_self_le (by omega)

theorem divRoundEven_one (n : Nat) : divRoundEven n 1 = n := by
  unfold divRoundEven
  simp [Nat.mod_one]

theorem scale_nat (num den k : Nat) : scale num den ((k : Nat) : Int) = (num * 2 ^ k, den) := by
  unfold scale
  rw [if_pos (by omega), Int.toNat_natCast]

/-- the last step of `ofRat` on a mantissa that is already normal -/
theorem finish_normal (neg : Bool) (m : Nat) (s : Int)
    (h1 : 4503599627370496 ≤ m) (h2 : m < 9007199254740992) (hs : -s + 1075 < 2047) :
    finish neg m s = mkBits neg (-s + 1075).toNat (m - 4503599627370496) := by
  have h3 : ¬ m ≥ 9007199254740992 := by omega
  have h4 : ¬ m < 4503599627370496 := by omega
  have h5 : ¬ -s + 1075 ≥ 2047 := by omega
  unfold finish
  simp only [Nat.reducePow, h3, h4, h5, if_false]

/-- `ofRat` on a positive integer below 2^32, computed step by step -/
theorem ofRat_small (neg : Bool) (a : Nat) (ha : 0 < a) (h32 : a < 4294967296) :
    ∃ L m : Nat, 1 ≤ L ∧ L ≤ 32 ∧ m = a * 2 ^ (53 - L) ∧ 4503599627370496 ≤ m ∧ m < 9007199254740992 ∧
      ofRat neg a 1 = mkBits neg (L + 1022) (m - 4503599627370496) := by
  have hL1 := bitLen_pos a ha
  have hlo := pow_pred_bitLen_le a ha
  have hhi := lt_pow_bitLen a
  generalize hL : bitLen a = L at *
  have hL32 : L ≤ 32 := by
    have : 2 ^ (L - 1) < 2 ^ 32 := Nat.lt_of_le_of_lt hlo h32
    have := (Nat.pow_lt_pow_iff_right (by decide : 1 < 2)).mp this
    omega
  -- the two scalings used by `ofRat`
  have hK1 : 2 ^ (L - 1) * 2 ^ (53 - L) = 4503599627370496 := by
    rw [← Nat.pow_add, show L - 1 + (53 - L) = 52 by omega]
  have hK2 : 2 ^ L * 2 ^ (53 - L) = 9007199254740992 := by
    rw [← Nat.pow_add, show L + (53 - L) = 53 by omega]
  have hK3 : 2 ^ (54 - L) = 2 * 2 ^ (53 - L) := by
    rw [show 54 - L = (53 - L) + 1 by omega, Nat.pow_succ, Nat.mul_comm]
  have hKpos : 0 < 2 ^ (53 - L) := Nat.pow_pos (by decide)
  have hm1 : 4503599627370496 ≤ a * 2 ^ (53 - L) := by
    rw [← hK1]; exact Nat.mul_le_mul_right _ hlo
  have hm2 : a * 2 ^ (53 - L) < 9007199254740992 := by
    rw [← hK2]; exact Nat.mul_lt_mul_of_pos_right hhi hKpos
  refine ⟨L, a * 2 ^ (53 - L), hL1, hL32, rfl, hm1, hm2, ?_⟩
  -- the shift chosen by `ofRat`
  have hs0 : s0Of a 1 = ((54 - L : Nat) : Int) := by
    unfold s0Of; rw [bitLen_one, hL]; omega
  have hq0 : 9007199254740992 ≤ a * 2 ^ (54 - L) / 1 := by
    rw [Nat.div_one, hK3, Nat.mul_left_comm]
    omega
  have hs1 : s1Of a 1 = ((53 - L : Nat) : Int) := by
    unfold s1Of
    simp only [hs0, scale_nat, Nat.reducePow]
    rw [if_pos hq0]; omega
  have hs : chooseS a 1 = ((53 - L : Nat) : Int) := by
    unfold chooseS
    rw [hs1, if_neg (by omega)]
  rw [ofRat_eq, if_neg (by omega), hs, scale_nat, divRoundEven_one,
    finish_normal neg _ _ hm1 hm2 (by omega)]
  congr 1
  omega

/-- `(double)v` is exact for every 32-bit integer: the result is finite, has the sign of `v`, and its
mantissa and exponent denote |v| exactly. -/
theorem ofInt_exact (v : Int) (h : fits32 v = true) :
    let b := ofInt v
    isFinite b = true ∧ (signBit b = decide (v < 0) ∨ v = 0) ∧
    ((expo b ≥ 0 ∧ mant b * 2 ^ (expo b).toNat = v.natAbs) ∨
     (expo b < 0 ∧ mant b = v.natAbs * 2 ^ (-(expo b)).toNat)) := by
  intro b
  have hv : v.natAbs < 4294967296 := by
    unfold fits32 INT_MIN INT_MAX at h
    simp at h
    omega
  by_cases h0 : v = 0
  · subst h0
    have hb : b = 0 := by decide
    rw [hb]
    refine ⟨by decide, .inr rfl, .inr ⟨by decide, ?_⟩⟩
    rw [show Int.natAbs 0 = 0 from rfl, Nat.zero_mul]
    decide
  · have ha : 0 < v.natAbs := by omega
    obtain ⟨L, m, hL1, hL32, hm, hm1, hm2, hb⟩ := ofRat_small (decide (v < 0)) v.natAbs ha hv
    have hb' : b = mkBits (decide (v < 0)) (L + 1022) (m - 4503599627370496) := hb
    obtain ⟨hE, hF, -, hS⟩ := mkBits_fields (decide (v < 0)) (L + 1022) (m - 4503599627370496)
      (by omega) (by omega)
    rw [← hb'] at hE hF hS
    have hE0 : (expField b == 0) = false := by rw [hE]; simp
    refine ⟨?_, .inl hS, .inr ?_⟩
    · unfold isFinite; rw [hE]; simp; omega
    · have hexpo : expo b = (L : Int) - 53 := by
        unfold expo; rw [hE0, hE]; simp only [Bool.false_eq_true, if_false]; omega
      have hmant : mant b = m := by
        unfold mant; rw [hE0, hF]; simp only [Bool.false_eq_true, if_false, Nat.reducePow]; omega
      rw [hexpo, hmant, hm, show (-((L : Int) - 53)).toNat = 53 - L by omega]
      exact ⟨by omega, rfl⟩

end Libconfig.F64
