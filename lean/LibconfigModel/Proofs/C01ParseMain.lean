import LibconfigModel.Proofs.C01ParseSim
/-
  C01 (parsing half), the whole parse: `yyparse` over the compiled tables, started on a cleared
  configuration in front of the tokens of a written configuration, accepts and has rebuilt the
  expected tree — unless the fuel of the model runs out.
-/
namespace Libconfig.C01PP
open Libconfig C02P C05P C02C C04R

theorem yyparse_eq_run (E : ParserEnv) (fuel : Nat) (s : ScanState) (ctx : ParseCtx) :
    yyparse E fuel s ctx = run E fuel ⟨[(0, {})], none, s, ctx⟩ := rfl

/-- with the final state on top of a short stack, the loop accepts as soon as it has fuel -/
theorem run_accept {E : ParserEnv} (hE : Compiled E) (vv v2 : TokVal) (la : Lookahead)
    (sc : ScanState) (ctx : ParseCtx) (f : Nat) :
    run E (f + 1) ⟨[(6, vv), (2, v2), (0, {})], la, sc, ctx⟩ = (sc, ctx, .accept) := by
  have := run_final (E := E) (v := vv) (rest := [(2, v2), (0, {})]) (la := la) (sc := sc)
    (ctx := ctx) (by rw [hE.tables]; show 2 + 1 < 10000; omega) f
  rw [hE.tables] at this
  exact this

/-- the parse of the tokens of a written configuration reaches the accepting configuration with
the expected tree -/
theorem parse_reaches_core {E : ParserEnv} (hE : Compiled E) (bufLen : Nat) (c : Config)
    (hok : okNode c.root = true) (hname : c.root.name = none) (hty : c.root.ty = T_GROUP)
    (hdepth : nodeDepth c.root ≤ 1666) {s₀ : ScanState} {ctx₀ : ParseCtx}
    (hlex : LexT E s₀ (tokensOfConfig tk bufLen c ++ [tEOF]))
    (hroot : stripPos ctx₀.cfg.root = { ty := T_GROUP }) (hpar : ctx₀.parent = some [])
    (hstr : ctx₀.str = none) :
    ∃ la1 sc1 ctx1 vv v2, Reaches E ⟨[(0, {})], none, s₀, ctx₀⟩
        ⟨[(6, vv), (2, v2), (0, {})], la1, sc1, ctx1⟩ ∧
      stripPos ctx1.cfg.root = expNode bufLen c c.root := by
  rw [tokensOfConfig_eq bufLen c hname hty] at hlex
  have hr0 := eq_of_stripPos hroot rfl
  have hr0ty : ctx₀.cfg.root.ty = T_GROUP := by rw [hr0]
  have hr0k : ctx₀.cfg.root.kids = [] := by rw [hr0]
  have hV : View ctx₀ (fun x => x) [] ctx₀.cfg.root none ctx₀.setting :=
    ⟨Hole.root, rfl, hpar, hstr, rfl⟩
  obtain ⟨la1, sc1, ctx1, vv, v2, ks2, st1, hR, hV1, hks2⟩ := sim_config bufLen c hE c.root hok hty
    (by omega) hV hr0ty hr0k hlex
  refine ⟨la1, sc1, ctx1, vv, v2, hR, ?_⟩
  rw [hV1.root]
  exact built_agg bufLen c (a := ctx₀.cfg.root) (n := c.root) (by rw [hname, hty]; exact hroot)
    hks2 (by rw [hty]; rfl)

/-- The core of C01_parse_rebuilds, in the vocabulary of the proofs. -/
theorem parse_rebuilds_core {E : ParserEnv} (hE : Compiled E) (bufLen : Nat) (c : Config)
    (hok : okNode c.root = true) (hname : c.root.name = none) (hty : c.root.ty = T_GROUP)
    (hdepth : nodeDepth c.root ≤ 1666) {fuel : Nat} {s₀ s' : ScanState} {ctx₀ ctx' : ParseCtx}
    {r : ParseResult}
    (hlex : LexT E s₀ (tokensOfConfig tk bufLen c ++ [tEOF]))
    (hroot : stripPos ctx₀.cfg.root = { ty := T_GROUP }) (hpar : ctx₀.parent = some [])
    (hstr : ctx₀.str = none)
    (h : yyparse E fuel s₀ ctx₀ = (s', ctx', r)) (hr : r ≠ .outOfFuel) :
    r = .accept ∧ stripPos ctx'.cfg.root = expNode bufLen c c.root := by
  obtain ⟨la1, sc1, ctx1, vv, v2, hR, hroot1⟩ := parse_reaches_core hE bufLen c hok hname hty
    hdepth hlex hroot hpar hstr
  rw [yyparse_eq_run] at h
  rcases hR.part fuel with hout | ⟨fuel', heq⟩
  · rw [h] at hout
    exact absurd hout hr
  · rw [h] at heq
    cases fuel' with
    | zero =>
      rw [run_zero] at heq
      injection heq with _ h2
      injection h2 with _ h3
      exact absurd h3 hr
    | succ f =>
      rw [run_accept hE] at heq
      injection heq with _ h2
      injection h2 with h3 h4
      exact ⟨h4, by rw [h3]; exact hroot1⟩

/-- … and with enough fuel it does return: there is a bound beyond which `yyparse` accepts -/
theorem parse_accepts_core {E : ParserEnv} (hE : Compiled E) (bufLen : Nat) (c : Config)
    (hok : okNode c.root = true) (hname : c.root.name = none) (hty : c.root.ty = T_GROUP)
    (hdepth : nodeDepth c.root ≤ 1666) {s₀ : ScanState} {ctx₀ : ParseCtx}
    (hlex : LexT E s₀ (tokensOfConfig tk bufLen c ++ [tEOF]))
    (hroot : stripPos ctx₀.cfg.root = { ty := T_GROUP }) (hpar : ctx₀.parent = some [])
    (hstr : ctx₀.str = none) :
    ∃ N s' ctx', (∀ fuel, N ≤ fuel → yyparse E fuel s₀ ctx₀ = (s', ctx', .accept)) ∧
      stripPos ctx'.cfg.root = expNode bufLen c c.root := by
  obtain ⟨la1, sc1, ctx1, vv, v2, hR, hroot1⟩ := parse_reaches_core hE bufLen c hok hname hty
    hdepth hlex hroot hpar hstr
  obtain ⟨n, hn⟩ := hR.steps
  refine ⟨n + 1, sc1, ctx1, ?_, hroot1⟩
  intro fuel hfuel
  obtain ⟨f, rfl⟩ : ∃ f, fuel = (f + 1) + n := ⟨fuel - (n + 1), by omega⟩
  rw [yyparse_eq_run, hn, run_accept hE]

end Libconfig.C01PP
