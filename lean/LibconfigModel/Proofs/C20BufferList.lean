import LibconfigModel.FlexBuffer
/-
  C20B helpers, part 1: the memory primitives of `FlexBuffer.lean` (`moveFront`,
  `copyLoop`, `writeAt`, `resize`, the sentinel stores) described index by index, and the
  fact that the forward byte loop of `yy_get_next_buffer` is a correct overlapping move.
-/
namespace Libconfig.C20BP

open Libconfig Libconfig.FlexBuffer

/-! ### slices -/

/-- `n` bytes from offset `lo` -/
def slice (ch : Bytes) (lo n : Nat) : Bytes := (ch.drop lo).take n

theorem getElem?_slice (ch : Bytes) (lo n i : Nat) :
    (slice ch lo n)[i]? = if i < n then ch[lo + i]? else none := by
  simp [slice, List.getElem?_take, List.getElem?_drop]

theorem length_slice (ch : Bytes) (lo n : Nat) (h : lo + n ≤ ch.length) :
    (slice ch lo n).length = n := by
  simp only [slice, List.length_take, List.length_drop]; omega

theorem slice_zero_eq_take (ch : Bytes) (n : Nat) : slice ch 0 n = ch.take n := by
  simp [slice]

/-- a slice is determined by the bytes at its indices -/
theorem slice_congr (a b : Bytes) (la lb n : Nat)
    (h : ∀ i, i < n → a[la + i]? = b[lb + i]?) : slice a la n = slice b lb n := by
  apply List.ext_getElem?
  intro i
  rw [getElem?_slice, getElem?_slice]
  split
  · exact h i ‹_›
  · rfl

theorem slice_append (ch : Bytes) (lo n m : Nat) :
    slice ch lo (n + m) = slice ch lo n ++ slice ch (lo + n) m := by
  apply List.ext_getElem?
  intro i
  rw [List.getElem?_append, getElem?_slice, getElem?_slice]
  by_cases hlen : lo + n ≤ ch.length
  · rw [length_slice ch lo n hlen, getElem?_slice]
    by_cases h1 : i < n
    · simp [h1, show i < n + m by omega]
    · simp only [h1, ↓reduceIte]
      by_cases h2 : i < n + m
      · simp only [h2, ↓reduceIte, show i - n < m by omega]
        congr 1; omega
      · simp only [h2, ↓reduceIte, show ¬ (i - n < m) by omega]
  · -- the first slice is cut short by the end of `ch`, the second is empty
    have hl : (slice ch lo n).length = ch.length - lo := by
      simp only [slice, List.length_take, List.length_drop]; omega
    rw [hl, getElem?_slice]
    by_cases h1 : i < ch.length - lo
    · simp [h1, show i < n by omega, show i < n + m by omega]
    · simp only [h1, ↓reduceIte]
      have e1 : ch[lo + i]? = none := List.getElem?_eq_none (by omega)
      have e2 : ch[lo + n + (i - (ch.length - lo))]? = none := List.getElem?_eq_none (by omega)
      rw [e1, e2]; simp

theorem slice_drop_eq (ch : Bytes) (lo n : Nat) :
    slice ch lo n ++ ch.drop (lo + n) = ch.drop lo := by
  have : ch.drop (lo + n) = (ch.drop lo).drop n := by rw [List.drop_drop]
  rw [this, slice, List.take_append_drop]

theorem take_length_take (l : Bytes) (n : Nat) : l.take (l.take n).length = l.take n := by
  apply List.ext_getElem?
  intro i
  rw [List.getElem?_take, List.getElem?_take, List.length_take]
  by_cases h1 : i < n
  · by_cases h2 : i < l.length
    · rw [if_pos (by omega), if_pos h1]
    · rw [if_neg (by omega), if_pos h1, List.getElem?_eq_none (by omega)]
  · rw [if_neg (by omega), if_neg h1]

/-! ### `moveFront` and the byte loop -/

theorem length_moveFront (ch : Bytes) (src n : Nat) (h : src + n ≤ ch.length) :
    (moveFront ch src n).length = ch.length := by
  simp only [moveFront, List.length_append, List.length_take, List.length_drop]; omega

theorem getElem?_moveFront (ch : Bytes) (src n i : Nat) (h : src + n ≤ ch.length) :
    (moveFront ch src n)[i]? = if i < n then ch[src + i]? else ch[i]? := by
  have hl : ((ch.drop src).take n).length = n := by
    simp only [List.length_take, List.length_drop]; omega
  simp only [moveFront, List.getElem?_append, hl, List.getElem?_take, List.getElem?_drop]
  by_cases h1 : i < n
  · simp [h1]
  · simp only [h1, ↓reduceIte]; congr 1; omega

/-- what `for ( i = 0; i < n; ++i ) *(dest++) = *(source++)` leaves in memory when the
destination is not above the source (the regions may overlap) -/
theorem getElem?_copyLoop (n dst src : Nat) (ch : Bytes) (i : Nat)
    (hds : dst ≤ src) (hb : src + n ≤ ch.length) :
    (copyLoop n dst src ch)[i]? =
      if dst ≤ i ∧ i < dst + n then ch[src + (i - dst)]? else ch[i]? := by
  induction n generalizing dst src ch with
  | zero =>
    simp only [copyLoop]
    rw [if_neg (by omega)]
  | succ n ih =>
    simp only [copyLoop]
    rw [ih (dst + 1) (src + 1) _ (by omega) (by rw [List.length_set]; omega)]
    have hsrc : ch.getD src 0 = ch[src]'(by omega) := by
      rw [List.getD_eq_getElem?_getD, List.getElem?_eq_getElem (by omega)]; rfl
    by_cases h1 : dst + 1 ≤ i ∧ i < dst + 1 + n
    · rw [if_pos h1, if_pos (by omega), List.getElem?_set_ne (by omega)]
      congr 1; omega
    · rw [if_neg h1]
      by_cases h2 : i = dst
      · subst h2
        rw [if_pos (by omega), List.getElem?_set_self (by omega), hsrc, Nat.sub_self,
          Nat.add_zero, List.getElem?_eq_getElem (by omega)]
      · rw [List.getElem?_set_ne (by omega), if_neg (by omega)]

theorem length_copyLoop (n dst src : Nat) (ch : Bytes) :
    (copyLoop n dst src ch).length = ch.length := by
  induction n generalizing dst src ch with
  | zero => rfl
  | succ n ih => simp only [copyLoop]; rw [ih, List.length_set]

/-- The byte loop of `yy_get_next_buffer` (`dest = &yy_ch_buf[0]`, `source = yytext_ptr`)
computes `moveFront`. -/
theorem copyLoop_eq_moveFront (ch : Bytes) (src n : Nat) (h : src + n ≤ ch.length) :
    copyLoop n 0 src ch = moveFront ch src n := by
  apply List.ext_getElem?
  intro i
  rw [getElem?_copyLoop n 0 src ch i (Nat.zero_le _) h, getElem?_moveFront ch src n i h]
  by_cases h1 : i < n
  · rw [if_pos (by omega), if_pos h1, Nat.sub_zero]
  · rw [if_neg (by omega), if_neg h1]

/-! ### `writeAt` -/

theorem length_writeAt (ch : Bytes) (pos : Nat) (data : Bytes) (h : pos + data.length ≤ ch.length) :
    (writeAt ch pos data).length = ch.length := by
  simp only [writeAt, List.length_append, List.length_take, List.length_drop]; omega

theorem getElem?_writeAt (ch : Bytes) (pos : Nat) (data : Bytes) (i : Nat)
    (h : pos + data.length ≤ ch.length) :
    (writeAt ch pos data)[i]? =
      if i < pos then ch[i]? else if i < pos + data.length then data[i - pos]? else ch[i]? := by
  have hl : (ch.take pos).length = pos := by rw [List.length_take]; omega
  simp only [writeAt, List.getElem?_append, List.length_append, hl, List.getElem?_take,
    List.getElem?_drop]
  by_cases h1 : i < pos
  · simp [h1, show i < pos + data.length by omega]
  · by_cases h2 : i < pos + data.length
    · simp [h1, h2, show i - pos < data.length by omega]
    · simp only [h1, h2, ↓reduceIte]
      congr 1; omega

/-! ### `resize` -/

theorem length_resize (junk : Nat) (ch : Bytes) (n : Nat) : (resize junk ch n).length = n := by
  simp only [resize, List.length_append, List.length_take, List.length_replicate]; omega

/-- growing keeps the old contents -/
theorem getElem?_resize (junk : Nat) (ch : Bytes) (n i : Nat) (h : ch.length ≤ n)
    (hi : i < ch.length) : (resize junk ch n)[i]? = ch[i]? := by
  have hl : (ch.take n).length = ch.length := by rw [List.length_take]; omega
  simp only [resize, List.getElem?_append, hl, hi, ↓reduceIte, List.getElem?_take]
  rw [if_pos (by omega)]

/-! ### the sentinels -/

theorem length_set2 (ch : Bytes) (n : Nat) : ((ch.set n 0).set (n + 1) 0).length = ch.length := by
  simp

theorem getElem?_set2 (ch : Bytes) (n i : Nat) (h : n + 1 < ch.length) :
    ((ch.set n 0).set (n + 1) 0)[i]? = if i = n ∨ i = n + 1 then some 0 else ch[i]? := by
  simp only [List.getElem?_set, List.length_set]
  by_cases h1 : i = n + 1
  · subst h1; simp [h]
  · by_cases h2 : i = n
    · subst h2; simp [show i < ch.length by omega]
    · rw [if_neg (by omega), if_neg (by omega), if_neg (by omega)]

/-- storing what is already there (the hold character dance) -/
theorem set_getD_self (ch : Bytes) (p v d : Nat) (h : p < ch.length) :
    (ch.set p v).set p (ch.getD p d) = ch := by
  apply List.ext_getElem?
  intro i
  rw [List.set_set, List.getElem?_set]
  by_cases h1 : p = i
  · subst h1
    rw [if_pos rfl, if_pos h, List.getD_eq_getElem?_getD, List.getElem?_eq_getElem h]; rfl
  · rw [if_neg h1]


/-! ### comparing long byte lists in the kernel -/

/-- equality test that the kernel evaluates without deep recursion -/
def beqBytes : Bytes → Bytes → Bool
  | [], [] => true
  | a :: as, b :: bs =>
    match Nat.beq a b with
    | true => beqBytes as bs
    | false => false
  | _, _ => false

theorem beqBytes_eq : ∀ (a b : Bytes), beqBytes a b = true → a = b
  | [], [], _ => rfl
  | [], _ :: _, h => by simp [beqBytes] at h
  | _ :: _, [], h => by simp [beqBytes] at h
  | a :: as, b :: bs, h => by
    unfold beqBytes at h
    split at h
    · rename_i hab
      rw [Nat.eq_of_beq_eq_true hab, beqBytes_eq as bs h]
    · exact absurd h (by simp)

end Libconfig.C20BP
