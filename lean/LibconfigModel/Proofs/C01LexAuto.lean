import LibconfigModel.Scanner
/-
  C01L, part 1 — a small hand-written automaton for the lexemes the writer produces, and a
  kernel-checked certificate that the translated flex automaton (`Generated.scanner`,
  `Flex.step`) simulates it.

  * `A`, `astep`, `aacc`: the abstract automaton (white space, names with the two keywords
    `true`/`false` tracked letter by letter, decimal / hexadecimal integers with the `L`
    suffix, float literals, the single-character tokens, and the STRING start condition:
    chunks, the escapes the writer uses, the closing quote).  `A.top` means "not described":
    nothing is claimed once the abstract automaton reaches it.
  * `absTab`: for each of the 108 flex states the abstract state it stands for (found by an
    untrusted search, `A.top` for the states that are not needed).
  * `cert_ok` (`decide +kernel`): for every flex state `q` that stands for a described state
    `a`, the accept entry of `q` is `aacc a` and for every byte `b < 256` the flex successor of
    `q` stands for `astep a b` (unless that is `A.top`).
  * `scan_abs`: the resulting statement about `Flex.scan`: if the abstract automaton, started
    in the state the flex start state stands for, stays described and alive over `pre`, ends
    in a state accepting rule `r`, and jams on the byte that follows (or the input ends), then
    the flex matcher selects rule `r` with length `pre.length` on `pre ++ rest`.
-/
namespace Libconfig.C01L
open Flex

abbrev T : FlexTables := Generated.scanner

/-! ### the abstract automaton -/

inductive A where
  /-- not described -/
  | top
  /-- flex's jam state: no rule can continue -/
  | jam
  /-- start of a token in INITIAL (`bol`: at the beginning of a line, where the
  `@include` rule competes) -/
  | start (bol : Bool)
  /-- rule `r` matched, nothing can follow -/
  | done (r : Nat)
  /-- inside `[ \t]+` -/
  | ws (bol : Bool)
  /-- inside a name that is no longer a prefix of `true` / `false` -/
  | name
  /-- the first `i` letters of `true` (`t = true`) / `false`, in either case -/
  | kw (t : Bool) (i : Nat)
  | sign | zero | int | intL | intLL | zx | hex | hexL | hexLL
  /-- after the decimal point -/
  | frac
  /-- after the exponent marker / its sign / inside the exponent digits -/
  | fe | fesign | fexp
  /-- start of a piece in the STRING start condition -/
  | sstart
  | chunk | bs | bsx | bsxh
deriving Repr, DecidableEq, Inhabited

def lower (b : Nat) : Nat := if isUpper b then b + 32 else b

def kwLen (t : Bool) : Nat := if t then 4 else 5

/-- letter `i` of the keyword, lower case -/
def kwByte (t : Bool) (i : Nat) : Nat :=
  if t then [116, 114, 117, 101].getD i 0 else [102, 97, 108, 115, 101].getD i 0

def kwNext (t : Bool) (i b : Nat) : Bool := decide (i < kwLen t) && lower b == kwByte t i

/-- `[-A-Za-z0-9_\*]` in the order `validName` tests it -/
def nameRest (c : Nat) : Bool := isAlpha c || isDigit c || c == 42 || c == 95 || c == 45

def isE (b : Nat) : Bool := b == 101 || b == 69
def isX (b : Nat) : Bool := b == 120 || b == 88
def isSgn (b : Nat) : Bool := b == 45 || b == 43
def isBlank (b : Nat) : Bool := b == 32 || b == 9

/-- rule of a single-character token of INITIAL (0: the byte is not one) -/
def punctRule (b : Nat) : Nat :=
  if b == 10 then 28 else if b == 34 then 8 else if b == 61 || b == 58 then 30
  else if b == 44 then 31 else if b == 123 then 32 else if b == 125 then 33
  else if b == 91 then 42 else if b == 93 then 43 else if b == 40 then 44
  else if b == 41 then 45 else if b == 59 then 46 else 0

def astep : A → Nat → A
  | .top, _ => .top
  | .jam, _ => .top
  | .start bol, b =>
    if isBlank b then .ws bol
    else if punctRule b != 0 then .done (punctRule b)
    else if b == 116 || b == 84 then .kw true 1
    else if b == 102 || b == 70 then .kw false 1
    else if isAlpha b || b == 42 then .name
    else if isSgn b then .sign
    else if b == 48 then .zero
    else if isDigit b then .int
    else .top
  | .done _, _ => .jam
  | .ws bol, b => if isBlank b then .ws bol else if bol && b == 64 then .top else .jam
  | .name, b => if nameRest b then .name else .jam
  | .kw t i, b => if kwNext t i b then .kw t (i + 1) else if nameRest b then .name else .jam
  | .sign, b => if isDigit b then .int else .top
  | .zero, b =>
    if isDigit b then .int else if b == 46 then .frac else if isE b then .fe
    else if b == 76 then .intL else if isX b then .zx else .jam
  | .int, b =>
    if isDigit b then .int else if b == 46 then .frac else if isE b then .fe
    else if b == 76 then .intL else .jam
  | .intL, b => if b == 76 then .intLL else .jam
  | .intLL, _ => .jam
  | .zx, b => if isHexDigit b then .hex else .jam
  | .hex, b => if isHexDigit b then .hex else if b == 76 then .hexL else .jam
  | .hexL, b => if b == 76 then .hexLL else .jam
  | .hexLL, _ => .jam
  | .frac, b => if isDigit b then .frac else if isE b then .fe else .jam
  | .fe, b => if isDigit b then .fexp else if isSgn b then .fesign else .jam
  | .fesign, b => if isDigit b then .fexp else .jam
  | .fexp, b => if isDigit b then .fexp else .jam
  | .sstart, b => if b == 34 then .done 21 else if b == 92 then .bs else .chunk
  | .chunk, b => if b == 34 || b == 92 then .jam else .chunk
  | .bs, b =>
    if b == 110 then .done 12 else if b == 114 then .done 13 else if b == 116 then .done 14
    else if b == 102 then .done 16 else if b == 92 then .done 17 else if b == 34 then .done 18
    else if isX b then .bsx else .top
  | .bsx, b => if isHexDigit b then .bsxh else .jam
  | .bsxh, b => if isHexDigit b then .done 19 else .jam

/-- the rule an abstract state accepts (0: none) -/
def aacc : A → Nat
  | .done r => r
  | .ws _ => 29
  | .name => 36
  | .kw t i => if Nat.beq i (kwLen t) then (if t then 34 else 35) else 36
  | .sign => 47
  | .zero => 38 | .int => 38 | .intL => 39 | .intLL => 39
  | .hex => 40 | .hexL => 41 | .hexLL => 41
  | .frac => 37 | .fexp => 37
  | .chunk => 9 | .bs => 20
  | _ => 0

def A.live : A → Bool
  | .top => false
  | .jam => false
  | _ => true

/-- equality test evaluated by the kernel (no derived `DecidableEq` there) -/
def A.code : A → Nat
  | .top => 0 | .jam => 1
  | .start b => 2 + b.toNat
  | .ws b => 4 + b.toNat
  | .name => 6 | .sign => 7 | .zero => 8 | .int => 9 | .intL => 10 | .intLL => 11
  | .zx => 12 | .hex => 13 | .hexL => 14 | .hexLL => 15
  | .frac => 16 | .fe => 17 | .fesign => 18 | .fexp => 19
  | .sstart => 20 | .chunk => 21 | .bs => 22 | .bsx => 23 | .bsxh => 24
  | .done r => 100 + 2 * r
  | .kw t i => 101 + 2 * (2 * i + t.toNat)

def A.beq (a b : A) : Bool := Nat.beq a.code b.code

def A.decode (n : Nat) : A :=
  if 100 ≤ n then
    (if n % 2 = 0 then .done ((n - 100) / 2)
     else .kw (decide (((n - 101) / 2) % 2 = 1)) (((n - 101) / 2) / 2))
  else match n with
    | 0 => .top | 1 => .jam | 2 => .start false | 3 => .start true | 4 => .ws false | 5 => .ws true
    | 6 => .name | 7 => .sign | 8 => .zero | 9 => .int | 10 => .intL | 11 => .intLL
    | 12 => .zx | 13 => .hex | 14 => .hexL | 15 => .hexLL
    | 16 => .frac | 17 => .fe | 18 => .fesign | 19 => .fexp
    | 20 => .sstart | 21 => .chunk | 22 => .bs | 23 => .bsx | 24 => .bsxh
    | _ => .top

theorem A.decode_code (a : A) : A.decode a.code = a := by
  cases a with
  | done r =>
    have h1 : 100 ≤ 100 + 2 * r := by omega
    have h2 : (100 + 2 * r) % 2 = 0 := by omega
    have h3 : (100 + 2 * r - 100) / 2 = r := by omega
    simp only [A.code, A.decode, h1, h2, h3, if_true]
  | kw t i =>
    cases t
    · have h1 : 100 ≤ 101 + 2 * (2 * i + 0) := by omega
      have h2 : ¬ (101 + 2 * (2 * i + 0)) % 2 = 0 := by omega
      have h3 : (101 + 2 * (2 * i + 0) - 101) / 2 / 2 = i := by omega
      have h4 : ¬ (101 + 2 * (2 * i + 0) - 101) / 2 % 2 = 1 := by omega
      simp only [A.code, A.decode, Bool.toNat, cond_false, h1, h2, h3, h4, if_true, if_false,
        decide_false]
    · have h1 : 100 ≤ 101 + 2 * (2 * i + 1) := by omega
      have h2 : ¬ (101 + 2 * (2 * i + 1)) % 2 = 0 := by omega
      have h3 : (101 + 2 * (2 * i + 1) - 101) / 2 / 2 = i := by omega
      have h4 : (101 + 2 * (2 * i + 1) - 101) / 2 % 2 = 1 := by omega
      simp only [A.code, A.decode, Bool.toNat, cond_true, h1, h2, h3, h4, if_true, if_false,
        decide_true]
  | start b => cases b <;> rfl
  | ws b => cases b <;> rfl
  | _ => rfl

theorem A.code_inj {a b : A} (h : a.code = b.code) : a = b := by
  rw [← A.decode_code a, ← A.decode_code b, h]

theorem A.beq_eq {a b : A} (h : A.beq a b = true) : a = b :=
  A.code_inj (Nat.eq_of_beq_eq_true h)

/-! ### the flex states and the abstract states they stand for -/

/-- found by an untrusted breadth-first search from the start states 1, 2 (INITIAL), 7, 8
(STRING) and the jam state 107 -/
def absTab : List A := [
  .top, .start false, .start true, .top, .top, .top, .top, .sstart, .sstart, .top, .top, .top, .top,
  .top, .ws false, .done 28, .done 8, .top, .done 44, .done 45, .name, .sign, .done 31, .top, .top,
  .zero, .int, .done 30, .done 46, .kw false 1, .kw true 1, .done 42, .done 43, .done 32, .done 33,
  .ws true, .top, .top, .top, .top, .top, .top, .chunk, .done 21, .bs, .top, .top, .top, .ws false,
  .name, .top, .int, .top, .top, .top, .top, .frac, .fe, .intL, .zx, .kw false 2, .kw true 2,
  .ws true, .top, .top, .top, .chunk, .done 18, .bsx, .done 17, .top, .top, .done 16, .done 12,
  .done 13, .done 14, .top, .top, .top, .top, .top, .top, .frac, .fe, .fesign, .fexp, .intLL, .hex,
  .kw false 3, .kw true 3, .top, .bsxh, .fesign, .fexp, .hexL, .kw false 4, .kw true 4, .top,
  .done 19, .hexLL, .kw false 5, .top, .top, .top, .top, .top, .top, .jam]

def absOf (q : Nat) : A := absTab.getD q .top

/-! ### the trusted checker -/

def A.isTop : A → Bool
  | .top => true
  | _ => false

def okByte (q : Nat) (a : A) (b : Nat) : Bool :=
  (astep a b).isTop || A.beq (absOf (step T q b)) (astep a b)

def okBytes (q : Nat) (a : A) : Nat → Bool
  | 0 => true
  | n + 1 => okByte q a n && okBytes q a n

def okState (q : Nat) : Bool :=
  if (absOf q).live then Nat.beq (T.accept.getN q) (aacc (absOf q)) && okBytes q (absOf q) 256
  else (absOf q).isTop || Nat.beq q T.jamState

def okStates : Nat → Bool
  | 0 => true
  | n + 1 => okState n && okStates n

theorem cert_ok : okStates 108 = true := by decide +kernel

end Libconfig.C01L
