import LibconfigModel.Proofs.C01IdemSciVal
/-
  C01F, part 8 (scientific notation) — the float side conditions of `LexOK` hold for every finite
  double also when `CONFIG_OPTION_ALLOW_SCIENTIFIC_NOTATION` is on (precision ≤ 70): `LexOK`
  reduces to `LexOKfin` for either notation.
-/
namespace Libconfig.C01I
open Libconfig F64 C01P C01L

/-- the float conditions of `LexOK`, scientific notation allowed -/
theorem floatOK_sci (c : Config) (b : Nat) (hfin : isFinite b = true)
    (hsci : c.opt OPT_SCIENTIFIC = true) (hp : c.floatPrecision ≤ 70) : floatOK 341 c b = true := by
  unfold floatOK
  rw [hsci, hfin, sci_no_overflow b _ hfin hp]
  simp only [Bool.true_and, Bool.not_false, Bool.and_true, decide_eq_true_eq]
  exact rawText_sci_fits b _ hfin (by omega)

/-- … for either notation (the fixed notation needs precision ≤ 26: `%.{p}f` of DBL_MAX has
311 + p characters) -/
theorem floatOK_any (c : Config) (b : Nat) (hfin : isFinite b = true)
    (hp : c.floatPrecision ≤ 26 ∨ (c.opt OPT_SCIENTIFIC = true ∧ c.floatPrecision ≤ 70)) :
    floatOK 341 c b = true := by
  cases hsci : c.opt OPT_SCIENTIFIC
  · rcases hp with h | h
    · exact floatOK_fixed c b hfin hsci h
    · rw [hsci] at h; cases h.1
  · exact floatOK_sci c b hfin hsci (by rcases hp with h | h <;> omega)

theorem scalarFin_ok' (c : Config) (H : ∀ b, isFinite b = true → floatOK 341 c b = true)
    (ty : Nat) (ival : Int) (fval : Nat) (sval : Option Bytes) (h : scalarFin ty ival fval sval = true) :
    scalarOK 341 c ty ival fval sval = true := by
  unfold scalarFin at h
  unfold scalarOK
  split
  · rfl
  · rename_i h1
    simp only [h1, Bool.false_eq_true, if_false] at h
    split
    · rename_i h2; simpa [h2] using h
    · rename_i h2
      simp only [h2, Bool.false_eq_true, if_false] at h
      split
      · rename_i h3; simpa [h3] using h
      · rename_i h3
        simp only [h3, Bool.false_eq_true, if_false] at h
        split
        · rename_i h4
          simp only [h4, if_true] at h
          exact H fval h
        · rename_i h4
          simpa [h4] using h

mutual
theorem nodeFin_ok' (c : Config) (H : ∀ b, isFinite b = true → floatOK 341 c b = true) :
    (n : Node) → nodeFin n = true → nodeOK 341 c n = true
  | .mk name ty fmt ival fval sval kids hook line file => by
    intro h
    unfold nodeFin at h
    unfold nodeOK
    simp only [Bool.and_eq_true] at h ⊢
    refine ⟨h.1, ?_⟩
    have h2 := h.2
    split
    · rename_i ht; simp only [ht, if_true] at h2; exact nodesFin_ok' c H kids h2
    · rename_i ht
      simp only [ht, Bool.false_eq_true, if_false] at h2
      split
      · rename_i ht2; simp only [ht2, if_true] at h2; exact nodesFin_ok' c H kids h2
      · rename_i ht2
        simp only [ht2, Bool.false_eq_true, if_false] at h2
        split
        · rename_i ht3; simp only [ht3, if_true] at h2; exact nodesFin_ok' c H kids h2
        · rename_i ht3
          simp only [ht3, Bool.false_eq_true, if_false] at h2
          exact scalarFin_ok' c H ty ival fval sval h2
theorem nodesFin_ok' (c : Config) (H : ∀ b, isFinite b = true → floatOK 341 c b = true) :
    (ks : List Node) → nodesFin ks = true → nodesOK 341 c ks = true
  | [] => fun _ => by simp [nodesOK]
  | k :: ks => by
    intro h
    unfold nodesFin at h
    unfold nodesOK
    simp only [Bool.and_eq_true] at h ⊢
    exact ⟨nodeFin_ok' c H k h.1, nodesFin_ok' c H ks h.2⟩
end

/-- `LexOK` from `LexOKfin`, either notation -/
theorem lexOK_of_fin_any (c : Config)
    (hp : c.floatPrecision ≤ 26 ∨ (c.opt OPT_SCIENTIFIC = true ∧ c.floatPrecision ≤ 70))
    (h : LexOKfin c = true) : LexOK 341 c = true :=
  nodeFin_ok' c (fun b hb => floatOK_any c b hb hp) c.root h

end Libconfig.C01I

