import LibconfigModel.Proofs.C01IdemLog
/-
  C01F, part 4 (scientific notation) — the digits / exponent pair of `%.{p}g` (`C01P.gDX`):
  `10^(p-1) ≤ d < 10^p`, the exponent is within the range of doubles, and `d·10^(x-p+1)` is the
  magnitude rounded (half-even) to the grid of spacing `10^(x0-p+1)`.
-/
namespace Libconfig.C01I
open Libconfig F64 C01P C01L
open Libconfig.F64R (dist sMag)

/-! ### the magnitude of a finite double as a ratio -/

/-- the ratio `fmtG` works with -/
def ratOf (b : Nat) : Nat × Nat :=
  if expo b ≥ 0 then (mant b * 2 ^ (expo b).toNat, 1) else (mant b, 2 ^ ((-expo b).toNat))

theorem bitLen_le_of_lt (n k : Nat) (h : n < 2 ^ k) : bitLen n ≤ k := by
  by_cases h0 : n = 0
  · subst h0; unfold bitLen; simp
  · have h1 := pow_pred_bitLen_le n (by omega)
    have h2 : 2 ^ (bitLen n - 1) < 2 ^ k := Nat.lt_of_le_of_lt h1 h
    have := (Nat.pow_lt_pow_iff_right (by decide : 1 < 2)).mp h2
    omega

theorem bitLen_pow (k : Nat) : bitLen (2 ^ k) = k + 1 := by
  have h1 := bitLen_le_of_lt (2 ^ k) (k + 1) (Nat.pow_lt_pow_right (by decide) (by omega))
  have h2 := C08P.lt_pow_bitLen (2 ^ k)
  have := (Nat.pow_lt_pow_iff_right (by decide : 1 < 2)).mp h2
  omega

/-- the facts about `ratOf` the analysis needs -/
theorem ratOf_spec (b : Nat) (hfin : isFinite b = true) (hm : mant b ≠ 0) :
    0 < (ratOf b).1 ∧ 0 < (ratOf b).2 ∧
    (ratOf b).1 * 2 ^ 1074 = sMag b * (ratOf b).2 ∧
    -1080 ≤ (bitLen (ratOf b).1 : Int) - (bitLen (ratOf b).2 : Int) ∧
    (bitLen (ratOf b).1 : Int) - (bitLen (ratOf b).2 : Int) < 1040 := by
  have he1 := expo_ge b
  have he2 := expo_le b hfin
  have hml := F64R.mant_lt b
  have hmp : 0 < mant b := by omega
  unfold ratOf sMag
  by_cases he : expo b ≥ 0
  · rw [if_pos he]
    simp only []
    have hE : (expo b + 1074).toNat = (expo b).toNat + 1074 := by omega
    have hnum : 0 < mant b * 2 ^ (expo b).toNat := Nat.mul_pos hmp (Nat.two_pow_pos _)
    have hbl : bitLen (mant b * 2 ^ (expo b).toNat) ≤ 53 + (expo b).toNat := by
      apply bitLen_le_of_lt
      rw [Nat.pow_add]
      exact Nat.mul_lt_mul_of_pos_right hml (Nat.two_pow_pos _)
    have hb1 := bitLen_pos _ hnum
    refine ⟨hnum, by decide, ?_, ?_, ?_⟩
    · rw [hE, Nat.pow_add, Nat.mul_one, Nat.mul_assoc]
    · rw [bitLen_one]; omega
    · rw [bitLen_one]; omega
  · rw [if_neg he]
    simp only []
    have hE : 1074 = (expo b + 1074).toNat + (-expo b).toNat := by omega
    have hbl : bitLen (mant b) ≤ 53 := bitLen_le_of_lt _ _ hml
    have hb1 := bitLen_pos _ hmp
    refine ⟨hmp, Nat.two_pow_pos _, ?_, ?_, ?_⟩
    · rw [Nat.mul_assoc, ← Nat.pow_add, ← hE]
    · rw [bitLen_pow]; omega
    · rw [bitLen_pow]; omega

/-! ### shifting a comparison of powers of ten -/

/-- `X·10^a ≤ Y`, for an integer exponent (cross-multiplied) -/
def LeP (X Y : Nat) (a : Int) : Prop := X * 10 ^ a.toNat ≤ Y * 10 ^ (-a).toNat
/-- `Y < X·10^a`, for an integer exponent (cross-multiplied) -/
def LtP (X Y : Nat) (a : Int) : Prop := Y * 10 ^ (-a).toNat < X * 10 ^ a.toNat

theorem pow_shift_id (a s : Int) (q : Nat) (h : a = s + q) :
    10 ^ a.toNat * 10 ^ (-s).toNat = 10 ^ q * 10 ^ s.toNat * 10 ^ (-a).toNat := by
  rw [← Nat.pow_add, ← Nat.pow_add, ← Nat.pow_add]; congr 1; omega

theorem LeP_shift (X Y : Nat) (a s : Int) (q : Nat) (h : a = s + q) (hl : LeP X Y a) :
    LeP (10 ^ q * X) Y s := by
  unfold LeP at *
  have hid := pow_shift_id a s q h
  have hpos : 0 < 10 ^ (-a).toNat := Nat.pow_pos (by omega)
  apply Nat.le_of_mul_le_mul_right _ hpos
  calc 10 ^ q * X * 10 ^ s.toNat * 10 ^ (-a).toNat
      = X * (10 ^ q * 10 ^ s.toNat * 10 ^ (-a).toNat) := by
        rw [Nat.mul_comm (10 ^ q) X, Nat.mul_assoc, Nat.mul_assoc, Nat.mul_assoc]
    _ = X * 10 ^ a.toNat * 10 ^ (-s).toNat := by rw [← hid, Nat.mul_assoc]
    _ ≤ Y * 10 ^ (-a).toNat * 10 ^ (-s).toNat := Nat.mul_le_mul_right _ hl
    _ = Y * 10 ^ (-s).toNat * 10 ^ (-a).toNat := Nat.mul_right_comm _ _ _

theorem LtP_shift (X Y : Nat) (a s : Int) (q : Nat) (h : a = s + q) (hl : LtP X Y a) :
    LtP (10 ^ q * X) Y s := by
  unfold LtP at *
  have hid := pow_shift_id a s q h
  have hpos : 0 < 10 ^ (-a).toNat := Nat.pow_pos (by omega)
  have hpos2 : 0 < 10 ^ (-s).toNat := Nat.pow_pos (by omega)
  apply Nat.lt_of_mul_lt_mul_right (a := 10 ^ (-a).toNat)
  calc Y * 10 ^ (-s).toNat * 10 ^ (-a).toNat
      = Y * 10 ^ (-a).toNat * 10 ^ (-s).toNat := Nat.mul_right_comm _ _ _
    _ < X * 10 ^ a.toNat * 10 ^ (-s).toNat := Nat.mul_lt_mul_of_pos_right hl hpos2
    _ = X * (10 ^ q * 10 ^ s.toNat * 10 ^ (-a).toNat) := by rw [← hid, Nat.mul_assoc]
    _ = 10 ^ q * X * 10 ^ s.toNat * 10 ^ (-a).toNat := by
        rw [Nat.mul_comm (10 ^ q) X, Nat.mul_assoc, Nat.mul_assoc, Nat.mul_assoc]

/-! ### `divRoundEven` and bounds -/

theorem dre_ge_of (n d c : Nat) (hd : 0 < d) (h : c * d ≤ n) : c ≤ divRoundEven n d := by
  have h1 : c ≤ n / d := (Nat.le_div_iff_mul_le hd).mpr h
  have h2 := C08P.divRoundEven_ge n d
  omega

theorem dre_le_of (n d c : Nat) (hd : 0 < d) (h : n < c * d) : divRoundEven n d ≤ c := by
  have h1 : n / d < c := (Nat.div_lt_iff_lt_mul hd).mpr h
  have h2 := C08P.divRoundEven_le n d
  omega

/-! ### the digits -/

/-- `round-half-even(num/den / 10^sh)` as `fmtG` computes it -/
def gD0 (num den : Nat) (sh : Int) : Nat :=
  if sh ≥ 0 then divRoundEven num (den * 10 ^ sh.toNat) else divRoundEven (num * 10 ^ ((-sh).toNat)) den

theorem gD0_eq (num den : Nat) (sh : Int) :
    gD0 num den sh = divRoundEven (num * 10 ^ (-sh).toNat) (den * 10 ^ sh.toNat) := by
  unfold gD0
  by_cases h : sh ≥ 0
  · rw [if_pos h, show (-sh).toNat = 0 by omega, Nat.pow_zero, Nat.mul_one]
  · rw [if_neg h, show sh.toNat = 0 by omega, Nat.pow_zero, Nat.mul_one]

theorem gDX_eq (b p : Nat) :
    gDX b p =
      (if gD0 (ratOf b).1 (ratOf b).2 (floorLog10 (ratOf b).1 (ratOf b).2 - (p : Int) + 1) ≥ 10 ^ p
       then (gD0 (ratOf b).1 (ratOf b).2 (floorLog10 (ratOf b).1 (ratOf b).2 - (p : Int) + 1) / 10,
             floorLog10 (ratOf b).1 (ratOf b).2 + 1)
       else (gD0 (ratOf b).1 (ratOf b).2 (floorLog10 (ratOf b).1 (ratOf b).2 - (p : Int) + 1),
             floorLog10 (ratOf b).1 (ratOf b).2)) := by
  unfold gDX ratOf gD0
  by_cases he : expo b ≥ 0
  · simp only [he, if_true]
  · simp only [he, if_false]

/-- `x0`, the decimal exponent of the magnitude itself -/
def gX0 (b : Nat) : Int := floorLog10 (ratOf b).1 (ratOf b).2

/-- the exponent of the leading digit and the digits, specified (`x0` is the decimal exponent of
the magnitude itself) -/
structure GSpec (num den p : Nat) (d : Nat) (x : Int) (x0 : Int) : Prop where
  lo : LeP den num x0
  hi : LtP den num (x0 + 1)
  x0lo : -330 ≤ x0
  x0hi : x0 ≤ 320
  xcase : x = x0 ∨ x = x0 + 1
  dlo : 10 ^ (p - 1) ≤ d
  dhi : d < 10 ^ p
  /-- the printed value `d·10^(x-p+1)` is the rounded quotient times `10^(x0-p+1)` -/
  val : d * 10 ^ (x - x0).toNat = gD0 num den (x0 - (p : Int) + 1)
  /-- the quotient `|b| / 10^(x0-p+1)` lies in `[10^(p-1), 10^p)`, and so its rounding in
  `[10^(p-1), 10^p]` -/
  slo : LeP (10 ^ (p - 1) * den) num (x0 - (p : Int) + 1)
  shi : LtP (10 ^ p * den) num (x0 - (p : Int) + 1)
  qlo : 10 ^ (p - 1) ≤ gD0 num den (x0 - (p : Int) + 1)
  qhi : gD0 num den (x0 - (p : Int) + 1) ≤ 10 ^ p
  /-- the carry case -/
  carry : x = x0 + 1 → gD0 num den (x0 - (p : Int) + 1) = 10 ^ p
  nocarry : x = x0 → gD0 num den (x0 - (p : Int) + 1) < 10 ^ p

theorem gDX_spec (b p : Nat) (hfin : isFinite b = true) (hm : mant b ≠ 0) (hp : 1 ≤ p) :
    GSpec (ratOf b).1 (ratOf b).2 p (gDX b p).1 (gDX b p).2 (gX0 b) := by
  unfold gX0
  obtain ⟨hn, hd, -, hB1, hB2⟩ := ratOf_spec b hfin hm
  obtain ⟨hlo, hhi, hx1, hx2⟩ := floorLog10_spec _ _ hn hd hB1 hB2
  rw [gDX_eq]
  generalize (ratOf b).1 = num at *
  generalize (ratOf b).2 = den at *
  have hx0lo : -330 ≤ floorLog10 num den := by
    have : -326 ≤ estB ((bitLen num : Int) - (bitLen den : Int)) := by unfold estB; omega
    omega
  have hx0hi : floorLog10 num den ≤ 320 := by
    have : estB ((bitLen num : Int) - (bitLen den : Int)) ≤ 313 := by unfold estB; omega
    omega
  generalize floorLog10 num den = x0 at *
  have hL : LeP (10 ^ (p - 1) * den) num (x0 - (p : Int) + 1) :=
    LeP_shift den num x0 _ (p - 1) (by omega) hlo
  have hU : LtP (10 ^ p * den) num (x0 - (p : Int) + 1) :=
    LtP_shift den num (x0 + 1) _ p (by omega) hhi
  have hdpos : 0 < den * 10 ^ (x0 - (p : Int) + 1).toNat := Nat.mul_pos hd (Nat.pow_pos (by omega))
  have hge : 10 ^ (p - 1) ≤ gD0 num den (x0 - (p : Int) + 1) := by
    rw [gD0_eq]
    apply dre_ge_of _ _ _ hdpos
    unfold LeP at hL
    rw [← Nat.mul_assoc]; exact hL
  have hle : gD0 num den (x0 - (p : Int) + 1) ≤ 10 ^ p := by
    rw [gD0_eq]
    apply dre_le_of _ _ _ hdpos
    unfold LtP at hU
    rw [← Nat.mul_assoc]; exact hU
  have hpp : 10 ^ p = 10 ^ (p - 1) * 10 := by
    rw [← Nat.pow_succ]; congr 1; omega
  by_cases hc : gD0 num den (x0 - (p : Int) + 1) ≥ 10 ^ p
  · rw [if_pos hc]
    have heq : gD0 num den (x0 - (p : Int) + 1) = 10 ^ p := by omega
    have hdiv : 10 ^ p / 10 = 10 ^ (p - 1) := by rw [hpp]; exact Nat.mul_div_cancel _ (by decide)
    have hpos : 0 < 10 ^ (p - 1) := Nat.pow_pos (by omega)
    exact { lo := hlo, hi := hhi, x0lo := hx0lo, x0hi := hx0hi, xcase := .inr rfl,
            dlo := by simp only [heq, hdiv]; omega,
            dhi := by simp only [heq, hdiv]; omega,
            val := by
              simp only [heq, hdiv]
              rw [show (x0 + 1 - x0).toNat = 1 by omega, Nat.pow_one, ← hpp],
            slo := hL, shi := hU, qlo := hge, qhi := hle, carry := fun _ => heq,
            nocarry := fun h => by omega }
  · rw [if_neg hc]
    exact { lo := hlo, hi := hhi, x0lo := hx0lo, x0hi := hx0hi, xcase := .inl rfl,
            dlo := hge, dhi := by omega,
            val := by simp only [Int.sub_self, Int.toNat_zero, Nat.pow_zero, Nat.mul_one],
            slo := hL, shi := hU, qlo := hge, qhi := hle, carry := fun h => by omega,
            nocarry := fun _ => by omega }

end Libconfig.C01I

