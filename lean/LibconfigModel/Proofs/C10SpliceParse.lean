import LibconfigModel.Proofs.C10SpliceSim
import LibconfigModel.Proofs.C05
import LibconfigModel.Proofs.C09
/-
  Helper lemmas for Properties/C10Splice.lean, parser side: two parser runs whose scanner
  states are related by `Rel` (run with includes / run over the spliced text) and whose parse
  contexts agree up to source positions stay so, as long as neither runs out of fuel.
  The erasure lemmas are those of Proofs/C20File.lean with lines erased as well as files.
-/
set_option linter.unusedSimpArgs false

set_option autoImplicit false

namespace Libconfig.C10S

open Libconfig Libconfig.C10 Libconfig.C05P Libconfig.C09P

/-! ### erasure of source positions (the `stripPos` of Properties/C10.lean, with the lemmas of
Proofs/C20File.lean adapted: lines are forgotten as well as files) -/

mutual
def eraseNode : Node → Node
  | .mk name ty fmt ival fval sval kids hook _ _ =>
    .mk name ty fmt ival fval sval (eraseList kids) hook 0 none
def eraseList : List Node → List Node
  | [] => []
  | k :: ks => eraseNode k :: eraseList ks
end

def eraseCfg (c : Config) : Config :=
  { c with root := eraseNode c.root, errFile := none, errLine := 0, filenames := [] }

theorem eraseList_eq_map : ∀ l : List Node, eraseList l = l.map eraseNode
  | [] => by rw [eraseList]; rfl
  | k :: ks => by rw [eraseList, eraseList_eq_map ks]; rfl

theorem eraseNode_eq (n : Node) :
    eraseNode n = { n with kids := n.kids.map eraseNode, line := 0, file := none } := by
  cases n; rw [eraseNode, eraseList_eq_map]

@[simp] theorem erase_name (n : Node) : (eraseNode n).name = n.name := by rw [eraseNode_eq]
@[simp] theorem erase_ty (n : Node) : (eraseNode n).ty = n.ty := by rw [eraseNode_eq]
@[simp] theorem erase_fmt (n : Node) : (eraseNode n).fmt = n.fmt := by rw [eraseNode_eq]
@[simp] theorem erase_ival (n : Node) : (eraseNode n).ival = n.ival := by rw [eraseNode_eq]
@[simp] theorem erase_fval (n : Node) : (eraseNode n).fval = n.fval := by rw [eraseNode_eq]
@[simp] theorem erase_sval (n : Node) : (eraseNode n).sval = n.sval := by rw [eraseNode_eq]
@[simp] theorem erase_hook (n : Node) : (eraseNode n).hook = n.hook := by rw [eraseNode_eq]
@[simp] theorem erase_line (n : Node) : (eraseNode n).line = 0 := by rw [eraseNode_eq]
@[simp] theorem erase_file (n : Node) : (eraseNode n).file = none := by rw [eraseNode_eq]
@[simp] theorem erase_kids (n : Node) : (eraseNode n).kids = n.kids.map eraseNode := by
  rw [eraseNode_eq]

/-- a node update that does not touch `kids`/`file` commutes with erasure -/
theorem erase_mk (name : Option Bytes) (ty fmt : Nat) (ival : Int) (fval : Nat) (sval : Option Bytes)
    (kids : List Node) (hook line : Nat) (file : Option Bytes) :
    eraseNode ⟨name, ty, fmt, ival, fval, sval, kids, hook, line, file⟩ =
      ⟨name, ty, fmt, ival, fval, sval, kids.map eraseNode, hook, 0, none⟩ := by
  rw [eraseNode, eraseList_eq_map]

theorem erase_isAggregate (n : Node) : (eraseNode n).isAggregate = n.isAggregate := by
  simp [Node.isAggregate]

theorem erase_fresh (name : Option Bytes) (ty : Nat) :
    eraseNode { name := name, ty := ty } = { name := name, ty := ty } := by
  rw [erase_mk]; rfl

/-! ### addressing -/

theorem get?_erase : ∀ (p : Path) (n : Node), (eraseNode n).get? p = (n.get? p).map eraseNode
  | [], n => by rw [Node.get?, Node.get?]; rfl
  | i :: p, n => by
    rw [Node.get?, Node.get?, erase_kids, List.getElem?_map]
    cases h : n.kids[i]? with
    | none => rfl
    | some k => exact get?_erase p k

theorem modify_erase {f g : Node → Node} (hfg : ∀ m, eraseNode (f m) = g (eraseNode m)) :
    ∀ (p : Path) (n : Node), eraseNode (n.modify f p) = (eraseNode n).modify g p
  | [], n => by rw [Node.modify, Node.modify]; exact hfg n
  | i :: p, n => by
    rw [Node.modify, Node.modify, erase_kids, List.getElem?_map]
    cases h : n.kids[i]? with
    | none => rfl
    | some k =>
      simp only [Option.map_some]
      rw [← modify_erase hfg p k]
      cases n
      simp only [erase_mk, List.map_set]

theorem listSearch_erase : ∀ (ks : List Node) (nm : Bytes) (i : Nat),
    listSearch (ks.map eraseNode) nm i = (listSearch ks nm i).map (fun r => (r.1, eraseNode r.2))
  | [], _, _ => by simp [listSearch]
  | k :: ks, nm, i => by
    simp only [List.map_cons, listSearch, erase_name]
    split
    · rfl
    · exact listSearch_erase ks nm (i + 1)

theorem getElem_erase (n : Node) (idx : Nat) :
    getElem (eraseNode n) idx = (getElem n idx).map eraseNode := by
  simp only [getElem, erase_isAggregate, erase_kids, List.getElem?_map]
  split <;> rfl

theorem getMember_erase (n : Node) (nm : Bytes) :
    getMember (eraseNode n) nm = (getMember n nm).map (fun r => (r.1, eraseNode r.2)) := by
  simp only [getMember, erase_ty, erase_kids, listSearch_erase]
  split <;> rfl


theorem lookupLoop_erase : ∀ (fuel : Nat) (cur : Node) (acc : Path) (path : Bytes),
    lookupLoop fuel (eraseNode cur) acc path = lookupLoop fuel cur acc path
  | 0, _, _, [] => by simp only [lookupLoop]
  | _+1, _, _, [] => by simp only [lookupLoop]
  | 0, _, _, _ :: _ => by simp only [lookupLoop]
  | fuel+1, cur, acc, c :: cs => by
    simp only [lookupLoop, getElem_erase, erase_ty, erase_kids, listSearch_erase]
    split
    · split
      · rfl
      · split
        · split
          · rfl
          · cases getElem cur _ with
            | none => rfl
            | some k => exact lookupLoop_erase fuel k _ _
        · rfl
    · split
      · cases listSearch cur.kids _ 0 with
        | none => rfl
        | some r => exact lookupLoop_erase fuel r.2 _ _
      · rfl

theorem lookupFrom_erase (n : Node) (path : Bytes) :
    lookupFrom (eraseNode n) path = lookupFrom n path := lookupLoop_erase _ _ _ _

/-! ### destructor log -/

mutual
theorem destroyLog_erase (d : Bool) : ∀ n : Node, destroyLog d (eraseNode n) = destroyLog d n
  | .mk _ _ _ _ _ _ kids hook _ _ => by
    rw [eraseNode, destroyLog, destroyLog, destroyLogList_erase d kids]
theorem destroyLogList_erase (d : Bool) :
    ∀ ks : List Node, destroyLogList d (eraseList ks) = destroyLogList d ks
  | [] => by rw [eraseList]
  | k :: ks => by
    rw [eraseList, destroyLogList, destroyLogList, destroyLog_erase d k, destroyLogList_erase d ks]
end


/-! ### structure: create / remove / add / setElem -/

theorem map_eraseIdx {α β} (f : α → β) : ∀ (l : List α) (i : Nat),
    (l.eraseIdx i).map f = (l.map f).eraseIdx i
  | [], _ => rfl
  | _ :: _, 0 => rfl
  | x :: xs, i+1 => by simp [map_eraseIdx f xs i]

/-- pairs (node, payload) are erased in the node component -/
def eraseFst {α} (r : Node × α) : Node × α := (eraseNode r.1, r.2)

theorem create_erase (parent : Node) (name : Option Bytes) (ty : Nat) :
    (eraseNode parent).create name ty = (parent.create name ty).map eraseNode := by
  simp only [Node.create, erase_isAggregate]
  split
  · rfl
  · cases parent
    simp only [Option.map_some, erase_mk, List.map_append, List.map_cons, List.map_nil]

theorem checkType_erase (n : Node) (ty : Nat) : checkType (eraseNode n) ty = checkType n ty := by
  simp only [checkType, erase_kids, erase_ty]
  cases n.kids with
  | nil => rfl
  | cons k ks => simp only [List.map_cons, erase_ty]

theorem remove_erase (d : Bool) (parent : Node) (name : Option Bytes) :
    (eraseNode parent).remove d name = (parent.remove d name).map eraseFst := by
  unfold Node.remove
  cases name with
  | none => rfl
  | some nm =>
    simp only [erase_ty, lookupFrom_erase, get?_erase]
    split
    · rfl
    cases lookupFrom parent nm with
    | none => rfl
    | some q =>
      simp only
      cases parent.get? q.dropLast with
      | none => rfl
      | some sp =>
        simp only [Option.map_some, erase_kids, listSearch_erase]
        cases listSearch sp.kids (lastComponent nm) 0 with
        | none => rfl
        | some r =>
          simp only [Option.map_some, eraseFst, destroyLog_erase]
          rw [modify_erase (g := fun s => { s with kids := s.kids.eraseIdx r.1 })]
          intro m
          cases m
          simp only [erase_mk, map_eraseIdx]


theorem add_tail (pl : Node × List Nat) (name : Option Bytes) (ty : Nat) :
    (match (eraseNode pl.1).create name ty with
      | none => none
      | some p'' => some (p'', p''.kids.length - 1, pl.2)) =
    Option.map eraseFst (match pl.1.create name ty with
      | none => none
      | some p'' => some (p'', p''.kids.length - 1, pl.2)) := by
  rw [create_erase]
  cases pl.1.create name ty with
  | none => rfl
  | some p'' => simp only [Option.map_some, eraseFst, erase_kids, List.length_map]

theorem add_erase (d ov : Bool) (parent : Node) (name : Option Bytes) (ty : Int) :
    (eraseNode parent).add d ov name ty = (parent.add d ov name ty).map eraseFst := by
  unfold Node.add
  simp only [erase_ty, checkType_erase, getMember_erase, Option.isSome_map, remove_erase]
  iterate 3 (split; · rfl)
  generalize (if (parent.ty == T_ARRAY || parent.ty == T_LIST) = true then none else name) = name0
  cases name0 with
  | none =>
    simp only [Bool.false_and, Bool.false_eq_true, if_false]
    split
    · rfl
    · exact add_tail (parent, []) none ty.toNat
  | some nm =>
    simp only
    split
    · rfl
    split
    · rfl
    by_cases hb : (getMember parent nm).isSome = true
    · simp only [hb, if_true]
      cases Node.remove d parent (some nm) with
      | none => exact add_tail (parent, []) (some nm) ty.toNat
      | some r => exact add_tail r (some nm) ty.toNat
    · simp only [hb]
      exact add_tail (parent, []) (some nm) ty.toNat


/-- a scalar setter that never looks at the source position -/
def Commutes (f : Node → Option Node) : Prop :=
  ∀ e, f (eraseNode e) = (f e).map eraseNode

theorem erase_setKid (n e : Node) (i : Nat) :
    eraseNode { n with kids := n.kids.set i e } =
      { eraseNode n with kids := (n.kids.map eraseNode).set i (eraseNode e) } := by
  cases n
  simp only [erase_mk, List.map_set]

theorem setElem_erase {setter : Node → Option Node} (hs : Commutes setter) (ty : Nat) (n : Node)
    (idx : Int) :
    (eraseNode n).setElem setter ty idx = (n.setElem setter ty idx).map eraseFst := by
  unfold Node.setElem
  simp only [erase_ty, checkType_erase, create_erase, getElem_erase]
  split
  · rfl
  split
  · split
    · rfl
    cases n.create none ty with
    | none => rfl
    | some n' =>
      simp only [Option.map_some, erase_kids, List.length_map, List.getElem?_map]
      cases n'.kids[n'.kids.length - 1]? with
      | none => rfl
      | some e =>
        simp only [Option.map_some, hs e]
        cases setter e with
        | none => rfl
        | some e' => simp only [Option.map_some, eraseFst, erase_setKid]
  · cases getElem n idx.toNat with
    | none => rfl
    | some e =>
      simp only [Option.map_some, hs e]
      cases setter e with
      | none => rfl
      | some e' => simp only [Option.map_some, eraseFst, erase_setKid, erase_kids, erase_ty]

theorem commutes_setInt (auto : Bool) (v : Int) : Commutes (fun n => n.setInt auto v) := by
  intro e
  cases e
  simp only [Node.setInt, erase_mk]
  repeat' split
  all_goals simp only [Option.map_some, Option.map_none, erase_mk]

theorem commutes_setInt64 (auto : Bool) (v : Int) : Commutes (fun n => n.setInt64 auto v) := by
  intro e
  cases e
  simp only [Node.setInt64, erase_mk]
  repeat' split
  all_goals simp only [Option.map_some, Option.map_none, erase_mk]

theorem commutes_setFloat (auto : Bool) (b : Nat) : Commutes (fun n => n.setFloat auto b) := by
  intro e
  cases e
  simp only [Node.setFloat, erase_mk]
  repeat' split
  all_goals simp only [Option.map_some, Option.map_none, erase_mk]

theorem commutes_setBool (v : Int) : Commutes (fun n => n.setBool v) := by
  intro e
  cases e
  simp only [Node.setBool, erase_mk]
  repeat' split
  all_goals simp only [Option.map_some, Option.map_none, erase_mk]

theorem commutes_setString (v : Option Bytes) : Commutes (fun n => n.setString v) := by
  intro e
  cases e
  simp only [Node.setString, erase_mk]
  repeat' split
  all_goals simp only [Option.map_some, Option.map_none, erase_mk]

theorem commutes_setFormat (f : Nat) : Commutes (fun n => n.setFormat f) := by
  intro e
  cases e
  simp only [Node.setFormat, erase_mk]
  repeat' split
  all_goals simp only [Option.map_some, Option.map_none, erase_mk]

theorem Commutes.getD {f : Node → Option Node} (hf : Commutes f) (n : Node) :
    eraseNode ((f n).getD n) = (f (eraseNode n)).getD (eraseNode n) := by
  rw [hf n]
  cases f n <;> rfl


/-! ### parse contexts -/

def eraseCtx (c : ParseCtx) : ParseCtx := { c with cfg := eraseCfg c.cfg }

def mapAct (f : ParseCtx → ParseCtx) : ActOut → ActOut
  | .ok c => .ok (f c)
  | .abort c => .abort (f c)
  | .crash c => .crash (f c)

@[simp] theorem eraseCtx_parent (c : ParseCtx) : (eraseCtx c).parent = c.parent := rfl
@[simp] theorem eraseCtx_setting (c : ParseCtx) : (eraseCtx c).setting = c.setting := rfl
@[simp] theorem eraseCtx_str (c : ParseCtx) : (eraseCtx c).str = c.str := rfl
@[simp] theorem eraseCtx_log (c : ParseCtx) : (eraseCtx c).log = c.log := rfl
@[simp] theorem eraseCtx_root (c : ParseCtx) : (eraseCtx c).cfg.root = eraseNode c.cfg.root := rfl
@[simp] theorem eraseCtx_destructor (c : ParseCtx) :
    (eraseCtx c).cfg.destructor = c.cfg.destructor := rfl
@[simp] theorem eraseCtx_opt (c : ParseCtx) (o : Nat) : (eraseCtx c).cfg.opt o = c.cfg.opt o := rfl
@[simp] theorem eraseCtx_errText (c : ParseCtx) : (eraseCtx c).cfg.errText = c.cfg.errText := rfl

theorem nodeAt_erase (c : ParseCtx) (p : Option Path) :
    (eraseCtx c).nodeAt p = (c.nodeAt p).map eraseNode := by
  cases p with
  | none => rfl
  | some q => exact get?_erase q c.cfg.root

theorem inTy_erase (c : ParseCtx) (ty : Nat) : (eraseCtx c).inTy ty = c.inTy ty := by
  simp only [ParseCtx.inTy, nodeAt_erase, eraseCtx_parent]
  cases c.nodeAt c.parent with
  | none => rfl
  | some n => simp only [Option.map_some, erase_ty]

theorem eraseCtx_modify {f g : Node → Node} (hfg : ∀ m, eraseNode (f m) = g (eraseNode m))
    (c : ParseCtx) (p : Path) : eraseCtx (c.modify p f) = (eraseCtx c).modify p g := by
  simp only [eraseCtx, ParseCtx.modify, eraseCfg, modify_erase hfg]

theorem eraseCtx_capture (c : ParseCtx) (p : Path) (line : Nat) (file : Option Bytes) :
    eraseCtx (c.capture p line file) = (eraseCtx c).capture p 0 none := by
  unfold ParseCtx.capture
  apply eraseCtx_modify
  intro m
  cases m
  simp only [erase_mk]

theorem eraseCtx_yyerror (c : ParseCtx) (line : Nat) (text : Bytes) :
    eraseCtx (c.yyerror line text) = (eraseCtx c).yyerror 0 text := by
  unfold ParseCtx.yyerror
  simp only [eraseCtx_errText]
  by_cases h : c.cfg.errText.isSome = true
  · simp only [h, if_true]
  · simp only [h, if_false]; rfl

theorem get?_isSome_erase (n : Node) (p : Path) :
    ((eraseNode n).get? p).isSome = (n.get? p).isSome := by
  rw [get?_erase, Option.isSome_map]

theorem eraseCtx_mk (cfg : Config) (par set : Option Path) (str : Option Bytes) (log : List Nat) :
    eraseCtx ⟨cfg, par, set, str, log⟩ = ⟨eraseCfg cfg, par, set, str, log⟩ := rfl

theorem eraseCfg_modify {f g : Node → Node} (hfg : ∀ m, eraseNode (f m) = g (eraseNode m))
    (c : ParseCtx) (p : Path) : eraseCfg (c.modify p f).cfg = ((eraseCtx c).modify p g).cfg :=
  congrArg ParseCtx.cfg (eraseCtx_modify hfg c p)

@[simp] theorem modify_parent (c : ParseCtx) (p : Path) (f : Node → Node) :
    (c.modify p f).parent = c.parent := rfl
@[simp] theorem modify_setting (c : ParseCtx) (p : Path) (f : Node → Node) :
    (c.modify p f).setting = c.setting := rfl
@[simp] theorem modify_str (c : ParseCtx) (p : Path) (f : Node → Node) :
    (c.modify p f).str = c.str := rfl
@[simp] theorem modify_log (c : ParseCtx) (p : Path) (f : Node → Node) :
    (c.modify p f).log = c.log := rfl

theorem erase_setTy (ty : Nat) (m : Node) :
    eraseNode { m with ty := ty } = { eraseNode m with ty := ty } := by
  cases m; simp only [erase_mk]

theorem actAggStart_erase (c : ParseCtx) (ty line : Nat) (file : Option Bytes) :
    actAggStart (eraseCtx c) ty 0 none = mapAct eraseCtx (actAggStart c ty line file) := by
  unfold actAggStart
  simp only [inTy_erase, eraseCtx_parent, nodeAt_erase, eraseCtx_setting, eraseCtx_root,
    get?_isSome_erase, eraseCtx_destructor, eraseCtx_opt, eraseCtx_log]
  split
  · cases hp : c.parent with
    | none => rfl
    | some pp =>
      cases hn : c.nodeAt (some pp) with
      | none => rfl
      | some pn =>
        simp only [Option.map_some, add_erase]
        cases pn.add c.cfg.destructor (c.cfg.opt OPT_ALLOW_OVERRIDES) none ty with
        | none => rfl
        | some r =>
          simp only [Option.map_some, eraseFst, mapAct, eraseCtx_capture, eraseCtx_mk,
            eraseCfg_modify (f := fun _ => r.1) (g := fun _ => eraseNode r.1) (fun _ => rfl),
            modify_parent, modify_setting, modify_str, modify_log, eraseCtx_setting, eraseCtx_str]
  · cases c.setting with
    | none => rfl
    | some sp =>
      simp only
      split
      · simp only [mapAct, eraseCtx_mk, eraseCfg_modify (f := fun n => { n with ty := ty }) (g := fun n => { n with ty := ty })
            (erase_setTy ty),
          modify_parent, modify_setting, modify_str, modify_log, eraseCtx_str, eraseCtx_log]
      · rfl


theorem actValue_erase (c : ParseCtx) {setter : Node → Option Node} (hs : Commutes setter) (ty : Nat)
    (fmt : Option Nat) (line : Nat) (file : Option Bytes) (err : Bytes) :
    actValue (eraseCtx c) setter ty fmt 0 none err =
      mapAct eraseCtx (actValue c setter ty fmt line file err) := by
  unfold actValue
  extract_lets setFmt
  have hsf : ∀ n, eraseNode (setFmt n) = setFmt (eraseNode n) := by
    intro n
    simp only [setFmt]
    split
    · exact (commutes_setFormat _).getD n
    · rfl
  clear_value setFmt
  simp only [inTy_erase, eraseCtx_parent, nodeAt_erase, eraseCtx_setting, eraseCtx_root,
    get?_isSome_erase]
  split
  · cases hp : c.parent with
    | none => rfl
    | some pp =>
      cases hn : c.nodeAt (some pp) with
      | none => rfl
      | some pn =>
        simp only [Option.map_some, setElem_erase hs]
        cases pn.setElem setter ty (-1) with
        | none => simp only [Option.map_none, mapAct, eraseCtx_yyerror]
        | some r =>
          simp only [Option.map_some, eraseFst, mapAct, eraseCtx_capture]
          rw [eraseCtx_modify hsf, eraseCtx_modify (g := fun _ => eraseNode r.1) (fun _ => rfl)]
  · cases c.setting with
    | none => rfl
    | some sp =>
      simp only
      split
      · simp only [mapAct]
        rw [eraseCtx_modify (g := fun n => setFmt ((setter n).getD n))]
        intro m
        rw [hsf, hs.getD]
      · rfl


theorem runAction_erase (act : ParseAct) (c : ParseCtx) (v : TokVal) (line : Nat)
    (file : Option Bytes) :
    runAction act (eraseCtx c) v 0 none = mapAct eraseCtx (runAction act c v line file) := by
  cases act <;> simp only [runAction, eraseCtx_opt, eraseCtx_str]
  case none => rfl
  case unknown => rfl
  case arrayStart => exact actAggStart_erase _ _ _ _
  case listStart => exact actAggStart_erase _ _ _ _
  case groupStart => exact actAggStart_erase _ _ _ _
  case valBool => exact actValue_erase _ (commutes_setBool _) _ _ _ _ _
  case valInt => exact actValue_erase _ (commutes_setInt _ _) _ _ _ _ _
  case valHex => exact actValue_erase _ (commutes_setInt _ _) _ _ _ _ _
  case valInt64 => exact actValue_erase _ (commutes_setInt64 _ _) _ _ _ _ _
  case valHex64 => exact actValue_erase _ (commutes_setInt64 _ _) _ _ _ _ _
  case valFloat => exact actValue_erase _ (commutes_setFloat _ _) _ _ _ _ _
  case stringFirst => rfl
  case stringNext => rfl
  case valString =>
    exact actValue_erase { c with str := none } (commutes_setString _) _ _ _ _ _
  case aggEnd =>
    simp only [eraseCtx_parent]
    cases c.parent with
    | none => rfl
    | some p => cases p <;> rfl
  case settingName =>
    simp only [eraseCtx_parent, nodeAt_erase, eraseCtx_destructor, eraseCtx_log]
    have habort : ∀ (par : Option Path),
        ActOut.abort ((⟨(eraseCtx c).cfg, par, none, c.str, c.log⟩ : ParseCtx).yyerror 0
          Generated.ERR_DUPLICATE_SETTING) =
        mapAct eraseCtx (ActOut.abort ((⟨c.cfg, par, none, c.str, c.log⟩ : ParseCtx).yyerror line
          Generated.ERR_DUPLICATE_SETTING)) := fun par =>
      congrArg ActOut.abort (eraseCtx_yyerror ⟨c.cfg, par, none, c.str, c.log⟩ _ _).symm
    cases hp : c.parent with
    | none => exact habort _
    | some pp =>
      cases hn : c.nodeAt (some pp) with
      | none => exact habort _
      | some pn =>
        simp only [Option.map_some, add_erase]
        cases pn.add c.cfg.destructor (c.cfg.opt OPT_ALLOW_OVERRIDES) (some v.sval) T_NONE with
        | none => exact habort _
        | some r =>
          simp only [Option.map_some, eraseFst, mapAct, eraseCtx_capture, eraseCtx_mk,
            eraseCfg_modify (f := fun _ => r.1) (g := fun _ => eraseNode r.1) (fun _ => rfl),
            modify_parent, modify_setting, modify_str, modify_log, eraseCtx_parent, eraseCtx_str]


/-- two contexts that agree once every source position is forgotten -/
def CtxSim (c₁ c₂ : ParseCtx) : Prop := eraseCtx c₁ = eraseCtx c₂

theorem runAction_sim (act : ParseAct) {c₁ c₂ : ParseCtx} (h : CtxSim c₁ c₂) (v : TokVal)
    (l₁ l₂ : Nat) (f₁ f₂ : Option Bytes) :
    mapAct eraseCtx (runAction act c₁ v l₁ f₁) = mapAct eraseCtx (runAction act c₂ v l₂ f₂) := by
  rw [← runAction_erase, ← runAction_erase, h]


/-! ### the parser loop -/

open Libconfig.C05P

theorem ctxSim_yyerror {c₁ c₂ : ParseCtx} (h : CtxSim c₁ c₂) (l₁ l₂ : Nat) (text : Bytes) :
    CtxSim (c₁.yyerror l₁ text) (c₂.yyerror l₂ text) := by
  unfold CtxSim at *
  rw [eraseCtx_yyerror, eraseCtx_yyerror, h]

section
variable (w : World) (ic : IncludeCfg)

/-- the environment runs the compiled scanner over `w` with the include function `ic` -/
def EnvOK (E : ParserEnv) : Prop := E.T = T ∧ E.sacts = acts ∧ E.w = w ∧ E.ic = ic

/-- outcomes that agree up to source positions -/
def POutSim (r₁ r₂ : POut) : Prop := CtxSim r₁.2.1 r₂.2.1 ∧ r₁.2.2 = r₂.2.2

def RecSim (rec : PRec) : Prop :=
  ∀ stack la s₁ s₂ c₁ c₂, Rel w ic s₁ s₂ → CtxSim c₁ c₂ →
    (rec stack la s₁ c₁).2.2 ≠ .outOfFuel →
    POutSim (rec stack la s₁ c₁) (rec stack la s₂ c₂)

theorem syntaxErrorK_sim {s₁ s₂ : ScanState} {c₁ c₂ : ParseCtx} (hc : CtxSim c₁ c₂) :
    POutSim (syntaxErrorK s₁ c₁) (syntaxErrorK s₂ c₂) :=
  ⟨ctxSim_yyerror hc _ _ _, rfl⟩

theorem reduceK_sim {E : ParserEnv} {rec : PRec} (hrec : RecSim w ic rec)
    (stack : List (Nat × TokVal)) (rule : Nat) (la : Lookahead) {s₁ s₂ : ScanState}
    {c₁ c₂ : ParseCtx} (hs : Rel w ic s₁ s₂) (hc : CtxSim c₁ c₂)
    (h1 : (reduceK E rec stack rule la s₁ c₁).2.2 ≠ .outOfFuel) :
    POutSim (reduceK E rec stack rule la s₁ c₁) (reduceK E rec stack rule la s₂ c₂) := by
  unfold reduceK at h1 ⊢
  simp only at h1 ⊢
  have ha := runAction_sim (E.acts.getD rule .unknown) hc (stack.headD (0, {})).2 s₁.buf.lineno
    s₂.buf.lineno s₁.currentFilename s₂.currentFilename
  generalize runAction (E.acts.getD rule .unknown) c₁ (stack.headD (0, {})).2 s₁.buf.lineno
    s₁.currentFilename = a₁ at ha h1 ⊢
  generalize runAction (E.acts.getD rule .unknown) c₂ (stack.headD (0, {})).2 s₂.buf.lineno
    s₂.currentFilename = a₂ at ha ⊢
  cases a₁ <;> cases a₂ <;> simp only [mapAct, ActOut.ok.injEq, ActOut.abort.injEq,
    ActOut.crash.injEq, reduceCtorEq] at ha
  · exact hrec _ _ _ _ _ _ hs ha h1
  · exact ⟨ha, rfl⟩
  · exact ⟨ha, rfl⟩

theorem dfltK_sim {E : ParserEnv} {rec : PRec} (hrec : RecSim w ic rec)
    (stack : List (Nat × TokVal)) (state : Nat) (la : Lookahead) {s₁ s₂ : ScanState}
    {c₁ c₂ : ParseCtx} (hs : Rel w ic s₁ s₂) (hc : CtxSim c₁ c₂)
    (h1 : (dfltK E rec stack state la s₁ c₁).2.2 ≠ .outOfFuel) :
    POutSim (dfltK E rec stack state la s₁ c₁) (dfltK E rec stack state la s₂ c₂) := by
  unfold dfltK at h1 ⊢
  simp only at h1 ⊢
  split
  · exact syntaxErrorK_sim hc
  · rename_i hr
    rw [if_neg hr] at h1
    exact reduceK_sim w ic hrec _ _ _ hs hc h1

/-- fetching the lookahead: unless the run with includes runs out of fuel in `yylex`, both
runs get the same token (or both end of input), no include error, and the scanner states stay
related -/
theorem fetchK_sim {E : ParserEnv} (hE : EnvOK w ic E) (la : Lookahead) {s₁ s₂ : ScanState}
    {c₁ c₂ : ParseCtx} (hs : Rel w ic s₁ s₂) (hc : CtxSim c₁ c₂)
    (h1 : (fetchK E la s₁ c₁).2.2.1 ≠ some .outOfFuel) :
    Rel w ic (fetchK E la s₁ c₁).1 (fetchK E la s₂ c₂).1 ∧
    (fetchK E la s₁ c₁).2.1 = (fetchK E la s₂ c₂).2.1 ∧
    (fetchK E la s₁ c₁).2.2.1 = none ∧ (fetchK E la s₂ c₂).2.2.1 = none ∧
    CtxSim (fetchK E la s₁ c₁).2.2.2 (fetchK E la s₂ c₂).2.2.2 := by
  obtain ⟨hT, hA, hW, hI⟩ := hE
  unfold fetchK at h1 ⊢
  cases la with
  | some l => exact ⟨hs, rfl, rfl, rfl, hc⟩
  | none =>
    simp only at h1 ⊢
    rw [hT, hA, hW, hI] at h1 ⊢
    have hl := yylex_sim' w ic E.lexFuel E.lexFuel s₁ s₂ hs
    generalize yylex T acts w ic E.lexFuel s₁ = r₁ at hl h1 ⊢
    generalize yylex T acts w ic E.lexFuel s₂ = r₂ at hl ⊢
    obtain ⟨s₁', o₁⟩ := r₁
    obtain ⟨s₂', o₂⟩ := r₂
    have hn1 : o₁ ≠ .outOfFuel := by rintro rfl; exact h1 rfl
    obtain ⟨hs', ho⟩ := hl hn1 (.inl (Nat.le_refl _))
    simp only at hs' ho
    rcases ho with ⟨rfl, rfl⟩ | ⟨t, v, rfl, rfl⟩
    · exact ⟨hs', rfl, rfl, rfl, hc⟩
    · exact ⟨hs', rfl, rfl, rfl, hc⟩

theorem bodyK_sim {E : ParserEnv} (hE : EnvOK w ic E) {rec : PRec} (hrec : RecSim w ic rec)
    (stack : List (Nat × TokVal)) (la : Lookahead) {s₁ s₂ : ScanState} {c₁ c₂ : ParseCtx}
    (hs : Rel w ic s₁ s₂) (hc : CtxSim c₁ c₂)
    (h1 : (bodyK E rec stack la s₁ c₁).2.2 ≠ .outOfFuel) :
    POutSim (bodyK E rec stack la s₁ c₁) (bodyK E rec stack la s₂ c₂) := by
  unfold bodyK at h1 ⊢
  simp only at h1 ⊢
  split
  · exact ⟨hc, rfl⟩
  split
  · exact ⟨ctxSim_yyerror hc _ _ _, rfl⟩
  split
  · exact ⟨hc, rfl⟩
  split
  · rename_i hd1 hd2 hd3
    simp only [hd1, hd2, hd3, ↓reduceIte] at h1
    exact dfltK_sim w ic hrec _ _ _ hs hc h1
  rename_i hd1 hd2 hd3
  simp only [hd1, hd2, hd3, ↓reduceIte] at h1
  have hf := fetchK_sim w ic hE la hs hc
  generalize fetchK E la s₁ c₁ = r₁ at hf h1 ⊢
  generalize fetchK E la s₂ c₂ = r₂ at hf ⊢
  obtain ⟨s₁', l₁, p₁, c₁'⟩ := r₁
  obtain ⟨s₂', l₂, p₂, c₂'⟩ := r₂
  simp only at hf h1 ⊢
  have hp1 : p₁ ≠ some .outOfFuel := by rintro rfl; exact h1 rfl
  obtain ⟨hs', rfl, rfl, rfl, hc'⟩ := hf hp1
  cases l₁ with
  | none => exact ⟨hc', rfl⟩
  | some tv =>
    obtain ⟨t, v⟩ := tv
    simp only at h1 ⊢
    split
    · rename_i hi
      simp only [hi, ↓reduceIte] at h1
      exact dfltK_sim w ic hrec _ _ _ hs' hc' h1
    rename_i hi
    simp only [hi, ↓reduceIte] at h1
    split
    · rename_i ha
      simp only [ha, ↓reduceIte] at h1
      split
      · exact syntaxErrorK_sim hc'
      · rename_i hn
        simp only [hn, ↓reduceIte] at h1
        exact reduceK_sim w ic hrec _ _ _ hs' hc' h1
    · rename_i ha
      simp only [ha, ↓reduceIte] at h1
      exact hrec _ _ _ _ _ _ hs' hc' h1

theorem yyparseLoop_sim {E : ParserEnv} (hE : EnvOK w ic E) :
    ∀ fuel, RecSim w ic (yyparseLoop E fuel) := by
  intro fuel
  induction fuel with
  | zero =>
    intro stack la s₁ s₂ c₁ c₂ _ _ h1
    exact (h1 (by rw [yyparseLoop])).elim
  | succ fuel ih =>
    intro stack la s₁ s₂ c₁ c₂ hs hc h1
    rw [yyparseLoop_succ] at h1 ⊢
    exact bodyK_sim w ic hE ih _ _ hs hc h1

/-! ### `readCore` and `read` -/

open Libconfig.C09P

theorem erase_setFile (n : Node) (f : Option Bytes) :
    eraseNode { n with file := f } = eraseNode n := by
  cases n; simp only [erase_mk]

theorem start_sim (c : Config) (f₁ f₂ : Option Bytes) :
    CtxSim { cfg := start c f₁ } { cfg := start c f₂ } := by
  simp only [CtxSim, eraseCtx, start, eraseCfg, erase_setFile]

/-- the two runs start related -/
theorem rel_init {content : Bytes} (top : Option Bytes) (h : TreeOK w ic 10 content) :
    Rel w ic (scan0 top content) (scan0 none (splice w ic 11 content)) := by
  refine ⟨10, ⟨.inl rfl, rfl, fun _ => rfl, h, fun _ => rfl, trivial, trivial, rfl⟩,
    rfl, rfl, rfl, ?_, fun _ => rfl⟩
  show splice w ic 11 content = splice w ic 11 content ++ []
  rw [List.append_nil]

theorem parse_sim (c : Config) (top content : Bytes) (fuel : Nat)
    (hic : ic = { fn := c.includeFn, dir := c.includeDir }) (h : TreeOK w ic 10 content)
    (h1 : (parseOf w (start c (some top)) (some top) content fuel).2.2 ≠ .outOfFuel) :
    POutSim (parseOf w (start c (some top)) (some top) content fuel)
      (parseOf w (start c none) none (splice w ic 11 content) fuel) := by
  have hE : theEnv w (start c (some top)) fuel = theEnv w (start c none) fuel := rfl
  have hEnv : EnvOK w ic (theEnv w (start c none) fuel) := ⟨rfl, rfl, rfl, by rw [hic]; rfl⟩
  unfold parseOf yyparse at h1 ⊢
  rw [hE] at h1 ⊢
  exact yyparseLoop_sim w ic hEnv fuel _ _ _ _ _ _ (rel_init w ic (some top) h)
    (start_sim c (some top) none) h1

end

theorem finish_root (p : POut) : (finish p).root = p.2.1.cfg.root := by
  unfold finish
  simp only
  split <;> rfl

/-- **Reading the top file = reading the spliced text**, up to source positions, whenever
the read of the top file does not run out of fuel (the read of the spliced text, with the same
fuel, then does not either). -/
theorem splice_read (w : World) (c : Config) (top content : Bytes) (fuel : Nat)
    (hopen : w.open? top = some content)
    (htree : TreeOK w { fn := c.includeFn, dir := c.includeDir } 10 content)
    (h1 : (read w c (.file top) fuel).result ≠ .outOfFuel) :
    (read w c (.file top) fuel).ok =
      (read w c (.string (splice w { fn := c.includeFn, dir := c.includeDir } 11 content)) fuel).ok ∧
    (read w c (.file top) fuel).result =
      (read w c (.string (splice w { fn := c.includeFn, dir := c.includeDir } 11 content)) fuel).result ∧
    eraseNode (read w c (.file top) fuel).cfg.root =
      eraseNode (read w c (.string (splice w { fn := c.includeFn, dir := c.includeDir } 11 content))
        fuel).cfg.root := by
  have hbt := splice_bytes w { fn := c.includeFn, dir := c.includeDir } 10 content htree
  have hcs := cstr_of_byteText hbt
  simp only [read, hopen, hcs] at h1 ⊢
  rw [readCore_result] at h1
  have hp := parse_sim w { fn := c.includeFn, dir := c.includeDir } c top content fuel rfl htree h1
  refine ⟨?_, ?_, ?_⟩
  · rw [readCore_ok, readCore_ok, hp.2]
  · rw [readCore_result, readCore_result, hp.2]
  · rw [readCore_cfg, readCore_cfg, finish_root, finish_root]
    exact congrArg (fun x : ParseCtx => x.cfg.root) hp.1

theorem eraseCfg_finish (p : POut) :
    eraseCfg (finish p) =
      if p.2.2 != .accept then { (eraseCtx p.2.1).cfg with errType := ERR_PARSE }
      else (eraseCtx p.2.1).cfg := by
  unfold finish
  simp only
  split <;> rfl

theorem readCore_dtorLog (w : World) (c : Config) (filename : Option Bytes) (inp : Bytes) (fuel : Nat) :
    (readCore w c filename inp fuel).dtorLog =
      ((c.setError ERR_NONE none).clear).2 ++ (parseOf w (start c filename) filename inp fuel).2.1.log :=
  rfl

/-- … and the two reads leave the same configuration up to source positions (settings' lines
and files, error line and file, the list of file names): in particular the same error text
and type; and they make the same destructor calls. -/
theorem splice_read_cfg (w : World) (c : Config) (top content : Bytes) (fuel : Nat)
    (hopen : w.open? top = some content)
    (htree : TreeOK w { fn := c.includeFn, dir := c.includeDir } 10 content)
    (h1 : (read w c (.file top) fuel).result ≠ .outOfFuel) :
    eraseCfg (read w c (.file top) fuel).cfg =
      eraseCfg (read w c (.string (splice w { fn := c.includeFn, dir := c.includeDir } 11 content))
        fuel).cfg ∧
    (read w c (.file top) fuel).dtorLog =
      (read w c (.string (splice w { fn := c.includeFn, dir := c.includeDir } 11 content)) fuel).dtorLog := by
  have hbt := splice_bytes w { fn := c.includeFn, dir := c.includeDir } 10 content htree
  have hcs := cstr_of_byteText hbt
  simp only [read, hopen, hcs] at h1 ⊢
  rw [readCore_result] at h1
  have hp := parse_sim w { fn := c.includeFn, dir := c.includeDir } c top content fuel rfl htree h1
  refine ⟨?_, ?_⟩
  · rw [readCore_cfg, readCore_cfg, eraseCfg_finish, eraseCfg_finish, hp.1, hp.2]
  · rw [readCore_dtorLog, readCore_dtorLog]
    have := congrArg ParseCtx.log hp.1
    simp only [eraseCtx_log] at this
    rw [this]

end Libconfig.C10S
