import LibconfigModel.Proofs.C01LexYy
/-
  C01L, part 7 — the text `libconfig_format_double` produces for a finite double (when the
  `snprintf` buffer does not cut it) is a float literal: optional `-`, digits, then a point
  with digits and/or an exponent `e±digits`.
-/
namespace Libconfig.C01L
open F64 C01P

/-- `printf` output for a finite double: like `FloatLit`, but the point / exponent may both
be missing -/
def RawLit (s : Bytes) : Prop :=
  ∃ neg ip fp ex, s = signBytes neg ++ ip ++ fp ++ ex ∧ ip ≠ [] ∧ AllDigits ip ∧ FracP fp ∧ ExpP ex

theorem allDigits_append {a b : Bytes} (ha : AllDigits a) (hb : AllDigits b) : AllDigits (a ++ b) := by
  intro c hc
  rcases List.mem_append.mp hc with h | h
  · exact ha c h
  · exact hb c h

theorem allDigits_pad0 (n : Nat) {ds : Bytes} (h : AllDigits ds) : AllDigits (pad0 n ds) := by
  unfold pad0
  refine allDigits_append ?_ h
  intro c hc
  rw [List.mem_replicate] at hc
  rw [hc.2]; decide

theorem allDigits_take {ds : Bytes} (n : Nat) (h : AllDigits ds) : AllDigits (ds.take n) :=
  fun c hc => h c (List.mem_of_mem_take hc)

theorem allDigits_drop {ds : Bytes} (n : Nat) (h : AllDigits ds) : AllDigits (ds.drop n) :=
  fun c hc => h c (List.mem_of_mem_drop hc)

theorem allDigits_strip {ds : Bytes} (h : AllDigits ds) : AllDigits (stripZeros ds) :=
  fun c hc => h c (mem_stripZeros hc)

theorem allDigits_dec (n : Nat) : AllDigits (natToDec n) := natToDec_digits n

theorem pad0_length (n : Nat) (ds : Bytes) : n ≤ (pad0 n ds).length := by
  unfold pad0
  simp only [List.length_append, List.length_replicate]
  omega

theorem take_ne_nil {ds : Bytes} {k : Nat} (hk : 0 < k) (hd : ds ≠ []) : ds.take k ≠ [] := by
  cases ds with
  | nil => exact absurd rfl hd
  | cons d t =>
    obtain ⟨k', rfl⟩ : ∃ k', k = k' + 1 := ⟨k - 1, by omega⟩
    simp

theorem sign_eq (b : Bool) : (if b = true then [45] else ([] : Bytes)) = signBytes b := rfl

/-- the optional fraction `if fp.isEmpty then [] else 46 :: fp` -/
theorem fracP_opt {fp : Bytes} (h : AllDigits fp) : FracP (if fp.isEmpty then [] else 46 :: fp) := by
  split
  · exact .inl rfl
  · exact .inr ⟨fp, rfl, h⟩

theorem RawLit.mk3 {neg : Bool} {ip fp ex : Bytes} (hne : ip ≠ []) (hip : AllDigits ip) (hfp : FracP fp)
    (hex : ExpP ex) : RawLit (signBytes neg ++ ip ++ fp ++ ex) :=
  ⟨neg, ip, fp, ex, rfl, hne, hip, hfp, hex⟩

theorem RawLit.mk2 {neg : Bool} {ip fp : Bytes} (hne : ip ≠ []) (hip : AllDigits ip) (hfp : FracP fp) :
    RawLit (signBytes neg ++ ip ++ fp) :=
  ⟨neg, ip, fp, [], by rw [List.append_nil], hne, hip, hfp, .inl rfl⟩

theorem fmtF_raw (b p : Nat) (hb : isFinite b = true) : RawLit (fmtF b p) := by
  unfold fmtF
  simp only [hb, Bool.not_true, Bool.false_eq_true, if_false, sign_eq]
  have hds : AllDigits (pad0 (p + 1) (natToDec (scaledRound b p))) := allDigits_pad0 _ (allDigits_dec _)
  have hlen := pad0_length (p + 1) (natToDec (scaledRound b p))
  generalize pad0 (p + 1) (natToDec (scaledRound b p)) = D at hds hlen ⊢
  apply RawLit.mk2
  · apply take_ne_nil (by omega)
    intro e; rw [e] at hlen; simp at hlen
  · exact allDigits_take _ hds
  · split
    · exact .inl rfl
    · exact .inr ⟨_, rfl, allDigits_drop _ hds⟩

theorem gTail_raw (neg : Bool) (p d : Nat) (x : Int) (hp : 0 < p) : RawLit (gTail (signBytes neg) p d x) := by
  unfold gTail
  split
  · -- exponent style
    simp only []
    have hds : AllDigits (pad0 p (natToDec d)) := allDigits_pad0 _ (allDigits_dec _)
    have hlen := pad0_length p (natToDec d)
    generalize pad0 p (natToDec d) = D at hds hlen ⊢
    rw [List.append_assoc (signBytes neg ++ D.take 1 ++ _)]
    apply RawLit.mk3
    · apply take_ne_nil (by omega)
      intro e; rw [e] at hlen; simp at hlen; omega
    · exact allDigits_take _ hds
    · exact fracP_opt (allDigits_strip (allDigits_drop _ hds))
    · refine .inr ⟨(if x < 0 then 45 else 43), _, rfl, by split <;> simp, ?_, ?_⟩
      · split
        · simp
        · exact natToDec_ne_nil _
      · split
        · intro c hc
          rcases List.mem_cons.mp hc with rfl | hc
          · decide
          · exact allDigits_dec _ c hc
        · exact allDigits_dec _
  · -- fixed style
    simp only []
    have hds : AllDigits (pad0 (((p : Int) - 1 - x).toNat + 1) (natToDec d)) :=
      allDigits_pad0 _ (allDigits_dec _)
    have hlen := pad0_length (((p : Int) - 1 - x).toNat + 1) (natToDec d)
    generalize pad0 (((p : Int) - 1 - x).toNat + 1) (natToDec d) = D at hds hlen ⊢
    apply RawLit.mk2
    · apply take_ne_nil (by omega)
      intro e; rw [e] at hlen; simp at hlen
    · exact allDigits_take _ hds
    · exact fracP_opt (allDigits_strip (allDigits_drop _ hds))

theorem fmtG_raw (b p : Nat) (hb : isFinite b = true) : RawLit (fmtG b p) := by
  rw [fmtG_eq]
  simp only [hb, Bool.not_true, Bool.false_eq_true, if_false]
  split
  · exact ⟨signBit b, [48], [], [], by simp [sign_eq], by simp, by intro c hc; simp at hc; subst hc; decide,
      .inl rfl, .inl rfl⟩
  · rw [sign_eq]
    exact gTail_raw _ _ _ _ (by split <;> omega)

theorem rawText_raw (bufLen b p : Nat) (sci : Bool) (hb : isFinite b = true) :
    RawLit (rawText bufLen b p sci) := by
  unfold rawText
  cases sci
  · simp only [Bool.false_and, Bool.false_eq_true, if_false]
    exact fmtF_raw _ _ hb
  · simp only [if_true]
    split
    · exact fmtG_raw _ _ hb
    · exact fmtG_raw _ _ hb

/-! ### the post-processing -/

theorem not_mem_digits {ds : Bytes} (h : AllDigits ds) {c : Nat} (hc : isDigit c = false) : c ∉ ds := by
  intro hm; rw [h c hm] at hc; cases hc

theorem not_mem_sign (neg : Bool) {c : Nat} (hc : c ≠ 45) : c ∉ signBytes neg := by
  cases neg <;> simp [signBytes, hc]

theorem takeWhile_split (p : Nat → Bool) : ∀ (pre : Bytes) (x : Nat) (tl : Bytes),
    (∀ b ∈ pre, p b = true) → p x = false →
    (pre ++ x :: tl).takeWhile p = pre ∧ (pre ++ x :: tl).dropWhile p = x :: tl := by
  intro pre
  induction pre with
  | nil => intro x tl _ hx; simp [hx]
  | cons b pre ih =>
    intro x tl h hx
    have hb := h b (List.mem_cons_self ..)
    have := ih x tl (fun c hc => h c (List.mem_cons_of_mem _ hc)) hx
    simp [hb, this.1, this.2]

theorem postProc_lit (s : Bytes) (h : RawLit s) : FloatLit (postProc s) := by
  obtain ⟨neg, ip, fp, ex, rfl, hne, hip, hfp, hex⟩ := h
  have h101sg : (101 : Nat) ∉ signBytes neg := not_mem_sign neg (by decide)
  have h101ip : (101 : Nat) ∉ ip := not_mem_digits hip (by decide)
  have h46sg : (46 : Nat) ∉ signBytes neg := not_mem_sign neg (by decide)
  have h46ip : (46 : Nat) ∉ ip := not_mem_digits hip (by decide)
  have h101fp : (101 : Nat) ∉ fp := by
    rcases hfp with rfl | ⟨ds, rfl, hds⟩
    · simp
    · intro hm
      rcases List.mem_cons.mp hm with h | h
      · cases h
      · exact not_mem_digits hds (by decide) h
  unfold postProc
  rcases hex with rfl | ⟨sg, ds, rfl, hsg, hdne, hds⟩
  · -- no exponent
    have hno : (signBytes neg ++ ip ++ fp ++ []).contains 101 = false := by
      rw [List.append_nil]
      apply Bool.eq_false_iff.mpr
      intro hc
      rw [List.contains_iff_mem] at hc
      simp only [List.mem_append] at hc
      rcases hc with (h | h) | h
      · exact h101sg h
      · exact h101ip h
      · exact h101fp h
    rw [hno]
    simp only [Bool.false_eq_true, if_false]
    rcases hfp with rfl | ⟨fd, rfl, hfd⟩
    · -- no point either: `.0` is appended
      have hno46 : (signBytes neg ++ ip ++ [] ++ []).contains 46 = false := by
        simp only [List.append_nil]
        apply Bool.eq_false_iff.mpr
        intro hc
        rw [List.contains_iff_mem] at hc
        simp only [List.mem_append] at hc
        rcases hc with h | h
        · exact h46sg h
        · exact h46ip h
      rw [hno46]
      simp only [Bool.not_false, if_true]
      refine ⟨neg, ip, [46, 48], [], by simp, hne, hip, .inr ⟨[48], rfl, ?_⟩, .inl rfl, .inl (by simp)⟩
      intro c hc; simp at hc; subst hc; decide
    · -- a point: trailing zeros are stripped
      have hyes : (signBytes neg ++ ip ++ 46 :: fd ++ []).contains 46 = true := by
        rw [List.contains_iff_mem]; simp
      rw [hyes]
      simp only [Bool.not_true, Bool.false_eq_true, if_false]
      have hpre : ∀ b ∈ signBytes neg ++ ip, (b != 46) = true := by
        intro b hb
        rcases List.mem_append.mp hb with h | h
        · simp only [bne_iff_ne, ne_eq]; intro e; subst e; exact h46sg h
        · simp only [bne_iff_ne, ne_eq]; intro e; subst e; exact h46ip h
      have hsp := takeWhile_split (· != 46) (signBytes neg ++ ip) 46 fd hpre (by simp)
      have e : signBytes neg ++ ip ++ 46 :: fd ++ [] = (signBytes neg ++ ip) ++ 46 :: fd := by simp
      rw [e, hsp.1, hsp.2]
      simp only [List.drop_succ_cons, List.drop_zero]
      cases fd with
      | nil =>
        exact ⟨neg, ip, [46], [], by simp, hne, hip, .inr ⟨[], rfl, by intro c hc; cases hc⟩, .inl rfl,
          .inl (by simp)⟩
      | cons d ds =>
        refine ⟨neg, ip, 46 :: d :: stripZeros ds, [], by simp, hne, hip, .inr ⟨_, rfl, ?_⟩, .inl rfl,
          .inl (by simp)⟩
        intro c hc
        rcases List.mem_cons.mp hc with rfl | hc
        · exact hfd _ (List.mem_cons_self ..)
        · exact hfd c (List.mem_cons_of_mem _ (mem_stripZeros hc))
  · -- an exponent: the text is kept
    have hyes : (signBytes neg ++ ip ++ fp ++ 101 :: sg :: ds).contains 101 = true := by
      rw [List.contains_iff_mem]; simp
    rw [hyes]
    simp only [if_true]
    exact ⟨neg, ip, fp, _, rfl, hne, hip, hfp, .inr ⟨sg, ds, rfl, hsg, hdne, hds⟩, .inr (by simp)⟩

/-- **shape of the writer's float text**: for a finite double whose `printf` rendering fits
the `snprintf` limit, `libconfig_format_double` produces a float literal -/
theorem formatDouble_lit (bufLen b p : Nat) (sci : Bool) (hb : isFinite b = true)
    (hfull : (rawText bufLen b p sci).length ≤ bufLen - 4) :
    FloatLit (formatDouble bufLen b p sci) := by
  rw [formatDouble_eq, List.take_of_length_le hfull]
  exact postProc_lit _ (rawText_raw bufLen b p sci hb)

end Libconfig.C01L
