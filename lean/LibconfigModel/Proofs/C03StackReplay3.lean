import LibconfigModel.Proofs.C03StackSim
import LibconfigModel.Proofs.C03StackReplay
/-
  C03S, part 9: the parser of `Parser.lean` on real bytes, driving the memory model at the
  constants of grammar.c through the first extension of the stacks (kernel-evaluated).

  The text is `a=` followed by 100 opening parentheses.  Every `(` costs two stack entries (the
  token and the mid-rule nonterminal `$@3`) on top of the four of `NAME $@1 =` and the bottom:
  after 198 iterations of the loop the stack has 199 entries, after 199 iterations 200 — the
  `$@3` of the 98th parenthesis — and that push fills `yyssa[199]`: the stacks move to a heap
  block of 400 slots.
-/
namespace Libconfig.C03SP

open Libconfig Libconfig.BisonStack Libconfig.C03P

/-- `a=((((…`, `n` parentheses -/
def deepText (n : Nat) : Bytes := [97, 61] ++ List.replicate n 40

def deepEnv : ParserEnv := theEnv {} Config.init 1000

def deepStart (n : Nat) : PState :=
  initial { buf := { rest := deepText n } } { cfg := Config.init }

/-- what the replays show of a run: the number of entries of the parser's list, the states of
its four newest entries, whether the idealised machine fed with the pushes arrives at that list,
and the integers of the memory model fed with the same pushes -/
def deepView (r : List (Push TokVal) × PState) : Nat × List Nat × Bool × Ctl :=
  (r.2.stack.length, (r.2.stack.map (·.1)).take 4,
   decide (ideal 10000 r.1 [(0, {})] = .stack r.2.stack),
   Ctl.run parserParams (r.1.map Push.toEvent) (Ctl.init parserParams true))

set_option maxRecDepth 100000 in
/-- 198 iterations: 199 entries, still in the automatic arrays -/
theorem deep_replay_198 : (pushesRun deepEnv 198 (deepStart 100)).map deepView =
    some (199, [17, 26, 17, 26], true,
      { loc := .auto, stacksize := 200, capS := 200, capV := 200, ssp := 198, vsp := 198,
        status := .running, nextId := 0, sizes := [] }) := by decide +kernel

set_option maxRecDepth 100000 in
/-- the 199th iteration (the reduction of the empty rule `$@3` behind the 98th parenthesis)
pushes the 200th entry: 200 → 400 -/
theorem deep_replay_199 : (pushesRun deepEnv 199 (deepStart 100)).map deepView =
    some (200, [26, 17, 26, 17], true,
      { loc := .heap 0, stacksize := 400, capS := 400, capV := 400, ssp := 199, vsp := 199,
        status := .running, nextId := 1, sizes := [400] }) := by decide +kernel

end Libconfig.C03SP
