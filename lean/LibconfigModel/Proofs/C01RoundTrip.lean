import LibconfigModel.Properties.C01Lex
import LibconfigModel.Properties.C01Parse
import LibconfigModel.Properties.C03Term
/-
  C01RT — helpers for the composition of the two halves of the write → read round trip
  (Properties/C01RoundTrip.lean).

  1. A good item has at least one byte, hence a good item sequence denotes at most as many
     tokens as it has bytes (`goodSeq_toks_le`): this turns the parser-loop bound
     `8·|tokens| + 10` of C03 into a bound in the number of bytes written.
  2. `readCore` of the rendering of a good item sequence, for every world, every reading
     configuration and every top-level file name (`readCore_goodSeq`).
-/
namespace Libconfig.C01RT
open Libconfig C01L C02 Flex

/-! ### 1. tokens ≤ bytes -/

/-- a good item is not empty (from `yylex_item`: the call on a buffer that holds just the item
matches `k ≥ 1` rules and `k` is at most the number of bytes of the item) -/
theorem goodTok_bytes_pos (t : WTok) (hg : GoodTok t) : 1 ≤ t.bytes.length := by
  have hs : Ready (K := (none, [], [])) ({ buf := { rest := t.bytes ++ [] } } : ScanState) (t.bytes ++ []) :=
    ⟨rfl, rfl, rfl, rfl, rfl⟩
  obtain ⟨k, h1, h2, _⟩ := yylex_item {} { fn := 0, dir := none } t hg []
    (fun c hc => by cases hc) _ hs
  omega

/-- a good item sequence has at most as many items as bytes -/
theorem goodSeq_length_le : ∀ (ts : List WTok), GoodSeq ts → ts.length ≤ (bytesOf ts).length
  | [], _ => Nat.zero_le _
  | t :: ts, ⟨hg, _, hgs⟩ => by
    have h1 := goodTok_bytes_pos t hg
    have h2 := goodSeq_length_le ts hgs
    rw [bytesOf_cons, List.length_append, List.length_cons]
    omega

/-- … hence denotes at most as many tokens as it has bytes -/
theorem goodSeq_toks_le (ts : List WTok) (hg : GoodSeq ts) : (toksOf ts).length ≤ (bytesOf ts).length :=
  Nat.le_trans (List.length_filterMap_le _ _) (goodSeq_length_le ts hg)

theorem tokensOfConfig_eq (bufLen : Nat) (c : Config) :
    tokensOfConfig Generated.tokens bufLen c = toksOf (wtoksConfig bufLen c) := rfl

/-- the written form of a configuration satisfying `LexOK` denotes at most as many tokens as it
has bytes -/
theorem tokens_le_bytes (bufLen : Nat) (c : Config) (hok : LexOK bufLen c = true) :
    (tokensOfConfig Generated.tokens bufLen c).length ≤ (c.write bufLen).length := by
  rw [tokensOfConfig_eq, C19.C19_bytes bufLen c]
  exact goodSeq_toks_le _ (config_good bufLen c hok)

/-! ### 2. the scan state of `readCore` -/

/-- the scanner started as `__config_read` starts it (any top-level file name) on the written
form delivers `tokensOfConfig` and then end of input -/
theorem lexes_readScanStart (bufLen : Nat) (c : Config) (hok : LexOK bufLen c = true)
    (w : World) (c₀ : Config) (filename : Option Bytes) (fuel : Nat)
    (hfuel : (c.write bufLen).length < fuel) :
    ∃ s₁, LexesTo (theEnv w c₀ fuel) (C01Parse.readScanStart filename (c.write bufLen))
      (tokensOfConfig Generated.tokens bufLen c) s₁ := by
  have hseq : GoodSeq (wtoksConfig bufLen c) := config_good bufLen c hok
  have hbytes : c.write bufLen = bytesOf (wtoksConfig bufLen c) := C19.C19_bytes bufLen c
  rw [hbytes] at hfuel ⊢
  obtain ⟨s₁, h, _⟩ := lexes_seq
    (K := (filename, (match filename with | some f => [f] | none => []), [])) w c₀ fuel
    (wtoksConfig bufLen c) hseq hfuel
    (C01Parse.readScanStart filename (bytesOf (wtoksConfig bufLen c))) ⟨rfl, rfl, rfl, rfl, rfl⟩
    fuel hfuel
  exact ⟨s₁, h.lexes⟩

/-- **`__config_read` of the written form**: no lexing hypothesis, no proviso on the outcome —
the fuel bound `8·|bytes| + 10` discharges both. -/
theorem readCore_written (bufLen : Nat) (c : Config) (hl : LexOK bufLen c = true)
    (hp : C01Parse.ParseOK c = true) (w : World) (c₀ : Config) (filename : Option Bytes) (fuel : Nat)
    (hfuel : fuel ≥ 8 * (c.write bufLen).length + 10) :
    (readCore w c₀ filename (c.write bufLen) fuel).ok = true ∧
      (readCore w c₀ filename (c.write bufLen) fuel).result = .accept ∧
      C01Parse.stripPos (readCore w c₀ filename (c.write bufLen) fuel).cfg.root =
        C01Parse.expectedRoot bufLen c := by
  obtain ⟨s₁, hlex⟩ := lexes_readScanStart bufLen c hl w c₀ filename fuel (by omega)
  have hlen := tokens_le_bytes bufLen c hl
  refine C01Parse.C01_readCore_rebuilds w c₀ filename (c.write bufLen) bufLen c hp fuel s₁ hlex ?_
  rw [C09P.readCore_result]
  exact C03.C03_parse_fuel w (C09P.start c₀ filename) fuel _ s₁ _ _ hlex fuel
    (by unfold C03.parseFuel; omega)

/-! ### 3. what `expectedRoot` says, node by node -/

open C01Parse in
theorem expectedList_map (bufLen : Nat) (c : Config) :
    ∀ ks : List Node, expectedList bufLen c ks = ks.map (expectedNode bufLen c)
  | [] => by rw [expectedList]; rfl
  | k :: ks => by rw [expectedList, expectedList_map bufLen c ks]; rfl

open C01Parse in
theorem stripPosList_map : ∀ ks : List Node, stripPosList ks = ks.map stripPos
  | [] => by rw [stripPosList]; rfl
  | k :: ks => by rw [stripPosList, stripPosList_map ks]; rfl

/-- the relation between a written setting `m` and the setting `m'` read back for it: same
name, same type, same number of children; the value as the documentation promises it, per
type; hook, and the fields that do not belong to the type, as in a fresh setting -/
structure Same (bufLen : Nat) (c : Config) (m m' : Node) : Prop where
  name : m'.name = m.name
  ty : m'.ty = m.ty
  count : m.isAggregate = true ∨ m.kids = [] → m'.kids.length = m.kids.length
  bool : m.ty = T_BOOL → m'.ival = if m.ival ≠ 0 then 1 else 0
  int : m.ty = T_INT ∨ m.ty = T_INT64 → m'.ival = m.ival
  fmt : m.ty = T_INT ∨ m.ty = T_INT64 →
    m'.fmt = if effFormat c m = FMT_HEX then FMT_HEX else FMT_DEFAULT
  float : m.ty = T_FLOAT →
    m'.fval = F64.strtod (formatDouble bufLen m.fval c.floatPrecision (c.opt OPT_SCIENTIFIC))
  string : m.ty = T_STRING → m'.sval = some (m.sval.getD [])
  fmtOther : m.ty ≠ T_INT → m.ty ≠ T_INT64 → m'.fmt = 0
  ivalOther : m.ty ≠ T_INT → m.ty ≠ T_INT64 → m.ty ≠ T_BOOL → m'.ival = 0
  fvalOther : m.ty ≠ T_FLOAT → m'.fval = 0
  svalOther : m.ty ≠ T_STRING → m'.sval = none
  hook : m'.hook = 0

/-- closes a field of `Same`: by `rfl`, by contradiction with what is known of the type, or by
`simp` (`!=` / `==` against `≠` / `=`) -/
local macro "fld" : tactic =>
  `(tactic| (intros; first
      | rfl
      | (exfalso; simp only [T_INT, T_INT64, T_BOOL, T_FLOAT, T_STRING] at *; omega)
      | simp))

open C01Parse in
theorem same_expectedScalar (bufLen : Nat) (c : Config) (n : Node) (hk : n.kids = []) :
    Same bufLen c n (expectedScalar bufLen c n) := by
  have hc : ∀ m : Node, m.kids = [] → m.kids.length = n.kids.length := by
    intro m hm; rw [hm, hk]
  unfold expectedScalar
  split
  · rename_i h; have h : n.ty = 6 := by simpa using h
    exact { name := rfl, ty := h.symm, count := fun _ => hc _ rfl, bool := by fld, int := by fld,
            fmt := by fld, float := by fld, string := by fld, fmtOther := by fld,
            ivalOther := by fld, fvalOther := by fld, svalOther := by fld, hook := rfl }
  · split
    · rename_i _ h; have h : n.ty = 2 := by simpa using h
      exact { name := rfl, ty := h.symm, count := fun _ => hc _ rfl, bool := by fld, int := by fld,
              fmt := by fld, float := by fld, string := by fld, fmtOther := by fld,
              ivalOther := by fld, fvalOther := by fld, svalOther := by fld, hook := rfl }
    · split
      · rename_i _ _ h; have h : n.ty = 3 := by simpa using h
        exact { name := rfl, ty := h.symm, count := fun _ => hc _ rfl, bool := by fld, int := by fld,
                fmt := by fld, float := by fld, string := by fld, fmtOther := by fld,
                ivalOther := by fld, fvalOther := by fld, svalOther := by fld, hook := rfl }
      · split
        · rename_i _ _ _ h; have h : n.ty = 4 := by simpa using h
          exact { name := rfl, ty := h.symm, count := fun _ => hc _ rfl, bool := by fld, int := by fld,
                  fmt := by fld, float := by fld, string := by fld, fmtOther := by fld,
                  ivalOther := by fld, fvalOther := by fld, svalOther := by fld, hook := rfl }
        · split
          · rename_i _ _ _ _ h; have h : n.ty = 5 := by simpa using h
            exact { name := rfl, ty := h.symm, count := fun _ => hc _ rfl, bool := by fld,
                    int := by fld, fmt := by fld, float := by fld, string := by fld,
                    fmtOther := by fld, ivalOther := by fld, fvalOther := by fld,
                    svalOther := by fld, hook := rfl }
          · rename_i h6 h2 h3 h4 h5
            have h6 : n.ty ≠ 6 := by simpa using h6
            have h2 : n.ty ≠ 2 := by simpa using h2
            have h3 : n.ty ≠ 3 := by simpa using h3
            have h4 : n.ty ≠ 4 := by simpa using h4
            have h5 : n.ty ≠ 5 := by simpa using h5
            exact { name := rfl, ty := rfl, count := fun _ => hc _ rfl, bool := by fld,
                    int := by fld, fmt := by fld, float := by fld, string := by fld,
                    fmtOther := by fld, ivalOther := by fld, fvalOther := by fld,
                    svalOther := by fld, hook := rfl }

open C01Parse in
/-- the children of the expected form: those of the written setting, each in its expected form,
in the same order (for a scalar that has no children, as well-formedness demands) -/
theorem expectedNode_kids (bufLen : Nat) (c : Config) (n : Node)
    (h : n.isAggregate = false → n.kids = []) :
    (expectedNode bufLen c n).kids = n.kids.map (expectedNode bufLen c) := by
  cases n with
  | mk name ty fmt ival fval sval kids hook line file =>
    rw [expectedNode]
    split
    · exact expectedList_map bufLen c kids
    · rename_i ha
      have ha : isAggregateTy ty = false := by simpa using ha
      have : kids = [] := h ha
      subst this
      have := (same_expectedScalar bufLen c (.mk name ty fmt ival fval sval [] hook line file) rfl).count
        (.inr rfl)
      exact List.eq_nil_of_length_eq_zero this

open C01Parse in
theorem same_expectedNode (bufLen : Nat) (c : Config) (n : Node)
    (h : n.isAggregate = false → n.kids = []) : Same bufLen c n (expectedNode bufLen c n) := by
  have hkids := expectedNode_kids bufLen c n h
  cases n with
  | mk name ty fmt ival fval sval kids hook line file =>
    rw [expectedNode] at hkids ⊢
    split
    · rename_i ha
      have ha' : ty = 7 ∨ ty = 8 ∨ ty = 1 := by
        simpa [isAggregateTy, or_assoc] using ha
      have hcount : (expectedList bufLen c kids).length = kids.length := by
        rw [expectedList_map, List.length_map]
      exact { name := rfl, ty := rfl, count := fun _ => hcount, bool := by fld, int := by fld,
              fmt := by fld, float := by fld, string := by fld, fmtOther := by fld,
              ivalOther := by fld, fvalOther := by fld, svalOther := by fld, hook := rfl }
    · rename_i ha
      have ha : isAggregateTy ty = false := by simpa using ha
      have : kids = [] := h ha
      subst this
      exact same_expectedScalar bufLen c _ rfl

open C01Parse in
/-- **the expected tree, path by path**: at every index path the expected tree holds the
expected form of what the written tree holds there (and nothing where the written tree has
nothing) -/
theorem expectedNode_get? (bufLen : Nat) (c : Config) :
    ∀ (p : Path) (n : Node), n.WF →
      (expectedNode bufLen c n).get? p = (n.get? p).map (expectedNode bufLen c)
  | [], n, _ => by rw [C04.get?_nil, C04.get?_nil]; rfl
  | i :: p, n, hwf => by
    rw [C04.get?_cons, C04.get?_cons, expectedNode_kids bufLen c n (C04.WF.localWF hwf).scalarNoKids,
      List.getElem?_map]
    cases hk : n.kids[i]? with
    | none => rfl
    | some k =>
      simp only [Option.map_some, Option.bind_some]
      exact expectedNode_get? bufLen c p k (C04.WF.kid hwf (List.mem_of_getElem? hk))

open C01Parse in
theorem stripPos_kids (n : Node) : (stripPos n).kids = n.kids.map stripPos := by
  cases n; rw [stripPos]; exact stripPosList_map _

open C01Parse in
/-- erasing the source positions commutes with addressing -/
theorem stripPos_get? : ∀ (p : Path) (n : Node), (stripPos n).get? p = (n.get? p).map stripPos
  | [], n => by rw [C04.get?_nil, C04.get?_nil]; rfl
  | i :: p, n => by
    rw [C04.get?_cons, C04.get?_cons, stripPos_kids, List.getElem?_map]
    cases hk : n.kids[i]? with
    | none => rfl
    | some k =>
      simp only [Option.map_some, Option.bind_some]
      exact stripPos_get? p k

open C01Parse in
/-- `stripPos` changes nothing but `line` and `file` -/
theorem stripPos_fields (n : Node) :
    (stripPos n).name = n.name ∧ (stripPos n).ty = n.ty ∧ (stripPos n).fmt = n.fmt ∧
    (stripPos n).ival = n.ival ∧ (stripPos n).fval = n.fval ∧ (stripPos n).sval = n.sval ∧
    (stripPos n).kids.length = n.kids.length ∧ (stripPos n).hook = n.hook := by
  have hk := stripPos_kids n
  cases n
  rw [stripPos] at hk ⊢
  refine ⟨rfl, rfl, rfl, rfl, rfl, rfl, ?_, rfl⟩
  rw [hk, List.length_map]

end Libconfig.C01RT
