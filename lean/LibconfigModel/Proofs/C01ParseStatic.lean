import LibconfigModel.Proofs.C01ParseStep
/-
  C01 (parsing half), static part: the facts about the compiled LALR tables that the
  simulation needs — which state each token is shifted into, where the gotos lead, which rule
  each state reduces by, lengths / left-hand sides / actions of the rules.  Every fact is a
  closed statement about `Generated.parser` (read with `actAt` / `gotoTo` / `redOK`, the readers
  that mirror `yyparseLoop`) and is evaluated by the kernel.
-/
namespace Libconfig.C01PP
open Libconfig C02P C05P C02C

abbrev P : LalrTables := Generated.parser
abbrev tk : TokenNums := Generated.tokens

/-! ### kinds of the token numbers -/

theorem kind_lt (t : Nat) : translateTok P t < 23 := by
  have F := facts_of_static edges_ok
  have := translateTok_lt F t
  rw [F.ntok] at this
  exact this

theorem kind_eof : translateTok P 0 = 0 := by decide +kernel
theorem kind_boolean : translateTok P tk.boolean = 3 := by decide +kernel
theorem kind_integer : translateTok P tk.integer = 4 := by decide +kernel
theorem kind_hex : translateTok P tk.hex = 5 := by decide +kernel
theorem kind_integer64 : translateTok P tk.integer64 = 6 := by decide +kernel
theorem kind_hex64 : translateTok P tk.hex64 = 7 := by decide +kernel
theorem kind_float : translateTok P tk.float = 8 := by decide +kernel
theorem kind_string : translateTok P tk.string = 9 := by decide +kernel
theorem kind_name : translateTok P tk.name = 10 := by decide +kernel
theorem kind_equals : translateTok P tk.equals = 11 := by decide +kernel
theorem kind_arrayStart : translateTok P tk.arrayStart = 13 := by decide +kernel
theorem kind_arrayEnd : translateTok P tk.arrayEnd = 14 := by decide +kernel
theorem kind_listStart : translateTok P tk.listStart = 15 := by decide +kernel
theorem kind_listEnd : translateTok P tk.listEnd = 16 := by decide +kernel
theorem kind_comma : translateTok P tk.comma = 17 := by decide +kernel
theorem kind_groupStart : translateTok P tk.groupStart = 18 := by decide +kernel
theorem kind_groupEnd : translateTok P tk.groupEnd = 19 := by decide +kernel
theorem kind_semicolon : translateTok P tk.semicolon = 20 := by decide +kernel

theorem maxDepth_eq : P.maxDepth = 10000 := rfl
theorem final_eq : P.final = 6 := rfl

/-! ### contexts -/

/-- `q` is a state in which a scalar may start; `qs` is its goto on `simple_value` -/
structure ScalCtx (q qs : Nat) : Prop where
  boolean : actAt P q 3 = some 9
  integer : actAt P q 4 = some 10
  hex : actAt P q 5 = some 11
  integer64 : actAt P q 6 = some 12
  hex64 : actAt P q 7 = some 13
  float : actAt P q 8 = some 14
  string : actAt P q 9 = some 15
  gSimple : gotoTo P q 36 = qs
  gString : gotoTo P q 35 = 22
  notFinal : q ≠ 6

/-- `q` is a state in which any value may start; `qv` is its goto on `value` -/
structure ValCtx (q qv : Nat) : Prop where
  scal : ScalCtx q 23
  arrayStart : actAt P q 13 = some 16
  listStart : actAt P q 15 = some 17
  groupStart : actAt P q 18 = some 18
  gValue : gotoTo P q 34 = qv
  gArray : gotoTo P q 30 = 19
  gList : gotoTo P q 32 = 20
  gGroup : gotoTo P q 41 = 24

theorem scal_8 : ScalCtx 8 23 := by constructor <;> decide +kernel
theorem scal_26 : ScalCtx 26 23 := by constructor <;> decide +kernel
theorem scal_42 : ScalCtx 42 23 := by constructor <;> decide +kernel
theorem scal_25 : ScalCtx 25 32 := by constructor <;> decide +kernel
theorem scal_40 : ScalCtx 40 45 := by constructor <;> decide +kernel

theorem val_8 : ValCtx 8 21 := by constructor <;> first | exact scal_8 | decide +kernel
theorem val_26 : ValCtx 26 35 := by constructor <;> first | exact scal_26 | decide +kernel
theorem val_42 : ValCtx 42 46 := by constructor <;> first | exact scal_42 | decide +kernel

/-- `q0` is a state in which a list of settings may start (state 0 at top level, state 27 in a
group), `q1` the state after `setting_list` -/
structure MemCtx (q0 q1 : Nat) : Prop where
  name0 : actAt P q0 10 = some 1
  name1 : actAt P q1 10 = some 1
  gSetting0 : gotoTo P q0 28 = 4
  gSetting1 : gotoTo P q1 28 = 7
  gList : gotoTo P q0 25 = q1
  notFinal0 : q0 ≠ 6
  notFinal1 : q1 ≠ 6

theorem mem_0 : MemCtx 0 3 := by constructor <;> decide +kernel
theorem mem_27 : MemCtx 27 38 := by constructor <;> decide +kernel

/-! ### shifts that do not depend on the context -/

theorem sh_5_equals : actAt P 5 11 = some 8 := by decide +kernel
theorem sh_21_semicolon : actAt P 21 20 = some 29 := by decide +kernel
theorem sh_33_comma : actAt P 33 17 = some 40 := by decide +kernel
theorem sh_34_arrayEnd : actAt P 34 14 = some 41 := by decide +kernel
theorem sh_36_comma : actAt P 36 17 = some 42 := by decide +kernel
theorem sh_37_listEnd : actAt P 37 16 = some 43 := by decide +kernel
theorem sh_39_groupEnd : actAt P 39 19 = some 44 := by decide +kernel
theorem sh_2_eof : actAt P 2 0 = some 6 := by decide +kernel

/-! ### gotos that do not depend on the context -/

theorem go_1_M1 : gotoTo P 1 29 = 5 := by decide +kernel
theorem go_21_term : gotoTo P 21 27 = 30 := by decide +kernel
theorem go_16_M2 : gotoTo P 16 31 = 25 := by decide +kernel
theorem go_17_M3 : gotoTo P 17 33 = 26 := by decide +kernel
theorem go_18_M4 : gotoTo P 18 42 = 27 := by decide +kernel
theorem go_25_svl : gotoTo P 25 39 = 33 := by decide +kernel
theorem go_25_svlo : gotoTo P 25 40 = 34 := by decide +kernel
theorem go_26_vl : gotoTo P 26 37 = 36 := by decide +kernel
theorem go_26_vlo : gotoTo P 26 38 = 37 := by decide +kernel
theorem go_27_slo : gotoTo P 27 26 = 39 := by decide +kernel
theorem go_0_conf : gotoTo P 0 24 = 2 := by decide +kernel

/-! ### reductions -/

/-- states that reduce by their default rule without consulting the lookahead -/
theorem red_1 : ∀ k < 23, redOK P 1 k 11 = true := by decide +kernel
theorem red_4 : ∀ k < 23, redOK P 4 k 4 = true := by decide +kernel
theorem red_7 : ∀ k < 23, redOK P 7 k 5 = true := by decide +kernel
theorem red_9 : ∀ k < 23, redOK P 9 k 23 = true := by decide +kernel
theorem red_10 : ∀ k < 23, redOK P 10 k 24 = true := by decide +kernel
theorem red_11 : ∀ k < 23, redOK P 11 k 26 = true := by decide +kernel
theorem red_12 : ∀ k < 23, redOK P 12 k 25 = true := by decide +kernel
theorem red_13 : ∀ k < 23, redOK P 13 k 27 = true := by decide +kernel
theorem red_14 : ∀ k < 23, redOK P 14 k 28 = true := by decide +kernel
theorem red_15 : ∀ k < 23, redOK P 15 k 21 = true := by decide +kernel
theorem red_16 : ∀ k < 23, redOK P 16 k 13 = true := by decide +kernel
theorem red_17 : ∀ k < 23, redOK P 17 k 15 = true := by decide +kernel
theorem red_18 : ∀ k < 23, redOK P 18 k 40 = true := by decide +kernel
theorem red_19 : ∀ k < 23, redOK P 19 k 18 = true := by decide +kernel
theorem red_20 : ∀ k < 23, redOK P 20 k 19 = true := by decide +kernel
theorem red_23 : ∀ k < 23, redOK P 23 k 17 = true := by decide +kernel
theorem red_24 : ∀ k < 23, redOK P 24 k 20 = true := by decide +kernel
theorem red_29 : ∀ k < 23, redOK P 29 k 9 = true := by decide +kernel
theorem red_30 : ∀ k < 23, redOK P 30 k 12 = true := by decide +kernel
theorem red_32 : ∀ k < 23, redOK P 32 k 35 = true := by decide +kernel
theorem red_35 : ∀ k < 23, redOK P 35 k 30 = true := by decide +kernel
theorem red_41 : ∀ k < 23, redOK P 41 k 14 = true := by decide +kernel
theorem red_43 : ∀ k < 23, redOK P 43 k 16 = true := by decide +kernel
theorem red_44 : ∀ k < 23, redOK P 44 k 41 = true := by decide +kernel
theorem red_45 : ∀ k < 23, redOK P 45 k 36 = true := by decide +kernel
theorem red_46 : ∀ k < 23, redOK P 46 k 31 = true := by decide +kernel

/-- states that reduce by default on every lookahead they do not shift -/
theorem red_22 : ∀ k < 23, k ≠ 9 → redOK P 22 k 29 = true := by decide +kernel
theorem red_21 : ∀ k < 23, k ≠ 17 → k ≠ 20 → redOK P 21 k 8 = true := by decide +kernel
theorem red_0_eof : redOK P 0 0 2 = true := by decide +kernel
theorem red_3_eof : redOK P 3 0 3 = true := by decide +kernel
theorem red_25_arrayEnd : redOK P 25 14 38 = true := by decide +kernel
theorem red_33_arrayEnd : redOK P 33 14 39 = true := by decide +kernel
theorem red_26_listEnd : redOK P 26 16 33 = true := by decide +kernel
theorem red_36_listEnd : redOK P 36 16 34 = true := by decide +kernel
theorem red_27_groupEnd : redOK P 27 19 6 = true := by decide +kernel
theorem red_38_groupEnd : redOK P 38 19 7 = true := by decide +kernel

/-- the three states that run `$@2`, `$@3`, `$@4` reduce without consulting the lookahead -/
theorem ninf_16 : P.pact.get 16 = P.pactNinf ∧ (P.defact.get 16).toNat = 13 := by decide +kernel
theorem ninf_17 : P.pact.get 17 = P.pactNinf ∧ (P.defact.get 17).toNat = 15 := by decide +kernel
theorem ninf_18 : P.pact.get 18 = P.pactNinf ∧ (P.defact.get 18).toNat = 40 := by decide +kernel

/-! ### rules: left-hand side, length, action -/

/-- left-hand side, length and action of rule `r` -/
@[reducible] def RuleIs (r lhs len : Nat) (act : ParseAct) : Prop :=
  (P.r1.get r).toNat = lhs ∧ (P.r2.get r).toNat = len ∧ Generated.parseActions.getD r .unknown = act

theorem rule_2 : RuleIs 2 24 0 .none := by decide +kernel
theorem rule_3 : RuleIs 3 24 1 .none := by decide +kernel
theorem rule_4 : RuleIs 4 25 1 .none := by decide +kernel
theorem rule_5 : RuleIs 5 25 2 .none := by decide +kernel
theorem rule_6 : RuleIs 6 26 0 .none := by decide +kernel
theorem rule_7 : RuleIs 7 26 1 .none := by decide +kernel
theorem rule_8 : RuleIs 8 27 0 .none := by decide +kernel
theorem rule_9 : RuleIs 9 27 1 .none := by decide +kernel
theorem rule_11 : RuleIs 11 29 0 .settingName := by decide +kernel
theorem rule_12 : RuleIs 12 28 5 .none := by decide +kernel
theorem rule_13 : RuleIs 13 31 0 .arrayStart := by decide +kernel
theorem rule_14 : RuleIs 14 30 4 .aggEnd := by decide +kernel
theorem rule_15 : RuleIs 15 33 0 .listStart := by decide +kernel
theorem rule_16 : RuleIs 16 32 4 .aggEnd := by decide +kernel
theorem rule_17 : RuleIs 17 34 1 .none := by decide +kernel
theorem rule_18 : RuleIs 18 34 1 .none := by decide +kernel
theorem rule_19 : RuleIs 19 34 1 .none := by decide +kernel
theorem rule_20 : RuleIs 20 34 1 .none := by decide +kernel
theorem rule_21 : RuleIs 21 35 1 .stringFirst := by decide +kernel
theorem rule_23 : RuleIs 23 36 1 .valBool := by decide +kernel
theorem rule_24 : RuleIs 24 36 1 .valInt := by decide +kernel
theorem rule_25 : RuleIs 25 36 1 .valInt64 := by decide +kernel
theorem rule_26 : RuleIs 26 36 1 .valHex := by decide +kernel
theorem rule_27 : RuleIs 27 36 1 .valHex64 := by decide +kernel
theorem rule_28 : RuleIs 28 36 1 .valFloat := by decide +kernel
theorem rule_29 : RuleIs 29 36 1 .valString := by decide +kernel
theorem rule_30 : RuleIs 30 37 1 .none := by decide +kernel
theorem rule_31 : RuleIs 31 37 3 .none := by decide +kernel
theorem rule_33 : RuleIs 33 38 0 .none := by decide +kernel
theorem rule_34 : RuleIs 34 38 1 .none := by decide +kernel
theorem rule_35 : RuleIs 35 39 1 .none := by decide +kernel
theorem rule_36 : RuleIs 36 39 3 .none := by decide +kernel
theorem rule_38 : RuleIs 38 40 0 .none := by decide +kernel
theorem rule_39 : RuleIs 39 40 1 .none := by decide +kernel
theorem rule_40 : RuleIs 40 42 0 .groupStart := by decide +kernel
theorem rule_41 : RuleIs 41 41 4 .aggEnd := by decide +kernel

/-! ### the steps, specialised to an environment over the compiled tables -/

/-- the environment uses the compiled parser tables and actions -/
structure Compiled (E : ParserEnv) : Prop where
  tables : E.P = Generated.parser
  acts : E.acts = Generated.parseActions

theorem compiled_theEnv (w : World) (c : Config) (fuel : Nat) : Compiled (theEnv w c fuel) :=
  ⟨rfl, rfl⟩

theorem shift' {E : ParserEnv} (hE : Compiled E) {s : Nat} {v0 : TokVal}
    {rest : List (Nat × TokVal)} {la : Lookahead} {sc : ScanState} {ctx : ParseCtx} {t : Nat}
    {v : TokVal} {ks : List (Nat × TokVal)} {k q : Nat}
    (hdepth : rest.length + 1 < 10000) (hfin : s ≠ 6)
    (hk : translateTok P t = k) (hact : actAt P s k = some (q : Int)) (hq : 0 < q)
    (hinp : Inp E la sc ((t, v) :: ks)) :
    ∃ sc' ctx', Reaches E ⟨(s, v0) :: rest, la, sc, ctx⟩
        ⟨(q, v) :: (s, v0) :: rest, none, sc', ctx'⟩ ∧
      Inp E none sc' ks ∧ SameSem ctx ctx' := by
  have h := step_shift (E := E) (s := s) (v0 := v0) (rest := rest) (la := la) (sc := sc)
    (ctx := ctx) (t := t) (v := v) (ks := ks) (q := (q : Int))
    (by rw [hE.tables]; exact hdepth) (by rw [hE.tables]; exact hfin)
    (by rw [hE.tables, hk]; exact hact) (by omega) hinp
  simpa using h

theorem reduce' {E : ParserEnv} (hE : Compiled E) {stk pushed : List (Nat × TokVal)} {p : Nat}
    {vp : TokVal} {rest : List (Nat × TokVal)} {s : Nat} {v0 : TokVal}
    {rest0 : List (Nat × TokVal)} {la : Lookahead} {sc : ScanState} {ctx : ParseCtx} {t : Nat}
    {v : TokVal} {ks : List (Nat × TokVal)} {r lhs len q' : Nat} {act : ParseAct}
    {Post : ParseCtx → Prop}
    (hstk : stk = pushed ++ (p, vp) :: rest) (htop : stk = (s, v0) :: rest0)
    (hdepth : stk.length < 10000) (hfin : s ≠ 6)
    (hred : redOK P s (translateTok P t) r = true)
    (hrule : RuleIs r lhs len act) (hlen : len = pushed.length)
    (hgoto : gotoTo P p lhs = q')
    (hinp : Inp E la sc ((t, v) :: ks))
    (hact : ∀ ctx₁ l f, SameSem ctx ctx₁ →
      ∃ ctx₂, runAction act ctx₁ v0 l f = .ok ctx₂ ∧ Post ctx₂) :
    ∃ la' sc' ctx' vv, Reaches E ⟨stk, la, sc, ctx⟩ ⟨(q', vv) :: (p, vp) :: rest, la', sc', ctx'⟩ ∧
      Inp E la' sc' ((t, v) :: ks) ∧ Post ctx' := by
  obtain ⟨h1, h2, h3⟩ := hrule
  have h := step_reduce (E := E) (Post := Post) hstk htop (by rw [hE.tables]; exact hdepth)
    (by rw [hE.tables]; exact hfin) (by rw [hE.tables]; exact hred)
    (by rw [hE.tables, h2]; exact hlen) hinp (by rw [hE.acts, h3]; exact hact)
  rw [hE.tables, h1, hgoto] at h
  exact h

/-- a reduction in a state that does not consult the lookahead -/
theorem reduceN' {E : ParserEnv} (hE : Compiled E) {stk pushed : List (Nat × TokVal)} {p : Nat}
    {vp : TokVal} {rest : List (Nat × TokVal)} {s : Nat} {v0 : TokVal}
    {rest0 : List (Nat × TokVal)} {la : Lookahead} {sc : ScanState} {ctx : ParseCtx}
    {r lhs len q' : Nat} {act : ParseAct} {Post : ParseCtx → Prop}
    (hstk : stk = pushed ++ (p, vp) :: rest) (htop : stk = (s, v0) :: rest0)
    (hdepth : stk.length < 10000) (hfin : s ≠ 6)
    (hninf : P.pact.get s = P.pactNinf ∧ (P.defact.get s).toNat = r) (hr0 : r ≠ 0)
    (hrule : RuleIs r lhs len act) (hlen : len = pushed.length)
    (hgoto : gotoTo P p lhs = q')
    (hact : ∀ l f, ∃ ctx₂, runAction act ctx v0 l f = .ok ctx₂ ∧ Post ctx₂) :
    ∃ ctx' vv, Reaches E ⟨stk, la, sc, ctx⟩ ⟨(q', vv) :: (p, vp) :: rest, la, sc, ctx'⟩ ∧
      Post ctx' := by
  obtain ⟨h1, h2, h3⟩ := hrule
  have h := step_reduce_ninf (E := E) (la := la) (sc := sc) (Post := Post) hstk htop
    (by rw [hE.tables]; exact hdepth) (by rw [hE.tables]; exact hfin)
    (by rw [hE.tables]; exact hninf.1) (by rw [hE.tables]; exact hninf.2) hr0
    (by rw [hE.tables, h2]; exact hlen) (by rw [hE.acts, h3]; exact hact)
  rw [hE.tables, h1, hgoto] at h
  exact h

/-- a reduction by a rule without action -/
theorem reduce0 {E : ParserEnv} (hE : Compiled E) {stk pushed : List (Nat × TokVal)} {p : Nat}
    {vp : TokVal} {rest : List (Nat × TokVal)} {s : Nat} {v0 : TokVal}
    {rest0 : List (Nat × TokVal)} {la : Lookahead} {sc : ScanState} {ctx : ParseCtx} {t : Nat}
    {v : TokVal} {ks : List (Nat × TokVal)} {r lhs len q' : Nat}
    (hstk : stk = pushed ++ (p, vp) :: rest) (htop : stk = (s, v0) :: rest0)
    (hdepth : stk.length < 10000) (hfin : s ≠ 6)
    (hred : redOK P s (translateTok P t) r = true)
    (hrule : RuleIs r lhs len .none) (hlen : len = pushed.length)
    (hgoto : gotoTo P p lhs = q')
    (hinp : Inp E la sc ((t, v) :: ks)) :
    ∃ la' sc' ctx' vv, Reaches E ⟨stk, la, sc, ctx⟩ ⟨(q', vv) :: (p, vp) :: rest, la', sc', ctx'⟩ ∧
      Inp E la' sc' ((t, v) :: ks) ∧ SameSem ctx ctx' :=
  reduce' hE (Post := fun c => SameSem ctx c) hstk htop hdepth hfin hred hrule hlen hgoto hinp
    (fun ctx₁ _ _ hs => ⟨ctx₁, rfl, hs⟩)

end Libconfig.C01PP
