import LibconfigModel.Proofs.C03StackSeeded
/-
  C03S, part 7: kernel-evaluated replays at the constants of grammar.c (`YYINITDEPTH` 200,
  `YYMAXDEPTH` 10000), on the integer shadow (`ctl_run`: exact) and, for the first 200
  pushes of the seeded variant, on the full model.
-/
namespace Libconfig.C03SP

open Libconfig Libconfig.BisonStack

/-- `n` shifts (state 1, value 7; `YYSTACK_ALLOC` succeeds) -/
def shifts (n : Nat) : List (Event Nat) := List.replicate n (.shift 1 7 true)

/-- the integers of the full model after `n` shifts from the start of `yyparse` are those of the
shadow -/
theorem ctl_shifts (P : Params) (n : Nat) :
    ctlOf (BisonStack.run P (shifts n) (init P true)) = Ctl.run P (shifts n) (Ctl.init P true) := by
  rw [ctl_run, ctl_init]

/-- 198 shifts: 199 entries, the automatic arrays (200 slots) are still in use -/
theorem replay_198 : Ctl.run parserParams (shifts 198) (Ctl.init parserParams true) =
    { loc := .auto, stacksize := 200, capS := 200, capV := 200, ssp := 198, vsp := 198,
      status := .running, nextId := 0, sizes := [] } := by decide +kernel

/-- the 199th shift fills slot 199, the last one: the stacks move to a heap block of 400 slots -/
theorem replay_199 : Ctl.run parserParams (shifts 199) (Ctl.init parserParams true) =
    { loc := .heap 0, stacksize := 400, capS := 400, capV := 400, ssp := 199, vsp := 199,
      status := .running, nextId := 1, sizes := [400] } := by decide +kernel

set_option maxRecDepth 100000 in
/-- 9998 shifts: 9999 entries in the sixth heap block; the blocks had 400, 800, 1600, 3200, 6400,
10000 slots -/
theorem replay_9998 : Ctl.run parserParams (shifts 9998) (Ctl.init parserParams true) =
    { loc := .heap 5, stacksize := 10000, capS := 10000, capV := 10000, ssp := 9998, vsp := 9998,
      status := .running, nextId := 6, sizes := [10000, 6400, 3200, 1600, 800, 400] } := by
  decide +kernel

theorem shifts_succ (n : Nat) : shifts (n + 1) = shifts n ++ [.shift 1 7 true] :=
  List.replicate_succ' ..

theorem ctl_run_snoc (P : Params) (es : List (Event Nat)) (e : Event Nat) (c : Ctl) :
    Ctl.run P (es ++ [e]) c = Ctl.step P (Ctl.run P es c) e := by
  unfold Ctl.run
  rw [List.foldl_append]
  rfl

/-- the 9999th shift stores the 10000th entry into the last slot, and that is the end: "memory
exhausted", the stack is emptied, the block released -/
theorem replay_9999 : Ctl.run parserParams (shifts 9999) (Ctl.init parserParams true) =
    { loc := .heap 5, stacksize := 10000, capS := 10000, capV := 10000, ssp := 0, vsp := 0,
      status := .done .nomem, nextId := 6, sizes := [10000, 6400, 3200, 1600, 800, 400] } := by
  rw [shifts_succ, ctl_run_snoc, replay_9998]
  decide +kernel

/-- the constants of grammar.c with the seeded test -/
def seededParams : Params := { parserParams with test := fullTestSeeded }

/-- with the seeded test, 199 shifts leave `yyssp` at the LAST slot of the automatic arrays and
nothing allocated -/
theorem replay_seeded_199 : Ctl.run seededParams (shifts 199) (Ctl.init seededParams true) =
    { loc := .auto, stacksize := 200, capS := 200, capV := 200, ssp := 199, vsp := 199,
      status := .running, nextId := 0, sizes := [] } := by decide +kernel

/-- a store at or behind the end of its array -/
def oobStore : Access → Bool
  | .storeV _ cap idx => Nat.ble cap idx
  | .storeS _ cap idx => Nat.ble cap idx
  | _ => false

theorem oobStore_not_ok (a : Access) (h : oobStore a = true) : ¬ a.ok := by
  cases a <;> simp only [oobStore, Nat.ble_eq] at h <;> first | exact Nat.not_lt.mpr h | cases h

/-- … and the 200th shift stores out of bounds, on the full model: the newest entries of the log
are the stores to `yyvsa[200]` and `yyssa[200]`, and then — the seeded test holds now — the
allocation of 400 slots and two copies of 201 elements out of arrays of 200 -/
theorem replay_seeded_200 :
    (BisonStack.run seededParams (shifts 200) (init seededParams true)).log.take 5 =
      [.copyV .auto 200 (.heap 0) 400 201, .copyS .auto 200 (.heap 0) 400 201, .alloc (.heap 0) 400,
       .storeS .auto 200 200, .storeV .auto 200 200] ∧
    (BisonStack.run seededParams (shifts 200) (init seededParams true)).log.any oobStore = true := by
  decide +kernel

end Libconfig.C03SP
