import LibconfigModel.Proofs.C10ProvMain
/-
  C10P (provenance of the tree), what the token a setting reports IS — a sanity theorem about the
  specification of DenoteProv.lean, read off the provenance tree itself: the index a NAMED setting
  holds is that of a NAME token carrying the setting's name; the index an unnamed aggregate holds
  is that of its opening bracket; the index a one-token scalar element holds is that of a literal
  with the element's value; the index a STRING element holds is that of a token that is NOT a
  string literal, and stands right behind one.  Nothing here mentions the parser.
-/
namespace Libconfig.C10Prov
open Libconfig Denote C02D C01PP C09L

/-- the stamps of the provenance tree of a text of items `all`: the token with `k` items from it
to the end is stamped with its index -/
def idxStamp (all : List Denote.Item) : Nat → Stamp := fun k => (all.length - k, none)

/-- the item an unnamed setting that is not a string is made from -/
def ownItem (m : Node) : Option Denote.Item :=
  if m.ty = T_ARRAY then some .arrayStart
  else if m.ty = T_LIST then some .listStart
  else if m.ty = T_GROUP then some .groupStart
  else if m.ty = T_BOOL then some (.boolean m.ival)
  else if m.ty = T_INT then some (if m.fmt = FMT_HEX then .hex m.ival else .integer m.ival)
  else if m.ty = T_INT64 then some (if m.fmt = FMT_HEX then .hex64 m.ival else .integer64 m.ival)
  else if m.ty = T_FLOAT then some (.float m.fval)
  else none

/-- **what the item at the index a node holds is**: for a named setting the NAME with its name;
for an unnamed string the item behind a string literal that is none itself; for any other
unnamed setting its opening bracket resp. its literal -/
def NodeOK (all : List Denote.Item) (m : Node) : Prop :=
  match m.name with
  | some nm => all[m.line]? = some (.name nm)
  | none =>
    if m.ty = T_STRING then
      1 ≤ m.line ∧ (∃ s, all[m.line - 1]? = some (.string s)) ∧ ∀ s, all[m.line]? ≠ some (.string s)
    else ∀ it, ownItem m = some it → all[m.line]? = some it

/-- … for every node of a tree -/
def TreeOK (all : List Denote.Item) (T : Node) : Prop :=
  ∀ (p : Path) (m : Node), T.get? p = some m → NodeOK all m

def TreesOK (all : List Denote.Item) (l : List Node) : Prop := ∀ k ∈ l, TreeOK all k

theorem treeOK_node {all : List Denote.Item} {T : Node} (h0 : NodeOK all T)
    (hk : TreesOK all T.kids) : TreeOK all T := by
  intro p m hget
  cases p with
  | nil =>
    rw [C04.get?_nil] at hget
    injection hget with hget
    rw [← hget]
    exact h0
  | cons i q =>
    rw [C04.get?_cons] at hget
    cases hi : T.kids[i]? with
    | none => rw [hi] at hget; cases hget
    | some k =>
      rw [hi] at hget
      exact hk k (List.mem_of_getElem? hi) q m hget

theorem treesOK_nil (all : List Denote.Item) : TreesOK all [] := fun _ h => by cases h

theorem treesOK_snoc {all : List Denote.Item} {l : List Node} {x : Node} (h1 : TreesOK all l)
    (h2 : TreeOK all x) : TreesOK all (l ++ [x]) := by
  intro k hk
  rcases List.mem_append.mp hk with hk | hk
  · exact h1 k hk
  · rw [List.mem_singleton.mp hk]
    exact h2

theorem treesOK_enter {all : List Denote.Item} {o : Options} {m m' : List Node} {nm : Bytes}
    (h : TreesOK all m) (he : enter o m nm = some m') : TreesOK all m' := by
  unfold enter at he
  split at he
  · injection he with he
    rw [← he]
    exact h
  · split at he
    · injection he with he
      rw [← he]
      exact fun k hk => h k (List.mem_of_mem_eraseIdx hk)
    · cases he

/-- whose value is being read: a member's — then the NAME token it was given is a NAME with that
name —, or an element's -/
def Who (all : List Denote.Item) (nm : Option Bytes) (mk : Option Nat) : Prop :=
  match nm with
  | some nm' => ∃ k, mk = some k ∧ all[all.length - k]? = some (.name nm')
  | none => mk = none

theorem head_of_suffix {all items : List Denote.Item} (h : items <:+ all) :
    all[all.length - items.length]? = items.head? := getElem?_suffix h

/-- a node made from the item in front (no string literal), for a member or an element -/
theorem nodeOK_front {all : List Denote.Item} {it : Denote.Item} {rest : List Denote.Item}
    (hsuf : (it :: rest) <:+ all) {nm : Option Bytes} {mk : Option Nat} (hw : Who all nm mk)
    (hek : elemKey (it :: rest) = rest.length + 1) (n0 : Node) (hname : n0.name = nm)
    (hty : n0.ty ≠ T_STRING)
    (hown : nm = none → ownItem (stamped n0 (idxStamp all (rest.length + 1))) = some it) :
    NodeOK all (stamped n0 (idxStamp all (keyOf mk (it :: rest)))) := by
  unfold NodeOK
  show (match n0.name with
    | some nm => all[(idxStamp all (keyOf mk (it :: rest))).1]? = some (.name nm)
    | none => _)
  cases nm with
  | some nm' =>
    rw [hname]
    obtain ⟨k, hk, hall⟩ := hw
    subst hk
    exact hall
  | none =>
    rw [hname]
    have hmk : mk = none := hw
    subst hmk
    simp only
    rw [if_neg (show ¬ (stamped n0 (idxStamp all (keyOf none (it :: rest)))).ty = T_STRING from hty)]
    intro it' hit'
    have hh := head_of_suffix hsuf
    simp only [List.length_cons, List.head?_cons] at hh
    show all[all.length - keyOf none (it :: rest)]? = some it'
    rw [show keyOf none (it :: rest) = rest.length + 1 from hek, hh]
    have := hown rfl
    rw [show keyOf none (it :: rest) = rest.length + 1 from hek] at hit'
    rw [this] at hit'
    exact hit'

theorem scalar_name {nm : Option Bytes} {items rest : List Denote.Item} {x : Node}
    (h : scalar nm items = some (x, rest)) : x.name = nm := by
  cases items with
  | nil => simp [scalar] at h
  | cons it tl =>
    cases it
    all_goals simp only [scalar, Option.some.injEq, Prod.mk.injEq, reduceCtorEq] at h
    all_goals
      rw [← h.1]

/-- scalars -/
theorem scalarP_ok {all : List Denote.Item} {nm : Option Bytes} {mk : Option Nat}
    {items rest : List Denote.Item} {x : Node}
    (h : scalarP (idxStamp all) nm mk items = some (x, rest)) (hsuf : items <:+ all)
    (hw : Who all nm mk) : TreeOK all x ∧ rest <:+ items := by
  obtain ⟨x0, hs0, rfl⟩ := scalarP_some h
  have hleaf := (scalar_leaf hs0).1
  refine ⟨treeOK_node ?_ (by rw [stamped_kids, hleaf]; exact treesOK_nil _), scalar_suffix hs0⟩
  cases items with
  | nil => simp [scalar] at hs0
  | cons it tl =>
    cases it
    case string s =>
      simp only [scalar, Option.some.injEq, Prod.mk.injEq] at hs0
      obtain ⟨rfl, rfl⟩ := hs0
      unfold NodeOK
      cases nm with
      | some nm' =>
        obtain ⟨k, hk, hall⟩ := hw
        subst hk
        exact hall
      | none =>
        have hmk : mk = none := hw
        subst hmk
        show (if T_STRING = T_STRING then _ else _)
        rw [if_pos rfl]
        show 1 ≤ all.length - (strings tl).2.length ∧
          (∃ s', all[all.length - (strings tl).2.length - 1]? = some (.string s')) ∧
          ∀ s', all[all.length - (strings tl).2.length]? ≠ some (.string s')
        obtain ⟨s', hs'⟩ := lastLiteral_strings tl s
        have hsuf' : (Denote.Item.string s' :: (strings tl).2) <:+ all := by
          rw [← hs']
          exact (lastLiteral_suffix _).trans hsuf
        have hlen := hsuf'.length_le
        simp only [List.length_cons] at hlen
        have h1 := head_of_suffix hsuf'
        simp only [List.length_cons, List.head?_cons] at h1
        have h2 := head_of_suffix ((List.suffix_cons _ _).trans hsuf')
        refine ⟨by omega, ⟨s', ?_⟩, fun s'' hc => ?_⟩
        · rw [← h1]
          congr 1
        · rw [h2] at hc
          cases hr : (strings tl).2 with
          | nil => rw [hr] at hc; cases hc
          | cons it2 r2 =>
            rw [hr] at hc
            simp only [List.head?_cons, Option.some.injEq] at hc
            exact strings_head tl s'' r2 (by rw [hr, hc])
    all_goals
      simp only [scalar, Option.some.injEq, Prod.mk.injEq, reduceCtorEq] at hs0
    all_goals
      obtain ⟨rfl, rfl⟩ := hs0
      exact nodeOK_front hsuf hw rfl _ rfl (Nat.ne_of_beq_eq_false rfl) (fun hn => by subst hn; rfl)

theorem arrayRestP_ok {all : List Denote.Item} (ty : Nat) :
    ∀ (fuel : Nat) (acc : List Node) (items : List Denote.Item) (xs : List Node)
      (rest : List Denote.Item),
    arrayRestP (idxStamp all) ty fuel acc items = .ok xs rest → items <:+ all → TreesOK all acc →
    TreesOK all xs ∧ rest <:+ items := by
  intro fuel
  induction fuel with
  | zero => intro acc items xs rest h; rw [arrayRestP_zero] at h; cases h
  | succ fuel ih =>
    intro acc items xs rest h hsuf hacc
    cases arrayRestView items with
    | done r' =>
      rw [arrayRestP_done] at h
      injection h with h1 h2
      rw [← h1, ← h2]
      exact ⟨hacc, List.suffix_cons _ _⟩
    | comma rest' =>
      rw [arrayRestP_comma] at h
      have hsuf' : rest' <:+ all := (List.suffix_cons _ _).trans hsuf
      cases hs : scalarP (idxStamp all) none none rest' with
      | none =>
        rw [hs] at h
        obtain ⟨h1, h2⟩ := ih _ _ _ _ h hsuf' hacc
        exact ⟨h1, h2.trans (List.suffix_cons _ _)⟩
      | some p =>
        obtain ⟨x, r1⟩ := p
        rw [hs] at h
        simp only at h
        split at h
        · cases h
        · obtain ⟨hx, hr1⟩ := scalarP_ok hs hsuf' rfl
          obtain ⟨h1, h2⟩ := ih _ _ _ _ h (hr1.trans hsuf') (treesOK_snoc hacc hx)
          exact ⟨h1, (h2.trans hr1).trans (List.suffix_cons _ _)⟩
    | other _ h1 h2 =>
      rw [arrayRestP_other _ _ _ _ _ h1 h2] at h
      cases h

theorem oks (all : List Denote.Item) (o : Options) : ∀ fuel : Nat,
    (∀ nm mk items x rest, valueP (idxStamp all) o fuel nm mk items = .ok x rest →
      items <:+ all → Who all nm mk → TreeOK all x ∧ rest <:+ items) ∧
    (∀ acc items xs rest, listRestP (idxStamp all) o fuel acc items = .ok xs rest →
      items <:+ all → TreesOK all acc → TreesOK all xs ∧ rest <:+ items) ∧
    (∀ m items xs rest, settingsP (idxStamp all) o fuel m items = .ok xs rest →
      items <:+ all → TreesOK all m → TreesOK all xs ∧ rest <:+ items) := by
  intro fuel
  induction fuel with
  | zero =>
    refine ⟨?_, ?_, ?_⟩
    · intro nm mk items x rest h; rw [valueP_zero] at h; cases h
    · intro acc items xs rest h; rw [listRestP_zero] at h; cases h
    · intro m items xs rest h; rw [settingsP_zero] at h; cases h
  | succ fuel ih =>
    obtain ⟨ihv, ihl, ihs⟩ := ih
    refine ⟨?_, ?_, ?_⟩
    · intro nm mk items x rest h hsuf hw
      cases valueView items with
      | arrNil r =>
        rw [valueP_arr_nil] at h
        injection h with h1 h2
        rw [← h1, ← h2]
        refine ⟨treeOK_node ?_ (treesOK_nil _), (List.suffix_cons _ _).trans (List.suffix_cons _ _)⟩
        exact nodeOK_front hsuf hw rfl _ rfl (Nat.ne_of_beq_eq_false rfl) (fun hn => by subst hn; rfl)
      | arr rest' hne =>
        rw [valueP_arr _ _ _ _ _ _ hne] at h
        have hsuf' : rest' <:+ all := (List.suffix_cons _ _).trans hsuf
        cases hs : scalarP (idxStamp all) none none rest' with
        | none => rw [hs] at h; cases h
        | some p =>
          obtain ⟨x1, r1⟩ := p
          rw [hs] at h
          simp only at h
          obtain ⟨hx1, hr1⟩ := scalarP_ok hs hsuf' rfl
          cases ha : arrayRestP (idxStamp all) x1.ty fuel [x1] r1 with
          | error k => rw [ha] at h; cases h
          | ok elems r2 =>
            rw [ha] at h
            injection h with h1 h2
            rw [← h1, ← h2]
            obtain ⟨he, hr2⟩ := arrayRestP_ok x1.ty fuel [x1] r1 elems r2 ha (hr1.trans hsuf')
              (treesOK_snoc (treesOK_nil _) hx1)
            refine ⟨treeOK_node ?_ he, (hr2.trans hr1).trans (List.suffix_cons _ _)⟩
            exact nodeOK_front hsuf hw rfl _ rfl (Nat.ne_of_beq_eq_false rfl) (fun hn => by subst hn; rfl)
      | lstNil r =>
        rw [valueP_lst_nil] at h
        injection h with h1 h2
        rw [← h1, ← h2]
        refine ⟨treeOK_node ?_ (treesOK_nil _), (List.suffix_cons _ _).trans (List.suffix_cons _ _)⟩
        exact nodeOK_front hsuf hw rfl _ rfl (Nat.ne_of_beq_eq_false rfl) (fun hn => by subst hn; rfl)
      | lst rest' hne =>
        rw [valueP_lst _ _ _ _ _ _ hne] at h
        have hsuf' : rest' <:+ all := (List.suffix_cons _ _).trans hsuf
        cases hv : valueP (idxStamp all) o fuel none none rest' with
        | error k => rw [hv] at h; cases h
        | ok x1 r1 =>
          rw [hv] at h
          simp only at h
          obtain ⟨hx1, hr1⟩ := ihv _ _ _ _ _ hv hsuf' rfl
          cases hl : listRestP (idxStamp all) o fuel [x1] r1 with
          | error k => rw [hl] at h; cases h
          | ok elems r2 =>
            rw [hl] at h
            injection h with h1 h2
            rw [← h1, ← h2]
            obtain ⟨he, hr2⟩ := ihl [x1] r1 elems r2 hl (hr1.trans hsuf')
              (treesOK_snoc (treesOK_nil _) hx1)
            refine ⟨treeOK_node ?_ he, (hr2.trans hr1).trans (List.suffix_cons _ _)⟩
            exact nodeOK_front hsuf hw rfl _ rfl (Nat.ne_of_beq_eq_false rfl) (fun hn => by subst hn; rfl)
      | grp rest' =>
        rw [valueP_grp] at h
        have hsuf' : rest' <:+ all := (List.suffix_cons _ _).trans hsuf
        cases hs : settingsP (idxStamp all) o fuel [] rest' with
        | error k => rw [hs] at h; cases h
        | ok members r1 =>
          rw [hs] at h
          obtain ⟨hm, hr1⟩ := ihs [] rest' members r1 hs hsuf' (treesOK_nil _)
          split at h
          · cases h
          · rename_i heq
            injection heq with heq1 heq2
            subst heq1
            subst heq2
            injection h with h1 h2
            rw [← h1, ← h2]
            refine ⟨treeOK_node ?_ hm,
              ((List.suffix_cons _ _).trans hr1).trans (List.suffix_cons _ _)⟩
            exact nodeOK_front hsuf hw rfl _ rfl (Nat.ne_of_beq_eq_false rfl) (fun hn => by subst hn; rfl)
          · cases h
      | other _ h1 h2 h3 =>
        rw [valueP_other _ _ _ _ _ _ h1 h2 h3] at h
        cases hs : scalarP (idxStamp all) nm mk items with
        | none => rw [hs] at h; cases h
        | some p =>
          obtain ⟨x1, r1⟩ := p
          rw [hs] at h
          injection h with h1' h2'
          rw [← h1', ← h2']
          exact scalarP_ok hs hsuf hw
    · intro acc items xs rest h hsuf hacc
      cases listRestView items with
      | done r' =>
        rw [listRestP_done] at h
        injection h with h1 h2
        rw [← h1, ← h2]
        exact ⟨hacc, List.suffix_cons _ _⟩
      | comma rest' =>
        have hsuf' : rest' <:+ all := (List.suffix_cons _ _).trans hsuf
        have skip : ((∃ r, rest' = .comma :: r) ∨ (∃ r, rest' = .listEnd :: r)) →
            TreesOK all xs ∧ rest <:+ (Denote.Item.comma :: rest') := by
          intro hsk
          rw [listRestP_skip _ _ _ _ _ hsk] at h
          obtain ⟨h1, h2⟩ := ihl _ _ _ _ h hsuf' hacc
          exact ⟨h1, h2.trans (List.suffix_cons _ _)⟩
        cases listRestView rest' with
        | done r' => exact skip (.inr ⟨_, rfl⟩)
        | comma r' => exact skip (.inl ⟨_, rfl⟩)
        | other _ h1 h2 =>
          rw [listRestP_value _ _ _ _ _ h1 h2] at h
          cases hv : valueP (idxStamp all) o fuel none none rest' with
          | error k => rw [hv] at h; cases h
          | ok x1 r1 =>
            rw [hv] at h
            simp only at h
            obtain ⟨hx1, hr1⟩ := ihv _ _ _ _ _ hv hsuf' rfl
            obtain ⟨h1', h2'⟩ := ihl _ _ _ _ h (hr1.trans hsuf') (treesOK_snoc hacc hx1)
            exact ⟨h1', (h2'.trans hr1).trans (List.suffix_cons _ _)⟩
      | other _ h1 h2 =>
        rw [listRestP_other _ _ _ _ _ h1 h2] at h
        cases h
    · intro m items xs rest h hsuf hm
      cases settingsView items with
      | setting nm rest' =>
        rw [settingsP_setting] at h
        have hsuf' : rest' <:+ all :=
          ((List.suffix_cons _ _).trans (List.suffix_cons _ _)).trans hsuf
        cases he : enter o m nm with
        | none => rw [he] at h; cases h
        | some m' =>
          rw [he] at h
          simp only at h
          have hw : Who all (some nm) (some (rest'.length + 2)) := by
            refine ⟨_, rfl, ?_⟩
            have := head_of_suffix hsuf
            simp only [List.length_cons, List.head?_cons] at this
            exact this
          cases hv : valueP (idxStamp all) o fuel (some nm) (some (rest'.length + 2)) rest' with
          | error k => rw [hv] at h; cases h
          | ok x1 r1 =>
            rw [hv] at h
            simp only at h
            obtain ⟨hx1, hr1⟩ := ihv _ _ _ _ _ hv hsuf' hw
            have hsk := skipTerminator_suffix r1
            obtain ⟨h1', h2'⟩ := ihs _ _ _ _ h ((hsk.trans hr1).trans hsuf')
              (treesOK_snoc (treesOK_enter hm he) hx1)
            exact ⟨h1', ((h2'.trans hsk).trans hr1).trans
              ((List.suffix_cons _ _).trans (List.suffix_cons _ _))⟩
      | noAssign nm rest' hne =>
        rw [settingsP_noAssign _ _ _ _ _ _ hne] at h
        cases he : enter o m nm with
        | none => rw [he] at h; cases h
        | some m' => rw [he] at h; cases h
      | other _ hne =>
        rw [settingsP_other _ _ _ _ _ hne] at h
        injection h with h1 h2
        rw [← h1, ← h2]
        exact ⟨hm, List.suffix_refl _⟩

/-- **every setting of the provenance tree holds the index of the item it should** -/
theorem denoteProv_ok {o : Options} {toks : List (Nat × TokVal)} {T : Node}
    (h : denoteProv o toks = .ok T) (i : Nat) (p : Path) (m : Node)
    (hm : T.get? (i :: p) = some m) : NodeOK (toks.map itemOf) m := by
  obtain ⟨members, hs, rfl⟩ := denoteAt_ok h
  have hst : (fun k => ((toks.length - k, none) : Stamp)) = idxStamp (toks.map itemOf) := by
    funext k
    unfold idxStamp
    rw [List.length_map]
  rw [hst] at hs
  obtain ⟨hall, _⟩ := (oks (toks.map itemOf) o (toks.length + 1)).2.2 [] _ members [] hs
    (List.suffix_refl _) (treesOK_nil _)
  rw [get?_stamped, C04.get?_cons] at hm
  show NodeOK _ m
  cases hi : members[i]? with
  | none =>
    have : ({ ty := T_GROUP, kids := members } : Node).kids[i]? = none := hi
    rw [this] at hm
    cases hm
  | some k =>
    have : ({ ty := T_GROUP, kids := members } : Node).kids[i]? = some k := hi
    rw [this] at hm
    exact hall k (List.mem_of_getElem? hi) p m hm

theorem nodeOK_congr {all : List Denote.Item} {a b : Node} (h1 : a.name = b.name)
    (h2 : a.ty = b.ty) (h3 : a.line = b.line) (h4 : a.fmt = b.fmt) (h5 : a.ival = b.ival)
    (h6 : a.fval = b.fval) (h : NodeOK all a) : NodeOK all b := by
  cases a
  cases b
  simp only at h1 h2 h3 h4 h5 h6
  subst h1
  subst h2
  subst h3
  subst h4
  subst h5
  subst h6
  exact h

/-- **the token `provIndex` names, for the settings of the tree `denote` computes** -/
theorem provIndex_ok {o : Options} {toks : List (Nat × TokVal)} {t : Node}
    (h : denote o toks = .ok t) {p : Path} {m : Node} {i : Nat} (hm : t.get? p = some m)
    (hi : provIndex o toks p = some i) : NodeOK (toks.map itemOf) { m with line := i } := by
  obtain ⟨T, hT, hst⟩ := denoteAt_of_denote (fun i => (i, none)) (0, none) h
  have hT' : denoteProv o toks = .ok T := hT
  cases p with
  | nil =>
    unfold provIndex at hi
    cases hi
  | cons j q =>
    unfold provIndex at hi
    rw [hT'] at hi
    simp only at hi
    cases hM : T.get? (j :: q) with
    | none => rw [hM] at hi; cases hi
    | some M =>
      rw [hM] at hi
      simp only [Option.map_some, Option.some.injEq] at hi
      rw [← hst, stripPos_restamp, get?_restamp, hM] at hm
      simp only [Option.map_some, Option.some.injEq] at hm
      have hok := denoteProv_ok hT' j q M hM
      rw [← hm, restamp_eq]
      exact nodeOK_congr (a := M) rfl rfl hi rfl rfl rfl hok

end Libconfig.C10Prov
