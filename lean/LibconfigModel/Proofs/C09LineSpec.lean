import LibconfigModel.DenotePos
import LibconfigModel.Proofs.C02DenoteSpec
/-
  C09L, specification side in the form the proofs use: unfolding lemmas for the interpreter of
  DenotePos.lean (the one that tells where), that forgetting "where" gives the interpreter of
  Denote.lean, that the items it points at are a suffix of the items it was given, and what the
  last literal of a run of string literals is.  Nothing here mentions the parser.
-/
namespace Libconfig.C09L
open Libconfig Denote C02D

/-! ### unfolding lemmas -/

theorem valueAt_zero (o : Options) (nm : Option Bytes) (items : List Denote.Item) :
    valueAt o 0 nm items = .error .syntax items := by
  rw [valueAt]

theorem valueAt_arr_nil (o : Options) (fuel : Nat) (nm : Option Bytes) (r : List Denote.Item) :
    valueAt o (fuel + 1) nm (.arrayStart :: .arrayEnd :: r) = .ok { name := nm, ty := T_ARRAY } r := by
  rw [valueAt]

theorem valueAt_arr (o : Options) (fuel : Nat) (nm : Option Bytes) (rest : List Denote.Item)
    (h : ∀ r, rest ≠ .arrayEnd :: r) :
    valueAt o (fuel + 1) nm (.arrayStart :: rest) =
      match scalar none rest with
      | none => .error .syntax rest
      | some (x, rest') =>
        match arrayRestAt x.ty fuel [x] rest' with
        | .error k w => .error k w
        | .ok elems rest'' => .ok { name := nm, ty := T_ARRAY, kids := elems } rest'' := by
  rw [valueAt]
  · rfl
  · exact fun r hr => h r hr

theorem valueAt_lst_nil (o : Options) (fuel : Nat) (nm : Option Bytes) (r : List Denote.Item) :
    valueAt o (fuel + 1) nm (.listStart :: .listEnd :: r) = .ok { name := nm, ty := T_LIST } r := by
  rw [valueAt]

theorem valueAt_lst (o : Options) (fuel : Nat) (nm : Option Bytes) (rest : List Denote.Item)
    (h : ∀ r, rest ≠ .listEnd :: r) :
    valueAt o (fuel + 1) nm (.listStart :: rest) =
      match valueAt o fuel none rest with
      | .error k w => .error k w
      | .ok x rest' =>
        match listRestAt o fuel [x] rest' with
        | .error k w => .error k w
        | .ok elems rest'' => .ok { name := nm, ty := T_LIST, kids := elems } rest'' := by
  rw [valueAt]
  · rfl
  · exact fun r hr => h r hr

theorem valueAt_grp (o : Options) (fuel : Nat) (nm : Option Bytes) (rest : List Denote.Item) :
    valueAt o (fuel + 1) nm (.groupStart :: rest) =
      match settingsAt o fuel [] rest with
      | .error k w => .error k w
      | .ok members (.groupEnd :: rest') => .ok { name := nm, ty := T_GROUP, kids := members } rest'
      | .ok _ rest' => .error .syntax rest' := by
  rw [valueAt]
  rfl

theorem valueAt_other (o : Options) (fuel : Nat) (nm : Option Bytes) (items : List Denote.Item)
    (h1 : ∀ r, items ≠ .arrayStart :: r) (h2 : ∀ r, items ≠ .listStart :: r)
    (h3 : ∀ r, items ≠ .groupStart :: r) :
    valueAt o (fuel + 1) nm items =
      match scalar nm items with
      | some (x, rest) => .ok x rest
      | none => .error .syntax items := by
  rw [valueAt]
  · rfl
  · exact fun r h => h1 r h
  · exact fun r h => h2 r h
  · exact fun r h => h3 r h

theorem listRestAt_zero (o : Options) (acc : List Node) (items : List Denote.Item) :
    listRestAt o 0 acc items = .error .syntax items := by
  rw [listRestAt]

theorem listRestAt_done (o : Options) (fuel : Nat) (acc : List Node) (r : List Denote.Item) :
    listRestAt o (fuel + 1) acc (.listEnd :: r) = .ok acc r := by
  rw [listRestAt]

theorem listRestAt_skip (o : Options) (fuel : Nat) (acc : List Node) (rest : List Denote.Item)
    (h : (∃ r, rest = .comma :: r) ∨ (∃ r, rest = .listEnd :: r)) :
    listRestAt o (fuel + 1) acc (.comma :: rest) = listRestAt o fuel acc rest := by
  rcases h with ⟨r, rfl⟩ | ⟨r, rfl⟩ <;> rw [listRestAt]

theorem listRestAt_value (o : Options) (fuel : Nat) (acc : List Node) (rest : List Denote.Item)
    (h1 : ∀ r, rest ≠ .listEnd :: r) (h2 : ∀ r, rest ≠ .comma :: r) :
    listRestAt o (fuel + 1) acc (.comma :: rest) =
      match valueAt o fuel none rest with
      | .error k w => .error k w
      | .ok x rest' => listRestAt o fuel (acc ++ [x]) rest' := by
  rw [listRestAt]
  · rfl
  · exact fun r h => h2 r h
  · exact fun r h => h1 r h

theorem listRestAt_other (o : Options) (fuel : Nat) (acc : List Node) (items : List Denote.Item)
    (h1 : ∀ r, items ≠ .listEnd :: r) (h2 : ∀ r, items ≠ .comma :: r) :
    listRestAt o (fuel + 1) acc items = .error .syntax items := by
  rw [listRestAt]
  · exact fun r h => h1 r h
  · exact fun r h => h2 r h

theorem arrayRestAt_zero (ty : Nat) (acc : List Node) (items : List Denote.Item) :
    arrayRestAt ty 0 acc items = .error .syntax items := by
  rw [arrayRestAt]

theorem arrayRestAt_done (ty fuel : Nat) (acc : List Node) (r : List Denote.Item) :
    arrayRestAt ty (fuel + 1) acc (.arrayEnd :: r) = .ok acc r := by
  rw [arrayRestAt]

theorem arrayRestAt_comma (ty fuel : Nat) (acc : List Node) (rest : List Denote.Item) :
    arrayRestAt ty (fuel + 1) acc (.comma :: rest) =
      match scalar none rest with
      | none => arrayRestAt ty fuel acc rest
      | some (x, rest') =>
        if x.ty ≠ ty then .error .arrayElemType (lastLiteral rest)
        else arrayRestAt ty fuel (acc ++ [x]) rest' := by
  rw [arrayRestAt]
  rfl

theorem arrayRestAt_other (ty fuel : Nat) (acc : List Node) (items : List Denote.Item)
    (h1 : ∀ r, items ≠ .arrayEnd :: r) (h2 : ∀ r, items ≠ .comma :: r) :
    arrayRestAt ty (fuel + 1) acc items = .error .syntax items := by
  rw [arrayRestAt]
  · exact fun r h => h1 r h
  · exact fun r h => h2 r h

theorem settingsAt_zero (o : Options) (m : List Node) (items : List Denote.Item) :
    settingsAt o 0 m items = .error .syntax items := by
  rw [settingsAt]

theorem settingsAt_name (o : Options) (fuel : Nat) (members : List Node) (nm : Bytes)
    (rest : List Denote.Item) :
    settingsAt o (fuel + 1) members (.name nm :: rest) =
      match enter o members nm with
      | none => .error .duplicateName (.name nm :: rest)
      | some members' =>
        match rest with
        | .assign :: rest' =>
          match valueAt o fuel (some nm) rest' with
          | .error k w => .error k w
          | .ok x rest'' => settingsAt o fuel (members' ++ [x]) (skipTerminator rest'')
        | _ => .error .syntax rest := by
  rw [settingsAt]
  rfl

theorem settingsAt_noAssign (o : Options) (fuel : Nat) (members : List Node) (nm : Bytes)
    (rest : List Denote.Item) (h : ∀ r, rest ≠ .assign :: r) :
    settingsAt o (fuel + 1) members (.name nm :: rest) =
      match enter o members nm with
      | none => .error .duplicateName (.name nm :: rest)
      | some _ => .error .syntax rest := by
  rw [settingsAt_name]
  cases enter o members nm with
  | none => rfl
  | some m' =>
    cases rest with
    | nil => rfl
    | cons it tl =>
      cases it
      case assign => exact absurd rfl (h _)
      all_goals rfl

theorem settingsAt_setting (o : Options) (fuel : Nat) (members : List Node) (nm : Bytes)
    (rest : List Denote.Item) :
    settingsAt o (fuel + 1) members (.name nm :: .assign :: rest) =
      match enter o members nm with
      | none => .error .duplicateName (.name nm :: .assign :: rest)
      | some members' =>
        match valueAt o fuel (some nm) rest with
        | .error k w => .error k w
        | .ok x rest'' => settingsAt o fuel (members' ++ [x]) (skipTerminator rest'') := by
  rw [settingsAt_name]

theorem settingsAt_other (o : Options) (fuel : Nat) (members : List Node) (items : List Denote.Item)
    (h : ∀ nm r, items ≠ .name nm :: r) :
    settingsAt o (fuel + 1) members items = .ok members items := by
  rw [settingsAt]
  exact fun nm r hr => h nm r hr

/-! ### forgetting where: the interpreter of Denote.lean -/

theorem erase_arrayRest (ty : Nat) : ∀ (fuel : Nat) (acc : List Node) (items : List Denote.Item),
    (arrayRestAt ty fuel acc items).erase = arrayRest ty fuel acc items := by
  intro fuel
  induction fuel with
  | zero => intro acc items; rw [arrayRestAt_zero, arrayRest_zero]; rfl
  | succ fuel ih =>
    intro acc items
    cases arrayRestView items with
    | done r' => rw [arrayRestAt_done, arrayRest_done]; rfl
    | comma rest' =>
      rw [arrayRestAt_comma, arrayRest_comma]
      cases hs : scalar none rest' with
      | none => exact ih _ _
      | some p =>
        obtain ⟨x, r1⟩ := p
        simp only
        split
        · rfl
        · exact ih _ _
    | other _ h1 h2 => rw [arrayRestAt_other _ _ _ _ h1 h2, arrayRest_other _ _ _ _ h1 h2]; rfl

theorem erases (o : Options) : ∀ fuel : Nat,
    (∀ nm items, (valueAt o fuel nm items).erase = value o fuel nm items) ∧
    (∀ acc items, (listRestAt o fuel acc items).erase = listRest o fuel acc items) ∧
    (∀ m items, (settingsAt o fuel m items).erase = settings o fuel m items) := by
  intro fuel
  induction fuel with
  | zero =>
    refine ⟨?_, ?_, ?_⟩
    · intro nm items; rw [valueAt_zero, value_zero]; rfl
    · intro acc items; rw [listRestAt_zero, listRest_zero]; rfl
    · intro m items; rw [settingsAt_zero, settings_zero]; rfl
  | succ fuel ih =>
    obtain ⟨ihv, ihl, ihs⟩ := ih
    refine ⟨?_, ?_, ?_⟩
    · intro nm items
      cases valueView items with
      | arrNil r => rw [valueAt_arr_nil, value_arr_nil]; rfl
      | arr rest' hne =>
        rw [valueAt_arr _ _ _ _ hne, value_arr _ _ _ _ hne]
        cases hs : scalar none rest' with
        | none => rfl
        | some p =>
          obtain ⟨x, r1⟩ := p
          simp only
          rw [← erase_arrayRest]
          cases arrayRestAt x.ty fuel [x] r1 <;> rfl
      | lstNil r => rw [valueAt_lst_nil, value_lst_nil]; rfl
      | lst rest' hne =>
        rw [valueAt_lst _ _ _ _ hne, value_lst _ _ _ _ hne, ← ihv]
        cases hv : valueAt o fuel none rest' with
        | error k w => rfl
        | ok x r1 =>
          simp only [ResAt.erase]
          rw [← ihl]
          cases listRestAt o fuel [x] r1 <;> rfl
      | grp rest' =>
        rw [valueAt_grp, value_grp, ← ihs]
        cases hs : settingsAt o fuel [] rest' with
        | error k w => rfl
        | ok members r1 =>
          simp only [ResAt.erase]
          cases r1 with
          | nil => rfl
          | cons it tl => cases it <;> rfl
      | other _ h1 h2 h3 =>
        rw [valueAt_other _ _ _ _ h1 h2 h3, value_other _ _ _ _ h1 h2 h3]
        cases scalar nm items with
        | none => rfl
        | some p => rfl
    · intro acc items
      cases listRestView items with
      | done r' => rw [listRestAt_done, listRest_done]; rfl
      | comma rest' =>
        cases listRestView rest' with
        | done r' =>
          rw [listRestAt_skip _ _ _ _ (.inr ⟨_, rfl⟩), listRest_skip _ _ _ _ (.inr ⟨_, rfl⟩)]
          exact ihl _ _
        | comma r' =>
          rw [listRestAt_skip _ _ _ _ (.inl ⟨_, rfl⟩), listRest_skip _ _ _ _ (.inl ⟨_, rfl⟩)]
          exact ihl _ _
        | other _ h1 h2 =>
          rw [listRestAt_value _ _ _ _ h1 h2, listRest_value _ _ _ _ h1 h2, ← ihv]
          cases hv : valueAt o fuel none rest' with
          | error k w => rfl
          | ok x r1 =>
            simp only [ResAt.erase]
            exact ihl _ _
      | other _ h1 h2 => rw [listRestAt_other _ _ _ _ h1 h2, listRest_other _ _ _ _ h1 h2]; rfl
    · intro m items
      cases settingsView items with
      | setting nm rest' =>
        rw [settingsAt_setting, settings_setting]
        cases he : enter o m nm with
        | none => rfl
        | some m' =>
          simp only
          rw [← ihv]
          cases hv : valueAt o fuel (some nm) rest' with
          | error k w => rfl
          | ok x r1 =>
            simp only [ResAt.erase]
            exact ihs _ _
      | noAssign nm rest' hne =>
        rw [settingsAt_noAssign _ _ _ _ _ hne, settings_noAssign _ _ _ _ _ hne]
        cases enter o m nm <;> rfl
      | other _ hne => rw [settingsAt_other _ _ _ _ hne, settings_other _ _ _ _ hne]; rfl

theorem erase_ok {α : Type} {r : ResAt α} {a : α} {rest : List Denote.Item} :
    r.erase = .ok a rest ↔ r = .ok a rest := by
  cases r with
  | ok a' rest' =>
    constructor
    · intro h; injection h with h1 h2; rw [h1, h2]
    · intro h; injection h with h1 h2; rw [h1, h2]; rfl
  | error k w =>
    constructor
    · intro h; cases h
    · intro h; cases h

theorem erase_error {α : Type} {r : ResAt α} {k : ErrKind} :
    r.erase = .error k ↔ ∃ w, r = .error k w := by
  cases r with
  | ok a' rest' =>
    constructor
    · intro h; cases h
    · intro ⟨w, h⟩; cases h
  | error k' w' =>
    constructor
    · intro h; injection h with h1; rw [h1]; exact ⟨w', rfl⟩
    · intro ⟨w, h⟩; injection h with h1 h2; rw [h1]; rfl

section
variable {o : Options} {fuel : Nat} {nm : Option Bytes} {items rest : List Denote.Item}

theorem valueAt_ok {x : Node} (h : valueAt o fuel nm items = .ok x rest) :
    value o fuel nm items = .ok x rest := by
  rw [← (erases o fuel).1, h]; rfl

theorem listRestAt_ok {acc r : List Node} (h : listRestAt o fuel acc items = .ok r rest) :
    listRest o fuel acc items = .ok r rest := by
  rw [← (erases o fuel).2.1, h]; rfl

theorem settingsAt_ok {m r : List Node} (h : settingsAt o fuel m items = .ok r rest) :
    settings o fuel m items = .ok r rest := by
  rw [← (erases o fuel).2.2, h]; rfl

theorem arrayRestAt_ok {ty : Nat} {acc r : List Node} (h : arrayRestAt ty fuel acc items = .ok r rest) :
    arrayRest ty fuel acc items = .ok r rest := by
  rw [← erase_arrayRest, h]; rfl

end

/-! ### the unfolding lemmas, resolved -/

section
variable {o : Options} {fuel : Nat} {nm : Option Bytes} {rest r1 r2 w : List Denote.Item}
  {x : Node} {k : ErrKind}

theorem valueAt_arr_none (hne : ∀ r, rest ≠ .arrayEnd :: r) (hs : scalar none rest = none) :
    valueAt o (fuel + 1) nm (.arrayStart :: rest) = .error .syntax rest := by
  rw [valueAt_arr _ _ _ _ hne, hs]

theorem valueAt_arr_err (hne : ∀ r, rest ≠ .arrayEnd :: r) (hs : scalar none rest = some (x, r1))
    (ha : arrayRestAt x.ty fuel [x] r1 = .error k w) :
    valueAt o (fuel + 1) nm (.arrayStart :: rest) = .error k w := by
  rw [valueAt_arr _ _ _ _ hne, hs]
  simp only
  rw [ha]

theorem valueAt_arr_ok {elems : List Node} (hne : ∀ r, rest ≠ .arrayEnd :: r)
    (hs : scalar none rest = some (x, r1)) (ha : arrayRestAt x.ty fuel [x] r1 = .ok elems r2) :
    valueAt o (fuel + 1) nm (.arrayStart :: rest) =
      .ok { name := nm, ty := T_ARRAY, kids := elems } r2 := by
  rw [valueAt_arr _ _ _ _ hne, hs]
  simp only
  rw [ha]

theorem valueAt_lst_err1 (hne : ∀ r, rest ≠ .listEnd :: r)
    (hv : valueAt o fuel none rest = .error k w) :
    valueAt o (fuel + 1) nm (.listStart :: rest) = .error k w := by
  rw [valueAt_lst _ _ _ _ hne, hv]

theorem valueAt_lst_err2 (hne : ∀ r, rest ≠ .listEnd :: r)
    (hv : valueAt o fuel none rest = .ok x r1) (hl : listRestAt o fuel [x] r1 = .error k w) :
    valueAt o (fuel + 1) nm (.listStart :: rest) = .error k w := by
  rw [valueAt_lst _ _ _ _ hne, hv]
  simp only
  rw [hl]

theorem valueAt_lst_ok {elems : List Node} (hne : ∀ r, rest ≠ .listEnd :: r)
    (hv : valueAt o fuel none rest = .ok x r1) (hl : listRestAt o fuel [x] r1 = .ok elems r2) :
    valueAt o (fuel + 1) nm (.listStart :: rest) =
      .ok { name := nm, ty := T_LIST, kids := elems } r2 := by
  rw [valueAt_lst _ _ _ _ hne, hv]
  simp only
  rw [hl]

theorem valueAt_grp_err (hs : settingsAt o fuel [] rest = .error k w) :
    valueAt o (fuel + 1) nm (.groupStart :: rest) = .error k w := by
  rw [valueAt_grp, hs]

theorem valueAt_grp_ok {members : List Node}
    (hs : settingsAt o fuel [] rest = .ok members (.groupEnd :: r2)) :
    valueAt o (fuel + 1) nm (.groupStart :: rest) =
      .ok { name := nm, ty := T_GROUP, kids := members } r2 := by
  rw [valueAt_grp, hs]

theorem valueAt_grp_bad {members : List Node} (hs : settingsAt o fuel [] rest = .ok members r1)
    (h : ∀ r, r1 ≠ .groupEnd :: r) :
    valueAt o (fuel + 1) nm (.groupStart :: rest) = .error .syntax r1 := by
  rw [valueAt_grp, hs]
  cases r1 with
  | nil => rfl
  | cons it tl =>
    cases it
    case groupEnd => exact absurd rfl (h _)
    all_goals rfl

theorem valueAt_other_none {items : List Denote.Item} (h1 : ∀ r, items ≠ .arrayStart :: r)
    (h2 : ∀ r, items ≠ .listStart :: r) (h3 : ∀ r, items ≠ .groupStart :: r)
    (hs : scalar nm items = none) : valueAt o (fuel + 1) nm items = .error .syntax items := by
  rw [valueAt_other _ _ _ _ h1 h2 h3, hs]

theorem valueAt_other_some {items : List Denote.Item} (h1 : ∀ r, items ≠ .arrayStart :: r)
    (h2 : ∀ r, items ≠ .listStart :: r) (h3 : ∀ r, items ≠ .groupStart :: r)
    (hs : scalar nm items = some (x, r1)) : valueAt o (fuel + 1) nm items = .ok x r1 := by
  rw [valueAt_other _ _ _ _ h1 h2 h3, hs]

theorem listRestAt_value_err {acc : List Node} (h1 : ∀ r, rest ≠ .listEnd :: r)
    (h2 : ∀ r, rest ≠ .comma :: r) (hv : valueAt o fuel none rest = .error k w) :
    listRestAt o (fuel + 1) acc (.comma :: rest) = .error k w := by
  rw [listRestAt_value _ _ _ _ h1 h2, hv]

theorem listRestAt_value_ok {acc : List Node} (h1 : ∀ r, rest ≠ .listEnd :: r)
    (h2 : ∀ r, rest ≠ .comma :: r) (hv : valueAt o fuel none rest = .ok x r1) :
    listRestAt o (fuel + 1) acc (.comma :: rest) = listRestAt o fuel (acc ++ [x]) r1 := by
  rw [listRestAt_value _ _ _ _ h1 h2, hv]

theorem settingsAt_setting_dup {m : List Node} {n : Bytes} (he : enter o m n = none) :
    settingsAt o (fuel + 1) m (.name n :: rest) = .error .duplicateName (.name n :: rest) := by
  rw [settingsAt_name, he]

theorem settingsAt_setting_err {m m' : List Node} {n : Bytes} (he : enter o m n = some m')
    (hv : valueAt o fuel (some n) rest = .error k w) :
    settingsAt o (fuel + 1) m (.name n :: .assign :: rest) = .error k w := by
  rw [settingsAt_setting, he]
  simp only
  rw [hv]

theorem settingsAt_setting_ok {m m' : List Node} {n : Bytes} (he : enter o m n = some m')
    (hv : valueAt o fuel (some n) rest = .ok x r1) :
    settingsAt o (fuel + 1) m (.name n :: .assign :: rest) =
      settingsAt o fuel (m' ++ [x]) (skipTerminator r1) := by
  rw [settingsAt_setting, he]
  simp only
  rw [hv]

theorem settingsAt_noAssign_syn {m m' : List Node} {n : Bytes} (h : ∀ r, rest ≠ .assign :: r)
    (he : enter o m n = some m') :
    settingsAt o (fuel + 1) m (.name n :: rest) = .error .syntax rest := by
  rw [settingsAt_noAssign _ _ _ _ _ h, he]

end

/-! ### the last literal of a string -/

theorem lastLiteral_string_string (s s' : Bytes) (tl : List Denote.Item) :
    lastLiteral (.string s :: .string s' :: tl) = lastLiteral (.string s' :: tl) := by
  rw [lastLiteral]

theorem lastLiteral_string_other (s : Bytes) (tl : List Denote.Item)
    (h : ∀ s' r, tl ≠ .string s' :: r) : lastLiteral (.string s :: tl) = .string s :: tl := by
  rw [lastLiteral]
  exact fun s' r hr => h s' r hr

theorem lastLiteral_other (l : List Denote.Item) (h : ∀ s r, l ≠ .string s :: r) :
    lastLiteral l = l := by
  rw [lastLiteral]
  exact fun s r hr => h s r hr

/-- the last of the adjacent string literals in front stands right in front of what follows the
run of literals -/
theorem lastLiteral_strings (tl : List Denote.Item) : ∀ s : Bytes,
    ∃ s', lastLiteral (.string s :: tl) = .string s' :: (strings tl).2 := by
  induction tl with
  | nil =>
    intro s
    exact ⟨s, by rw [lastLiteral_string_other _ _ (fun _ _ h => by cases h),
      strings_other _ (fun _ _ h => by cases h)]⟩
  | cons it tl ih =>
    intro s
    cases it
    case string s2 =>
      obtain ⟨s', h⟩ := ih s2
      exact ⟨s', by rw [lastLiteral_string_string, h, strings_cons]⟩
    all_goals
      exact ⟨s, by rw [lastLiteral_string_other _ _ (fun _ _ h => by cases h),
        strings_other _ (fun _ _ h => by cases h)]⟩

/-- the last token of a scalar stands right in front of what follows the scalar; it is a string
literal exactly if the scalar is a string -/
theorem lastLiteral_scalar {nm : Option Bytes} {items rest : List Denote.Item} {x : Node}
    (h : scalar nm items = some (x, rest)) :
    ∃ it, lastLiteral items = it :: rest ∧
      ((∃ s, it = .string s) ↔ x.ty = T_STRING) := by
  cases items with
  | nil => simp [scalar] at h
  | cons it tl =>
    cases it
    case string s =>
      simp only [scalar, Option.some.injEq, Prod.mk.injEq] at h
      obtain ⟨s', hs'⟩ := lastLiteral_strings tl s
      refine ⟨.string s', by rw [hs', h.2], ?_⟩
      rw [← h.1]
      exact ⟨fun _ => rfl, fun _ => ⟨s', rfl⟩⟩
    all_goals
      simp only [scalar, Option.some.injEq, Prod.mk.injEq, reduceCtorEq] at h
    all_goals
      refine ⟨_, by rw [lastLiteral_other _ (fun _ _ h => by cases h), h.2], ?_⟩
      rw [← h.1]
      constructor
      · intro ⟨s, hs⟩
        cases hs
      · intro hty
        exfalso
        dsimp only at hty
        revert hty
        decide

/-! ### what is pointed at is a suffix of what was given -/

theorem strings_suffix (l : List Denote.Item) : (strings l).2 <:+ l := by
  induction l with
  | nil => rw [strings_other _ (fun _ _ h => by cases h)]; exact List.suffix_refl _
  | cons it tl ih =>
    cases it
    case string s =>
      rw [strings_cons]
      exact ih.trans (List.suffix_cons _ _)
    all_goals
      rw [strings_other _ (fun _ _ h => by cases h)]
      exact List.suffix_refl _

theorem scalar_suffix {nm : Option Bytes} {items rest : List Denote.Item} {x : Node}
    (h : scalar nm items = some (x, rest)) : rest <:+ items := by
  cases items with
  | nil => simp [scalar] at h
  | cons it tl =>
    cases it
    case string s =>
      simp only [scalar, Option.some.injEq, Prod.mk.injEq] at h
      rw [← h.2]
      exact (strings_suffix tl).trans (List.suffix_cons _ _)
    all_goals
      simp only [scalar, Option.some.injEq, Prod.mk.injEq, reduceCtorEq] at h
    all_goals
      rw [← h.2]
      exact List.suffix_cons _ _

theorem lastLiteral_suffix (l : List Denote.Item) : lastLiteral l <:+ l := by
  induction l with
  | nil => rw [lastLiteral_other _ (fun _ _ h => by cases h)]; exact List.suffix_refl _
  | cons it tl ih =>
    cases it
    case string s =>
      cases tl with
      | nil =>
        rw [lastLiteral_string_other _ _ (fun _ _ h => by cases h)]
        exact List.suffix_refl _
      | cons it2 tl2 =>
        cases it2
        case string s2 =>
          rw [lastLiteral_string_string]
          exact ih.trans (List.suffix_cons _ _)
        all_goals
          rw [lastLiteral_string_other _ _ (fun _ _ h => by cases h)]
          exact List.suffix_refl _
    all_goals
      rw [lastLiteral_other _ (fun _ _ h => by cases h)]
      exact List.suffix_refl _

theorem skipTerminator_suffix (l : List Denote.Item) : skipTerminator l <:+ l := by
  cases l with
  | nil => exact List.suffix_refl _
  | cons it tl =>
    cases it
    case semicolon => rw [skipTerminator]; exact List.suffix_cons _ _
    case comma => rw [skipTerminator]; exact List.suffix_cons _ _
    all_goals exact List.suffix_refl _

/-- what a result points at: the rest, or the items from the offending one on -/
def ResAt.tail {α : Type} : ResAt α → List Denote.Item
  | .ok _ rest => rest
  | .error _ w => w

theorem arrayRestAt_suffix (ty : Nat) : ∀ (fuel : Nat) (acc : List Node) (items : List Denote.Item),
    ResAt.tail (arrayRestAt ty fuel acc items) <:+ items := by
  intro fuel
  induction fuel with
  | zero => intro acc items; rw [arrayRestAt_zero]; exact List.suffix_refl _
  | succ fuel ih =>
    intro acc items
    cases arrayRestView items with
    | done r' => rw [arrayRestAt_done]; exact List.suffix_cons _ _
    | comma rest' =>
      rw [arrayRestAt_comma]
      cases hs : scalar none rest' with
      | none => exact (ih _ _).trans (List.suffix_cons _ _)
      | some p =>
        obtain ⟨x, r1⟩ := p
        simp only
        split
        · exact (lastLiteral_suffix _).trans (List.suffix_cons _ _)
        · exact ((ih _ _).trans (scalar_suffix hs)).trans (List.suffix_cons _ _)
    | other _ h1 h2 => rw [arrayRestAt_other _ _ _ _ h1 h2]; exact List.suffix_refl _

theorem suffixes (o : Options) : ∀ fuel : Nat,
    (∀ nm items, ResAt.tail (valueAt o fuel nm items) <:+ items) ∧
    (∀ acc items, ResAt.tail (listRestAt o fuel acc items) <:+ items) ∧
    (∀ m items, ResAt.tail (settingsAt o fuel m items) <:+ items) := by
  intro fuel
  induction fuel with
  | zero =>
    refine ⟨?_, ?_, ?_⟩
    · intro nm items; rw [valueAt_zero]; exact List.suffix_refl _
    · intro acc items; rw [listRestAt_zero]; exact List.suffix_refl _
    · intro m items; rw [settingsAt_zero]; exact List.suffix_refl _
  | succ fuel ih =>
    obtain ⟨ihv, ihl, ihs⟩ := ih
    refine ⟨?_, ?_, ?_⟩
    · intro nm items
      cases valueView items with
      | arrNil r =>
        rw [valueAt_arr_nil]
        exact (List.suffix_cons _ _).trans (List.suffix_cons _ _)
      | arr rest' hne =>
        rw [valueAt_arr _ _ _ _ hne]
        cases hs : scalar none rest' with
        | none => exact List.suffix_cons _ _
        | some p =>
          obtain ⟨x, r1⟩ := p
          simp only
          have h := arrayRestAt_suffix x.ty fuel [x] r1
          have h2 := (h.trans (scalar_suffix hs)).trans (List.suffix_cons Denote.Item.arrayStart _)
          cases ha : arrayRestAt x.ty fuel [x] r1 <;> rw [ha] at h2 <;> exact h2
      | lstNil r =>
        rw [valueAt_lst_nil]
        exact (List.suffix_cons _ _).trans (List.suffix_cons _ _)
      | lst rest' hne =>
        rw [valueAt_lst _ _ _ _ hne]
        have h := ihv none rest'
        cases hv : valueAt o fuel none rest' with
        | error k w =>
          rw [hv] at h
          exact h.trans (List.suffix_cons _ _)
        | ok x r1 =>
          rw [hv] at h
          simp only
          have h2 := ((ihl [x] r1).trans h).trans (List.suffix_cons Denote.Item.listStart _)
          cases hl : listRestAt o fuel [x] r1 <;> rw [hl] at h2 <;> exact h2
      | grp rest' =>
        rw [valueAt_grp]
        have h := (ihs [] rest').trans (List.suffix_cons Denote.Item.groupStart _)
        cases hs : settingsAt o fuel [] rest' with
        | error k w => rw [hs] at h; exact h
        | ok members r1 =>
          rw [hs] at h
          cases r1 with
          | nil => exact h
          | cons it tl =>
            cases it
            case groupEnd => exact (List.suffix_cons _ _).trans h
            all_goals exact h
      | other _ h1 h2 h3 =>
        rw [valueAt_other _ _ _ _ h1 h2 h3]
        cases hs : scalar nm items with
        | none => exact List.suffix_refl _
        | some p =>
          obtain ⟨x, r1⟩ := p
          exact scalar_suffix hs
    · intro acc items
      cases listRestView items with
      | done r' => rw [listRestAt_done]; exact List.suffix_cons _ _
      | comma rest' =>
        cases listRestView rest' with
        | done r' =>
          rw [listRestAt_skip _ _ _ _ (.inr ⟨_, rfl⟩)]
          exact (ihl _ _).trans (List.suffix_cons _ _)
        | comma r' =>
          rw [listRestAt_skip _ _ _ _ (.inl ⟨_, rfl⟩)]
          exact (ihl _ _).trans (List.suffix_cons _ _)
        | other _ h1 h2 =>
          rw [listRestAt_value _ _ _ _ h1 h2]
          have h := ihv none rest'
          cases hv : valueAt o fuel none rest' with
          | error k w =>
            rw [hv] at h
            exact h.trans (List.suffix_cons _ _)
          | ok x r1 =>
            rw [hv] at h
            exact ((ihl _ r1).trans h).trans (List.suffix_cons _ _)
      | other _ h1 h2 => rw [listRestAt_other _ _ _ _ h1 h2]; exact List.suffix_refl _
    · intro m items
      cases settingsView items with
      | setting nm rest' =>
        rw [settingsAt_setting]
        cases he : enter o m nm with
        | none => exact List.suffix_refl _
        | some m' =>
          simp only
          have h := ihv (some nm) rest'
          have hc : rest' <:+ Denote.Item.name nm :: Denote.Item.assign :: rest' :=
            (List.suffix_cons _ _).trans (List.suffix_cons _ _)
          cases hv : valueAt o fuel (some nm) rest' with
          | error k w =>
            rw [hv] at h
            exact h.trans hc
          | ok x r1 =>
            rw [hv] at h
            exact (((ihs _ _).trans (skipTerminator_suffix r1)).trans h).trans hc
      | noAssign nm rest' hne =>
        rw [settingsAt_noAssign _ _ _ _ _ hne]
        cases enter o m nm with
        | none => exact List.suffix_refl _
        | some m' => exact List.suffix_cons _ _
      | other _ hne => rw [settingsAt_other _ _ _ _ hne]; exact List.suffix_refl _

/-- the items `offenceAt` points at are a suffix of the items of the text -/
theorem offenceAt_suffix {o : Options} {toks : List (Nat × TokVal)} {k : ErrKind}
    {w : List Denote.Item} (h : offenceAt o toks = some (k, w)) : w <:+ toks.map itemOf := by
  unfold offenceAt at h
  have hs := (suffixes o (toks.length + 1)).2.2 [] (toks.map itemOf)
  split at h
  · rename_i k' w' heq
    rw [heq] at hs
    cases h
    exact hs
  · cases h
  · rename_i m it rest heq
    rw [heq] at hs
    cases h
    exact hs

/-- `offenceAt` and `denote` agree on whether and why the text is rejected -/
theorem offenceAt_denote (o : Options) (toks : List (Nat × TokVal)) :
    (offenceAt o toks).map (·.1) =
      match denote o toks with
      | .ok _ => none
      | .error k => some k := by
  unfold offenceAt denote
  rw [← (erases o (toks.length + 1)).2.2]
  cases settingsAt o (toks.length + 1) [] (toks.map itemOf) with
  | error k w => rfl
  | ok m rest =>
    cases rest with
    | nil => rfl
    | cons it tl => rfl

end Libconfig.C09L
