import LibconfigModel.Properties.C10Splice
import LibconfigModel.Properties.C03Term
import LibconfigModel.Proofs.C03TermStable
/-
  C10F — helpers for Properties/C10SpliceTotal.lean: the last fuel hypothesis of the splice
  theorem (`a.result ≠ .outOfFuel`) is discharged.

  1. The scan with includes returns fewer than `mu` tokens (`lexes_exist_len`): every token
     strictly lowers `mu` (`yylex_total`), so the token sequence of `C10_tokens_exist` is shorter
     than the bound `mu` of the scanner iterations.
  2. With `C03_parse_fuel` (parser loop: `8·|toks| + 10` iterations suffice, for any world): the
     parse performed by `readCore` on the top file does not end `.outOfFuel` once
     `fuel ≥ 8·mu + 10` (`parseOf_top_terminates`); the same for a given token sequence with
     `fuel ≥ max mu (8·|toks| + 10)` (`parseOf_top_terminates_toks`).
  3. The fuel is not observable above the bound: `mu` never grows along a `yylex` call
     (`yylex_total_le`, the proof of `yylex_total` with the end-of-input case kept), so the states
     of the scan stay in a set on which any two fuels `≥ mu` give the same `yylex` results
     (`Live`, `Live₂` for the spliced run); with `loop_lexFuel` and `C03_parse_fuel_stable`:
     `parseOf_top_irrel`, `parseOf_spliced_irrel`, and the reads (`read_file_irrel`,
     `read_spliced_irrel`).
-/
set_option autoImplicit false

namespace Libconfig.C10T

open Libconfig Libconfig.C10 Libconfig.C10S Libconfig.C09P

/-! ### 1. fewer tokens than `mu` -/

/-- `lexes_exist` of Properties/C10Splice.lean with the length of the token sequence: from a
state of the run with includes with `mu ≤ m`, with at least `mu` iterations per call, the scan
reaches end of input after fewer than `m` tokens -/
theorem lexes_exist_len (w : World) (ic : IncludeCfg) (fuel : Nat) :
    ∀ (m : Nat) (s₁ s₂ : ScanState), Rel w ic s₁ s₂ → mu w ic s₁ ≤ m → mu w ic s₁ ≤ fuel →
      ∃ toks, Lexes w ic fuel s₁ toks ∧ toks.length < m := by
  intro m
  induction m with
  | zero =>
    intro s₁ s₂ hrel hm _
    obtain ⟨D, inv, -⟩ := hrel
    have := mu_pos w ic s₁ inv.depth
    omega
  | succ m ih =>
    intro s₁ s₂ hrel hm hf
    obtain ⟨hne, hdec⟩ := yylex_total w ic (mu w ic s₁) s₁ s₂ fuel hrel (Nat.le_refl _) hf
    obtain ⟨hrel', he | ⟨t, v, ht, -⟩⟩ := yylex_sim' w ic fuel fuel s₁ s₂ hrel hne (.inl (Nat.le_refl _))
    · exact ⟨[], .eof he.1, Nat.zero_lt_succ _⟩
    · have hlt := hdec t v ht
      obtain ⟨rest, hrest, hlen⟩ := ih _ _ hrel' (by omega) (by omega)
      exact ⟨(t, v) :: rest, .tok (Prod.ext rfl ht) hrest, by rw [List.length_cons]; omega⟩

/-- `C10_tokens_exist` with the length of the token sequence: it is shorter than the bound `mu`
of the scanner iterations -/
theorem tokens_exist_len (w : World) (ic : IncludeCfg) (top : Option Bytes) (content : Bytes)
    (h : IncludeTreeOK' w ic 10 content) :
    ∃ toks : List (Nat × TokVal), toks.length < mu w ic (scanStart top content) ∧
      ∀ fuel, mu w ic (scanStart top content) ≤ fuel →
        Lexes w ic fuel (scanStart top content) toks ∧
        Lexes w ic fuel (scanStart none (splice w ic 11 content)) toks := by
  have hrel := rel_init w ic top (treeOK_of w ic 10 content h)
  obtain ⟨toks, htoks, hlen⟩ := lexes_exist_len w ic (mu w ic (scanStart top content)) _ _ _ hrel
    (Nat.le_refl _) (Nat.le_refl _)
  refine ⟨toks, hlen, fun fuel hf => ?_⟩
  obtain ⟨k, rfl⟩ : ∃ k, fuel = mu w ic (scanStart top content) + k :=
    ⟨fuel - mu w ic (scanStart top content), by omega⟩
  have h1 := lexes_mono w ic _ k _ _ htoks
  exact ⟨h1, lexes_transfer w ic _ _ (Nat.le_refl _) toks _ _ hrel h1⟩

/-- the token sequence of the scan with includes does not depend on the fuel per call: whatever
sequence a scan that reaches end of input returns, with whatever fuel, it is the one every scan
with fuel `≥ mu` returns -/
theorem lexes_any_fuel (w : World) (ic : IncludeCfg) (top : Option Bytes) (content : Bytes)
    (h : IncludeTreeOK' w ic 10 content) (f₀ : Nat) (toks : List (Nat × TokVal))
    (h0 : Lexes w ic f₀ (scanStart top content) toks) (fuel : Nat)
    (hf : mu w ic (scanStart top content) ≤ fuel) :
    Lexes w ic fuel (scanStart top content) toks := by
  obtain ⟨toks', -, hall⟩ := tokens_exist_len w ic top content h
  obtain ⟨h1, h2⟩ := hall fuel hf
  have := C10_tokens w ic top content f₀ fuel toks toks' h h0 h2
  rw [this]
  exact h1

/-! ### 2. the parse of `readCore` on the top file -/

/-- the include configuration `readCore` hands to the scanner is that of the configuration read
into -/
theorem theEnv_ic (w : World) (c : Config) (filename : Option Bytes) (fuel : Nat) :
    (theEnv w (start c filename) fuel).ic = { fn := c.includeFn, dir := c.includeDir } := rfl

/-- a `Lexes` fact about the start state of `readCore`, as the `LexesTo` fact `C03_parse_fuel`
asks for -/
theorem lexesTo_start (w : World) (c : Config) (filename : Option Bytes) (inp : Bytes) (fuel : Nat)
    (toks : List (Nat × TokVal))
    (h : Lexes w { fn := c.includeFn, dir := c.includeDir } fuel (scanStart filename inp) toks) :
    ∃ s', C02.LexesTo (theEnv w (start c filename) fuel) (scan0 filename inp) toks s' :=
  Lexes.toLexesTo (theEnv w (start c filename) fuel) rfl rfl (scan0 filename inp) toks h

/-- the parse of `readCore` does not end `.outOfFuel` when the scan of its input (fuel `fuel` per
call) reaches end of input after `toks` and `fuel ≥ 8·|toks| + 10` -/
theorem parseOf_terminates_of_lexes (w : World) (c : Config) (filename : Option Bytes) (inp : Bytes)
    (fuel : Nat) (toks : List (Nat × TokVal))
    (h : Lexes w { fn := c.includeFn, dir := c.includeDir } fuel (scanStart filename inp) toks)
    (hf : 8 * toks.length + 10 ≤ fuel) :
    (parseOf w (start c filename) filename inp fuel).2.2 ≠ .outOfFuel := by
  obtain ⟨s', hl⟩ := lexesTo_start w c filename inp fuel toks h
  unfold parseOf
  exact C03.C03_parse_fuel w (start c filename) fuel _ s' _ toks hl fuel hf

/-- … for the top file of an include tree: `8·mu + 10` suffices -/
theorem parseOf_top_terminates (w : World) (c : Config) (top : Option Bytes) (content : Bytes)
    (htree : IncludeTreeOK' w { fn := c.includeFn, dir := c.includeDir } 10 content) (fuel : Nat)
    (hf : 8 * mu w { fn := c.includeFn, dir := c.includeDir } (scanStart top content) + 10 ≤ fuel) :
    (parseOf w (start c top) top content fuel).2.2 ≠ .outOfFuel := by
  obtain ⟨toks, hlen, hall⟩ := tokens_exist_len w _ top content htree
  exact parseOf_terminates_of_lexes w c top content fuel toks (hall fuel (by omega)).1 (by omega)

/-- … and, knowing the tokens (from a scan with any fuel per call), `max mu (8·|toks| + 10)` -/
theorem parseOf_top_terminates_toks (w : World) (c : Config) (top : Option Bytes) (content : Bytes)
    (htree : IncludeTreeOK' w { fn := c.includeFn, dir := c.includeDir } 10 content)
    (f₀ : Nat) (toks : List (Nat × TokVal))
    (h0 : Lexes w { fn := c.includeFn, dir := c.includeDir } f₀ (scanStart top content) toks)
    (fuel : Nat)
    (hmu : mu w { fn := c.includeFn, dir := c.includeDir } (scanStart top content) ≤ fuel)
    (hf : 8 * toks.length + 10 ≤ fuel) :
    (parseOf w (start c top) top content fuel).2.2 ≠ .outOfFuel :=
  parseOf_terminates_of_lexes w c top content fuel toks
    (lexes_any_fuel w _ top content htree f₀ toks h0 fuel hmu) hf

/-- `read` of a file that exists: its `ParseResult` is that of the parse of `readCore` -/
theorem read_file_result (w : World) (c : Config) (top content : Bytes) (fuel : Nat)
    (hopen : w.open? top = some content) :
    (read w c (.file top) fuel).result =
      (parseOf w (start c (some top)) (some top) content fuel).2.2 := by
  simp only [read, hopen]
  rfl

/-! ### 3. the fuel is not observable -/

section
variable (w : World) (ic : IncludeCfg)

/-- `yylex_total` with the bound kept in every case: a call with at least `mu` iterations does
not run out of fuel and ends in a state whose `mu` is not larger (strictly smaller if a token is
returned: `yylex_total`; at end of input the state is unchanged) -/
theorem yylex_total_le : ∀ (m : Nat) (s₁ s₂ : ScanState) (fuel : Nat), Rel w ic s₁ s₂ →
    mu w ic s₁ ≤ m → m ≤ fuel →
    (yylex T acts w ic fuel s₁).2 ≠ .outOfFuel ∧
    mu w ic (yylex T acts w ic fuel s₁).1 ≤ mu w ic s₁ := by
  intro m
  induction m using Nat.strongRecOn with
  | _ m ih =>
    intro s₁ s₂ fuel hrel hm hfuel
    have hrel' := hrel
    obtain ⟨D, inv, hsc, hstr, hstk, hrest, hbol⟩ := hrel'
    have hpos := mu_pos w ic s₁ inv.depth
    have hsc5 : s₁.sc < 5 := by rcases inv.sc01 with h | h <;> rw [h] <;> decide
    have step : ∀ (s' : ScanState) (n' : Nat),
        yylex T acts w ic fuel s₁ = yylex T acts w ic n' s' → ∀ s₂', Rel w ic s' s₂' →
        mu w ic s' < mu w ic s₁ → mu w ic s' ≤ n' →
        (yylex T acts w ic fuel s₁).2 ≠ .outOfFuel ∧
        mu w ic (yylex T acts w ic fuel s₁).1 ≤ mu w ic s₁ := by
      intro s' n' heq s₂' hR hlt hn'
      rw [heq]
      obtain ⟨h1, h2⟩ := ih (mu w ic s') (by omega) s' s₂' n' hR (Nat.le_refl _) hn'
      exact ⟨h1, by omega⟩
    by_cases hre : s₁.buf.rest = []
    · have hnext : Flex.next T s₁.sc s₁.buf.bol s₁.buf.rest = none := by
        rw [hre]; exact next_nil _ hsc5 _
      obtain ⟨n, rfl⟩ : ∃ n, fuel = n + 1 := ⟨fuel - 1, by omega⟩
      cases hst : s₁.stack with
      | nil =>
        rw [yylex_eof_top T acts w ic n s₁ hnext hst]
        exact ⟨by simp, Nat.le_refl _⟩
      | cons f fs =>
        cases hq : f.files[f.cur + 1]? with
        | none =>
          have hmu := mu_pop w ic inv.depth hre hst hq (s₁.events ++ closeEv f ++ [.delBuf])
          exact step _ n (yylex_eof_pop T acts w ic n s₁ f fs hnext hst hq) s₂
            (rel_pop w ic hrel hre hst hq _) (by omega) (by omega)
        | some q =>
          obtain ⟨c, hc, hR⟩ := rel_next w ic hrel hre hst hq
          have hmu := mu_next w ic inv.depth hre hst hq hc
            (s₁.events ++ closeEv f ++ [.fopen q true] ++ [.delBuf, .newBuf])
          exact step _ n (yylex_eof_next T acts w ic n s₁ f fs q c hnext hst hq hc) s₂
            (hR _) (by omega) (by omega)
    · cases hd : directive? (firstLine s₁.buf.rest) with
      | some x =>
        obtain ⟨s₁', k, hk, hk3, hsteps, hR, hmu⟩ := rel_directive w ic hrel hd
        obtain ⟨n, rfl⟩ : ∃ n, fuel = n + k := ⟨fuel - k, by omega⟩
        exact step s₁' n (hsteps n) s₂ hR (by omega) (by omega)
      | none =>
        obtain ⟨r, n, hn₁, hn₂, hsimple, htk, hmu, hpost⟩ := rel_unit w ic hrel hre hd
        obtain ⟨n₁, rfl⟩ : ∃ n, fuel = n + 1 := ⟨fuel - 1, by omega⟩
        have heq := yylex_simple T acts w ic n₁ s₁ r n hn₁ hsimple
        generalize ho : simpleOut (acts.getD r .unknown) s₁.sc (s₁.buf.rest.take n) = out at heq
        obtain ⟨sc', o⟩ := out
        have hR := hpost sc' o ho
        have hmu' := hmu sc'
        cases o with
        | none => exact step _ n₁ heq _ hR hmu' (by omega)
        | some tv =>
          obtain ⟨t, v⟩ := tv
          rw [heq]
          exact ⟨by simp, Nat.le_of_lt hmu'⟩

/-- the states of the run with includes whose `mu` is at most `M` -/
def Live (M : Nat) (s : ScanState) : Prop := ∃ s₂, Rel w ic s s₂ ∧ mu w ic s ≤ M

/-- the states of the run over the spliced text that are related to such a state -/
def Live₂ (M : Nat) (s₂ : ScanState) : Prop := ∃ s₁, Rel w ic s₁ s₂ ∧ mu w ic s₁ ≤ M

theorem live_step {M fuel : Nat} (hM : M ≤ fuel) {s : ScanState} (h : Live w ic M s) :
    Live w ic M (yylex T acts w ic fuel s).1 := by
  obtain ⟨s₂, hrel, hmu⟩ := h
  obtain ⟨hne, hle⟩ := yylex_total_le w ic (mu w ic s) s s₂ fuel hrel (Nat.le_refl _) (by omega)
  exact ⟨_, (yylex_sim' w ic fuel fuel s s₂ hrel hne (.inl (Nat.le_refl _))).1, by omega⟩

theorem live₂_step {M fuel : Nat} (hM : M ≤ fuel) {s₂ : ScanState} (h : Live₂ w ic M s₂) :
    Live₂ w ic M (yylex T acts w ic fuel s₂).1 := by
  obtain ⟨s₁, hrel, hmu⟩ := h
  obtain ⟨hne, hle⟩ := yylex_total_le w ic (mu w ic s₁) s₁ s₂ fuel hrel (Nat.le_refl _) (by omega)
  exact ⟨_, (yylex_sim' w ic fuel fuel s₁ s₂ hrel hne (.inl (Nat.le_refl _))).1, by omega⟩

/-- a call that does not run out of fuel with `m` iterations returns the same with any two
fuels `≥ m` -/
theorem yylex_agree_of {m : Nat} {s : ScanState} (hne : (yylex T acts w ic m s).2 ≠ .outOfFuel)
    {fuel fuel' : Nat} (hf : m ≤ fuel) (hf' : m ≤ fuel') :
    yylex T acts w ic fuel' s = yylex T acts w ic fuel s := by
  obtain ⟨k, rfl⟩ : ∃ k, fuel = m + k := ⟨fuel - m, by omega⟩
  obtain ⟨k', rfl⟩ : ∃ k, fuel' = m + k := ⟨fuel' - m, by omega⟩
  rw [yylex_mono T acts w ic m s hne k, yylex_mono T acts w ic m s hne k']

theorem live_agree {M fuel fuel' : Nat} (hM : M ≤ fuel) (hM' : M ≤ fuel') {s : ScanState}
    (h : Live w ic M s) : yylex T acts w ic fuel' s = yylex T acts w ic fuel s := by
  obtain ⟨s₂, hrel, hmu⟩ := h
  obtain ⟨hne, -⟩ := yylex_total_le w ic (mu w ic s) s s₂ (mu w ic s) hrel (Nat.le_refl _) (Nat.le_refl _)
  exact yylex_agree_of w ic hne (by omega) (by omega)

theorem live₂_agree {M fuel fuel' : Nat} (hM : M ≤ fuel) (hM' : M ≤ fuel') {s₂ : ScanState}
    (h : Live₂ w ic M s₂) : yylex T acts w ic fuel' s₂ = yylex T acts w ic fuel s₂ := by
  obtain ⟨s₁, hrel, hmu⟩ := h
  obtain ⟨hne, -⟩ := yylex_total_le w ic (mu w ic s₁) s₁ s₂ (mu w ic s₁) hrel (Nat.le_refl _) (Nat.le_refl _)
  have hsim := (yylex_sim' w ic (mu w ic s₁) (mu w ic s₁) s₁ s₂ hrel hne (.inl (Nat.le_refl _))).2
  have hne₂ : (yylex T acts w ic (mu w ic s₁) s₂).2 ≠ .outOfFuel := by
    rcases hsim with ⟨-, h⟩ | ⟨t, v, -, h⟩ <;> rw [h] <;> simp
  exact yylex_agree_of w ic hne₂ (by omega) (by omega)

end

/-- the parse of `readCore` on the top file of an include tree does not depend on the fuel, above
`8·mu + 10` -/
theorem parseOf_top_irrel (w : World) (c : Config) (top : Option Bytes) (content : Bytes)
    (htree : IncludeTreeOK' w { fn := c.includeFn, dir := c.includeDir } 10 content)
    (fuel fuel' : Nat)
    (hf : 8 * mu w { fn := c.includeFn, dir := c.includeDir } (scanStart top content) + 10 ≤ fuel)
    (hf' : 8 * mu w { fn := c.includeFn, dir := c.includeDir } (scanStart top content) + 10 ≤ fuel') :
    parseOf w (start c top) top content fuel = parseOf w (start c top) top content fuel' := by
  obtain ⟨toks, hlen, hall⟩ := tokens_exist_len w _ top content htree
  obtain ⟨s', hl⟩ := lexesTo_start w c top content fuel toks (hall fuel (by omega)).1
  unfold parseOf
  -- the loop's own fuel
  have h1 := C03.C03_parse_fuel_stable w (start c top) fuel _ s' { cfg := start c top } toks hl
    fuel fuel' (by unfold C03.parseFuel; omega) (by unfold C03.parseFuel; omega)
  -- the scanner's fuel
  have hrel := rel_init w { fn := c.includeFn, dir := c.includeDir } top
    (treeOK_of w _ 10 content htree)
  have h2 := C03T.loop_lexFuel (theEnv w (start c top) fuel) fuel'
    (Live w { fn := c.includeFn, dir := c.includeDir }
      (mu w { fn := c.includeFn, dir := c.includeDir } (scanStart top content)))
    (fun s hJ => live_step w _ (by show _ ≤ fuel; omega) hJ)
    (fun s hJ => live_agree w _ (by show _ ≤ fuel; omega) (by omega) hJ)
    fuel' (C03P.initial (scan0 top content) { cfg := start c top }) ⟨_, hrel, Nat.le_refl _⟩
  exact h1.trans h2.symm

/-- … and the same for the parse of the spliced text -/
theorem parseOf_spliced_irrel (w : World) (c : Config) (top : Option Bytes) (content : Bytes)
    (htree : IncludeTreeOK' w { fn := c.includeFn, dir := c.includeDir } 10 content)
    (fuel fuel' : Nat)
    (hf : 8 * mu w { fn := c.includeFn, dir := c.includeDir } (scanStart top content) + 10 ≤ fuel)
    (hf' : 8 * mu w { fn := c.includeFn, dir := c.includeDir } (scanStart top content) + 10 ≤ fuel') :
    parseOf w (start c none) none (splice w { fn := c.includeFn, dir := c.includeDir } 11 content) fuel =
      parseOf w (start c none) none (splice w { fn := c.includeFn, dir := c.includeDir } 11 content) fuel' := by
  obtain ⟨toks, hlen, hall⟩ := tokens_exist_len w _ top content htree
  obtain ⟨s', hl⟩ := lexesTo_start w c none _ fuel toks (hall fuel (by omega)).2
  unfold parseOf
  have h1 := C03.C03_parse_fuel_stable w (start c none) fuel _ s' { cfg := start c none } toks hl
    fuel fuel' (by unfold C03.parseFuel; omega) (by unfold C03.parseFuel; omega)
  have hrel := rel_init w { fn := c.includeFn, dir := c.includeDir } top
    (treeOK_of w _ 10 content htree)
  have h2 := C03T.loop_lexFuel (theEnv w (start c none) fuel) fuel'
    (Live₂ w { fn := c.includeFn, dir := c.includeDir }
      (mu w { fn := c.includeFn, dir := c.includeDir } (scanStart top content)))
    (fun s hJ => live₂_step w _ (by show _ ≤ fuel; omega) hJ)
    (fun s hJ => live₂_agree w _ (by show _ ≤ fuel; omega) (by omega) hJ)
    fuel' (C03P.initial (scan0 none (splice w { fn := c.includeFn, dir := c.includeDir } 11 content))
      { cfg := start c none }) ⟨_, hrel, Nat.le_refl _⟩
  exact h1.trans h2.symm

/-- the read of the top file returns the same `ReadOut` for every fuel above `8·mu + 10` -/
theorem read_file_irrel (w : World) (c : Config) (top content : Bytes)
    (hopen : w.open? top = some content)
    (htree : IncludeTreeOK' w { fn := c.includeFn, dir := c.includeDir } 10 content)
    (fuel fuel' : Nat)
    (hf : 8 * mu w { fn := c.includeFn, dir := c.includeDir } (scanStart (some top) content) + 10 ≤ fuel)
    (hf' : 8 * mu w { fn := c.includeFn, dir := c.includeDir } (scanStart (some top) content) + 10 ≤ fuel') :
    read w c (.file top) fuel = read w c (.file top) fuel' := by
  have h : readCore w c (some top) content fuel = readCore w c (some top) content fuel' := by
    rw [C03T.readCore_eq, C03T.readCore_eq,
      parseOf_top_irrel w c (some top) content htree fuel fuel' hf hf']
  simp only [read, hopen, h]

/-- … and so does the read of the spliced text -/
theorem read_spliced_irrel (w : World) (c : Config) (top : Option Bytes) (content : Bytes)
    (htree : IncludeTreeOK' w { fn := c.includeFn, dir := c.includeDir } 10 content)
    (fuel fuel' : Nat)
    (hf : 8 * mu w { fn := c.includeFn, dir := c.includeDir } (scanStart top content) + 10 ≤ fuel)
    (hf' : 8 * mu w { fn := c.includeFn, dir := c.includeDir } (scanStart top content) + 10 ≤ fuel') :
    read w c (.string (splice w { fn := c.includeFn, dir := c.includeDir } 11 content)) fuel =
      read w c (.string (splice w { fn := c.includeFn, dir := c.includeDir } 11 content)) fuel' := by
  have hcs := cstr_of_byteText
    (splice_bytes w { fn := c.includeFn, dir := c.includeDir } 10 content (treeOK_of w _ 10 content htree))
  simp only [read, hcs]
  rw [C03T.readCore_eq, C03T.readCore_eq,
    parseOf_spliced_irrel w c top content htree fuel fuel' hf hf']

end Libconfig.C10T
