import LibconfigModel.Proofs.C01LexAuto
/-
  C01L, part 2 — what the certificate `cert_ok` means: the simulation lemmas and the
  statement about `Flex.scan` / `Flex.next` (`scan_abs`, `next_abs`).
-/
namespace Libconfig.C01L
open Flex

theorem okStates_lt : ∀ {n : Nat}, okStates n = true → ∀ q, q < n → okState q = true := by
  intro n
  induction n with
  | zero => intro _ q hq; omega
  | succ n ih =>
    intro h q hq
    simp only [okStates, Bool.and_eq_true] at h
    by_cases hqn : q = n
    · subst hqn; exact h.1
    · exact ih h.2 q (by omega)

theorem okBytes_lt {q : Nat} {a : A} : ∀ {n : Nat}, okBytes q a n = true → ∀ b, b < n → okByte q a b = true := by
  intro n
  induction n with
  | zero => intro _ b hb; omega
  | succ n ih =>
    intro h b hb
    simp only [okBytes, Bool.and_eq_true] at h
    by_cases hbn : b = n
    · subst hbn; exact h.1
    · exact ih h.2 b (by omega)

theorem absOf_lt {q : Nat} (h : absOf q ≠ .top) : q < 108 := by
  apply Nat.lt_of_not_le
  intro hle
  apply h
  unfold absOf
  have hlen : absTab.length = 108 := rfl
  rw [List.getD_eq_getElem?_getD, List.getElem?_eq_none (by omega)]
  rfl

theorem live_ne_top {a : A} (h : a.live = true) : a ≠ .top := by
  intro e; subst e; cases h

theorem live_ne_jam {a : A} (h : a.live = true) : a ≠ .jam := by
  intro e; subst e; cases h

theorem isTop_eq {a : A} (h : a.isTop = true) : a = .top := by
  cases a <;> first | rfl | cases h

/-- a flex state standing for a described, live abstract state: same accept entry, and every
byte leads to a flex state standing for the abstract successor -/
theorem sim {q : Nat} {a : A} (hq : absOf q = a) (hl : a.live = true) :
    T.accept.getN q = aacc a ∧
    ∀ b, b < 256 → astep a b = .top ∨ absOf (step T q b) = astep a b := by
  have hlt : q < 108 := absOf_lt (hq ▸ live_ne_top hl)
  have hs := okStates_lt cert_ok q hlt
  unfold okState at hs
  rw [hq, hl, if_pos rfl, Bool.and_eq_true] at hs
  refine ⟨Nat.eq_of_beq_eq_true hs.1, fun b hb => ?_⟩
  have hb' := okBytes_lt hs.2 b hb
  unfold okByte at hb'
  rw [Bool.or_eq_true] at hb'
  rcases hb' with h | h
  · exact .inl (isTop_eq h)
  · exact .inr (A.beq_eq h)

theorem jam_of_abs {q : Nat} (h : absOf q = .jam) : q = T.jamState := by
  have hlt : q < 108 := absOf_lt (by rw [h]; intro e; cases e)
  have hs := okStates_lt cert_ok q hlt
  unfold okState at hs
  rw [h] at hs
  exact Nat.eq_of_beq_eq_true hs

theorem abs_jam : absOf T.jamState = .jam := by decide +kernel

theorem live_not_jam {q : Nat} (h : (absOf q).live = true) : q ≠ T.jamState := by
  intro e; rw [e, abs_jam] at h; cases h

/-! ### paths of the abstract automaton -/

def arun : A → Bytes → A
  | a, [] => a
  | a, b :: bs => arun (astep a b) bs

/-- every state reached along `bs` (after at least one byte) is described and alive -/
def alive : A → Bytes → Bool
  | _, [] => true
  | a, b :: bs => (astep a b).live && alive (astep a b) bs

theorem arun_append (a : A) (x y : Bytes) : arun a (x ++ y) = arun (arun a x) y := by
  induction x generalizing a with
  | nil => rfl
  | cons b bs ih => exact ih _

theorem alive_append (a : A) (x y : Bytes) :
    alive a (x ++ y) = (alive a x && alive (arun a x) y) := by
  induction x generalizing a with
  | nil => simp [alive, arun]
  | cons b bs ih => simp only [List.cons_append, alive, arun, ih, Bool.and_assoc]

/-- the byte after the lexeme stops the match: the input ends, or the next byte jams -/
def Stops (a : A) (rest : Bytes) : Prop :=
  rest = [] ∨ ∃ c cs, rest = c :: cs ∧ c < 256 ∧ astep a c = .jam

/-- **the matcher on a described path.**  From a flex state standing for the live state `a`,
if the abstract automaton stays alive over `pre`, ends accepting rule `r ≠ 0` and stops there,
`Flex.scan` returns `(r, pos + pre.length)`. -/
theorem scan_abs : ∀ (pre rest : Bytes) (q : Nat) (a : A) (pos : Nat) (last : Option (Nat × Nat)),
    absOf q = a → a.live = true → (∀ b ∈ pre, b < 256) → alive a pre = true →
    aacc (arun a pre) ≠ 0 → Stops (arun a pre) rest →
    scan T q (pre ++ rest) pos last = some (aacc (arun a pre), pos + pre.length) := by
  intro pre
  induction pre with
  | nil =>
    intro rest q a pos last hq hl _ _ hacc hstop
    have hs := sim hq hl
    simp only [arun] at hacc hstop ⊢
    rcases hstop with rfl | ⟨c, cs, rfl, hc, hj⟩
    · simp only [List.append_nil, scan, hs.1, List.length_nil, Nat.add_zero]
      rw [if_pos (by simpa using hacc)]
    · simp only [List.nil_append, scan, hs.1, List.length_nil, Nat.add_zero]
      have hstep : step T q c = T.jamState := by
        rcases hs.2 c hc with h | h
        · rw [hj] at h; cases h
        · rw [hj] at h; exact jam_of_abs h
      rw [hstep]
      simp only [beq_self_eq_true, if_true]
      rw [if_pos (by simpa using hacc)]
  | cons b bs ih =>
    intro rest q a pos last hq hl hb hal hacc hstop
    have hs := sim hq hl
    simp only [alive, Bool.and_eq_true] at hal
    have hb256 : b < 256 := hb b (List.mem_cons_self ..)
    have hnext : absOf (step T q b) = astep a b := by
      rcases hs.2 b hb256 with h | h
      · rw [h] at hal; cases hal.1
      · exact h
    have hnj : step T q b ≠ T.jamState := live_not_jam (hnext ▸ hal.1)
    simp only [List.cons_append, scan, arun]
    rw [if_neg (by simpa using hnj)]
    rw [ih rest (step T q b) (astep a b) (pos + 1) _ hnext hal.1
      (fun x hx => hb x (List.mem_cons_of_mem _ hx)) hal.2 hacc hstop]
    simp only [List.length_cons]
    rw [show pos + 1 + bs.length = pos + (bs.length + 1) by omega]

theorem abs_start (bol : Bool) : absOf (startState 0 bol) = .start bol := by
  cases bol <;> decide +kernel

theorem abs_sstart (bol : Bool) : absOf (startState 3 bol) = .sstart := by
  cases bol <;> decide +kernel

/-- the matcher in INITIAL -/
theorem next_abs (bol : Bool) (pre rest : Bytes) (hb : ∀ b ∈ pre, b < 256)
    (hal : alive (.start bol) pre = true) (hacc : aacc (arun (.start bol) pre) ≠ 0)
    (hstop : Stops (arun (.start bol) pre) rest) :
    next T 0 bol (pre ++ rest) = some (aacc (arun (.start bol) pre), pre.length) := by
  unfold next
  rw [scan_abs pre rest _ _ 0 none (abs_start bol) rfl hb hal hacc hstop, Nat.zero_add]

/-- the matcher in the STRING start condition -/
theorem next_abs_str (bol : Bool) (pre rest : Bytes) (hb : ∀ b ∈ pre, b < 256)
    (hal : alive .sstart pre = true) (hacc : aacc (arun .sstart pre) ≠ 0)
    (hstop : Stops (arun .sstart pre) rest) :
    next T 3 bol (pre ++ rest) = some (aacc (arun .sstart pre), pre.length) := by
  unfold next
  rw [scan_abs pre rest _ _ 0 none (abs_sstart bol) rfl hb hal hacc hstop, Nat.zero_add]

end Libconfig.C01L
