import LibconfigModel.Proofs.C09LineSim
/-
  C09L, the simulation, part 2 — Proofs/C02DenoteSim2.lean with positions: values, the elements
  of lists and the settings of groups — the three mutually recursive functions of the reference
  interpreter — by induction on the fuel.
-/
namespace Libconfig.C09L
open Libconfig C02P C05P C02C C01PP C04 C04R Denote C02D

section
variable {E : ParserEnv} {pos : Nat → ScanState} {o : Options}

/-! ### the places a value can stand in (`VCtx` of Proofs/C02DenoteSim2.lean) -/

/-- in a place for a value, a token that starts none (and is not one of the exceptions) is a
syntax error, reported in the scan state right after that token -/
theorem VCtx_errQ (hE : Compiled E) {q qv : Nat} {stk : List (Nat × TokVal)} {ex : List Nat}
    (h : VCtx q qv stk ex) {vq : TokVal} {la : Lookahead} {sc : ScanState} {ctx : ParseCtx}
    {t : Nat} {v : TokVal} {ks : List (Nat × TokVal)} (hd : stk.length + 2 < 10000)
    (hin : InpQ E pos la sc ((t, v) :: ks)) (hk23 : translateTok P t < 23)
    (hvs : valStart (translateTok P t) = false) (hex : ∀ c ∈ ex, translateTok P t ≠ c)
    (hnone : true = true → ctx.cfg.errText = none) :
    AbortsAt E ⟨(q, vq) :: stk, la, sc, ctx⟩ Generated.ERR_SYNTAX (pos ks.length) := by
  cases h with
  | member =>
    exact perrorQ hE rfl (by dp) (by decide) (err_8 _ hk23 hvs) nn_8 hin hnone
  | first =>
    obtain ⟨la1, sc1, ctx1, vv1, hR1, hI1, hS1⟩ := preduce0Q hE (ctx := ctx)
      (pushed := []) (p := 26) (vp := vq) (rest := stk)
      rfl rfl (by dp) (by decide) (red_26 _ hk23 hvs) rule_33 rfl go_26_vlo hin
    refine AbortsAt.of_reaches hR1 ?_
    exact perrorQ hE rfl (by dp) (by decide)
      (err_37 _ hk23 (hex 16 (by simp))) nn_37 hI1 (fun hp => (hS1.err hp).trans (hnone hp))
  | later v36 v26 stk' =>
    obtain ⟨la1, sc1, ctx1, vv1, hR1, hI1, hS1⟩ := preduce0Q hE (ctx := ctx)
      (pushed := [(42, vq), (36, v36)]) (p := 26) (vp := v26) (rest := stk')
      rfl rfl (by dp) (by decide) (red_42 _ hk23 hvs) rule_32 rfl go_26_vl hin
    obtain ⟨la2, sc2, ctx2, vv2, hR2, hI2, hS2⟩ := preduce0Q hE (ctx := ctx1)
      (pushed := [(36, vv1)]) (p := 26) (vp := v26) (rest := stk')
      rfl rfl (by dp) (by decide) (red_36 _ hk23 (hex 17 (by simp))) rule_34 rfl go_26_vlo hI1
    refine AbortsAt.of_reaches (hR1.trans hR2) ?_
    exact perrorQ hE rfl (by dp) (by decide)
      (err_37 _ hk23 (hex 16 (by simp))) nn_37 hI2
      (fun hp => ((hS2.err hp).trans (hS1.err hp)).trans (hnone hp))

/-! ### opening an aggregate -/

/-- the opening bracket of an aggregate: shift it, run the mid-rule action that creates the
aggregate (or gives the fresh member its type) and moves `ctx->parent` down -/
theorem sim_open (hE : Compiled E) {q : Nat} (hqf : q ≠ 6) {opn : Denote.Item} {k s1 s2 r lhs ty : Nat}
    {act : ParseAct} (hkc : ∀ k', KindRel opn k' → k' = k) (hsh : actAt P q k = some (s1 : Int))
    (hs0 : 0 < s1) (hsf : s1 ≠ 6) (hred : ∀ k' < 23, redOK P s1 k' r = true)
    (hrule : RuleIs r lhs 0 act)
    (hact : ∀ ctx v l f, runAction act ctx v l f = actAggStart ctx ty l f) (hty : ty ≤ 8)
    (hgoto : gotoTo P s1 lhs = s2)
    {vq : TokVal} {stk : List (Nat × TokVal)} {la : Lookahead} {sc : ScanState} {ctx : ParseCtx}
    {K : Node → Node} {pp : Path} {pn : Node} {st : Option Path} {pre : List Node}
    {nm : Option Bytes} {rest : List Denote.Item}
    (hd : stk.length + 3 < 10000) (hI : InpJ E pos la sc (opn :: rest))
    (hV : View ctx K pp pn none st) (hS : Slot st pp pn pre nm) (hna : pn.ty ≠ T_ARRAY)
    (hinv : Inv true o ctx) :
    ∃ la' sc' ctx' vv v1 a st', Reaches E ⟨(q, vq) :: stk, la, sc, ctx⟩
        ⟨(s2, vv) :: (s1, v1) :: (q, vq) :: stk, la', sc', ctx'⟩ ∧
      InpJ E pos la' sc' rest ∧
      View ctx' (fun y => K { pn with kids := pre ++ [y] }) (pp ++ [pre.length]) a none st' ∧
      stripPos a = { name := nm, ty := ty } ∧ Inv true o ctx' := by
  obtain ⟨t, v, ks, hin, hkr, _, _, hcont⟩ := hI.pop
  obtain ⟨sc1, ctx1, hR1, hI1, hS1⟩ := pshiftQ hE (v0 := vq) (rest := stk) (ctx := ctx)
    (by omega) hqf (hkc _ hkr) hsh hs0 hin
  obtain ⟨t', v', ks', hin', hk23, _, hrest⟩ := (hcont _ _ hI1).peek
  obtain ⟨la2, sc2, ctx2, vv2, hR2, hI2, ⟨a, st2, hV2, ha⟩, hinv2⟩ := preduceIQ hE
    (Post := fun c2 => ∃ a st', View c2 (fun y => K { pn with kids := pre ++ [y] })
      (pp ++ [pre.length]) a none st' ∧ stripPos a = { name := nm, ty := ty })
    (pushed := []) (p := s1) (vp := v) (rest := (q, vq) :: stk) rfl rfl (by dp)
    hsf (hred _ hk23) hrule rfl hgoto hin' (hinv.of_same hS1)
    (fun ctx₁ l f hs => by
      rw [hact]
      obtain ⟨c2, a, st', h1, h2, h3⟩ := act_aggStart ((hV.of_same hS1.sem).of_same hs.sem) hS hna
        ty hty l f
      exact ⟨c2, h1, a, st', h2, h3⟩)
  exact ⟨la2, sc2, ctx2, vv2, v, a, st2, hR1.trans hR2, hrest _ _ hI2, hV2, ha, hinv2⟩

/-! ### the end of a setting -/

/-- after the value of a setting: the optional terminator, `setting: NAME $@1 = value
setting_terminator`, and `setting_list: setting | setting_list setting` -/
theorem sim_setting_end (hE : Compiled E) {q0 q1 : Nat} (hM : MemCtx q0 q1) {v0 : TokVal}
    {stk0 stkS : List (Nat × TokVal)}
    (hS : stkS = (q0, v0) :: stk0 ∨ ∃ v1, stkS = (q1, v1) :: (q0, v0) :: stk0)
    {v21 v8 v5 v1 : TokVal} {la : Lookahead} {sc : ScanState} {ctx : ParseCtx}
    {rest : List Denote.Item} (hd : stk0.length + 8 < 10000) (hI : InpJ E pos la sc rest) :
    ∃ la' sc' ctx' vv, Reaches E ⟨(21, v21) :: (8, v8) :: (5, v5) :: (1, v1) :: stkS, la, sc, ctx⟩
        ⟨(q1, vv) :: (q0, v0) :: stk0, la', sc', ctx'⟩ ∧
      InpJ E pos la' sc' (skipTerminator rest) ∧ Same true ctx ctx' := by
  have hlen : stkS.length ≤ stk0.length + 2 := by
    rcases hS with rfl | ⟨v1', rfl⟩ <;> simp
  -- the terminator
  have hterm : ∃ la1 sc1 ctx1 vv1, Reaches E
      ⟨(21, v21) :: (8, v8) :: (5, v5) :: (1, v1) :: stkS, la, sc, ctx⟩
      ⟨(30, vv1) :: (21, v21) :: (8, v8) :: (5, v5) :: (1, v1) :: stkS, la1, sc1, ctx1⟩ ∧
      InpJ E pos la1 sc1 (skipTerminator rest) ∧ Same true ctx ctx1 := by
    have dflt : (∀ r, rest ≠ .semicolon :: r) → (∀ r, rest ≠ .comma :: r) →
        skipTerminator rest = rest →
        ∃ la1 sc1 ctx1 vv1, Reaches E
          ⟨(21, v21) :: (8, v8) :: (5, v5) :: (1, v1) :: stkS, la, sc, ctx⟩
          ⟨(30, vv1) :: (21, v21) :: (8, v8) :: (5, v5) :: (1, v1) :: stkS, la1, sc1, ctx1⟩ ∧
          InpJ E pos la1 sc1 (skipTerminator rest) ∧ Same true ctx ctx1 := by
      intro h1 h2 h3
      rw [h3]
      obtain ⟨t, v, ks, hin, hk23, hn, hrest⟩ := hI.peek
      obtain ⟨la1, sc1, ctx1, vv1, hR1, hI1, hS1⟩ := preduce0Q hE (ctx := ctx)
        (pushed := []) (p := 21) (vp := v21) (rest := (8, v8) :: (5, v5) :: (1, v1) :: stkS)
        rfl rfl (by dp) (by decide)
        (red_21 _ hk23 (ne_of_hk hn rfl (hk_ne_17 h2)) (ne_of_hk hn rfl (hk_ne_20 h1))) rule_8 rfl
        go_21_term hin
      exact ⟨la1, sc1, ctx1, vv1, hR1, hrest _ _ hI1, hS1⟩
    cases rest with
    | nil => exact dflt (fun _ h => by cases h) (fun _ h => by cases h) rfl
    | cons it tl =>
      cases it
      case semicolon =>
        obtain ⟨t, v, ks, hin, hkr, _, _, hcont⟩ := hI.pop
        obtain ⟨sc1, ctx1, hR1, hI1, hS1⟩ := pshiftQ hE (v0 := v21)
          (rest := (8, v8) :: (5, v5) :: (1, v1) :: stkS) (ctx := ctx) (by dp) (by decide)
          (show translateTok P t = 20 from hkr) sh_21_semicolon (by decide) hin
        obtain ⟨t', v', ks', hin', hk23, _, hrest⟩ := (hcont _ _ hI1).peek
        obtain ⟨la2, sc2, ctx2, vv2, hR2, hI2, hS2⟩ := preduce0Q hE (ctx := ctx1)
          (pushed := [(29, v)]) (p := 21) (vp := v21)
          (rest := (8, v8) :: (5, v5) :: (1, v1) :: stkS)
          rfl rfl (by dp) (by decide) (red_29 _ hk23) rule_9 rfl go_21_term hin'
        exact ⟨la2, sc2, ctx2, vv2, hR1.trans hR2, hrest _ _ hI2, hS1.trans hS2⟩
      case comma =>
        obtain ⟨t, v, ks, hin, hkr, _, _, hcont⟩ := hI.pop
        obtain ⟨sc1, ctx1, hR1, hI1, hS1⟩ := pshiftQ hE (v0 := v21)
          (rest := (8, v8) :: (5, v5) :: (1, v1) :: stkS) (ctx := ctx) (by dp) (by decide)
          (show translateTok P t = 17 from hkr) sh_21_comma (by decide) hin
        obtain ⟨t', v', ks', hin', hk23, _, hrest⟩ := (hcont _ _ hI1).peek
        obtain ⟨la2, sc2, ctx2, vv2, hR2, hI2, hS2⟩ := preduce0Q hE (ctx := ctx1)
          (pushed := [(28, v)]) (p := 21) (vp := v21)
          (rest := (8, v8) :: (5, v5) :: (1, v1) :: stkS)
          rfl rfl (by dp) (by decide) (red_28 _ hk23) rule_10 rfl go_21_term hin'
        exact ⟨la2, sc2, ctx2, vv2, hR1.trans hR2, hrest _ _ hI2, hS1.trans hS2⟩
      all_goals exact dflt (fun _ h => by cases h) (fun _ h => by cases h) rfl
  obtain ⟨la1, sc1, ctx1, vv1, hR1, hI1, hS1⟩ := hterm
  obtain ⟨t, v, ks, hin, hk23, _, hrest⟩ := hI1.peek
  rcases hS with rfl | ⟨v1', rfl⟩
  · -- the first setting of its group
    obtain ⟨la2, sc2, ctx2, vv2, hR2, hI2, hS2⟩ := preduce0Q hE (ctx := ctx1)
      (pushed := [(30, vv1), (21, v21), (8, v8), (5, v5), (1, v1)]) (p := q0) (vp := v0)
      (rest := stk0) rfl rfl (by dp) (by decide) (red_30 _ hk23) rule_12 rfl hM.gSetting0 hin
    obtain ⟨la3, sc3, ctx3, vv3, hR3, hI3, hS3⟩ := preduce0Q hE (ctx := ctx2)
      (pushed := [(4, vv2)]) (p := q0) (vp := v0) (rest := stk0)
      rfl rfl (by dp) (by decide) (red_4 _ hk23) rule_4 rfl hM.gList hI2
    exact ⟨la3, sc3, ctx3, vv3, (hR1.trans hR2).trans hR3, hrest _ _ hI3,
      (hS1.trans hS2).trans hS3⟩
  · -- a later one
    obtain ⟨la2, sc2, ctx2, vv2, hR2, hI2, hS2⟩ := preduce0Q hE (ctx := ctx1)
      (pushed := [(30, vv1), (21, v21), (8, v8), (5, v5), (1, v1)]) (p := q1) (vp := v1')
      (rest := (q0, v0) :: stk0) rfl rfl (by dp) (by decide) (red_30 _ hk23) rule_12 rfl
      hM.gSetting1 hin
    obtain ⟨la3, sc3, ctx3, vv3, hR3, hI3, hS3⟩ := preduce0Q hE (ctx := ctx2)
      (pushed := [(7, vv2), (q1, v1')]) (p := q0) (vp := v0) (rest := stk0)
      rfl rfl (by dp) (by decide) (red_7 _ hk23) rule_5 rfl hM.gList hI2
    exact ⟨la3, sc3, ctx3, vv3, (hR1.trans hR2).trans hR3, hrest _ _ hI3,
      (hS1.trans hS2).trans hS3⟩

/-! ### the three statements -/

/-- VALUE: in a place for a value, in front of the items of a value, the loop arrives with
`value` pushed and the slot filled — or aborts as the interpreter says -/
def ValueSim (E : ParserEnv) (pos : Nat → ScanState) (o : Options) (fuel : Nat) : Prop :=
  ∀ (nm : Option Bytes) (items : List Denote.Item) (q qv : Nat) (stk : List (Nat × TokVal))
    (ex : List Nat) (vq : TokVal) (la : Lookahead) (sc : ScanState) (ctx : ParseCtx)
    (K : Node → Node) (pp : Path) (pn : Node) (st : Option Path) (pre : List Node) (d : Nat),
    VCtx q qv stk ex → items.length < fuel → stk.length + 1 ≤ 6 * d + 5 →
    InpJ E pos la sc items → (∀ c ∈ ex, hk items ≠ c) → View ctx K pp pn none st →
    Slot st pp pn pre nm → pn.ty ≠ T_ARRAY → Inv true o ctx → nestingFrom d items ≤ 1665 →
    SimQ E pos ⟨(q, vq) :: stk, la, sc, ctx⟩ (valueAt o fuel nm items)
      (AfterValue E pos o qv q vq stk K pp pn pre d)

/-- LIST REST: after an element of a list, up to and including the closing parenthesis -/
def ListRestSim (E : ParserEnv) (pos : Nat → ScanState) (o : Options) (fuel : Nat) : Prop :=
  ∀ (acc : List Node) (items : List Denote.Item) (q qv : Nat), ValCtx q qv →
    ∀ (v36 v26 v17 vq : TokVal) (stk : List (Nat × TokVal)) (la : Lookahead) (sc : ScanState)
      (ctx : ParseCtx) (K : Node → Node) (pp : Path) (pn : Node) (pre : List Node) (a : Node)
      (st : Option Path) (r : Node) (d : Nat),
    items.length < fuel → stk.length + 1 ≤ 6 * d + 5 → InpJ E pos la sc items → Hole K pp →
    View ctx (fun y => K { pn with kids := pre ++ [y] }) (pp ++ [pre.length]) a none st →
    stripPos a = r → r.ty = T_LIST → r.kids = acc → Inv true o ctx →
    nestingFrom (d + 1) items ≤ 1665 →
    SimQ E pos ⟨(36, v36) :: (26, v26) :: (17, v17) :: (q, vq) :: stk, la, sc, ctx⟩
      (listRestAt o fuel acc items)
      (fun elems rest b => AfterValue E pos o qv q vq stk K pp pn pre d { r with kids := elems }
        rest b)

/-- the configuration after the settings of a group have been read: the bottom of the group's
stack segment, possibly with `setting_list` on top -/
def AfterSettings (E : ParserEnv) (pos : Nat → ScanState) (o : Options) (q0 q1 : Nat) (v0 : TokVal)
    (stk0 : List (Nat × TokVal)) (K : Node → Node) (pp : Path) (r : Node) (d : Nat)
    (members : List Node) (rest : List Denote.Item) (b : MC) : Prop :=
  ∃ stkS la sc ctx pn' st', b = ⟨stkS, la, sc, ctx⟩ ∧
    (stkS = (q0, v0) :: stk0 ∨ ∃ v1, stkS = (q1, v1) :: (q0, v0) :: stk0) ∧
    InpJ E pos la sc rest ∧ View ctx K pp pn' none st' ∧
    stripPos pn' = { r with kids := members } ∧ Inv true o ctx ∧ nestingFrom d rest ≤ 1665 ∧
    ∀ nm r', rest ≠ .name nm :: r'

/-- SETTINGS: the settings of a group (or of the configuration) -/
def SettingsSim (E : ParserEnv) (pos : Nat → ScanState) (o : Options) (fuel : Nat) : Prop :=
  ∀ (members : List Node) (items : List Denote.Item) (q0 q1 : Nat), MemCtx q0 q1 →
    ∀ (v0 : TokVal) (stk0 stkS : List (Nat × TokVal)) (la : Lookahead) (sc : ScanState)
      (ctx : ParseCtx) (K : Node → Node) (pp : Path) (pn : Node) (st : Option Path) (r : Node)
      (d : Nat),
    (stkS = (q0, v0) :: stk0 ∨ ∃ v1, stkS = (q1, v1) :: (q0, v0) :: stk0) →
    items.length < fuel → stk0.length + 1 ≤ 6 * d + 1 → InpJ E pos la sc items →
    View ctx K pp pn none st → stripPos pn = r → r.ty = T_GROUP → r.kids = members →
    Inv true o ctx → nestingFrom d items ≤ 1665 →
    SimQ E pos ⟨stkS, la, sc, ctx⟩ (settingsAt o fuel members items)
      (AfterSettings E pos o q0 q1 v0 stk0 K pp r d)

/-! ### values -/

theorem value_step (hE : Compiled E) (fuel : Nat) (ihv : ValueSim E pos o fuel)
    (ihl : ListRestSim E pos o fuel) (ihs : SettingsSim E pos o fuel) :
    ValueSim E pos o (fuel + 1) := by
  intro nm items q qv stk ex vq la sc ctx K pp pn st pre d hX hf hd hI hex hV hS hna hinv hnest
  have hC := hX.val
  have hd0 : d ≤ 1665 := Nat.le_trans (le_nestingFrom _ _) hnest
  cases valueView items with
  | arrNil r' =>
    rw [valueAt_arr_nil]
    obtain ⟨la1, sc1, ctx1, vv1, v1, a, st1, hR1, hI1, hV1, ha, hinv1⟩ := sim_open hE
      (vq := vq) (stk := stk) hC.scal.notFinal (opn := .arrayStart) (k := 13) (fun _ h => h) hC.arrayStart (by decide)
      (by decide) red_16 rule_13 (ty := T_ARRAY) (fun _ _ _ _ => rfl) (by decide) go_16_M2
      (by omega) hI hV hS hna hinv
    -- `simple_value_list_optional:` empty
    obtain ⟨t, v, ks, hin, hk23, hn, hrest⟩ := hI1.peek
    obtain ⟨la2, sc2, ctx2, vv2, hR2, hI2, hS2⟩ := preduce0Q hE (ctx := ctx1)
      (pushed := []) (p := 25) (vp := vv1) (rest := (16, v1) :: (q, vq) :: stk)
      rfl rfl (by dp) (by decide)
      (red_25 _ hk23 (scalStart_of_hk hk23 hn (by simp [hk]))) rule_38 rfl go_25_svlo hin
    -- `]`
    obtain ⟨la3, sc3, ctx3, vv3, st3, hR3, hI3, hV3, hinv3⟩ := sim_close hE hC.gValue
      (close := .arrayEnd) (k := 14) (fun _ h => h) sh_34_arrayEnd (by decide) (by decide)
      (by decide) (by decide) red_41 rule_14 hC.gArray red_19 rule_18
      (v3 := vv2) (v2 := vv1) (v1 := v1) (vq := vq) (stk := stk)
      (by omega) hV.hole (hV1.of_same hS2.sem) (hinv1.of_same hS2) (hrest _ _ hI2)
    refine ⟨_, (hR1.trans hR2).trans hR3, la3, sc3, ctx3, vv3, rfl, hI3, ⟨a, st3, hV3, ha⟩, hinv3, ?_⟩
    refine Nat.le_trans ?_ hnest
    exact Nat.le_trans (nesting_close (.inl rfl)) (nesting_open (.inl rfl))
  | arr rest' hne =>
    have hnest1 : nestingFrom (d + 1) rest' ≤ 1665 := Nat.le_trans (nesting_open (.inl rfl)) hnest
    have hd1 : d + 1 ≤ 1665 := Nat.le_trans (le_nestingFrom _ _) hnest1
    obtain ⟨la1, sc1, ctx1, vv1, v1, a, st1, hR1, hI1, hV1, ha, hinv1⟩ := sim_open hE
      (vq := vq) (stk := stk) hC.scal.notFinal (opn := .arrayStart) (k := 13) (fun _ h => h) hC.arrayStart (by decide)
      (by decide) red_16 rule_13 (ty := T_ARRAY) (fun _ _ _ _ => rfl) (by decide) go_16_M2
      (by omega) hI hV hS hna hinv
    have ha' := eq_of_stripPos ha rfl
    have haty : a.ty = T_ARRAY := by rw [ha']
    have hakids : a.kids = [] := by rw [ha']
    cases hs : scalar none rest' with
    | none =>
      rw [valueAt_arr_none hne hs]
      show AbortsAt E _ ErrKind.syntax.text _
      rw [text_syntax, reportAt_syntax]
      obtain ⟨t, v, ks, hin, hlen, hk23, hn, hrest⟩ := hI1.peekL
      rw [← hlen]
      obtain ⟨la2, sc2, ctx2, vv2, hR2, hI2, hS2⟩ := preduce0Q hE (ctx := ctx1)
        (pushed := []) (p := 25) (vp := vv1) (rest := (16, v1) :: (q, vq) :: stk)
        rfl rfl (by dp) (by decide)
        (red_25 _ hk23 (scalStart_of_hk hk23 hn (scalar_none hs))) rule_38 rfl go_25_svlo hin
      refine AbortsAt.of_reaches (hR1.trans hR2) ?_
      exact perrorQ hE rfl (by dp) (by decide) (err_34 _ hk23 (ne_of_hk hn rfl (hk_ne_14 hne)))
        nn_34 hI2 (hinv1.of_same hS2).err
    | some p =>
      obtain ⟨x, rest''⟩ := p
      have hsim := sim_scalar (o := o) hE scal_25 hs (vq := vv1)
        (stk := (16, v1) :: (q, vq) :: stk) (by dp) hI1 hV1 (Slot.elem (.inr haty) hakids rfl) hinv1
      obtain ⟨la2, sc2, ctx2, vv2, hR2, hI2, ⟨n', st2, hV2, hn'⟩, hinv2⟩ := hsim.1
        (fun _ => by unfold checkType; rw [hakids])
      -- `simple_value_list: simple_value`
      obtain ⟨t3, v3, ks3, hin3, hk23, _, hrest3⟩ := hI2.peek
      obtain ⟨la3, sc3, ctx3, vv3, hR3, hI3, hS3⟩ := preduce0Q hE (ctx := ctx2)
        (pushed := [(32, vv2)]) (p := 25) (vp := vv1) (rest := (16, v1) :: (q, vq) :: stk)
        rfl rfl (by dp) (by decide) (red_32 _ hk23) rule_35 rfl go_25_svl hin3
      have hn'ty : n'.ty = x.ty := stripPos_ty' hn'
      have harr := sim_arrayRest (o := o) hE hC x.ty fuel [x] rest'' vv3 vv1 v1 vq stk la3 sc3 ctx3
        K pp pn pre { a with kids := [] ++ [n'] } st2 { name := nm, ty := T_ARRAY, kids := [x] } d
        (by
          have := scalar_length hs
          simp only [List.length_cons] at hf; omega)
        hd (hrest3 _ _ hI3) hV.hole (hV2.of_same hS3.sem)
        (by rw [stripPos_kids' ha]; simp [stripPosList, hn'])
        rfl rfl ⟨n', [], rfl, hn'ty⟩ (hinv2.of_same hS3)
        (by rw [scalar_nesting _ hs]; exact hnest1)
      refine SimQ.of_reaches ((hR1.trans hR2).trans hR3) ?_
      cases har : arrayRestAt x.ty fuel [x] rest'' with
      | error k w => rw [valueAt_arr_err hne hs har]; rw [har] at harr; exact harr
      | ok elems rest3 => rw [valueAt_arr_ok hne hs har]; rw [har] at harr; exact harr
  | lstNil r' =>
    rw [valueAt_lst_nil]
    obtain ⟨la1, sc1, ctx1, vv1, v1, a, st1, hR1, hI1, hV1, ha, hinv1⟩ := sim_open hE
      (vq := vq) (stk := stk) hC.scal.notFinal (opn := .listStart) (k := 15) (fun _ h => h) hC.listStart (by decide)
      (by decide) red_17 rule_15 (ty := T_LIST) (fun _ _ _ _ => rfl) (by decide) go_17_M3
      (by omega) hI hV hS hna hinv
    -- `value_list_optional:` empty
    obtain ⟨t, v, ks, hin, hk23, hn, hrest⟩ := hI1.peek
    obtain ⟨la2, sc2, ctx2, vv2, hR2, hI2, hS2⟩ := preduce0Q hE (ctx := ctx1)
      (pushed := []) (p := 26) (vp := vv1) (rest := (17, v1) :: (q, vq) :: stk)
      rfl rfl (by dp) (by decide)
      (red_26 _ hk23 (valStart_of_hk hk23 hn rfl)) rule_33 rfl go_26_vlo hin
    -- `)`
    obtain ⟨la3, sc3, ctx3, vv3, st3, hR3, hI3, hV3, hinv3⟩ := sim_close hE hC.gValue
      (close := .listEnd) (k := 16) (fun _ h => h) sh_37_listEnd (by decide) (by decide)
      (by decide) (by decide) red_43 rule_16 hC.gList red_20 rule_19
      (v3 := vv2) (v2 := vv1) (v1 := v1) (vq := vq) (stk := stk)
      (by omega) hV.hole (hV1.of_same hS2.sem) (hinv1.of_same hS2) (hrest _ _ hI2)
    refine ⟨_, (hR1.trans hR2).trans hR3, la3, sc3, ctx3, vv3, rfl, hI3, ⟨a, st3, hV3, ha⟩, hinv3, ?_⟩
    refine Nat.le_trans ?_ hnest
    exact Nat.le_trans (nesting_close (.inr (.inl rfl))) (nesting_open (.inr (.inl rfl)))
  | lst rest' hne =>
    have hnest1 : nestingFrom (d + 1) rest' ≤ 1665 :=
      Nat.le_trans (nesting_open (.inr (.inl rfl))) hnest
    have hd1 : d + 1 ≤ 1665 := Nat.le_trans (le_nestingFrom _ _) hnest1
    obtain ⟨la1, sc1, ctx1, vv1, v1, a, st1, hR1, hI1, hV1, ha, hinv1⟩ := sim_open hE
      (vq := vq) (stk := stk) hC.scal.notFinal (opn := .listStart) (k := 15) (fun _ h => h) hC.listStart (by decide)
      (by decide) red_17 rule_15 (ty := T_LIST) (fun _ _ _ _ => rfl) (by decide) go_17_M3
      (by omega) hI hV hS hna hinv
    have ha' := eq_of_stripPos ha rfl
    have haty : a.ty = T_LIST := by rw [ha']
    have hakids : a.kids = [] := by rw [ha']
    -- the first element
    have h1 := ihv none rest' 26 35 ((17, v1) :: (q, vq) :: stk) [16] vv1 la1 sc1 ctx1 _ _ a st1
      a.kids (d + 1) (.first _) (by simp only [List.length_cons] at hf; omega) (by dp) hI1
      (by
        intro c hc
        rw [List.mem_singleton.mp hc]
        exact hk_ne_16 hne)
      hV1 (Slot.elem (.inl haty) rfl rfl) (by rw [haty]; decide) hinv1 hnest1
    cases hv : valueAt o fuel none rest' with
    | error k w =>
      rw [valueAt_lst_err1 hne hv]
      rw [hv] at h1
      exact AbortsAt.of_reaches hR1 h1
    | ok x rest1 =>
      rw [hv] at h1
      obtain ⟨b, hR2, la2, sc2, ctx2, vv2, rfl, hI2, ⟨n', st2, hV2, hn'⟩, hinv2, hnest2⟩ := h1
      -- `value_list: value`
      obtain ⟨t3, v3, ks3, hin3, hk23, _, hrest3⟩ := hI2.peek
      obtain ⟨la3, sc3, ctx3, vv3, hR3, hI3, hS3⟩ := preduce0Q hE (ctx := ctx2)
        (pushed := [(35, vv2)]) (p := 26) (vp := vv1) (rest := (17, v1) :: (q, vq) :: stk)
        rfl rfl (by dp) (by decide) (red_35 _ hk23) rule_30 rfl go_26_vl hin3
      have hlst := ihl [x] rest1 q qv hC vv3 vv1 v1 vq stk la3 sc3 ctx3 K pp pn pre
        { a with kids := a.kids ++ [n'] } st2 { name := nm, ty := T_LIST, kids := [x] } d
        (by
          have := value_length (valueAt_ok hv)
          simp only [List.length_cons] at hf; omega)
        hd (hrest3 _ _ hI3) hV.hole (hV2.of_same hS3.sem)
        (by rw [stripPos_kids' ha, hakids]; simp [stripPosList, hn'])
        rfl rfl (hinv2.of_same hS3) hnest2
      refine SimQ.of_reaches ((hR1.trans hR2).trans hR3) ?_
      cases hl : listRestAt o fuel [x] rest1 with
      | error k w => rw [valueAt_lst_err2 hne hv hl]; rw [hl] at hlst; exact hlst
      | ok elems rest3 => rw [valueAt_lst_ok hne hv hl]; rw [hl] at hlst; exact hlst
  | grp rest' =>
    have hnest1 : nestingFrom (d + 1) rest' ≤ 1665 :=
      Nat.le_trans (nesting_open (.inr (.inr rfl))) hnest
    have hd1 : d + 1 ≤ 1665 := Nat.le_trans (le_nestingFrom _ _) hnest1
    obtain ⟨la1, sc1, ctx1, vv1, v1, a, st1, hR1, hI1, hV1, ha, hinv1⟩ := sim_open hE
      (vq := vq) (stk := stk) hC.scal.notFinal (opn := .groupStart) (k := 18) (fun _ h => h) hC.groupStart (by decide)
      (by decide) red_18 rule_40 (ty := T_GROUP) (fun _ _ _ _ => rfl) (by decide) go_18_M4
      (by omega) hI hV hS hna hinv
    -- the members
    have h1 := ihs [] rest' 27 38 mem_27 vv1 ((18, v1) :: (q, vq) :: stk)
      ((27, vv1) :: (18, v1) :: (q, vq) :: stk) la1 sc1 ctx1 _ _ a st1
      { name := nm, ty := T_GROUP } (d + 1) (.inl rfl)
      (by simp only [List.length_cons] at hf; omega) (by dp) hI1 hV1 ha rfl rfl hinv1 hnest1
    cases hs : settingsAt o fuel [] rest' with
    | error k w =>
      rw [valueAt_grp_err hs]
      rw [hs] at h1
      exact AbortsAt.of_reaches hR1 h1
    | ok members rest1 =>
      rw [hs] at h1
      have hs' := settingsAt_ok hs
      obtain ⟨b, hR2, stkS, la2, sc2, ctx2, pn2, st2, rfl, hshape, hI2, hV2, hpn2, hinv2, hnest2,
        hstop⟩ := h1
      -- `setting_list_optional`
      obtain ⟨t3, v3, ks3, hin3, hlen3, hk23, hn3, hrest3⟩ := hI2.peekL
      have hne10 : translateTok P t3 ≠ 10 := ne_of_hk hn3 rfl (hk_ne_10 hstop)
      have hslo : ∃ la3 sc3 ctx3 vv3, Reaches E ⟨stkS, la2, sc2, ctx2⟩
          ⟨(39, vv3) :: (27, vv1) :: (18, v1) :: (q, vq) :: stk, la3, sc3, ctx3⟩ ∧
          InpQ E pos la3 sc3 ((t3, v3) :: ks3) ∧ Same true ctx2 ctx3 := by
        rcases hshape with rfl | ⟨v38, rfl⟩
        · exact preduce0Q hE (ctx := ctx2)
            (pushed := []) (p := 27) (vp := vv1) (rest := (18, v1) :: (q, vq) :: stk)
            rfl rfl (by dp) (by decide) (red_27 _ hk23 hne10) rule_6 rfl go_27_slo hin3
        · exact preduce0Q hE (ctx := ctx2)
            (pushed := [(38, v38)]) (p := 27) (vp := vv1) (rest := (18, v1) :: (q, vq) :: stk)
            rfl rfl (by dp) (by decide) (red_38 _ hk23 hne10) rule_7 rfl go_27_slo hin3
      obtain ⟨la3, sc3, ctx3, vv3, hR3, hI3, hS3⟩ := hslo
      by_cases hge : ∃ r2, rest1 = .groupEnd :: r2
      · obtain ⟨r2, rfl⟩ := hge
        rw [valueAt_grp_ok hs]
        -- `}`
        obtain ⟨la4, sc4, ctx4, vv4, st4, hR4, hI4, hV4, hinv4⟩ := sim_close hE hC.gValue
          (close := .groupEnd) (k := 19) (fun _ h => h) sh_39_groupEnd (by decide) (by decide)
          (by decide) (by decide) red_44 rule_41 hC.gGroup red_24 rule_20
          (v3 := vv3) (v2 := vv1) (v1 := v1) (vq := vq) (stk := stk)
          (by omega) hV.hole (hV2.of_same hS3.sem) (hinv2.of_same hS3) (hrest3 _ _ hI3)
        refine ⟨_, ((hR1.trans hR2).trans hR3).trans hR4, la4, sc4, ctx4, vv4, rfl, hI4,
          ⟨pn2, st4, hV4, hpn2⟩, hinv4, ?_⟩
        exact Nat.le_trans (nesting_close (.inr (.inr rfl))) hnest2
      · have hge' : ∀ r, rest1 ≠ .groupEnd :: r := fun r h => hge ⟨r, h⟩
        rw [valueAt_grp_bad hs hge']
        show AbortsAt E _ ErrKind.syntax.text _
        rw [text_syntax, reportAt_syntax]
        refine AbortsAt.of_reaches ((hR1.trans hR2).trans hR3) ?_
        rw [← hlen3]
        exact perrorQ hE rfl (by dp) (by decide)
          (err_39 _ hk23 (ne_of_hk hn3 rfl (hk_ne_19 hge'))) nn_39 hI3 (hinv2.of_same hS3).err
  | other _ h1 h2 h3 =>
    cases hs : scalar nm items with
    | none =>
      rw [valueAt_other_none h1 h2 h3 hs]
      show AbortsAt E _ ErrKind.syntax.text _
      rw [text_syntax, reportAt_syntax]
      obtain ⟨t, v, ks, hin, hlen, hk23, hn, hrest⟩ := hI.peekL
      rw [← hlen]
      refine VCtx_errQ hE hX (by omega) hin hk23 (valStart_of_hk hk23 hn ?_)
        (fun c hc => ne_of_hk hn ?_ (hex c hc)) hinv.err
      · -- no value starts here
        have hsn := scalar_none hs
        cases items with
        | nil => rfl
        | cons it tl =>
          cases it
          case arrayStart => exact absurd rfl (h1 _)
          case listStart => exact absurd rfl (h2 _)
          case groupStart => exact absurd rfl (h3 _)
          all_goals first | rfl | (simp [hk] at hsn)
      · cases hX with
        | member => cases hc
        | first =>
          rw [List.mem_singleton.mp hc]; rfl
        | later =>
          simp only [List.mem_cons, List.not_mem_nil, or_false] at hc
          rcases hc with rfl | rfl <;> rfl
    | some p =>
      obtain ⟨x, rest1⟩ := p
      rw [valueAt_other_some h1 h2 h3 hs]
      have hsim := sim_scalar (o := o) hE hC.scal hs (vq := vq) (stk := stk) (by omega) hI hV hS hinv
      obtain ⟨la2, sc2, ctx2, vv2, hR2, hI2, hF2, hinv2⟩ := hsim.1 (fun h => absurd h hna)
      -- `value: simple_value`
      obtain ⟨t3, v3, ks3, hin3, hk23, _, hrest3⟩ := hI2.peek
      obtain ⟨la3, sc3, ctx3, vv3, hR3, hI3, hS3⟩ := preduce0Q hE (ctx := ctx2)
        (pushed := [(23, vv2)]) (p := q) (vp := vq) (rest := stk)
        rfl rfl (by dp) (by decide) (red_23 _ hk23) rule_17 rfl hC.gValue hin3
      obtain ⟨n', st', hV', hn'⟩ := hF2
      refine ⟨_, hR2.trans hR3, la3, sc3, ctx3, vv3, rfl, hrest3 _ _ hI3,
        ⟨n', st', hV'.of_same hS3.sem, hn'⟩, hinv2.of_same hS3, ?_⟩
      rw [scalar_nesting _ hs]
      exact hnest

end

end Libconfig.C09L
