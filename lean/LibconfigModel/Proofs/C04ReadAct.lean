import LibconfigModel.Proofs.C04ReadInv
import LibconfigModel.Proofs.C04ReadStatic
/-
  C04 (reads): every semantic action of the grammar preserves the invariant `TInv`
  (C04ReadInv), whatever its outcome; the only proviso is that `$@2/$@3/$@4` do not run while
  `ctx->setting` is still the root.
-/
namespace Libconfig.C04R
open Libconfig C04 C05P

/-- what an action's outcome has to satisfy: an `ok` outcome re-establishes the invariant and
never points `setting` back to the root (`strict`: it points it away from the root); the
other outcomes end the parse, only the well-formedness of what is left matters -/
def ActGood (strict : Bool) (ctx : ParseCtx) : ActOut → Prop
  | .ok ctx' => TInv ctx'.cfg ctx'.parent ctx'.setting ∧
      (ctx.setting ≠ some [] → ctx'.setting ≠ some []) ∧
      (strict = true → ctx'.setting ≠ some [])
  | .abort ctx' => ctx'.cfg.WF
  | .crash ctx' => ctx'.cfg.WF

/-- CAPTURE_PARSE_POS on a node -/
def cap (l : Nat) (f : Option Bytes) (n : Node) : Node := { n with line := l, file := f }

theorem cap_wf {l : Nat} {f : Option Bytes} {n : Node} (h : n.WF) : (cap l f n).WF :=
  WF.congr h rfl rfl

theorem cap_compat (l : Nat) (f : Option Bytes) (n : Node) : Compat n (cap l f n) :=
  ⟨rfl, fun _ => rfl⟩

theorem yyerror_wf {ctx : ParseCtx} (h : ctx.cfg.WF) (l : Nat) (t : Bytes) :
    (ctx.yyerror l t).cfg.WF := by
  unfold ParseCtx.yyerror
  split
  · exact h
  · exact ⟨h.1, h.2, h.3⟩

theorem compat_trans' {a b c : Node} (h1 : Compat a b) (h2 : Compat b c) : Compat a c :=
  ⟨h2.name.trans h1.name, fun h => by
    have := h1.ty h
    rw [h2.ty (by rw [this]; exact h), this]⟩

theorem last_get (ks : List Node) (x : Node) : (ks ++ [x])[ks.length]? = some x := by simp

/-! ### `$@2`, `$@3`, `$@4` -/

theorem actAggStart_inv (ctx : ParseCtx) (ty l : Nat) (f : Option Bytes) (hty : ty ≤ 8)
    (h : TInv ctx.cfg ctx.parent ctx.setting) (hs : ctx.setting ≠ some []) :
    ActGood false ctx (actAggStart ctx ty l f) := by
  unfold actAggStart
  split
  · split
    · rename_i pp pn hpp hpn
      have hpn' : ctx.cfg.root.get? pp = some pn := by rw [hpp] at hpn; exact hpn
      split
      · rename_i pn' i log hadd
        have hw' := (add_wf (WF.get h.wf.nodes hpn') hadd).1
        obtain ⟨ks, nm, rfl, rfl, hks, _⟩ := add_shape hadd
        have hks := hks rfl
        subst hks
        refine ⟨?_, fun h => h, nofun⟩
        show TInv { ctx.cfg with
          root := (ctx.cfg.root.modify (fun _ => _) pp).modify (cap l f) (pp ++ [pn.kids.length]) }
          (some (pp ++ [pn.kids.length])) ctx.setting
        rw [modify_modify_append]
        simp only [modify_last]
        rw [hpp] at h
        exact TInv.grow_descend h hpn'
          (grown pn pn.kids _ (cap l f) hw' (cap_wf (WF.leaf (by simp; omega) rfl)) (cap_compat _ _ _))
          (grows_append pn _) rfl (last_get _ _)
      · exact h.wf
    · exact h.wf
  · split
    · rename_i sp hsp
      split
      · refine ⟨?_, fun _ => nofun, nofun⟩
        rw [hsp] at h
        have hne : sp ≠ [] := by rintro rfl; exact hs hsp
        exact TInv.retype h hne hty
      · exact h.wf
    · exact h.wf

/-! ### the `simple_value` actions -/

def setFmtF (fmt : Option Nat) (n : Node) : Node :=
  match fmt with
  | some f => (n.setFormat f).getD n
  | none => n

theorem actValue_eq (ctx : ParseCtx) (setter : Node → Option Node) (ty : Nat) (fmt : Option Nat)
    (l : Nat) (f : Option Bytes) (e : Bytes) :
    actValue ctx setter ty fmt l f e =
      if ctx.inTy T_ARRAY || ctx.inTy T_LIST then
        match ctx.parent, ctx.nodeAt ctx.parent with
        | some pp, some pn =>
          match pn.setElem setter ty (-1) with
          | none => .abort (ctx.yyerror l e)
          | some (pn', i) =>
            .ok (((ctx.modify pp (fun _ => pn')).modify (pp ++ [i]) (setFmtF fmt)).capture (pp ++ [i]) l f)
        | _, _ => .crash ctx
      else
        match ctx.setting with
        | some sp =>
          if (ctx.cfg.root.get? sp).isSome then
            .ok (ctx.modify sp (fun n => setFmtF fmt ((setter n).getD n)))
          else .crash ctx
        | none => .crash ctx := rfl

theorem setFmtF_kids (fmt : Option Nat) (n : Node) : (setFmtF fmt n).kids = n.kids := by
  unfold setFmtF
  cases fmt with
  | none => rfl
  | some f0 =>
    simp only
    cases hsf : n.setFormat f0 with
    | none => rfl
    | some n' => exact (setFormat_keeps hsf).2

theorem setFmtF_good (fmt : Option Nat) (n : Node) (hn : n.WF) :
    (setFmtF fmt n).WF ∧ Compat n (setFmtF fmt n) := by
  unfold setFmtF
  cases fmt with
  | none => exact ⟨hn, Compat.refl n⟩
  | some f0 =>
    simp only
    cases hsf : n.setFormat f0 with
    | none => exact ⟨hn, Compat.refl n⟩
    | some n' => exact good_setFormat f0 n n' hn hsf

theorem getD_kids {setter : Node → Option Node} (hk : ∀ n n', setter n = some n' → Keeps n n')
    (n : Node) : ((setter n).getD n).kids = n.kids := by
  cases hs : setter n with
  | none => rfl
  | some n' => exact (hk n n' hs).2

theorem getD_good {setter : Node → Option Node} (hs : GoodSetter setter) (n : Node) (hn : n.WF) :
    ((setter n).getD n).WF ∧ Compat n ((setter n).getD n) := by
  cases h : setter n with
  | none => exact ⟨hn, Compat.refl n⟩
  | some n' => exact hs n n' hn h

theorem actValue_inv (ctx : ParseCtx) (setter : Node → Option Node) (ty : Nat) (fmt : Option Nat)
    (l : Nat) (f : Option Bytes) (e : Bytes) (hs : GoodSetter setter)
    (hk : ∀ n n', setter n = some n' → Keeps n n') (hty : isScalarTy ty = true)
    (h : TInv ctx.cfg ctx.parent ctx.setting) :
    ActGood false ctx (actValue ctx setter ty fmt l f e) := by
  rw [actValue_eq]
  split
  · split
    · rename_i pp pn hpp hpn
      have hpn' : ctx.cfg.root.get? pp = some pn := by rw [hpp] at hpn; exact hpn
      split
      · exact yyerror_wf h.wf _ _
      · rename_i pn' i hse
        have hw' := (setElem_wf hs hty (WF.get h.wf.nodes hpn') hse).1
        obtain ⟨el, rfl, rfl⟩ := setElem_shape hse
        refine ⟨?_, fun h => h, nofun⟩
        show TInv { ctx.cfg with
          root := Node.modify (cap l f) (Node.modify (setFmtF fmt)
                    (ctx.cfg.root.modify (fun _ => _) pp) (pp ++ [pn.kids.length])) (pp ++ [pn.kids.length]) }
          ctx.parent ctx.setting
        rw [modify_modify, modify_modify_append]
        simp only [modify_last]
        have hel : el.WF := WF.kid hw' (by simp)
        obtain ⟨g1, g2⟩ := setFmtF_good fmt el hel
        exact TInv.grow h hpp hpn'
          (grown pn pn.kids el (fun m => cap l f (setFmtF fmt m)) hw' (cap_wf g1)
            (compat_trans' g2 (cap_compat _ _ _)))
          (grows_append pn _)
    · exact h.wf
  · split
    · rename_i sp hsp
      split
      · rename_i hsome
        obtain ⟨n, hn⟩ := Option.isSome_iff_exists.mp hsome
        refine ⟨?_, fun h => h, nofun⟩
        have hnw : n.WF := WF.get h.wf.nodes hn
        obtain ⟨a1, a2⟩ := getD_good hs n hnw
        obtain ⟨b1, b2⟩ := setFmtF_good fmt _ a1
        have := TInv.edit_setting (hsp ▸ h) (fun n => setFmtF fmt ((setter n).getD n)) hn b1
          (compat_trans' a2 b2) (fun m => by rw [setFmtF_kids, getD_kids hk])
        rw [← hsp] at this
        exact this
      · exact h.wf
    · exact h.wf

/-! ### `$@1` -/

theorem settingName_inv (ctx : ParseCtx) (v : TokVal) (l : Nat) (f : Option Bytes)
    (h : TInv ctx.cfg ctx.parent ctx.setting) :
    ActGood true ctx (runAction .settingName ctx v l f) := by
  simp only [runAction]
  split
  · rename_i pp pn hpp hpn
    have hpn' : ctx.cfg.root.get? pp = some pn := by rw [hpp] at hpn; exact hpn
    split
    · rename_i pn' i log hadd
      have hw' := (add_wf (WF.get h.wf.nodes hpn') hadd).1
      obtain ⟨ks, nm, rfl, rfl, _, hna⟩ := add_shape hadd
      have hne : some (pp ++ [ks.length]) ≠ some ([] : Path) := by simp
      refine ⟨?_, fun _ => hne, fun _ => hne⟩
      show TInv { ctx.cfg with
        root := (ctx.cfg.root.modify (fun _ => _) pp).modify (cap l f) (pp ++ [ks.length]) }
        ctx.parent (some (pp ++ [ks.length]))
      rw [modify_modify_append]
      simp only [modify_last]
      rw [hpp] at h ⊢
      refine TInv.new_setting h hpn'
        (grown pn ks _ (cap l f) hw' (cap_wf (WF.leaf (Nat.zero_le _) rfl)) (cap_compat _ _ _))
        ⟨rfl, fun _ => rfl⟩ ?_ (last_get _ _) rfl
      intro ha
      have := hna ha
      revert this
      decide
    · exact yyerror_wf (ctx := { ctx with setting := none }) h.wf _ _
  · exact yyerror_wf (ctx := { ctx with setting := none }) h.wf _ _

/-! ### all actions -/

theorem runAction_inv (act : ParseAct) (ctx : ParseCtx) (v : TokVal) (l : Nat) (f : Option Bytes)
    (h : TInv ctx.cfg ctx.parent ctx.setting)
    (hs : ctx.setting = some [] → usesSetting act = false) :
    ActGood (isSettingName act) ctx (runAction act ctx v l f) := by
  cases act
  case settingName => exact settingName_inv ctx v l f h
  case none => exact ⟨h, id, nofun⟩
  case arrayStart =>
    exact actAggStart_inv ctx T_ARRAY l f (by decide) h (fun hh => by simpa [usesSetting] using hs hh)
  case listStart =>
    exact actAggStart_inv ctx T_LIST l f (by decide) h (fun hh => by simpa [usesSetting] using hs hh)
  case groupStart =>
    exact actAggStart_inv ctx T_GROUP l f (by decide) h (fun hh => by simpa [usesSetting] using hs hh)
  case aggEnd =>
    simp only [runAction]
    split
    · rename_i hp
      exact ⟨h.no_parent, id, nofun⟩
    · rename_i p hp
      refine ⟨?_, id, nofun⟩
      have := hp ▸ h
      exact this.ascend
    · exact ⟨h, id, nofun⟩
  case stringFirst => exact ⟨h, id, nofun⟩
  case stringNext => exact ⟨h, id, nofun⟩
  case valBool =>
    exact actValue_inv ctx _ T_BOOL none l f _ (good_setBool _) (fun _ _ => setBool_keeps) (by decide) h
  case valInt =>
    exact actValue_inv ctx _ T_INT (some FMT_DEFAULT) l f _ (good_setInt _ _) (fun _ _ => setInt_keeps) (by decide) h
  case valInt64 =>
    exact actValue_inv ctx _ T_INT64 (some FMT_DEFAULT) l f _ (good_setInt64 _ _) (fun _ _ => setInt64_keeps) (by decide) h
  case valHex =>
    exact actValue_inv ctx _ T_INT (some FMT_HEX) l f _ (good_setInt _ _) (fun _ _ => setInt_keeps) (by decide) h
  case valHex64 =>
    exact actValue_inv ctx _ T_INT64 (some FMT_HEX) l f _ (good_setInt64 _ _) (fun _ _ => setInt64_keeps) (by decide) h
  case valFloat =>
    exact actValue_inv ctx _ T_FLOAT none l f _ (good_setFloat _ _) (fun _ _ => setFloat_keeps) (by decide) h
  case valString =>
    exact actValue_inv { ctx with str := none } _ T_STRING none l f _ (good_setString _)
      (fun _ _ => setString_keeps) (by decide) h
  case unknown => exact h.wf

end Libconfig.C04R
