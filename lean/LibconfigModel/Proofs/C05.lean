import LibconfigModel.TreeSpec
import LibconfigModel.WF
import LibconfigModel.Step
import LibconfigModel.Proofs.C04
import LibconfigModel.Proofs.C06
/-
  Helper lemmas for property C05 (the API operations behave as an ordered tree).
  The statements live in `LibconfigModel/Properties/C05.lean`.
-/
namespace Libconfig.C05P

open Libconfig

/-! ### `get?` after `modify` -/

theorem modify_cons (f : Node → Node) (n : Node) (i : Nat) (p : Path) :
    n.modify f (i :: p) =
      match n.kids[i]? with
      | some k => { n with kids := n.kids.set i (k.modify f p) }
      | none => n := by
  cases h : n.kids[i]? <;> simp [Node.modify, h]

/-- below the edited position: the node at a prefix `q` of the edited path is the old one,
edited at the remaining path -/
theorem get?_modify_prefix (f : Node → Node) (q r : Path) : ∀ n : Node,
    (n.modify f (q ++ r)).get? q = (n.get? q).map (fun m => m.modify f r) := by
  induction q with
  | nil => intro n; simp [C04.get?_nil]
  | cons i q ih =>
    intro n
    rw [List.cons_append, modify_cons, C04.get?_cons, C04.get?_cons]
    cases hk : n.kids[i]? with
    | none => simp [hk]
    | some k =>
      have hi : i < n.kids.length := (List.getElem?_eq_some_iff.mp hk).1
      simp [hi, ih k]

theorem get?_modify_self (f : Node → Node) (p : Path) (n : Node) :
    (n.modify f p).get? p = (n.get? p).map f := by
  have := get?_modify_prefix f p [] n
  simpa [Node.modify] using this

/-- away from the edited position nothing changes -/
theorem get?_modify_disjoint (f : Node → Node) : ∀ (p q : Path) (n : Node),
    ¬ p <+: q → ¬ q <+: p → (n.modify f p).get? q = n.get? q := by
  intro p
  induction p with
  | nil => intro q n h1 _; exact absurd (List.nil_prefix) h1
  | cons i p ih =>
    intro q n h1 h2
    cases q with
    | nil => exact absurd (List.nil_prefix) h2
    | cons j q =>
      rw [modify_cons]
      cases hk : n.kids[i]? with
      | none => rfl
      | some k =>
        simp only
        rw [C04.get?_cons, C04.get?_cons]
        by_cases hij : i = j
        · subst hij
          have hi : i < n.kids.length := (List.getElem?_eq_some_iff.mp hk).1
          have h1' : ¬ p <+: q := fun h => h1 (by simpa using h)
          have h2' : ¬ q <+: p := fun h => h2 (by simpa using h)
          have hk' : n.kids[i] = k := (List.getElem?_eq_some_iff.mp hk).2
          simp [hi, hk', ih q k h1' h2']
        · simp [List.getElem?_set_ne hij]

/-- own attributes of a node are not touched by an edit strictly below it -/
theorem modify_below (f : Node → Node) (m : Node) (i : Nat) (r : Path) :
    (m.modify f (i :: r)).name = m.name ∧ (m.modify f (i :: r)).ty = m.ty ∧
    (m.modify f (i :: r)).fmt = m.fmt ∧ (m.modify f (i :: r)).ival = m.ival ∧
    (m.modify f (i :: r)).fval = m.fval ∧ (m.modify f (i :: r)).sval = m.sval ∧
    (m.modify f (i :: r)).hook = m.hook ∧
    (m.modify f (i :: r)).kids.length = m.kids.length := by
  rw [modify_cons]
  cases m.kids[i]? <;> simp

/-! ### the assigning operations -/

/-- a node edit that keeps name and children -/
def Keeps (n n' : Node) : Prop := n'.name = n.name ∧ n'.kids = n.kids

theorem setInt_keeps {auto : Bool} {v : Int} {n n' : Node} (h : n.setInt auto v = some n') :
    Keeps n n' := by
  simp only [Node.setInt] at h
  repeat' split at h
  all_goals first | (cases h; exact ⟨rfl, rfl⟩) | cases h

theorem setInt64_keeps {auto : Bool} {v : Int} {n n' : Node} (h : n.setInt64 auto v = some n') :
    Keeps n n' := by
  simp only [Node.setInt64] at h
  repeat' split at h
  all_goals first | (cases h; exact ⟨rfl, rfl⟩) | cases h

theorem setFloat_keeps {auto : Bool} {b : Nat} {n n' : Node} (h : n.setFloat auto b = some n') :
    Keeps n n' := by
  simp only [Node.setFloat] at h
  repeat' split at h
  all_goals first | (cases h; exact ⟨rfl, rfl⟩) | cases h

theorem setBool_keeps {v : Int} {n n' : Node} (h : n.setBool v = some n') : Keeps n n' := by
  simp only [Node.setBool] at h
  repeat' split at h
  all_goals first | (cases h; exact ⟨rfl, rfl⟩) | cases h

theorem setString_keeps {v : Option Bytes} {n n' : Node} (h : n.setString v = some n') :
    Keeps n n' := by
  simp only [Node.setString] at h
  repeat' split at h
  all_goals first | (cases h; exact ⟨rfl, rfl⟩) | cases h

theorem setFormat_keeps {f : Nat} {n n' : Node} (h : n.setFormat f = some n') : Keeps n n' := by
  simp only [Node.setFormat] at h
  repeat' split at h
  all_goals first | (cases h; exact ⟨rfl, rfl⟩) | cases h

/-- what an assignment does to the state: nothing, or an edit of the addressed node that
keeps its name and children -/
def AssignEffect (s s' : State) (p : Path) : Prop :=
  s' = s ∨ ∃ (g : Node → Node) (n : Node), s.cfg.root.get? p = some n ∧ Keeps n (g n) ∧
    s' = s.withRoot (s.cfg.root.modify g p)

theorem setAt_effect (s : State) (p : Path) (f : Node → Option Node)
    (hf : ∀ n n', f n = some n' → Keeps n n') : AssignEffect s (setAt s p f).1 p := by
  unfold setAt
  split
  · exact Or.inl rfl
  rename_i n hn
  split
  · exact Or.inl rfl
  rename_i n' hn'
  exact Or.inr ⟨fun _ => n', n, hn, hf n n' hn', rfl⟩

/-- copy of `C05.assignsAt` (the statements file imports this one); the two are
definitionally equal -/
def assignsAt (op : Op) (p : Path) : Bool :=
  match op with
  | .setInt q _ | .setInt64 q _ | .setFloat q _ | .setBool q _ | .setString q _
  | .setFormat q _ | .setHook q _ => q == p
  | _ => false

theorem step_assign (s : State) (op : Op) (p : Path) (ha : assignsAt op p = true) :
    AssignEffect s (step s op).1 p := by
  cases op <;> simp only [assignsAt, beq_iff_eq, Bool.false_eq_true] at ha
  case setInt q v => subst ha; exact setAt_effect s q _ (fun _ _ => setInt_keeps)
  case setInt64 q v => subst ha; exact setAt_effect s q _ (fun _ _ => setInt64_keeps)
  case setFloat q b =>
    subst ha
    simp only [step]
    split
    · exact Or.inl rfl
    split
    · exact Or.inl rfl
    · exact setAt_effect s q _ (fun _ _ => setFloat_keeps)
  case setBool q v => subst ha; exact setAt_effect s q _ (fun _ _ => setBool_keeps)
  case setString q v => subst ha; exact setAt_effect s q _ (fun _ _ => setString_keeps)
  case setFormat q f => subst ha; exact setAt_effect s q _ (fun _ _ => setFormat_keeps)
  case setHook q h =>
    subst ha
    simp only [step]
    split
    · exact Or.inl rfl
    rename_i n hn
    exact Or.inr ⟨_, n, hn, ⟨rfl, rfl⟩, rfl⟩

theorem frame_disjoint (s s' : State) (p q : Path) (m : Node) (he : AssignEffect s s' p)
    (hq : s.cfg.root.get? q = some m) (h1 : ¬ p <+: q) (h2 : ¬ q <+: p) :
    s'.cfg.root.get? q = some m := by
  rcases he with rfl | ⟨g, n, _, _, rfl⟩
  · exact hq
  · show (s.cfg.root.modify g p).get? q = some m
    rw [get?_modify_disjoint g p q _ h1 h2, hq]

theorem frame_self (s s' : State) (p : Path) (n : Node) (he : AssignEffect s s' p)
    (hn : s.cfg.root.get? p = some n) :
    ∃ n', s'.cfg.root.get? p = some n' ∧ n'.name = n.name ∧ n'.kids = n.kids ∧
      s'.cfg = { s.cfg with root := s'.cfg.root } ∧ s'.world = s.world := by
  rcases he with rfl | ⟨g, n0, hn0, hk, rfl⟩
  · exact ⟨n, hn, rfl, rfl, rfl, rfl⟩
  · have : n0 = n := by rw [hn] at hn0; cases hn0; rfl
    subst this
    refine ⟨g n0, ?_, hk.1, hk.2, rfl, rfl⟩
    show (s.cfg.root.modify g p).get? p = some (g n0)
    rw [get?_modify_self, hn]; rfl

theorem frame_ancestor (s s' : State) (p q : Path) (m : Node) (he : AssignEffect s s' p)
    (hq : s.cfg.root.get? q = some m) (h : q <+: p) (hne : q ≠ p) :
    ∃ m', s'.cfg.root.get? q = some m' ∧ m'.name = m.name ∧ m'.ty = m.ty ∧ m'.fmt = m.fmt ∧
      m'.ival = m.ival ∧ m'.fval = m.fval ∧ m'.sval = m.sval ∧ m'.hook = m.hook ∧
      m'.kids.length = m.kids.length := by
  rcases he with rfl | ⟨g, n0, _, _, rfl⟩
  · exact ⟨m, hq, rfl, rfl, rfl, rfl, rfl, rfl, rfl, rfl⟩
  · obtain ⟨r, rfl⟩ := h
    cases r with
    | nil => exact absurd (by simp) hne
    | cons i r =>
      refine ⟨m.modify g (i :: r), ?_, modify_below g m i r⟩
      show (s.cfg.root.modify g (q ++ i :: r)).get? q = _
      rw [get?_modify_prefix, hq]; rfl

/-! ### failure atomicity -/

/-- copies of `C05.failed` / `C05.isRead` (definitionally equal) -/
def failed : Res → Bool
  | .flag false => true
  | .ptr none => true
  | .badOp => true
  | _ => false

theorem setAt_fst (s : State) (p : Path) (f : Node → Option Node)
    (hf : failed (setAt s p f).2.res = true) : (setAt s p f).1 = s := by
  unfold setAt at hf ⊢
  split
  · rfl
  split
  · rfl
  · rename_i h1 _ _ h2; simp [h1, h2, failed] at hf

theorem setElemAt_fst (s : State) (p : Path) (idx : Int) (f : Node → Option Node) (ty : Nat)
    (hf : failed (setElemAt s p idx f ty).2.res = true) : (setElemAt s p idx f ty).1 = s := by
  unfold setElemAt at hf ⊢
  split
  · rfl
  split
  · rfl
  · rename_i h1 _ _ _ h2; simp [h1, h2, failed] at hf

theorem query_fst (s : State) (p : Path) (f : Node → Res) : (query s p f).1 = s := by
  unfold query
  split <;> rfl

theorem ite_atomic (s : State) (c : Bool) (a b : State × Out) (ha : a.1 = s)
    (hb : failed b.2.res = true → b.1 = s)
    (hf : failed (if c = true then a else b).2.res = true) :
    (if c = true then a else b).1 = s := by
  cases c <;> simp_all

def isRead : Op → Bool
  | .read _ => true
  | .writeFile _ => true     -- file I/O: a failing write records the I/O error
  | _ => false

theorem failure_atomic (s : State) (op : Op) (hop : isRead op = false)
    (hf : failed (step s op).2.res = true) : (step s op).1 = s := by
  cases op
  case read src => simp [isRead] at hop
  case writeFile path => simp [isRead] at hop
  case add p name ty =>
    simp only [step] at hf ⊢
    split
    · rfl
    split
    · rfl
    · rename_i h1 _ _ _ _ h2; simp [h1, h2, failed] at hf
  case remove p name =>
    simp only [step] at hf ⊢
    split
    · rfl
    split
    · rfl
    · rename_i h1 _ _ _ h2; simp [h1, h2, failed] at hf
  case removeElem p name =>
    simp only [step] at hf ⊢
    split
    · rfl
    split
    · rfl
    · rename_i h1 _ _ _ h2; simp [h1, h2, failed] at hf
  case setFloat p b =>
    simp only [step] at hf ⊢
    split
    · rfl
    rename_i h1
    simp only [h1] at hf
    split
    · rfl
    · rename_i h2
      simp only [h2] at hf
      exact setAt_fst _ _ _ hf
  case setFloatElem p idx b =>
    simp only [step] at hf ⊢
    exact ite_atomic s _ _ _ rfl (setElemAt_fst _ _ _ _ _) hf
  case setHook p h =>
    simp only [step] at hf ⊢
    split
    · rfl
    · rename_i h1; simp [h1, failed] at hf
  all_goals first
    | exact setAt_fst _ _ _ hf
    | exact setElemAt_fst _ _ _ _ _ hf
    | exact query_fst _ _ _
    | rfl
    | (simp [step, failed] at hf)

/-! ### `remove_elem`, `set_*_elem` with a negative index -/

theorem removeElem_spec (dtor : Bool) (parent : Node) (idx : Nat) :
    parent.removeElem dtor idx =
      if parent.isAggregate then
        (parent.kids[idx]?).map fun victim =>
          ({ parent with kids := parent.kids.eraseIdx idx }, destroyLog dtor victim)
      else none := by
  unfold Node.removeElem
  cases parent.isAggregate <;> simp
  cases parent.kids[idx]? <;> rfl

theorem negative_index_appends (setter : Node → Option Node) (ty : Nat) (n n' : Node) (idx : Int)
    (i : Nat) (hidx : idx < 0) (h : n.setElem setter ty idx = some (n', i)) :
    i = n.kids.length ∧ n'.kids.length = n.kids.length + 1 ∧
      n'.kids.take n.kids.length = n.kids := by
  unfold Node.setElem at h
  split at h
  · cases h
  split at h
  · cases h
  split at h
  · cases h
  rename_i n1 hcr
  have hn1 : n1.kids = n.kids ++ [{ name := none, ty := ty }] := by
    unfold Node.create at hcr
    split at hcr
    · cases hcr
    · cases hcr; rfl
  simp only at h
  split at h
  · cases h
  split at h
  · cases h
  simp only [Option.some.injEq, Prod.mk.injEq] at h
  obtain ⟨rfl, rfl⟩ := h
  simp [hn1]

/-! ### `config_setting_add` -/

theorem listSearch_findIdx (ks : List Node) (nm : Bytes) (off : Nat) :
    listSearch ks nm off =
      match ks.findIdx? (fun k => k.name == some nm) with
      | none => none
      | some i => (ks[i]?).map fun k => (off + i, k) := by
  induction ks generalizing off with
  | nil => simp [listSearch]
  | cons x xs ih =>
    rw [listSearch, List.findIdx?_cons]
    by_cases hx : (x.name == some nm) = true
    · simp [hx]
    · simp only [hx, Bool.false_eq_true, if_false]
      rw [ih (off + 1)]
      cases List.findIdx? (fun k => k.name == some nm) xs with
      | none => simp
      | some i =>
        simp only [Option.map_some, List.getElem?_cons_succ]
        cases xs[i]? with
        | none => simp
        | some k => simp; omega


theorem memberIdx_of_search_none {ks : List Node} {nm : Bytes}
    (h : listSearch ks nm 0 = none) : Spec.memberIdx ks nm = none := by
  rw [listSearch_findIdx] at h
  unfold Spec.memberIdx
  cases hf : List.findIdx? (fun k => k.name == some nm) ks with
  | none => rfl
  | some i =>
    rw [hf] at h
    have hi := (List.findIdx?_eq_some_iff_getElem.mp hf).1
    simp [hi] at h

theorem memberIdx_of_search_some {ks : List Node} {nm : Bytes} {i : Nat} {k : Node}
    (h : listSearch ks nm 0 = some (i, k)) : Spec.memberIdx ks nm = some i ∧ ks[i]? = some k := by
  rw [listSearch_findIdx] at h
  unfold Spec.memberIdx
  cases hf : List.findIdx? (fun k => k.name == some nm) ks with
  | none => rw [hf] at h; cases h
  | some j =>
    rw [hf] at h
    simp only at h
    cases hk : ks[j]? with
    | none => rw [hk] at h; cases h
    | some k' =>
      rw [hk] at h
      simp only [Option.map_some, Nat.zero_add, Option.some.injEq, Prod.mk.injEq] at h
      obtain ⟨rfl, rfl⟩ := h
      exact ⟨rfl, hk⟩

theorem add_refines (dtor overrides : Bool) (parent : Node)
    (name : Option Bytes) (ty : Int) :
    parent.add dtor overrides name ty = Spec.add dtor overrides parent name ty := by
  unfold Node.add Spec.add
  split
  · rfl
  by_cases hA : parent.ty = 7
  · cases hk : parent.kids <;>
      simp [hA, hk, Node.isAggregate, isAggregateTy, Node.create, checkType, T_ARRAY, T_LIST, T_GROUP]
  by_cases hL : parent.ty = 8
  · simp [hL, Node.isAggregate, isAggregateTy, Node.create, checkType, T_ARRAY, T_LIST, T_GROUP]
  by_cases hG : parent.ty = 1
  · cases name with
    | none => simp [hG, Node.isAggregate, isAggregateTy, T_ARRAY, T_LIST, T_GROUP]
    | some nm =>
      cases hv : validName nm
      · simp [hG, hv, Node.isAggregate, isAggregateTy, T_ARRAY, T_LIST, T_GROUP]
      cases hs : listSearch parent.kids nm 0 with
      | none =>
        have hm := memberIdx_of_search_none hs
        simp [hG, hv, hs, hm, Node.isAggregate, isAggregateTy, Node.create, getMember, T_ARRAY, T_LIST, T_GROUP]
      | some ik =>
        obtain ⟨i, k⟩ := ik
        obtain ⟨hm, hk⟩ := memberIdx_of_search_some hs
        have hrm := C04.remove_valid (dtor := dtor) hG hv hs
        cases overrides <;>
          simp [hG, hv, hs, hm, hk, hrm, Node.isAggregate, isAggregateTy, Node.create, getMember, T_ARRAY, T_LIST, T_GROUP]
  · cases name with
    | none => simp [hA, hL, hG, Node.isAggregate, isAggregateTy, Node.create, T_ARRAY, T_LIST, T_GROUP]
    | some nm => simp [hA, hL, hG, Node.isAggregate, isAggregateTy, Node.create, getMember, T_ARRAY, T_LIST, T_GROUP]
    

/-! ### `config_setting_remove` -/

theorem eraseAt_cons (n : Node) (i : Nat) (q : Path) (hq : q ≠ []) :
    n.eraseAt (i :: q) =
      match n.kids[i]? with
      | some k => { n with kids := n.kids.set i (k.eraseAt q) }
      | none => n := by
  cases q with
  | nil => exact absurd rfl hq
  | cons j q => cases h : n.kids[i]? <;> simp [Node.eraseAt, h]

/-- erasing child `i` of the node at `pp` is erasing the node at `pp ++ [i]` -/
theorem modify_erase (i : Nat) (pp : Path) : ∀ n : Node,
    n.modify (fun s => { s with kids := s.kids.eraseIdx i }) pp = n.eraseAt (pp ++ [i]) := by
  induction pp with
  | nil => intro n; simp [Node.modify, Node.eraseAt]
  | cons j pp ih =>
    intro n
    rw [List.cons_append, modify_cons, eraseAt_cons _ _ _ (by simp)]
    cases n.kids[j]? with
    | none => rfl
    | some k => simp only [ih k]

/-! the last path component against the last step of the lookup -/

theorem go_nil (cand : Bytes) : lastComponent.go cand [] = cand := rfl

theorem go_sep (cand : Bytes) (c : Nat) (cs : Bytes) (h : isPathSep c = true) :
    lastComponent.go cand (c :: cs) = lastComponent.go cs cs := by
  rw [lastComponent.go, if_pos h]

theorem go_notSep (cand : Bytes) (c : Nat) (cs : Bytes) (h : isPathSep c = false) :
    lastComponent.go cand (c :: cs) = lastComponent.go cand cs := by
  rw [lastComponent.go, if_neg (by simp [h])]

theorem go_skip (cand a s : Bytes) (ha : ∀ x ∈ a, notSep x = true) :
    lastComponent.go cand (a ++ s) = lastComponent.go cand s := by
  induction a with
  | nil => rfl
  | cons c a ih =>
    have hc : isPathSep c = false := by simpa [notSep] using ha c (by simp)
    rw [List.cons_append, go_notSep _ _ _ hc]
    exact ih (fun x hx => ha x (by simp [hx]))

/-- scanning over a chunk that ends with `]`: the candidate then contains a `]` -/
theorem go_bracket (a s : Bytes) : ∀ x : Bytes, ∃ x', 93 ∈ x' ∧
    lastComponent.go (x ++ (a ++ 93 :: s)) (a ++ 93 :: s) = lastComponent.go (x' ++ s) s := by
  induction a with
  | nil =>
    intro x
    refine ⟨x ++ [93], by simp, ?_⟩
    rw [List.nil_append, go_notSep _ _ _ (by decide)]
    simp
  | cons c a ih =>
    intro x
    by_cases hc : isPathSep c = true
    · obtain ⟨x', h1, h2⟩ := ih []
      refine ⟨x', h1, ?_⟩
      rw [List.cons_append, go_sep _ _ _ hc]
      simpa using h2
    · obtain ⟨x', h1, h2⟩ := ih (x ++ [c])
      refine ⟨x', h1, ?_⟩
      rw [List.cons_append, go_notSep _ _ _ (by simpa using hc)]
      simpa using h2

theorem validName_ne_nil {nm : Bytes} (h : validName nm = true) : nm ≠ [] := by
  rintro rfl; simp [validName] at h

theorem validName_no_bracket {nm : Bytes} (h : validName nm = true) : 93 ∉ nm := by
  cases nm with
  | nil => simp
  | cons c cs =>
    simp only [validName, Bool.and_eq_true, List.all_eq_true] at h
    intro hm
    rcases List.mem_cons.mp hm with h93 | h93
    · have := h.1; rw [← h93] at this; simp [isAlpha, isUpper, isLower] at this
    · have := h.2 93 h93; simp [isAlpha, isUpper, isLower, isDigit] at this

/-- the scanning state of `lastComponent` relative to the text the walker still has to read:
the candidate is the remaining text preceded by `x`, the part of the current component already
consumed; `x` is empty (the component starts here), or contains a `]`, or is about to be
discarded because a separator follows -/
def CandOK (cand s : Bytes) : Prop :=
  ∃ x, cand = x ++ s ∧ (x = [] ∨ 93 ∈ x ∨ ∃ c cs, s = c :: cs ∧ isPathSep c = true)

def CandOK' (cand s : Bytes) : Prop := ∃ x, cand = x ++ s ∧ (x = [] ∨ 93 ∈ x)

theorem cand_nil_invalid {x : Bytes} (hx : x = [] ∨ 93 ∈ x) (hv : validName x = true) : False := by
  rcases hx with rfl | hx
  · exact validName_ne_nil hv rfl
  · exact validName_no_bracket hv hx

theorem dropWhile_head {α} (p : α → Bool) : ∀ (l : List α) (c : α) (t : List α),
    l.dropWhile p = c :: t → p c = false := by
  intro l
  induction l with
  | nil => intro c t h; cases h
  | cons a l ih =>
    intro c t h
    rw [List.dropWhile_cons] at h
    split at h
    · exact ih c t h
    · rename_i ha
      cases h
      simpa using ha

theorem takeWhile_all {α} (p : α → Bool) : ∀ (l : List α), ∀ c ∈ l.takeWhile p, p c = true := by
  intro l
  induction l with
  | nil => intro c h; simp at h
  | cons a l ih =>
    intro c h
    rw [List.takeWhile_cons] at h
    split at h
    · rcases List.mem_cons.mp h with rfl | h
      · assumption
      · exact ih c h
    · simp at h

def LastStep (cur : Node) (acc q : Path) (L : Bytes) : Prop :=
  ∃ r t, q = acc ++ r ∧ cur.get? r = some t ∧ t.name = some L

theorem LastStep.lift {cur k : Node} {acc q : Path} {i : Nat} {L : Bytes}
    (hk : cur.kids[i]? = some k) (h : LastStep k (acc ++ [i]) q L) : LastStep cur acc q L := by
  obtain ⟨r, t, rfl, hg, hn⟩ := h
  refine ⟨i :: r, t, by simp, ?_, hn⟩
  rw [C04.get?_cons, hk]
  exact hg

theorem body_last (fuel : Nat)
    (ih : ∀ cur acc s cand q, lookupLoop fuel cur acc s = some q → CandOK cand s →
      validName (lastComponent.go cand s) = true → LastStep cur acc q (lastComponent.go cand s))
    (cur : Node) (acc : Path) (p1 cand : Bytes) (q : Path)
    (h : C06P.loopBody fuel cur acc p1 = some q) (hc : CandOK' cand p1)
    (hv : validName (lastComponent.go cand p1) = true) :
    LastStep cur acc q (lastComponent.go cand p1) := by
  obtain ⟨x, rfl, hx⟩ := hc
  cases p1 with
  | nil =>
    rw [go_nil, List.append_nil] at hv
    exact (cand_nil_invalid hx hv).elim
  | cons y r =>
    by_cases hy : y = 91
    · subst hy
      rw [C06P.loopBody_idx] at h
      split at h
      · cases h
      split at h
      rotate_left
      · cases h
      rename_i r' hdrop
      split at h
      · cases h
      split at h
      · cases h
      rename_i k hk
      have e : (91 :: r.take (strtol10 r).2) ++ 93 :: r' = 91 :: r := by
        rw [List.cons_append, ← hdrop, List.take_append_drop]
      obtain ⟨x', h93, hgo⟩ := go_bracket (91 :: r.take (strtol10 r).2) r' x
      rw [e] at hgo
      rw [hgo] at hv ⊢
      have hk' : cur.kids[(strtol10 r).1.toNat]? = some k := by
        unfold getElem at hk
        split at hk
        · exact hk
        · cases hk
      exact (ih k _ r' (x' ++ r') q h ⟨x', rfl, Or.inr (Or.inl h93)⟩ hv).lift hk'
    · rw [C06P.loopBody_name _ _ _ _ _ hy] at h
      split at h
      rotate_left
      · cases h
      have hp : y :: r = (y :: r).takeWhile notSep ++ (y :: r).dropWhile notSep :=
        (List.takeWhile_append_dropWhile).symm
      have hall : ∀ c ∈ (y :: r).takeWhile notSep, notSep c = true :=
        takeWhile_all _ _
      generalize (y :: r).takeWhile notSep = nm at h hp hall
      generalize hrest : (y :: r).dropWhile notSep = rest at h hp
      rw [hp, go_skip _ _ _ hall] at hv ⊢
      cases hs : listSearch cur.kids nm 0 with
      | none => rw [hs] at h; cases h
      | some ik =>
        obtain ⟨i, k⟩ := ik
        rw [hs] at h
        simp only at h
        obtain ⟨j, hj, hkj, hkn⟩ := C06P.listSearch_spec _ _ _ _ _ hs
        have : i = j := by omega
        subst this
        cases rest with
        | nil =>
          rw [go_nil, List.append_nil] at hv ⊢
          have hx0 : x = [] := by
            rcases hx with hx | hx
            · exact hx
            · exact absurd (List.mem_append_left _ hx) (validName_no_bracket hv)
          subst hx0
          rw [C06P.lookupLoop_nil] at h
          simp at h
          subst h
          refine ⟨[i], k, rfl, ?_, by simpa using hkn⟩
          rw [C04.get?_cons, hkj]; rfl
        | cons c' rest' =>
          have hsep : isPathSep c' = true := by
            have := dropWhile_head _ _ _ _ hrest
            simpa [notSep] using this
          refine (ih k _ (c' :: rest') _ q h ⟨x ++ nm, by simp, Or.inr (Or.inr ⟨c', rest', rfl, hsep⟩)⟩ hv).lift hkj

theorem loop_last : ∀ (fuel : Nat) (cur : Node) (acc : Path) (s cand : Bytes) (q : Path),
    lookupLoop fuel cur acc s = some q → CandOK cand s →
    validName (lastComponent.go cand s) = true → LastStep cur acc q (lastComponent.go cand s) := by
  intro fuel
  induction fuel with
  | zero =>
    intro cur acc s cand q h hc hv
    cases s with
    | nil =>
      obtain ⟨x, rfl, hx⟩ := hc
      rw [go_nil, List.append_nil] at hv
      refine (cand_nil_invalid ?_ hv).elim
      rcases hx with hx | hx | ⟨_, _, hx, _⟩
      · exact Or.inl hx
      · exact Or.inr hx
      · cases hx
    | cons c cs => simp [lookupLoop] at h
  | succ fuel ih =>
    intro cur acc s cand q h hc hv
    cases s with
    | nil =>
      obtain ⟨x, rfl, hx⟩ := hc
      rw [go_nil, List.append_nil] at hv
      refine (cand_nil_invalid ?_ hv).elim
      rcases hx with hx | hx | ⟨_, _, hx, _⟩
      · exact Or.inl hx
      · exact Or.inr hx
      · cases hx
    | cons c cs =>
      rw [C06P.lookupLoop_cons] at h
      by_cases hsep : isPathSep c = true
      · rw [if_pos hsep] at h
        rw [go_sep _ _ _ hsep] at hv ⊢
        exact body_last fuel ih cur acc cs cs q h ⟨[], rfl, Or.inl rfl⟩ hv
      · rw [if_neg hsep] at h
        obtain ⟨x, rfl, hx⟩ := hc
        refine body_last fuel ih cur acc (c :: cs) _ q h ⟨x, rfl, ?_⟩ hv
        rcases hx with hx | hx | ⟨c', cs', hx, hs⟩
        · exact Or.inl hx
        · exact Or.inr hx
        · cases hx; exact absurd hs hsep

/-- if the last path component is a valid name, it is the name of the setting found -/
theorem lookup_last_name (n : Node) (path : Bytes) (q : Path)
    (h : lookupFrom n path = some q) (hv : validName (lastComponent path) = true) :
    ∃ t, n.get? q = some t ∧ t.name = some (lastComponent path) := by
  obtain ⟨r, t, rfl, hg, hn⟩ :=
    loop_last _ n [] path path q h ⟨[], rfl, Or.inl rfl⟩ hv
  exact ⟨t, by simpa using hg, hn⟩

/-- a lookup returns a proper descendant -/
theorem lookup_target (n : Node) (h : n.WF) (path : Bytes) (q : Path)
    (hl : lookupFrom n path = some q) : q ≠ [] ∧ ∃ m, n.get? q = some m := by
  obtain ⟨steps, _, m, _, _, hw, hq⟩ := C06P.sound_walk n (C06P.noEmpty_of_WF n h) path q hl
  have := C06P.walk_denotes_gen (fun _ _ _ => True) (fun _ => trivial)
    (fun _ _ _ _ _ _ _ _ _ _ => trivial) (fun _ _ _ _ _ _ _ _ => trivial) steps n q m hw
  exact ⟨hq, m, this.2⟩

theorem remove_refines (dtor : Bool) (parent : Node) (h : parent.WF) (name : Option Bytes) :
    parent.remove dtor name = Spec.remove dtor parent name := by
  unfold Node.remove Spec.remove
  cases name with
  | none => rfl
  | some nm =>
    simp only
    split
    · rfl
    cases hl : lookupFrom parent nm with
    | none => rfl
    | some q =>
      simp only
      obtain ⟨hq, m, hm⟩ := lookup_target parent h nm q hl
      generalize hpp : q.dropLast = pp
      obtain ⟨i, hi⟩ : ∃ i, q = pp ++ [i] :=
        ⟨q.getLast hq, by rw [← hpp]; exact (List.dropLast_concat_getLast hq).symm⟩
      subst hi
      rw [hm]
      rw [C04.get?_append] at hm
      cases hsp : parent.get? pp with
      | none => rw [hsp] at hm; cases hm
      | some sp =>
        rw [hsp, Option.bind_some, C04.get?_cons] at hm
        have hlwf : sp.LocalWF := h pp sp hsp
        cases hk : sp.kids[i]? with
        | none => rw [hk] at hm; cases hm
        | some m' =>
          rw [hk, Option.bind_some, C04.get?_nil] at hm
          cases hm
          simp only
          by_cases hname : m.name = some (lastComponent nm)
          · obtain ⟨_, _, hs⟩ := C06P.wf_named hlwf hk hname
            rw [hs]
            simp [hname, modify_erase]
          · cases hs : listSearch sp.kids (lastComponent nm) 0 with
            | none => simp [hname]
            | some iv =>
              exfalso
              obtain ⟨idx, victim⟩ := iv
              obtain ⟨j, _, hvj, hvn⟩ := C06P.listSearch_spec _ _ _ _ _ hs
              obtain ⟨_, hv, _⟩ := C06P.wf_named hlwf hvj hvn
              obtain ⟨t, ht, htn⟩ := lookup_last_name parent nm _ hl hv
              rw [C04.get?_append, hsp, Option.bind_some, C04.get?_cons, hk, Option.bind_some,
                C04.get?_nil] at ht
              cases ht
              exact hname htn

/-! ### clearing and reading keep the configuration's attributes -/

/-- copy of `C05.attrs` (definitionally equal) -/
def cfgAttrs (c : Config) : Nat × Option Bytes × Nat × Nat × Nat × Nat × Bool × Nat :=
  (c.options, c.includeDir, c.tabWidth, c.floatPrecision, c.defaultFormat, c.hook, c.destructor,
    c.includeFn)

theorem yyerror_attrs (ctx : ParseCtx) (l : Nat) (t : Bytes) :
    cfgAttrs (ctx.yyerror l t).cfg = cfgAttrs ctx.cfg := by
  unfold ParseCtx.yyerror
  split <;> rfl

def ActOut.ctx : ActOut → ParseCtx
  | .ok c => c
  | .abort c => c
  | .crash c => c

theorem actAggStart_attrs (ctx : ParseCtx) (ty l : Nat) (f : Option Bytes) :
    cfgAttrs (ActOut.ctx (actAggStart ctx ty l f)).cfg = cfgAttrs ctx.cfg := by
  unfold actAggStart
  repeat' split
  all_goals rfl

theorem actValue_attrs (ctx : ParseCtx) (setter : Node → Option Node) (ty : Nat) (fmt : Option Nat)
    (l : Nat) (f : Option Bytes) (e : Bytes) :
    cfgAttrs (ActOut.ctx (actValue ctx setter ty fmt l f e)).cfg = cfgAttrs ctx.cfg := by
  unfold actValue
  repeat' split
  all_goals first | rfl | exact yyerror_attrs _ _ _

theorem runAction_attrs (act : ParseAct) (ctx : ParseCtx) (v : TokVal) (l : Nat) (f : Option Bytes) :
    cfgAttrs (ActOut.ctx (runAction act ctx v l f)).cfg = cfgAttrs ctx.cfg := by
  cases act <;> simp only [runAction]
  case settingName =>
    repeat' split
    all_goals first | rfl | exact yyerror_attrs _ _ _
  case aggEnd =>
    repeat' split
    all_goals rfl
  all_goals first
    | rfl
    | exact actAggStart_attrs _ _ _ _
    | exact actValue_attrs _ _ _ _ _ _ _

abbrev POut := ScanState × ParseCtx × ParseResult
abbrev PRec := List (Nat × TokVal) → Lookahead → ScanState → ParseCtx → POut

/-- `yyreduce` of one iteration of `yyparseLoop`, with the recursive call abstracted -/
def reduceK (E : ParserEnv) (rec : PRec) (stack : List (Nat × TokVal)) (rule : Nat)
    (la : Lookahead) (s : ScanState) (ctx : ParseCtx) : POut :=
  let P := E.P
  let len := (P.r2.get rule).toNat
  let v := (stack.headD (0, {})).2
  match runAction (E.acts.getD rule .unknown) ctx v s.buf.lineno s.currentFilename with
  | .abort ctx' => (s, ctx', ParseResult.abort)
  | .crash ctx' => (s, ctx', ParseResult.crash)
  | .ok ctx' =>
    let stack' := stack.drop len
    let top := (stack'.headD (0, {})).1
    let lhs := (P.r1.get rule).toNat - P.ntokens
    let yyi := P.pgoto.get lhs + top
    let st' : Nat :=
      if 0 ≤ yyi && yyi ≤ P.last && P.check.get yyi.toNat == top then (P.table.get yyi.toNat).toNat
      else (P.defgoto.get lhs).toNat
    let yyval := if len == 0 then v else ((stack.drop (len - 1)).headD (0, {})).2
    rec ((st', yyval) :: stack') la s ctx'

def syntaxErrorK (s : ScanState) (ctx : ParseCtx) : POut :=
  (s, ctx.yyerror s.buf.lineno Generated.ERR_SYNTAX, ParseResult.abort)

def dfltK (E : ParserEnv) (rec : PRec) (stack : List (Nat × TokVal)) (state : Nat)
    (la : Lookahead) (s : ScanState) (ctx : ParseCtx) : POut :=
  let r := (E.P.defact.get state).toNat
  if r == 0 then syntaxErrorK s ctx else reduceK E rec stack r la s ctx

def fetchK (E : ParserEnv) (la : Lookahead) (s : ScanState) (ctx : ParseCtx) :
    ScanState × Option (Nat × TokVal) × Option ParseResult × ParseCtx :=
  match la with
  | some l => (s, some l, none, ctx)
  | none =>
    match yylex E.T E.sacts E.w E.ic E.lexFuel s with
    | (s', .tok t v) => (s', some (t, v), none, ctx)
    | (s', .eof) => (s', some (0, {}), none, ctx)
    | (s', .includeError t text file line) =>
      (s', some (t, {}), none,
       { ctx with cfg := { ctx.cfg with errText := some text, errFile := file, errLine := line } })
    | (s', .echo b) => (s', none, some (.echo b), ctx)
    | (s', .outOfFuel) => (s', none, some .outOfFuel, ctx)

def bodyK (E : ParserEnv) (rec : PRec) (stack : List (Nat × TokVal)) (la : Lookahead)
    (s : ScanState) (ctx : ParseCtx) : POut :=
  let P := E.P
  match stack with
  | [] => (s, ctx, .crash)
  | (state, _) :: _ =>
  if stack.length ≥ P.maxDepth then
    (s, ctx.yyerror s.buf.lineno Generated.ERR_EXHAUSTED, .exhausted)
  else if state == P.final then (s, ctx, .accept)
  else
    let yyn := P.pact.get state
    if yyn == P.pactNinf then dfltK E rec stack state la s ctx
    else
      match fetchK E la s ctx with
      | (s, _, some r, ctx) => (s, ctx, r)
      | (s, none, none, ctx) => (s, ctx, .crash)
      | (s, some (t, v), none, ctx) =>
        let tok := translateTok P t
        let idx := yyn + tok
        if idx < 0 || idx > P.last || P.check.get idx.toNat != tok then
          dfltK E rec stack state (some (t, v)) s ctx
        else
          let a := P.table.get idx.toNat
          if a ≤ 0 then
            if a == P.tableNinf then syntaxErrorK s ctx
            else reduceK E rec stack (-a).toNat (some (t, v)) s ctx
          else
            rec ((a.toNat, v) :: stack) none s ctx

theorem yyparseLoop_succ (E : ParserEnv) (fuel : Nat) (stack : List (Nat × TokVal)) (la : Lookahead)
    (s : ScanState) (ctx : ParseCtx) :
    yyparseLoop E (fuel + 1) stack la s ctx = bodyK E (yyparseLoop E fuel) stack la s ctx := by
  rfl

def KeepsAttrs (rec : PRec) : Prop :=
  ∀ stack la s ctx, cfgAttrs (rec stack la s ctx).2.1.cfg = cfgAttrs ctx.cfg

theorem reduceK_attrs {E : ParserEnv} {rec : PRec} (hrec : KeepsAttrs rec)
    (stack : List (Nat × TokVal)) (rule : Nat) (la : Lookahead) (s : ScanState) (ctx : ParseCtx) :
    cfgAttrs (reduceK E rec stack rule la s ctx).2.1.cfg = cfgAttrs ctx.cfg := by
  unfold reduceK
  simp only
  have ha := runAction_attrs (E.acts.getD rule .unknown) ctx (stack.headD (0, {})).2 s.buf.lineno
    s.currentFilename
  split
  · rename_i heq; rw [heq] at ha; exact ha
  · rename_i heq; rw [heq] at ha; exact ha
  · rename_i heq; rw [heq] at ha; rw [hrec]; exact ha

theorem syntaxErrorK_attrs (s : ScanState) (ctx : ParseCtx) :
    cfgAttrs (syntaxErrorK s ctx).2.1.cfg = cfgAttrs ctx.cfg := yyerror_attrs _ _ _

theorem dfltK_attrs {E : ParserEnv} {rec : PRec} (hrec : KeepsAttrs rec)
    (stack : List (Nat × TokVal)) (state : Nat) (la : Lookahead) (s : ScanState) (ctx : ParseCtx) :
    cfgAttrs (dfltK E rec stack state la s ctx).2.1.cfg = cfgAttrs ctx.cfg := by
  unfold dfltK
  simp only
  split
  · exact syntaxErrorK_attrs _ _
  · exact reduceK_attrs hrec _ _ _ _ _

theorem fetchK_attrs (E : ParserEnv) (la : Lookahead) (s : ScanState) (ctx : ParseCtx) :
    cfgAttrs (fetchK E la s ctx).2.2.2.cfg = cfgAttrs ctx.cfg := by
  unfold fetchK
  repeat' split
  all_goals rfl

theorem bodyK_attrs {E : ParserEnv} {rec : PRec} (hrec : KeepsAttrs rec)
    (stack : List (Nat × TokVal)) (la : Lookahead) (s : ScanState) (ctx : ParseCtx) :
    cfgAttrs (bodyK E rec stack la s ctx).2.1.cfg = cfgAttrs ctx.cfg := by
  unfold bodyK
  simp only
  split
  · rfl
  split
  · exact yyerror_attrs _ _ _
  split
  · rfl
  split
  · exact dfltK_attrs hrec _ _ _ _ _
  have hf := fetchK_attrs E la s ctx
  split
  · rename_i heq; rw [heq] at hf; exact hf
  · rename_i heq; rw [heq] at hf; exact hf
  · rename_i heq
    rw [heq] at hf
    simp only at hf
    split
    · exact (dfltK_attrs hrec _ _ _ _ _).trans hf
    split
    · split
      · exact (syntaxErrorK_attrs _ _).trans hf
      · exact (reduceK_attrs hrec _ _ _ _ _).trans hf
    · exact (hrec _ _ _ _).trans hf

theorem yyparseLoop_attrs (E : ParserEnv) : ∀ fuel, KeepsAttrs (yyparseLoop E fuel) := by
  intro fuel
  induction fuel with
  | zero => intro stack la s ctx; rfl
  | succ fuel ih =>
    intro stack la s ctx
    rw [yyparseLoop_succ]
    exact bodyK_attrs ih _ _ _ _

theorem finish_attrs (c' : Config) (b : Bool) (f : Option Bytes) (ty : Nat) (fs : List Bytes) :
    cfgAttrs { (if b = true then { c' with errFile := f, errType := ty } else c') with filenames := fs } =
      cfgAttrs c' := by
  cases b <;> rfl

theorem readCore_attrs (w : World) (c : Config) (filename : Option Bytes) (inp : Bytes) (fuel : Nat) :
    cfgAttrs (readCore w c filename inp fuel).cfg = cfgAttrs c := by
  let c1 : Config := { (c.setError ERR_NONE none).clear.1 with
    root := { (c.setError ERR_NONE none).clear.1.root with file := filename } }
  let s0 : ScanState :=
    { buf := { rest := inp }, topFile := filename,
      filenames := match filename with | some f => [f] | none => [] }
  have h1 : cfgAttrs (yyparse (theEnv w c1 fuel) fuel s0 { cfg := c1 }).2.1.cfg = cfgAttrs c1 :=
    yyparseLoop_attrs (theEnv w c1 fuel) fuel [(0, {})] none s0 { cfg := c1 }
  have h2 : cfgAttrs c1 = cfgAttrs c := rfl
  rw [← h2, ← h1]
  exact finish_attrs _ _ _ _ _

theorem read_attrs (w : World) (c : Config) (src : Source) (fuel : Nat) :
    cfgAttrs (read w c src fuel).cfg = cfgAttrs c := by
  unfold read
  split
  · exact readCore_attrs _ _ _ _ _
  · exact readCore_attrs _ _ _ _ _
  · split
    · rfl
    · exact readCore_attrs _ _ _ _ _

end Libconfig.C05P
