import LibconfigModel.Proofs.C01ParseSem
/-
  C02D (the parser computes what the text denotes), machinery: the remaining input with or
  without include errors, what a fetch preserves, runs that end in an abort, and the single
  iterations (shift / reduce / reduce-and-abort / syntax error) over the compiled tables.
  Generalises Proofs/C01ParseStep.lean (whose `Reaches`, `MC`, `run` are reused): the error text
  is tracked, so the input relation records whether include errors may occur.
-/
namespace Libconfig.C02D
open Libconfig C02P C05P C02C C01PP

/-! ### the remaining input -/

/-- like `C01PP.LexT` (the tokens the scanner will deliver from `sc` on start with `ks`, the end
marker `(0, {})` included); with `plain = true` no include error is among them -/
inductive LexP (E : ParserEnv) (plain : Bool) : ScanState → List (Nat × TokVal) → Prop where
  | nil (sc : ScanState) : LexP E plain sc []
  | eof (sc sc' : ScanState) : yylex E.T E.sacts E.w E.ic E.lexFuel sc = (sc', .eof) →
      LexP E plain sc [(0, {})]
  | tok (sc sc' : ScanState) (t : Nat) (v : TokVal) (ks : List (Nat × TokVal)) :
      yylex E.T E.sacts E.w E.ic E.lexFuel sc = (sc', .tok t v) → LexP E plain sc' ks →
      LexP E plain sc ((t, v) :: ks)
  | incl (sc sc' : ScanState) (t : Nat) (text : Bytes) (file : Option Bytes) (line : Nat)
      (ks : List (Nat × TokVal)) : plain = false →
      yylex E.T E.sacts E.w E.ic E.lexFuel sc = (sc', .includeError t text file line) →
      LexP E plain sc' ks → LexP E plain sc ((t, {}) :: ks)

/-- the tokens still to be consumed, given the lookahead -/
def InpP (E : ParserEnv) (plain : Bool) (la : Lookahead) (sc : ScanState)
    (ks : List (Nat × TokVal)) : Prop :=
  match la with
  | none => LexP E plain sc ks
  | some tv => ∃ ks', ks = tv :: ks' ∧ LexP E plain sc ks'

/-- two parse contexts agree on everything the semantic actions depend on; when no include
error occurs, also on the error text -/
structure Same (plain : Bool) (a b : ParseCtx) : Prop where
  sem : SameSem a b
  attrs : cfgAttrs b.cfg = cfgAttrs a.cfg
  err : plain = true → b.cfg.errText = a.cfg.errText

theorem Same.refl (plain : Bool) (a : ParseCtx) : Same plain a a :=
  ⟨SameSem.refl a, rfl, fun _ => rfl⟩

theorem Same.trans {plain : Bool} {a b c : ParseCtx} (h1 : Same plain a b) (h2 : Same plain b c) :
    Same plain a c :=
  ⟨h1.sem.trans h2.sem, h2.attrs.trans h1.attrs, fun hp => (h2.err hp).trans (h1.err hp)⟩

theorem fetchP {E : ParserEnv} {plain : Bool} {la : Lookahead} {sc : ScanState} (ctx : ParseCtx)
    {t : Nat} {v : TokVal} {ks : List (Nat × TokVal)} (h : InpP E plain la sc ((t, v) :: ks)) :
    ∃ sc' ctx', fetchK E la sc ctx = (sc', some (t, v), none, ctx') ∧ LexP E plain sc' ks ∧
      Same plain ctx ctx' := by
  cases la with
  | some l =>
    obtain ⟨ks', h1, h2⟩ := h
    injection h1 with h3 h4
    subst h4
    subst h3
    exact ⟨sc, ctx, rfl, h2, Same.refl _ _⟩
  | none =>
    unfold InpP at h
    simp only at h
    unfold fetchK
    simp only
    cases h with
    | eof _ sc' hy =>
      rw [hy]
      exact ⟨sc', ctx, rfl, LexP.nil _, Same.refl _ _⟩
    | tok _ sc' _ _ _ hy hl =>
      rw [hy]
      exact ⟨sc', ctx, rfl, hl, Same.refl _ _⟩
    | incl _ sc' _ text file line _ hp hy hl =>
      rw [hy]
      exact ⟨sc', _, rfl, hl, ⟨⟨rfl, rfl, rfl, rfl⟩, rfl, fun h => by rw [hp] at h; cases h⟩⟩

/-! ### runs that end in an abort -/

/-- From `a` the loop — unless the fuel runs out — returns 1 (`YYABORT` or a syntax error), and
(when no include error occurs) the error text of the configuration is `text` (`part`); and it
does return, after a fixed number of iterations (`total`). -/
structure Aborts (E : ParserEnv) (plain : Bool) (a : MC) (text : Bytes) : Prop where
  part : ∀ fuel, (C01PP.run E fuel a).2.2 = ParseResult.outOfFuel ∨
    ((C01PP.run E fuel a).2.2 = ParseResult.abort ∧
      (plain = true → (C01PP.run E fuel a).2.1.cfg.errText = some text))
  total : ∃ n, ∀ fuel, n ≤ fuel → (C01PP.run E fuel a).2.2 = ParseResult.abort

theorem Aborts.of_reaches {E : ParserEnv} {plain : Bool} {a b : MC} {text : Bytes}
    (h1 : Reaches E a b) (h2 : Aborts E plain b text) : Aborts E plain a text := by
  constructor
  · intro fuel
    rcases h1.part fuel with h | ⟨f1, h⟩
    · exact .inl h
    · rw [h]
      exact h2.part f1
  · obtain ⟨n1, hn1⟩ := h1.steps
    obtain ⟨n2, hn2⟩ := h2.total
    refine ⟨n2 + n1, fun fuel hf => ?_⟩
    obtain ⟨f, rfl⟩ : ∃ f, fuel = f + n1 := ⟨fuel - n1, by omega⟩
    rw [hn1]
    exact hn2 f (by omega)

theorem Aborts.of_body {E : ParserEnv} {plain : Bool} {a : MC} {text : Bytes} {out : POut}
    (h : ∀ rec, bodyK E rec a.stk a.la a.sc a.ctx = out) (hr : out.2.2 = .abort)
    (ht : plain = true → out.2.1.cfg.errText = some text) : Aborts E plain a text := by
  have step : ∀ n, C01PP.run E (n + 1) a = out := by
    intro n
    unfold C01PP.run
    rw [yyparseLoop_succ]
    exact h _
  constructor
  · intro fuel
    cases fuel with
    | zero => left; rw [run_zero]
    | succ n =>
      right
      rw [step n]
      exact ⟨hr, ht⟩
  · refine ⟨1, fun fuel hf => ?_⟩
    obtain ⟨n, rfl⟩ : ∃ n, fuel = n + 1 := ⟨fuel - 1, by omega⟩
    rw [step n]
    exact hr

/-! ### single iterations, any environment -/

section
variable {E : ParserEnv} {plain : Bool}

/-- the tables shift the next token -/
theorem gshift {s : Nat} {v0 : TokVal} {rest : List (Nat × TokVal)}
    {la : Lookahead} {sc : ScanState} {ctx : ParseCtx} {t : Nat} {v : TokVal}
    {ks : List (Nat × TokVal)} {q : Int}
    (hdepth : rest.length + 1 < E.P.maxDepth) (hfin : s ≠ E.P.final)
    (hact : actAt E.P s (translateTok E.P t) = some q) (hq : 0 < q)
    (hinp : InpP E plain la sc ((t, v) :: ks)) :
    ∃ sc' ctx', Reaches E ⟨(s, v0) :: rest, la, sc, ctx⟩
        ⟨(q.toNat, v) :: (s, v0) :: rest, none, sc', ctx'⟩ ∧
      InpP E plain none sc' ks ∧ Same plain ctx ctx' := by
  obtain ⟨sc', ctx', hf, hl, hs⟩ := fetchP ctx hinp
  refine ⟨sc', ctx', Reaches.of_body (fun rec => ?_), hl, hs⟩
  simp only
  rw [bodyK_cons]
  rw [if_neg (by simp only [List.length_cons, ge_iff_le]; omega)]
  rw [if_neg (by simpa using hfin)]
  split
  · rename_i hp
    rw [actAt_ninf hp] at hact
    cases hact
  rename_i hp
  rw [hf]
  simp only
  unfold actK
  simp only
  split
  · rename_i hg
    rw [actAt_guard hp hg] at hact
    cases hact
  · rename_i hg
    rw [actAt_entry hp hg] at hact
    injection hact with hact
    rw [hact]
    rw [if_neg (by omega)]

/-- an iteration that reduces by `r` in front of the next token: up to the action -/
theorem reduce_body {stk : List (Nat × TokVal)} {s : Nat} {v0 : TokVal}
    {rest0 : List (Nat × TokVal)} {la : Lookahead} {sc : ScanState} (ctx : ParseCtx) {t : Nat}
    {v : TokVal} {ks : List (Nat × TokVal)} {r : Nat}
    (htop : stk = (s, v0) :: rest0)
    (hdepth : stk.length < E.P.maxDepth) (hfin : s ≠ E.P.final)
    (hred : redOK E.P s (translateTok E.P t) r = true)
    (hinp : InpP E plain la sc ((t, v) :: ks)) :
    ∃ la' sc' ctx', Same plain ctx ctx' ∧ InpP E plain la' sc' ((t, v) :: ks) ∧
      ∀ rec, bodyK E rec stk la sc ctx = reduceK E rec stk r la' sc' ctx' := by
  unfold redOK at hred
  simp only [Bool.and_eq_true] at hred
  obtain ⟨hr0, hred⟩ := hred
  have hr0 : r ≠ 0 := not_beq hr0
  have hnd : ¬ ((s, v0) :: rest0).length ≥ E.P.maxDepth := by
    rw [← htop]; omega
  have hnf : ¬ (s == E.P.final) = true := by simpa using hfin
  have dflt : ∀ (la₁ : Lookahead) (sc₁ : ScanState) (ctx₁ : ParseCtx) rec,
      (E.P.defact.get s).toNat = r →
      dfltK E rec stk s la₁ sc₁ ctx₁ = reduceK E rec stk r la₁ sc₁ ctx₁ := by
    intro la₁ sc₁ ctx₁ rec hdef
    unfold dfltK
    simp only
    rw [hdef, if_neg (by simpa using hr0)]
  by_cases hp : (E.P.pact.get s == E.P.pactNinf) = true
  · rw [actAt_ninf hp] at hred
    simp only at hred
    refine ⟨la, sc, ctx, Same.refl _ _, hinp, fun rec => ?_⟩
    rw [htop, bodyK_cons, if_neg hnd, if_neg hnf, if_pos hp, ← htop]
    exact dflt la sc ctx rec (Nat.eq_of_beq_eq_true hred)
  · obtain ⟨sc', ctx', hf, hl, hs⟩ := fetchP ctx hinp
    have hinp' : InpP E plain (some (t, v)) sc' ((t, v) :: ks) := ⟨ks, rfl, hl⟩
    refine ⟨some (t, v), sc', ctx', hs, hinp', fun rec => ?_⟩
    rw [htop, bodyK_cons, if_neg hnd, if_neg hnf, if_neg hp, hf]
    simp only
    unfold actK
    simp only
    by_cases hg : (E.P.pact.get s + ↑(translateTok E.P t) < 0 ||
        E.P.pact.get s + ↑(translateTok E.P t) > ↑E.P.last ||
        E.P.check.get (E.P.pact.get s + ↑(translateTok E.P t)).toNat != ↑(translateTok E.P t)) = true
    · rw [actAt_guard hp hg] at hred
      simp only at hred
      rw [if_pos hg, ← htop]
      exact dflt _ _ _ rec (Nat.eq_of_beq_eq_true hred)
    · rw [actAt_entry hp hg] at hred
      simp only [Bool.and_eq_true, decide_eq_true_eq] at hred
      obtain ⟨⟨hle, hninf⟩, hrule⟩ := hred
      rw [if_neg hg, if_pos hle, if_neg (by simpa using hninf), Nat.eq_of_beq_eq_true hrule, ← htop]

/-- the tables reduce by `r` in front of the next token and the action succeeds -/
theorem greduce {stk pushed : List (Nat × TokVal)} {p : Nat}
    {vp : TokVal} {rest : List (Nat × TokVal)} {s : Nat} {v0 : TokVal}
    {rest0 : List (Nat × TokVal)} {la : Lookahead} {sc : ScanState} {ctx : ParseCtx} {t : Nat}
    {v : TokVal} {ks : List (Nat × TokVal)} {r : Nat} {Post : ParseCtx → Prop}
    (hstk : stk = pushed ++ (p, vp) :: rest) (htop : stk = (s, v0) :: rest0)
    (hdepth : stk.length < E.P.maxDepth) (hfin : s ≠ E.P.final)
    (hred : redOK E.P s (translateTok E.P t) r = true)
    (hlen : (E.P.r2.get r).toNat = pushed.length)
    (hinp : InpP E plain la sc ((t, v) :: ks))
    (hact : ∀ ctx₁ l f, Same plain ctx ctx₁ →
      ∃ ctx₂, runAction (E.acts.getD r .unknown) ctx₁ v0 l f = .ok ctx₂ ∧ Post ctx₂) :
    ∃ la' sc' ctx' vv, Reaches E ⟨stk, la, sc, ctx⟩
        ⟨(gotoTo E.P p (E.P.r1.get r).toNat, vv) :: (p, vp) :: rest, la', sc', ctx'⟩ ∧
      InpP E plain la' sc' ((t, v) :: ks) ∧ Post ctx' := by
  obtain ⟨la', sc', ctx', hs, hinp', hb⟩ := reduce_body ctx htop hdepth hfin hred hinp
  obtain ⟨ctx₂, ha, hpost⟩ := hact ctx' sc'.buf.lineno sc'.currentFilename hs
  have hhead : (stk.headD (0, {})).2 = v0 := by rw [htop]; rfl
  refine ⟨la', sc', ctx₂, yyvalOf stk pushed.length, Reaches.of_body (fun rec => ?_), hinp', hpost⟩
  simp only
  rw [hb rec]
  exact reduceK_eq hstk hlen (by rw [hhead]; exact ha) rec

/-- the tables reduce by `r` in front of the next token and the action aborts -/
theorem greduce_abort {stk : List (Nat × TokVal)} {s : Nat} {v0 : TokVal}
    {rest0 : List (Nat × TokVal)} {la : Lookahead} {sc : ScanState} {ctx : ParseCtx} {t : Nat}
    {v : TokVal} {ks : List (Nat × TokVal)} {r : Nat} {text : Bytes}
    (htop : stk = (s, v0) :: rest0)
    (hdepth : stk.length < E.P.maxDepth) (hfin : s ≠ E.P.final)
    (hred : redOK E.P s (translateTok E.P t) r = true)
    (hinp : InpP E plain la sc ((t, v) :: ks))
    (hact : ∀ ctx₁ l f, Same plain ctx ctx₁ →
      ∃ ctx₂, runAction (E.acts.getD r .unknown) ctx₁ v0 l f = .abort ctx₂ ∧
        (plain = true → ctx₂.cfg.errText = some text)) :
    Aborts E plain ⟨stk, la, sc, ctx⟩ text := by
  obtain ⟨la', sc', ctx', hs, _, hb⟩ := reduce_body ctx htop hdepth hfin hred hinp
  obtain ⟨ctx₂, ha, htext⟩ := hact ctx' sc'.buf.lineno sc'.currentFilename hs
  have hhead : (stk.headD (0, {})).2 = v0 := by rw [htop]; rfl
  refine Aborts.of_body (out := (sc', ctx₂, .abort)) (fun rec => ?_) rfl htext
  simp only
  rw [hb rec]
  unfold reduceK
  simp only
  rw [hhead, ha]

/-- the state has no entry for the next token and no default reduction (the compiled tables
have no explicit error entries) -/
def errOK (P : LalrTables) (s k : Nat) : Bool :=
  Nat.beq (P.defact.get s).toNat 0 &&
  match actAt P s k with
  | none => true
  | some _ => false

theorem yyerror_text {ctx : ParseCtx} (h : ctx.cfg.errText = none) (l : Nat) (text : Bytes) :
    (ctx.yyerror l text).cfg.errText = some text := by
  unfold ParseCtx.yyerror
  rw [h]
  rfl

/-- the tables have nothing for the next token: syntax error -/
theorem gerror {stk : List (Nat × TokVal)} {s : Nat} {v0 : TokVal}
    {rest0 : List (Nat × TokVal)} {la : Lookahead} {sc : ScanState} {ctx : ParseCtx} {t : Nat}
    {v : TokVal} {ks : List (Nat × TokVal)}
    (htop : stk = (s, v0) :: rest0)
    (hdepth : stk.length < E.P.maxDepth) (hfin : s ≠ E.P.final)
    (herr : errOK E.P s (translateTok E.P t) = true)
    (hinp : InpP E plain la sc ((t, v) :: ks))
    (hnone : plain = true → ctx.cfg.errText = none) :
    Aborts E plain ⟨stk, la, sc, ctx⟩ Generated.ERR_SYNTAX := by
  unfold errOK at herr
  simp only [Bool.and_eq_true] at herr
  obtain ⟨hdef, herr⟩ := herr
  have hdef : (E.P.defact.get s).toNat = 0 := Nat.eq_of_beq_eq_true hdef
  have hnd : ¬ ((s, v0) :: rest0).length ≥ E.P.maxDepth := by
    rw [← htop]; omega
  have hnf : ¬ (s == E.P.final) = true := by simpa using hfin
  have dflt : ∀ (la₁ : Lookahead) (sc₁ : ScanState) (ctx₁ : ParseCtx) rec,
      dfltK E rec stk s la₁ sc₁ ctx₁ = syntaxErrorK sc₁ ctx₁ := by
    intro la₁ sc₁ ctx₁ rec
    unfold dfltK
    simp only
    rw [hdef]
    rfl
  by_cases hp : (E.P.pact.get s == E.P.pactNinf) = true
  · refine Aborts.of_body (out := syntaxErrorK sc ctx) (fun rec => ?_) rfl
      (fun h => yyerror_text (hnone h) _ _)
    simp only
    rw [htop, bodyK_cons, if_neg hnd, if_neg hnf, if_pos hp, ← htop]
    exact dflt la sc ctx rec
  · obtain ⟨sc', ctx', hf, hl, hs⟩ := fetchP ctx hinp
    refine Aborts.of_body (out := syntaxErrorK sc' ctx') (fun rec => ?_) rfl
      (fun h => yyerror_text (by rw [hs.err h]; exact hnone h) _ _)
    simp only
    rw [htop, bodyK_cons, if_neg hnd, if_neg hnf, if_neg hp, hf]
    simp only
    unfold actK
    simp only
    by_cases hg : (E.P.pact.get s + ↑(translateTok E.P t) < 0 ||
        E.P.pact.get s + ↑(translateTok E.P t) > ↑E.P.last ||
        E.P.check.get (E.P.pact.get s + ↑(translateTok E.P t)).toNat != ↑(translateTok E.P t)) = true
    · rw [if_pos hg, ← htop]
      exact dflt _ _ _ rec
    · rw [actAt_entry hp hg] at herr
      cases herr

end

/-! ### the same over the compiled tables -/

section
variable {E : ParserEnv} {plain : Bool}

theorem pshift (hE : Compiled E) {s : Nat} {v0 : TokVal} {rest : List (Nat × TokVal)}
    {la : Lookahead} {sc : ScanState} {ctx : ParseCtx} {t : Nat} {v : TokVal}
    {ks : List (Nat × TokVal)} {k q : Nat}
    (hdepth : rest.length + 1 < 10000) (hfin : s ≠ 6)
    (hk : translateTok P t = k) (hact : actAt P s k = some (q : Int)) (hq : 0 < q)
    (hinp : InpP E plain la sc ((t, v) :: ks)) :
    ∃ sc' ctx', Reaches E ⟨(s, v0) :: rest, la, sc, ctx⟩
        ⟨(q, v) :: (s, v0) :: rest, none, sc', ctx'⟩ ∧
      InpP E plain none sc' ks ∧ Same plain ctx ctx' := by
  have h := gshift (E := E) (plain := plain) (s := s) (v0 := v0) (rest := rest) (la := la) (sc := sc)
    (ctx := ctx) (t := t) (v := v) (ks := ks) (q := (q : Int))
    (by rw [hE.tables]; exact hdepth) (by rw [hE.tables]; exact hfin)
    (by rw [hE.tables, hk]; exact hact) (by omega) hinp
  simpa using h

theorem preduce (hE : Compiled E) {stk pushed : List (Nat × TokVal)} {p : Nat}
    {vp : TokVal} {rest : List (Nat × TokVal)} {s : Nat} {v0 : TokVal}
    {rest0 : List (Nat × TokVal)} {la : Lookahead} {sc : ScanState} {ctx : ParseCtx} {t : Nat}
    {v : TokVal} {ks : List (Nat × TokVal)} {r lhs len q' : Nat} {act : ParseAct}
    {Post : ParseCtx → Prop}
    (hstk : stk = pushed ++ (p, vp) :: rest) (htop : stk = (s, v0) :: rest0)
    (hdepth : stk.length < 10000) (hfin : s ≠ 6)
    (hred : redOK P s (translateTok P t) r = true)
    (hrule : RuleIs r lhs len act) (hlen : len = pushed.length)
    (hgoto : gotoTo P p lhs = q')
    (hinp : InpP E plain la sc ((t, v) :: ks))
    (hact : ∀ ctx₁ l f, Same plain ctx ctx₁ →
      ∃ ctx₂, runAction act ctx₁ v0 l f = .ok ctx₂ ∧ Post ctx₂) :
    ∃ la' sc' ctx' vv, Reaches E ⟨stk, la, sc, ctx⟩ ⟨(q', vv) :: (p, vp) :: rest, la', sc', ctx'⟩ ∧
      InpP E plain la' sc' ((t, v) :: ks) ∧ Post ctx' := by
  obtain ⟨h1, h2, h3⟩ := hrule
  have h := greduce (E := E) (plain := plain) (Post := Post) hstk htop
    (by rw [hE.tables]; exact hdepth)
    (by rw [hE.tables]; exact hfin) (by rw [hE.tables]; exact hred)
    (by rw [hE.tables, h2]; exact hlen) hinp (by rw [hE.acts, h3]; exact hact)
  rw [hE.tables, h1, hgoto] at h
  exact h

/-- a reduction by a rule without action -/
theorem preduce0 (hE : Compiled E) {stk pushed : List (Nat × TokVal)} {p : Nat}
    {vp : TokVal} {rest : List (Nat × TokVal)} {s : Nat} {v0 : TokVal}
    {rest0 : List (Nat × TokVal)} {la : Lookahead} {sc : ScanState} {ctx : ParseCtx} {t : Nat}
    {v : TokVal} {ks : List (Nat × TokVal)} {r lhs len q' : Nat}
    (hstk : stk = pushed ++ (p, vp) :: rest) (htop : stk = (s, v0) :: rest0)
    (hdepth : stk.length < 10000) (hfin : s ≠ 6)
    (hred : redOK P s (translateTok P t) r = true)
    (hrule : RuleIs r lhs len .none) (hlen : len = pushed.length)
    (hgoto : gotoTo P p lhs = q')
    (hinp : InpP E plain la sc ((t, v) :: ks)) :
    ∃ la' sc' ctx' vv, Reaches E ⟨stk, la, sc, ctx⟩ ⟨(q', vv) :: (p, vp) :: rest, la', sc', ctx'⟩ ∧
      InpP E plain la' sc' ((t, v) :: ks) ∧ Same plain ctx ctx' :=
  preduce hE (Post := fun c => Same plain ctx c) hstk htop hdepth hfin hred hrule hlen hgoto hinp
    (fun ctx₁ _ _ hs => ⟨ctx₁, rfl, hs⟩)

theorem preduce_abort (hE : Compiled E) {stk : List (Nat × TokVal)} {s : Nat} {v0 : TokVal}
    {rest0 : List (Nat × TokVal)} {la : Lookahead} {sc : ScanState} {ctx : ParseCtx} {t : Nat}
    {v : TokVal} {ks : List (Nat × TokVal)} {r lhs len : Nat} {act : ParseAct} {text : Bytes}
    (htop : stk = (s, v0) :: rest0)
    (hdepth : stk.length < 10000) (hfin : s ≠ 6)
    (hred : redOK P s (translateTok P t) r = true)
    (hrule : RuleIs r lhs len act)
    (hinp : InpP E plain la sc ((t, v) :: ks))
    (hact : ∀ ctx₁ l f, Same plain ctx ctx₁ →
      ∃ ctx₂, runAction act ctx₁ v0 l f = .abort ctx₂ ∧
        (plain = true → ctx₂.cfg.errText = some text)) :
    Aborts E plain ⟨stk, la, sc, ctx⟩ text := by
  obtain ⟨_, _, h3⟩ := hrule
  exact greduce_abort (E := E) (plain := plain) htop
    (by rw [hE.tables]; exact hdepth)
    (by rw [hE.tables]; exact hfin) (by rw [hE.tables]; exact hred)
    hinp (by rw [hE.acts, h3]; exact hact)

theorem perror (hE : Compiled E) {stk : List (Nat × TokVal)} {s : Nat} {v0 : TokVal}
    {rest0 : List (Nat × TokVal)} {la : Lookahead} {sc : ScanState} {ctx : ParseCtx} {t : Nat}
    {v : TokVal} {ks : List (Nat × TokVal)}
    (htop : stk = (s, v0) :: rest0)
    (hdepth : stk.length < 10000) (hfin : s ≠ 6)
    (herr : errOK P s (translateTok P t) = true)
    (hinp : InpP E plain la sc ((t, v) :: ks))
    (hnone : plain = true → ctx.cfg.errText = none) :
    Aborts E plain ⟨stk, la, sc, ctx⟩ Generated.ERR_SYNTAX :=
  gerror (E := E) (plain := plain) htop
    (by rw [hE.tables]; exact hdepth)
    (by rw [hE.tables]; exact hfin) (by rw [hE.tables]; exact herr) hinp hnone

end

end Libconfig.C02D
