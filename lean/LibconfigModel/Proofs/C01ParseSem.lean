import LibconfigModel.Proofs.C01ParseSpec
import LibconfigModel.Proofs.C04ReadAct
/-
  C01 (parsing half), semantic side: what each grammar action does to the tree under
  construction, in the situations in which the parse of a written configuration runs it.

  The tree is described locally: `Hole K pp` says that `K x` is the whole tree with `x` plugged
  in at the index path `pp`; `View ctx K pp pn str st` says that the parse context has
  `ctx->parent` at `pp`, the node there is `pn`, `ctx->string` is `str` and `ctx->setting` is
  `st`.  `Slot st pp pn pre nm` describes where the next value goes: into the fresh member
  (of type NONE, created by `$@1`) behind the finished members `pre` of a group, or behind the
  finished elements `pre` of a list or array.
-/
namespace Libconfig.C01PP
open Libconfig C04 C04R C05P

/-! ### holes -/

structure Hole (K : Node → Node) (pp : Path) : Prop where
  get : ∀ x, (K x).get? pp = some x
  mod : ∀ x f, (K x).modify f pp = K (f x)

theorem Hole.root : Hole (fun x => x) [] :=
  ⟨fun x => get?_nil x, fun x f => modify_nil f x⟩

theorem get?_last (pn : Node) (pre : List Node) (y : Node) :
    Node.get? { pn with kids := pre ++ [y] } [pre.length] = some y := by
  rw [get?_cons]
  simp [get?_nil]

theorem Hole.kid {K : Node → Node} {pp : Path} (h : Hole K pp) (pn : Node) (pre : List Node) :
    Hole (fun y => K { pn with kids := pre ++ [y] }) (pp ++ [pre.length]) := by
  constructor
  · intro x
    show (K _).get? _ = _
    rw [get?_append, h.get, Option.bind_some, get?_last]
  · intro x f
    show (K _).modify f _ = K _
    rw [modify_append, h.mod, modify_last]

/-! ### views -/

structure View (ctx : ParseCtx) (K : Node → Node) (pp : Path) (pn : Node) (str : Option Bytes)
    (st : Option Path) : Prop where
  hole : Hole K pp
  root : ctx.cfg.root = K pn
  parent : ctx.parent = some pp
  str : ctx.str = str
  setting : ctx.setting = st

theorem View.of_same {ctx ctx₁ : ParseCtx} {K : Node → Node} {pp : Path} {pn : Node}
    {str : Option Bytes} {st : Option Path} (hV : View ctx K pp pn str st)
    (hs : SameSem ctx ctx₁) : View ctx₁ K pp pn str st :=
  ⟨hV.hole, hs.1.trans hV.root, hs.2.1.trans hV.parent, hs.2.2.2.trans hV.str,
    hs.2.2.1.trans hV.setting⟩

theorem View.nodeAt {ctx : ParseCtx} {K : Node → Node} {pp : Path} {pn : Node}
    {str : Option Bytes} {st : Option Path} (hV : View ctx K pp pn str st) :
    ctx.nodeAt ctx.parent = some pn := by
  rw [hV.parent]
  show ctx.cfg.root.get? pp = some pn
  rw [hV.root, hV.hole.get]

theorem View.inTy {ctx : ParseCtx} {K : Node → Node} {pp : Path} {pn : Node}
    {str : Option Bytes} {st : Option Path} (hV : View ctx K pp pn str st) (ty : Nat) :
    ctx.inTy ty = (pn.ty == ty) := by
  unfold ParseCtx.inTy
  rw [hV.nodeAt]

/-- the slot the next value goes into -/
inductive Slot (st : Option Path) (pp : Path) (pn : Node) (pre : List Node) (nm : Option Bytes) :
    Prop where
  | member (m : Node) (nm' : Bytes) : pn.ty = T_GROUP → pn.kids = pre ++ [m] →
      stripPos m = { name := some nm' } → nm = some nm' → st = some (pp ++ [pre.length]) →
      Slot st pp pn pre nm
  | elem : (pn.ty = T_LIST ∨ pn.ty = T_ARRAY) → pn.kids = pre → nm = none → Slot st pp pn pre nm

/-! ### small facts about `stripPos` -/

theorem stripPosList_eq_nil {ks : List Node} (h : stripPosList ks = []) : ks = [] := by
  cases ks with
  | nil => rfl
  | cons k ks => rw [stripPosList] at h; cases h

/-- a node whose position-free form has no children is that form plus its position -/
theorem eq_of_stripPos {m r : Node} (h : stripPos m = r) (hk : r.kids = []) :
    m = { r with line := m.line, file := m.file } := by
  cases m with
  | mk name ty fmt ival fval sval kids hook line file =>
    rw [stripPos] at h
    subst h
    simp only at hk
    have := stripPosList_eq_nil hk
    subst this
    rfl

theorem stripPos_cap (l : Nat) (f : Option Bytes) (n : Node) : stripPos (cap l f n) = stripPos n := by
  cases n; simp [cap, stripPos]

theorem stripPos_leaf (r : Node) (hk : r.kids = []) (l : Nat) (f : Option Bytes) :
    stripPos { r with line := l, file := f } = { r with line := 0, file := none } := by
  cases r with
  | mk name ty fmt ival fval sval kids hook line file =>
    simp only at hk
    subst hk
    simp [stripPos, stripPosList]

theorem node_kids_eq {pn : Node} {ks : List Node} (h : pn.kids = ks) :
    pn = { pn with kids := ks } := by
  subst h; cases pn; rfl

/-! ### the context operations on a view -/

theorem modify_root (ctx : ParseCtx) (p : Path) (f : Node → Node) :
    (ctx.modify p f).cfg.root = ctx.cfg.root.modify f p := rfl

theorem capture_root (ctx : ParseCtx) (p : Path) (l : Nat) (f : Option Bytes) :
    (ctx.capture p l f).cfg.root = ctx.cfg.root.modify (cap l f) p := rfl

/-! ### `$@1`: the name of a setting -/

theorem memberIdx_none {kids : List Node} {nm : Bytes} (h : ∀ k ∈ kids, k.name ≠ some nm) :
    Spec.memberIdx kids nm = none := by
  unfold Spec.memberIdx
  rw [List.findIdx?_eq_none_iff]
  intro k hk
  simpa using h k hk

theorem add_member {dtor ov : Bool} {pn : Node} {nm : Bytes} (hg : pn.ty = T_GROUP)
    (hvalid : validName nm = true) (hfresh : ∀ k ∈ pn.kids, k.name ≠ some nm) :
    pn.add dtor ov (some nm) (T_NONE : Nat) =
      some ({ pn with kids := pn.kids ++ [{ name := some nm, ty := T_NONE }] }, pn.kids.length, []) := by
  rw [add_refines]
  unfold Spec.add
  simp [hg, Node.isAggregate, isAggregateTy, T_GROUP, T_ARRAY, T_LIST, hvalid, memberIdx_none hfresh]

theorem act_settingName {ctx : ParseCtx} {K : Node → Node} {pp : Path} {pn : Node}
    {str : Option Bytes} {st : Option Path} (hV : View ctx K pp pn str st) (hg : pn.ty = T_GROUP)
    {nm : Bytes} (hvalid : validName nm = true) (hfresh : ∀ k ∈ pn.kids, k.name ≠ some nm)
    (v : TokVal) (hv : v.sval = nm) (l : Nat) (f : Option Bytes) :
    ∃ ctx₂, runAction .settingName ctx v l f = .ok ctx₂ ∧
      View ctx₂ K pp
        { pn with kids := pn.kids ++ [{ name := some nm, ty := T_NONE, line := l, file := f }] }
        str (some (pp ++ [pn.kids.length])) := by
  simp only [runAction]
  rw [hV.nodeAt, hV.parent]
  simp only
  rw [hv, add_member hg hvalid hfresh]
  simp only
  refine ⟨_, rfl, hV.hole, ?_, hV.parent, hV.str, rfl⟩
  rw [capture_root]
  show ((ctx.cfg.root.modify _ pp).modify _ _) = _
  rw [hV.root, hV.hole.mod, (hV.hole.kid pn pn.kids).mod]
  rfl

/-! ### `$@2`, `$@3`, `$@4`: an aggregate starts -/

theorem add_elem {dtor ov : Bool} {pn : Node} (hl : pn.ty = T_LIST) (ty : Nat) (hty : ty ≤ 8) :
    pn.add dtor ov none (ty : Nat) =
      some ({ pn with kids := pn.kids ++ [{ ty := ty }] }, pn.kids.length, []) := by
  rw [add_refines]
  unfold Spec.add
  have h1 : ¬ ((ty : Int) < 0 ∨ (ty : Int) > 8) := by omega
  simp [hl, Node.isAggregate, isAggregateTy, T_GROUP, T_ARRAY, T_LIST, h1]

theorem act_aggStart {ctx : ParseCtx} {K : Node → Node} {pp : Path} {pn : Node}
    {st : Option Path} {pre : List Node} {nm : Option Bytes} (hV : View ctx K pp pn none st)
    (hS : Slot st pp pn pre nm) (hna : pn.ty ≠ T_ARRAY) (ty : Nat) (hty : ty ≤ 8) (l : Nat)
    (f : Option Bytes) :
    ∃ ctx₂ a st', actAggStart ctx ty l f = .ok ctx₂ ∧
      View ctx₂ (fun y => K { pn with kids := pre ++ [y] }) (pp ++ [pre.length]) a none st' ∧
      stripPos a = { name := nm, ty := ty } := by
  unfold actAggStart
  rw [hV.inTy]
  cases hS with
  | member m nm' hg hk hm hnm hst =>
    have hm' := eq_of_stripPos hm rfl
    have hb : (pn.ty == T_LIST) = false := by rw [hg]; rfl
    rw [hb]
    simp only [Bool.false_eq_true, if_false]
    rw [hV.setting, hst]
    simp only
    have hKpn : K pn = K { pn with kids := pre ++ [m] } := congrArg K (node_kids_eq hk)
    have hget : ctx.cfg.root.get? (pp ++ [pre.length]) = some m := by
      rw [hV.root, hKpn]
      exact (hV.hole.kid pn pre).get m
    rw [hget]
    simp only [Option.isSome_some, if_true]
    refine ⟨_, { m with ty := ty }, none, rfl, ⟨hV.hole.kid pn pre, ?_, rfl, hV.str, rfl⟩, ?_⟩
    · show (ctx.modify _ _).cfg.root = _
      rw [modify_root, hV.root, hKpn]
      exact (hV.hole.kid pn pre).mod m _
    · rw [hm', hnm]
      rfl
  | elem hl hk hnm =>
    have hl : pn.ty = T_LIST := by
      rcases hl with hl | hl
      · exact hl
      · exact absurd hl hna
    have hb : (pn.ty == T_LIST) = true := by rw [hl]; rfl
    rw [hb]
    simp only [if_true]
    rw [hV.nodeAt, hV.parent]
    simp only
    rw [add_elem hl ty hty]
    simp only
    subst hk
    refine ⟨_, cap l f { ty := ty }, st, rfl, ⟨hV.hole.kid pn pn.kids, ?_, rfl, hV.str, hV.setting⟩, ?_⟩
    · rw [capture_root]
      show ((ctx.cfg.root.modify _ pp).modify _ _) = _
      rw [hV.root, hV.hole.mod, (hV.hole.kid pn pn.kids).mod]
    · rw [stripPos_cap, hnm]
      rfl

/-! ### the end of an aggregate -/

theorem act_aggEnd {ctx : ParseCtx} {K : Node → Node} {pp : Path} {pn : Node} {pre : List Node}
    {a : Node} {str : Option Bytes} {st : Option Path} (hH : Hole K pp)
    (hV : View ctx (fun y => K { pn with kids := pre ++ [y] }) (pp ++ [pre.length]) a str st)
    (v : TokVal) (l : Nat) (f : Option Bytes) :
    ∃ ctx₂, runAction .aggEnd ctx v l f = .ok ctx₂ ∧
      View ctx₂ K pp { pn with kids := pre ++ [a] } str st := by
  simp only [runAction]
  rw [hV.parent]
  cases hp : pp ++ [pre.length] with
  | nil => simp at hp
  | cons i r =>
    simp only
    refine ⟨_, rfl, hH, hV.root, ?_, hV.str, hV.setting⟩
    show some (i :: r).dropLast = some pp
    rw [← hp, List.dropLast_concat]

/-! ### strings -/

theorem act_stringFirst {ctx : ParseCtx} {K : Node → Node} {pp : Path} {pn : Node}
    {st : Option Path} (hV : View ctx K pp pn none st) (v : TokVal) (l : Nat) (f : Option Bytes) :
    ∃ ctx₂, runAction .stringFirst ctx v l f = .ok ctx₂ ∧ View ctx₂ K pp pn (some v.sval) st := by
  simp only [runAction]
  refine ⟨_, rfl, hV.hole, hV.root, hV.parent, ?_, hV.setting⟩
  show some (ctx.str.getD [] ++ v.sval) = some v.sval
  rw [hV.str]
  rfl

/-! ### scalar values -/

theorem checkType_list {pn : Node} (hl : pn.ty = T_LIST) (ty : Nat) : checkType pn ty = true := by
  unfold checkType
  cases pn.kids with
  | nil => rfl
  | cons k ks => simp [hl]

theorem setElem_append {setter : Node → Option Node} {ty : Nat} {pn y : Node}
    (hl : pn.ty = T_LIST ∨ pn.ty = T_ARRAY) (hck : checkType pn ty = true)
    (hset : setter { name := none, ty := ty } = some y) :
    pn.setElem setter ty (-1) = some ({ pn with kids := pn.kids ++ [y] }, pn.kids.length) := by
  unfold Node.setElem
  have h1 : ¬ ((pn.ty != T_ARRAY && pn.ty != T_LIST) = true) := by
    rcases hl with hl | hl <;> simp [hl, T_ARRAY, T_LIST]
  rw [if_neg h1, if_pos (by decide), hck]
  simp only [Bool.not_true, Bool.false_eq_true, if_false]
  have hagg : pn.isAggregate = true := isAggregate_of_array_or_list (hl.symm)
  unfold Node.create
  rw [hagg]
  simp only [Bool.not_true, Bool.false_eq_true, if_false]
  simp [hset]

theorem act_value {ctx : ParseCtx} {K : Node → Node} {pp : Path} {pn : Node} {st : Option Path}
    {pre : List Node} {nm : Option Bytes} (hV : View ctx K pp pn none st)
    (hS : Slot st pp pn pre nm) {setter : Node → Option Node} {ty : Nat} {fmt : Option Nat}
    {R : Option Bytes → Node} (hck : pn.ty = T_ARRAY → checkType pn ty = true)
    (hset : ∀ (nm : Option Bytes) (t0 l0 : Nat) (f0 : Option Bytes), (t0 = T_NONE ∨ t0 = ty) →
      ∃ y, setter { name := nm, ty := t0, line := l0, file := f0 } = some y ∧
        stripPos (setFmtF fmt y) = R nm)
    (l : Nat) (f : Option Bytes) (e : Bytes) :
    ∃ ctx₂ n' st', actValue ctx setter ty fmt l f e = .ok ctx₂ ∧
      View ctx₂ K pp { pn with kids := pre ++ [n'] } none st' ∧ stripPos n' = R nm := by
  rw [actValue_eq, hV.inTy, hV.inTy]
  cases hS with
  | member m nm' hg hk hm hnm hst =>
    have hm' := eq_of_stripPos hm rfl
    have hb : (pn.ty == T_ARRAY || pn.ty == T_LIST) = false := by rw [hg]; rfl
    rw [hb]
    simp only [Bool.false_eq_true, if_false]
    rw [hV.setting, hst]
    simp only
    have hKpn : K pn = K { pn with kids := pre ++ [m] } := congrArg K (node_kids_eq hk)
    have hget : ctx.cfg.root.get? (pp ++ [pre.length]) = some m := by
      rw [hV.root, hKpn]
      exact (hV.hole.kid pn pre).get m
    rw [hget]
    simp only [Option.isSome_some, if_true]
    obtain ⟨y, hy, hR⟩ := hset (some nm') T_NONE m.line m.file (.inl rfl)
    have hsm : setter m = some y := by rw [hm']; exact hy
    refine ⟨_, setFmtF fmt y, st, rfl, ⟨hV.hole, ?_, hV.parent, hV.str, ?_⟩, ?_⟩
    · rw [modify_root, hV.root, hKpn]
      have := (hV.hole.kid pn pre).mod m (fun n => setFmtF fmt ((setter n).getD n))
      rw [this, hsm]
      rfl
    · show ctx.setting = st
      exact hV.setting
    · rw [hR, hnm]
  | elem hl hk hnm =>
    have hty : (pn.ty == T_ARRAY || pn.ty == T_LIST) = true := by
      rcases hl with hl | hl <;> simp [hl, T_ARRAY, T_LIST]
    rw [hty]
    simp only [if_true]
    rw [hV.nodeAt, hV.parent]
    simp only
    obtain ⟨y, hy, hR⟩ := hset none ty 0 none (.inr rfl)
    have hck' : checkType pn ty = true := by
      rcases hl with hl | hl
      · exact checkType_list hl ty
      · exact hck hl
    rw [setElem_append hl hck' hy]
    simp only
    subst hk
    refine ⟨_, cap l f (setFmtF fmt y), st, rfl, ⟨hV.hole, ?_, hV.parent, hV.str, hV.setting⟩, ?_⟩
    · rw [capture_root, modify_root, modify_root, hV.root, hV.hole.mod,
        (hV.hole.kid pn pn.kids).mod, (hV.hole.kid pn pn.kids).mod]
    · rw [stripPos_cap, hR, hnm]

/-! ### the seven `simple_value` actions against the expected node -/

section
variable (bufLen : Nat) (c : Config)

/-- the outcome of reading the value `n` into the slot: the parent has one more finished child,
which is `n` as expected -/
def Built (K : Node → Node) (pp : Path) (pn : Node) (pre : List Node) (n : Node)
    (ctx₂ : ParseCtx) : Prop :=
  ∃ n' st', View ctx₂ K pp { pn with kids := pre ++ [n'] } none st' ∧
    stripPos n' = expNode bufLen c n

theorem expNode_scalar (n : Node) (h : isAggregateTy n.ty = false) :
    expNode bufLen c n = expScalar bufLen c n := by
  rw [expNode_eq, h]
  rfl

theorem act_valBool {ctx : ParseCtx} {K : Node → Node} {pp : Path} {pn : Node} {st : Option Path}
    {pre : List Node} (hV : View ctx K pp pn none st) (n : Node) (hS : Slot st pp pn pre n.name)
    (hck : pn.ty = T_ARRAY → checkType pn n.ty = true) (hty : n.ty = T_BOOL) (v : TokVal)
    (hv : v.ival = if n.ival != 0 then 1 else 0) (l : Nat) (f : Option Bytes) :
    ∃ ctx₂, runAction .valBool ctx v l f = .ok ctx₂ ∧ Built bufLen c K pp pn pre n ctx₂ := by
  simp only [runAction]
  obtain ⟨ctx₂, n', st', h1, h2, h3⟩ := act_value hV hS (setter := fun n => n.setBool v.ival)
    (ty := T_BOOL) (fmt := none) (R := fun nm => { name := nm, ty := T_BOOL, ival := v.ival })
    (by rw [← hty]; exact hck)
    (by
      intro nm t0 l0 f0 h
      rcases h with rfl | rfl <;> exact ⟨_, rfl, rfl⟩)
    l f Generated.ERR_ARRAY_ELEM_TYPE
  refine ⟨ctx₂, h1, n', st', h2, ?_⟩
  rw [h3, expNode_scalar bufLen c n (by rw [hty]; rfl)]
  unfold expScalar
  rw [hty, hv]
  rfl

theorem act_valInt {ctx : ParseCtx} {K : Node → Node} {pp : Path} {pn : Node} {st : Option Path}
    {pre : List Node} (hV : View ctx K pp pn none st) (n : Node) (hS : Slot st pp pn pre n.name)
    (hck : pn.ty = T_ARRAY → checkType pn n.ty = true) (hty : n.ty = T_INT) (v : TokVal)
    (hv : v.ival = n.ival) (hfmt : ¬ (effFormat c n == FMT_HEX) = true) (l : Nat)
    (f : Option Bytes) :
    ∃ ctx₂, runAction .valInt ctx v l f = .ok ctx₂ ∧ Built bufLen c K pp pn pre n ctx₂ := by
  simp only [runAction]
  obtain ⟨ctx₂, n', st', h1, h2, h3⟩ := act_value hV hS
    (setter := fun n => n.setInt (ctx.cfg.opt OPT_AUTOCONVERT) v.ival)
    (ty := T_INT) (fmt := some FMT_DEFAULT)
    (R := fun nm => { name := nm, ty := T_INT, ival := v.ival, fmt := FMT_DEFAULT })
    (by rw [← hty]; exact hck)
    (by
      intro nm t0 l0 f0 h
      rcases h with rfl | rfl <;> exact ⟨_, rfl, rfl⟩)
    l f Generated.ERR_ARRAY_ELEM_TYPE
  refine ⟨ctx₂, h1, n', st', h2, ?_⟩
  rw [h3, expNode_scalar bufLen c n (by rw [hty]; rfl)]
  unfold expScalar
  rw [hty, hv, if_neg hfmt]
  rfl

theorem act_valHex {ctx : ParseCtx} {K : Node → Node} {pp : Path} {pn : Node} {st : Option Path}
    {pre : List Node} (hV : View ctx K pp pn none st) (n : Node) (hS : Slot st pp pn pre n.name)
    (hck : pn.ty = T_ARRAY → checkType pn n.ty = true) (hty : n.ty = T_INT) (v : TokVal)
    (hv : v.ival = n.ival) (hfmt : (effFormat c n == FMT_HEX) = true) (l : Nat)
    (f : Option Bytes) :
    ∃ ctx₂, runAction .valHex ctx v l f = .ok ctx₂ ∧ Built bufLen c K pp pn pre n ctx₂ := by
  simp only [runAction]
  obtain ⟨ctx₂, n', st', h1, h2, h3⟩ := act_value hV hS
    (setter := fun n => n.setInt (ctx.cfg.opt OPT_AUTOCONVERT) v.ival)
    (ty := T_INT) (fmt := some FMT_HEX)
    (R := fun nm => { name := nm, ty := T_INT, ival := v.ival, fmt := FMT_HEX })
    (by rw [← hty]; exact hck)
    (by
      intro nm t0 l0 f0 h
      rcases h with rfl | rfl <;> exact ⟨_, rfl, rfl⟩)
    l f Generated.ERR_ARRAY_ELEM_TYPE
  refine ⟨ctx₂, h1, n', st', h2, ?_⟩
  rw [h3, expNode_scalar bufLen c n (by rw [hty]; rfl)]
  unfold expScalar
  rw [hty, hv, if_pos hfmt]
  rfl

theorem act_valInt64 {ctx : ParseCtx} {K : Node → Node} {pp : Path} {pn : Node}
    {st : Option Path} {pre : List Node} (hV : View ctx K pp pn none st) (n : Node)
    (hS : Slot st pp pn pre n.name) (hck : pn.ty = T_ARRAY → checkType pn n.ty = true)
    (hty : n.ty = T_INT64) (v : TokVal) (hv : v.ival = n.ival)
    (hfmt : ¬ (effFormat c n == FMT_HEX) = true) (l : Nat) (f : Option Bytes) :
    ∃ ctx₂, runAction .valInt64 ctx v l f = .ok ctx₂ ∧ Built bufLen c K pp pn pre n ctx₂ := by
  simp only [runAction]
  obtain ⟨ctx₂, n', st', h1, h2, h3⟩ := act_value hV hS
    (setter := fun n => n.setInt64 (ctx.cfg.opt OPT_AUTOCONVERT) v.ival)
    (ty := T_INT64) (fmt := some FMT_DEFAULT)
    (R := fun nm => { name := nm, ty := T_INT64, ival := v.ival, fmt := FMT_DEFAULT })
    (by rw [← hty]; exact hck)
    (by
      intro nm t0 l0 f0 h
      rcases h with rfl | rfl <;> exact ⟨_, rfl, rfl⟩)
    l f Generated.ERR_ARRAY_ELEM_TYPE
  refine ⟨ctx₂, h1, n', st', h2, ?_⟩
  rw [h3, expNode_scalar bufLen c n (by rw [hty]; rfl)]
  unfold expScalar
  rw [hty, hv, if_neg hfmt]
  rfl

theorem act_valHex64 {ctx : ParseCtx} {K : Node → Node} {pp : Path} {pn : Node}
    {st : Option Path} {pre : List Node} (hV : View ctx K pp pn none st) (n : Node)
    (hS : Slot st pp pn pre n.name) (hck : pn.ty = T_ARRAY → checkType pn n.ty = true)
    (hty : n.ty = T_INT64) (v : TokVal) (hv : v.ival = n.ival)
    (hfmt : (effFormat c n == FMT_HEX) = true) (l : Nat) (f : Option Bytes) :
    ∃ ctx₂, runAction .valHex64 ctx v l f = .ok ctx₂ ∧ Built bufLen c K pp pn pre n ctx₂ := by
  simp only [runAction]
  obtain ⟨ctx₂, n', st', h1, h2, h3⟩ := act_value hV hS
    (setter := fun n => n.setInt64 (ctx.cfg.opt OPT_AUTOCONVERT) v.ival)
    (ty := T_INT64) (fmt := some FMT_HEX)
    (R := fun nm => { name := nm, ty := T_INT64, ival := v.ival, fmt := FMT_HEX })
    (by rw [← hty]; exact hck)
    (by
      intro nm t0 l0 f0 h
      rcases h with rfl | rfl <;> exact ⟨_, rfl, rfl⟩)
    l f Generated.ERR_ARRAY_ELEM_TYPE
  refine ⟨ctx₂, h1, n', st', h2, ?_⟩
  rw [h3, expNode_scalar bufLen c n (by rw [hty]; rfl)]
  unfold expScalar
  rw [hty, hv, if_pos hfmt]
  rfl

theorem act_valFloat {ctx : ParseCtx} {K : Node → Node} {pp : Path} {pn : Node}
    {st : Option Path} {pre : List Node} (hV : View ctx K pp pn none st) (n : Node)
    (hS : Slot st pp pn pre n.name) (hck : pn.ty = T_ARRAY → checkType pn n.ty = true)
    (hty : n.ty = T_FLOAT) (v : TokVal)
    (hv : v.fval = F64.strtod (formatDouble bufLen n.fval c.floatPrecision (c.opt OPT_SCIENTIFIC)))
    (l : Nat) (f : Option Bytes) :
    ∃ ctx₂, runAction .valFloat ctx v l f = .ok ctx₂ ∧ Built bufLen c K pp pn pre n ctx₂ := by
  simp only [runAction]
  obtain ⟨ctx₂, n', st', h1, h2, h3⟩ := act_value hV hS
    (setter := fun n => n.setFloat (ctx.cfg.opt OPT_AUTOCONVERT) v.fval)
    (ty := T_FLOAT) (fmt := none)
    (R := fun nm => { name := nm, ty := T_FLOAT, fval := v.fval })
    (by rw [← hty]; exact hck)
    (by
      intro nm t0 l0 f0 h
      rcases h with rfl | rfl <;> exact ⟨_, rfl, rfl⟩)
    l f Generated.ERR_ARRAY_ELEM_TYPE
  refine ⟨ctx₂, h1, n', st', h2, ?_⟩
  rw [h3, expNode_scalar bufLen c n (by rw [hty]; rfl)]
  unfold expScalar
  rw [hty, hv]
  rfl

theorem act_valString {ctx : ParseCtx} {K : Node → Node} {pp : Path} {pn : Node}
    {st : Option Path} {pre : List Node} {sv : Bytes} (hV : View ctx K pp pn (some sv) st)
    (n : Node) (hS : Slot st pp pn pre n.name)
    (hck : pn.ty = T_ARRAY → checkType pn n.ty = true) (hty : n.ty = T_STRING)
    (hv : sv = n.sval.getD []) (v : TokVal) (l : Nat) (f : Option Bytes) :
    ∃ ctx₂, runAction .valString ctx v l f = .ok ctx₂ ∧ Built bufLen c K pp pn pre n ctx₂ := by
  simp only [runAction]
  have hV' : View { ctx with str := none } K pp pn none st :=
    ⟨hV.hole, hV.root, hV.parent, rfl, hV.setting⟩
  obtain ⟨ctx₂, n', st', h1, h2, h3⟩ := act_value hV' hS
    (setter := fun n => n.setString ctx.str)
    (ty := T_STRING) (fmt := none)
    (R := fun nm => { name := nm, ty := T_STRING, sval := some sv })
    (by rw [← hty]; exact hck)
    (by
      intro nm t0 l0 f0 h
      rw [hV.str]
      rcases h with rfl | rfl <;> exact ⟨_, rfl, rfl⟩)
    l f Generated.ERR_ARRAY_ELEM_TYPE
  refine ⟨ctx₂, h1, n', st', h2, ?_⟩
  rw [h3, expNode_scalar bufLen c n (by rw [hty]; rfl)]
  unfold expScalar
  rw [hty, hv]
  rfl

end

end Libconfig.C01PP
