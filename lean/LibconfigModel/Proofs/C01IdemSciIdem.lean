import LibconfigModel.Proofs.C01IdemSciCore
/-
  C01F, part 11 (scientific notation) — idempotence of the written text for `%.{p}g`:
  for precisions up to 15 and normal doubles (the spacing of the doubles is finer than the decimal
  grid), and for precisions from 17 on (the double itself comes back).
-/
namespace Libconfig.C01I
open Libconfig F64 C01P C01L
open Libconfig.F64R (dist sMag errR)

/-- `2^1074`: the scale of `sMag` -/
def T74 : Nat := 2 ^ 1074
theorem T74_pos : 0 < T74 := Nat.two_pow_pos _

theorem ratOf_T74 (b : Nat) (hfin : isFinite b = true) (hm : mant b ≠ 0) :
    0 < (ratOf b).1 ∧ 0 < (ratOf b).2 ∧ (ratOf b).1 * T74 = sMag b * (ratOf b).2 := by
  obtain ⟨h1, h2, h3, -, -⟩ := ratOf_spec b hfin hm
  exact ⟨h1, h2, h3⟩

theorem errR_T74 (N Dn c : Nat) : errR N Dn c = dist (N * T74) (sMag c * Dn) := by
  unfold errR T74
  rw [F64R.err_eq_dist]

theorem ofRat_err_T74 (neg : Bool) (num den : Nat) (hn : num > 0) (hd : den > 0)
    (hfinite : isFinite (ofRat neg num den) = true) :
    2 ^ 53 * errR num den (ofRat neg num den) ≤ num * T74 ∨
      2 * errR num den (ofRat neg num den) ≤ den := by
  unfold T74
  exact ofRat_err neg num den hn hd hfinite

attribute [irreducible] T74

/-! ### a finite non-zero double, in offset form -/

/-- `x0` is the decimal exponent of the magnitude `S/2^1074` -/
def Bracket (S : Nat) (x0 : Int) : Prop :=
  T74 * E10 x0 ≤ S * W10 ∧ S * W10 < T74 * E10 (x0 + 1)

theorem bracket_of (b : Nat) (hfin : isFinite b = true) (hm : mant b ≠ 0) :
    Bracket (sMag b) (gX0 b) ∧ -330 ≤ gX0 b ∧ gX0 b ≤ 320 := by
  obtain ⟨hn, hd, hr⟩ := ratOf_T74 b hfin hm
  have hs := gDX_spec b 1 hfin hm (by omega)
  have h1 := (LeP_offset _ _ _ (by have := hs.x0lo; omega)).mp hs.lo
  have h2 := (LtP_offset _ _ _ (by have := hs.x0lo; omega)).mp hs.hi
  exact ⟨⟨(le_ratio _ _ _ _ _ _ hd T74_pos hr).mp h1, (lt_ratio _ _ _ _ _ _ hd T74_pos hr).mp h2⟩,
    hs.x0lo, hs.x0hi⟩

theorem bracket_unique (S : Nat) (a c : Int) (ha : Bracket S a) (hc : Bracket S c) : a = c := by
  have hT := T74_pos
  false_or_by_contra
  rename_i hne
  rcases Int.lt_or_gt_of_ne hne with h | h
  · have := Nat.mul_le_mul_left T74 (E10_mono (a + 1) c (by omega))
    have := ha.2; have := hc.1; omega
  · have := Nat.mul_le_mul_left T74 (E10_mono (c + 1) a (by omega))
    have := hc.2; have := ha.1; omega

theorem gQ_offset (b P : Nat) (hfin : isFinite b = true) (hm : mant b ≠ 0) (hsh : -1000 ≤ gSh b P) :
    gQ b P = divRoundEven (sMag b * W10) (T74 * E10 (gSh b P)) := by
  obtain ⟨hn, hd, hr⟩ := ratOf_T74 b hfin hm
  unfold gQ
  rw [gD0_offset _ _ _ hsh]
  exact dre_ratio _ _ _ _ _ _ hd T74_pos hr

theorem gDX_eq' (b P : Nat) :
    gDX b P = (if gQ b P ≥ 10 ^ P then (gQ b P / 10, gX0 b + 1) else (gQ b P, gX0 b)) :=
  gDX_eq b P

theorem sMag_pos_iff (b : Nat) : mant b ≠ 0 ↔ 0 < sMag b := by
  unfold sMag
  constructor
  · intro h; exact Nat.mul_pos (by omega) (Nat.two_pow_pos _)
  · intro h hm; rw [hm, Nat.zero_mul] at h; omega

/-- a double whose magnitude lands in the decade of `x` with digits `q` on the grid of `x - P + 1` -/
theorem gDX_of_landing (b' P : Nat) (x : Int) (q : Nat) (hfin : isFinite b' = true) (hP : 1 ≤ P)
    (hx : -900 ≤ x - (P : Int) + 1)
    (h : Landing (sMag b' * W10) (T74 * E10 (x - (P : Int) + 1)) P q) :
    mant b' ≠ 0 ∧ gX0 b' = x ∧ gQ b' P = q := by
  have hE1 : E10 x = 10 ^ (P - 1) * E10 (x - (P : Int) + 1) := by
    rw [← E10_add _ _ (by omega)]; congr 1; omega
  have hE2 : E10 (x + 1) = 10 ^ P * E10 (x - (P : Int) + 1) := by
    rw [← E10_add _ _ (by omega)]; congr 1; omega
  have hbr : Bracket (sMag b') x := by
    refine ⟨?_, ?_⟩
    · rw [hE1]; have := h.lo; rw [Nat.mul_left_comm]; exact this
    · rw [hE2]; have := h.hi; rw [Nat.mul_left_comm]; exact this
  have hpos : 0 < sMag b' := by
    have h1 : 0 < T74 * E10 x := Nat.mul_pos T74_pos (E10_pos _)
    have h2 := hbr.1
    rcases Nat.eq_zero_or_pos (sMag b') with h0 | h0
    · rw [h0, Nat.zero_mul] at h2; omega
    · exact h0
  have hm := (sMag_pos_iff b').mpr hpos
  have hx0 : gX0 b' = x := bracket_unique _ _ _ (bracket_of b' hfin hm).1 hbr
  refine ⟨hm, hx0, ?_⟩
  have hsh : gSh b' P = x - (P : Int) + 1 := by unfold gSh; rw [hx0]
  rw [gQ_offset b' P hfin hm (by rw [hsh]; omega), hsh]
  exact h.q

/-! ### the double read back: nearest, and close -/

/-- the double read back from `%.{P}g` of `b`, in offset form: finite, same sign; at least as
close to the printed value `d0·M` (`M = 2^1074·10^sh`, everything times `10^1000`) as `b` is, and
within half a unit in the last place of it -/
structure Back (b P b' : Nat) : Prop where
  fin : isFinite b' = true
  sign : signBit b' = signBit b
  near : dist (gQ b P * (T74 * E10 (gSh b P))) (sMag b' * W10) ≤
    dist (gQ b P * (T74 * E10 (gSh b P))) (sMag b * W10)
  ulp : 2 ^ 53 * dist (gQ b P * (T74 * E10 (gSh b P))) (sMag b' * W10) ≤
      gQ b P * (T74 * E10 (gSh b P)) ∨
    2 * dist (gQ b P * (T74 * E10 (gSh b P))) (sMag b' * W10) ≤ W10

theorem back_of (b P : Nat) (hfin : isFinite b = true) (hm : mant b ≠ 0) (hP : 1 ≤ P) (hP70 : P ≤ 70)
    (hinf : isInf (strtod (sciText b P)) = false) : Back b P (strtod (sciText b P)) := by
  obtain ⟨N, Dn, hrv⟩ := sciText_value b P hfin hm hP hP70
  have hsh : -1000 ≤ gSh b P := by
    have := (bracket_of b hfin hm).2.1
    unfold gSh; omega
  rw [hrv.value] at hinf ⊢
  obtain ⟨hsg, hnan, hnear, -⟩ := F64R.ofRat_nearest_R (signBit b) N Dn hrv.npos hrv.dpos
  have hfinite := finite_of _ hnan hinf
  have herr := ofRat_err_T74 (signBit b) N Dn hrv.npos hrv.dpos hfinite
  have hle := (hnear hfinite b).1
  generalize ofRat (signBit b) N Dn = b' at *
  -- the ratio in offset form: N·W = d0·E·Dn
  obtain ⟨h1, h2⟩ := E10_split (gSh b P) hsh
  have hratio : N * W10 = gQ b P * E10 (gSh b P) * Dn := by
    rw [h1, h2, ← Nat.mul_assoc, hrv.ratio]; ac_rfl
  have hDn := hrv.dpos
  have key : ∀ c, errR N Dn c * W10 =
      dist (gQ b P * (T74 * E10 (gSh b P))) (sMag c * W10) * Dn := by
    intro c
    rw [errR_T74, F64R.dist_mul_right, F64R.dist_mul_right]
    congr 1
    · calc N * T74 * W10 = N * W10 * T74 := Nat.mul_right_comm _ _ _
        _ = gQ b P * E10 (gSh b P) * Dn * T74 := by rw [hratio]
        _ = gQ b P * (T74 * E10 (gSh b P)) * Dn := by ac_rfl
    · exact Nat.mul_right_comm _ _ _
  refine ⟨hfinite, hsg, ?_, ?_⟩
  · have := Nat.mul_le_mul_right W10 hle
    rw [key, key] at this
    exact Nat.le_of_mul_le_mul_right this hDn
  · rcases herr with h | h
    · left
      have := Nat.mul_le_mul_right W10 h
      rw [Nat.mul_assoc, key] at this
      apply Nat.le_of_mul_le_mul_right _ hDn
      calc 2 ^ 53 * dist (gQ b P * (T74 * E10 (gSh b P))) (sMag b' * W10) * Dn
          = 2 ^ 53 * (dist (gQ b P * (T74 * E10 (gSh b P))) (sMag b' * W10) * Dn) :=
            Nat.mul_assoc _ _ _
        _ ≤ N * T74 * W10 := this
        _ = N * W10 * T74 := Nat.mul_right_comm _ _ _
        _ = gQ b P * E10 (gSh b P) * Dn * T74 := by rw [hratio]
        _ = gQ b P * (T74 * E10 (gSh b P)) * Dn := by ac_rfl
    · right
      have := Nat.mul_le_mul_right W10 h
      rw [Nat.mul_assoc, key] at this
      apply Nat.le_of_mul_le_mul_right _ hDn
      calc 2 * dist (gQ b P * (T74 * E10 (gSh b P))) (sMag b' * W10) * Dn
          = 2 * (dist (gQ b P * (T74 * E10 (gSh b P))) (sMag b' * W10) * Dn) := Nat.mul_assoc _ _ _
        _ ≤ Dn * W10 := this
        _ = W10 * Dn := Nat.mul_comm _ _

/-! ### the setting of the core lemmas -/

/-- the facts about `b` that the core lemmas consume -/
theorem setting (b P : Nat) (hfin : isFinite b = true) (hm : mant b ≠ 0) (hP : 1 ≤ P) (hP70 : P ≤ 70) :
    -500 ≤ gSh b P ∧
    gQ b P = divRoundEven (sMag b * W10) (T74 * E10 (gSh b P)) ∧
    10 ^ (P - 1) * (T74 * E10 (gSh b P)) ≤ sMag b * W10 ∧
    sMag b * W10 < 10 ^ P * (T74 * E10 (gSh b P)) := by
  obtain ⟨hbr, hlo, hhi⟩ := bracket_of b hfin hm
  have hsh : -500 ≤ gSh b P := by unfold gSh; omega
  have hE1 : E10 (gX0 b) = 10 ^ (P - 1) * E10 (gSh b P) := by
    rw [← E10_add _ _ (by omega)]; congr 1; unfold gSh; omega
  have hE2 : E10 (gX0 b + 1) = 10 ^ P * E10 (gSh b P) := by
    rw [← E10_add _ _ (by omega)]; congr 1; unfold gSh; omega
  refine ⟨hsh, gQ_offset b P hfin hm (by omega), ?_, ?_⟩
  · have := hbr.1; rw [hE1, Nat.mul_left_comm] at this; exact this
  · have := hbr.2; rw [hE2, Nat.mul_left_comm] at this; exact this

/-! ### seventeen digits and more: the double itself comes back -/

theorem back_exact (b P b' : Nat) (hfin : isFinite b = true) (hm : mant b ≠ 0) (hP : 17 ≤ P)
    (hP70 : P ≤ 70) (hb : Back b P b') : sMag b' = sMag b := by
  obtain ⟨hsh, hq, hlo, hhi⟩ := setting b P hfin hm (by omega) hP70
  have hM : 0 < T74 * E10 (gSh b P) := Nat.mul_pos T74_pos (E10_pos _)
  have hhalf := (dre_half (sMag b * W10) (T74 * E10 (gSh b P)) hM).1
  rw [← hq, dist_comm] at hhalf
  have hnear := hb.near
  exact core17 (sMag b) (sMag b') W10 _ P (gQ b P * (T74 * E10 (gSh b P))) hM hP hlo hhalf
    (by omega) (fun hne => spacing b b' hne)

/-! ### up to fifteen digits, normal doubles: the same digits come back -/

theorem normal_sMag (b : Nat) (hn : expField b ≠ 0) : 2 ^ 52 ≤ sMag b := by
  unfold sMag mant
  rw [if_neg (by simpa using hn)]
  exact Nat.le_trans (by omega) (Nat.le_mul_of_pos_right _ (Nat.two_pow_pos _))

theorem back_digits (b P b' : Nat) (hfin : isFinite b = true) (hm : mant b ≠ 0) (hP : 1 ≤ P)
    (hP15 : P ≤ 15) (hnorm : expField b ≠ 0) (hb : Back b P b') :
    mant b' ≠ 0 ∧ gDX b' P = gDX b P := by
  obtain ⟨hsh, hq, hlo, hhi⟩ := setting b P hfin hm hP (by omega)
  have hshdef : gSh b P = gX0 b - (P : Int) + 1 := rfl
  have hS := normal_sMag b hnorm
  have hM : 0 < T74 * E10 (gSh b P) := Nat.mul_pos T74_pos (E10_pos _)
  have hM' : 0 < T74 * E10 (gSh b P - 1) := Nat.mul_pos T74_pos (E10_pos _)
  have hMM : T74 * E10 (gSh b P) = 10 * (T74 * E10 (gSh b P - 1)) := by
    have := E10_add (gSh b P - 1) 1 (by omega)
    rw [show gSh b P - 1 + ((1 : Nat) : Int) = gSh b P by omega, Nat.pow_one] at this
    rw [this]; ac_rfl
  have hhalf := (dre_half (sMag b * W10) (T74 * E10 (gSh b P)) hM).1
  have hnear := hb.near
  have hulp := hb.ulp
  have hpp := pow10_succ_pred P hP
  have hfin' := hb.fin
  have hW := W10_pos
  rw [gDX_eq' b P, gDX_eq' b' P]
  rw [hq] at hnear hulp ⊢
  -- the fine bound, needed at the lower end of the decade only
  have hfine : divRoundEven (sMag b * W10) (T74 * E10 (gSh b P)) = 10 ^ (P - 1) →
      20 * dist (divRoundEven (sMag b * W10) (T74 * E10 (gSh b P)) * (T74 * E10 (gSh b P)))
        (sMag b' * W10) ≤ T74 * E10 (gSh b P) := by
    intro hd0
    rw [hd0] at hulp hhalf ⊢
    have h14 : 10 ^ (P - 1) ≤ 10 ^ 14 := Nat.pow_le_pow_right (by omega) (by omega)
    have hA := Nat.mul_le_mul_right (T74 * E10 (gSh b P)) h14
    rcases hulp with h | h
    · generalize dist (10 ^ (P - 1) * (T74 * E10 (gSh b P))) (sMag b' * W10) = D at *
      generalize 10 ^ (P - 1) * (T74 * E10 (gSh b P)) = A at *
      generalize T74 * E10 (gSh b P) = M at *
      omega
    · -- 10·W ≤ M, because `b` is normal
      have h1 : 2 ^ 52 * W10 ≤ sMag b * W10 := Nat.mul_le_mul_right _ hS
      unfold dist at hhalf
      generalize dist (10 ^ (P - 1) * (T74 * E10 (gSh b P))) (sMag b' * W10) = D at *
      generalize 10 ^ (P - 1) * (T74 * E10 (gSh b P)) = A at *
      generalize T74 * E10 (gSh b P) = M at *
      generalize sMag b * W10 = X at *
      omega
  have hcore := core15 (sMag b * W10) (sMag b' * W10) (T74 * E10 (gSh b P))
    (T74 * E10 (gSh b P - 1)) P hP hM' hMM hlo hhi hnear hfine
  have hq1 : 10 ^ (P - 1) ≤ divRoundEven (sMag b * W10) (T74 * E10 (gSh b P)) :=
    dre_ge_of _ _ _ hM hlo
  have hq2 : divRoundEven (sMag b * W10) (T74 * E10 (gSh b P)) ≤ 10 ^ P := dre_le_of _ _ _ hM hhi
  have hApos : 0 < 10 ^ (P - 1) := pow10_pos _
  have hdiv : 10 ^ P / 10 = 10 ^ (P - 1) := by rw [hpp]; exact Nat.mul_div_cancel_left _ (by decide)
  generalize divRoundEven (sMag b * W10) (T74 * E10 (gSh b P)) = d0 at *
  rcases hcore with hI | ⟨hd0, hII⟩ | ⟨hd0, hIII⟩
  · -- the same decade
    have hx : gX0 b - (P : Int) + 1 = gSh b P := rfl
    obtain ⟨a1, a2, a3⟩ := gDX_of_landing b' P (gX0 b) d0 hfin' hP (by omega)
      (by rw [hx]; exact hI)
    exact ⟨a1, by rw [a2, a3]⟩
  · -- carried up
    have hx : gX0 b + 1 - (P : Int) + 1 = gSh b P + ((1 : Nat) : Int) := by unfold gSh; omega
    have hE : T74 * E10 (gX0 b + 1 - (P : Int) + 1) = 10 * (T74 * E10 (gSh b P)) := by
      rw [hx, E10_add _ _ (by omega), Nat.pow_one]; ac_rfl
    obtain ⟨a1, a2, a3⟩ := gDX_of_landing b' P (gX0 b + 1) (10 ^ (P - 1)) hfin' hP
      (by omega) (by rw [hE]; exact hII)
    refine ⟨a1, ?_⟩
    rw [a2, a3, hd0, if_pos (Nat.le_refl _), if_neg (by omega), hdiv]
  · -- dropped down
    have hx : gX0 b - 1 - (P : Int) + 1 = gSh b P - 1 := by unfold gSh; omega
    obtain ⟨a1, a2, a3⟩ := gDX_of_landing b' P (gX0 b - 1) (10 ^ P) hfin' hP
      (by omega) (by rw [hx]; exact hIII)
    refine ⟨a1, ?_⟩
    rw [a2, a3, hd0, if_pos (Nat.le_refl _), if_neg (by omega), hdiv,
      show gX0 b - 1 + 1 = gX0 b by omega]

/-! ### the float lemma for scientific notation -/

theorem effP_bounds (p : Nat) (hp : p ≤ 70) : 1 ≤ effP p ∧ effP p ≤ 70 ∧ (1 ≤ p → effP p = p) ∧
    (p = 0 → effP p = 1) := by
  unfold effP; split <;> omega

theorem fmtG_zero (b q : Nat) (hfin : isFinite b = true) (hm : mant b = 0) :
    fmtG b q = signBytes (signBit b) ++ [48] := sci_zero_text b q hfin hm

/-- the text is a fixed point when the double read back has the same sign and magnitude -/
theorem idem_of_exact (b p b' : Nat) (hfin : isFinite b = true) (hfin' : isFinite b' = true)
    (hs : signBit b' = signBit b) (hm : sMag b' = sMag b) :
    formatDouble 341 b' p true = formatDouble 341 b p true :=
  (fmt_congr b b' hfin hfin' hs hm 341 p true).2

/-- **the float lemma, scientific notation**: the written text is a fixed point of
read-then-write, for precisions up to 15 on normal doubles and zeros, for precisions from 17 on,
and whenever the 17-digit re-rendering is taken -/
theorem formatDouble_idem_sci (b p : Nat) (hfin : isFinite b = true) (hp70 : p ≤ 70)
    (hcase : (p ≤ 15 ∧ (expField b ≠ 0 ∨ mant b = 0)) ∨ 17 ≤ p ∨
      isInf (strtod (fmtG b p)) = true) :
    formatDouble 341 (strtod (formatDouble 341 b p true)) p true = formatDouble 341 b p true := by
  have hinf := sci_no_overflow b p hfin hp70
  obtain ⟨hP1, hP70, hPp, hP0⟩ := effP_bounds p hp70
  by_cases hm : mant b = 0
  · -- ±0
    have htext : formatDouble 341 b p true = postProc (signBytes (signBit b) ++ [48]) := by
      rw [formatDouble_sci b p hfin hp70, fmtG_zero b p hfin hm, fmtG_zero b 17 hfin hm]
      simp only [ite_self]
    rw [htext, strtod_zero_text]
    obtain ⟨a1, a2, -, a4, -⟩ := F64R.mkBits_finite (signBit b) 0 0 (by omega) (by omega)
    have hm' : mant (mkBits (signBit b) 0 0) = 0 := by rw [a4]; rfl
    rw [formatDouble_sci _ p a2 hp70, fmtG_zero _ p a2 hm', fmtG_zero _ 17 a2 hm', a1]
    simp only [ite_self]
  · rw [formatDouble_sci b p hfin hp70] at hinf ⊢
    by_cases hc : isInf (strtod (fmtG b p)) = true
    · -- the 17-digit re-rendering: exact
      rw [if_pos hc, postProc_fmtG b 17 hfin hm, show effP 17 = 17 from rfl] at hinf ⊢
      have hb := back_of b 17 hfin hm (by decide) (by decide) hinf
      have hex := back_exact b 17 _ hfin hm (by decide) (by decide) hb
      rw [idem_of_exact b p _ hfin hb.fin hb.sign hex, formatDouble_sci b p hfin hp70, if_pos hc,
        postProc_fmtG b 17 hfin hm, show effP 17 = 17 from rfl]
    · rw [if_neg hc, postProc_fmtG b p hfin hm] at hinf ⊢
      have hb := back_of b (effP p) hfin hm hP1 hP70 hinf
      rcases hcase with ⟨h15, hn⟩ | h17 | hcc
      · -- the same digits
        have hn' : expField b ≠ 0 := by
          rcases hn with h | h
          · exact h
          · exact absurd h hm
        obtain ⟨hm', hdx⟩ := back_digits b (effP p) _ hfin hm hP1
          (by unfold effP; split <;> omega) hn' hb
        generalize strtod (sciText b (effP p)) = b' at *
        have hG : fmtG b' p = fmtG b p := by
          rw [fmtG_nonzero b' p hb.fin hm', fmtG_nonzero b p hfin hm, hdx, hb.sign]
        rw [formatDouble_sci b' p hb.fin hp70, hG, if_neg hc, postProc_fmtG b p hfin hm]
      · -- the double itself
        have hPe : effP p = p := hPp (by omega)
        have hex := back_exact b (effP p) _ hfin hm (by omega) hP70 hb
        rw [idem_of_exact b p _ hfin hb.fin hb.sign hex, formatDouble_sci b p hfin hp70, if_neg hc,
          postProc_fmtG b p hfin hm]
      · exact absurd hcc hc

end Libconfig.C01I

