import LibconfigModel.Proofs.C01LexStr
import LibconfigModel.Properties.C02
/-
  C01L, part 6 (M2 summary and M3) — one call of `yylex` per item, and the induction over a
  sequence of items: a buffer holding the rendering of a "good" item sequence lexes to the
  tokens the items denote.
-/
namespace Libconfig.C01L
open Flex C02

/-- the items the theorem covers, with the side conditions under which the scanner reads
them back -/
def GoodTok : WTok → Prop
  | .ws b => b = [10] ∨ (b ≠ [] ∧ ∀ x ∈ b, isBlank x = true)
  | .name nm => validName nm = true ∧ isBoolWord nm = false
  | .assign c => c = 61 ∨ c = 58
  | .semi => True
  | .comma => True
  | .punct c => c = 40 ∨ c = 41 ∨ c = 91 ∨ c = 93 ∨ c = 123 ∨ c = 125
  | .bool _ => True
  | .int bits v _ => (bits = 32 ∧ fits32 v = true) ∨ (bits = 64 ∧ fits64 v = true)
  | .float _ text => FloatLit text ∧ F64.isInf (F64.strtod text) = false
  | .str s => ∀ b ∈ s, 1 ≤ b ∧ b < 256
  | .unknown => False

/-- the bytes that may follow an item without changing how it is read -/
def itemFollow : WTok → Nat → Bool
  | .ws b => if b = [10] then (fun _ => true) else blankFollow
  | .name _ => delim
  | .bool _ => delim
  | .int .. => delim
  | .float .. => delim
  | _ => fun _ => true

def bytesOf (ts : List WTok) : Bytes := ts.flatMap WTok.bytes

def toksOf (ts : List WTok) : List (Nat × TokVal) := ts.filterMap (WTok.token Generated.tokens)

theorem blank_ne_nl' {b : Bytes} (hb : ∀ x ∈ b, isBlank x = true) : b ≠ [10] := by
  intro e; subst e
  have := hb 10 (by simp); revert this; decide

section
variable (w : World) (ic : IncludeCfg) {K : Ctx}

/-- **one item, one piece of work for `yylex`** (M2).  With the buffer at a good item `t`
followed by `rest` (whose first byte is a delimiter for `t`): a white-space item is skipped —
the call continues as the call on `rest` with `k` units of fuel less —, any other item makes the
call return exactly the token the item denotes; in both cases the buffer is left at `rest`. -/
theorem yylex_item (t : WTok) (hg : GoodTok t) (rest : Bytes) (hf : FollowOK (itemFollow t) rest)
    (s : ScanState) (hs : Ready K s (t.bytes ++ rest)) :
    ∃ k, 1 ≤ k ∧ k ≤ t.bytes.length ∧ ∃ s', Ready K s' rest ∧
      ∀ f, yylex T acts w ic (f + k) s =
        (match t.token Generated.tokens with
         | none => yylex T acts w ic f s'
         | some tv => (s', .tok tv.1 tv.2)) := by
  cases t with
  | ws b =>
    simp only [GoodTok] at hg
    simp only [WTok.bytes] at hs ⊢
    rcases hg with rfl | ⟨hne, hb⟩
    · obtain ⟨s', hr, hy⟩ := yylex_ws w ic [10] rest _ _ (lex_punct 10 (by decide)) (.inl rfl)
        (by simpa [itemFollow] using hf) s hs
      exact ⟨1, by omega, by simp, s', hr, fun f => hy f⟩
    · have h10 : b ≠ [10] := by
        intro e; subst e
        have := hb 10 (by simp); revert this; decide
      obtain ⟨s', hr, hy⟩ := yylex_ws w ic b rest _ _ (lex_blank b hne hb) (.inr rfl)
        (by simpa [itemFollow, h10] using hf) s hs
      exact ⟨1, by omega, List.length_pos_iff.mpr hne, s', hr, fun f => hy f⟩
  | name nm =>
    simp only [GoodTok] at hg
    simp only [WTok.bytes] at hs ⊢
    have hne : nm ≠ [] := by intro e; subst e; simp [validName] at hg
    obtain ⟨s', hr, hy⟩ := yylex_name w ic nm rest hg.1 hg.2 hf s hs
    exact ⟨1, by omega, List.length_pos_iff.mpr hne, s', hr, fun f => hy f⟩
  | assign c =>
    simp only [GoodTok] at hg
    simp only [WTok.bytes] at hs ⊢
    obtain ⟨s', hr, hy⟩ := yylex_plain w ic [c] rest (punctRule c) Generated.tokens.equals _
      (lex_punct c (by rcases hg with rfl | rfl <;> decide))
      (by rcases hg with rfl | rfl <;> decide) (by rcases hg with rfl | rfl <;> rfl) hf s hs
    exact ⟨1, by omega, by simp, s', hr, fun f => hy f⟩
  | semi =>
    simp only [WTok.bytes] at hs ⊢
    obtain ⟨s', hr, hy⟩ := yylex_plain w ic [59] rest 46 Generated.tokens.semicolon _
      (lex_punct 59 (by decide)) (by decide) rfl hf s hs
    exact ⟨1, by omega, by simp, s', hr, fun f => hy f⟩
  | comma =>
    simp only [WTok.bytes] at hs ⊢
    obtain ⟨s', hr, hy⟩ := yylex_plain w ic [44] rest 31 Generated.tokens.comma _
      (lex_punct 44 (by decide)) (by decide) rfl hf s hs
    exact ⟨1, by omega, by simp, s', hr, fun f => hy f⟩
  | punct c =>
    simp only [GoodTok] at hg
    simp only [WTok.bytes] at hs ⊢
    have key : ∀ t, acts.getD (punctRule c) .unknown = .tok t → punctRule c ≠ 0 →
        isPunct c = true → (WTok.punct c).token Generated.tokens = some (t, {}) →
        ∃ k, 1 ≤ k ∧ k ≤ [c].length ∧ ∃ s', Ready K s' rest ∧
          ∀ f, yylex T acts w ic (f + k) s =
            (match (WTok.punct c).token Generated.tokens with
             | none => yylex T acts w ic f s'
             | some tv => (s', .tok tv.1 tv.2)) := by
      intro t ha hr hp htok
      obtain ⟨s', hr', hy⟩ := yylex_plain w ic [c] rest (punctRule c) t _ (lex_punct c hp) hr ha hf s hs
      exact ⟨1, by omega, by simp, s', hr', fun f => by rw [htok]; exact hy f⟩
    rcases hg with rfl | rfl | rfl | rfl | rfl | rfl
    · exact key Generated.tokens.listStart rfl (by decide) (by decide) rfl
    · exact key Generated.tokens.listEnd rfl (by decide) (by decide) rfl
    · exact key Generated.tokens.arrayStart rfl (by decide) (by decide) rfl
    · exact key Generated.tokens.arrayEnd rfl (by decide) (by decide) rfl
    · exact key Generated.tokens.groupStart rfl (by decide) (by decide) rfl
    · exact key Generated.tokens.groupEnd rfl (by decide) (by decide) rfl
  | bool v =>
    obtain ⟨s', hr, hy⟩ := yylex_bool w ic v rest hf s hs
    refine ⟨1, by omega, ?_, s', hr, fun f => hy f⟩
    cases v
    · simp only [WTok.bytes, Bool.false_eq_true, if_false, C01P.bytes_false]; decide
    · simp only [WTok.bytes, if_true, C01P.bytes_true]; decide
  | int bits v hex =>
    simp only [GoodTok] at hg
    obtain ⟨s', tn, tv, htok, hr, hy⟩ := yylex_int w ic bits v hex rest hg hf s hs
    refine ⟨1, by omega, ?_, s', hr, fun f => by rw [htok]; exact hy f⟩
    have : 0 < (WTok.int bits v hex).bytes.length := by
      apply List.length_pos_iff.mpr
      obtain ⟨neg, ds, hds, hne, _⟩ := intToDec_shape v
      simp only [WTok.bytes]
      cases hex
      · simp only [Bool.false_eq_true, if_false, hds]
        intro e
        simp only [List.append_eq_nil_iff] at e
        exact hne e.1.2
      · simp
    omega
  | float b text =>
    simp only [GoodTok] at hg
    simp only [WTok.bytes] at hs ⊢
    obtain ⟨s', hr, hy⟩ := yylex_float w ic text rest hg.1 hg.2 hf s hs
    refine ⟨1, by omega, ?_, s', hr, fun f => hy f⟩
    obtain ⟨neg, ip, fp, ex, rfl, hne, _⟩ := hg.1
    have : 0 < ip.length := List.length_pos_iff.mpr hne
    simp only [List.length_append]; omega
  | str x =>
    simp only [GoodTok] at hg
    obtain ⟨k, hk1, hk2, s', hr, hy⟩ := yylex_str w ic x rest hg hf s hs
    exact ⟨k, hk1, hk2, s', hr, fun f => hy f⟩
  | unknown => exact absurd hg (by simp [GoodTok])

end

/-! ### sequences of items -/

/-- every item is good and is followed by a delimiter for it -/
def GoodSeq : List WTok → Prop
  | [] => True
  | t :: ts => GoodTok t ∧ FollowOK (itemFollow t) (bytesOf ts) ∧ GoodSeq ts

/-- the first call runs with fuel `f`, the following ones with `E.lexFuel` -/
def FirstThen (E : ParserEnv) (f : Nat) (s : ScanState) : List (Nat × TokVal) → ScanState → Prop
  | [], s' => yylex E.T E.sacts E.w E.ic f s = (s', .eof)
  | tv :: L, s' => ∃ s1, yylex E.T E.sacts E.w E.ic f s = (s1, .tok tv.1 tv.2) ∧ LexesTo E s1 L s'

theorem FirstThen.lexes {E : ParserEnv} {s s' : ScanState} {L : List (Nat × TokVal)}
    (h : FirstThen E E.lexFuel s L s') : LexesTo E s L s' := by
  cases L with
  | nil => exact .eof s s' h
  | cons tv L =>
    obtain ⟨s1, hy, hl⟩ := h
    exact .tok s s1 s' tv.1 tv.2 L hy hl

theorem next_nil (bol : Bool) : next T 0 bol [] = none := by
  have := (sim (abs_start bol) rfl).1
  simp only [next, scan, this]
  rfl

theorem yylex_eof {K : Ctx} (w : World) (ic : IncludeCfg) (f : Nat) (s : ScanState) (hs : Ready K s []) :
    yylex T acts w ic (f + 1) s = (s, .eof) := by
  rw [yylex]
  have : next T s.sc s.buf.bol s.buf.rest = none := by rw [hs.sc, hs.rest]; exact next_nil _
  simp only [this, hs.stack]

/-- **M3 for item sequences.**  If the buffer holds the rendering of a good item sequence and
the fuel exceeds its length, repeated calls of `yylex` return the tokens of the items and then
end of input. -/
theorem lexes_seq {K : Ctx} (w : World) (c₀ : Config) (F : Nat) : ∀ (ts : List WTok), GoodSeq ts →
    (bytesOf ts).length < F → ∀ (s : ScanState), Ready K s (bytesOf ts) →
    ∀ f, (bytesOf ts).length < f →
      ∃ s', FirstThen (theEnv w c₀ F) f s (toksOf ts) s' ∧ Ready K s' [] := by
  intro ts
  induction ts with
  | nil =>
    intro _ _ s hs f hf
    obtain ⟨f', rfl⟩ : ∃ f', f = f' + 1 := ⟨f - 1, by omega⟩
    exact ⟨s, yylex_eof w _ f' s hs, hs⟩
  | cons t ts ih =>
    intro hg hF s hs f hf
    obtain ⟨hgt, hfol, hgs⟩ := hg
    have hb : bytesOf (t :: ts) = t.bytes ++ bytesOf ts := by simp [bytesOf]
    rw [hb] at hs hF hf
    simp only [List.length_append] at hF hf
    obtain ⟨k, hk1, hk2, s1, hr1, hy⟩ :=
      yylex_item w { fn := c₀.includeFn, dir := c₀.includeDir } t hgt (bytesOf ts) hfol s hs
    have hyf := hy (f - k)
    rw [show f - k + k = f by omega] at hyf
    cases htok : t.token Generated.tokens with
    | none =>
      rw [htok] at hyf
      obtain ⟨s', h', hfin⟩ := ih hgs (by omega) s1 hr1 (f - k) (by omega)
      refine ⟨s', ?_, hfin⟩
      have e : toksOf (t :: ts) = toksOf ts := by simp [toksOf, htok]
      rw [e]
      cases hL : toksOf ts with
      | nil => rw [hL] at h'; exact hyf.trans h'
      | cons tv L =>
        rw [hL] at h'
        obtain ⟨s2, hy2, hl2⟩ := h'
        exact ⟨s2, hyf.trans hy2, hl2⟩
    | some tv =>
      rw [htok] at hyf
      obtain ⟨s', h', hfin⟩ := ih hgs (by omega) s1 hr1 F (by omega)
      refine ⟨s', ?_, hfin⟩
      have e : toksOf (t :: ts) = tv :: toksOf ts := by simp [toksOf, htok]
      rw [e]
      exact ⟨s1, hyf, h'.lexes⟩

end Libconfig.C01L
