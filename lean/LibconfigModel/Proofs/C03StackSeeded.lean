import LibconfigModel.Proofs.C03StackReplay
/-
  C03S, part 6 (S5): the seeded change `if (yyss + yystacksize - 1 < yyssp)` (off by one: `<`
  for `<=`, in both places) is refuted.  With it the stacks are extended one push too late:
  after `YYINITDEPTH - 1` shifts the automatic arrays are full (`yyssp` at their LAST slot — a
  state the real code never is in, `Inv.spare`), nothing has been allocated, and the next
  shift stores its value to `yyvsa[YYINITDEPTH]` and its state to `yyssa[YYINITDEPTH]`.
-/
namespace Libconfig.C03SP

open Libconfig Libconfig.BisonStack

variable {V : Type}

/-- the integers while the seeded parser fills the automatic arrays -/
def seededBase (P : Params) (k : Nat) : Ctl :=
  { loc := .auto, stacksize := P.I, capS := P.I, capV := P.I, ssp := k, vsp := k, status := .running,
    nextId := 0, sizes := [] }

theorem seeded_init (P : Params) (hI : 0 < P.I) (hT : P.test = fullTestSeeded) (ok : Bool) :
    Ctl.init P ok = seededBase P 0 := by
  unfold Ctl.init Ctl.setState
  rw [if_neg]
  · rfl
  · rw [hT, fullTestSeeded_iff]
    show ¬ P.I < 0 + 1
    omega

theorem seeded_shift (P : Params) (hT : P.test = fullTestSeeded) (ok : Bool) (k : Nat)
    (hk : k + 2 ≤ P.I) : Ctl.shiftStep P ok (seededBase P k) = seededBase P (k + 1) := by
  unfold Ctl.shiftStep Ctl.setState
  rw [if_neg]
  · rfl
  · rw [hT, fullTestSeeded_iff]
    show ¬ P.I < k + 1 + 1
    omega

theorem seeded_shifts (P : Params) (hT : P.test = fullTestSeeded) (st : Nat) (v : V) (ok : Bool) :
    ∀ (n k : Nat), k + n + 1 ≤ P.I →
      Ctl.run P (List.replicate n (Event.shift st v ok)) (seededBase P k) = seededBase P (k + n) := by
  intro n
  induction n with
  | zero => intro k _; rfl
  | succ n ih =>
    intro k hk
    rw [List.replicate_succ]
    show Ctl.run P _ (Ctl.step P (seededBase P k) (Event.shift st v ok)) = _
    have : Ctl.step P (seededBase P k) (Event.shift st v ok) = seededBase P (k + 1) :=
      seeded_shift P hT ok k (by omega)
    rw [this, ih (k + 1) (by omega)]
    congr 1
    omega

theorem run_append (P : Params) (es fs : List (Event V)) (s : State V) :
    run P (es ++ fs) s = run P fs (run P es s) := by
  unfold run
  rw [List.foldl_append]

/-- the log only grows: `yysetstate` -/
theorem cleanup_log : ∀ (fuel : Nat) (s : State V), ∃ new, (cleanup fuel s).log = new ++ s.log := by
  intro fuel
  induction fuel with
  | zero => intro s; exact ⟨[], rfl⟩
  | succ fuel ih =>
    intro s
    rw [cleanup]
    split
    · exact ⟨[], rfl⟩
    · obtain ⟨new, h⟩ := ih
        { s with ssp := s.ssp - 1, vsp := s.vsp - 1,
                 log := .loadV s.loc s.vs.length s.vsp (isInit s.vs s.vsp) ::
                        .loadS s.loc s.ss.length s.ssp (isInit s.ss s.ssp) :: s.log }
      exact ⟨new ++ [.loadV s.loc s.vs.length s.vsp (isInit s.vs s.vsp),
        .loadS s.loc s.ss.length s.ssp (isInit s.ss s.ssp)], by rw [h]; simp⟩

theorem returnLab_log (r : Result) (len : Nat) (s : State V) :
    ∃ new, (returnLab r len s).log = new ++ s.log := by
  have e : returnLab r len s =
      if len > s.ssp then { s with status := .fault }
      else finishFree r (cleanup (s.ssp - len) { s with ssp := s.ssp - len, vsp := s.vsp - len }) := rfl
  rw [e]
  split
  · exact ⟨[], rfl⟩
  · obtain ⟨new, h⟩ := cleanup_log (s.ssp - len) { s with ssp := s.ssp - len, vsp := s.vsp - len }
    unfold finishFree
    split
    · exact ⟨new, h⟩
    · rename_i id _
      exact ⟨.free (.heap id) :: new, by show _ :: _ = _; rw [h]; rfl⟩

theorem setState_log (P : Params) (st : Nat) (ok : Bool) (s : State V) :
    ∃ new, (setState P st ok s).log = new ++ s.log := by
  have hs : setState P st ok s =
      if P.test s.stacksize s.ssp then growStack P ok (stored st s) else stored st s := rfl
  rw [hs]
  split
  · rw [growStack_eq]
    split
    · obtain ⟨new, h⟩ := returnLab_log .nomem 0 (stored st s)
      exact ⟨new ++ [.storeS s.loc s.ss.length s.ssp], by rw [h]; simp [stored]⟩
    · split
      · obtain ⟨new, h⟩ := returnLab_log .nomem 0 (allocFailed P (stored st s))
        exact ⟨new ++ [.allocFail (newSize P s.stacksize), .storeS s.loc s.ss.length s.ssp], by
          rw [h]; simp [stored, allocFailed]⟩
      · have hrel : ∃ new, (relocated P (stored st s)).log = new ++ s.log :=
          ⟨freeOf s.loc ++
            [.copyV s.loc s.vs.length (.heap s.nextId) (newSize P s.stacksize) (s.ssp + 1),
             .copyS s.loc (s.ss.set s.ssp (some st)).length (.heap s.nextId) (newSize P s.stacksize)
               (s.ssp + 1),
             .alloc (.heap s.nextId) (newSize P s.stacksize), .storeS s.loc s.ss.length s.ssp], by
            simp [relocated, stored]⟩
        split
        · obtain ⟨new, h⟩ := returnLab_log .abort 0 (relocated P (stored st s))
          obtain ⟨new2, h2⟩ := hrel
          exact ⟨new ++ new2, by rw [h, h2]; simp⟩
        · exact hrel
  · exact ⟨[.storeS s.loc s.ss.length s.ssp], rfl⟩

/-- **The seeded change breaks S1**, for all constants: with `<` in the test of `yysetstate`,
`YYINITDEPTH` shifts from the start of `yyparse` make the parser store a value to slot
`YYINITDEPTH` of the automatic array `yyvsa[YYINITDEPTH]`, one past its end. -/
theorem seeded_oob_store (P : Params) (hI : 0 < P.I) (hT : P.test = fullTestSeeded) (st : Nat) (v : V)
    (ok : Bool) :
    Access.storeV .auto P.I P.I ∈
      (run P (List.replicate P.I (Event.shift st v ok)) (init P ok : State V)).log := by
  obtain ⟨n, hn⟩ : ∃ n, P.I = n + 1 := ⟨P.I - 1, by omega⟩
  have hc : ctlOf (run P (List.replicate n (Event.shift st v ok)) (init P ok : State V)) =
      seededBase P n := by
    rw [ctl_run, ctl_init, seeded_init P hI hT, seeded_shifts P hT st v ok n 0 (by omega)]
    congr 1
    omega
  rw [hn, List.replicate_succ', run_append, ← hn]
  generalize run P (List.replicate n (Event.shift st v ok)) (init P ok : State V) = s at hc
  have h1 : s.loc = .auto := congrArg Ctl.loc hc
  have h2 : s.vs.length = P.I := congrArg Ctl.capV hc
  have h3 : s.vsp = n := congrArg Ctl.vsp hc
  have h4 : s.status = .running := congrArg Ctl.status hc
  show _ ∈ (step P s (Event.shift st v ok)).log
  have hstep : step P s (Event.shift st v ok) = setState P st ok (pushed v s) := by
    unfold step
    rw [h4]
    rfl
  rw [hstep]
  obtain ⟨new, hnew⟩ := setState_log P st ok (pushed v s)
  rw [hnew]
  apply List.mem_append_right
  show _ ∈ Access.storeV s.loc s.vs.length (s.vsp + 1) :: s.log
  rw [h1, h2, h3, ← hn]
  exact List.mem_cons_self

theorem seeded_breaks (P : Params) (hI : 0 < P.I) (hT : P.test = fullTestSeeded) (st : Nat) (v : V)
    (ok : Bool) :
    ¬ ∀ a ∈ (run P (List.replicate P.I (Event.shift st v ok)) (init P ok : State V)).log, a.ok := by
  intro h
  have := h _ (seeded_oob_store P hI hT st v ok)
  exact absurd this (Nat.lt_irrefl _)

end Libconfig.C03SP
