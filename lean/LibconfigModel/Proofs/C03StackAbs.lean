import LibconfigModel.Proofs.C03StackInv
/-
  C03S, part 3 (S2, S3): the memory of `BisonStack.lean` holds the idealised list stack of
  `Parser.lean`; pushes and pops on both stay in lock step; growth moves the contents without
  loss; "memory exhausted" exactly at the limit.
-/
namespace Libconfig.C03SP

open Libconfig Libconfig.BisonStack

variable {V : Type}

/-! ### lists -/

theorem take_set_succ {α : Type} (l : List α) (i : Nat) (x : α) (h : i < l.length) :
    (l.set i x).take (i + 1) = l.take i ++ [x] := by
  rw [List.take_add_one, List.getElem?_set_self h, List.take_set_of_le (Nat.le_refl i)]
  rfl

/-- dropping the `n` newest entries of a reversed prefix -/
theorem reverse_take_drop {α : Type} (l : List α) (m n : Nat) (h : m + n ≤ l.length) :
    (l.take (m + n)).reverse.drop n = (l.take m).reverse := by
  rw [List.take_add, List.reverse_append]
  rw [List.drop_left' (by rw [List.length_reverse, List.length_take, List.length_drop]; omega)]

theorem absValues_eq (s : State V) : absValues s = ((s.vs.drop 1).take s.vsp).reverse := by
  unfold absValues
  rw [List.drop_take]
  rfl

theorem absStates_length (s : State V) (h : s.ssp < s.ss.length) : (absStates s).length = s.ssp + 1 := by
  unfold absStates
  rw [List.length_reverse, List.length_take]
  omega

/-- the idealised stack has one entry per slot up to `yyssp` -/
theorem abs_length {s : State V} {stack : List (Nat × V)} (h : Abs s stack) (htop : s.ssp < s.ss.length) :
    stack.length = s.ssp + 1 := by
  have := congrArg List.length h.2.2.1
  rw [absStates_length s htop, List.length_map] at this
  exact this.symm

/-- what a load of `yyssp[-k]` delivers: the state of the `k`-th entry from the top -/
theorem abs_state_at {s : State V} {stack : List (Nat × V)} (ha : Abs s stack)
    (htop : s.ssp < s.ss.length) (k : Nat) (hk : k < stack.length) :
    s.ss[s.ssp - k]? = stack[k]?.map (fun e => some e.1) := by
  have hl := abs_length ha htop
  have h := congrArg (fun l => l[k]?) ha.2.2.1
  simp only [List.getElem?_map] at h
  rw [← h]
  unfold absStates
  rw [List.getElem?_reverse (by rw [List.length_take]; omega), List.length_take,
    Nat.min_eq_left (by omega), List.getElem?_take_of_lt (by omega)]
  congr 1 <;> omega

/-- what a load of `yyvsp[-k]` delivers: the value of the `k`-th entry from the top (not for the
bottom entry, whose slot is never written) -/
theorem abs_value_at {s : State V} {stack : List (Nat × V)} (ha : Abs s stack)
    (htop : s.ssp < s.ss.length) (hcV : s.vs.length = s.ss.length) (k : Nat)
    (hk : k + 1 < stack.length) :
    s.vs[s.vsp - k]? = stack[k]?.map (fun e => some e.2) := by
  have hl := abs_length ha htop
  have hsame := ha.2.1
  have h := congrArg (fun l => l[k]?) ha.2.2.2
  simp only [List.getElem?_map, List.dropLast_eq_take] at h
  rw [List.getElem?_take_of_lt (by omega)] at h
  rw [← h, absValues_eq]
  rw [List.getElem?_reverse (by rw [List.length_take, List.length_drop]; omega), List.length_take,
    List.length_drop, Nat.min_eq_left (by omega), List.getElem?_take_of_lt (by omega),
    List.getElem?_drop]
  congr 1 <;> omega

/-! ### `yysetstate` -/

/-- the state array after the store holds the new state on top of what was below `yyssp` -/
theorem absStates_stored (st : Nat) (t : State V) (h : t.ssp < t.ss.length) :
    absStates (stored st t) = some st :: (t.ss.take t.ssp).reverse := by
  unfold absStates stored
  simp only
  rw [take_set_succ _ _ _ h, List.reverse_append]
  rfl

/-- **Growth loses nothing**: the relocated state array holds, up to `yyssp`, what the old one
held (with the new state stored) … -/
theorem absStates_grown (P : Params) (st : Nat) (t : State V) (h : t.ssp < t.ss.length) :
    absStates (grown P st t) = absStates (stored st t) := by
  unfold absStates grown stored
  simp only
  rw [take_relocate _ _ _ (by rw [List.length_set]; omega)]

/-- … and the relocated value array what the old one held -/
theorem absValues_grown (P : Params) (st : Nat) (t : State V) (hs : t.vsp = t.ssp)
    (h : t.ssp < t.vs.length) : absValues (grown P st t) = absValues t := by
  unfold absValues grown
  simp only
  rw [take_relocate _ _ _ (by omega), hs]

theorem absValues_stored (st : Nat) (t : State V) : absValues (stored st t) = absValues t := rfl

/-- `yysetstate` entered with the value of the new entry in place: the three outcomes in terms
of the idealised stack `(st, v) :: rest`. -/
theorem setState_abs (P : Params) (hP : P.OK) (st : Nat) (ok : Bool) (t : State V) (v : V)
    (rest : List (Nat × V)) (hpre : Pre P t)
    (hb : (t.ss.take t.ssp).reverse = rest.map (fun e => some e.1))
    (hv : absValues t = ((st, v) :: rest).dropLast.map (fun e => some e.2)) :
    (t.ssp + 1 < t.stacksize →
      Abs (setState P st ok t) ((st, v) :: rest) ∧ setState P st ok t = stored st t) ∧
    (t.ssp + 1 = t.stacksize → t.stacksize < P.M → ok = true →
      Abs (setState P st ok t) ((st, v) :: rest) ∧ setState P st ok t = grown P st t) ∧
    (t.ssp + 1 = t.stacksize → (P.M ≤ t.stacksize ∨ ok = false) →
      (setState P st ok t).status = .done .nomem) := by
  obtain ⟨c1, c2, c3, c4⟩ := setState_cases P hP st ok t
  have htop : t.ssp < t.ss.length := by rw [hpre.capS]; exact hpre.room
  have hS := initS_stored st t htop hpre.initS
  have hlen : (t.ss.set t.ssp (some st)).length = t.ss.length := List.length_set ..
  have hst : absStates (stored st t) = ((st, v) :: rest).map (fun e => some e.1) := by
    rw [absStates_stored st t htop, hb]
    rfl
  refine ⟨fun hlt => ?_, fun heq hM hok => ?_, fun heq hor => ?_⟩
  · rw [c1 hlt]
    exact ⟨⟨hpre.running, hpre.same, hst, hv⟩, rfl⟩
  · rw [c4 heq hM hok]
    refine ⟨⟨hpre.running, rfl, ?_, ?_⟩, rfl⟩
    · rw [absStates_grown P st t htop]; exact hst
    · rw [absValues_grown P st t hpre.same (by rw [hpre.capV]; exact htop)]; exact hv
  · have hdone : ∀ (u : State V), u.ssp < u.ss.length → u.vsp = u.ssp → u.vs.length = u.ss.length →
        (∀ i, i ≤ u.ssp → isInit u.ss i = true) → (∀ i, 1 ≤ i → i ≤ u.vsp → isInit u.vs i = true) →
        (returnLab .nomem 0 u).status = .done .nomem := by
      intro u h1 h2 h3 h4 h5
      obtain ⟨new, he, _⟩ := returnLab_spec .nomem 0 u (Nat.zero_le _) h2 h1 h3 h4 h5
      rw [he]
    rcases Nat.lt_or_ge t.stacksize P.M with hM | hM
    · have hok : ok = false := by
        rcases hor with h | h
        · omega
        · exact h
      rw [c3 heq hM hok]
      exact hdone (failed P st t) (by show _ < (t.ss.set _ _).length; rw [hlen]; exact htop) hpre.same
        (by show _ = (t.ss.set _ _).length; rw [hlen]; exact hpre.capV) hS hpre.initV
    · rw [c2 heq hM]
      exact hdone (stored st t) (by show _ < (t.ss.set _ _).length; rw [hlen]; exact htop) hpre.same
        (by show _ = (t.ss.set _ _).length; rw [hlen]; exact hpre.capV) hS hpre.initV

/-! ### the pushing events -/

/-- a push: what `yybackup` (shift) or `yyreduce` does to the stacks; `YYSTACK_ALLOC`, if it is
called, succeeds -/
inductive Push (V : Type) where
  | shift (st : Nat) (v : V)
  | reduce (n st : Nat) (v : V)
deriving Repr

def Push.toEvent : Push V → Event V
  | .shift st v => .shift st v true
  | .reduce n st v => .reduce n st v true

/-- the same push on the idealised stack of `Parser.lean` -/
def Push.apply : Push V → List (Nat × V) → List (Nat × V)
  | .shift st v, stack => (st, v) :: stack
  | .reduce n st v, stack => (st, v) :: stack.drop n

/-- number of entries the push takes off first -/
def Push.pops : Push V → Nat
  | .shift _ _ => 0
  | .reduce n _ _ => n

theorem Push.apply_length (p : Push V) (stack : List (Nat × V)) :
    (p.apply stack).length = stack.length - p.pops + 1 := by
  cases p <;> simp [Push.apply, Push.pops]

/-- `*++yyvsp = v; yyssp++` in terms of the idealised stack -/
theorem pushed_abs (P : Params) (st : Nat) (v : V) (s : State V) (stack : List (Nat × V))
    (h : Inv P s) (ha : Abs s stack) :
    ((pushed v s).ss.take (pushed v s).ssp).reverse = stack.map (fun e => some e.1) ∧
    absValues (pushed v s) = ((st, v) :: stack).dropLast.map (fun e => some e.2) := by
  obtain ⟨hr, hsame, hS, hV⟩ := ha
  have hsp := h.spare hr
  have hcS := h.capS hr
  have hcV := h.capV
  have hne : stack ≠ [] := by
    intro he
    have := abs_length ⟨hr, hsame, hS, hV⟩ h.top
    rw [he] at this
    cases this
  refine ⟨hS, ?_⟩
  rw [absValues_eq] at hV ⊢
  show (((s.vs.set (s.vsp + 1) (some v)).drop 1).take (s.vsp + 1)).reverse = _
  rw [List.drop_set, if_neg (by omega), Nat.add_sub_cancel,
    take_set_succ _ _ _ (by rw [List.length_drop]; omega), List.reverse_append, hV,
    List.dropLast_cons_of_ne_nil hne]
  rfl

/-- `YYPOPSTACK (n)` in terms of the idealised stack -/
theorem popped_abs (n : Nat) (s : State V) (stack : List (Nat × V)) (htop : s.ssp < s.ss.length)
    (hcV : s.vs.length = s.ss.length) (ha : Abs s stack) (hn : n ≤ s.ssp) :
    Abs (popped n s) (stack.drop n) := by
  obtain ⟨hr, hsame, hS, hV⟩ := ha
  refine ⟨hr, by show s.vsp - n = s.ssp - n; rw [hsame], ?_, ?_⟩
  · unfold absStates at hS ⊢
    show (s.ss.take (s.ssp - n + 1)).reverse = _
    rw [List.map_drop, ← hS]
    have : s.ssp + 1 = (s.ssp - n + 1) + n := by omega
    rw [this, reverse_take_drop _ _ _ (by omega)]
  · rw [absValues_eq] at hV ⊢
    show ((s.vs.drop 1).take (s.vsp - n)).reverse = _
    have hd : (stack.drop n).dropLast = stack.dropLast.drop n := by
      rw [List.dropLast_eq_take, List.dropLast_eq_take, List.length_drop, List.drop_take]
      congr 1
      omega
    rw [hd, List.map_drop, ← hV]
    have : s.vsp = (s.vsp - n) + n := by omega
    rw [this, reverse_take_drop _ _ _ (by rw [List.length_drop]; omega)]
    simp

/-- **Lock step** (one push).  `s` holds the idealised stack `stack`; the push `p` pops no more
entries than lie above the bottom.  With `stack' = p.apply stack`, the idealised result:
`stack'` never has more entries than `yystacksize`; if it has fewer, the memory holds `stack'`
afterwards, in the same block; if it has exactly `yystacksize < YYMAXDEPTH`, the stacks have moved
to a new block of `newSize` slots and the memory holds `stack'`; if it has `yystacksize =
YYMAXDEPTH` entries, the parse has ended with "memory exhausted". -/
theorem push_abs (P : Params) (hP : P.OK) (p : Push V) (s : State V) (stack : List (Nat × V))
    (h : Inv P s) (ha : Abs s stack) (hp : p.pops < stack.length) :
    (p.apply stack).length ≤ s.stacksize ∧
    ((p.apply stack).length < s.stacksize →
      Abs (step P s p.toEvent) (p.apply stack) ∧ (step P s p.toEvent).stacksize = s.stacksize ∧
      (step P s p.toEvent).loc = s.loc ∧ (step P s p.toEvent).nextId = s.nextId) ∧
    ((p.apply stack).length = s.stacksize → s.stacksize < P.M →
      Abs (step P s p.toEvent) (p.apply stack) ∧
      (step P s p.toEvent).stacksize = newSize P s.stacksize ∧
      (step P s p.toEvent).loc = .heap s.nextId ∧ (step P s p.toEvent).nextId = s.nextId + 1) ∧
    ((p.apply stack).length = s.stacksize → P.M ≤ s.stacksize →
      (step P s p.toEvent).status = .done .nomem) := by
  have hr := ha.1
  have hlen := abs_length ha h.top
  have hsp := h.spare hr
  rw [Push.apply_length]
  cases p with
  | shift st v =>
    have hstep : step P s (Push.shift st v).toEvent = setState P st true (pushed v s) := by
      unfold step; rw [hr]; rfl
    rw [hstep]
    obtain ⟨hb, hv⟩ := pushed_abs P st v s stack h ha
    obtain ⟨a1, a2, a3⟩ := setState_abs P hP st true (pushed v s) v stack (pre_pushed P v s h hr) hb hv
    have e1 : (pushed v s).ssp = s.ssp + 1 := rfl
    have e2 : (pushed v s).stacksize = s.stacksize := rfl
    simp only [Push.pops, Nat.sub_zero]
    refine ⟨by omega, fun hlt => ?_, fun heq hM => ?_, fun heq hM => ?_⟩
    · obtain ⟨x1, x2⟩ := a1 (by rw [e1, e2]; omega)
      exact ⟨x1, by rw [x2]; rfl, by rw [x2]; rfl, by rw [x2]; rfl⟩
    · obtain ⟨x1, x2⟩ := a2 (by rw [e1, e2]; omega) hM rfl
      exact ⟨x1, by rw [x2]; rfl, by rw [x2]; rfl, by rw [x2]; rfl⟩
    · exact a3 (by rw [e1, e2]; omega) (.inl hM)
  | reduce n st v =>
    have hn : n ≤ s.ssp := by have : n < stack.length := hp; omega
    have hstep : step P s (Push.reduce n st v).toEvent = reduceStep P n st v true s := by
      unfold step; rw [hr]; rfl
    rw [hstep, reduceStep_eq P n st v true s hn]
    have hi := inv_popped P n s h hr hn
    have hpa := popped_abs n s stack h.top h.capV ha hn
    obtain ⟨hb, hv⟩ := pushed_abs P st v (popped n s) (stack.drop n) hi hpa
    have hpre := pre_log P (.loadS s.loc s.ss.length (s.ssp - n) (isInit s.ss (s.ssp - n))) _
      (pre_pushed P v _ hi hr) ⟨by have := h.top; omega, h.initS _ (by omega)⟩
    obtain ⟨a1, a2, a3⟩ := setState_abs P hP st true _ v (stack.drop n) hpre hb hv
    simp only [Push.pops]
    refine ⟨by omega, fun hlt => ?_, fun heq hM => ?_, fun heq hM => ?_⟩
    · obtain ⟨x1, x2⟩ := a1 (by show s.ssp - n + 1 + 1 < s.stacksize; omega)
      exact ⟨x1, by rw [x2]; rfl, by rw [x2]; rfl, by rw [x2]; rfl⟩
    · obtain ⟨x1, x2⟩ := a2 (by show s.ssp - n + 1 + 1 = s.stacksize; omega) hM rfl
      exact ⟨x1, by rw [x2]; rfl, by rw [x2]; rfl, by rw [x2]; rfl⟩
    · exact a3 (by show s.ssp - n + 1 + 1 = s.stacksize; omega) (.inl hM)

/-! ### the start -/

/-- The first `yysetstate` (state 0 into `yyssa[0]`, no value): with `YYINITDEPTH ≥ 2` the memory
holds the one-entry stack of `Parser.lean` (whatever placeholder `v0` it uses for the value of
the bottom entry); with `YYINITDEPTH = 1` the stacks are extended at once, or — `YYMAXDEPTH = 1`
— the parse ends before it begins. -/
theorem init_abs (P : Params) (hP : P.OK) (ok : Bool) (v0 : V) :
    (1 < P.I → Abs (init P ok : State V) [(0, v0)] ∧ (init P ok : State V) = stored 0 (start P)) ∧
    (P.I = 1 → 1 < P.M → ok = true →
      Abs (init P ok : State V) [(0, v0)] ∧ (init P ok : State V) = grown P 0 (start P)) ∧
    (P.I = 1 → (P.M = 1 ∨ ok = false) → (init P ok : State V).status = .done .nomem) := by
  have hI := hP.I
  have hM := hP.M
  obtain ⟨a1, a2, a3⟩ := setState_abs P hP 0 ok (start P : State V) v0 [] (pre_start P hP) rfl (by
    unfold absValues start
    simp only [List.dropLast_singleton, List.map_nil, List.reverse_eq_nil_iff]
    apply List.drop_eq_nil_of_le
    rw [List.length_take]
    omega)
  have e1 : (start P : State V).ssp = 0 := rfl
  have e2 : (start P : State V).stacksize = P.I := rfl
  refine ⟨fun h => a1 (by rw [e1, e2]; omega), fun h1 h2 hok => a2 (by rw [e1, e2]; omega)
    (by rw [e2]; omega) hok, fun h1 h2 => a3 (by rw [e1, e2]; omega) ?_⟩
  rw [e2]
  rcases h2 with h2 | h2
  · exact .inl (by omega)
  · exact .inr h2

/-! ### any number of pushes -/

/-- the outcome of the idealised machine -/
inductive IdealOut (V : Type) where
  | stack (l : List (Nat × V))
  /-- the limit of `Parser.lean`: a stack of `YYMAXDEPTH` entries -/
  | exhausted
  /-- a reduction asked for more entries than lie above the bottom -/
  | underflow
deriving Repr, DecidableEq

/-- The idealised machine: the list stack of `Parser.lean` with its limit (`yyparseLoop` answers
"memory exhausted" as soon as the list has `maxDepth` entries). -/
def ideal (M : Nat) : List (Push V) → List (Nat × V) → IdealOut V
  | [], stack => .stack stack
  | p :: ps, stack =>
    if stack.length ≤ p.pops then .underflow
    else if M ≤ (p.apply stack).length then .exhausted
    else ideal M ps (p.apply stack)

theorem run_stopped (P : Params) : ∀ (es : List (Event V)) (s : State V), s.status ≠ .running →
    run P es s = s := by
  intro es
  induction es with
  | nil => intro s _; rfl
  | cons e es ih =>
    intro s hs
    have h1 : step P s e = s := by
      unfold step
      split
      · rename_i hr; exact absurd hr hs
      · rfl
    show run P es (step P s e) = s
    rw [h1]
    exact ih s hs

/-- **Lock step** (any number of pushes, `YYSTACK_ALLOC` never failing): the memory model and the
idealised machine agree — same stack as long as the idealised one stays below `YYMAXDEPTH`
entries, "memory exhausted" from the push on that reaches `YYMAXDEPTH` entries, and the fault
status exactly when a reduction underflows the idealised stack. -/
theorem run_abs (P : Params) (hP : P.OK) : ∀ (ps : List (Push V)) (s : State V)
    (stack : List (Nat × V)), Inv P s → Abs s stack →
    match ideal P.M ps stack with
    | .stack l => Abs (run P (ps.map Push.toEvent) s) l
    | .exhausted => (run P (ps.map Push.toEvent) s).status = .done .nomem
    | .underflow => (run P (ps.map Push.toEvent) s).status = .fault := by
  intro ps
  induction ps with
  | nil => intro s stack _ ha; exact ha
  | cons p ps ih =>
    intro s stack h ha
    have hr := ha.1
    have hlen := abs_length ha h.top
    rw [ideal]
    by_cases hu : stack.length ≤ p.pops
    · rw [if_pos hu]
      show (run P (ps.map Push.toEvent) (step P s p.toEvent)).status = .fault
      -- underflow
      have hf : (step P s p.toEvent).status = .fault := by
        cases p with
        | shift st v => simp only [Push.pops] at hu; omega
        | reduce n st v =>
          have hn : s.ssp < n := by have : stack.length ≤ n := hu; omega
          unfold step
          rw [hr]
          show (reduceStep P n st v true s).status = _
          unfold reduceStep
          rw [if_pos hn]
      rw [run_stopped P _ _ (by rw [hf]; intro hh; cases hh)]
      exact hf
    · rw [if_neg hu]
      obtain ⟨b0, b1, b2, b3⟩ := push_abs P hP p s stack h ha (by omega)
      have hsz : s.stacksize ≤ P.M := by rw [h.size hr]; exact Nat.min_le_right _ _
      by_cases hM : P.M ≤ (p.apply stack).length
      · rw [if_pos hM]
        show (run P (ps.map Push.toEvent) (step P s p.toEvent)).status = .done .nomem
        have hd := b3 (by omega) (by omega)
        rw [run_stopped P _ _ (by rw [hd]; intro hh; cases hh)]
        exact hd
      · rw [if_neg hM]
        have hinv := step_inv P hP s p.toEvent h
        rcases Nat.lt_or_ge (p.apply stack).length s.stacksize with hlt | hge
        · exact ih _ _ hinv (b1 hlt).1
        · exact ih _ _ hinv (b2 (by omega) (by omega)).1

/-- `n` shifts on the idealised machine -/
theorem ideal_shifts (M : Nat) (st : Nat) (v : V) : ∀ (n : Nat) (stack : List (Nat × V)),
    stack ≠ [] →
    ideal M (List.replicate n (Push.shift st v)) stack =
      if stack.length + n < M ∨ n = 0 then .stack (List.replicate n (st, v) ++ stack) else .exhausted := by
  intro n
  induction n with
  | zero => intro stack _; simp [ideal]
  | succ n ih =>
    intro stack hne
    rw [List.replicate_succ, ideal]
    have hpos : 0 < stack.length := List.length_pos_iff.mpr hne
    rw [if_neg (by simp only [Push.pops]; omega)]
    have hl : (Push.shift st v).apply stack = (st, v) :: stack := rfl
    have hl2 : ((st, v) :: stack).length = stack.length + 1 := rfl
    rw [hl]
    by_cases hM : M ≤ ((st, v) :: stack).length
    · rw [if_pos hM, if_neg (by omega)]
    · rw [if_neg hM, ih _ (by simp), hl2]
      rw [hl2] at hM
      by_cases h2 : stack.length + 1 + n < M
      · rw [if_pos (.inl h2), if_pos (.inl (by omega))]
        congr 1
        rw [List.replicate_succ' (n := n), List.append_assoc]
        rfl
      · by_cases h3 : n = 0
        · subst h3
          rw [if_pos (.inr rfl), if_pos (.inl (by omega))]
          rfl
        · rw [if_neg (by omega), if_neg (by omega)]

/-! ### sizes -/

/-- the number of extensions: `⌈log2 (YYMAXDEPTH / YYINITDEPTH)⌉` at most -/
theorem growth_count (P : Params) (hP : P.OK) (k : Nat) (h : k = 0 ∨ P.I * 2 ^ (k - 1) < P.M) :
    k ≤ ((P.M - 1) / P.I).log2 + 1 := by
  rcases h with h | h
  · omega
  · have hI := hP.I
    have h1 : 2 ^ (k - 1) * P.I ≤ P.M - 1 := by rw [Nat.mul_comm]; omega
    have h2 : 2 ^ (k - 1) ≤ (P.M - 1) / P.I := (Nat.le_div_iff_mul_le hI).mpr h1
    have h3 : (P.M - 1) / P.I ≠ 0 := by
      have : 1 ≤ 2 ^ (k - 1) := Nat.one_le_two_pow
      omega
    have := (Nat.le_log2 h3).mpr h2
    omega

end Libconfig.C03SP
