import LibconfigModel.Proofs.C09LineSim2
/-
  C09L, the simulation, part 3 — Proofs/C02DenoteSim3.lean with positions: the rest of a list, the
  settings of a group (a duplicate name is reported in the scan state right after the NAME token:
  `$@1` runs by default reduction, before the parser looks at the next token), and the induction
  on the fuel that ties the three statements together.
-/
namespace Libconfig.C09L
open Libconfig C02P C05P C02C C01PP C04 C04R Denote C02D

section
variable {E : ParserEnv} {pos : Nat → ScanState} {o : Options}

/-! ### the rest of a list -/

theorem listRest_step (hE : Compiled E) (fuel : Nat) (ihv : ValueSim E pos o fuel)
    (ihl : ListRestSim E pos o fuel) : ListRestSim E pos o (fuel + 1) := by
  intro acc items q qv hC v36 v26 v17 vq stk la sc ctx K pp pn pre a st r d hf hd hI hH hV hA hrty
    hracc hinv hnest
  have hd1 : d + 1 ≤ 1665 := Nat.le_trans (le_nestingFrom _ _) hnest
  have haty : a.ty = T_LIST := (stripPos_ty' hA).trans hrty
  cases listRestView items with
  | done r' =>
    rw [listRestAt_done]
    -- `value_list_optional: value_list`
    obtain ⟨t, v, ks, hin, hk23, hn, hrest⟩ := hI.peek
    obtain ⟨la1, sc1, ctx1, vv1, hR1, hI1, hS1⟩ := preduce0Q hE (ctx := ctx)
      (pushed := [(36, v36)]) (p := 26) (vp := v26) (rest := (17, v17) :: (q, vq) :: stk)
      rfl rfl (by dp) (by decide) (red_36 _ hk23 (ne_of_hk hn rfl (by simp [hk]))) rule_34 rfl
      go_26_vlo hin
    -- `)`
    obtain ⟨la2, sc2, ctx2, vv2, st2, hR2, hI2, hV2, hinv2⟩ := sim_close hE hC.gValue
      (close := .listEnd) (k := 16) (fun _ h => h) sh_37_listEnd (by decide) (by decide)
      (by decide) (by decide) red_43 rule_16 hC.gList red_20 rule_19
      (v3 := vv1) (v2 := v26) (v1 := v17) (vq := vq) (stk := stk)
      (by omega) hH (hV.of_same hS1.sem) (hinv.of_same hS1) (hrest _ _ hI1)
    refine ⟨_, hR1.trans hR2, la2, sc2, ctx2, vv2, rfl, hI2, ⟨a, st2, hV2, ?_⟩, hinv2, ?_⟩
    · rw [hA, ← hracc]; cases r; rfl
    · exact Nat.le_trans (nesting_close (.inr (.inl rfl))) hnest
  | comma rest' =>
    have hnest' : nestingFrom (d + 1) rest' ≤ 1665 := by
      rw [nesting_flat rfl] at hnest; exact hnest
    -- the comma
    obtain ⟨t, v, ks, hin, hkr, _, _, hcont⟩ := hI.pop
    obtain ⟨sc1, ctx1, hR1, hI1, hS1⟩ := pshiftQ hE (v0 := v36)
      (rest := (26, v26) :: (17, v17) :: (q, vq) :: stk) (ctx := ctx) (by dp) (by decide)
      (show translateTok P t = 17 from hkr) sh_36_comma (by decide) hin
    have hI1' := hcont _ _ hI1
    have hV1 := hV.of_same hS1.sem
    have hinv1 := hinv.of_same hS1
    -- a comma that is not followed by an element
    have skip : ((∃ r, rest' = .comma :: r) ∨ (∃ r, rest' = .listEnd :: r)) →
        SimQ E pos ⟨(36, v36) :: (26, v26) :: (17, v17) :: (q, vq) :: stk, la, sc, ctx⟩
          (listRestAt o (fuel + 1) acc (.comma :: rest'))
          (fun elems rest b => AfterValue E pos o qv q vq stk K pp pn pre d
            { r with kids := elems } rest b) := by
      intro hsk
      rw [listRestAt_skip _ _ _ _ hsk]
      obtain ⟨t2, v2, ks2, hin2, hk23, hn2, hrest2⟩ := hI1'.peek
      have hvs : valStart (hk rest') = false := by
        rcases hsk with ⟨r2, rfl⟩ | ⟨r2, rfl⟩ <;> rfl
      obtain ⟨la2, sc2, ctx2, vv2, hR2, hI2, hS2⟩ := preduce0Q hE (ctx := ctx1)
        (pushed := [(42, v), (36, v36)]) (p := 26) (vp := v26)
        (rest := (17, v17) :: (q, vq) :: stk)
        rfl rfl (by dp) (by decide) (red_42 _ hk23 (valStart_of_hk hk23 hn2 hvs)) rule_32 rfl
        go_26_vl hin2
      refine SimQ.of_reaches (hR1.trans hR2) ?_
      exact ihl acc rest' q qv hC vv2 v26 v17 vq stk la2 sc2 ctx2 K pp pn pre a st r d
        (by simp only [List.length_cons] at hf; omega) hd (hrest2 _ _ hI2) hH
        (hV1.of_same hS2.sem) hA hrty hracc (hinv1.of_same hS2) hnest'
    cases listRestView rest' with
    | done r2 => exact skip (.inr ⟨_, rfl⟩)
    | comma r2 => exact skip (.inl ⟨_, rfl⟩)
    | other _ h1 h2 =>
      -- an element
      have hel := ihv none rest' 42 46 ((36, v36) :: (26, v26) :: (17, v17) :: (q, vq) :: stk)
        [17, 16] v none sc1 ctx1 _ _ a st a.kids (d + 1) (.later _ _ _)
        (by simp only [List.length_cons] at hf; omega) (by dp) hI1'
        (by
          intro c hc
          simp only [List.mem_cons, List.not_mem_nil, or_false] at hc
          rcases hc with rfl | rfl
          · exact hk_ne_17 h2
          · exact hk_ne_16 h1)
        hV1 (Slot.elem (.inl haty) rfl rfl) (by rw [haty]; decide) hinv1 hnest'
      cases hv : valueAt o fuel none rest' with
      | error k w =>
        rw [listRestAt_value_err h1 h2 hv]
        rw [hv] at hel
        exact AbortsAt.of_reaches hR1 hel
      | ok x rest1 =>
        rw [listRestAt_value_ok h1 h2 hv]
        rw [hv] at hel
        obtain ⟨b, hR2, la2, sc2, ctx2, vv2, rfl, hI2, ⟨n', st2, hV2, hn'⟩, hinv2, hnest2⟩ := hel
        -- `value_list: value_list , value`
        obtain ⟨t3, v3, ks3, hin3, hk23, _, hrest3⟩ := hI2.peek
        obtain ⟨la3, sc3, ctx3, vv3, hR3, hI3, hS3⟩ := preduce0Q hE (ctx := ctx2)
          (pushed := [(46, vv2), (42, v), (36, v36)]) (p := 26) (vp := v26)
          (rest := (17, v17) :: (q, vq) :: stk)
          rfl rfl (by dp) (by decide) (red_46 _ hk23) rule_31 rfl go_26_vl hin3
        refine SimQ.of_reaches ((hR1.trans hR2).trans hR3) ?_
        exact ihl (acc ++ [x]) rest1 q qv hC vv3 v26 v17 vq stk la3 sc3 ctx3 K pp pn pre
          { a with kids := a.kids ++ [n'] } st2 { r with kids := acc ++ [x] } d
          (by
            have := value_length (valueAt_ok hv)
            simp only [List.length_cons] at hf; omega)
          hd (hrest3 _ _ hI3) hH (hV2.of_same hS3.sem)
          (by rw [stripPos_kids' hA, stripPosList_snoc, stripPos_kids_eq hA, hracc, hn'])
          hrty rfl (hinv2.of_same hS3) hnest2
  | other _ h1 h2 =>
    rw [listRestAt_other _ _ _ _ h1 h2]
    show AbortsAt E _ ErrKind.syntax.text _
    rw [text_syntax, reportAt_syntax]
    obtain ⟨t, v, ks, hin, hlen, hk23, hn, hrest⟩ := hI.peekL
    rw [← hlen]
    obtain ⟨la1, sc1, ctx1, vv1, hR1, hI1, hS1⟩ := preduce0Q hE (ctx := ctx)
      (pushed := [(36, v36)]) (p := 26) (vp := v26) (rest := (17, v17) :: (q, vq) :: stk)
      rfl rfl (by dp) (by decide) (red_36 _ hk23 (ne_of_hk hn rfl (hk_ne_17 h2))) rule_34 rfl
      go_26_vlo hin
    refine AbortsAt.of_reaches hR1 ?_
    exact perrorQ hE (stk := (37, vv1) :: (26, v26) :: (17, v17) :: (q, vq) :: stk) rfl (by dp)
      (by decide) (err_37 _ hk23 (ne_of_hk hn rfl (hk_ne_16 h1))) nn_37 hI1 (hinv.of_same hS1).err

/-! ### the settings of a group -/

theorem settings_step (hE : Compiled E) (fuel : Nat) (ihv : ValueSim E pos o fuel)
    (ihs : SettingsSim E pos o fuel) : SettingsSim E pos o (fuel + 1) := by
  intro members items q0 q1 hM v0 stk0 stkS la sc ctx K pp pn st r d hshape hf hd hI hV hpn hrty
    hrm hinv hnest
  have hd0 : d ≤ 1665 := Nat.le_trans (le_nestingFrom _ _) hnest
  have hlen : stkS.length ≤ stk0.length + 2 := by
    rcases hshape with rfl | ⟨v1', rfl⟩ <;> simp
  have hgty : pn.ty = T_GROUP := (stripPos_ty' hpn).trans hrty
  have hmem : stripPosList pn.kids = members := (stripPos_kids_eq hpn).trans hrm
  -- NAME and `$@1`, common to the three cases that start with a name
  have named : ∀ (nm : Bytes) (rest : List Denote.Item), items = .name nm :: rest →
      match enter o members nm with
      | none => AbortsAt E ⟨stkS, la, sc, ctx⟩ Generated.ERR_DUPLICATE_SETTING
          (pos (rest.length + 1))
      | some members' => ∃ la2 sc2 ctx2 vv2 v1 kids' m, Reaches E ⟨stkS, la, sc, ctx⟩
          ⟨(5, vv2) :: (1, v1) :: stkS, la2, sc2, ctx2⟩ ∧ InpJ E pos la2 sc2 rest ∧
          View ctx2 K pp { pn with kids := kids' ++ [m] } none (some (pp ++ [kids'.length])) ∧
          stripPos m = { name := some nm } ∧ stripPosList kids' = members' ∧
          Inv true o ctx2 := by
    intro nm rest hit
    subst hit
    obtain ⟨t, v, ks, hin, hlen, hkr, hvr, hvalid, hcont⟩ := hI.popL
    have hvs : v.sval = nm := hvr
    have hvalid := hvalid nm rfl
    -- NAME
    have hsh : ∃ sc1 ctx1, Reaches E ⟨stkS, la, sc, ctx⟩ ⟨(1, v) :: stkS, none, sc1, ctx1⟩ ∧
        InpQ E pos none sc1 ks ∧ Same true ctx ctx1 := by
      rcases hshape with rfl | ⟨v1', rfl⟩
      · exact pshiftQ hE (v0 := v0) (rest := stk0) (ctx := ctx) (by omega) hM.notFinal0
          (show translateTok P t = 10 from hkr) hM.name0 (by decide) hin
      · exact pshiftQ hE (v0 := v1') (rest := (q0, v0) :: stk0) (ctx := ctx) (by dp) hM.notFinal1
          (show translateTok P t = 10 from hkr) hM.name1 (by decide) hin
    obtain ⟨sc1, ctx1, hR1, hI1, hS1⟩ := hsh
    obtain ⟨t', v', ks', hin', hk23, _, hrest⟩ := (hcont _ _ hI1).peek
    have hV1 := hV.of_same hS1.sem
    have hinv1 := hinv.of_same hS1
    -- `$@1`
    have hes := enter_strip o pn.kids nm
    rw [hmem] at hes
    cases he : enter o pn.kids nm with
    | none =>
      rw [he] at hes
      rw [hes]
      simp only [Option.map_none]
      refine AbortsAt.of_reaches hR1 ?_
      rw [← hlen, ← hI1.here]
      refine preduce_abort_here hE (stk := (1, v) :: stkS) rfl (by dp) (by decide) (red_1 _ hk23)
        rule_11 ninf_1 hin' (fun ctx₁ l f hs => ?_)
      have hinv₁ := hinv1.of_same hs
      have := act_settingName_gen ((hV1.of_same hs.sem)) hgty hvalid v hvs l f o hinv₁.ov
      rw [he] at this
      exact ⟨_, this, yyerror_text (ctx := { ctx₁ with setting := none }) (hinv₁.err rfl) _ _,
        yyerror_line (ctx := { ctx₁ with setting := none }) (hinv₁.err rfl) _ _⟩
    | some kids' =>
      rw [he] at hes
      rw [hes]
      simp only [Option.map_some]
      obtain ⟨la2, sc2, ctx2, vv2, hR2, hI2, ⟨m, hV2, hm⟩, hinv2⟩ := preduceIQ hE (ctx := ctx1)
        (Post := fun c2 => ∃ m, View c2 K pp { pn with kids := kids' ++ [m] } none
          (some (pp ++ [kids'.length])) ∧ stripPos m = { name := some nm })
        (pushed := []) (p := 1) (vp := v) (rest := stkS)
        rfl rfl (by dp) (by decide) (red_1 _ hk23) rule_11 rfl go_1_M1 hin' hinv1
        (fun ctx₁ l f hs => by
          have hinv₁ := hinv1.of_same hs
          have := act_settingName_gen ((hV1.of_same hs.sem)) hgty hvalid v hvs l f o hinv₁.ov
          rw [he] at this
          obtain ⟨c2, h1, h2⟩ := this
          exact ⟨c2, h1, _, h2, rfl⟩)
      exact ⟨la2, sc2, ctx2, vv2, v, kids', m, hR1.trans hR2, hrest _ _ hI2, hV2, hm, rfl, hinv2⟩
  cases settingsView items with
  | setting nm rest' =>
    have hnm := named nm _ rfl
    cases he : enter o members nm with
    | none =>
      rw [settingsAt_setting_dup he]
      rw [he] at hnm
      show AbortsAt E _ ErrKind.duplicateName.text _
      rw [text_dup, reportAt_dup]
      exact hnm
    | some members' =>
      rw [he] at hnm
      obtain ⟨la2, sc2, ctx2, vv2, v1, kids', m, hR2, hI2, hV2, hm, hk', hinv2⟩ := hnm
      have hnest2 : nestingFrom d rest' ≤ 1665 := by
        rw [nesting_flat rfl, nesting_flat rfl] at hnest; exact hnest
      -- `=`
      obtain ⟨t3, v3, ks3, hin3, hkr3, _, _, hcont3⟩ := hI2.pop
      obtain ⟨sc3, ctx3, hR3, hI3, hS3⟩ := pshiftQ hE (v0 := vv2) (rest := (1, v1) :: stkS)
        (ctx := ctx2) (by dp) (by decide) (show translateTok P t3 = 11 from hkr3) sh_5_equals
        (by decide) hin3
      -- the value
      have hval := ihv (some nm) rest' 8 21 ((5, vv2) :: (1, v1) :: stkS) [] v3 none sc3 ctx3 K pp
        { pn with kids := kids' ++ [m] } (some (pp ++ [kids'.length])) kids' d (.member _)
        (by simp only [List.length_cons] at hf; omega) (by dp) (hcont3 _ _ hI3)
        (fun c hc => by cases hc) (hV2.of_same hS3.sem)
        (Slot.member m nm hgty rfl hm rfl rfl) (by rw [show _ = pn.ty from rfl, hgty]; decide)
        (hinv2.of_same hS3) hnest2
      cases hv : valueAt o fuel (some nm) rest' with
      | error k w =>
        rw [settingsAt_setting_err he hv]
        rw [hv] at hval
        exact AbortsAt.of_reaches (hR2.trans hR3) hval
      | ok x rest1 =>
        rw [settingsAt_setting_ok he hv]
        rw [hv] at hval
        obtain ⟨b, hR4, la4, sc4, ctx4, vv4, rfl, hI4, ⟨n', st4, hV4, hn'⟩, hinv4, hnest4⟩ := hval
        -- the terminator, `setting`, `setting_list`
        obtain ⟨la5, sc5, ctx5, vv5, hR5, hI5, hS5⟩ := sim_setting_end hE hM hshape
          (v21 := vv4) (v8 := v3) (v5 := vv2) (v1 := v1) (ctx := ctx4) (by omega) hI4
        refine SimQ.of_reaches (((hR2.trans hR3).trans hR4).trans hR5) ?_
        exact ihs (members' ++ [x]) (skipTerminator rest1) q0 q1 hM v0 stk0
          ((q1, vv5) :: (q0, v0) :: stk0) la5 sc5 ctx5 K pp
          { pn with kids := kids' ++ [n'] } st4 { r with kids := members' ++ [x] } d
          (.inr ⟨_, rfl⟩)
          (by
            have h1 := value_length (valueAt_ok hv)
            have h2 := skipTerminator_length rest1
            simp only [List.length_cons] at hf; omega)
          hd hI5 (hV4.of_same hS5.sem)
          (by rw [stripPos_kids' hpn, stripPosList_snoc, hk', hn'])
          hrty rfl (hinv4.of_same hS5)
          (by rw [nesting_skipTerminator]; exact hnest4)
  | noAssign nm rest' hne =>
    have hnm := named nm _ rfl
    cases he : enter o members nm with
    | none =>
      rw [settingsAt_setting_dup he]
      rw [he] at hnm
      show AbortsAt E _ ErrKind.duplicateName.text _
      rw [text_dup, reportAt_dup]
      exact hnm
    | some members' =>
      rw [settingsAt_noAssign_syn hne he]
      rw [he] at hnm
      obtain ⟨la2, sc2, ctx2, vv2, v1, kids', m, hR2, hI2, hV2, hm, hk', hinv2⟩ := hnm
      show AbortsAt E _ ErrKind.syntax.text _
      rw [text_syntax, reportAt_syntax]
      obtain ⟨t3, v3, ks3, hin3, hlen3, hk23, hn3, _⟩ := hI2.peekL
      refine AbortsAt.of_reaches hR2 ?_
      rw [← hlen3]
      exact perrorQ hE (stk := (5, vv2) :: (1, v1) :: stkS) rfl (by dp) (by decide)
        (err_5 _ hk23 (ne_of_hk hn3 rfl (hk_ne_11 hne))) nn_5 hin3 hinv2.err
  | other _ hne =>
    rw [settingsAt_other _ _ _ _ hne]
    refine ⟨_, Reaches.refl _ _, stkS, la, sc, ctx, pn, st, rfl, hshape, hI, hV, ?_, hinv, hnest, hne⟩
    rw [hpn, ← hrm]; cases r; rfl

/-! ### the induction on the fuel -/

theorem sim_all (hE : Compiled E) (fuel : Nat) :
    ValueSim E pos o fuel ∧ ListRestSim E pos o fuel ∧ SettingsSim E pos o fuel := by
  induction fuel with
  | zero =>
    refine ⟨?_, ?_, ?_⟩
    · intro nm items q qv stk ex vq la sc ctx K pp pn st pre d _ hf
      exact absurd hf (Nat.not_lt_zero _)
    · intro acc items q qv _ v36 v26 v17 vq stk la sc ctx K pp pn pre a st r d hf
      exact absurd hf (Nat.not_lt_zero _)
    · intro members items q0 q1 _ v0 stk0 stkS la sc ctx K pp pn st r d _ hf
      exact absurd hf (Nat.not_lt_zero _)
  | succ fuel ih =>
    obtain ⟨ihv, ihl, ihs⟩ := ih
    exact ⟨value_step hE fuel ihv ihl ihs, listRest_step hE fuel ihv ihl,
      settings_step hE fuel ihv ihs⟩

end

end Libconfig.C09L
