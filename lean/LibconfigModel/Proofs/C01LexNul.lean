import LibconfigModel.Proofs.C01LexTree
/-
  C01L — the bytes of a good item sequence contain no NUL, so `config_read_string` (which sees
  the C string up to the first NUL, `cstr`) sees all of the written text.
-/
namespace Libconfig.C01L

theorem digits_nz {ds : Bytes} (h : AllDigits ds) : ∀ b ∈ ds, b ≠ 0 := by
  intro b hb
  have := h b hb
  simp only [isDigit, Bool.and_eq_true, decide_eq_true_eq] at this
  omega

theorem hex_nz {ds : Bytes} (h : AllHex ds) : ∀ b ∈ ds, b ≠ 0 := by
  intro b hb
  have := h b hb
  simp only [isHexDigit, isDigit, Bool.or_eq_true, Bool.and_eq_true, decide_eq_true_eq] at this
  omega

theorem sign_nz (neg : Bool) : ∀ b ∈ signBytes neg, b ≠ 0 := by
  cases neg <;> simp [signBytes]

theorem append_nz {x y : Bytes} (hx : ∀ b ∈ x, b ≠ 0) (hy : ∀ b ∈ y, b ≠ 0) : ∀ b ∈ x ++ y, b ≠ 0 := by
  intro b hb
  rcases List.mem_append.mp hb with h | h
  · exact hx b h
  · exact hy b h

theorem digitChar_nz (d : Nat) : digitChar d ≠ 0 := by
  unfold digitChar; split <;> omega

theorem escByte_nz (c : Nat) (hc : c ≠ 0) : ∀ b ∈ C01P.escByte c, b ≠ 0 := by
  unfold C01P.escByte
  repeat' split
  all_goals
    intro b hb
    simp only [List.mem_cons, List.not_mem_nil, or_false] at hb
  · rcases hb with rfl | rfl <;> omega
  · rcases hb with rfl | rfl <;> omega
  · rcases hb with rfl | rfl <;> omega
  · rcases hb with rfl | rfl <;> omega
  · rcases hb with rfl | rfl <;> omega
  · subst hb; exact hc
  · rcases hb with rfl | rfl | rfl | rfl
    · omega
    · omega
    · exact digitChar_nz _
    · exact digitChar_nz _

theorem escapeString_nz : ∀ (x : Bytes), (∀ b ∈ x, b ≠ 0) → ∀ b ∈ escapeString x, b ≠ 0 := by
  intro x
  induction x with
  | nil => intro _ b hb; simp [escapeString] at hb
  | cons c t ih =>
    intro h
    rw [C01P.escapeString_cons]
    exact append_nz (escByte_nz c (h c (List.mem_cons_self ..)))
      (ih (fun b hb => h b (List.mem_cons_of_mem _ hb)))

theorem fracP_nz {fp : Bytes} (h : FracP fp) : ∀ b ∈ fp, b ≠ 0 := by
  rcases h with rfl | ⟨ds, rfl, hds⟩
  · simp
  · intro b hb
    rcases List.mem_cons.mp hb with rfl | hb
    · omega
    · exact digits_nz hds b hb

theorem expP_nz {ex : Bytes} (h : ExpP ex) : ∀ b ∈ ex, b ≠ 0 := by
  rcases h with rfl | ⟨s, ds, rfl, hs, _, hds⟩
  · simp
  · intro b hb
    rcases List.mem_cons.mp hb with rfl | hb
    · omega
    · rcases List.mem_cons.mp hb with rfl | hb
      · omega
      · exact digits_nz hds b hb

/-- no good item contains a NUL byte -/
theorem good_nz (t : WTok) (hg : GoodTok t) : ∀ b ∈ t.bytes, b ≠ 0 := by
  cases t with
  | ws b =>
    simp only [GoodTok] at hg
    rcases hg with rfl | ⟨_, hb⟩
    · simp [WTok.bytes]
    · intro x hx
      have := hb x hx
      simp only [isBlank, Bool.or_eq_true, beq_iff_eq] at this
      omega
  | name nm =>
    simp only [GoodTok] at hg
    cases nm with
    | nil => simp [validName] at hg
    | cons c cs =>
      have h1 := hg.1
      simp only [validName, Bool.and_eq_true, List.all_eq_true] at h1
      intro x hx
      simp only [WTok.bytes] at hx
      rcases List.mem_cons.mp hx with rfl | hx
      · have := h1.1
        simp only [isAlpha, isUpper, isLower, Bool.or_eq_true, Bool.and_eq_true, decide_eq_true_eq,
          beq_iff_eq] at this
        omega
      · have := h1.2 x hx
        simp only [isAlpha, isUpper, isLower, isDigit, Bool.or_eq_true, Bool.and_eq_true,
          decide_eq_true_eq, beq_iff_eq] at this
        omega
  | assign c =>
    simp only [GoodTok] at hg
    rcases hg with rfl | rfl <;> simp [WTok.bytes]
  | semi => simp [WTok.bytes]
  | comma => simp [WTok.bytes]
  | punct c =>
    simp only [GoodTok] at hg
    rcases hg with rfl | rfl | rfl | rfl | rfl | rfl <;> simp [WTok.bytes]
  | bool v =>
    cases v
    · simp only [WTok.bytes, Bool.false_eq_true, if_false, C01P.bytes_false]; decide
    · simp only [WTok.bytes, if_true, C01P.bytes_true]; decide
  | int bits v hex =>
    obtain ⟨neg, ds, hds, _, hdig⟩ := intToDec_shape v
    simp only [WTok.bytes]
    refine append_nz ?_ (by split <;> simp)
    cases hex
    · simp only [Bool.false_eq_true, if_false, hds]
      exact append_nz (sign_nz neg) (digits_nz hdig)
    · simp only [if_true]
      exact append_nz (by simp) (hex_nz (C01P.natToHex_digits _))
  | float b text =>
    simp only [GoodTok] at hg
    obtain ⟨neg, ip, fp, ex, rfl, _, hip, hfp, hex, _⟩ := hg.1
    exact append_nz (append_nz (append_nz (sign_nz neg) (digits_nz hip)) (fracP_nz hfp)) (expP_nz hex)
  | str x =>
    simp only [GoodTok] at hg
    simp only [WTok.bytes]
    exact append_nz (append_nz (by simp) (escapeString_nz x (fun b hb => by have := (hg b hb).1; omega)))
      (by simp)
  | unknown => exact absurd hg (by simp [GoodTok])

theorem goodSeq_nz : ∀ (ts : List WTok), GoodSeq ts → ∀ b ∈ bytesOf ts, b ≠ 0 := by
  intro ts
  induction ts with
  | nil => intro _ b hb; simp [bytesOf] at hb
  | cons t ts ih =>
    intro hg
    rw [bytesOf_cons]
    exact append_nz (good_nz t hg.1) (ih hg.2.2)

/-- the written text of a configuration satisfying `LexOK` has no NUL byte: as a C string it is
the whole text -/
theorem write_cstr (bufLen : Nat) (c : Config)
    (hok : nodeOK bufLen c c.root = true) : cstr (c.write bufLen) = c.write bufLen := by
  rw [C19.C19_bytes]
  exact cstr_nz _ (goodSeq_nz _ (config_good bufLen c hok))

end Libconfig.C01L
