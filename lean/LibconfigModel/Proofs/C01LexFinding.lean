import LibconfigModel.Proofs.C01LexYy
/-
  C01L — the recorded finding made precise: every valid setting name that spells `true` or
  `false` (in any mixture of cases) is read by the scanner as a boolean literal, not as a name.
-/
namespace Libconfig.C01L
open Flex

theorem kwWord_length (t : Bool) : (kwWord t).length = kwLen t := by cases t <;> rfl

/-- inside the keyword, reading exactly the rest of the keyword -/
theorem run_kw_match (t : Bool) : ∀ (cs : Bytes) (i : Nat), i ≤ kwLen t →
    cs.map lower = (kwWord t).drop i →
    arun (.kw t i) cs = .kw t (kwLen t) ∧ alive (.kw t i) cs = true := by
  intro cs
  induction cs with
  | nil =>
    intro i hi h
    have := congrArg List.length h
    simp only [List.map_nil, List.length_nil, List.length_drop, kwWord_length] at this
    have : i = kwLen t := by omega
    subst this
    exact ⟨rfl, rfl⟩
  | cons c cs ih =>
    intro i hi h
    have hlen := congrArg List.length h
    simp only [List.map_cons, List.length_cons, List.length_map, List.length_drop, kwWord_length] at hlen
    have hlt : i < kwLen t := by omega
    rw [kwWord_drop t i hlt] at h
    simp only [List.map_cons, List.cons.injEq] at h
    have hk : kwNext t i c = true := by
      simp only [kwNext, Bool.and_eq_true, decide_eq_true_eq, beq_iff_eq]
      exact ⟨hlt, h.1⟩
    have := ih (i + 1) (by omega) h.2
    simp only [arun, alive, astep, hk, if_true, A.live, Bool.true_and]
    exact this

/-- the rule that reads a name spelling the keyword: 34 `{true}` / 35 `{false}` -/
def boolRule (t : Bool) : Nat := if t then 34 else 35

/-- a valid name whose lower-case spelling is `true` / `false` is a lexeme of the boolean rule -/
theorem lex_boolword (t : Bool) (nm : Bytes) (hv : validName nm = true) (hw : nm.map lower = kwWord t) :
    Lexeme nm (boolRule t) nameFollow := by
  cases nm with
  | nil => simp [validName] at hv
  | cons c cs =>
    simp only [validName, Bool.and_eq_true, List.all_eq_true] at hv
    have hcs : ∀ x ∈ cs, nameRest x = true := fun x hx => hv.2 x hx
    have h0 : kwWord t = kwByte t 0 :: (kwWord t).drop 1 := kwWord_drop t 0 (by cases t <;> decide)
    rw [h0] at hw
    simp only [List.map_cons, List.cons.injEq] at hw
    have hstart : ∀ bol, astep (.start bol) c = .kw t 1 := by
      intro bol
      rw [astep_start_name bol c hv.1, hw.1]
      cases t <;> rfl
    have hrun := run_kw_match t cs 1 (by cases t <;> decide) hw.2
    have hfin : ∀ bol, arun (.start bol) (c :: cs) = .kw t (kwLen t) := by
      intro bol; simp only [arun, hstart bol, hrun.1]
    refine ⟨?_, fun bol => ?_, fun bol => ?_, fun bol x _ hx => ?_⟩
    · intro x hx
      rcases List.mem_cons.mp hx with rfl | hx
      · have := hv.1
        simp only [Bool.or_eq_true, beq_iff_eq] at this
        rcases this with h | h
        · have := isAlpha_lt h; omega
        · omega
      · have := nameRest_lt (hcs x hx); omega
    · simp only [alive, hstart bol, A.live, Bool.true_and, hrun.2]
    · rw [hfin bol]; cases t <;> rfl
    · rw [hfin bol]
      have hx' : nameRest x = false := by simpa [nameFollow] using hx
      have hk : kwNext t (kwLen t) x = false := by simp [kwNext]
      simp only [astep, hk, hx', Bool.false_eq_true, if_false]

theorem isBoolWord_cases {nm : Bytes} (h : isBoolWord nm = true) : ∃ t, nm.map lower = kwWord t := by
  simp only [isBoolWord, Bool.or_eq_true, beq_iff_eq] at h
  rcases h with h | h
  · exact ⟨true, h⟩
  · exact ⟨false, h⟩

/-- **the finding.**  The writer prints a member whose (valid) name spells `true` / `false`
verbatim; the scanner then returns TOK_BOOLEAN (value 1 / 0) where the item denotes TOK_NAME. -/
theorem yylex_boolword {K : Ctx} (w : World) (ic : IncludeCfg) (nm rest : Bytes) (hv : validName nm = true)
    (hb : isBoolWord nm = true) (hf : FollowOK delim rest) (s : ScanState) (hs : Ready K s (nm ++ rest)) :
    ∃ s' v, Ready K s' rest ∧
      ∀ f, yylex T acts w ic (f + 1) s = (s', .tok Generated.tokens.boolean { ival := v }) := by
  obtain ⟨t, ht⟩ := isBoolWord_cases hb
  have hl := (lex_boolword t nm hv ht).weaken delim_nameFollow
  cases t
  · refine ⟨adv s 35 nm.length, 0, hs.adv 35, fun f => ?_⟩
    exact yylex_tokBool w ic f s 35 nm.length Generated.tokens.boolean 0 (hs.next hl (by decide) hf) rfl
  · refine ⟨adv s 34 nm.length, 1, hs.adv 34, fun f => ?_⟩
    exact yylex_tokBool w ic f s 34 nm.length Generated.tokens.boolean 1 (hs.next hl (by decide) hf) rfl

end Libconfig.C01L
