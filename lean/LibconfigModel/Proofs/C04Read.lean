import LibconfigModel.Proofs.C04ReadAct
import LibconfigModel.Proofs.C02
import LibconfigModel.Read
/-
  C04 (reads): the parser loop keeps the configuration well-formed.

  The loop invariant has three parts:
  * `PathS`: the state stack is a path of certificate edges from state 0 (as in C02, without
    the derivation trees);
  * if some stack entry is accessed by `$@1` then `ctx->setting` is not the root (such an entry
    is pushed exactly by reducing `$@1`, whose action points `setting` at a fresh child; no
    action ever points it back at the root);
  * `TInv` (C04ReadInv) for the tree and the two cursors.
  The static check `safeOK` (C04ReadStatic) says that a stack without a `$@1` entry has a state
  on top in which no action that writes through `setting` can be reduced; so those actions only
  run when `setting` is not the root, which is all `runAction_inv` asks for.
-/
namespace Libconfig.C04R
open Libconfig Grammar C04 C05P C02P

/-! ### the stack is a path of the certificate graph -/

inductive PathS (P : LalrTables) (ed : List (Nat × Nat)) : List (Nat × TokVal) → Prop where
  | base (v : TokVal) : PathS P ed [(0, v)]
  | push (p q : Nat) (v v' : TokVal) (rest : List (Nat × TokVal)) :
      PathS P ed ((p, v) :: rest) → (p, q) ∈ ed → PathS P ed ((q, v') :: (p, v) :: rest)

theorem PathS.top_lt {P : LalrTables} {ed : List (Nat × Nat)} (F : Facts P ed)
    {s : Nat} {v : TokVal} {rest : List (Nat × TokVal)}
    (h : PathS P ed ((s, v) :: rest)) : s < P.nstates := by
  cases h with
  | base => exact F.zero_lt
  | push p _ v0 _ rest0 h0 he => exact (F.ed_ok _ _ he).2.2

/-- popping a handle -/
theorem popS {P : LalrTables} {ed : List (Nat × Nat)} {k : Nat → Bool} :
    ∀ (βr : List Nat) (s : Nat) (v : TokVal) (rest : List (Nat × TokVal)),
      PathS P ed ((s, v) :: rest) → spellsRev P ed k βr s = true →
      ∃ p v' rest', ((s, v) :: rest).drop βr.length = (p, v') :: rest' ∧
        PathS P ed ((p, v') :: rest') ∧ k p = true := by
  intro βr
  induction βr with
  | nil =>
    intro s v rest hp hs
    exact ⟨s, v, rest, rfl, hp, hs⟩
  | cons X βr ih =>
    intro s v rest hp hs
    rw [spellsRev] at hs
    simp only [Bool.and_eq_true] at hs
    obtain ⟨⟨_, hs0⟩, hall⟩ := hs
    have hs0 : s ≠ 0 := not_beq hs0
    cases hp with
    | base => exact absurd rfl hs0
    | push p _ v0 _ rest0 h0 he =>
      have hsp := all_pred hall he
      obtain ⟨p', v', rest', hd, hpath, hk⟩ := ih p v0 rest0 h0 hsp
      exact ⟨p', v', rest', by simpa using hd, hpath, hk⟩

/-! ### the facts established by the second static check -/

structure SFacts (P : LalrTables) (acts : List ParseAct) (ed : List (Nat × Nat)) (sf : List Nat) :
    Prop where
  zero : memB sf 0 = true
  stos0 : stosN P 0 ≠ M1
  closed : ∀ p q, (p, q) ∈ ed → memB sf p = true → stosN P q ≠ M1 → memB sf q = true
  quiet : ∀ s, memB sf s = true → quietIn P acts s = true
  m1 : ∀ r, r < rules.length → (rules.getD r (0, [])).1 = M1 →
    isSettingName (acts.getD r .unknown) = true

theorem memB_mem {l : List Nat} {x : Nat} (h : memB l x = true) : x ∈ l := by
  unfold memB at h
  rw [List.any_eq_true] at h
  obtain ⟨y, hy, hxy⟩ := h
  rw [← Nat.eq_of_beq_eq_true hxy]
  exact hy

theorem sfacts_of_safe {P : LalrTables} {acts : List ParseAct} {ed : List (Nat × Nat)}
    {sf : List Nat} (h : safeOK P acts ed sf = true) : SFacts P acts ed sf := by
  unfold safeOK at h
  simp only [Bool.and_eq_true] at h
  obtain ⟨⟨⟨⟨h1, h2⟩, h3⟩, h4⟩, h5⟩ := h
  refine ⟨h1, not_beq h2, ?_, ?_, ?_⟩
  · intro p q hpq hp hq
    rw [List.all_eq_true] at h3
    have := h3 _ hpq
    simp only [Bool.or_eq_true] at this
    rcases this with (h6 | h6) | h6
    · rw [hp] at h6; cases h6
    · exact absurd (Nat.eq_of_beq_eq_true h6) hq
    · exact h6
  · intro s hs
    rw [List.all_eq_true] at h4
    exact h4 s (memB_mem hs)
  · intro r hr hl
    have := allBelow_spec h5 r hr
    simp only [Bool.or_eq_true] at this
    rcases this with h6 | h6
    · rw [hl, Nat.beq_refl] at h6; cases h6
    · exact h6

/-- some entry of the stack is accessed by `$@1` -/
def HasM1 (P : LalrTables) (stack : List (Nat × TokVal)) : Prop :=
  ∃ e ∈ stack, stosN P e.1 = M1

/-- without a `$@1` entry the top of the stack is a `safe` state -/
theorem safe_top {P : LalrTables} {acts : List ParseAct} {ed : List (Nat × Nat)} {sf : List Nat}
    (S : SFacts P acts ed sf) {stack : List (Nat × TokVal)} (hp : PathS P ed stack)
    (hm : ¬ HasM1 P stack) : memB sf (stack.headD (0, {})).1 = true := by
  induction hp with
  | base v => exact S.zero
  | push p q v v' rest h0 he ih =>
    have h1 : ¬ HasM1 P ((p, v) :: rest) := by
      rintro ⟨e, hmem, hs⟩
      exact hm ⟨e, List.mem_cons_of_mem _ hmem, hs⟩
    have h2 : stosN P q ≠ M1 := fun hs => hm ⟨(q, v'), List.mem_cons_self, hs⟩
    exact S.closed p q he (ih h1) h2

/-! ### the loop -/

/-- what the rest of the loop guarantees -/
def Good (E : ParserEnv) (ed : List (Nat × Nat)) (rec : PRec) : Prop :=
  ∀ stack la s ctx, PathS E.P ed stack → (HasM1 E.P stack → ctx.setting ≠ some []) →
    TInv ctx.cfg ctx.parent ctx.setting → (rec stack la s ctx).2.1.cfg.WF

theorem reduceK_good {E : ParserEnv} {ed : List (Nat × Nat)} {sf : List Nat} {rec : PRec}
    (S : SFacts E.P E.acts ed sf) (hrec : Good E ed rec)
    (state : Nat) (v : TokVal) (rest : List (Nat × TokVal)) (rule : Nat)
    (la : Lookahead) (s : ScanState) (ctx : ParseCtx)
    (hp : PathS E.P ed ((state, v) :: rest))
    (hm : HasM1 E.P ((state, v) :: rest) → ctx.setting ≠ some [])
    (ht : TInv ctx.cfg ctx.parent ctx.setting)
    (hr : ruleOK E.P ed state rule = true)
    (hq : memB sf state = true → usesSetting (E.acts.getD rule .unknown) = false) :
    (reduceK E rec ((state, v) :: rest) rule la s ctx).2.1.cfg.WF := by
  unfold ruleOK at hr
  simp only [Bool.and_eq_true] at hr
  obtain ⟨⟨⟨⟨_, hr2⟩, hlen⟩, hlhs⟩, hsp⟩ := hr
  have hr2 : rule < rules.length := blt_lt hr2
  have hlen : (E.P.r2.get rule).toNat = (rules.getD rule (0, [])).2.length := Nat.eq_of_beq_eq_true hlen
  have hlhs : (E.P.r1.get rule).toNat = (rules.getD rule (0, [])).1 := Nat.eq_of_beq_eq_true hlhs
  obtain ⟨p, v', rest', hd, hpath, hk⟩ := popS _ _ _ _ hp hsp
  rw [List.length_reverse, ← hlen] at hd
  unfold gotoOK at hk
  simp only [Bool.and_eq_true] at hk
  obtain ⟨⟨hedge, hstos⟩, _⟩ := hk
  have hstos : stosN E.P (gotoTo E.P p (rules.getD rule (0, [])).1) = (rules.getD rule (0, [])).1 :=
    Nat.eq_of_beq_eq_true hstos
  have hs : ctx.setting = some [] → usesSetting (E.acts.getD rule .unknown) = false := by
    intro h0
    exact hq (safe_top S hp (fun hM => hm hM h0))
  have ha := runAction_inv (E.acts.getD rule .unknown) ctx (((state, v) :: rest).headD (0, {})).2
    s.buf.lineno s.currentFilename ht hs
  unfold reduceK
  simp only
  split
  · rename_i heq; rw [heq] at ha; exact ha
  · rename_i heq; rw [heq] at ha; exact ha
  · rename_i ctx' heq
    rw [heq] at ha
    obtain ⟨h1, h2, h3⟩ := ha
    rw [hd]
    show (rec ((gotoTo E.P p (E.P.r1.get rule).toNat, _) :: (p, v') :: rest') la s ctx').2.1.cfg.WF
    rw [hlhs]
    refine hrec _ _ _ _ (PathS.push _ _ _ _ _ hpath (edgeB_mem hedge)) ?_ h1
    rintro ⟨e, hmem, hst⟩
    rcases List.mem_cons.mp hmem with rfl | hmem
    · apply h3
      apply S.m1 rule hr2
      rw [← hstos]
      exact hst
    · apply h2
      apply hm
      refine ⟨e, ?_, hst⟩
      rw [← hd] at hmem
      exact List.mem_of_mem_drop hmem

theorem dfltK_good {E : ParserEnv} {ed : List (Nat × Nat)} {sf : List Nat} {rec : PRec}
    (F : Facts E.P ed) (S : SFacts E.P E.acts ed sf) (hrec : Good E ed rec)
    (state : Nat) (v : TokVal) (rest : List (Nat × TokVal))
    (la : Lookahead) (s : ScanState) (ctx : ParseCtx)
    (hp : PathS E.P ed ((state, v) :: rest))
    (hm : HasM1 E.P ((state, v) :: rest) → ctx.setting ≠ some [])
    (ht : TInv ctx.cfg ctx.parent ctx.setting) (hnf : state ≠ E.P.final) :
    (dfltK E rec ((state, v) :: rest) state la s ctx).2.1.cfg.WF := by
  have hst := F.st state (hp.top_lt F) hnf
  unfold stateOK at hst
  simp only [Bool.and_eq_true, Bool.or_eq_true] at hst
  unfold dfltK
  simp only
  split
  · exact yyerror_wf ht.wf _ _
  · rename_i hne
    rcases hst.1 with h0 | h0
    · rw [Nat.eq_of_beq_eq_true h0] at hne
      exact absurd rfl hne
    · refine reduceK_good S hrec _ _ _ _ _ _ _ hp hm ht h0 ?_
      intro hsafe
      have := S.quiet state hsafe
      unfold quietIn at this
      simp only [Bool.and_eq_true, Bool.not_eq_true'] at this
      exact this.1

theorem actK_good {E : ParserEnv} {ed : List (Nat × Nat)} {sf : List Nat} {rec : PRec}
    (F : Facts E.P ed) (S : SFacts E.P E.acts ed sf) (hrec : Good E ed rec)
    (state : Nat) (v0 : TokVal) (rest : List (Nat × TokVal)) (t : Nat) (v : TokVal)
    (s : ScanState) (ctx : ParseCtx)
    (hp : PathS E.P ed ((state, v0) :: rest))
    (hm : HasM1 E.P ((state, v0) :: rest) → ctx.setting ≠ some [])
    (ht : TInv ctx.cfg ctx.parent ctx.setting) (hnf : state ≠ E.P.final)
    (hpact : ¬ (E.P.pact.get state == E.P.pactNinf) = true) :
    (actK E rec ((state, v0) :: rest) state t v s ctx).2.1.cfg.WF := by
  have hst := F.st state (hp.top_lt F) hnf
  unfold stateOK at hst
  simp only [Bool.and_eq_true] at hst
  have hent := allBelow_spec hst.2 _ (translateTok_lt F t)
  unfold actK
  simp only
  split
  · exact dfltK_good F S hrec _ _ _ _ _ _ hp hm ht hnf
  · rename_i hguard
    have hact : actAt E.P state (translateTok E.P t) =
        some (E.P.table.get (E.P.pact.get state + ↑(translateTok E.P t)).toNat) := by
      unfold actAt
      simp only
      rw [if_neg hpact, if_neg hguard]
    unfold entryOK at hent
    rw [hact] at hent
    simp only at hent
    split
    · rename_i hle
      rw [if_pos hle] at hent
      split
      · exact yyerror_wf ht.wf _ _
      · rename_i hninf
        simp only [Bool.or_eq_true] at hent
        rcases hent with h0 | h0
        · exact absurd h0 hninf
        · refine reduceK_good S hrec _ _ _ _ _ _ _ hp hm ht h0 ?_
          intro hsafe
          have := S.quiet state hsafe
          unfold quietIn at this
          simp only [Bool.and_eq_true] at this
          have := allBelow_spec this.2 _ (translateTok_lt F t)
          rw [hact] at this
          simpa using this
    · rename_i hle
      rw [if_neg hle] at hent
      unfold shiftOK at hent
      simp only [Bool.and_eq_true] at hent
      obtain ⟨⟨hedge, hstos⟩, _⟩ := hent
      have hstos : stosN E.P (E.P.table.get (E.P.pact.get state + ↑(translateTok E.P t)).toNat).toNat =
          translateTok E.P t := Nat.eq_of_beq_eq_true hstos
      refine hrec _ _ _ _ (PathS.push _ _ _ _ _ hp (edgeB_mem hedge)) ?_ ht
      rintro ⟨e, hmem, hst⟩
      rcases List.mem_cons.mp hmem with rfl | hmem
      · have h1 := translateTok_lt F t
        rw [F.ntok] at h1
        rw [hstos] at hst
        rw [hst] at h1
        exact absurd h1 (by decide)
      · exact hm ⟨e, hmem, hst⟩

theorem bodyK_good {E : ParserEnv} {ed : List (Nat × Nat)} {sf : List Nat} {rec : PRec}
    (F : Facts E.P ed) (S : SFacts E.P E.acts ed sf) (hrec : Good E ed rec) :
    Good E ed (bodyK E rec) := by
  intro stack la s ctx hp hm ht
  cases stack with
  | nil => cases hp
  | cons top rest =>
    obtain ⟨state, v0⟩ := top
    rw [bodyK_cons]
    split
    · exact yyerror_wf ht.wf _ _
    split
    · exact ht.wf
    rename_i hfin
    have hnf : state ≠ E.P.final := by simpa using hfin
    split
    · exact dfltK_good F S hrec _ _ _ _ _ _ hp hm ht hnf
    rename_i hpact
    cases la with
    | some l =>
      obtain ⟨t, v⟩ := l
      rw [fetchK_some]
      exact actK_good F S hrec _ _ _ _ _ _ _ hp hm ht hnf hpact
    | none =>
      unfold fetchK
      simp only
      rcases hy : yylex E.T E.sacts E.w E.ic E.lexFuel s with ⟨s1, o⟩
      cases o with
      | tok t v => exact actK_good F S hrec _ _ _ _ _ _ _ hp hm ht hnf hpact
      | eof => exact actK_good F S hrec _ _ _ _ _ _ _ hp hm ht hnf hpact
      | includeError t text file line =>
        exact actK_good F S hrec _ _ _ _ _ _ _ hp hm (ht.congr_root rfl) hnf hpact
      | echo b => exact ht.wf
      | outOfFuel => exact ht.wf

theorem loop_good {E : ParserEnv} {ed : List (Nat × Nat)} {sf : List Nat}
    (F : Facts E.P ed) (S : SFacts E.P E.acts ed sf) : ∀ fuel, Good E ed (yyparseLoop E fuel) := by
  intro fuel
  induction fuel with
  | zero => intro stack la s ctx _ _ ht; exact ht.wf
  | succ fuel ih =>
    have e : yyparseLoop E (fuel + 1) = bodyK E (yyparseLoop E fuel) := by
      funext stack la s ctx; exact yyparseLoop_succ E fuel stack la s ctx
    rw [e]
    exact bodyK_good F S ih

/-- `yyparse` from the initial context leaves a well-formed configuration, for any environment
whose tables pass the two static checks -/
theorem yyparse_wf {E : ParserEnv} {ed : List (Nat × Nat)} {sf : List Nat}
    (hok : staticOK E.P ed = true) (hsafe : safeOK E.P E.acts ed sf = true)
    (fuel : Nat) (s₀ : ScanState) (c₀ : Config) (h : c₀.WF) :
    (yyparse E fuel s₀ { cfg := c₀ }).2.1.cfg.WF := by
  have F := facts_of_static hok
  have S := sfacts_of_safe hsafe
  refine loop_good F S fuel [(0, {})] none s₀ { cfg := c₀ } (PathS.base _) ?_ ?_
  · rintro ⟨e, hmem, hst⟩
    simp only [List.mem_singleton] at hmem
    subst hmem
    exact absurd hst S.stos0
  · refine ⟨h, ?_, ?_, ?_⟩
    · intro pp hpp
      cases hpp
      exact ⟨_, get?_nil _⟩
    · intro sp hsp hne
      cases hsp
      exact absurd rfl hne
    · intro sp pp hsp _ hne
      cases hsp
      exact absurd rfl hne

/-! ### `__config_read` -/

theorem finish_wf (c' : Config) (b : Bool) (f : Option Bytes) (ty : Nat) (fs : List Bytes)
    (h : c'.WF) :
    Config.WF { (if b = true then { c' with errFile := f, errType := ty } else c') with filenames := fs } := by
  cases b
  · exact ⟨h.1, h.2, h.3⟩
  · exact ⟨h.1, h.2, h.3⟩

theorem readCore_wf (w : World) (c : Config) (filename : Option Bytes) (inp : Bytes) (fuel : Nat) :
    (readCore w c filename inp fuel).cfg.WF := by
  let c1 : Config := { (c.setError ERR_NONE none).clear.1 with
    root := { (c.setError ERR_NONE none).clear.1.root with file := filename } }
  let s0 : ScanState :=
    { buf := { rest := inp }, topFile := filename,
      filenames := match filename with | some f => [f] | none => [] }
  have hc1 : c1.WF := ⟨rfl, rfl, WF.leaf (n := c1.root) (show (1 : Nat) ≤ 8 by decide) rfl⟩
  have h1 : (yyparse (theEnv w c1 fuel) fuel s0 { cfg := c1 }).2.1.cfg.WF :=
    yyparse_wf (E := theEnv w c1 fuel) edges_ok safe_ok fuel s0 c1 hc1
  exact finish_wf _ _ _ _ _ h1

theorem read_wf (w : World) (c : Config) (src : Source) (fuel : Nat) (h : c.WF) :
    (read w c src fuel).cfg.WF := by
  unfold read
  split
  · exact readCore_wf _ _ _ _ _
  · exact readCore_wf _ _ _ _ _
  · split
    · exact ⟨h.1, h.2, h.3⟩
    · exact readCore_wf _ _ _ _ _

end Libconfig.C04R
