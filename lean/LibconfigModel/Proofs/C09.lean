import LibconfigModel.Step
import LibconfigModel.Proofs.C16
/-
  Helper lemmas for property C09 (error information describes the most recent
  read or write).
-/
namespace Libconfig.C09P

open Libconfig Libconfig.C16P

/-! ### `readCore` as a function of the prepared configuration -/

/-- the configuration `readCore` starts the parse from: error record reset, tree and
file-name vector cleared -/
def prep (c : Config) : Config := ((c.setError ERR_NONE none).clear).1

/-- the configuration handed to the parser -/
def start (c : Config) (filename : Option Bytes) : Config :=
  { prep c with root := { (prep c).root with file := filename } }

def scan0 (filename : Option Bytes) (inp : Bytes) : ScanState :=
  { buf := { rest := inp }, topFile := filename,
    filenames := match filename with | some f => [f] | none => [] }

/-- the parse performed by `readCore` -/
def parseOf (w : World) (c0 : Config) (filename : Option Bytes) (inp : Bytes) (fuel : Nat) :
    ScanState × ParseCtx × ParseResult :=
  yyparse (theEnv w c0 fuel) fuel (scan0 filename inp) { cfg := c0 }

/-- the configuration `readCore` leaves, from the outcome of the parse -/
def finish (p : ScanState × ParseCtx × ParseResult) : Config :=
  let c := p.2.1.cfg
  let c := if p.2.2 != .accept then { c with errFile := p.1.currentFilename, errType := ERR_PARSE } else c
  { c with filenames := p.1.filenames }

theorem readCore_cfg (w : World) (c : Config) (filename : Option Bytes) (inp : Bytes) (fuel : Nat) :
    (readCore w c filename inp fuel).cfg = finish (parseOf w (start c filename) filename inp fuel) := rfl

theorem readCore_result (w : World) (c : Config) (filename : Option Bytes) (inp : Bytes) (fuel : Nat) :
    (readCore w c filename inp fuel).result = (parseOf w (start c filename) filename inp fuel).2.2 := rfl

theorem readCore_ok (w : World) (c : Config) (filename : Option Bytes) (inp : Bytes) (fuel : Nat) :
    (readCore w c filename inp fuel).ok =
      ((parseOf w (start c filename) filename inp fuel).2.2 == .accept) := rfl

theorem prep_congr {c₁ c₂ : Config}
    (h : (c₁.options, c₁.includeDir, c₁.tabWidth, c₁.floatPrecision, c₁.defaultFormat, c₁.hook,
            c₁.destructor, c₁.includeFn) =
         (c₂.options, c₂.includeDir, c₂.tabWidth, c₂.floatPrecision, c₂.defaultFormat, c₂.hook,
            c₂.destructor, c₂.includeFn)) : prep c₁ = prep c₂ := by
  cases c₁; cases c₂
  simp only [Prod.mk.injEq] at h
  simp only [prep, Config.setError, Config.clear, Config.mk.injEq]
  simp [h]

/-! ### the parser never touches `errType` -/

def RTy (c c' : ParseCtx) : Prop := c'.cfg.errType = c.cfg.errType

theorem rty_yyerror (c : ParseCtx) (line : Nat) (text : Bytes) : RTy c (c.yyerror line text) := by
  unfold ParseCtx.yyerror RTy
  split <;> rfl

theorem rty_actAggStart (c : ParseCtx) (ty line : Nat) (file : Option Bytes) :
    RTy c (actCtx (actAggStart c ty line file)) := by
  unfold actAggStart RTy
  repeat' split
  all_goals rfl

theorem rty_actValue (c : ParseCtx) (setter : Node → Option Node) (ty : Nat)
    (fmt : Option Nat) (line : Nat) (file : Option Bytes) (err : Bytes) :
    RTy c (actCtx (actValue c setter ty fmt line file err)) := by
  unfold actValue
  extract_lets setFmt
  clear_value setFmt
  repeat' split
  all_goals first | rfl | exact rty_yyerror _ _ _

theorem rty_runAction (act : ParseAct) (c : ParseCtx) (v : TokVal) (line : Nat)
    (file : Option Bytes) : RTy c (actCtx (runAction act c v line file)) := by
  cases act <;> simp only [runAction]
  all_goals first
    | rfl
    | exact rty_actAggStart _ _ _ _
    | exact rty_actValue _ _ _ _ _ _ _
    | skip
  case aggEnd => repeat' split
                 all_goals rfl
  case settingName =>
    repeat' split
    all_goals first | rfl | exact rty_yyerror _ _ _

theorem loopRel_RTy : LoopRel RTy where
  refl := fun _ => rfl
  trans := fun h1 h2 => Eq.trans h2 h1
  yyerror := rty_yyerror
  act := rty_runAction
  incl := fun _ _ _ _ => rfl


theorem parseOf_errType (w : World) (c0 : Config) (filename : Option Bytes) (inp : Bytes) (fuel : Nat) :
    (parseOf w c0 filename inp fuel).2.1.cfg.errType = c0.errType :=
  yyparseLoop_rel loopRel_RTy _ fuel _ _ _ { cfg := c0 }

theorem start_errType (c : Config) (filename : Option Bytes) : (start c filename).errType = ERR_NONE := rfl

/-! ### every `abort` / `exhausted` exit of the parser leaves a message -/

theorem yyerror_isSome (c : ParseCtx) (line : Nat) (text : Bytes) :
    (c.yyerror line text).cfg.errText.isSome = true := by
  unfold ParseCtx.yyerror
  split
  · assumption
  · rfl

theorem actValue_abort (c : ParseCtx) (setter : Node → Option Node) (ty : Nat)
    (fmt : Option Nat) (line : Nat) (file : Option Bytes) (err : Bytes) (c' : ParseCtx)
    (h : actValue c setter ty fmt line file err = .abort c') : c'.cfg.errText.isSome = true := by
  unfold actValue at h
  extract_lets setFmt at h
  clear_value setFmt
  repeat' split at h
  all_goals first | (cases h; exact yyerror_isSome _ _ _) | cases h

theorem actAggStart_abort (c : ParseCtx) (ty line : Nat) (file : Option Bytes) (c' : ParseCtx)
    (h : actAggStart c ty line file = .abort c') : False := by
  unfold actAggStart at h
  repeat' split at h
  all_goals cases h

theorem runAction_abort (act : ParseAct) (c : ParseCtx) (v : TokVal) (line : Nat)
    (file : Option Bytes) (c' : ParseCtx) (h : runAction act c v line file = .abort c') :
    c'.cfg.errText.isSome = true := by
  cases act <;> simp only [runAction] at h
  all_goals first
    | cases h
    | exact (actAggStart_abort _ _ _ _ _ h).elim
    | exact actValue_abort _ _ _ _ _ _ _ _ h
    | skip
  case aggEnd =>
    repeat' split at h
    all_goals cases h
  case settingName =>
    repeat' split at h
    all_goals first | (cases h; exact yyerror_isSome _ _ _) | cases h

def Fails (r : ParseResult) : Prop := r = .abort ∨ r = .exhausted

theorem yyparseLoop_text (E : ParserEnv) :
    ∀ (fuel : Nat) (stack : List (Nat × TokVal)) (la : Lookahead) (s : ScanState) (ctx : ParseCtx),
      Fails (yyparseLoop E fuel stack la s ctx).2.2 →
      (yyparseLoop E fuel stack la s ctx).2.1.cfg.errText.isSome = true := by
  intro fuel
  induction fuel with
  | zero => intro stack la s ctx; rw [yyparseLoop]; intro h; rcases h with h | h <;> cases h
  | succ fuel ih =>
    intro stack la s ctx
    rw [yyparseLoop.eq_def]
    split
    · rename_i h; cases h
    rename_i stack la s ctx _ _ _ _ _ fuel' hf
    cases hf
    extract_lets P v reduce syntaxError src fetched
    have hsyn : ∀ s c, Fails (syntaxError s c).2.2 → (syntaxError s c).2.1.cfg.errText.isSome = true :=
      fun s c _ => yyerror_isSome _ _ _
    have hred : ∀ rule la s c, Fails (reduce rule la s c).2.2 →
        (reduce rule la s c).2.1.cfg.errText.isSome = true := by
      intro rule la s c
      simp only [reduce]
      split
      · rename_i c' heq; intro _; exact runAction_abort _ _ _ _ _ _ heq
      · intro h; rcases h with h | h <;> cases h
      · exact ih _ _ _ _
    have hfetch : ∀ r, fetched.2.2.1 = some r → ¬ Fails r := by
      intro r
      simp only [fetched]
      split
      · intro h; cases h
      · split
        · intro h; cases h
        · intro h; cases h
        · intro h; cases h
        · intro h; cases h; intro h; rcases h with h | h <;> cases h
        · intro h; cases h; intro h; rcases h with h | h <;> cases h
    clear_value fetched syntaxError reduce
    split
    · intro h; rcases h with h | h <;> cases h
    rename_i state v0 tail
    split
    · intro _; exact yyerror_isSome _ _ _
    split
    · intro h; rcases h with h | h <;> cases h
    extract_lets r dflt yyn
    have hdflt : ∀ la s c, Fails (dflt la s c).2.2 → (dflt la s c).2.1.cfg.errText.isSome = true := by
      intro la s c
      simp only [dflt]
      split
      · exact hsyn _ _
      · exact hred _ _ _ _
    clear_value dflt
    split
    · exact hdflt _ _ _
    rcases fetched with ⟨s1, la1, r1, c1⟩
    simp only at hfetch
    split
    · rename_i heq; cases heq; intro h; exact (hfetch _ rfl h).elim
    · intro h; rcases h with h | h <;> cases h
    · extract_lets tok idx a
      split
      · exact hdflt _ _ _
      split
      · split
        · exact hsyn _ _
        · exact hred _ _ _ _
      · exact ih _ _ _ _

/-! ### scanner invariants carried through the parser loop -/

theorem yyparseLoop_scan (E : ParserEnv) (I : ScanState → Prop)
    (hI : ∀ s, I s → I (yylex E.T E.sacts E.w E.ic E.lexFuel s).1) :
    ∀ (fuel : Nat) (stack : List (Nat × TokVal)) (la : Lookahead) (s : ScanState) (ctx : ParseCtx),
      I s → I (yyparseLoop E fuel stack la s ctx).1 := by
  intro fuel
  induction fuel with
  | zero => intro stack la s ctx h; rw [yyparseLoop]; exact h
  | succ fuel ih =>
    intro stack la s ctx hs
    rw [yyparseLoop.eq_def]
    split
    · rename_i h; cases h
    rename_i stack la s ctx _ _ _ _ _ fuel' hf
    cases hf
    extract_lets P v reduce syntaxError src fetched
    have hsyn : ∀ s c, I s → I (syntaxError s c).1 := fun s c h => h
    have hred : ∀ rule la s c, I s → I (reduce rule la s c).1 := by
      intro rule la s c h
      simp only [reduce]
      split
      · exact h
      · exact h
      · exact ih _ _ _ _ h
    have hfetch : I fetched.1 := by
      simp only [fetched]
      split
      · exact hs
      · have := hI s hs
        split <;> (rename_i heq; rw [heq] at this; exact this)
    clear_value fetched syntaxError reduce
    split
    · exact hs
    rename_i state v0 tail
    split
    · exact hs
    split
    · exact hs
    extract_lets r dflt yyn
    have hdflt : ∀ la s c, I s → I (dflt la s c).1 := by
      intro la s c h
      simp only [dflt]
      split
      · exact hsyn _ _ h
      · exact hred _ _ _ _ h
    clear_value dflt
    split
    · exact hdflt _ _ _ hs
    rcases fetched with ⟨s1, la1, r1, c1⟩
    simp only at hfetch
    split
    · rename_i heq; cases heq; exact hfetch
    · rename_i heq; cases heq; exact hfetch
    · rename_i heq; cases heq
      extract_lets tok idx a
      split
      · exact hdflt _ _ _ hfetch
      split
      · split
        · exact hsyn _ _ hfetch
        · exact hred _ _ _ _ hfetch
      · exact ih _ _ _ _ hfetch

/-- outside any named top-level file, a frame is on the include stack only if some file
name was recorded -/
def NoFile (s : ScanState) : Prop := s.topFile = none ∧ (s.filenames = [] → s.stack = [])

theorem nextIncludeFile_spec (w : World) (s : ScanState) (first : Bool) :
    (nextIncludeFile w s first).1.topFile = s.topFile ∧
    (nextIncludeFile w s first).1.filenames = s.filenames ∧
    ((nextIncludeFile w s first).1.stack = [] → s.stack = []) := by
  unfold nextIncludeFile
  split
  · exact ⟨rfl, rfl, id⟩
  · extract_lets cur ev
    split
    · exact ⟨rfl, rfl, fun h => by cases h⟩
    · split
      · exact ⟨rfl, rfl, fun h => by cases h⟩
      · exact ⟨rfl, rfl, fun h => by cases h⟩

theorem yylex_noFile (T : FlexTables) (acts : List ScanAct) (w : World) (ic : IncludeCfg) :
    ∀ (fuel : Nat) (s : ScanState), NoFile s → NoFile (yylex T acts w ic fuel s).1 := by
  intro fuel
  induction fuel with
  | zero => intro s h; rw [yylex]; exact h
  | succ fuel ih =>
    intro s h
    rw [yylex]
    split
    · split
      · exact h
      · rename_i f fs hst
        have hn := nextIncludeFile_spec w s false
        split
        rename_i s1 content err heq
        rw [heq] at hn; simp only at hn
        have h1 : NoFile s1 := ⟨hn.1.trans h.1, fun hf => by
          have := h.2 (hn.2.1 ▸ hf); rw [hst] at this; cases this⟩
        split
        · exact ih _ h1
        · split
          · exact h1
          · refine ih _ ⟨h1.1, fun hf => ?_⟩
            have := h.2 (hn.2.1 ▸ hf); rw [hst] at this; cases this
    · rename_i rule len hnext
      extract_lets text lineno bol s'
      have hs' : NoFile s' := h
      clear_value s'
      split
      all_goals try exact ih _ hs'
      all_goals try exact hs'
      rename_i path s2 _ errTok _
      have hs2 : NoFile s2 := hs'
      clear_value s2 path
      split
      · exact hs2
      split
      · exact hs2
      · exact ih _ hs2
      · exact ih _ hs2
      · rename_i files hne _
        extract_lets s1
        have hn := nextIncludeFile_spec w s1 true
        split
        rename_i s3 content err heq
        rw [heq] at hn; simp only at hn
        have hfn : s3.filenames ≠ [] := by
          rw [hn.2.1]
          intro hf
          simp only [s1, List.append_eq_nil_iff] at hf
          exact hne hf.2
        have htop : s3.topFile = none := hn.1.trans hs2.1
        split
        · exact ih _ ⟨htop, fun hf => absurd hf hfn⟩
        · exact ⟨htop, fun hf => absurd hf hfn⟩

/-! ### consequences for `readCore` -/

theorem parseOf_text (w : World) (c0 : Config) (filename : Option Bytes) (inp : Bytes) (fuel : Nat)
    (h : Fails (parseOf w c0 filename inp fuel).2.2) :
    (parseOf w c0 filename inp fuel).2.1.cfg.errText.isSome = true :=
  yyparseLoop_text _ fuel _ _ _ _ h

theorem parseOf_noFile (w : World) (c0 : Config) (inp : Bytes) (fuel : Nat) :
    NoFile (parseOf w c0 none inp fuel).1 :=
  yyparseLoop_scan _ NoFile (fun s hs => yylex_noFile _ _ _ _ _ s hs) fuel _ _ _ _ ⟨rfl, fun _ => rfl⟩

theorem finish_errText (p : ScanState × ParseCtx × ParseResult) :
    (finish p).errText = p.2.1.cfg.errText := by
  unfold finish; extract_lets c c'; simp only [c']; split <;> rfl

theorem finish_filenames (p : ScanState × ParseCtx × ParseResult) :
    (finish p).filenames = p.1.filenames := rfl

theorem finish_errType (p : ScanState × ParseCtx × ParseResult) :
    (finish p).errType = if p.2.2 = .accept then p.2.1.cfg.errType else ERR_PARSE := by
  unfold finish; extract_lets c c'; simp only [c']
  by_cases h : p.2.2 = .accept <;> simp [h, c]

theorem finish_errFile (p : ScanState × ParseCtx × ParseResult) (h : p.2.2 ≠ .accept) :
    (finish p).errFile = p.1.currentFilename := by
  unfold finish; extract_lets c c'; simp only [c']
  simp [h]

theorem start_congr {c₁ c₂ : Config} (filename : Option Bytes) (h : prep c₁ = prep c₂) :
    start c₁ filename = start c₂ filename := by
  unfold start; rw [h]

end Libconfig.C09P
