import LibconfigModel.Proofs.C10ProvSim2
/-
  C10P (provenance of the tree), the simulation, part 3 — the accepting half of
  Proofs/C09LineSim3.lean with the tree kept exactly: the rest of a list, the settings of a group
  (`$@1` runs by default reduction right after the NAME token: that is the position a named setting
  records — and keeps, whatever its value), and the induction on the fuel.
-/
namespace Libconfig.C10Prov
open Libconfig C02P C05P C02C C01PP C04 C04R Denote C02D C09L

section
variable {E : ParserEnv} {pos : Nat → ScanState} {o : Options}

/-! ### the rest of a list -/

theorem listRest_stepP (hE : Compiled E) (fuel : Nat) (ihv : ValueSimP E pos o fuel)
    (ihl : ListRestSimP E pos o fuel) : ListRestSimP E pos o (fuel + 1) := by
  intro acc items q qv hC v36 v26 v17 vq stk la sc ctx K pp pn pre a st d hf hd hI hH hV haty
    hacc hinv hnest
  have hd1 : d + 1 ≤ 1665 := Nat.le_trans (le_nestingFrom _ _) hnest
  cases listRestView items with
  | done r' =>
    rw [listRestP_done]
    -- `value_list_optional: value_list`
    obtain ⟨t, v, ks, hin, hk23, hn, hrest⟩ := hI.peek
    obtain ⟨la1, sc1, ctx1, vv1, hR1, hI1, hS1⟩ := preduce0Q hE (ctx := ctx)
      (pushed := [(36, v36)]) (p := 26) (vp := v26) (rest := (17, v17) :: (q, vq) :: stk)
      rfl rfl (by dp) (by decide) (red_36 _ hk23 (ne_of_hk hn rfl (by simp [hk]))) rule_34 rfl
      go_26_vlo hin
    -- `)`
    obtain ⟨la2, sc2, ctx2, vv2, st2, hR2, hI2, hV2, hinv2⟩ := sim_close hE hC.gValue
      (close := .listEnd) (k := 16) (fun _ h => h) sh_37_listEnd (by decide) (by decide)
      (by decide) (by decide) red_43 rule_16 hC.gList red_20 rule_19
      (v3 := vv1) (v2 := v26) (v1 := v17) (vq := vq) (stk := stk)
      (by omega) hH (hV.of_same hS1.sem) (hinv.of_same hS1) (hrest _ _ hI1)
    refine ⟨_, hR1.trans hR2, la2, sc2, ctx2, vv2, rfl, hI2, ⟨st2, ?_⟩, hinv2, ?_⟩
    · rw [← hacc, ← node_kids_eq rfl]
      exact hV2
    · exact Nat.le_trans (nesting_close (.inr (.inl rfl))) hnest
  | comma rest' =>
    have hnest' : nestingFrom (d + 1) rest' ≤ 1665 := by
      rw [nesting_flat rfl] at hnest; exact hnest
    -- the comma
    obtain ⟨t, v, ks, hin, hkr, _, _, hcont⟩ := hI.pop
    obtain ⟨sc1, ctx1, hR1, hI1, hS1⟩ := pshiftQ hE (v0 := v36)
      (rest := (26, v26) :: (17, v17) :: (q, vq) :: stk) (ctx := ctx) (by dp) (by decide)
      (show translateTok P t = 17 from hkr) sh_36_comma (by decide) hin
    have hI1' := hcont _ _ hI1
    have hV1 := hV.of_same hS1.sem
    have hinv1 := hinv.of_same hS1
    -- a comma that is not followed by an element
    have skip : ((∃ r, rest' = .comma :: r) ∨ (∃ r, rest' = .listEnd :: r)) →
        SimP E ⟨(36, v36) :: (26, v26) :: (17, v17) :: (q, vq) :: stk, la, sc, ctx⟩
          (listRestP (stampAt pos) o (fuel + 1) acc (.comma :: rest'))
          (fun elems rest b => AfterValueP E pos o qv q vq stk K pp pn pre d
            { a with kids := elems } rest b) := by
      intro hsk
      rw [listRestP_skip _ _ _ _ _ hsk]
      obtain ⟨t2, v2, ks2, hin2, hk23, hn2, hrest2⟩ := hI1'.peek
      have hvs : valStart (hk rest') = false := by
        rcases hsk with ⟨r2, rfl⟩ | ⟨r2, rfl⟩ <;> rfl
      obtain ⟨la2, sc2, ctx2, vv2, hR2, hI2, hS2⟩ := preduce0Q hE (ctx := ctx1)
        (pushed := [(42, v), (36, v36)]) (p := 26) (vp := v26)
        (rest := (17, v17) :: (q, vq) :: stk)
        rfl rfl (by dp) (by decide) (red_42 _ hk23 (valStart_of_hk hk23 hn2 hvs)) rule_32 rfl
        go_26_vl hin2
      refine SimP.of_reaches (hR1.trans hR2) ?_
      exact ihl acc rest' q qv hC vv2 v26 v17 vq stk la2 sc2 ctx2 K pp pn pre a st d
        (by simp only [List.length_cons] at hf; omega) hd (hrest2 _ _ hI2) hH
        (hV1.of_same hS2.sem) haty hacc (hinv1.of_same hS2) hnest'
    cases listRestView rest' with
    | done r2 => exact skip (.inr ⟨_, rfl⟩)
    | comma r2 => exact skip (.inl ⟨_, rfl⟩)
    | other _ h1 h2 =>
      rw [listRestP_value _ _ _ _ _ h1 h2]
      -- an element
      have hel := ihv none none rest' 42 46
        ((36, v36) :: (26, v26) :: (17, v17) :: (q, vq) :: stk)
        [17, 16] v none sc1 ctx1 _ _ a st a.kids (d + 1) (.later _ _ _)
        (by simp only [List.length_cons] at hf; omega) (by dp) hI1'
        hV1 (SlotP.elem (.inl haty) rfl rfl) (by rw [haty]; decide) hinv1 hnest'
      cases hv : valueP (stampAt pos) o fuel none none rest' with
      | error k => trivial
      | ok x rest1 =>
        rw [hv] at hel
        simp only
        obtain ⟨b, hR2, la2, sc2, ctx2, vv2, rfl, hI2, ⟨st2, hV2⟩, hinv2, hnest2⟩ := hel
        -- `value_list: value_list , value`
        obtain ⟨t3, v3, ks3, hin3, hk23, _, hrest3⟩ := hI2.peek
        obtain ⟨la3, sc3, ctx3, vv3, hR3, hI3, hS3⟩ := preduce0Q hE (ctx := ctx2)
          (pushed := [(46, vv2), (42, v), (36, v36)]) (p := 26) (vp := v26)
          (rest := (17, v17) :: (q, vq) :: stk)
          rfl rfl (by dp) (by decide) (red_46 _ hk23) rule_31 rfl go_26_vl hin3
        refine SimP.of_reaches ((hR1.trans hR2).trans hR3) ?_
        have := ihl (acc ++ [x]) rest1 q qv hC vv3 v26 v17 vq stk la3 sc3 ctx3 K pp pn pre
          { a with kids := a.kids ++ [x] } st2 d
          (by
            have := valueP_length hv
            simp only [List.length_cons] at hf; omega)
          hd (hrest3 _ _ hI3) hH (hV2.of_same hS3.sem) haty (by rw [hacc])
          (hinv2.of_same hS3) hnest2
        exact this
  | other _ h1 h2 =>
    rw [listRestP_other _ _ _ _ _ h1 h2]
    trivial

/-! ### the settings of a group -/

theorem settings_stepP (hE : Compiled E) (fuel : Nat) (ihv : ValueSimP E pos o fuel)
    (ihs : SettingsSimP E pos o fuel) : SettingsSimP E pos o (fuel + 1) := by
  intro members items q0 q1 hM v0 stk0 stkS la sc ctx K pp pn st d hshape hf hd hI hV hgty
    hmem hinv hnest
  have hd0 : d ≤ 1665 := Nat.le_trans (le_nestingFrom _ _) hnest
  have hlen : stkS.length ≤ stk0.length + 2 := by
    rcases hshape with rfl | ⟨v1', rfl⟩ <;> simp
  cases settingsView items with
  | setting nm rest' =>
    rw [settingsP_setting]
    cases he : enter o members nm with
    | none => trivial
    | some members' =>
      simp only
      obtain ⟨t, v, ks, hin, hlenk, hkr, hvr, hvalid, hcont⟩ := hI.popL
      have hvs : v.sval = nm := hvr
      have hvalid := hvalid nm rfl
      -- NAME
      have hsh : ∃ sc1 ctx1, Reaches E ⟨stkS, la, sc, ctx⟩ ⟨(1, v) :: stkS, none, sc1, ctx1⟩ ∧
          InpQ E pos none sc1 ks ∧ Same true ctx ctx1 := by
        rcases hshape with rfl | ⟨v1', rfl⟩
        · exact pshiftQ hE (v0 := v0) (rest := stk0) (ctx := ctx) (by omega) hM.notFinal0
            (show translateTok P t = 10 from hkr) hM.name0 (by decide) hin
        · exact pshiftQ hE (v0 := v1') (rest := (q0, v0) :: stk0) (ctx := ctx) (by dp)
            hM.notFinal1 (show translateTok P t = 10 from hkr) hM.name1 (by decide) hin
      obtain ⟨sc1, ctx1, hR1, hI1, hS1⟩ := hsh
      have hsc1 : sc1 = pos (rest'.length + 2) := by
        rw [hI1.here, hlenk]; rfl
      subst hsc1
      obtain ⟨t', v', ks', hin', hk23, _, hrest⟩ := (hcont _ _ hI1).peek
      have hV1 := hV.of_same hS1.sem
      have hinv1 := hinv.of_same hS1
      -- `$@1`, run right after the NAME
      rw [← hmem] at he
      obtain ⟨la2, sc2, ctx2, vv2, hR2, hI2, hV2, hinv2⟩ := preduceP_here hE (ctx := ctx1)
        (Post := fun c2 => View c2 K pp
          { pn with kids := members' ++
            [stamped { name := some nm } (stampAt pos (rest'.length + 2))] } none
          (some (pp ++ [members'.length])))
        (pushed := []) (p := 1) (vp := v) (rest := stkS)
        rfl rfl (by dp) (by decide) (red_1 _ hk23) rule_11 rfl go_1_M1 ninf_1 hin' hinv1
        (fun ctx₁ hs => by
          have hinv₁ := hinv1.of_same hs
          have := act_settingName_gen ((hV1.of_same hs.sem)) hgty hvalid v hvs
            (pos (rest'.length + 2)).buf.lineno (pos (rest'.length + 2)).currentFilename o hinv₁.ov
          rw [he] at this
          obtain ⟨c2, h1, h2⟩ := this
          exact ⟨c2, h1, h2⟩)
      have hI2' := hrest _ _ hI2
      have hnest2 : nestingFrom d rest' ≤ 1665 := by
        rw [nesting_flat rfl, nesting_flat rfl] at hnest; exact hnest
      -- `=`
      obtain ⟨t3, v3, ks3, hin3, hkr3, _, _, hcont3⟩ := hI2'.pop
      obtain ⟨sc3, ctx3, hR3, hI3, hS3⟩ := pshiftQ hE (v0 := vv2) (rest := (1, v) :: stkS)
        (ctx := ctx2) (by dp) (by decide) (show translateTok P t3 = 11 from hkr3) sh_5_equals
        (by decide) hin3
      -- the value
      have hval := ihv (some nm) (some (rest'.length + 2)) rest' 8 21 ((5, vv2) :: (1, v) :: stkS)
        [] v3 none sc3 ctx3 K pp
        { pn with kids := members' ++
          [stamped { name := some nm } (stampAt pos (rest'.length + 2))] }
        (some (pp ++ [members'.length])) members' d (.member _)
        (by simp only [List.length_cons] at hf; omega) (by dp) (hcont3 _ _ hI3)
        (hV2.of_same hS3.sem)
        (SlotP.member nm _ hgty rfl rfl rfl) (by rw [show _ = pn.ty from rfl, hgty]; decide)
        (hinv2.of_same hS3) hnest2
      cases hv : valueP (stampAt pos) o fuel (some nm) (some (rest'.length + 2)) rest' with
      | error k => trivial
      | ok x rest1 =>
        rw [hv] at hval
        simp only
        obtain ⟨b, hR4, la4, sc4, ctx4, vv4, rfl, hI4, ⟨st4, hV4⟩, hinv4, hnest4⟩ := hval
        -- the terminator, `setting`, `setting_list`
        obtain ⟨la5, sc5, ctx5, vv5, hR5, hI5, hS5⟩ := sim_setting_end hE hM hshape
          (v21 := vv4) (v8 := v3) (v5 := vv2) (v1 := v) (ctx := ctx4) (by omega) hI4
        refine SimP.of_reaches ((((hR1.trans hR2).trans hR3).trans hR4).trans hR5) ?_
        have := ihs (members' ++ [x]) (skipTerminator rest1) q0 q1 hM v0 stk0
          ((q1, vv5) :: (q0, v0) :: stk0) la5 sc5 ctx5 K pp
          { pn with kids := members' ++ [x] } st4 d
          (.inr ⟨_, rfl⟩)
          (by
            have h1 := valueP_length hv
            have h2 := skipTerminator_length rest1
            simp only [List.length_cons] at hf; omega)
          hd hI5 (hV4.of_same hS5.sem) hgty rfl (hinv4.of_same hS5)
          (by rw [nesting_skipTerminator]; exact hnest4)
        exact this
  | noAssign nm rest' hne =>
    rw [settingsP_noAssign _ _ _ _ _ _ hne]
    cases enter o members nm <;> trivial
  | other _ hne =>
    rw [settingsP_other _ _ _ _ _ hne]
    refine ⟨_, Reaches.refl _ _, stkS, la, sc, ctx, st, rfl, hshape, hI, ?_, hinv, hnest, hne⟩
    rw [← hmem, ← node_kids_eq rfl]
    exact hV

/-! ### the induction on the fuel -/

theorem sim_allP (hE : Compiled E) (fuel : Nat) :
    ValueSimP E pos o fuel ∧ ListRestSimP E pos o fuel ∧ SettingsSimP E pos o fuel := by
  induction fuel with
  | zero =>
    refine ⟨?_, ?_, ?_⟩
    · intro nm mk items q qv stk ex vq la sc ctx K pp pn st pre d _ hf
      exact absurd hf (Nat.not_lt_zero _)
    · intro acc items q qv _ v36 v26 v17 vq stk la sc ctx K pp pn pre a st d hf
      exact absurd hf (Nat.not_lt_zero _)
    · intro members items q0 q1 _ v0 stk0 stkS la sc ctx K pp pn st d _ hf
      exact absurd hf (Nat.not_lt_zero _)
  | succ fuel ih =>
    obtain ⟨ihv, ihl, ihs⟩ := ih
    exact ⟨value_stepP hE fuel ihv ihl ihs, listRest_stepP hE fuel ihv ihl,
      settings_stepP hE fuel ihv ihs⟩

end

end Libconfig.C10Prov
