import LibconfigModel.Proofs.F64Exact
/-
  `F64.ofRat` is correctly rounded (round to nearest, ties to even): helper lemmas for
  `F64.ofRat_nearest` (Properties/C08Float.lean).  Core Lean only.
-/
namespace Libconfig.F64R

open Libconfig Libconfig.F64 Libconfig.C08P

/-! ### `divRoundEven` is round-to-nearest-integer, ties to even -/

/-- the two possible outcomes of `divRoundEven`, with the conditions under which they occur -/
theorem dre_cases (n d : Nat) :
    (divRoundEven n d = n / d ∧ 2 * (n % d) ≤ d ∧ (2 * (n % d) = d → (n / d) % 2 = 0)) ∨
    (divRoundEven n d = n / d + 1 ∧ d ≤ 2 * (n % d) ∧ (2 * (n % d) = d → (n / d) % 2 = 1)) := by
  unfold divRoundEven
  simp only []
  split
  · right; omega
  · split
    · next h1 h2 =>
      have h2' : 2 * (n % d) = d := by simpa using h2
      split
      · next h3 =>
        have : n / d % 2 = 1 := by simpa using h3
        right; omega
      · next h3 =>
        have : ¬ (n / d % 2 = 1) := by simpa using h3
        left; omega
    · next h1 h2 =>
      have h2' : ¬ 2 * (n % d) = d := by simpa using h2
      left; omega

/-- position of `j·d` relative to `q·d` -/
theorem mul_grid (j q d : Nat) :
    (j + 1 ≤ q → j * d + d ≤ q * d) ∧ (j = q → j * d = q * d) ∧ (j = q + 1 → j * d = q * d + d) ∧
    (q + 2 ≤ j → q * d + 2 * d ≤ j * d) := by
  refine ⟨fun h => ?_, fun h => by rw [h], fun h => by rw [h, Nat.succ_mul], fun h => ?_⟩
  · have := Nat.mul_le_mul_right d h
    rwa [Nat.succ_mul] at this
  · have := Nat.mul_le_mul_right d h
    rw [Nat.add_mul] at this
    omega

/-- nearest integer: no multiple of `d` is closer to `n` than `divRoundEven n d · d` -/
theorem dre_nearest (n d : Nat) (hd : 0 < d) (j : Nat) :
    Int.natAbs ((n : Int) - (divRoundEven n d * d : Nat)) ≤ Int.natAbs ((n : Int) - (j * d : Nat)) := by
  have hn := Nat.div_add_mod n d
  have hr := Nat.mod_lt n hd
  rw [Nat.mul_comm] at hn
  obtain ⟨g1, g2, g3, g4⟩ := mul_grid j (n / d) d
  have hs : (n / d + 1) * d = n / d * d + d := Nat.succ_mul _ _
  rcases dre_cases n d with ⟨h1, h2, -⟩ | ⟨h1, h2, -⟩ <;> rw [h1] <;>
    generalize n / d * d = qd at * <;> generalize j * d = jd at * <;> omega

/-- ties: if another multiple of `d` is equally close, the chosen quotient is even -/
theorem dre_tie (n d : Nat) (hd : 0 < d) (j : Nat) (hj : j ≠ divRoundEven n d)
    (h : Int.natAbs ((n : Int) - (divRoundEven n d * d : Nat)) = Int.natAbs ((n : Int) - (j * d : Nat))) :
    divRoundEven n d % 2 = 0 := by
  have hn := Nat.div_add_mod n d
  have hr := Nat.mod_lt n hd
  rw [Nat.mul_comm] at hn
  obtain ⟨g1, g2, g3, g4⟩ := mul_grid j (n / d) d
  have hs : (n / d + 1) * d = n / d * d + d := Nat.succ_mul _ _
  rcases dre_cases n d with ⟨h1, h2, h3⟩ | ⟨h1, h2, h3⟩ <;> rw [h1] at h hj ⊢ <;>
    generalize n / d * d = qd at * <;> generalize j * d = jd at * <;> omega

/-- when the quotient lies below `c + 1`: rounding reaches `c + 1` iff `n/d ≥ c + 1/2` or more,
    with the tie going up exactly when `c` is odd -/
theorem dre_reach (n d c : Nat) (hd : 0 < d) (hlt : n < (c + 1) * d) (hodd : c % 2 = 1) :
    divRoundEven n d = c + 1 ↔ (2 * c + 1) * d ≤ 2 * n := by
  have hn := Nat.div_add_mod n d
  have hr := Nat.mod_lt n hd
  rw [Nat.mul_comm] at hn
  obtain ⟨g1, g2, -, -⟩ := mul_grid c (n / d) d
  obtain ⟨g3, -, -, -⟩ := mul_grid (n / d) c d
  have e1 : (c + 1) * d = c * d + d := Nat.succ_mul _ _
  have e2 : (2 * c + 1) * d = 2 * (c * d) + d := by rw [Nat.succ_mul, Nat.mul_assoc]
  rw [e1] at hlt
  rw [e2]
  rcases dre_cases n d with ⟨h1, h2, h3⟩ | ⟨h1, h2, h3⟩ <;> rw [h1] <;>
    generalize n / d * d = qd at * <;> generalize c * d = cd at * <;> omega

/-! ### the chosen shift normalises the quotient into `[2^52, 2^53)` unless clamped -/

theorem notQ_s0 (num den : Nat) (hn : 0 < num) : ¬ Q num den (s0Of num den) 52 := by
  unfold Q
  have h1 := pow_pred_bitLen_le num hn
  have h2 := lt_pow_bitLen den
  have hb := bitLen_pos num hn
  have hrel : 2 ^ 52 * (2 ^ bitLen den * dn (s0Of num den)) =
      2 ^ (bitLen num - 1) * up (s0Of num den) := by
    unfold up dn s0Of
    simp only [← Nat.pow_add]
    congr 1
    omega
  have a1 : 2 ^ 52 * (den * dn (s0Of num den)) ≤ 2 ^ 52 * (2 ^ bitLen den * dn (s0Of num den)) :=
    Nat.mul_le_mul_left _ (Nat.mul_le_mul_right _ (Nat.le_of_lt h2))
  have a2 : 2 ^ (bitLen num - 1) * up (s0Of num den) ≤ num * up (s0Of num den) :=
    Nat.mul_le_mul_right _ h1
  omega

theorem notQ_s1 (num den : Nat) (hn : 0 < num) (hd : 0 < den) : ¬ Q num den (s1Of num den) 52 := by
  have h0 := notQ_s0 num den hn
  unfold s1Of
  simp only []
  split
  · next h53 =>
    intro hq
    have h1 : Q num den (s0Of num den - 1 + ((1 : Nat) : Int)) (52 + 1) := (Q_shift num den _ 1 52).mpr hq
    rw [show s0Of num den - 1 + ((1 : Nat) : Int) = s0Of num den by omega] at h1
    have := (Q_iff_div num den hd _ 53).mpr h1
    omega
  · split
    · next h52 => exact absurd ((Q_iff_div num den hd _ 52).mp h52) h0
    · exact h0

/-- the facts about the shift chosen by `ofRat` that the rounding proof needs -/
theorem chooseS_spec (num den : Nat) (hn : 0 < num) (hd : 0 < den) :
    chooseS num den ≤ 1074 ∧ Q num den (chooseS num den) 53 ∧
      (chooseS num den < 1074 → ¬ Q num den (chooseS num den) 52) := by
  refine ⟨?_, Q_chooseS num den hd, ?_⟩
  · unfold chooseS; split <;> omega
  · have := notQ_s1 num den hn hd
    unfold chooseS
    split
    · omega
    · intro _; exact this

/-! ### the magnitudes of doubles -/

/-- the magnitude of a finite double scaled by 2^1074 (`F64.scaledMag` of Properties/C08Float.lean) -/
def sMag (b : Nat) : Nat := mant b * 2 ^ (expo b + 1074).toNat

theorem mant_lt (b : Nat) : mant b < 2 ^ 53 := by
  have hf : fracField b < 2 ^ 52 := Nat.mod_lt _ (by decide)
  unfold mant; split <;> simp only [Nat.reducePow] at hf ⊢ <;> omega

/-- relative to the grid of spacing `2^k`: a double's magnitude `M·2^k'` (`M < 2^53`) is on the
    grid, or it lies below the bottom `2^52·2^k` of the binade (and then `k ≥ 1`) -/
theorem grid_or_below (S M k' k : Nat) (hS : S = M * 2 ^ k') (hM : M < 2 ^ 53) :
    (∃ j, S = j * 2 ^ k) ∨ (1 ≤ k ∧ S < 2 ^ 52 * 2 ^ k) := by
  by_cases hkk : k ≤ k'
  · left
    refine ⟨M * 2 ^ (k' - k), ?_⟩
    rw [hS, Nat.mul_assoc, ← Nat.pow_add, Nat.sub_add_cancel hkk]
  · right
    refine ⟨by omega, ?_⟩
    have h1 : M * 2 ^ k' < 2 ^ 53 * 2 ^ k' := Nat.mul_lt_mul_of_pos_right hM (Nat.pow_pos (by decide))
    have h2 : 2 ^ 53 * 2 ^ k' = 2 ^ 52 * 2 ^ (k' + 1) := by
      rw [← Nat.pow_add, ← Nat.pow_add]; congr 1; omega
    have h3 : 2 ^ 52 * 2 ^ (k' + 1) ≤ 2 ^ 52 * 2 ^ k :=
      Nat.mul_le_mul_left _ (Nat.pow_le_pow_right (by decide) (by omega))
    omega

theorem sMag_grid (b k : Nat) : (∃ j, sMag b = j * 2 ^ k) ∨ (1 ≤ k ∧ sMag b < 2 ^ 52 * 2 ^ k) :=
  grid_or_below (sMag b) (mant b) _ k rfl (mant_lt b)

/-! ### the last step of `ofRat` -/

theorem mkBits_inf (neg : Bool) :
    signBit (mkBits neg 2047 0) = neg ∧ isFinite (mkBits neg 2047 0) = false ∧
      isInf (mkBits neg 2047 0) = true := by
  cases neg <;> decide

/-- the readings of an assembled finite bit pattern -/
theorem mkBits_finite (neg : Bool) (e f : Nat) (he : e < 2047) (hf : f < 4503599627370496) :
    signBit (mkBits neg e f) = neg ∧ isFinite (mkBits neg e f) = true ∧
      isInf (mkBits neg e f) = false ∧
      mant (mkBits neg e f) = (if e = 0 then f else f + 4503599627370496) ∧
      (expo (mkBits neg e f) + 1074).toNat = e - 1 := by
  obtain ⟨hE, hF, -, hS⟩ := mkBits_fields neg e f (by omega) hf
  refine ⟨hS, ?_, ?_, ?_, ?_⟩
  · unfold isFinite; rw [hE]; simp; omega
  · unfold isInf; rw [hE]; simp; omega
  · unfold mant; rw [hE, hF]; simp
  · unfold expo; rw [hE]
    by_cases h0 : e = 0
    · simp [h0]
    · simp [h0]; omega

/-- a finite result: sign, magnitude and mantissa -/
theorem finish_finite (neg : Bool) (m : Nat) (s : Int) (k : Nat) (hs : s = 1074 - (k : Int))
    (hm : m ≤ 2 ^ 53) (hden : m < 2 ^ 52 → k = 0)
    (hfin : (m < 2 ^ 53 ∧ k ≤ 2045) ∨ k ≤ 2044) :
    signBit (finish neg m s) = neg ∧ isFinite (finish neg m s) = true ∧
      isInf (finish neg m s) = false ∧ sMag (finish neg m s) = m * 2 ^ k ∧
      (mant (finish neg m s) = m ∨ mant (finish neg m s) = 2 ^ 52) := by
  simp only [Nat.reducePow] at hm hden hfin
  by_cases h52 : m < 4503599627370496
  · -- denormal
    have hk := hden h52
    have hfn : finish neg m s = mkBits neg 0 m := by
      unfold finish
      simp only [Nat.reducePow, show ¬ m ≥ 9007199254740992 by omega, h52, if_false, if_true]
    obtain ⟨a1, a2, a3, a4, a5⟩ := mkBits_finite neg 0 m (by omega) h52
    rw [hfn]
    refine ⟨a1, a2, a3, ?_, .inl (by rw [a4]; simp)⟩
    unfold sMag; rw [a4, a5, hk]; simp
  · by_cases h53 : m < 9007199254740992
    · -- normal
      have hfn := finish_normal neg m s (by omega) h53 (by omega)
      have he : (-s + 1075).toNat = k + 1 := by omega
      obtain ⟨a1, a2, a3, a4, a5⟩ := mkBits_finite neg (k + 1) (m - 4503599627370496) (by omega) (by omega)
      rw [hfn, he]
      refine ⟨a1, a2, a3, ?_, .inl (by rw [a4]; simp; omega)⟩
      unfold sMag; rw [a4, a5]; simp
      rw [Nat.sub_add_cancel (by omega)]
    · -- carry
      have hm' : m = 9007199254740992 := by omega
      have hfn : finish neg m s = mkBits neg (k + 2) 0 := by
        unfold finish
        subst hm'
        simp only [Nat.reducePow, show (9007199254740992:Nat) ≥ 9007199254740992 by omega, if_true,
          show (9007199254740992:Nat) / 2 = 4503599627370496 by rfl,
          show ¬ ((4503599627370496:Nat) < 4503599627370496) by omega, if_false,
          show ¬ (-(s - 1) + 1075 ≥ 2047) by omega]
        congr 1
        omega
      obtain ⟨a1, a2, a3, a4, a5⟩ := mkBits_finite neg (k + 2) 0 (by omega) (by omega)
      rw [hfn]
      refine ⟨a1, a2, a3, ?_, .inr (by rw [a4]; simp)⟩
      unfold sMag; rw [a4, a5, hm']; simp
      rw [Nat.pow_succ]
      omega

/-- an overflowing result -/
theorem finish_inf (neg : Bool) (m : Nat) (s : Int) (k : Nat) (hs : s = 1074 - (k : Int))
    (hm1 : 2 ^ 52 ≤ m) (hm : m ≤ 2 ^ 53) (hinf : 2046 ≤ k ∨ (m = 2 ^ 53 ∧ k = 2045)) :
    finish neg m s = mkBits neg 2047 0 := by
  simp only [Nat.reducePow] at hm hm1 hinf
  unfold finish
  by_cases h53 : m ≥ 9007199254740992
  · have hm' : m = 9007199254740992 := by omega
    subst hm'
    simp only [Nat.reducePow, h53, if_true,
      show (9007199254740992:Nat) / 2 = 4503599627370496 by rfl,
      show ¬ ((4503599627370496:Nat) < 4503599627370496) by omega, if_false,
      show (-(s - 1) + 1075 ≥ 2047) by omega]
  · simp only [Nat.reducePow, h53, if_false, show ¬ m < 4503599627370496 by omega,
      show (-s + 1075 ≥ 2047) by omega, if_true]

/-! ### distances -/

/-- `|a − b|` on naturals -/
def dist (a b : Nat) : Nat := Int.natAbs ((a : Int) - (b : Int))

theorem err_eq_dist (num den S : Nat) :
    Int.natAbs ((num * 2 ^ 1074 : Int) - (S * den : Int)) = dist (num * 2 ^ 1074) (S * den) := by
  unfold dist
  simp only [Int.natCast_mul, Int.natCast_pow, Int.cast_ofNat_Int]

theorem dist_mul_right (a b c : Nat) : dist a b * c = dist (a * c) (b * c) := by
  unfold dist
  rw [Int.natCast_mul, Int.natCast_mul, ← Int.sub_mul, Int.natAbs_mul, Int.natAbs_natCast]

/-- on the grid of spacing `K` (and against everything below the binade when the quotient is
    normalised), `divRoundEven n d · K` is nearest to `n·K/d`, and a tie implies an even quotient -/
theorem nearest_core (n d K S : Nat) (hd : 0 < d) (hK : 0 < K)
    (hS : (∃ j, S = j * K) ∨ (4503599627370496 * d ≤ n ∧ S < 4503599627370496 * K)) :
    dist (n * K) (divRoundEven n d * K * d) ≤ dist (n * K) (S * d) ∧
    (dist (n * K) (divRoundEven n d * K * d) = dist (n * K) (S * d) →
      S ≠ divRoundEven n d * K → divRoundEven n d % 2 = 0) := by
  have key : ∀ j, dist (n * K) (j * K * d) = dist n (j * d) * K := by
    intro j; rw [dist_mul_right, Nat.mul_right_comm]
  have hnear : ∀ j, dist n (divRoundEven n d * d) ≤ dist n (j * d) := fun j => dre_nearest n d hd j
  rcases hS with ⟨j, rfl⟩ | ⟨h1, h2⟩
  · rw [key, key]
    refine ⟨Nat.mul_le_mul_right K (hnear j), fun h hne => ?_⟩
    have h' : dist n (divRoundEven n d * d) = dist n (j * d) := Nat.eq_of_mul_eq_mul_right hK h
    exact dre_tie n d hd j (fun e => hne (by rw [e])) h'
  · have hA := Nat.mul_le_mul_right K (hnear 4503599627370496)
    rw [← key, ← key] at hA
    have hB : S * d < 4503599627370496 * K * d := Nat.mul_lt_mul_of_pos_right h2 hd
    have hC : 4503599627370496 * K * d ≤ n * K := by
      rw [Nat.mul_right_comm]; exact Nat.mul_le_mul_right K h1
    unfold dist at *
    generalize 4503599627370496 * K * d = cKd at *
    generalize divRoundEven n d * K * d = mKd at *
    generalize n * K = nK at *
    generalize S * d = Sd at *
    omega

/-- rescaling the error from the `2^1074` scale to the scale of the chosen shift -/
theorem err_scale (num den S P D U K : Nat) (h : P * D = U * K) :
    dist (num * P) (S * den) * D = dist (num * U * K) (S * (den * D)) := by
  rw [dist_mul_right, Nat.mul_assoc num P D, h, ← Nat.mul_assoc num U K, Nat.mul_assoc S den D]

/-! ### overflow -/

/-- with the quotient `n/d` below `2^53` (and at least `2^52` when `k ≥ 1`): `n/d·2^k` reaches the
    overflow threshold `(2^54 − 1)·W`, `W = 2^2044`, iff the rounded result overflows -/
theorem overflow_aux (n d k W : Nat) (hW : 0 < W) (hd : 0 < d) (hlt : n < 9007199254740992 * d)
    (hge : 1 ≤ k → 4503599627370496 * d ≤ n)
    (p1 : k ≤ 2044 → 2 ^ k ≤ W) (p2 : k = 2045 → 2 ^ k = W * 2) (p3 : 2046 ≤ k → W * 4 ≤ 2 ^ k) :
    18014398509481983 * W * d ≤ n * 2 ^ k ↔
      (2046 ≤ k ∨ (divRoundEven n d = 9007199254740992 ∧ k = 2045)) := by
  have e0 : 18014398509481983 * W * d = 18014398509481983 * (d * W) := by
    rw [Nat.mul_assoc, Nat.mul_comm W d]
  rw [e0]
  by_cases h1 : k ≤ 2044
  · have a1 : n * 2 ^ k < 9007199254740992 * d * 2 ^ k :=
      Nat.mul_lt_mul_of_pos_right hlt (Nat.pow_pos (by decide))
    have a2 : d * 2 ^ k ≤ d * W := Nat.mul_le_mul_left d (p1 h1)
    rw [Nat.mul_assoc] at a1
    generalize d * W = A at *
    generalize d * 2 ^ k = B at *
    generalize n * 2 ^ k = C at *
    omega
  · by_cases h2 : k = 2045
    · have hr := dre_reach n d 9007199254740991 hd hlt (by decide)
      have e1 : n * 2 ^ k = 2 * n * W := by
        rw [p2 h2, Nat.mul_comm 2 n, Nat.mul_assoc, Nat.mul_comm 2 W]
      have e2 : 18014398509481983 * (d * W) = 18014398509481983 * d * W := by
        rw [Nat.mul_assoc]
      rw [e1, e2, Nat.mul_le_mul_right_iff hW]
      simp only [show 2 * 9007199254740991 + 1 = 18014398509481983 from rfl,
        show 9007199254740991 + 1 = 9007199254740992 from rfl] at hr
      rw [hr]
      omega
    · have hk : 2046 ≤ k := by omega
      have a1 : 4503599627370496 * d * 2 ^ k ≤ n * 2 ^ k := Nat.mul_le_mul_right _ (hge (by omega))
      have a3 : d * (W * 4) ≤ d * 2 ^ k := Nat.mul_le_mul_left d (p3 hk)
      rw [← Nat.mul_assoc] at a3
      rw [Nat.mul_assoc] at a1
      generalize d * W = A at *
      generalize d * 2 ^ k = B at *
      generalize n * 2 ^ k = C at *
      omega

theorem pow_facts (w k : Nat) :
    (k ≤ w → 2 ^ k ≤ 2 ^ w) ∧ (k = w + 1 → 2 ^ k = 2 ^ w * 2) ∧ (w + 2 ≤ k → 2 ^ w * 4 ≤ 2 ^ k) := by
  refine ⟨fun h => Nat.pow_le_pow_right (by decide) h, fun h => by rw [h, Nat.pow_succ], fun h => ?_⟩
  have : 2 ^ (w + 2) ≤ 2 ^ k := Nat.pow_le_pow_right (by decide) h
  rwa [Nat.pow_add] at this

theorem overflow_iff (n d k : Nat) (hd : 0 < d) (hlt : n < 9007199254740992 * d)
    (hge : 1 ≤ k → 4503599627370496 * d ≤ n) :
    18014398509481983 * 2 ^ 2044 * d ≤ n * 2 ^ k ↔
      (2046 ≤ k ∨ (divRoundEven n d = 9007199254740992 ∧ k = 2045)) := by
  have h0 : 0 < 2 ^ 2044 := Nat.two_pow_pos 2044
  have h1 := (pow_facts 2044 k).1
  have h2 := (pow_facts 2044 k).2.1
  have h3 := (pow_facts 2044 k).2.2
  generalize 2 ^ 2044 = W at *
  exact overflow_aux n d k W h0 hd hlt hge h1 h2 h3

/-! ### `ofRat` is round-to-nearest-even -/

/-- `F64.err` of Properties/C08Float.lean -/
def errR (num den b : Nat) : Nat := Int.natAbs ((num * 2 ^ 1074 : Int) - (sMag b * den : Int))

/-- `F64.overflowThreshold` of Properties/C08Float.lean -/
def thr : Nat := (2 ^ 54 - 1) * 2 ^ (1074 + 970)

theorem thr_eq : thr = 18014398509481983 * 2 ^ 2044 := by
  unfold thr
  rw [show (2 : Nat) ^ 54 - 1 = 18014398509481983 from rfl, show 1074 + 970 = 2044 from rfl]

theorem ofRat_nearest_R (neg : Bool) (num den : Nat) (hn : num > 0) (hd : den > 0) :
    signBit (ofRat neg num den) = neg ∧ isNaN (ofRat neg num den) = false ∧
    (isFinite (ofRat neg num den) = true →
      ∀ b', errR num den (ofRat neg num den) ≤ errR num den b' ∧
        (errR num den (ofRat neg num den) = errR num den b' →
          sMag b' ≠ sMag (ofRat neg num den) → mant (ofRat neg num den) % 2 = 0)) ∧
    (isInf (ofRat neg num den) = true ↔ num * 2 ^ 1074 ≥ thr * den) := by
  have hnan := (ofRat_ok neg num den hd).1
  obtain ⟨hs1074, hQ53, hQ52⟩ := chooseS_spec num den hn hd
  have hb : ofRat neg num den =
      finish neg (divRoundEven (num * up (chooseS num den)) (den * dn (chooseS num den)))
        (chooseS num den) := by
    rw [ofRat_eq, if_neg (by omega), scale_eq]
  unfold Q at hQ53 hQ52
  simp only [Nat.reducePow] at hQ53 hQ52
  generalize chooseS num den = s at *
  obtain ⟨k, hk⟩ : ∃ k : Nat, s = 1074 - (k : Int) := ⟨(1074 - s).toNat, by omega⟩
  have hrel : 2 ^ 1074 * dn s = up s * 2 ^ k := by
    unfold up dn; simp only [← Nat.pow_add]; congr 1; omega
  have hDpos := dn_pos s
  have hdpos : 0 < den * dn s := Nat.mul_pos hd hDpos
  generalize dn s = D at *
  generalize up s = U at *
  have e1 : num * 2 ^ 1074 * D = num * U * 2 ^ k := by
    rw [Nat.mul_assoc, hrel, ← Nat.mul_assoc]
  have e2 : thr * den * D = thr * (den * D) := Nat.mul_assoc _ _ _
  have hE : ∀ b, errR num den b * D = dist (num * U * 2 ^ k) (sMag b * (den * D)) := by
    intro b
    unfold errR
    rw [err_eq_dist]
    generalize 2 ^ 1074 = P at *
    exact err_scale num den (sMag b) P D U (2 ^ k) hrel
  generalize num * U = n at *
  generalize den * D = d at *
  have hq : n / d < 9007199254740992 := (Nat.div_lt_iff_lt_mul hdpos).mpr hQ53
  have hle := divRoundEven_le n d
  have hge := divRoundEven_ge n d
  have hk1 : 1 ≤ k → 4503599627370496 * d ≤ n := fun h => Nat.le_of_not_lt (hQ52 (by omega))
  have hmge : 1 ≤ k → 4503599627370496 ≤ divRoundEven n d := by
    intro h
    have : 4503599627370496 ≤ n / d := (Nat.le_div_iff_mul_le hdpos).mpr (hk1 h)
    omega
  have hthr : thr * den ≤ num * 2 ^ 1074 ↔
      (2046 ≤ k ∨ (divRoundEven n d = 9007199254740992 ∧ k = 2045)) := by
    rw [← Nat.mul_le_mul_right_iff hDpos, e1, e2, thr_eq]
    exact overflow_iff n d k hdpos hQ53 hk1
  rw [hb] at hnan ⊢
  by_cases hF : (divRoundEven n d < 9007199254740992 ∧ k ≤ 2045) ∨ k ≤ 2044
  · obtain ⟨f1, f2, f3, f4, f5⟩ := finish_finite neg (divRoundEven n d) s k hk
      (by simp only [Nat.reducePow]; omega)
      (by simp only [Nat.reducePow]; intro h; false_or_by_contra; omega)
      (by simp only [Nat.reducePow]; exact hF)
    refine ⟨f1, hnan, fun _ b' => ?_, ?_⟩
    · have hS : (∃ j, sMag b' = j * 2 ^ k) ∨
          (4503599627370496 * d ≤ n ∧ sMag b' < 4503599627370496 * 2 ^ k) :=
        (sMag_grid b' k).imp id (fun h => ⟨hk1 h.1, h.2⟩)
      obtain ⟨c1, c2⟩ := nearest_core n d (2 ^ k) (sMag b') hdpos (Nat.two_pow_pos k) hS
      rw [← f4, ← hE, ← hE] at c1 c2
      refine ⟨Nat.le_of_mul_le_mul_right c1 hDpos, fun heq hne => ?_⟩
      have hev := c2 (by rw [heq]) hne
      rcases f5 with f5 | f5
      · rw [f5]; exact hev
      · rw [f5]
    · rw [f3]
      refine ⟨fun h => (by cases h), fun h => ?_⟩
      have := hthr.mp h
      omega
  · have hinf : 2046 ≤ k ∨ (divRoundEven n d = 9007199254740992 ∧ k = 2045) := by omega
    have hfi := finish_inf neg (divRoundEven n d) s k hk
      (by simp only [Nat.reducePow]; exact hmge (by omega))
      (by simp only [Nat.reducePow]; omega)
      (by simp only [Nat.reducePow]; exact hinf)
    obtain ⟨g1, g2, g3⟩ := mkBits_inf neg
    rw [hfi] at hnan ⊢
    refine ⟨g1, hnan, fun h => ?_, fun _ => hthr.mpr hinf, fun _ => g3⟩
    rw [g2] at h
    cases h

end Libconfig.F64R
