import LibconfigModel.Proofs.C01IdemSciDigits
/-
  C01F, part 5 (scientific notation) — the length of the `%.{p}g` rendering: at most
  `max p 1 + 7` characters, so that with the library's buffer (341) nothing is cut for
  precisions up to 330 — the first of the two side conditions `C01L.floatOK` keeps as a
  hypothesis when `CONFIG_OPTION_ALLOW_SCIENTIFIC_NOTATION` is on.
-/
namespace Libconfig.C01I
open Libconfig F64 C01P C01L

theorem stripZeros_length_le (ds : Bytes) : (stripZeros ds).length ≤ ds.length := by
  obtain ⟨z, hz⟩ := stripZeros_spec ds
  have := congrArg List.length hz
  simp only [List.length_append, List.length_replicate] at this
  omega

theorem pad0_length_eq (n : Nat) (ds : Bytes) : (pad0 n ds).length = max n ds.length := by
  unfold pad0
  simp only [List.length_append, List.length_replicate]
  omega

theorem optFrac_length (fp : Bytes) : (if fp.isEmpty then [] else 46 :: fp : Bytes).length ≤ fp.length + 1 := by
  split
  · simp
  · simp

/-- the length of the rendering step of `%.{p}g`, given `d < 10^p` and a three-digit exponent -/
theorem gTail_length (sign : Bytes) (hs : sign.length ≤ 1) (p d : Nat) (x : Int) (hp : 1 ≤ p)
    (hd : d < 10 ^ p) (hx1 : -1000 < x) (hx2 : x < 1000) :
    (gTail sign p d x).length ≤ p + 7 := by
  have hdl : (natToDec d).length ≤ p := natToDec_length d p hd hp
  unfold gTail
  split
  · -- exponent style
    simp only []
    have hlen : (pad0 p (natToDec d)).length = p := by rw [pad0_length_eq]; omega
    generalize pad0 p (natToDec d) = D at hlen ⊢
    have h1 : (D.take 1).length ≤ 1 := by simp only [List.length_take]; omega
    have h2 := optFrac_length (stripZeros (D.drop 1))
    have h3 := stripZeros_length_le (D.drop 1)
    have h4 : (D.drop 1).length = p - 1 := by simp only [List.length_drop]; omega
    have hex : (natToDec x.natAbs).length ≤ 3 := natToDec_length _ 3 (by omega) (by omega)
    have h5 : (if (natToDec x.natAbs).length < 2 then 48 :: natToDec x.natAbs
        else natToDec x.natAbs).length ≤ 3 := by
      split
      · simp only [List.length_cons]; omega
      · exact hex
    simp only [List.length_append, List.length_cons, List.length_nil]
    omega
  · -- fixed style
    rename_i hst
    simp only [Bool.or_eq_true, decide_eq_true_eq, not_or, Int.not_lt] at hst
    simp only []
    have hfd : ((p : Int) - 1 - x).toNat ≤ p + 3 := by omega
    generalize ((p : Int) - 1 - x).toNat = fd at hfd ⊢
    have hlen : (pad0 (fd + 1) (natToDec d)).length ≤ p + 4 := by rw [pad0_length_eq]; omega
    generalize pad0 (fd + 1) (natToDec d) = D at hlen ⊢
    have h2 := optFrac_length (stripZeros (D.drop (D.length - fd)))
    have h3 := stripZeros_length_le (D.drop (D.length - fd))
    have h4 : (D.take (D.length - fd)).length + (D.drop (D.length - fd)).length = D.length := by
      simp only [List.length_take, List.length_drop]; omega
    simp only [List.length_append]
    omega

theorem sign_length (s : Bool) : (if s = true then [45] else ([] : Bytes)).length ≤ 1 := by
  cases s <;> simp

/-- `%.{p}g` of a finite double has at most `max p 1 + 7` characters -/
theorem fmtG_length (b p : Nat) (hfin : isFinite b = true) :
    (fmtG b p).length ≤ (if p = 0 then 1 else p) + 7 := by
  rw [fmtG_eq]
  simp only [hfin, Bool.not_true, Bool.false_eq_true, if_false]
  by_cases hm : mant b = 0
  · rw [if_pos hm]
    have := sign_length (signBit b)
    simp only [List.length_append, List.length_cons, List.length_nil]
    omega
  · rw [if_neg hm]
    have hp : 1 ≤ (if p = 0 then 1 else p) := by split <;> omega
    generalize (if p = 0 then 1 else p) = p' at hp ⊢
    have hs := gDX_spec b p' hfin hm hp
    have hx := hs.xcase
    have := hs.x0lo
    have := hs.x0hi
    exact gTail_length _ (sign_length _) p' _ _ hp hs.dhi (by omega) (by omega)

/-- the rendering before the cut, scientific notation allowed: `%.{p}g`, or `%.17g` -/
theorem rawText_sci_length (bufLen b p : Nat) (hfin : isFinite b = true) :
    (rawText bufLen b p true).length ≤ max p 17 + 7 := by
  unfold rawText
  simp only [if_true]
  have h1 := fmtG_length b p hfin
  have h2 := fmtG_length b 17 hfin
  simp only [show ¬ (17 = 0) by decide, if_false] at h2
  split
  · omega
  · split at h1 <;> omega

/-- with the library's buffer, precisions up to 330 are never cut -/
theorem rawText_sci_fits (b p : Nat) (hfin : isFinite b = true) (hp : p ≤ 330) :
    (rawText 341 b p true).length ≤ 341 - 4 := by
  have := rawText_sci_length 341 b p hfin
  omega

end Libconfig.C01I

