import LibconfigModel.Proofs.C02Static
/-
  C02 completeness, static part: an (untrusted) certificate of LALR(1) item sets for the states
  of the compiled automaton, `nullable`/`first` tables for the nonterminals, and a Boolean check
  (evaluated by the kernel) of the conditions of a completeness validator in the style of
  Jourdan, Pottier, Leroy, "Validating LR(1) Parsers" (ESOP 2012), stated against the table
  readers `actAt`/`gotoTo` that mirror what `yyparseLoop` does:

  * the initial state contains `[$accept → . configuration $end]`;
  * closure: `[A → α . B β, a] ∈ s`, `B → γ` a rule, `b ∈ first(β a)` ⟹ `[B → . γ, b] ∈ s`;
  * transitions: `[A → α . X β, a] ∈ s` ⟹ the parser shifts `X` in `s` (terminal) resp. the goto
    of `s` on `X` (nonterminal) leads to a state containing `[A → α X . β, a]`;
  * reductions: `[A → α ., a] ∈ s` ⟹ the parser's action in `s` on the lookahead `a` is
    "reduce A → α" (explicitly, or by default);
  * acceptance: the goto of state 0 on `configuration` shifts `$end` into the final state;
  * `nullable` and `first` are closed under the rules (hence over-approximate the truth).
-/
namespace Libconfig.C02C
open Libconfig Grammar C02P

/-- an LALR item: rule, position of the dot, lookahead terminals -/
abbrev Item := Nat × Nat × List Nat
/-- item sets indexed by state -/
abbrev Cert := List (List Item)

def rhsOf (r : Nat) : List Nat := (rules.getD r (0, [])).2
def lhsOf (r : Nat) : Nat := (rules.getD r (0, [])).1

def memB (l : List Nat) (a : Nat) : Bool := l.any (Nat.beq a)
def subB (l1 l2 : List Nat) : Bool := l1.all (memB l2)

/-- `nullable`, indexed by nonterminal − 23 -/
def nullTab : List Bool :=
  [false, true, false, true, true, false, true, false, true, false, true, false, false, false,
   false, true, false, true, false, true]

/-- `first`, indexed by nonterminal − 23 -/
def firstTab : List (List Nat) :=
  [[0, 10], [10], [10], [10], [17, 20], [10], [], [13], [], [15], [],
   [3, 4, 5, 6, 7, 8, 9, 13, 15, 18], [9], [3, 4, 5, 6, 7, 8, 9],
   [3, 4, 5, 6, 7, 8, 9, 13, 15, 18], [3, 4, 5, 6, 7, 8, 9, 13, 15, 18],
   [3, 4, 5, 6, 7, 8, 9], [3, 4, 5, 6, 7, 8, 9], [18], []]

def nullableS (X : Nat) : Bool := Nat.ble 23 X && nullTab.getD (X - 23) false
def firstS (X : Nat) : List Nat := if Nat.blt X 23 then [X] else firstTab.getD (X - 23) []

/-- `first(β la)` -/
def firstSeq : List Nat → List Nat → List Nat
  | [], la => la
  | X :: β, la => firstS X ++ (if nullableS X then firstSeq β la else [])

/-- state `s` of the certificate has the item `(r, d)` with at least the lookaheads `la` -/
def supB (C : Cert) (s r d : Nat) (la : List Nat) : Bool :=
  (C.getD s []).any fun it => Nat.beq it.1 r && Nat.beq it.2.1 d && subB la it.2.2

/-- the parser's action in state `s` on the lookahead kind `a` is "reduce by rule `r`" -/
def redOK (P : LalrTables) (s a r : Nat) : Bool :=
  !(Nat.beq r 0) &&
  match actAt P s a with
  | none => Nat.beq (P.defact.get s).toNat r
  | some q => decide (q ≤ 0) && !(q == P.tableNinf) && Nat.beq (-q).toNat r

def shiftB (P : LalrTables) (C : Cert) (s : Nat) (it : Item) : Bool :=
  match (rhsOf it.1).drop it.2.1 with
  | [] => true
  | X :: _ =>
    !(Nat.blt X 23) ||
    match actAt P s X with
    | some q => decide (0 < q) && supB C q.toNat it.1 (it.2.1 + 1) it.2.2
    | none => false

def gotoB (P : LalrTables) (C : Cert) (s : Nat) (it : Item) : Bool :=
  match (rhsOf it.1).drop it.2.1 with
  | [] => true
  | X :: _ => Nat.blt X 23 || supB C (gotoTo P s X) it.1 (it.2.1 + 1) it.2.2

def closB (C : Cert) (s : Nat) (it : Item) : Bool :=
  match (rhsOf it.1).drop it.2.1 with
  | [] => true
  | X :: β =>
    Nat.blt X 23 ||
    allBelow rules.length fun r' =>
      Nat.beq r' 0 || (!(Nat.beq (lhsOf r') X) || supB C s r' 0 (firstSeq β it.2.2))

def redB (P : LalrTables) (s : Nat) (it : Item) : Bool :=
  match (rhsOf it.1).drop it.2.1 with
  | [] => Nat.beq it.1 1 || it.2.2.all fun a => redOK P s a it.1
  | _ :: _ => true

def itemOK (P : LalrTables) (C : Cert) (s : Nat) (it : Item) : Bool :=
  shiftB P C s it && gotoB P C s it && closB C s it && redB P s it

def acceptB (P : LalrTables) : Bool :=
  match actAt P (gotoTo P 0 configuration) 0 with
  | some q => decide (0 < q) && Nat.beq q.toNat P.final
  | none => false

def nullOK : Bool :=
  allBelow rules.length fun r => Nat.beq r 0 || (!((rhsOf r).all nullableS) || nullableS (lhsOf r))
def firstOK : Bool :=
  allBelow rules.length fun r => Nat.beq r 0 || subB (firstSeq (rhsOf r) []) (firstS (lhsOf r))
def lhsOK : Bool :=
  allBelow rules.length fun r => Nat.beq r 0 || Nat.ble 23 (lhsOf r)
/-- `$accept` occurs in no right-hand side -/
def rhsOK : Bool :=
  allBelow rules.length fun r => !(memB (rhsOf r) ACCEPT)

/-- the whole completeness check -/
def certOK (P : LalrTables) (C : Cert) : Bool :=
  Nat.beq (P.nrules + 1) rules.length && rulesMatch P &&
  nullOK && firstOK && lhsOK && rhsOK &&
  Nat.ble C.length P.nstates &&
  supB C 0 1 0 [0] && acceptB P &&
  allBelow P.nstates fun s => (C.getD s []).all (itemOK P C s)

/-- the item sets of the compiled automaton (found by the usual LALR fixpoint, following the
transitions of the tables) -/
def cert : Cert :=
  [
   [(1, 0, [0]), (2, 0, [0]), (3, 0, [0]), (4, 0, [0, 10]), (5, 0, [0, 10]), (12, 0, [0, 10])],
    [(12, 1, [0, 10, 19]), (11, 0, [11])],
    [(1, 1, [0])],
    [(3, 1, [0]), (5, 1, [0, 10]), (12, 0, [0, 10])],
    [(4, 1, [0, 10, 19])],
    [(12, 2, [0, 10, 19])],
    [(1, 2, [0])],
    [(5, 2, [0, 10, 19])],
    [(12, 3, [0, 10, 19]), (17, 0, [0, 10, 17, 19, 20]), (18, 0, [0, 10, 17, 19, 20]), (19, 0, [0, 10, 17, 19, 20]), (20, 0, [0, 10, 17, 19, 20]), (23, 0, [0, 10, 17, 19, 20]), (24, 0, [0, 10, 17, 19, 20]), (25, 0, [0, 10, 17, 19, 20]), (26, 0, [0, 10, 17, 19, 20]), (27, 0, [0, 10, 17, 19, 20]), (28, 0, [0, 10, 17, 19, 20]), (29, 0, [0, 10, 17, 19, 20]), (14, 0, [0, 10, 17, 19, 20]), (16, 0, [0, 10, 17, 19, 20]), (41, 0, [0, 10, 17, 19, 20]), (21, 0, [0, 9, 10, 17, 19, 20]), (22, 0, [0, 9, 10, 17, 19, 20])],
    [(23, 1, [0, 10, 14, 16, 17, 19, 20])],
    [(24, 1, [0, 10, 14, 16, 17, 19, 20])],
    [(26, 1, [0, 10, 14, 16, 17, 19, 20])],
    [(25, 1, [0, 10, 14, 16, 17, 19, 20])],
    [(27, 1, [0, 10, 14, 16, 17, 19, 20])],
    [(28, 1, [0, 10, 14, 16, 17, 19, 20])],
    [(21, 1, [0, 9, 10, 14, 16, 17, 19, 20])],
    [(14, 1, [0, 10, 16, 17, 19, 20]), (13, 0, [3, 4, 5, 6, 7, 8, 9, 14])],
    [(16, 1, [0, 10, 16, 17, 19, 20]), (15, 0, [3, 4, 5, 6, 7, 8, 9, 13, 15, 16, 18])],
    [(41, 1, [0, 10, 16, 17, 19, 20]), (40, 0, [10, 19])],
    [(18, 1, [0, 10, 16, 17, 19, 20])],
    [(19, 1, [0, 10, 16, 17, 19, 20])],
    [(12, 4, [0, 10, 19]), (8, 0, [0, 10, 19]), (9, 0, [0, 10, 19]), (10, 0, [0, 10, 19])],
    [(29, 1, [0, 10, 14, 16, 17, 19, 20]), (22, 1, [0, 9, 10, 14, 16, 17, 19, 20])],
    [(17, 1, [0, 10, 16, 17, 19, 20])],
    [(20, 1, [0, 10, 16, 17, 19, 20])],
    [(14, 2, [0, 10, 16, 17, 19, 20]), (38, 0, [14]), (39, 0, [14]), (35, 0, [14, 17]), (36, 0, [14, 17]), (37, 0, [14, 17]), (23, 0, [14, 17]), (24, 0, [14, 17]), (25, 0, [14, 17]), (26, 0, [14, 17]), (27, 0, [14, 17]), (28, 0, [14, 17]), (29, 0, [14, 17]), (21, 0, [9, 14, 17]), (22, 0, [9, 14, 17])],
    [(16, 2, [0, 10, 16, 17, 19, 20]), (33, 0, [16]), (34, 0, [16]), (30, 0, [16, 17]), (31, 0, [16, 17]), (32, 0, [16, 17]), (17, 0, [16, 17]), (18, 0, [16, 17]), (19, 0, [16, 17]), (20, 0, [16, 17]), (23, 0, [16, 17]), (24, 0, [16, 17]), (25, 0, [16, 17]), (26, 0, [16, 17]), (27, 0, [16, 17]), (28, 0, [16, 17]), (29, 0, [16, 17]), (14, 0, [16, 17]), (16, 0, [16, 17]), (41, 0, [16, 17]), (21, 0, [9, 16, 17]), (22, 0, [9, 16, 17])],
    [(41, 2, [0, 10, 16, 17, 19, 20]), (6, 0, [19]), (7, 0, [19]), (4, 0, [10, 19]), (5, 0, [10, 19]), (12, 0, [10, 19])],
    [(10, 1, [0, 10, 19])],
    [(9, 1, [0, 10, 19])],
    [(12, 5, [0, 10, 19])],
    [(22, 2, [0, 9, 10, 14, 16, 17, 19, 20])],
    [(35, 1, [14, 17])],
    [(39, 1, [14]), (36, 1, [14, 17]), (37, 1, [14, 17])],
    [(14, 3, [0, 10, 16, 17, 19, 20])],
    [(30, 1, [16, 17])],
    [(34, 1, [16]), (31, 1, [16, 17]), (32, 1, [16, 17])],
    [(16, 3, [0, 10, 16, 17, 19, 20])],
    [(7, 1, [19]), (5, 1, [10, 19]), (12, 0, [10, 19])],
    [(41, 3, [0, 10, 16, 17, 19, 20])],
    [(36, 2, [14, 17]), (37, 2, [14, 17]), (23, 0, [14, 17]), (24, 0, [14, 17]), (25, 0, [14, 17]), (26, 0, [14, 17]), (27, 0, [14, 17]), (28, 0, [14, 17]), (29, 0, [14, 17]), (21, 0, [9, 14, 17]), (22, 0, [9, 14, 17])],
    [(14, 4, [0, 10, 16, 17, 19, 20])],
    [(31, 2, [16, 17]), (32, 2, [16, 17]), (17, 0, [16, 17]), (18, 0, [16, 17]), (19, 0, [16, 17]), (20, 0, [16, 17]), (23, 0, [16, 17]), (24, 0, [16, 17]), (25, 0, [16, 17]), (26, 0, [16, 17]), (27, 0, [16, 17]), (28, 0, [16, 17]), (29, 0, [16, 17]), (14, 0, [16, 17]), (16, 0, [16, 17]), (41, 0, [16, 17]), (21, 0, [9, 16, 17]), (22, 0, [9, 16, 17])],
    [(16, 4, [0, 10, 16, 17, 19, 20])],
    [(41, 4, [0, 10, 16, 17, 19, 20])],
    [(36, 3, [14, 17])],
    [(31, 3, [16, 17])]
  ]

/-- the kernel evaluates the check for the compiled tables -/
theorem cert_ok : certOK Generated.parser cert = true := by decide +kernel

/-! ### the conditions in usable form -/

/-- state `s` of the certificate contains the item `[rule r, dot d, lookahead a]` -/
def HasItem (C : Cert) (s r d a : Nat) : Prop := ∃ la, (r, d, la) ∈ C.getD s [] ∧ a ∈ la

theorem blt_lt' {a b : Nat} (h : Nat.blt a b = true) : a < b := Nat.le_of_ble_eq_true h

theorem memB_iff {l : List Nat} {a : Nat} : memB l a = true ↔ a ∈ l := by
  unfold memB
  rw [List.any_eq_true]
  constructor
  · rintro ⟨x, hx, h⟩
    rw [Nat.eq_of_beq_eq_true h]; exact hx
  · intro h
    exact ⟨a, h, Nat.beq_refl a⟩

theorem subB_spec {l1 l2 : List Nat} (h : subB l1 l2 = true) {a : Nat} (ha : a ∈ l1) : a ∈ l2 := by
  unfold subB at h
  rw [List.all_eq_true] at h
  exact memB_iff.mp (h a ha)

theorem supB_spec {C : Cert} {s r d : Nat} {la : List Nat} (h : supB C s r d la = true)
    {a : Nat} (ha : a ∈ la) : HasItem C s r d a := by
  unfold supB at h
  rw [List.any_eq_true] at h
  obtain ⟨⟨r', d', la'⟩, hmem, h2⟩ := h
  simp only [Bool.and_eq_true] at h2
  obtain ⟨⟨h3, h4⟩, h5⟩ := h2
  have h3 : r' = r := Nat.eq_of_beq_eq_true h3
  have h4 : d' = d := Nat.eq_of_beq_eq_true h4
  subst h3; subst h4
  exact ⟨la', hmem, subB_spec h5 ha⟩

theorem firstSeq_mono {la la' : List Nat} (h : ∀ x ∈ la, x ∈ la') :
    ∀ (β : List Nat) {b : Nat}, b ∈ firstSeq β la → b ∈ firstSeq β la' := by
  intro β
  induction β with
  | nil => intro b hb; exact h b hb
  | cons X β ih =>
    intro b hb
    rw [firstSeq] at hb ⊢
    rw [List.mem_append] at hb ⊢
    rcases hb with hb | hb
    · exact Or.inl hb
    · right
      split at hb
      · rename_i hn; rw [if_pos hn]; exact ih hb
      · cases hb

/-- what the static check establishes -/
structure CFacts (P : LalrTables) (C : Cert) : Prop where
  r1 : ∀ r, 1 ≤ r → r < rules.length → (P.r1.get r).toNat = lhsOf r
  r2 : ∀ r, 1 ≤ r → r < rules.length → (P.r2.get r).toNat = (rhsOf r).length
  null : ∀ r, 1 ≤ r → r < rules.length → (rhsOf r).all nullableS = true → nullableS (lhsOf r) = true
  first : ∀ r, 1 ≤ r → r < rules.length → ∀ c ∈ firstSeq (rhsOf r) [], c ∈ firstS (lhsOf r)
  lhs : ∀ r, 1 ≤ r → r < rules.length → 23 ≤ lhsOf r
  rhs : ∀ r, r < rules.length → ACCEPT ∉ rhsOf r
  init : HasItem C 0 1 0 0
  accept : ∃ q : Int, actAt P (gotoTo P 0 configuration) 0 = some q ∧ 0 < q ∧ q.toNat = P.final
  shift : ∀ s r d a X β, HasItem C s r d a → (rhsOf r).drop d = X :: β → X < 23 →
    ∃ q : Int, actAt P s X = some q ∧ 0 < q ∧ HasItem C q.toNat r (d + 1) a
  goto : ∀ s r d a X β, HasItem C s r d a → (rhsOf r).drop d = X :: β → 23 ≤ X →
    HasItem C (gotoTo P s X) r (d + 1) a
  closure : ∀ s r d a X β, HasItem C s r d a → (rhsOf r).drop d = X :: β → 23 ≤ X →
    ∀ r', 1 ≤ r' → r' < rules.length → lhsOf r' = X → ∀ b ∈ firstSeq β [a], HasItem C s r' 0 b
  reduce : ∀ s r d a, HasItem C s r d a → (rhsOf r).drop d = [] → r ≠ 1 → redOK P s a r = true

theorem allBelow_or0 {n : Nat} {f : Nat → Bool} (h : allBelow n (fun r => Nat.beq r 0 || f r) = true) :
    ∀ r, 1 ≤ r → r < n → f r = true := by
  intro r h1 h2
  have := allBelow_spec h r h2
  simp only [Bool.or_eq_true] at this
  rcases this with h3 | h3
  · have := Nat.eq_of_beq_eq_true h3; omega
  · exact h3

theorem item_checked {P : LalrTables} {C : Cert}
    (hlen : Nat.ble C.length P.nstates = true)
    (hall : allBelow P.nstates (fun s => (C.getD s []).all (itemOK P C s)) = true)
    {s r d a : Nat} (h : HasItem C s r d a) :
    ∃ la, a ∈ la ∧ itemOK P C s (r, d, la) = true := by
  obtain ⟨la, hmem, ha⟩ := h
  have hs : s < P.nstates := by
    apply Classical.byContradiction
    intro hn
    have hl : C.length ≤ s := Nat.le_trans (Nat.le_of_ble_eq_true hlen) (Nat.le_of_not_lt hn)
    rw [List.getD_eq_getElem?_getD, List.getElem?_eq_none hl] at hmem
    simp at hmem
  have := allBelow_spec hall s hs
  rw [List.all_eq_true] at this
  exact ⟨la, ha, this _ hmem⟩

theorem facts_of_cert {P : LalrTables} {C : Cert} (h : certOK P C = true) : CFacts P C := by
  unfold certOK at h
  simp only [Bool.and_eq_true] at h
  obtain ⟨⟨⟨⟨⟨⟨⟨⟨⟨hnr, hrm⟩, hnull⟩, hfirst⟩, hlhs⟩, hrhs⟩, hlen⟩, hinit⟩, hacc⟩, hall⟩ := h
  have hnr : P.nrules + 1 = rules.length := Nat.eq_of_beq_eq_true hnr
  unfold nullOK at hnull
  unfold firstOK at hfirst
  unfold lhsOK at hlhs
  unfold rhsOK at hrhs
  have hrm' : ∀ r, 1 ≤ r → r < rules.length →
      (P.r1.get r).toNat = lhsOf r ∧ (P.r2.get r).toNat = (rhsOf r).length := by
    intro r h1 h2
    unfold rulesMatch at hrm
    rw [hnr] at hrm
    have := allBelow_or0 hrm r h1 h2
    simp only [Bool.and_eq_true] at this
    exact ⟨Nat.eq_of_beq_eq_true this.1, Nat.eq_of_beq_eq_true this.2⟩
  refine ⟨fun r h1 h2 => (hrm' r h1 h2).1, fun r h1 h2 => (hrm' r h1 h2).2, ?_, ?_, ?_, ?_, ?_, ?_,
    ?_, ?_, ?_, ?_⟩
  · intro r h1 h2 hn
    have := allBelow_or0 hnull r h1 h2
    simp only [Bool.or_eq_true, Bool.not_eq_true'] at this
    rcases this with h3 | h3
    · rw [hn] at h3; cases h3
    · exact h3
  · intro r h1 h2 c hc
    exact subB_spec (allBelow_or0 hfirst r h1 h2) hc
  · intro r h1 h2
    exact Nat.le_of_ble_eq_true (allBelow_or0 hlhs r h1 h2)
  · intro r h2 hmem
    have := allBelow_spec hrhs r h2
    rw [memB_iff.mpr hmem] at this
    cases this
  · exact supB_spec hinit (List.mem_singleton.mpr rfl)
  · unfold acceptB at hacc
    split at hacc
    · rename_i q hq
      simp only [Bool.and_eq_true, decide_eq_true_eq] at hacc
      exact ⟨q, hq, hacc.1, Nat.eq_of_beq_eq_true hacc.2⟩
    · cases hacc
  · intro s r d a X β hi hd hX
    obtain ⟨la, ha, hok⟩ := item_checked hlen hall hi
    unfold itemOK at hok
    simp only [Bool.and_eq_true] at hok
    have hs := hok.1.1.1
    unfold shiftB at hs
    simp only [hd] at hs
    have hX' : Nat.blt X 23 = true := Nat.ble_eq_true_of_le hX
    rw [hX'] at hs
    simp only [Bool.not_true, Bool.false_or] at hs
    split at hs
    · rename_i q hq
      simp only [Bool.and_eq_true, decide_eq_true_eq] at hs
      exact ⟨q, hq, hs.1, supB_spec hs.2 ha⟩
    · cases hs
  · intro s r d a X β hi hd hX
    obtain ⟨la, ha, hok⟩ := item_checked hlen hall hi
    unfold itemOK at hok
    simp only [Bool.and_eq_true] at hok
    have hs := hok.1.1.2
    unfold gotoB at hs
    simp only [hd] at hs
    have hX' : Nat.blt X 23 = false := by
      cases hb : Nat.blt X 23 with
      | false => rfl
      | true => have := blt_lt' hb; omega
    rw [hX'] at hs
    simp only [Bool.false_or] at hs
    exact supB_spec hs ha
  · intro s r d a X β hi hd hX r' h1 h2 hl b hb
    obtain ⟨la, ha, hok⟩ := item_checked hlen hall hi
    unfold itemOK at hok
    simp only [Bool.and_eq_true] at hok
    have hs := hok.1.2
    unfold closB at hs
    simp only [hd] at hs
    have hX' : Nat.blt X 23 = false := by
      cases hb : Nat.blt X 23 with
      | false => rfl
      | true => have := blt_lt' hb; omega
    rw [hX'] at hs
    simp only [Bool.false_or] at hs
    have := allBelow_or0 hs r' h1 h2
    rw [hl, Nat.beq_refl] at this
    simp only [Bool.not_true, Bool.false_or] at this
    refine supB_spec this (firstSeq_mono ?_ β hb)
    intro x hx
    rw [List.mem_singleton.mp hx]; exact ha
  · intro s r d a hi hd hr
    obtain ⟨la, ha, hok⟩ := item_checked hlen hall hi
    unfold itemOK at hok
    simp only [Bool.and_eq_true] at hok
    have hs := hok.2
    unfold redB at hs
    simp only [hd] at hs
    simp only [Bool.or_eq_true] at hs
    rcases hs with hs | hs
    · exact absurd (Nat.eq_of_beq_eq_true hs) hr
    · rw [List.all_eq_true] at hs
      exact hs a ha

/-- the facts for the compiled tables -/
theorem cfacts : CFacts Generated.parser cert := facts_of_cert cert_ok

end Libconfig.C02C
