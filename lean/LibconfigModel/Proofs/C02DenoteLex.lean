import LibconfigModel.Proofs.C03Lex
import LibconfigModel.Proofs.C02Complete
/-
  C02D, what the compiled scanner guarantees about the tokens it hands to the parser (used to
  discharge the side conditions of the main theorems for reads of byte strings):
    * a NAME token carries a valid setting name — the rule that returns NAME matches the regular
      expression `[A-Za-z\*][-A-Za-z0-9_\*]*` (`ScanSpec.rxName`; the flex tables implement the
      documented rules, Properties/C18.lean), and no other rule returns the NAME token;
    * an include error is handed over as TOK_ERROR, so a token sequence without TOK_ERROR was
      delivered without include error.
-/
namespace Libconfig.C02D
open Libconfig C03P ScanSpec

/-! ### what matches the pattern of names is a valid name -/

theorem star_cls_all {m : Nat} {r : Rx} {w : List Nat} (h : Rx.Matches r w) :
    r = .star (.cls m) → ∀ b ∈ w, Rx.mem m b = true := by
  induction h with
  | eps => intro hr; cases hr
  | cls _ => intro hr; cases hr
  | cat _ _ _ _ => intro hr; cases hr
  | altL _ _ => intro hr; cases hr
  | altR _ _ => intro hr; cases hr
  | starNil => intro _ b hb; cases hb
  | starCons h1 _ _ ih2 =>
    intro hr b hb
    injection hr with hr
    subst hr
    rcases List.mem_append.mp hb with hb | hb
    · obtain ⟨b', hw, hm⟩ := Rx.matches_cls_iff.mp h1
      rw [hw] at hb
      rw [List.mem_singleton.mp hb]
      exact hm
    · exact ih2 rfl b hb

theorem nameStart_ok : ∀ b, b < 256 → Rx.mem cNameStart b = true → (isAlpha b || b == 42) = true := by
  decide +kernel

theorem nameRest_ok : ∀ b, b < 256 → Rx.mem cNameRest b = true →
    (isAlpha b || isDigit b || b == 42 || b == 95 || b == 45) = true := by
  decide +kernel

theorem validName_of_matches {w : List Nat} (hb : BytesOK w) (h : Rx.Matches rxName w) :
    validName w = true := by
  unfold rxName at h
  obtain ⟨u, v, hw, hu, hv⟩ := Rx.matches_cat_iff.mp h
  obtain ⟨b, hub, hm⟩ := Rx.matches_cls_iff.mp hu
  subst hw
  subst hub
  show validName (b :: v) = true
  unfold validName
  rw [Bool.and_eq_true, List.all_eq_true]
  refine ⟨nameStart_ok b (hb b (by simp)) hm, fun c hc => ?_⟩
  exact nameRest_ok c (hb c (by simp [hc])) (star_cls_all hv rfl c hc)

/-! ### the rules and their actions -/

abbrev tkn : TokenNums := Generated.tokens

/-- an action that does not return the NAME token (the action of the rule for names apart) -/
def actNameOK : ScanAct → Bool
  | .endString t => t != tkn.name
  | .tok t => t != tkn.name
  | .tokBool t _ => t != tkn.name
  | .tokFloat t e => t != tkn.name && e != tkn.name
  | .tokInteger t32 t64 e => t32 != tkn.name && t64 != tkn.name && e != tkn.name
  | .tokInteger64 t e => t != tkn.name && e != tkn.name
  | .tokHex t e => t != tkn.name && e != tkn.name
  | .tokHex64 t e => t != tkn.name && e != tkn.name
  | _ => true

/-- rule `r` of the scanner: its action does not return NAME unless it is the action `tokName`,
and then the documented pattern of the rule is the pattern of names -/
def ruleNameOK (r : Nat) : Bool :=
  actNameOK (Generated.scanActions.getD r .unknown) &&
  match Generated.scanActions.getD r .unknown with
  | .tokName _ =>
    (match documented[r - 1]? with
     | some rule => Rx.beq rule.rx rxName
     | none => false)
  | _ => true

theorem rules_nameOK : ∀ r, r < 49 → ruleNameOK r = true := by decide +kernel

/-- the properties of the tables the induction over `yylex` uses -/
def NameActs (T : FlexTables) (acts : List ScanAct) : Prop :=
  ∀ sc, sc < 5 → ∀ (bol : Bool) (inp : Bytes), BytesOK inp → ∀ r n,
    Flex.next T sc bol inp = some (r, n) →
      actNameOK (acts.getD r .unknown) = true ∧
      ∀ t, acts.getD r .unknown = .tokName t → validName (inp.take n) = true

theorem gen_nameActs : NameActs Generated.scanner Generated.scanActions := by
  intro sc hsc bol inp hb r n h
  have hr := next_rule sc hsc bol inp hb r n h
  have hok := rules_nameOK r (by omega)
  unfold ruleNameOK at hok
  rw [Bool.and_eq_true] at hok
  refine ⟨hok.1, fun t ht => ?_⟩
  have h2 := hok.2
  rw [ht] at h2
  simp only at h2
  have hsel := (C18.C18_flex_longest_first sc hsc bol inp hb r n).mp h
  obtain ⟨rule, _, hget, _, hm⟩ := hsel.matched
  rw [hget] at h2
  simp only at h2
  rw [Rx.beq_eq h2] at hm
  exact validName_of_matches (fun x hx => hb x (List.mem_of_mem_take hx)) hm

theorem numericTok_ne (a : ScanAct) (text : Bytes) (ha : actNameOK a = true)
    (hnum : match a with
      | .tokFloat .. | .tokInteger .. | .tokInteger64 .. | .tokHex .. | .tokHex64 .. => True
      | _ => False) :
    (numericTok a text).1 ≠ tkn.name := by
  cases a <;> simp only at hnum
  all_goals
    simp only [actNameOK, Bool.and_eq_true, bne_iff_ne, ne_eq] at ha
    unfold numericTok
    simp only
    repeat' split
    all_goals first | exact ha.1 | exact ha.2 | exact ha.1.1 | exact ha.1.2

/-- a NAME token carries a valid name -/
def NameOut : LexOut → Prop
  | .tok t v => t = tkn.name → validName v.sval = true
  | _ => True

theorem yylex_names (T : FlexTables) (acts : List ScanAct) (hact : ActsOK T acts)
    (hname : NameActs T acts) (w : World) (hw : WorldOK w) (ic : IncludeCfg) :
    ∀ (fuel : Nat) (s : ScanState), ScanOK s → NameOut (yylex T acts w ic fuel s).2 := by
  intro fuel
  induction fuel with
  | zero => intro s h; rw [yylex]; trivial
  | succ fuel ih =>
    intro s h
    rw [yylex]
    split
    · split
      · trivial
      · rename_i f fs hst
        have hn := nif_spec w s false
        split
        rename_i s1 content err heq
        rw [heq] at hn; simp only at hn
        obtain ⟨hsc, hbuf, hpar, hcont⟩ := hn
        have hp1 : ∀ g ∈ s1.stack, BytesOK g.parent.rest := hpar (fun b => BytesOK b.rest) h.parents
        split
        · rename_i c
          obtain ⟨p, hp⟩ := hcont c rfl
          exact ih _ ⟨hsc ▸ h.sc, open_bytes hw hp, hp1⟩
        · split
          · trivial
          · refine ih _ ⟨hsc ▸ h.sc, ?_, ?_⟩
            · exact h.parents f (hst ▸ List.mem_cons_self)
            · intro g hg; exact h.parents g (hst ▸ List.mem_cons_of_mem _ hg)
    · rename_i rule len hnext
      have hok := hact s.sc h.sc s.buf.bol s.buf.rest h.buf rule len hnext
      have hnm := hname s.sc h.sc s.buf.bol s.buf.rest h.buf rule len hnext
      extract_lets text lineno bol s' path s2
      have hs' : ScanOK s' := ⟨h.sc, fun x hx => h.buf x (List.mem_of_mem_drop hx), h.parents⟩
      have h0 : Generated.SC_INITIAL < 5 := by decide
      have hs2 : ScanOK s2 := ⟨hs'.sc, hs'.buf, hs'.parents⟩
      have htext : text = s.buf.rest.take len := rfl
      clear_value s' path
      split
      all_goals try (rename_i heq; rw [heq] at hok)
      all_goals try (exact absurd hok (by decide))
      all_goals try (exact ih _ hs')
      all_goals try (exact ih _ ⟨hs'.sc, hs'.buf, hs'.parents⟩)
      all_goals try (trivial; done)
      case h_1 =>
        rename_i sc
        have hsc : sc < 5 := by simpa [actOK] using hok
        exact ih _ ⟨hsc, hs'.buf, hs'.parents⟩
      case h_6 =>
        rename_i t heq
        have := hnm.1
        rw [heq] at this
        intro ht
        simp [actNameOK, ht] at this
      case h_7 =>
        have hini : ScanOK { s2 with sc := Generated.SC_INITIAL } := ⟨h0, hs2.buf, hs2.parents⟩
        split
        · trivial
        split
        · trivial
        · exact ih _ hini
        · exact ih _ hini
        · rename_i files hne _
          extract_lets s1
          have hn := nif_spec w s1 true
          split
          rename_i s3 content err heq
          rw [heq] at hn; simp only at hn
          obtain ⟨hsc, hbuf, hpar, hcont⟩ := hn
          have hp1 : ∀ g ∈ s1.stack, BytesOK g.parent.rest := by
            intro g hg
            rcases List.mem_cons.mp hg with hg | hg
            · rw [hg]; exact hs2.buf
            · exact hs2.parents g hg
          have hp3 : ∀ g ∈ s3.stack, BytesOK g.parent.rest := hpar (fun b => BytesOK b.rest) hp1
          split
          · rename_i c
            obtain ⟨p, hp⟩ := hcont c rfl
            exact ih _ ⟨h0, open_bytes hw hp, hp3⟩
          · trivial
      case h_8 =>
        rename_i t heq
        have := hnm.1
        rw [heq] at this
        intro ht
        simp [actNameOK, ht] at this
      case h_9 =>
        rename_i t v heq
        have := hnm.1
        rw [heq] at this
        intro ht
        simp [actNameOK, ht] at this
      case h_10 =>
        rename_i heq
        intro _
        show validName text = true
        rw [htext]
        exact hnm.2 _ heq
      all_goals
        rename_i heq
        have ha := hnm.1
        rw [heq] at ha ⊢
        have hne := numericTok_ne _ text ha trivial
        revert hne
        generalize numericTok _ text = p
        intro hne
        obtain ⟨t, v⟩ := p
        intro ht
        exact absurd ht hne

/-! ### token sequences -/

/-- only TOK_ERROR translates to the kind of the `error` token -/
def kind22Check : Bool :=
  C02P.allBelow 278 fun t => !(Nat.beq (translateTok Generated.parser t) 22) || Nat.beq t tkn.error

theorem kind22Check_ok : kind22Check = true := by decide +kernel

theorem kind22_error (t : Nat) (h : translateTok Generated.parser t = 22) : t = tkn.error := by
  by_cases hle : t ≤ 277
  · have := C02P.allBelow_spec kind22Check_ok t (by omega)
    rw [h] at this
    simpa using this
  · exfalso
    unfold translateTok at h
    have h277 : Generated.parser.maxutok = 277 := by decide +kernel
    split at h
    · cases h
    · rw [h277, if_neg hle] at h
      cases h

/-- the NAME tokens the compiled scanner delivers carry valid names -/
theorem lexes_namesValid (w : World) (hw : WorldOK w) (c : Config) (lexFuel : Nat) :
    ∀ (s : ScanState) (toks : List (Nat × TokVal)) (s' : ScanState),
      C02P.Lexes (theEnv w c lexFuel) s toks s' → ScanOK s →
      ∀ tv ∈ toks, tv.1 = tkn.name → validName tv.2.sval = true := by
  intro s toks s' h
  induction h with
  | eof s s' hy => intro _ tv h; cases h
  | tok s s₁ s' t v rest hy _ ih =>
    intro hs tv htv
    have hy' : yylex Generated.scanner Generated.scanActions w
        { fn := c.includeFn, dir := c.includeDir } lexFuel s = (s₁, .tok t v) := hy
    rcases List.mem_cons.mp htv with rfl | htv
    · have := yylex_names _ _ gen_actsOK gen_nameActs w hw { fn := c.includeFn, dir := c.includeDir }
        lexFuel s hs
      rw [hy'] at this
      exact this
    · have hs1 := yylex_scanOK w hw { fn := c.includeFn, dir := c.includeDir } lexFuel s hs
      unfold lex at hs1
      rw [hy'] at hs1
      exact ih hs1 tv htv
  | incl s s₁ s' t text file line rest hy _ ih =>
    intro hs tv htv
    have hy' : yylex Generated.scanner Generated.scanActions w
        { fn := c.includeFn, dir := c.includeDir } lexFuel s = (s₁, .includeError t text file line) := hy
    rcases List.mem_cons.mp htv with rfl | htv
    · intro hn
      have hk := C02C.inclKind_theEnv w c lexFuel _ _ _ _ _ _ hy
      have : t = tkn.name := hn
      rw [this] at hk
      have hk' : translateTok Generated.parser tkn.name = 22 := hk
      exact absurd hk' (by decide +kernel)
    · have hs1 := yylex_scanOK w hw { fn := c.includeFn, dir := c.includeDir } lexFuel s hs
      unfold lex at hs1
      rw [hy'] at hs1
      exact ih hs1 tv htv

end Libconfig.C02D
