import LibconfigModel.Step
/-
  Helper lemmas for property C16 (hooks are released exactly once).
  Everything is stated for an arbitrary destructor flag `d`; `hooks n` of
  Properties/C16.lean is `destroyLog true n`.
-/
namespace Libconfig.C16P

open Libconfig

/-! ### `destroyLog` / `destroyLogList` basics -/

theorem destroyLog_eq (d : Bool) (n : Node) :
    destroyLog d n = destroyLogList d n.kids ++ (if n.hook != 0 && d then [n.hook] else []) := by
  cases n; rw [destroyLog]

@[simp] theorem destroyLogList_nil (d : Bool) : destroyLogList d [] = [] := by
  rw [destroyLogList]

@[simp] theorem destroyLogList_cons (d : Bool) (k : Node) (ks : List Node) :
    destroyLogList d (k :: ks) = destroyLog d k ++ destroyLogList d ks := by
  rw [destroyLogList]

theorem destroyLogList_append (d : Bool) (xs ys : List Node) :
    destroyLogList d (xs ++ ys) = destroyLogList d xs ++ destroyLogList d ys := by
  induction xs with
  | nil => simp
  | cons x xs ih => simp [ih]

mutual
theorem destroyLog_false : ∀ n : Node, destroyLog false n = []
  | .mk _ _ _ _ _ _ kids hook _ _ => by
    rw [destroyLog, destroyLogList_false kids]; simp
theorem destroyLogList_false : ∀ ks : List Node, destroyLogList false ks = []
  | [] => by simp
  | k :: ks => by simp [destroyLog_false k, destroyLogList_false ks]
end

/-- A node whose children and hook are unchanged has the same destructor log. -/
theorem destroyLog_congr (d : Bool) {n n' : Node} (hk : n'.kids = n.kids) (hh : n'.hook = n.hook) :
    destroyLog d n' = destroyLog d n := by
  rw [destroyLog_eq d n', destroyLog_eq d n, hk, hh]

/-- a freshly created child contributes nothing -/
theorem destroyLog_fresh (d : Bool) (name : Option Bytes) (ty : Nat) :
    destroyLog d { name := name, ty := ty } = [] := by
  simp [destroyLog_eq]

/-- Replacing child `i`. -/
theorem destroyLogList_set_perm (d : Bool) {L : List Nat} {k k' : Node} :
    ∀ (ks : List Node) (i : Nat), ks[i]? = some k →
      (destroyLog d k).Perm (L ++ destroyLog d k') →
      (destroyLogList d ks).Perm (L ++ destroyLogList d (ks.set i k'))
  | [], _, h, _ => by simp at h
  | x :: xs, 0, h, hp => by
    simp at h; subst h
    simp only [List.set_cons_zero, destroyLogList_cons]
    rw [← List.append_assoc]
    exact hp.append_right _
  | x :: xs, i+1, h, hp => by
    simp at h
    have ih := destroyLogList_set_perm d xs i h hp
    simp only [List.set_cons_succ, destroyLogList_cons]
    refine (ih.append_left (destroyLog d x)).trans ?_
    simp only [← List.append_assoc]
    exact (List.perm_append_comm).append_right _

/-- Erasing child `i`. -/
theorem destroyLogList_eraseIdx_perm (d : Bool) {k : Node} :
    ∀ (ks : List Node) (i : Nat), ks[i]? = some k →
      (destroyLogList d ks).Perm (destroyLog d k ++ destroyLogList d (ks.eraseIdx i))
  | [], _, h => by simp at h
  | x :: xs, 0, h => by
    simp at h; subst h
    simp
  | x :: xs, i+1, h => by
    simp at h
    have ih := destroyLogList_eraseIdx_perm d xs i h
    simp only [List.eraseIdx_cons_succ, destroyLogList_cons]
    refine (ih.append_left (destroyLog d x)).trans ?_
    simp only [← List.append_assoc]
    exact (List.perm_append_comm).append_right _

/-! ### `Node.modify` -/

theorem get?_nil (n : Node) : n.get? [] = some n := by rw [Node.get?]
theorem modify_nil (f : Node → Node) (n : Node) : n.modify f [] = f n := by rw [Node.modify]

/-- If the addressed node `n` trades the hooks `L` for becoming `f n`, so does the root. -/
theorem modify_perm (d : Bool) (f : Node → Node) {L : List Nat} :
    ∀ (p : Path) (root n : Node), root.get? p = some n →
      (destroyLog d n).Perm (L ++ destroyLog d (f n)) →
      (destroyLog d root).Perm (L ++ destroyLog d (root.modify f p))
  | [], root, n, h, hp => by
    rw [get?_nil] at h; cases h
    rw [modify_nil]; exact hp
  | i :: p, root, n, h, hp => by
    rw [Node.get?] at h
    rw [Node.modify]
    split at h
    · rename_i k hk
      have ih := modify_perm d f p k n h hp
      rw [destroyLog_eq d root, destroyLog_eq d { root with kids := _ }]
      simp only [← List.append_assoc]
      exact (destroyLogList_set_perm d root.kids i hk ih).append_right _
    · cases h

/-- Special case: the replacement has the same hooks. -/
theorem modify_eq (d : Bool) (f : Node → Node) (p : Path) (root n : Node)
    (h : root.get? p = some n) (he : destroyLog d (f n) = destroyLog d n) :
    (destroyLog d root).Perm (destroyLog d (root.modify f p)) := by
  have := modify_perm d f (L := []) p root n h (by simp [he])
  simpa using this

/-! ### node-level operations -/

theorem listSearch_get : ∀ (ks : List Node) (nm : Bytes) (i j : Nat) (v : Node),
    listSearch ks nm i = some (j, v) → i ≤ j ∧ ks[j - i]? = some v
  | [], _, _, _, _, h => by simp [listSearch] at h
  | k :: ks, nm, i, j, v, h => by
    rw [listSearch] at h
    split at h
    · simp at h; obtain ⟨rfl, rfl⟩ := h; simp
    · obtain ⟨h1, h2⟩ := listSearch_get ks nm (i+1) j v h
      refine ⟨by omega, ?_⟩
      have : j - i = (j - (i+1)) + 1 := by omega
      rw [this]; simpa using h2

theorem eraseIdx_node_perm (d : Bool) (s victim : Node) (idx : Nat) (hv : s.kids[idx]? = some victim) :
    (destroyLog d s).Perm
      (destroyLog d victim ++ destroyLog d { s with kids := s.kids.eraseIdx idx }) := by
  rw [destroyLog_eq d s, destroyLog_eq d { s with kids := _ }]
  simp only [← List.append_assoc]
  exact (destroyLogList_eraseIdx_perm d _ _ hv).append_right _

theorem removeElem_perm (d : Bool) (parent n' : Node) (idx : Nat) (log : List Nat)
    (h : parent.removeElem d idx = some (n', log)) :
    (destroyLog d parent).Perm (log ++ destroyLog d n') := by
  unfold Node.removeElem at h
  split at h
  · cases h
  · split at h
    · cases h
    · rename_i victim hv
      simp at h; obtain ⟨rfl, rfl⟩ := h
      exact eraseIdx_node_perm d parent victim idx hv

theorem remove_perm (d : Bool) (parent n' : Node) (name : Option Bytes) (log : List Nat)
    (h : parent.remove d name = some (n', log)) :
    (destroyLog d parent).Perm (log ++ destroyLog d n') := by
  unfold Node.remove at h
  repeat' split at h
  all_goals try cases h
  simp only at h
  repeat' split at h
  all_goals try cases h
  rename_i sp hsp _ idx victim hls
  have hv := (listSearch_get _ _ _ _ _ hls).2
  simp only [Nat.sub_zero] at hv
  exact modify_perm d _ _ parent sp hsp (eraseIdx_node_perm d sp victim idx hv)

theorem create_eq (d : Bool) (parent p' : Node) (name : Option Bytes) (ty : Nat)
    (h : parent.create name ty = some p') : destroyLog d p' = destroyLog d parent := by
  unfold Node.create at h
  split at h
  · cases h
  · cases h
    rw [destroyLog_eq d parent, destroyLog_eq d { parent with kids := _ }]
    simp [destroyLogList_append, destroyLog_fresh]

theorem add_perm (d ov : Bool) (parent n' : Node) (name : Option Bytes) (ty : Int) (i : Nat)
    (log : List Nat) (h : parent.add d ov name ty = some (n', i, log)) :
    (destroyLog d parent).Perm (log ++ destroyLog d n') := by
  unfold Node.add at h
  iterate 3 (split at h; · cases h)
  generalize (if (parent.ty == T_ARRAY || parent.ty == T_LIST) = true then none else name) = name0 at h
  simp only at h
  cases name0 <;> simp only at h <;>
  · split at h
    · cases h
    split at h
    · cases h
    split at h
    · cases h
    rename_i p'' hc
    simp only [Option.some.injEq, Prod.mk.injEq] at h
    obtain ⟨rfl, -, rfl⟩ := h
    rw [create_eq d _ _ _ _ hc]
    split
    · split
      · rename_i p' l h
        exact remove_perm d parent p' _ l h
      · simp
    · simp


/-- the setter keeps the children and the hook of the node it is applied to -/
def Keeps (f : Node → Option Node) : Prop :=
  ∀ n n', f n = some n' → n'.kids = n.kids ∧ n'.hook = n.hook

theorem Keeps.destroyLog_eq {f : Node → Option Node} (hf : Keeps f) (d : Bool) {n n' : Node}
    (h : f n = some n') : destroyLog d n' = destroyLog d n :=
  destroyLog_congr d (hf n n' h).1 (hf n n' h).2

theorem keeps_setInt (auto : Bool) (v : Int) : Keeps (fun n => n.setInt auto v) := by
  intro n n' h
  simp only [Node.setInt] at h
  repeat' split at h
  all_goals first | (cases h; exact ⟨rfl, rfl⟩) | cases h

theorem keeps_setInt64 (auto : Bool) (v : Int) : Keeps (fun n => n.setInt64 auto v) := by
  intro n n' h
  simp only [Node.setInt64] at h
  repeat' split at h
  all_goals first | (cases h; exact ⟨rfl, rfl⟩) | cases h

theorem keeps_setFloat (auto : Bool) (b : Nat) : Keeps (fun n => n.setFloat auto b) := by
  intro n n' h
  simp only [Node.setFloat] at h
  repeat' split at h
  all_goals first | (cases h; exact ⟨rfl, rfl⟩) | cases h

theorem keeps_setBool (v : Int) : Keeps (fun n => n.setBool v) := by
  intro n n' h
  simp only [Node.setBool] at h
  repeat' split at h
  all_goals first | (cases h; exact ⟨rfl, rfl⟩) | cases h

theorem keeps_setString (v : Option Bytes) : Keeps (fun n => n.setString v) := by
  intro n n' h
  simp only [Node.setString] at h
  repeat' split at h
  all_goals first | (cases h; exact ⟨rfl, rfl⟩) | cases h

theorem keeps_setFormat (f : Nat) : Keeps (fun n => n.setFormat f) := by
  intro n n' h
  simp only [Node.setFormat] at h
  repeat' split at h
  all_goals first | (cases h; exact ⟨rfl, rfl⟩) | cases h

theorem destroyLogList_set_eq (d : Bool) {k k' : Node} (he : destroyLog d k' = destroyLog d k) :
    ∀ (ks : List Node) (i : Nat), ks[i]? = some k →
      destroyLogList d (ks.set i k') = destroyLogList d ks
  | [], _, h => by simp at h
  | x :: xs, 0, h => by
    simp at h; subst h
    simp [he]
  | x :: xs, i+1, h => by
    simp at h
    simp [destroyLogList_set_eq d he xs i h]

theorem setKid_eq (d : Bool) (n k k' : Node) (i : Nat) (hk : n.kids[i]? = some k)
    (he : destroyLog d k' = destroyLog d k) :
    destroyLog d { n with kids := n.kids.set i k' } = destroyLog d n := by
  rw [destroyLog_eq d n, destroyLog_eq d { n with kids := _ }]
  simp only [destroyLogList_set_eq d he n.kids i hk]

theorem setElem_eq (d : Bool) {setter : Node → Option Node} (hs : Keeps setter) (ty : Nat)
    (n n' : Node) (idx : Int) (i : Nat) (h : n.setElem setter ty idx = some (n', i)) :
    destroyLog d n' = destroyLog d n := by
  unfold Node.setElem at h
  split at h
  · cases h
  split at h
  · split at h
    · cases h
    split at h
    · cases h
    rename_i n1 hc
    simp only at h
    split at h
    · cases h
    rename_i e he
    split at h
    · cases h
    rename_i e' hse
    simp only [Option.some.injEq, Prod.mk.injEq] at h
    obtain ⟨rfl, -⟩ := h
    rw [setKid_eq d n1 e e' _ he (hs.destroyLog_eq d hse)]
    exact create_eq d n n1 _ _ hc
  · split at h
    · cases h
    rename_i e he
    have he' : n.kids[idx.toNat]? = some e := by
      unfold getElem at he
      split at he
      · exact he
      · cases he
    split at h
    · cases h
    rename_i e' hse
    simp only [Option.some.injEq, Prod.mk.injEq] at h
    obtain ⟨rfl, -⟩ := h
    exact setKid_eq d n e e' _ he' (hs.destroyLog_eq d hse)


/-! ### the transition function -/

/-- the conservation law for one transition, for the destructor flag `d` -/
def Conserves (d : Bool) (s : State) (r : State × Out) : Prop :=
  (destroyLog d s.cfg.root).Perm (r.2.log ++ destroyLog d r.1.cfg.root)

theorem conserves_same (d : Bool) (s s' : State) (res : Res) (h : s'.cfg.root = s.cfg.root) :
    Conserves d s (s', { res := res }) := by
  simp [Conserves, h]

theorem conserves_query (d : Bool) (s : State) (p : Path) (f : Node → Res) :
    Conserves d s (query s p f) := by
  unfold query; split <;> exact conserves_same d s s _ rfl

theorem conserves_setAt (d : Bool) (s : State) (p : Path) {f : Node → Option Node} (hf : Keeps f) :
    Conserves d s (setAt s p f) := by
  unfold setAt
  split
  · exact conserves_same d s s _ rfl
  · rename_i n hn
    split
    · exact conserves_same d s s _ rfl
    · rename_i n' hn'
      simpa [Conserves, State.withRoot] using
        modify_eq d (fun _ => n') p s.cfg.root n hn (hf.destroyLog_eq d hn')

theorem conserves_setElemAt (d : Bool) (s : State) (p : Path) (idx : Int) (ty : Nat)
    {f : Node → Option Node} (hf : Keeps f) :
    Conserves d s (setElemAt s p idx f ty) := by
  unfold setElemAt
  split
  · exact conserves_same d s s _ rfl
  · rename_i n hn
    split
    · exact conserves_same d s s _ rfl
    · rename_i n' i hn'
      simpa [Conserves, State.withRoot] using
        modify_eq d (fun _ => n') p s.cfg.root n hn (setElem_eq d hf ty n n' idx i hn')

theorem conserves_structural (d : Bool) (s : State) (p : Path) (n n' : Node) (log : List Nat)
    (res : Res) (hn : s.cfg.root.get? p = some n)
    (h : (destroyLog d n).Perm (log ++ destroyLog d n')) :
    Conserves d s (s.withRoot (s.cfg.root.modify (fun _ => n') p), { res := res, log := log }) := by
  simpa [Conserves, State.withRoot] using modify_perm d (fun _ => n') p s.cfg.root n hn h

theorem destroyLog_emptyRoot (d : Bool) : destroyLog d { ty := T_GROUP } = [] := by
  simp [destroyLog_eq]

theorem conserves_ite (d : Bool) (s : State) (c : Bool) (a b : State × Out)
    (ha : Conserves d s a) (hb : Conserves d s b) : Conserves d s (if c = true then a else b) := by
  split <;> assumption

/-- the operations excluded from the conservation law -/
def isSpecial : Op → Bool
  | .setHook .. => true
  | .setDestructor _ => true
  | .read _ => true
  | _ => false

theorem step_conserves (s : State) (op : Op) (hop : isSpecial op = false) :
    Conserves s.cfg.destructor s (step s op) := by
  cases op <;> simp only [isSpecial] at hop <;> simp only [step]
  all_goals first
    | exact conserves_query _ _ _ _
    | exact conserves_same _ _ _ _ rfl
    | exact conserves_same _ _ _ _ (writeFile_root _ _ _)
    | exact conserves_setAt _ _ _ (keeps_setInt _ _)
    | exact conserves_setAt _ _ _ (keeps_setInt64 _ _)
    | exact conserves_setAt _ _ _ (keeps_setBool _)
    | exact conserves_setAt _ _ _ (keeps_setString _)
    | exact conserves_setAt _ _ _ (keeps_setFormat _)
    | exact conserves_setElemAt _ _ _ _ _ (keeps_setInt _ _)
    | exact conserves_setElemAt _ _ _ _ _ (keeps_setInt64 _ _)
    | exact conserves_setElemAt _ _ _ _ _ (keeps_setBool _)
    | exact conserves_setElemAt _ _ _ _ _ (keeps_setString _)
    | skip
  case add p name ty =>
    split
    · exact conserves_same _ _ _ _ rfl
    rename_i n hn
    split
    · exact conserves_same _ _ _ _ rfl
    rename_i n' i log h
    exact conserves_structural _ s p n n' log _ hn (add_perm _ _ n n' name ty i log h)
  case remove p name =>
    split
    · exact conserves_same _ _ _ _ rfl
    rename_i n hn
    split
    · exact conserves_same _ _ _ _ rfl
    rename_i n' log h
    exact conserves_structural _ s p n n' log _ hn (remove_perm _ n n' name log h)
  case removeElem p idx =>
    split
    · exact conserves_same _ _ _ _ rfl
    rename_i n hn
    split
    · exact conserves_same _ _ _ _ rfl
    rename_i n' log h
    exact conserves_structural _ s p n n' log _ hn (removeElem_perm _ n n' idx log h)
  case setFloat p b =>
    split
    · exact conserves_same _ _ _ _ rfl
    split
    · exact conserves_same _ _ _ _ rfl
    · exact conserves_setAt _ _ _ (keeps_setFloat _ _)
  case setFloatElem p idx b =>
    exact conserves_ite _ _ _ _ _ (conserves_same _ _ _ _ rfl)
      (conserves_setElemAt _ _ _ _ _ (keeps_setFloat _ _))
  case setHook => cases hop
  case read => cases hop
  case clear =>
    simp [Conserves, Config.clear, State.withCfg, destroyLog_emptyRoot]
  case destroy =>
    simp [Conserves, Config.init, State.withCfg, destroyLog_emptyRoot]


theorem perm_nodup_parts {L A B : List Nat} (h : L.Perm (A ++ B)) (hn : L.Nodup) :
    A.Nodup ∧ B.Nodup ∧ ∀ x ∈ A, x ∉ B := by
  have h2 := (h.nodup_iff).mp hn
  rw [List.nodup_append] at h2
  obtain ⟨ha, hb, hab⟩ := h2
  exact ⟨ha, hb, fun x hx hxb => hab x hx x hxb rfl⟩

theorem setHook_silent (s : State) (p : Path) (h : Nat) : (step s (.setHook p h)).2.log = [] := by
  simp only [step]; split <;> rfl

theorem no_destructor (s : State) (op : Op) (hd : s.cfg.destructor = false)
    (hop : ∀ src, op ≠ .read src) : (step s op).2.log = [] := by
  by_cases hs : isSpecial op = false
  · have := step_conserves s op hs
    rw [hd] at this
    simp only [Conserves, destroyLog_false] at this
    simpa using this
  · cases op <;> simp [isSpecial] at hs
    · exact setHook_silent _ _ _
    · rfl
    · exact absurd rfl (hop _)

theorem removeElem_log (s : State) (p : Path) (i : Nat) (n victim : Node)
    (hn : s.cfg.root.get? p = some n) (ha : n.isAggregate = true) (hv : n.kids[i]? = some victim) :
    (step s (.removeElem p i)).2.log = destroyLog s.cfg.destructor victim := by
  simp [step, hn, Node.removeElem, ha, hv]

theorem destroy_log (s : State) :
    (step s .destroy).2.log = destroyLog s.cfg.destructor s.cfg.root ∧
    destroyLog true (step s .destroy).1.cfg.root = [] := by
  simp [step, State.withCfg, Config.init, destroyLog_emptyRoot]

/-! ### the parser loop -/

def actCtx : ActOut → ParseCtx
  | .ok c => c
  | .abort c => c
  | .crash c => c

structure LoopRel (R : ParseCtx → ParseCtx → Prop) : Prop where
  refl : ∀ c, R c c
  trans : ∀ {a b c}, R a b → R b c → R a c
  yyerror : ∀ c line text, R c (c.yyerror line text)
  act : ∀ act c v line file, R c (actCtx (runAction act c v line file))
  incl : ∀ (c : ParseCtx) text file line,
    R c { c with cfg := { c.cfg with errText := some text, errFile := file, errLine := line } }

theorem yyparseLoop_rel {R : ParseCtx → ParseCtx → Prop} (hR : LoopRel R) (E : ParserEnv) :
    ∀ (fuel : Nat) (stack : List (Nat × TokVal)) (la : Lookahead) (s : ScanState) (ctx : ParseCtx),
      R ctx (yyparseLoop E fuel stack la s ctx).2.1 := by
  intro fuel
  induction fuel with
  | zero => intro stack la s ctx; rw [yyparseLoop]; exact hR.refl _
  | succ fuel ih =>
    intro stack la s ctx
    rw [yyparseLoop.eq_def]
    split
    · rename_i h; cases h
    rename_i stack la s ctx _ _ _ _ _ fuel' hf
    cases hf
    extract_lets P v reduce syntaxError src fetched
    have hsyn : ∀ s c, R c (syntaxError s c).2.1 := fun s c => hR.yyerror _ _ _
    have hfetch : R ctx fetched.2.2.2 := by
      simp only [fetched]
      split
      · exact hR.refl _
      · split
        · exact hR.refl _
        · exact hR.refl _
        · exact hR.incl _ _ _ _
        · exact hR.refl _
        · exact hR.refl _
    have hred : ∀ rule la s c, R c (reduce rule la s c).2.1 := by
      intro rule la s c
      have ha := hR.act (E.acts.getD rule .unknown) c v s.buf.lineno s.currentFilename
      simp only [reduce]
      split
      · rename_i c' heq; rw [heq] at ha; exact ha
      · rename_i c' heq; rw [heq] at ha; exact ha
      · rename_i c' heq; rw [heq] at ha; exact hR.trans ha (ih _ _ _ _)
    clear_value fetched syntaxError reduce
    split
    · exact hR.refl _
    rename_i state v0 tail
    split
    · exact hR.yyerror _ _ _
    split
    · exact hR.refl _
    extract_lets r dflt yyn
    have hdflt : ∀ la s c, R c (dflt la s c).2.1 := by
      intro la s c
      simp only [dflt]
      split
      · exact hsyn _ _
      · exact hred _ _ _ _
    clear_value dflt
    split
    · exact hdflt _ _ _
    rcases fetched with ⟨s1, la1, r1, c1⟩
    simp only at hfetch
    split
    · rename_i heq; cases heq; exact hfetch
    · rename_i heq; cases heq; exact hfetch
    · rename_i heq; cases heq
      extract_lets tok idx a
      split
      · exact hR.trans hfetch (hdflt _ _ _)
      split
      · split
        · exact hR.trans hfetch (hsyn _ _)
        · exact hR.trans hfetch (hred _ _ _ _)
      · exact hR.trans hfetch (ih _ _ _ _)


theorem modify_eq_all (d : Bool) (f : Node → Node)
    (hf : ∀ n, destroyLog d (f n) = destroyLog d n) :
    ∀ (p : Path) (root : Node), destroyLog d (root.modify f p) = destroyLog d root
  | [], root => by rw [modify_nil]; exact hf root
  | i :: p, root => by
    rw [Node.modify]
    split
    · rename_i k hk
      exact setKid_eq d root k _ i hk (modify_eq_all d f hf p k)
    · rfl

/-- hooks already logged plus hooks still attached -/
def total (c : ParseCtx) : List Nat := c.log ++ destroyLog c.cfg.destructor c.cfg.root

/-- `c'` is reachable from `c` by steps that keep the destructor flag and the total -/
def Rel (c c' : ParseCtx) : Prop :=
  c'.cfg.destructor = c.cfg.destructor ∧ (total c).Perm (total c')

theorem Rel.refl (c : ParseCtx) : Rel c c := ⟨rfl, List.Perm.refl _⟩

theorem Rel.trans {a b c : ParseCtx} (h1 : Rel a b) (h2 : Rel b c) : Rel a c :=
  ⟨h2.1.trans h1.1, h1.2.trans h2.2⟩

theorem rel_of_eq {c c' : ParseCtx} (h1 : c'.cfg.destructor = c.cfg.destructor)
    (h2 : c'.cfg.root = c.cfg.root) (h3 : c'.log = c.log) : Rel c c' := by
  refine ⟨h1, ?_⟩
  simp [total, h1, h2, h3]

theorem rel_yyerror (c : ParseCtx) (line : Nat) (text : Bytes) : Rel c (c.yyerror line text) := by
  unfold ParseCtx.yyerror
  split
  · exact Rel.refl c
  · exact rel_of_eq rfl rfl rfl

theorem rel_modify_all (c : ParseCtx) (p : Path) (f : Node → Node)
    (hf : ∀ n, destroyLog c.cfg.destructor (f n) = destroyLog c.cfg.destructor n) :
    Rel c (c.modify p f) := by
  refine ⟨rfl, ?_⟩
  simp [total, ParseCtx.modify, modify_eq_all _ f hf]

theorem rel_modify_at (c : ParseCtx) (p : Path) (n n' : Node) (hn : c.cfg.root.get? p = some n)
    (he : destroyLog c.cfg.destructor n' = destroyLog c.cfg.destructor n) :
    Rel c (c.modify p (fun _ => n')) := by
  refine ⟨rfl, ?_⟩
  simp only [total, ParseCtx.modify]
  exact (modify_eq _ (fun _ => n') p c.cfg.root n hn he).append_left _

theorem rel_modify_log (c : ParseCtx) (p : Path) (n n' : Node) (log : List Nat)
    (hn : c.cfg.root.get? p = some n)
    (hp : (destroyLog c.cfg.destructor n).Perm (log ++ destroyLog c.cfg.destructor n'))
    (par set : Option Path) :
    Rel c { (c.modify p (fun _ => n')) with parent := par, setting := set, log := c.log ++ log } := by
  refine ⟨rfl, ?_⟩
  simp only [total, ParseCtx.modify, List.append_assoc]
  exact (modify_perm _ (fun _ => n') p c.cfg.root n hn hp).append_left _

theorem rel_capture (c : ParseCtx) (p : Path) (line : Nat) (file : Option Bytes) :
    Rel c (c.capture p line file) :=
  rel_modify_all c p _ (fun _ => destroyLog_congr _ rfl rfl)

theorem nodeAt_some {c : ParseCtx} {o : Option Path} {pp : Path} {pn : Node}
    (ho : o = some pp) (h : c.nodeAt o = some pn) : c.cfg.root.get? pp = some pn := by
  subst ho; exact h

theorem rel_actAggStart (c : ParseCtx) (ty line : Nat) (file : Option Bytes) :
    Rel c (actCtx (actAggStart c ty line file)) := by
  unfold actAggStart
  split
  · split
    · rename_i pp pn hpp hpn
      have hn := nodeAt_some hpp hpn
      split
      · rename_i pn' i log hadd
        simp only [actCtx]
        exact (rel_modify_log c pp pn pn' log hn (add_perm _ _ pn pn' _ _ i log hadd) _ _).trans
          (rel_capture _ _ _ _)
      · exact Rel.refl c
    · exact Rel.refl c
  · split
    · rename_i sp _
      split
      · simp only [actCtx]
        have h1 : Rel c (c.modify sp (fun n => { n with ty := ty })) :=
          rel_modify_all c _ _ (fun _ => destroyLog_congr _ rfl rfl)
        exact h1.trans (rel_of_eq rfl rfl rfl)
      · exact Rel.refl c
    · exact Rel.refl c

theorem Keeps.getD {f : Node → Option Node} (hf : Keeps f) (d : Bool) (n : Node) :
    destroyLog d ((f n).getD n) = destroyLog d n := by
  cases h : f n with
  | none => rfl
  | some n' => exact hf.destroyLog_eq d h

theorem rel_actValue (c : ParseCtx) {setter : Node → Option Node} (hs : Keeps setter) (ty : Nat)
    (fmt : Option Nat) (line : Nat) (file : Option Bytes) (err : Bytes) :
    Rel c (actCtx (actValue c setter ty fmt line file err)) := by
  unfold actValue
  extract_lets setFmt
  have hsf : ∀ (d : Bool) (n : Node), destroyLog d (setFmt n) = destroyLog d n := by
    intro d n
    simp only [setFmt]
    split
    · exact (keeps_setFormat _).getD d n
    · rfl
  clear_value setFmt
  split
  · split
    · rename_i pp pn hpp hpn
      have hn := nodeAt_some hpp hpn
      split
      · exact rel_yyerror _ _ _
      · rename_i pn' i hse
        simp only [actCtx]
        have h1 : Rel c (c.modify pp (fun _ => pn')) :=
          rel_modify_at c pp pn pn' hn (setElem_eq _ hs ty pn pn' _ i hse)
        have h2 := rel_modify_all (c.modify pp (fun _ => pn')) (pp ++ [i]) setFmt (hsf _)
        exact (h1.trans h2).trans (rel_capture _ _ _ _)
    · exact Rel.refl c
  · split
    · rename_i sp _
      split
      · simp only [actCtx]
        refine rel_modify_all c sp _ (fun n => ?_)
        rw [hsf, hs.getD]
      · exact Rel.refl c
    · exact Rel.refl c

theorem rel_runAction (act : ParseAct) (c : ParseCtx) (v : TokVal) (line : Nat)
    (file : Option Bytes) : Rel c (actCtx (runAction act c v line file)) := by
  cases act <;> simp only [runAction]
  case none => exact Rel.refl c
  case unknown => exact Rel.refl c
  case arrayStart => exact rel_actAggStart _ _ _ _
  case listStart => exact rel_actAggStart _ _ _ _
  case groupStart => exact rel_actAggStart _ _ _ _
  case valBool => exact rel_actValue _ (keeps_setBool _) _ _ _ _ _
  case valInt => exact rel_actValue _ (keeps_setInt _ _) _ _ _ _ _
  case valHex => exact rel_actValue _ (keeps_setInt _ _) _ _ _ _ _
  case valInt64 => exact rel_actValue _ (keeps_setInt64 _ _) _ _ _ _ _
  case valHex64 => exact rel_actValue _ (keeps_setInt64 _ _) _ _ _ _ _
  case valFloat => exact rel_actValue _ (keeps_setFloat _ _) _ _ _ _ _
  case stringFirst => exact rel_of_eq rfl rfl rfl
  case stringNext => exact rel_of_eq rfl rfl rfl
  case valString =>
    have h1 : Rel c { c with str := none } := rel_of_eq rfl rfl rfl
    exact h1.trans (rel_actValue _ (keeps_setString _) _ _ _ _ _)
  case aggEnd =>
    split
    · exact rel_of_eq rfl rfl rfl
    · exact rel_of_eq rfl rfl rfl
    · exact Rel.refl c
  case settingName =>
    have habort : Rel c (({ c with setting := none } : ParseCtx).yyerror line
        Generated.ERR_DUPLICATE_SETTING) :=
      Rel.trans (b := { c with setting := none }) (rel_of_eq rfl rfl rfl) (rel_yyerror _ _ _)
    split
    · rename_i pp pn hpp hpn
      have hn := nodeAt_some hpp hpn
      split
      · rename_i pn' i log hadd
        simp only [actCtx]
        exact (rel_modify_log c pp pn pn' log hn (add_perm _ _ pn pn' _ _ i log hadd) _ _).trans
          (rel_capture _ _ _ _)
      · exact habort
    · exact habort

/-! ### reads -/

theorem loopRel_Rel : LoopRel Rel where
  refl := Rel.refl
  trans := Rel.trans
  yyerror := rel_yyerror
  act := rel_runAction
  incl := fun _ _ _ _ => rel_of_eq rfl rfl rfl

theorem yyparse_rel (E : ParserEnv) (fuel : Nat) (s : ScanState) (ctx : ParseCtx) :
    Rel ctx (yyparse E fuel s ctx).2.1 :=
  yyparseLoop_rel loopRel_Rel E fuel _ _ s ctx

theorem readCore_conserves (w : World) (c : Config) (filename : Option Bytes) (inp : Bytes)
    (fuel : Nat) :
    (destroyLog c.destructor c.root).Perm
      ((readCore w c filename inp fuel).dtorLog ++
        destroyLog c.destructor (readCore w c filename inp fuel).cfg.root) := by
  unfold readCore
  extract_lets c0 sc0
  split
  rename_i c1 log0 hclear
  extract_lets rt c2
  split
  rename_i s ctx r hres
  have hrel := yyparse_rel (theEnv w c2 fuel) fuel sc0 { cfg := c2 }
  rw [hres] at hrel
  obtain ⟨hd, hp⟩ := hrel
  simp only [c0, Config.clear, Config.setError, Prod.mk.injEq] at hclear
  obtain ⟨rfl, rfl⟩ := hclear
  clear hres
  simp only [total, c2, rt, List.nil_append] at hp hd
  rw [destroyLog_eq _ { ty := T_GROUP, file := filename }] at hp
  simp only [destroyLogList_nil, List.nil_append, bne_self_eq_false, Bool.false_and,
    Bool.false_eq_true, if_false] at hp
  clear_value c2 sc0
  have hroot : ∀ (a b : Config), (if (r != ParseResult.accept) = true then a else b).root =
      if (r != ParseResult.accept) = true then a.root else b.root := by
    intro a b; split <;> rfl
  simp only [hroot, ite_self, List.append_assoc]
  rw [hd] at hp
  simpa using hp.append_left (destroyLog c.destructor c.root)

theorem read_conserves (w : World) (c : Config) (src : Source) (fuel : Nat) :
    (destroyLog c.destructor c.root).Perm
      ((read w c src fuel).dtorLog ++ destroyLog c.destructor (read w c src fuel).cfg.root) := by
  unfold read
  split
  · exact readCore_conserves _ _ _ _ _
  · exact readCore_conserves _ _ _ _ _
  · split
    · simp [Config.setError]
    · exact readCore_conserves _ _ _ _ _

theorem step_read_conserves (s : State) (src : Source) :
    Conserves s.cfg.destructor s (step s (.read src)) := by
  simp only [step, Conserves, State.withCfg]
  exact read_conserves _ _ _ _

end Libconfig.C16P
