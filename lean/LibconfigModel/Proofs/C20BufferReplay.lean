import LibconfigModel.Proofs.C20BufferRun
/-
  C20B, kernel-evaluated replays at the constants of scanner.c (`YY_BUF_SIZE` 16384,
  `YY_READ_BUF_SIZE` 8192), part 1: the integer fields read by read while a token of
  16383 bytes arrives, and the same execution with the seeded growth test.
-/
namespace Libconfig.C20BP

open Libconfig Libconfig.FlexBuffer

theorem longTok_length : longTok.length = 36385 := by decide +kernel

/-- first read: `num_to_read = 16384 - 0 - 1`, clamped to 8192 -/
theorem replay_read1 :
    sizes (run scannerParams [.eob 8192] (create scannerParams longTok)) =
      (16384, 8192, 0, 0, 28193) := by decide +kernel

/-- second read: 8192 bytes are kept, `num_to_read = 16384 - 8192 - 1 = 8191`; the buffer is
now full: `yy_n_chars = YY_BUF_SIZE - 1` -/
theorem replay_read2 :
    sizes (run scannerParams [.eob 8192, .eob 8192] (create scannerParams longTok)) =
      (16384, 16383, 0, 8192, 20002) := by decide +kernel

/-- third read: the token in progress fills the buffer, `num_to_read = 0`, the buffer is
doubled to 32768, `num_to_read = 32768 - 16383 - 1 = 16384`, clamped to 8192 -/
theorem replay_read3 :
    sizes (run scannerParams [.eob 8192, .eob 8192, .eob 8192] (create scannerParams longTok)) =
      (32768, 24575, 0, 16383, 11810) := by decide +kernel

/-- The same three reads with `while ( num_to_read < 0 )`: the third `YY_INPUT` is asked for
0 bytes (`fread` returns 0, which the scanner takes for end of input): `EOB_ACT_LAST_MATCH`
although the stream still holds 20002 bytes and offered 8192. -/
theorem replay_seeded :
    (eobStep seededParams 8192
      (run seededParams [.eob 8192, .eob 8192] (create seededParams longTok))).1.log.any zeroRead = true ∧
    (eobStep seededParams 8192
      (run seededParams [.eob 8192, .eob 8192] (create seededParams longTok))).2 = .lastMatch ∧
    sizes (eobStep seededParams 8192
      (run seededParams [.eob 8192, .eob 8192] (create seededParams longTok))).1 =
      (16384, 16383, 0, 16383, 20002) := by decide +kernel

end Libconfig.C20BP
