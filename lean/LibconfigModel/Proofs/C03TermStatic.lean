import LibconfigModel.Proofs.C02Static
/-
  C03T, static part: a ranking certificate for the reductions of the LALR automaton encoded
  in the translated bison tables.

  `C02P.edges` (checked by `C02P.edges_ok`) is a set of automaton edges that contains every
  move `yyparseLoop` can make, so the state stack is always a path of certificate edges from
  state 0.  A reduction by rule `r` in state `s` pops `yyr2[r]` entries: the state `p` it
  uncovers is the end of a backward path of `yyr2[r]` certificate edges from `s`, and the
  state pushed is the goto of `p` on the left-hand side.  `rankOK` checks — for every state,
  for the default reduction and for every explicit reduce entry of the action table, whatever
  the lookahead, and for EVERY such `p` — that the pushed state has a strictly smaller rank
  than `s`.  So along a run the rank of the top state strictly decreases with every iteration
  that reduces; it can only rise again by a shift.  The ranks are at most `R`.

  The check reads the tables exactly as `yyparseLoop` does (`C02P.actAt`, `C02P.gotoTo`,
  `yydefact`, `yyr1`, `yyr2`); it does not mention the hand-written grammar.
-/
namespace Libconfig.C03T
open Libconfig

/-- every backward path of `n` certificate edges that starts in `s` ends in a state
satisfying `k` -/
def backAll (ed : List (Nat × Nat)) (k : Nat → Bool) : Nat → Nat → Bool
  | 0, s => k s
  | n+1, s => ed.all fun e => !(Nat.beq e.2 s) || backAll ed k n e.1

/-- the rank of a state (`0` outside the certificate) -/
def rkOf (rk : List Nat) (s : Nat) : Nat := rk.getD s 0

/-- reducing by rule `r` in state `s` lowers the rank, whatever state the pop uncovers -/
def redRankOK (P : LalrTables) (ed : List (Nat × Nat)) (rk : List Nat) (s r : Nat) : Bool :=
  backAll ed (fun p => Nat.blt (rkOf rk (C02P.gotoTo P p (P.r1.get r).toNat)) (rkOf rk s))
    (P.r2.get r).toNat s

/-- the explicit action for the lookahead kind `tok` in state `s`, if it is a reduction,
lowers the rank -/
def entryRankOK (P : LalrTables) (ed : List (Nat × Nat)) (rk : List Nat) (s tok : Nat) : Bool :=
  match C02P.actAt P s tok with
  | none => true
  | some a => if a ≤ 0 then (a == P.tableNinf || redRankOK P ed rk s (-a).toNat) else true

/-- every reduction available in state `s` (default or explicit) lowers the rank -/
def stateRankOK (P : LalrTables) (ed : List (Nat × Nat)) (rk : List Nat) (s : Nat) : Bool :=
  (Nat.beq (P.defact.get s).toNat 0 || redRankOK P ed rk s (P.defact.get s).toNat) &&
  C02P.allBelow P.ntokens (entryRankOK P ed rk s)

/-- the whole ranking check: all ranks are at most `R`, and in every state but the final one
(where `yyparseLoop` accepts before acting) every reduction lowers the rank -/
def rankOK (P : LalrTables) (ed : List (Nat × Nat)) (rk : List Nat) (R : Nat) : Bool :=
  C02P.allBelow P.nstates (fun s => Nat.ble (rkOf rk s) R) &&
  C02P.allBelow P.nstates (fun s => Nat.beq s P.final || stateRankOK P ed rk s)

/-- the ranking certificate for the compiled tables: the length of the longest chain of
reductions that can start in each of the 47 states (found by a fixpoint computation; the
final state 6 gets 0).  The maximum, 7, is attained in states 15 and 31 (a `STRING` token on
top of the stack): `string → simple_value → value → setting_terminator(ε) → setting →
setting_list → configuration`. -/
def ranks : List Nat :=
  [1, 1, 0, 1, 2, 0, 0, 2, 0, 6, 6, 6, 6, 6, 6, 7, 2, 2, 2, 5, 5, 4, 6, 5, 5, 1, 1, 1, 4, 4, 3, 7,
   2, 1, 0, 2, 1, 0, 1, 0, 2, 6, 2, 6, 6, 2, 2]

/-- the largest rank -/
def maxRank : Nat := 7

/-- the kernel evaluates the ranking check for the compiled tables -/
theorem ranks_ok : rankOK Generated.parser C02P.edges ranks maxRank = true := by decide +kernel

/-! ### what the check says -/

structure RankFacts (P : LalrTables) (ed : List (Nat × Nat)) (rk : List Nat) (R : Nat) : Prop where
  le : ∀ s, s < P.nstates → rkOf rk s ≤ R
  st : ∀ s, s < P.nstates → s ≠ P.final → stateRankOK P ed rk s = true

theorem rankFacts_of {P : LalrTables} {ed : List (Nat × Nat)} {rk : List Nat} {R : Nat}
    (h : rankOK P ed rk R = true) : RankFacts P ed rk R := by
  unfold rankOK at h
  rw [Bool.and_eq_true] at h
  refine ⟨?_, ?_⟩
  · intro s hs
    exact Nat.le_of_ble_eq_true (C02P.allBelow_spec h.1 s hs)
  · intro s hs hne
    have := C02P.allBelow_spec h.2 s hs
    simp only [Bool.or_eq_true] at this
    rcases this with h7 | h7
    · exact absurd (Nat.eq_of_beq_eq_true h7) hne
    · exact h7

end Libconfig.C03T
