import LibconfigModel.Proofs.C02DenoteSim3
/-
  C02D, the whole parse: `yyparse` over the compiled tables, started on a cleared configuration in
  front of the tokens of a text, does what the reference interpreter says — it accepts with the
  denoted tree, or it aborts with the denoted message — unless the fuel of the model runs out.
-/
namespace Libconfig.C02D
open Libconfig C02P C05P C02C C01PP C04 C04R Denote

section
variable {E : ParserEnv} {plain : Bool} {o : Options}

/-- what the simulation of a whole text establishes -/
def DenoteSim (E : ParserEnv) (plain : Bool) (s₀ : ScanState) (ctx₀ : ParseCtx) :
    Denote.Result → Prop
  | .ok t => ∃ la1 sc1 ctx1 vv v2, Reaches E ⟨[(0, {})], none, s₀, ctx₀⟩
      ⟨[(6, vv), (2, v2), (0, {})], la1, sc1, ctx1⟩ ∧ stripPos ctx1.cfg.root = t
  | .error k => Aborts E plain ⟨[(0, {})], none, s₀, ctx₀⟩ k.text

/-- the parse of a text follows the interpreter -/
theorem denote_sim (hE : Compiled E) (toks : List (Nat × TokVal)) (hraw : RawOK toks)
    (hnest : nesting toks ≤ 1665) {s₀ : ScanState} {ctx₀ : ParseCtx}
    (hlex : LexP E plain s₀ (toks ++ [tEOF]))
    (hroot : stripPos ctx₀.cfg.root = { ty := T_GROUP }) (hpar : ctx₀.parent = some [])
    (hstr : ctx₀.str = none) (hinv : Inv plain o ctx₀) :
    DenoteSim E plain s₀ ctx₀ (denote o toks) := by
  have hV : View ctx₀ (fun x => x) [] ctx₀.cfg.root none ctx₀.setting :=
    ⟨Hole.root, rfl, hpar, hstr, rfl⟩
  have hI : InpI E plain none s₀ (toks.map itemOf) := ⟨toks, hlex, rfl, hraw⟩
  have hsim := (sim_all (plain := plain) (o := o) hE (toks.length + 1)).2.2 [] (toks.map itemOf) 0 3
    mem_0 ({} : TokVal) [] [(0, {})] none s₀ ctx₀ (fun x => x) [] ctx₀.cfg.root ctx₀.setting
    { ty := T_GROUP } 0 (.inl rfl) (by simp) (by simp) hI hV hroot rfl rfl hinv hnest
  unfold denote
  cases hs : settings o (toks.length + 1) [] (toks.map itemOf) with
  | error k =>
    rw [hs] at hsim
    exact hsim
  | ok members rest =>
    rw [hs] at hsim
    obtain ⟨b, hR1, stkS, la1, sc1, ctx1, pn1, st1, rfl, hshape, hI1, hV1, hpn1, hinv1, _, hstop⟩ :=
      hsim
    obtain ⟨t, v, ks, hin, hk23, hn, hrest⟩ := hI1.peek
    have hne10 : translateTok P t ≠ 10 := ne_of_hk hn rfl (hk_ne_10 hstop)
    -- `configuration`
    have hconf : ∃ la2 sc2 ctx2 vv2, Reaches E ⟨stkS, la1, sc1, ctx1⟩
        ⟨[(2, vv2), (0, {})], la2, sc2, ctx2⟩ ∧
        InpP E plain la2 sc2 ((t, v) :: ks) ∧ Same plain ctx1 ctx2 := by
      rcases hshape with rfl | ⟨v3, rfl⟩
      · exact preduce0 hE (ctx := ctx1)
          (pushed := []) (p := 0) (vp := ({} : TokVal)) (rest := [])
          rfl rfl (by dp) (by decide) (red_0 _ hk23 hne10) rule_2 rfl go_0_conf hin
      · exact preduce0 hE (ctx := ctx1)
          (pushed := [(3, v3)]) (p := 0) (vp := ({} : TokVal)) (rest := [])
          rfl rfl (by dp) (by decide) (red_3 _ hk23 hne10) rule_3 rfl go_0_conf hin
    obtain ⟨la2, sc2, ctx2, vv2, hR2, hI2, hS2⟩ := hconf
    cases rest with
    | nil =>
      -- the end marker
      have hk0 : translateTok P t = 0 := normK_eq _ hk23 0 (by decide) (by decide) hn
      obtain ⟨sc3, ctx3, hR3, _, hS3⟩ := pshift hE (v0 := vv2) (rest := [(0, ({} : TokVal))])
        (ctx := ctx2) (by dp) (by decide) hk0 sh_2_eof (by decide) hI2
      refine ⟨none, sc3, ctx3, _, vv2, (hR1.trans hR2).trans hR3, ?_⟩
      rw [hS3.sem.1, hS2.sem.1, hV1.root]
      exact hpn1
    | cons it tl =>
      show Aborts E plain _ ErrKind.syntax.text
      rw [text_syntax]
      refine Aborts.of_reaches (hR1.trans hR2) ?_
      exact perror hE rfl (by dp) (by decide) (err_2 _ hk23 (ne_of_hk hn rfl hk_ne_0)) hI2
        (hinv1.of_same hS2).err

theorem yyparse_eq_run' (E : ParserEnv) (fuel : Nat) (s : ScanState) (ctx : ParseCtx) :
    yyparse E fuel s ctx = C01PP.run E fuel ⟨[(0, {})], none, s, ctx⟩ := rfl

/-- with the final state on top of a short stack, the loop accepts as soon as it has fuel -/
theorem run_accept' (hE : Compiled E) (vv v2 : TokVal) (la : Lookahead)
    (sc : ScanState) (ctx : ParseCtx) (f : Nat) :
    C01PP.run E (f + 1) ⟨[(6, vv), (2, v2), (0, {})], la, sc, ctx⟩ = (sc, ctx, .accept) := by
  have := run_final (E := E) (v := vv) (rest := [(2, v2), (0, {})]) (la := la) (sc := sc)
    (ctx := ctx) (by rw [hE.tables]; show 2 + 1 < 10000; omega) f
  rw [hE.tables] at this
  exact this

/-- the accepting direction -/
theorem denote_ok_core (hE : Compiled E) (toks : List (Nat × TokVal)) (hraw : RawOK toks)
    (hnest : nesting toks ≤ 1665) {fuel : Nat} {s₀ s' : ScanState} {ctx₀ ctx' : ParseCtx}
    {r : ParseResult} (hlex : LexP E plain s₀ (toks ++ [tEOF]))
    (hroot : stripPos ctx₀.cfg.root = { ty := T_GROUP }) (hpar : ctx₀.parent = some [])
    (hstr : ctx₀.str = none) (hinv : Inv plain o ctx₀)
    (h : yyparse E fuel s₀ ctx₀ = (s', ctx', r)) (hr : r ≠ .outOfFuel) {t : Node}
    (hd : denote o toks = .ok t) : r = .accept ∧ stripPos ctx'.cfg.root = t := by
  have hsim := denote_sim hE toks hraw hnest hlex hroot hpar hstr hinv
  rw [hd] at hsim
  obtain ⟨la1, sc1, ctx1, vv, v2, hR, hroot1⟩ := hsim
  rw [yyparse_eq_run'] at h
  rcases hR.part fuel with hout | ⟨fuel', heq⟩
  · rw [h] at hout
    exact absurd hout hr
  · rw [h] at heq
    cases fuel' with
    | zero =>
      rw [run_zero] at heq
      injection heq with _ h2
      injection h2 with _ h3
      exact absurd h3 hr
    | succ f =>
      rw [run_accept' hE] at heq
      injection heq with _ h2
      injection h2 with h3 h4
      exact ⟨h4, by rw [h3]; exact hroot1⟩

/-- the rejecting direction -/
theorem denote_error_core (hE : Compiled E) (toks : List (Nat × TokVal)) (hraw : RawOK toks)
    (hnest : nesting toks ≤ 1665) {fuel : Nat} {s₀ s' : ScanState} {ctx₀ ctx' : ParseCtx}
    {r : ParseResult} (hlex : LexP E plain s₀ (toks ++ [tEOF]))
    (hroot : stripPos ctx₀.cfg.root = { ty := T_GROUP }) (hpar : ctx₀.parent = some [])
    (hstr : ctx₀.str = none) (hinv : Inv plain o ctx₀)
    (h : yyparse E fuel s₀ ctx₀ = (s', ctx', r)) (hr : r ≠ .outOfFuel) {k : ErrKind}
    (hd : denote o toks = .error k) :
    r = .abort ∧ (plain = true → ctx'.cfg.errText = some k.text) := by
  have hsim := denote_sim hE toks hraw hnest hlex hroot hpar hstr hinv
  rw [hd] at hsim
  have := hsim.part fuel
  rw [← yyparse_eq_run', h] at this
  rcases this with hout | hab
  · exact absurd hout hr
  · exact hab

/-- … and with enough fuel the parse does return (1, that is) -/
theorem denote_error_total (hE : Compiled E) (toks : List (Nat × TokVal)) (hraw : RawOK toks)
    (hnest : nesting toks ≤ 1665) {s₀ : ScanState} {ctx₀ : ParseCtx}
    (hlex : LexP E plain s₀ (toks ++ [tEOF]))
    (hroot : stripPos ctx₀.cfg.root = { ty := T_GROUP }) (hpar : ctx₀.parent = some [])
    (hstr : ctx₀.str = none) (hinv : Inv plain o ctx₀) {k : ErrKind}
    (hd : denote o toks = .error k) :
    ∃ N, ∀ fuel, N ≤ fuel → (yyparse E fuel s₀ ctx₀).2.2 = .abort := by
  have hsim := denote_sim hE toks hraw hnest hlex hroot hpar hstr hinv
  rw [hd] at hsim
  exact hsim.total

/-- … and with enough fuel the parse does return -/
theorem denote_ok_total (hE : Compiled E) (toks : List (Nat × TokVal)) (hraw : RawOK toks)
    (hnest : nesting toks ≤ 1665) {s₀ : ScanState} {ctx₀ : ParseCtx}
    (hlex : LexP E plain s₀ (toks ++ [tEOF]))
    (hroot : stripPos ctx₀.cfg.root = { ty := T_GROUP }) (hpar : ctx₀.parent = some [])
    (hstr : ctx₀.str = none) (hinv : Inv plain o ctx₀) {t : Node}
    (hd : denote o toks = .ok t) :
    ∃ N s' ctx', (∀ fuel, N ≤ fuel → yyparse E fuel s₀ ctx₀ = (s', ctx', .accept)) ∧
      stripPos ctx'.cfg.root = t := by
  have hsim := denote_sim hE toks hraw hnest hlex hroot hpar hstr hinv
  rw [hd] at hsim
  obtain ⟨la1, sc1, ctx1, vv, v2, hR, hroot1⟩ := hsim
  obtain ⟨n, hn⟩ := hR.steps
  refine ⟨n + 1, sc1, ctx1, ?_, hroot1⟩
  intro fuel hfuel
  obtain ⟨f, rfl⟩ : ∃ f, fuel = (f + 1) + n := ⟨fuel - (n + 1), by omega⟩
  rw [yyparse_eq_run', hn, run_accept' hE]

end

end Libconfig.C02D
