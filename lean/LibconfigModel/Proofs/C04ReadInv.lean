import LibconfigModel.Proofs.C04ReadTree
import LibconfigModel.Parser
/-
  C04 (reads), the invariant of the semantic actions.  `TInv c pa se` relates the tree being
  built to the two cursors of the parse context (`ctx->parent`, `ctx->setting`, as index paths):

  * the configuration is well-formed;
  * `parent` addresses a node;
  * `setting`, unless it is the root, addresses a childless node whose own parent is not an
    array — exactly what makes retyping it (`$@2/$@3/$@4` outside a list) harmless;
  * `setting` is not at or above `parent`, so that the children the actions append below
    `parent` never become children of the node at `setting`.

  Every semantic action preserves `TInv`, provided the actions that write through `setting` do
  not run while `setting` is the root (the fact supplied by the grammar, see C04ReadStatic).
-/
namespace Libconfig.C04R
open Libconfig C04 C05P

/-! ### growing a node -/

/-- `n'` is `n` with the same type and name and all children of `n` still in place -/
def Grows (n n' : Node) : Prop :=
  n'.ty = n.ty ∧ n'.name = n.name ∧
    ∀ (j : Nat) (k : Node), n.kids[j]? = some k → n'.kids[j]? = some k

theorem Grows.compat {n n' : Node} (h : Grows n n') : Compat n n' := ⟨h.2.1, fun _ => h.1⟩

/-- editing the last child of a node -/
theorem modify_last (pn : Node) (ks : List Node) (e : Node) (g : Node → Node) :
    Node.modify g { pn with kids := ks ++ [e] } [ks.length] = { pn with kids := ks ++ [g e] } := by
  rw [modify_cons]
  simp [modify_nil]

/-- appending a child `e` and then editing it with `g` -/
theorem grown (pn : Node) (ks : List Node) (e : Node) (g : Node → Node)
    (hw : Node.WF { pn with kids := ks ++ [e] }) (hg : (g e).WF) (hc : Compat e (g e)) :
    Node.WF { pn with kids := ks ++ [g e] } := by
  rw [← modify_last]
  refine (modify_wf g [ks.length] _ e hw ?_ hg hc).1
  rw [get?_cons]
  simp [get?_nil]

theorem grows_append (pn : Node) (e : Node) : Grows pn { pn with kids := pn.kids ++ [e] } := by
  refine ⟨rfl, rfl, ?_⟩
  intro j k hj
  have hjl : j < pn.kids.length := (List.getElem?_eq_some_iff.mp hj).1
  show (pn.kids ++ [e])[j]? = some k
  rw [List.getElem?_append_left hjl]
  exact hj

/-! ### the setting cursor -/

/-- `sp` addresses a childless node whose parent is not an array -/
def SetOK (root : Node) (sp : Path) : Prop :=
  ∃ d j dn n, sp = d ++ [j] ∧ root.get? d = some dn ∧ dn.ty ≠ T_ARRAY ∧
    root.get? sp = some n ∧ n.kids = []

theorem snoc_ne_self {d : Path} {j : Nat} : d ≠ d ++ [j] := by
  intro h
  have := congrArg List.length h
  simp at this

theorem SetOK.frame {root : Node} {sp : Path} (h : SetOK root sp) (f : Node → Node) (p : Path)
    (n : Node) (hn : root.get? p = some n) (hg : Grows n (f n)) (hsp : ¬ sp <+: p) :
    SetOK (root.modify f p) sp := by
  obtain ⟨d, j, dn, m, rfl, hd, hna, hm, hk⟩ := h
  obtain ⟨dn', h1, _, h3, h4⟩ := C04R.frame f p root n hn hg.2.2 d dn hd
  obtain ⟨m', h5, h6, _, _⟩ := C04R.frame f p root n hn hg.2.2 (d ++ [j]) m hm
  refine ⟨d, j, dn', m', rfl, h1, ?_, h5, ?_⟩
  · by_cases hdp : d = p
    · subst hdp
      rw [h4 rfl, hg.1]
      rw [hn] at hd; cases hd
      exact hna
    · rw [(h3 hdp).1]; exact hna
  · rw [h6 hsp]; exact hk

theorem SetOK.self {root : Node} {sp : Path} (h : SetOK root sp) (F : Node → Node)
    (hF : ∀ n, (F n).kids = n.kids) : SetOK (root.modify F sp) sp := by
  obtain ⟨d, j, dn, m, rfl, hd, hna, hm, hk⟩ := h
  obtain ⟨dn', h1, _, h3, _⟩ := C04R.frame F (d ++ [j]) root m hm
    (by intro j k h; rw [hF]; exact h) d dn hd
  refine ⟨d, j, dn', F m, rfl, h1, ?_, ?_, ?_⟩
  · rw [(h3 snoc_ne_self).1]; exact hna
  · rw [get?_modify_self, hm]; rfl
  · rw [hF]; exact hk

/-! ### the invariant -/

structure TInv (c : Config) (pa se : Option Path) : Prop where
  wf : c.WF
  par : ∀ pp, pa = some pp → ∃ pn, c.root.get? pp = some pn
  set : ∀ sp, se = some sp → sp ≠ [] → SetOK c.root sp
  sep : ∀ sp pp, se = some sp → pa = some pp → sp ≠ [] → ¬ sp <+: pp

theorem cfg_wf_modify {c : Config} (h : c.WF) {p : Path} {n : Node} (f : Node → Node)
    (hg : c.root.get? p = some n) (hw : (f n).WF) (hc : Compat n (f n)) :
    Config.WF { c with root := c.root.modify f p } := by
  obtain ⟨h1, h2⟩ := modify_wf f p _ _ h.nodes hg hw hc
  refine ⟨?_, ?_, h1⟩
  · exact h2.name.trans h.rootNameless
  · have : c.root.ty ≠ T_NONE := by rw [h.rootGroup]; decide
    exact (h2.ty this).trans h.rootGroup

/-- only the root of the configuration matters -/
theorem TInv.congr_root {c c' : Config} {pa se : Option Path} (h : TInv c pa se)
    (hr : c'.root = c.root) : TInv c' pa se := by
  obtain ⟨⟨a, b, d⟩, h2, h3, h4⟩ := h
  exact ⟨⟨hr ▸ a, hr ▸ b, hr ▸ d⟩, hr ▸ h2, hr ▸ h3, h4⟩

/-- replacing the node at `parent` by a grown version of it -/
theorem TInv.grow {c : Config} {pa se : Option Path} (h : TInv c pa se) {pp : Path}
    {pn pn' : Node} (hpa : pa = some pp) (hpn : c.root.get? pp = some pn) (hw : pn'.WF)
    (hg : Grows pn pn') :
    TInv { c with root := c.root.modify (fun _ => pn') pp } pa se := by
  refine ⟨cfg_wf_modify h.wf _ hpn hw hg.compat, ?_, ?_, h.sep⟩
  · intro qq hqq
    obtain ⟨qn, hq⟩ := h.par qq hqq
    obtain ⟨m', h1, _⟩ := C04R.frame (fun _ => pn') pp c.root pn hpn hg.2.2 qq qn hq
    exact ⟨m', h1⟩
  · intro sp hsp hne
    exact (h.set sp hsp hne).frame _ pp pn hpn hg (h.sep sp pp hsp hpa hne)

/-- … and moving `parent` to the child just appended (`$@2/$@3/$@4` inside a list) -/
theorem TInv.grow_descend {c : Config} {se : Option Path} {pp : Path}
    (h : TInv c (some pp) se) {pn pn' k : Node} {i : Nat} (hpn : c.root.get? pp = some pn)
    (hw : pn'.WF) (hg : Grows pn pn') (hi : i = pn.kids.length) (hk : pn'.kids[i]? = some k) :
    TInv { c with root := c.root.modify (fun _ => pn') pp } (some (pp ++ [i])) se := by
  have h1 := h.grow rfl hpn hw hg
  refine ⟨h1.wf, ?_, h1.set, ?_⟩
  · intro qq hqq
    cases hqq
    refine ⟨k, get?_snoc_of (m0 := pn') ?_ hk⟩
    show (c.root.modify (fun _ => pn') pp).get? pp = some pn'
    rw [get?_modify_self, hpn]; rfl
  · intro sp qq hsp hqq hne hpre
    cases hqq
    rcases List.prefix_concat_iff.mp hpre with heq | hpre
    · obtain ⟨d, j, dn, n, _, _, _, hm, _⟩ := h.set sp hsp hne
      rw [heq] at hm
      obtain ⟨m0, hm0, hm1⟩ := get?_snoc hm
      rw [hpn] at hm0; cases hm0
      have := (List.getElem?_eq_some_iff.mp hm1).1
      omega
    · exact h.sep sp pp hsp rfl hne hpre

/-- `$@1`: the node at `parent` is replaced (a member may have been removed, a fresh childless
one appended as child `i`) and `setting` moves to the fresh child -/
theorem TInv.new_setting {c : Config} {se : Option Path} {pp : Path}
    (h : TInv c (some pp) se) {pn pn' k : Node} {i : Nat} (hpn : c.root.get? pp = some pn)
    (hw : pn'.WF) (hc : Compat pn pn') (hty : pn'.ty ≠ T_ARRAY) (hk : pn'.kids[i]? = some k)
    (hkk : k.kids = []) :
    TInv { c with root := c.root.modify (fun _ => pn') pp } (some pp) (some (pp ++ [i])) := by
  have hself : (c.root.modify (fun _ => pn') pp).get? pp = some pn' := by
    rw [get?_modify_self, hpn]; rfl
  refine ⟨cfg_wf_modify h.wf _ hpn hw hc, ?_, ?_, ?_⟩
  · intro qq hqq
    cases hqq
    exact ⟨pn', hself⟩
  · intro sp hsp _
    cases hsp
    exact ⟨pp, i, pn', k, rfl, hself, hty, get?_snoc_of hself hk, hkk⟩
  · intro sp qq hsp hqq _ hpre
    cases hsp; cases hqq
    have := hpre.length_le
    simp at this
    omega

/-- a scalar assignment through `setting` -/
theorem TInv.edit_setting {c : Config} {pa : Option Path} {sp : Path}
    (h : TInv c pa (some sp)) (F : Node → Node) {n : Node} (hn : c.root.get? sp = some n)
    (hw : (F n).WF) (hc : Compat n (F n)) (hF : ∀ m, (F m).kids = m.kids) :
    TInv { c with root := c.root.modify F sp } pa (some sp) := by
  refine ⟨cfg_wf_modify h.wf _ hn hw hc, ?_, ?_, h.sep⟩
  · intro qq hqq
    obtain ⟨qn, hq⟩ := h.par qq hqq
    obtain ⟨m', h1, _⟩ := C04R.frame F sp c.root n hn
      (by intro j k hj; rw [hF]; exact hj) qq qn hq
    exact ⟨m', h1⟩
  · intro sp' hsp hne
    cases hsp
    exact (h.set sp rfl hne).self F hF

/-- `$@2/$@3/$@4` outside a list: the node at `setting` (not the root) gets an aggregate type
and becomes `parent` -/
theorem TInv.retype {c : Config} {pa : Option Path} {sp : Path}
    (h : TInv c pa (some sp)) (hne : sp ≠ []) {ty : Nat} (hty : ty ≤ 8) :
    TInv { c with root := c.root.modify (fun n => { n with ty := ty }) sp } (some sp) none := by
  obtain ⟨d, j, dn, n, rfl, hd, hna, hm, hk⟩ := h.set sp rfl hne
  obtain ⟨m0, hm0, hm1⟩ := get?_snoc hm
  rw [hd] at hm0; cases hm0
  obtain ⟨h1, h2⟩ := retype_at_wf c.root dn n d j ty h.wf.nodes hd hm1 hna hk hty
  refine ⟨⟨?_, ?_, h1⟩, ?_, nofun, nofun⟩
  · exact h2.name.trans h.wf.rootNameless
  · have : c.root.ty ≠ T_NONE := by rw [h.wf.rootGroup]; decide
    exact (h2.ty this).trans h.wf.rootGroup
  · intro qq hqq
    cases hqq
    refine ⟨{ n with ty := ty }, ?_⟩
    show (c.root.modify (fun n => { n with ty := ty }) (d ++ [j])).get? (d ++ [j]) = _
    rw [get?_modify_self, hm]; rfl

/-- the end of an aggregate: `parent` moves up -/
theorem TInv.ascend {c : Config} {se : Option Path} {pp : Path} (h : TInv c (some pp) se) :
    TInv c (some pp.dropLast) se := by
  refine ⟨h.wf, ?_, h.set, ?_⟩
  · intro qq hqq
    cases hqq
    obtain ⟨pn, hpn⟩ := h.par pp rfl
    obtain ⟨r, hr⟩ := List.dropLast_prefix pp
    rw [← hr] at hpn
    obtain ⟨m0, hm0, _⟩ := get?_prefix_some hpn
    exact ⟨m0, hm0⟩
  · intro sp qq hsp hqq hne hpre
    cases hqq
    exact h.sep sp pp hsp rfl hne (hpre.trans (List.dropLast_prefix pp))

theorem TInv.no_parent {c : Config} {pa se : Option Path} (h : TInv c pa se) : TInv c none se :=
  ⟨h.wf, nofun, h.set, nofun⟩

theorem TInv.no_setting {c : Config} {pa se : Option Path} (h : TInv c pa se) : TInv c pa none :=
  ⟨h.wf, h.par, nofun, nofun⟩

end Libconfig.C04R
