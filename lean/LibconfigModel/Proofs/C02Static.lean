import LibconfigModel.Parser
import LibconfigModel.Grammar
/-
  C02, static part: the LALR automaton encoded in the compressed bison tables, read off
  exactly as `yyparseLoop` reads it, and a Boolean check (evaluated by the kernel) that this
  automaton only ever reduces by a rule whose right-hand side is spelled by the accessing
  symbols of the states on top of the stack.

  The goto function of the compressed tables is total (`yydefgoto`), so "all predecessors of
  a state under the goto function" over-approximates hopelessly.  The check is therefore
  relative to a certificate `ed`: a list of edges `(p, q)` of the automaton (`q` is entered from
  `p`; the symbol of the edge is the accessing symbol `yystos[q]`).  The check establishes that
  the certificate is closed under everything `yyparseLoop` can do (every shift out of a state,
  every goto after a reduction whose handle is spelled backwards along certificate edges), so
  "the state stack is a path of certificate edges from state 0" is an invariant of the loop.
  The certificate itself is untrusted; `edges` below was produced by a fixpoint computation.
-/
namespace Libconfig.C02P
open Libconfig Grammar

/-- `f i` for every `i < n` -/
def allBelow : Nat → (Nat → Bool) → Bool
  | 0, _ => true
  | n+1, f => f n && allBelow n f

theorem allBelow_spec {n : Nat} {f : Nat → Bool} (h : allBelow n f = true) : ∀ i, i < n → f i = true := by
  induction n with
  | zero => intro i hi; exact absurd hi (Nat.not_lt_zero _)
  | succ n ih =>
    intro i hi
    rw [allBelow, Bool.and_eq_true] at h
    rcases Nat.lt_succ_iff_lt_or_eq.mp hi with h1 | h1
    · exact ih h.2 i h1
    · rw [h1]; exact h.1

/-- the entry of the action table that `yybackup` consults in `state` for the lookahead kind
`tok`; `none` = the default action is taken -/
def actAt (P : LalrTables) (state tok : Nat) : Option Int :=
  let yyn := P.pact.get state
  if yyn == P.pactNinf then none
  else
    let idx := yyn + tok
    if idx < 0 || idx > P.last || P.check.get idx.toNat != tok then none
    else some (P.table.get idx.toNat)

/-- the state entered after a reduction to the symbol `sym` uncovers `top` (as in `yyreduce`) -/
def gotoTo (P : LalrTables) (top sym : Nat) : Nat :=
  let lhs := sym - P.ntokens
  let yyi := P.pgoto.get lhs + top
  if 0 ≤ yyi && yyi ≤ P.last && P.check.get yyi.toNat == top then (P.table.get yyi.toNat).toNat
  else (P.defgoto.get lhs).toNat

/-- accessing symbol -/
def stosN (P : LalrTables) (s : Nat) : Nat := (P.stos.get s).toNat

def edgeB (ed : List (Nat × Nat)) (p q : Nat) : Bool :=
  ed.any fun e => Nat.beq e.1 p && Nat.beq e.2 q

/-- every backward path along certificate edges that starts in `s` spells the symbols `βr`
(a right-hand side, reversed) by accessing symbols without hitting the bottom of the stack,
and the state it ends in satisfies `k` -/
def spellsRev (P : LalrTables) (ed : List (Nat × Nat)) (k : Nat → Bool) : List Nat → Nat → Bool
  | [], s => k s
  | X :: βr, s =>
    Nat.beq (stosN P s) X && !(Nat.beq s 0) &&
      ed.all fun e => !(Nat.beq e.2 s) || spellsRev P ed k βr e.1

/-- the goto from `p` on `lhs` is a certificate edge into a state accessed by `lhs` -/
def gotoOK (P : LalrTables) (ed : List (Nat × Nat)) (lhs p : Nat) : Bool :=
  let q := gotoTo P p lhs
  edgeB ed p q && Nat.beq (stosN P q) lhs && !(Nat.beq q P.final)

/-- reducing by rule `r` in state `s` is justified -/
def ruleOK (P : LalrTables) (ed : List (Nat × Nat)) (s r : Nat) : Bool :=
  let lr := rules.getD r (0, [])
  Nat.ble 1 r && Nat.blt r rules.length &&
  Nat.beq (P.r2.get r).toNat lr.2.length && Nat.beq (P.r1.get r).toNat lr.1 &&
  spellsRev P ed (gotoOK P ed lr.1) lr.2.reverse s

/-- shifting the kind `tok` in state `p` enters `q`: a certificate edge into a state accessed
by `tok`; the end marker is shifted only into the final state and only from a state that sits
directly on the bottom of the stack and is accessed by `configuration` -/
def shiftOK (P : LalrTables) (ed : List (Nat × Nat)) (p tok q : Nat) : Bool :=
  edgeB ed p q && Nat.beq (stosN P q) tok &&
  (if Nat.beq tok 0 then
     Nat.beq q P.final && Nat.beq (stosN P p) configuration && !(Nat.beq p 0) &&
       ed.all fun e => !(Nat.beq e.2 p) || Nat.beq e.1 0
   else !(Nat.beq q P.final))

def entryOK (P : LalrTables) (ed : List (Nat × Nat)) (s tok : Nat) : Bool :=
  match actAt P s tok with
  | none => true
  | some a =>
    if a ≤ 0 then (a == P.tableNinf || ruleOK P ed s (-a).toNat)
    else shiftOK P ed s tok a.toNat

def stateOK (P : LalrTables) (ed : List (Nat × Nat)) (s : Nat) : Bool :=
  (Nat.beq (P.defact.get s).toNat 0 || ruleOK P ed s (P.defact.get s).toNat) &&
  allBelow P.ntokens (entryOK P ed s)

/-- the whole static check (the final state is never acted in: `yyparseLoop` accepts first) -/
def staticOK (P : LalrTables) (ed : List (Nat × Nat)) : Bool :=
  Nat.beq P.ntokens 23 && !(Nat.beq P.final 0) && Nat.blt 0 P.nstates &&
  (ed.all fun e => !(Nat.beq e.2 0) && Nat.blt e.1 P.nstates && Nat.blt e.2 P.nstates) &&
  allBelow (P.maxutok + 1) (fun i => Nat.blt (P.translate.get i).toNat P.ntokens) &&
  allBelow P.nstates (fun s => Nat.beq s P.final || stateOK P ed s)

/-- the edge certificate for the compiled tables (97 edges; found by closing the shift edges
under the gotos of all reductions, see the header) -/
def edges : List (Nat × Nat) :=
  [(0,1),(2,6),(3,1),(5,8),(8,9),(8,10),(8,11),(8,12),(8,13),(8,14),(8,15),(8,16),(8,17),(8,18),
   (21,28),(21,29),(22,31),(25,9),(25,10),(25,11),(25,12),(25,13),(25,14),(25,15),(26,9),(26,10),
   (26,11),(26,12),(26,13),(26,14),(26,15),(26,16),(26,17),(26,18),(27,1),(33,40),(34,41),(36,42),
   (37,43),(38,1),(39,44),(40,9),(40,10),(40,11),(40,12),(40,13),(40,14),(40,15),(42,9),(42,10),
   (42,11),(42,12),(42,13),(42,14),(42,15),(42,16),(42,17),(42,18),(0,2),(1,5),(8,23),(25,32),
   (26,23),(40,45),(42,23),(8,22),(25,22),(26,22),(40,22),(42,22),(16,25),(17,26),(18,27),(21,30),
   (25,34),(26,37),(27,39),(8,21),(26,35),(42,46),(25,33),(8,19),(26,19),(42,19),(8,20),(26,20),
   (42,20),(8,24),(26,24),(42,24),(0,4),(3,7),(27,4),(38,7),(26,36),(0,3),(27,38)]

/-- the kernel evaluates the check for the compiled tables -/
theorem edges_ok : staticOK Generated.parser edges = true := by decide +kernel

/-- left-hand sides and lengths of `Grammar.rules` against `yyr1`/`yyr2` -/
def rulesMatch (P : LalrTables) : Bool :=
  allBelow (P.nrules + 1) fun r =>
    Nat.beq r 0 ||
      (Nat.beq (P.r1.get r).toNat (rules.getD r (0, [])).1 &&
       Nat.beq (P.r2.get r).toNat (rules.getD r (0, [])).2.length)

theorem rulesMatch_ok : rulesMatch Generated.parser = true := by decide +kernel

end Libconfig.C02P
