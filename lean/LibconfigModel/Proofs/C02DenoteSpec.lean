import LibconfigModel.Denote
/-
  C02D, specification side in the form the proofs use: unfolding lemmas for the reference
  interpreter of Denote.lean, what it consumes (every call consumes items, so the fuel is never
  used up), what follows what it has read, and the nesting measure.  Nothing here mentions the
  parser.
-/
namespace Libconfig.C02D
open Libconfig Denote

/-! ### case distinctions on the items in front -/

inductive ValueView : List Denote.Item → Prop where
  | arrNil (r : List Denote.Item) : ValueView (.arrayStart :: .arrayEnd :: r)
  | arr (rest : List Denote.Item) (h : ∀ r, rest ≠ .arrayEnd :: r) : ValueView (.arrayStart :: rest)
  | lstNil (r : List Denote.Item) : ValueView (.listStart :: .listEnd :: r)
  | lst (rest : List Denote.Item) (h : ∀ r, rest ≠ .listEnd :: r) : ValueView (.listStart :: rest)
  | grp (rest : List Denote.Item) : ValueView (.groupStart :: rest)
  | other (items : List Denote.Item) (h1 : ∀ r, items ≠ .arrayStart :: r)
      (h2 : ∀ r, items ≠ .listStart :: r) (h3 : ∀ r, items ≠ .groupStart :: r) : ValueView items

theorem valueView (items : List Denote.Item) : ValueView items := by
  cases items with
  | nil => exact .other _ (fun _ h => by cases h) (fun _ h => by cases h) (fun _ h => by cases h)
  | cons it tl =>
    cases it
    case arrayStart =>
      cases tl with
      | nil => exact .arr _ (fun _ h => by cases h)
      | cons it2 tl2 =>
        cases it2
        case arrayEnd => exact .arrNil _
        all_goals exact .arr _ (fun _ h => by cases h)
    case listStart =>
      cases tl with
      | nil => exact .lst _ (fun _ h => by cases h)
      | cons it2 tl2 =>
        cases it2
        case listEnd => exact .lstNil _
        all_goals exact .lst _ (fun _ h => by cases h)
    case groupStart => exact .grp _
    all_goals exact .other _ (fun _ h => by cases h) (fun _ h => by cases h) (fun _ h => by cases h)

/-- what may follow the elements read so far in a list or an array (`close` is the closing
bracket) -/
inductive RestView (close : Denote.Item) : List Denote.Item → Prop where
  | done (r : List Denote.Item) : RestView close (close :: r)
  | comma (rest : List Denote.Item) : RestView close (.comma :: rest)
  | other (items : List Denote.Item) (h1 : ∀ r, items ≠ close :: r) (h2 : ∀ r, items ≠ .comma :: r) :
      RestView close items

theorem listRestView (items : List Denote.Item) : RestView .listEnd items := by
  cases items with
  | nil => exact .other _ (fun _ h => by cases h) (fun _ h => by cases h)
  | cons it tl =>
    cases it
    case listEnd => exact .done _
    case comma => exact .comma _
    all_goals exact .other _ (fun _ h => by cases h) (fun _ h => by cases h)

theorem arrayRestView (items : List Denote.Item) : RestView .arrayEnd items := by
  cases items with
  | nil => exact .other _ (fun _ h => by cases h) (fun _ h => by cases h)
  | cons it tl =>
    cases it
    case arrayEnd => exact .done _
    case comma => exact .comma _
    all_goals exact .other _ (fun _ h => by cases h) (fun _ h => by cases h)

inductive SettingsView : List Denote.Item → Prop where
  | setting (nm : Bytes) (rest : List Denote.Item) : SettingsView (.name nm :: .assign :: rest)
  | noAssign (nm : Bytes) (rest : List Denote.Item) (h : ∀ r, rest ≠ .assign :: r) :
      SettingsView (.name nm :: rest)
  | other (items : List Denote.Item) (h : ∀ nm r, items ≠ .name nm :: r) : SettingsView items

theorem settingsView (items : List Denote.Item) : SettingsView items := by
  cases items with
  | nil => exact .other _ (fun _ _ h => by cases h)
  | cons it tl =>
    cases it
    case name nm =>
      cases tl with
      | nil => exact .noAssign _ _ (fun _ h => by cases h)
      | cons it2 tl2 =>
        cases it2
        case assign => exact .setting _ _
        all_goals exact .noAssign _ _ (fun _ h => by cases h)
    all_goals exact .other _ (fun _ _ h => by cases h)

/-! ### unfolding lemmas -/

theorem value_zero (o : Options) (nm : Option Bytes) (items : List Denote.Item) :
    value o 0 nm items = .error .syntax := by
  rw [value]

theorem value_arr_nil (o : Options) (fuel : Nat) (nm : Option Bytes) (r : List Denote.Item) :
    value o (fuel + 1) nm (.arrayStart :: .arrayEnd :: r) = .ok { name := nm, ty := T_ARRAY } r := by
  rw [value]

theorem value_arr (o : Options) (fuel : Nat) (nm : Option Bytes) (rest : List Denote.Item)
    (h : ∀ r, rest ≠ .arrayEnd :: r) :
    value o (fuel + 1) nm (.arrayStart :: rest) =
      match scalar none rest with
      | none => .error .syntax
      | some (x, rest') =>
        match arrayRest x.ty fuel [x] rest' with
        | .error k => .error k
        | .ok elems rest'' => .ok { name := nm, ty := T_ARRAY, kids := elems } rest'' := by
  rw [value]
  · rfl
  · exact fun r hr => h r hr

theorem value_lst_nil (o : Options) (fuel : Nat) (nm : Option Bytes) (r : List Denote.Item) :
    value o (fuel + 1) nm (.listStart :: .listEnd :: r) = .ok { name := nm, ty := T_LIST } r := by
  rw [value]

theorem value_lst (o : Options) (fuel : Nat) (nm : Option Bytes) (rest : List Denote.Item)
    (h : ∀ r, rest ≠ .listEnd :: r) :
    value o (fuel + 1) nm (.listStart :: rest) =
      match value o fuel none rest with
      | .error k => .error k
      | .ok x rest' =>
        match listRest o fuel [x] rest' with
        | .error k => .error k
        | .ok elems rest'' => .ok { name := nm, ty := T_LIST, kids := elems } rest'' := by
  rw [value]
  · rfl
  · exact fun r hr => h r hr

theorem value_grp (o : Options) (fuel : Nat) (nm : Option Bytes) (rest : List Denote.Item) :
    value o (fuel + 1) nm (.groupStart :: rest) =
      match settings o fuel [] rest with
      | .error k => .error k
      | .ok members (.groupEnd :: rest') => .ok { name := nm, ty := T_GROUP, kids := members } rest'
      | .ok _ _ => .error .syntax := by
  rw [value]
  rfl

theorem value_other (o : Options) (fuel : Nat) (nm : Option Bytes) (items : List Denote.Item)
    (h1 : ∀ r, items ≠ .arrayStart :: r) (h2 : ∀ r, items ≠ .listStart :: r)
    (h3 : ∀ r, items ≠ .groupStart :: r) :
    value o (fuel + 1) nm items =
      match scalar nm items with
      | some (x, rest) => .ok x rest
      | none => .error .syntax := by
  rw [value]
  · rfl
  · exact fun r h => h1 r h
  · exact fun r h => h2 r h
  · exact fun r h => h3 r h

theorem listRest_zero (o : Options) (acc : List Node) (items : List Denote.Item) :
    listRest o 0 acc items = .error .syntax := by
  rw [listRest]

theorem listRest_done (o : Options) (fuel : Nat) (acc : List Node) (r : List Denote.Item) :
    listRest o (fuel + 1) acc (.listEnd :: r) = .ok acc r := by
  rw [listRest]

theorem listRest_skip (o : Options) (fuel : Nat) (acc : List Node) (rest : List Denote.Item)
    (h : (∃ r, rest = .comma :: r) ∨ (∃ r, rest = .listEnd :: r)) :
    listRest o (fuel + 1) acc (.comma :: rest) = listRest o fuel acc rest := by
  rcases h with ⟨r, rfl⟩ | ⟨r, rfl⟩ <;> rw [listRest]

theorem listRest_value (o : Options) (fuel : Nat) (acc : List Node) (rest : List Denote.Item)
    (h1 : ∀ r, rest ≠ .listEnd :: r) (h2 : ∀ r, rest ≠ .comma :: r) :
    listRest o (fuel + 1) acc (.comma :: rest) =
      match value o fuel none rest with
      | .error k => .error k
      | .ok x rest' => listRest o fuel (acc ++ [x]) rest' := by
  rw [listRest]
  · rfl
  · exact fun r h => h2 r h
  · exact fun r h => h1 r h

theorem listRest_other (o : Options) (fuel : Nat) (acc : List Node) (items : List Denote.Item)
    (h1 : ∀ r, items ≠ .listEnd :: r) (h2 : ∀ r, items ≠ .comma :: r) :
    listRest o (fuel + 1) acc items = .error .syntax := by
  rw [listRest]
  · exact fun r h => h1 r h
  · exact fun r h => h2 r h

theorem arrayRest_zero (ty : Nat) (acc : List Node) (items : List Denote.Item) :
    arrayRest ty 0 acc items = .error .syntax := by
  rw [arrayRest]

theorem arrayRest_done (ty fuel : Nat) (acc : List Node) (r : List Denote.Item) :
    arrayRest ty (fuel + 1) acc (.arrayEnd :: r) = .ok acc r := by
  rw [arrayRest]

theorem arrayRest_comma (ty fuel : Nat) (acc : List Node) (rest : List Denote.Item) :
    arrayRest ty (fuel + 1) acc (.comma :: rest) =
      match scalar none rest with
      | none => arrayRest ty fuel acc rest
      | some (x, rest') =>
        if x.ty ≠ ty then .error .arrayElemType
        else arrayRest ty fuel (acc ++ [x]) rest' := by
  rw [arrayRest]
  rfl

theorem arrayRest_other (ty fuel : Nat) (acc : List Node) (items : List Denote.Item)
    (h1 : ∀ r, items ≠ .arrayEnd :: r) (h2 : ∀ r, items ≠ .comma :: r) :
    arrayRest ty (fuel + 1) acc items = .error .syntax := by
  rw [arrayRest]
  · exact fun r h => h1 r h
  · exact fun r h => h2 r h

theorem settings_zero (o : Options) (m : List Node) (items : List Denote.Item) :
    settings o 0 m items = .error .syntax := by
  rw [settings]

theorem settings_name (o : Options) (fuel : Nat) (members : List Node) (nm : Bytes)
    (rest : List Denote.Item) :
    settings o (fuel + 1) members (.name nm :: rest) =
      match enter o members nm with
      | none => .error .duplicateName
      | some members' =>
        match rest with
        | .assign :: rest' =>
          match value o fuel (some nm) rest' with
          | .error k => .error k
          | .ok x rest'' => settings o fuel (members' ++ [x]) (skipTerminator rest'')
        | _ => .error .syntax := by
  rw [settings]
  rfl

theorem settings_noAssign (o : Options) (fuel : Nat) (members : List Node) (nm : Bytes)
    (rest : List Denote.Item) (h : ∀ r, rest ≠ .assign :: r) :
    settings o (fuel + 1) members (.name nm :: rest) =
      match enter o members nm with
      | none => .error .duplicateName
      | some _ => .error .syntax := by
  rw [settings_name]
  cases enter o members nm with
  | none => rfl
  | some m' =>
    cases rest with
    | nil => rfl
    | cons it tl =>
      cases it
      case assign => exact absurd rfl (h _)
      all_goals rfl

theorem settings_setting (o : Options) (fuel : Nat) (members : List Node) (nm : Bytes)
    (rest : List Denote.Item) :
    settings o (fuel + 1) members (.name nm :: .assign :: rest) =
      match enter o members nm with
      | none => .error .duplicateName
      | some members' =>
        match value o fuel (some nm) rest with
        | .error k => .error k
        | .ok x rest'' => settings o fuel (members' ++ [x]) (skipTerminator rest'') := by
  rw [settings_name]

theorem settings_other (o : Options) (fuel : Nat) (members : List Node) (items : List Denote.Item)
    (h : ∀ nm r, items ≠ .name nm :: r) :
    settings o (fuel + 1) members items = .ok members items := by
  rw [settings]
  exact fun nm r hr => h nm r hr

/-! ### strings and scalars -/

theorem strings_cons (s : Bytes) (rest : List Denote.Item) :
    strings (.string s :: rest) = (s ++ (strings rest).1, (strings rest).2) := by
  rw [strings]

theorem strings_other (l : List Denote.Item) (h : ∀ s r, l ≠ .string s :: r) : strings l = ([], l) := by
  rw [strings]
  exact fun s r hr => h s r hr

theorem strings_length (l : List Denote.Item) : (strings l).2.length ≤ l.length := by
  induction l with
  | nil => rw [strings_other _ (fun _ _ h => by cases h)]; exact Nat.le_refl _
  | cons it tl ih =>
    cases it
    case string s =>
      rw [strings_cons]
      exact Nat.le_trans ih (Nat.le_succ _)
    all_goals
      rw [strings_other _ (fun _ _ h => by cases h)]
      exact Nat.le_refl _

theorem strings_head (l : List Denote.Item) : ∀ s r, (strings l).2 ≠ .string s :: r := by
  induction l with
  | nil => rw [strings_other _ (fun _ _ h => by cases h)]; exact fun _ _ h => by cases h
  | cons it tl ih =>
    cases it
    case string s =>
      rw [strings_cons]
      exact ih
    all_goals
      rw [strings_other _ (fun _ _ h => by cases h)]
      exact fun _ _ h => by cases h

/-- the kind (in the numbering of the grammar) of the item in front; 0 at the end of the input,
2 (`$undefined`) for an item that is none of the language -/
def hk : List Denote.Item → Nat
  | [] => 0
  | .boolean _ :: _ => 3
  | .integer _ :: _ => 4
  | .hex _ :: _ => 5
  | .integer64 _ :: _ => 6
  | .hex64 _ :: _ => 7
  | .float _ :: _ => 8
  | .string _ :: _ => 9
  | .name _ :: _ => 10
  | .assign :: _ => 11
  | .arrayStart :: _ => 13
  | .arrayEnd :: _ => 14
  | .listStart :: _ => 15
  | .listEnd :: _ => 16
  | .comma :: _ => 17
  | .groupStart :: _ => 18
  | .groupEnd :: _ => 19
  | .semicolon :: _ => 20
  | .other :: _ => 2

theorem hk_ne_9 {l : List Denote.Item} (h : ∀ s r, l ≠ .string s :: r) : hk l ≠ 9 := by
  cases l with
  | nil => simp [hk]
  | cons it tl =>
    cases it
    case string s => exact absurd rfl (h _ _)
    all_goals simp [hk]

theorem hk_ne_10 {l : List Denote.Item} (h : ∀ s r, l ≠ .name s :: r) : hk l ≠ 10 := by
  cases l with
  | nil => simp [hk]
  | cons it tl =>
    cases it
    case name s => exact absurd rfl (h _ _)
    all_goals simp [hk]

theorem hk_ne_11 {l : List Denote.Item} (h : ∀ r, l ≠ .assign :: r) : hk l ≠ 11 := by
  cases l with
  | nil => simp [hk]
  | cons it tl =>
    cases it
    case assign => exact absurd rfl (h _)
    all_goals simp [hk]

theorem hk_ne_14 {l : List Denote.Item} (h : ∀ r, l ≠ .arrayEnd :: r) : hk l ≠ 14 := by
  cases l with
  | nil => simp [hk]
  | cons it tl =>
    cases it
    case arrayEnd => exact absurd rfl (h _)
    all_goals simp [hk]

theorem hk_ne_16 {l : List Denote.Item} (h : ∀ r, l ≠ .listEnd :: r) : hk l ≠ 16 := by
  cases l with
  | nil => simp [hk]
  | cons it tl =>
    cases it
    case listEnd => exact absurd rfl (h _)
    all_goals simp [hk]

theorem hk_ne_17 {l : List Denote.Item} (h : ∀ r, l ≠ .comma :: r) : hk l ≠ 17 := by
  cases l with
  | nil => simp [hk]
  | cons it tl =>
    cases it
    case comma => exact absurd rfl (h _)
    all_goals simp [hk]

theorem hk_ne_19 {l : List Denote.Item} (h : ∀ r, l ≠ .groupEnd :: r) : hk l ≠ 19 := by
  cases l with
  | nil => simp [hk]
  | cons it tl =>
    cases it
    case groupEnd => exact absurd rfl (h _)
    all_goals simp [hk]

theorem hk_ne_20 {l : List Denote.Item} (h : ∀ r, l ≠ .semicolon :: r) : hk l ≠ 20 := by
  cases l with
  | nil => simp [hk]
  | cons it tl =>
    cases it
    case semicolon => exact absurd rfl (h _)
    all_goals simp [hk]

theorem hk_ne_0 {it : Denote.Item} {l : List Denote.Item} : hk (it :: l) ≠ 0 := by
  cases it <;> simp [hk]

theorem scalar_length {nm : Option Bytes} {items rest : List Denote.Item} {x : Node}
    (h : scalar nm items = some (x, rest)) : rest.length < items.length := by
  cases items with
  | nil => simp [scalar] at h
  | cons it tl =>
    cases it
    case string s =>
      simp only [scalar, Option.some.injEq, Prod.mk.injEq] at h
      rw [← h.2]
      exact Nat.lt_succ_of_le (strings_length tl)
    all_goals
      simp only [scalar, Option.some.injEq, Prod.mk.injEq, reduceCtorEq] at h
    all_goals
      rw [← h.2]
      exact Nat.lt_succ_self _

/-- no scalar starts here: the item in front is none of BOOLEAN … STRING -/
theorem scalar_none {nm : Option Bytes} {items : List Denote.Item} (h : scalar nm items = none) :
    ¬ (3 ≤ hk items ∧ hk items ≤ 9) := by
  cases items with
  | nil => simp [hk]
  | cons it tl =>
    cases it
    all_goals first | (simp [scalar] at h; done) | simp [hk]

theorem scalar_some {nm : Option Bytes} {items rest : List Denote.Item} {x : Node}
    (h : scalar nm items = some (x, rest)) : 3 ≤ hk items ∧ hk items ≤ 9 := by
  cases items with
  | nil => simp [scalar] at h
  | cons it tl =>
    cases it
    all_goals first | (simp [scalar] at h; done) | simp [hk]

/-! ### nesting -/

theorem le_nestingFrom (d : Nat) (l : List Denote.Item) : d ≤ nestingFrom d l := by
  induction l generalizing d with
  | nil => rw [nestingFrom]; exact Nat.le_refl _
  | cons it tl ih =>
    cases it
    all_goals simp only [nestingFrom]
    all_goals first | exact Nat.le_max_left _ _ | exact ih d

theorem nesting_open {d : Nat} {it : Denote.Item} {rest : List Denote.Item}
    (h : it = .arrayStart ∨ it = .listStart ∨ it = .groupStart) :
    nestingFrom (d + 1) rest ≤ nestingFrom d (it :: rest) := by
  rcases h with rfl | rfl | rfl <;> simp only [nestingFrom] <;> exact Nat.le_max_right _ _

theorem nesting_close {d : Nat} {it : Denote.Item} {rest : List Denote.Item}
    (h : it = .arrayEnd ∨ it = .listEnd ∨ it = .groupEnd) :
    nestingFrom d rest ≤ nestingFrom (d + 1) (it :: rest) := by
  rcases h with rfl | rfl | rfl <;> simp only [nestingFrom, Nat.add_sub_cancel] <;>
    exact Nat.le_max_right _ _

/-- an item that is no bracket does not change the nesting -/
def flat : Denote.Item → Bool
  | .arrayStart | .arrayEnd | .listStart | .listEnd | .groupStart | .groupEnd => false
  | _ => true

theorem nesting_flat {d : Nat} {it : Denote.Item} {rest : List Denote.Item} (h : flat it = true) :
    nestingFrom d (it :: rest) = nestingFrom d rest := by
  cases it
  all_goals first | (simp [flat] at h; done) | simp only [nestingFrom]

theorem nesting_strings (d : Nat) (l : List Denote.Item) :
    nestingFrom d (strings l).2 = nestingFrom d l := by
  induction l with
  | nil => rw [strings_other _ (fun _ _ h => by cases h)]
  | cons it tl ih =>
    cases it
    case string s =>
      rw [strings_cons, nesting_flat rfl]
      exact ih
    all_goals
      rw [strings_other _ (fun _ _ h => by cases h)]

theorem scalar_nesting {nm : Option Bytes} {items rest : List Denote.Item} {x : Node} (d : Nat)
    (h : scalar nm items = some (x, rest)) : nestingFrom d rest = nestingFrom d items := by
  cases items with
  | nil => simp [scalar] at h
  | cons it tl =>
    cases it
    case string s =>
      simp only [scalar, Option.some.injEq, Prod.mk.injEq] at h
      rw [← h.2, nesting_strings, nesting_flat rfl]
    all_goals
      simp only [scalar, Option.some.injEq, Prod.mk.injEq, reduceCtorEq] at h
    all_goals
      rw [← h.2, nesting_flat rfl]

theorem nesting_skipTerminator (d : Nat) (l : List Denote.Item) :
    nestingFrom d (skipTerminator l) = nestingFrom d l := by
  cases l with
  | nil => rfl
  | cons it tl =>
    cases it
    case semicolon => rw [skipTerminator, nesting_flat rfl]
    case comma => rw [skipTerminator, nesting_flat rfl]
    all_goals rfl

theorem skipTerminator_length (l : List Denote.Item) : (skipTerminator l).length ≤ l.length := by
  cases l with
  | nil => exact Nat.le_refl _
  | cons it tl =>
    cases it
    case semicolon => rw [skipTerminator]; exact Nat.le_succ _
    case comma => rw [skipTerminator]; exact Nat.le_succ _
    all_goals exact Nat.le_refl _

/-! ### what the interpreter consumes -/

theorem arrayRest_length (ty : Nat) : ∀ (fuel : Nat) (acc : List Node) (items : List Denote.Item)
    (r : List Node) (rest : List Denote.Item),
    arrayRest ty fuel acc items = .ok r rest → rest.length < items.length := by
  intro fuel
  induction fuel with
  | zero => intro acc items r rest h; rw [arrayRest_zero] at h; cases h
  | succ fuel ih =>
    intro acc items r rest h
    cases arrayRestView items with
    | done r' =>
      rw [arrayRest_done] at h
      cases h
      exact Nat.lt_succ_self _
    | comma rest' =>
      rw [arrayRest_comma] at h
      cases hs : scalar none rest' with
      | none =>
        rw [hs] at h
        exact Nat.lt_succ_of_lt (ih _ _ _ _ h)
      | some p =>
        obtain ⟨x, rest''⟩ := p
        rw [hs] at h
        simp only at h
        split at h
        · cases h
        · have h1 := ih _ _ _ _ h
          have h2 := scalar_length hs
          simp only [List.length_cons]
          omega
    | other _ h1 h2 =>
      rw [arrayRest_other _ _ _ _ h1 h2] at h
      cases h

theorem lengths (o : Options) : ∀ fuel : Nat,
    (∀ nm items x rest, value o fuel nm items = .ok x rest → rest.length < items.length) ∧
    (∀ acc items r rest, listRest o fuel acc items = .ok r rest → rest.length < items.length) ∧
    (∀ m items r rest, settings o fuel m items = .ok r rest → rest.length ≤ items.length) := by
  intro fuel
  induction fuel with
  | zero =>
    refine ⟨?_, ?_, ?_⟩
    · intro nm items x rest h; rw [value_zero] at h; cases h
    · intro acc items r rest h; rw [listRest_zero] at h; cases h
    · intro m items r rest h; rw [settings_zero] at h; cases h
  | succ fuel ih =>
    obtain ⟨ihv, ihl, ihs⟩ := ih
    refine ⟨?_, ?_, ?_⟩
    · intro nm items x rest h
      cases valueView items with
      | arrNil r =>
        rw [value_arr_nil] at h
        cases h
        simp only [List.length_cons]; omega
      | arr rest' hne =>
        rw [value_arr _ _ _ _ hne] at h
        cases hs : scalar none rest' with
        | none => rw [hs] at h; cases h
        | some p =>
          obtain ⟨x1, r1⟩ := p
          rw [hs] at h
          simp only at h
          cases ha : arrayRest x1.ty fuel [x1] r1 with
          | error k => rw [ha] at h; cases h
          | ok elems r2 =>
            rw [ha] at h
            cases h
            have h1 := scalar_length hs
            have h2 := arrayRest_length _ _ _ _ _ _ ha
            simp only [List.length_cons]; omega
      | lstNil r =>
        rw [value_lst_nil] at h
        cases h
        simp only [List.length_cons]; omega
      | lst rest' hne =>
        rw [value_lst _ _ _ _ hne] at h
        cases hv : value o fuel none rest' with
        | error k => rw [hv] at h; cases h
        | ok x1 r1 =>
          rw [hv] at h
          simp only at h
          cases hl : listRest o fuel [x1] r1 with
          | error k => rw [hl] at h; cases h
          | ok elems r2 =>
            rw [hl] at h
            cases h
            have h1 := ihv _ _ _ _ hv
            have h2 := ihl _ _ _ _ hl
            simp only [List.length_cons]; omega
      | grp rest' =>
        rw [value_grp] at h
        cases hs : settings o fuel [] rest' with
        | error k => rw [hs] at h; cases h
        | ok members r1 =>
          rw [hs] at h
          have h1 := ihs _ _ _ _ hs
          split at h
          · cases h
          · rename_i heq
            cases heq
            cases h
            simp only [List.length_cons] at h1 ⊢; omega
          · cases h
      | other _ h1 h2 h3 =>
        rw [value_other _ _ _ _ h1 h2 h3] at h
        cases hs : scalar nm items with
        | none => rw [hs] at h; cases h
        | some p =>
          obtain ⟨x1, r1⟩ := p
          rw [hs] at h
          cases h
          exact scalar_length hs
    · intro acc items r rest h
      cases listRestView items with
      | done r' =>
        rw [listRest_done] at h
        cases h
        exact Nat.lt_succ_self _
      | comma rest' =>
        cases listRestView rest' with
        | done r' =>
          rw [listRest_skip _ _ _ _ (.inr ⟨_, rfl⟩)] at h
          exact Nat.lt_succ_of_lt (ihl _ _ _ _ h)
        | comma r' =>
          rw [listRest_skip _ _ _ _ (.inl ⟨_, rfl⟩)] at h
          exact Nat.lt_succ_of_lt (ihl _ _ _ _ h)
        | other _ h1 h2 =>
          rw [listRest_value _ _ _ _ h1 h2] at h
          cases hv : value o fuel none rest' with
          | error k => rw [hv] at h; cases h
          | ok x1 r1 =>
            rw [hv] at h
            simp only at h
            have a := ihv _ _ _ _ hv
            have b := ihl _ _ _ _ h
            simp only [List.length_cons]; omega
      | other _ h1 h2 =>
        rw [listRest_other _ _ _ _ h1 h2] at h
        cases h
    · intro m items r rest h
      cases settingsView items with
      | setting nm rest' =>
        rw [settings_setting] at h
        cases he : enter o m nm with
        | none => rw [he] at h; cases h
        | some m' =>
          rw [he] at h
          simp only at h
          cases hv : value o fuel (some nm) rest' with
          | error k => rw [hv] at h; cases h
          | ok x1 r1 =>
            rw [hv] at h
            simp only at h
            have a := ihv _ _ _ _ hv
            have b := ihs _ _ _ _ h
            have c := skipTerminator_length r1
            simp only [List.length_cons]; omega
      | noAssign nm rest' hne =>
        rw [settings_noAssign _ _ _ _ _ hne] at h
        cases he : enter o m nm with
        | none => rw [he] at h; cases h
        | some m' => rw [he] at h; cases h
      | other _ hne =>
        rw [settings_other _ _ _ _ hne] at h
        cases h
        exact Nat.le_refl _

theorem value_length {o : Options} {fuel : Nat} {nm : Option Bytes} {items rest : List Denote.Item}
    {x : Node} (h : value o fuel nm items = .ok x rest) : rest.length < items.length :=
  (lengths o fuel).1 _ _ _ _ h

theorem listRest_length {o : Options} {fuel : Nat} {acc r : List Node} {items rest : List Denote.Item}
    (h : listRest o fuel acc items = .ok r rest) : rest.length < items.length :=
  (lengths o fuel).2.1 _ _ _ _ h

theorem settings_length {o : Options} {fuel : Nat} {m r : List Node} {items rest : List Denote.Item}
    (h : settings o fuel m items = .ok r rest) : rest.length ≤ items.length :=
  (lengths o fuel).2.2 _ _ _ _ h

/-- the settings of a group end in front of an item that is not a NAME -/
theorem settings_stop (o : Options) : ∀ (fuel : Nat) (m : List Node) (items : List Denote.Item)
    (r : List Node) (rest : List Denote.Item),
    settings o fuel m items = .ok r rest → ∀ nm r', rest ≠ .name nm :: r' := by
  intro fuel
  induction fuel with
  | zero => intro m items r rest h; rw [settings_zero] at h; cases h
  | succ fuel ih =>
    intro m items r rest h
    cases settingsView items with
    | setting nm rest' =>
      rw [settings_setting] at h
      cases he : enter o m nm with
      | none => rw [he] at h; cases h
      | some m' =>
        rw [he] at h
        simp only at h
        cases hv : value o fuel (some nm) rest' with
        | error k => rw [hv] at h; cases h
        | ok x1 r1 =>
          rw [hv] at h
          exact ih _ _ _ _ h
    | noAssign nm rest' hne =>
      rw [settings_noAssign _ _ _ _ _ hne] at h
      cases he : enter o m nm with
      | none => rw [he] at h; cases h
      | some m' => rw [he] at h; cases h
    | other _ hne =>
      rw [settings_other _ _ _ _ hne] at h
      cases h
      exact hne

/-! ### the unfolding lemmas, resolved -/

section
variable {o : Options} {fuel : Nat} {nm : Option Bytes} {rest r1 r2 : List Denote.Item}
  {x : Node} {k : ErrKind}

theorem value_arr_none (hne : ∀ r, rest ≠ .arrayEnd :: r) (hs : scalar none rest = none) :
    value o (fuel + 1) nm (.arrayStart :: rest) = .error .syntax := by
  rw [value_arr _ _ _ _ hne, hs]

theorem value_arr_err (hne : ∀ r, rest ≠ .arrayEnd :: r) (hs : scalar none rest = some (x, r1))
    (ha : arrayRest x.ty fuel [x] r1 = .error k) :
    value o (fuel + 1) nm (.arrayStart :: rest) = .error k := by
  rw [value_arr _ _ _ _ hne, hs]
  simp only
  rw [ha]

theorem value_arr_ok {elems : List Node} (hne : ∀ r, rest ≠ .arrayEnd :: r)
    (hs : scalar none rest = some (x, r1)) (ha : arrayRest x.ty fuel [x] r1 = .ok elems r2) :
    value o (fuel + 1) nm (.arrayStart :: rest) =
      .ok { name := nm, ty := T_ARRAY, kids := elems } r2 := by
  rw [value_arr _ _ _ _ hne, hs]
  simp only
  rw [ha]

theorem value_lst_err1 (hne : ∀ r, rest ≠ .listEnd :: r) (hv : value o fuel none rest = .error k) :
    value o (fuel + 1) nm (.listStart :: rest) = .error k := by
  rw [value_lst _ _ _ _ hne, hv]

theorem value_lst_err2 (hne : ∀ r, rest ≠ .listEnd :: r) (hv : value o fuel none rest = .ok x r1)
    (hl : listRest o fuel [x] r1 = .error k) :
    value o (fuel + 1) nm (.listStart :: rest) = .error k := by
  rw [value_lst _ _ _ _ hne, hv]
  simp only
  rw [hl]

theorem value_lst_ok {elems : List Node} (hne : ∀ r, rest ≠ .listEnd :: r)
    (hv : value o fuel none rest = .ok x r1) (hl : listRest o fuel [x] r1 = .ok elems r2) :
    value o (fuel + 1) nm (.listStart :: rest) =
      .ok { name := nm, ty := T_LIST, kids := elems } r2 := by
  rw [value_lst _ _ _ _ hne, hv]
  simp only
  rw [hl]

theorem value_grp_err (hs : settings o fuel [] rest = .error k) :
    value o (fuel + 1) nm (.groupStart :: rest) = .error k := by
  rw [value_grp, hs]

theorem value_grp_ok {members : List Node} (hs : settings o fuel [] rest = .ok members (.groupEnd :: r2)) :
    value o (fuel + 1) nm (.groupStart :: rest) =
      .ok { name := nm, ty := T_GROUP, kids := members } r2 := by
  rw [value_grp, hs]

theorem value_grp_bad {members : List Node} (hs : settings o fuel [] rest = .ok members r1)
    (h : ∀ r, r1 ≠ .groupEnd :: r) :
    value o (fuel + 1) nm (.groupStart :: rest) = .error .syntax := by
  rw [value_grp, hs]
  cases r1 with
  | nil => rfl
  | cons it tl =>
    cases it
    case groupEnd => exact absurd rfl (h _)
    all_goals rfl

theorem value_other_none {items : List Denote.Item} (h1 : ∀ r, items ≠ .arrayStart :: r)
    (h2 : ∀ r, items ≠ .listStart :: r) (h3 : ∀ r, items ≠ .groupStart :: r)
    (hs : scalar nm items = none) : value o (fuel + 1) nm items = .error .syntax := by
  rw [value_other _ _ _ _ h1 h2 h3, hs]

theorem value_other_some {items : List Denote.Item} (h1 : ∀ r, items ≠ .arrayStart :: r)
    (h2 : ∀ r, items ≠ .listStart :: r) (h3 : ∀ r, items ≠ .groupStart :: r)
    (hs : scalar nm items = some (x, r1)) : value o (fuel + 1) nm items = .ok x r1 := by
  rw [value_other _ _ _ _ h1 h2 h3, hs]

theorem listRest_value_err {acc : List Node} (h1 : ∀ r, rest ≠ .listEnd :: r)
    (h2 : ∀ r, rest ≠ .comma :: r) (hv : value o fuel none rest = .error k) :
    listRest o (fuel + 1) acc (.comma :: rest) = .error k := by
  rw [listRest_value _ _ _ _ h1 h2, hv]

theorem listRest_value_ok {acc : List Node} (h1 : ∀ r, rest ≠ .listEnd :: r)
    (h2 : ∀ r, rest ≠ .comma :: r) (hv : value o fuel none rest = .ok x r1) :
    listRest o (fuel + 1) acc (.comma :: rest) = listRest o fuel (acc ++ [x]) r1 := by
  rw [listRest_value _ _ _ _ h1 h2, hv]

theorem settings_setting_dup {m : List Node} {n : Bytes} (he : enter o m n = none) :
    settings o (fuel + 1) m (.name n :: rest) = .error .duplicateName := by
  rw [settings_name, he]

theorem settings_setting_err {m m' : List Node} {n : Bytes} (he : enter o m n = some m')
    (hv : value o fuel (some n) rest = .error k) :
    settings o (fuel + 1) m (.name n :: .assign :: rest) = .error k := by
  rw [settings_setting, he]
  simp only
  rw [hv]

theorem settings_setting_ok {m m' : List Node} {n : Bytes} (he : enter o m n = some m')
    (hv : value o fuel (some n) rest = .ok x r1) :
    settings o (fuel + 1) m (.name n :: .assign :: rest) =
      settings o fuel (m' ++ [x]) (skipTerminator r1) := by
  rw [settings_setting, he]
  simp only
  rw [hv]

theorem settings_noAssign_syn {m m' : List Node} {n : Bytes} (h : ∀ r, rest ≠ .assign :: r)
    (he : enter o m n = some m') :
    settings o (fuel + 1) m (.name n :: rest) = .error .syntax := by
  rw [settings_noAssign _ _ _ _ _ h, he]

end

/-! ### the fuel is never used up

Every call of the interpreter consumes an item, so any fuel above the number of items gives the
same answer: `denote`'s choice of one more than the number of tokens is as good as any. -/

theorem arrayRest_fuel (ty : Nat) : ∀ (fuel fuel' : Nat) (acc : List Node) (items : List Denote.Item),
    items.length < fuel → items.length < fuel' →
    arrayRest ty fuel acc items = arrayRest ty fuel' acc items := by
  intro fuel
  induction fuel with
  | zero => intro fuel' acc items h; exact absurd h (Nat.not_lt_zero _)
  | succ fuel ih =>
    intro fuel' acc items hf hf'
    obtain ⟨f', rfl⟩ : ∃ f', fuel' = f' + 1 := ⟨fuel' - 1, by omega⟩
    cases arrayRestView items with
    | done r' => rw [arrayRest_done, arrayRest_done]
    | comma rest' =>
      rw [arrayRest_comma, arrayRest_comma]
      simp only [List.length_cons] at hf hf'
      cases hs : scalar none rest' with
      | none => exact ih f' acc rest' (by omega) (by omega)
      | some p =>
        obtain ⟨x, r1⟩ := p
        simp only
        have := scalar_length hs
        rw [ih f' (acc ++ [x]) r1 (by omega) (by omega)]
    | other _ h1 h2 => rw [arrayRest_other _ _ _ _ h1 h2, arrayRest_other _ _ _ _ h1 h2]

theorem fuels (o : Options) : ∀ fuel : Nat,
    (∀ fuel' nm items, items.length < fuel → items.length < fuel' →
      value o fuel nm items = value o fuel' nm items) ∧
    (∀ fuel' acc items, items.length < fuel → items.length < fuel' →
      listRest o fuel acc items = listRest o fuel' acc items) ∧
    (∀ fuel' m items, items.length < fuel → items.length < fuel' →
      settings o fuel m items = settings o fuel' m items) := by
  intro fuel
  induction fuel with
  | zero =>
    exact ⟨fun _ _ _ h => absurd h (Nat.not_lt_zero _), fun _ _ _ h => absurd h (Nat.not_lt_zero _),
      fun _ _ _ h => absurd h (Nat.not_lt_zero _)⟩
  | succ fuel ih =>
    obtain ⟨ihv, ihl, ihs⟩ := ih
    refine ⟨?_, ?_, ?_⟩
    · intro fuel' nm items hf hf'
      obtain ⟨f', rfl⟩ : ∃ f', fuel' = f' + 1 := ⟨fuel' - 1, by omega⟩
      cases valueView items with
      | arrNil r => rw [value_arr_nil, value_arr_nil]
      | arr rest' hne =>
        rw [value_arr _ _ _ _ hne, value_arr _ _ _ _ hne]
        simp only [List.length_cons] at hf hf'
        cases hs : scalar none rest' with
        | none => rfl
        | some p =>
          obtain ⟨x, r1⟩ := p
          simp only
          have := scalar_length hs
          rw [arrayRest_fuel x.ty fuel f' [x] r1 (by omega) (by omega)]
      | lstNil r => rw [value_lst_nil, value_lst_nil]
      | lst rest' hne =>
        rw [value_lst _ _ _ _ hne, value_lst _ _ _ _ hne]
        simp only [List.length_cons] at hf hf'
        rw [← ihv f' none rest' (by omega) (by omega)]
        cases hv : value o fuel none rest' with
        | error k => rfl
        | ok x r1 =>
          simp only
          have := value_length hv
          rw [ihl f' [x] r1 (by omega) (by omega)]
      | grp rest' =>
        rw [value_grp, value_grp]
        simp only [List.length_cons] at hf hf'
        rw [ihs f' [] rest' (by omega) (by omega)]
      | other _ h1 h2 h3 => rw [value_other _ _ _ _ h1 h2 h3, value_other _ _ _ _ h1 h2 h3]
    · intro fuel' acc items hf hf'
      obtain ⟨f', rfl⟩ : ∃ f', fuel' = f' + 1 := ⟨fuel' - 1, by omega⟩
      cases listRestView items with
      | done r' => rw [listRest_done, listRest_done]
      | comma rest' =>
        simp only [List.length_cons] at hf hf'
        cases listRestView rest' with
        | done r' =>
          rw [listRest_skip _ _ _ _ (.inr ⟨_, rfl⟩), listRest_skip _ _ _ _ (.inr ⟨_, rfl⟩)]
          exact ihl f' acc _ (by omega) (by omega)
        | comma r' =>
          rw [listRest_skip _ _ _ _ (.inl ⟨_, rfl⟩), listRest_skip _ _ _ _ (.inl ⟨_, rfl⟩)]
          exact ihl f' acc _ (by omega) (by omega)
        | other _ h1 h2 =>
          rw [listRest_value _ _ _ _ h1 h2, listRest_value _ _ _ _ h1 h2]
          rw [← ihv f' none rest' (by omega) (by omega)]
          cases hv : value o fuel none rest' with
          | error k => rfl
          | ok x r1 =>
            simp only
            have := value_length hv
            exact ihl f' (acc ++ [x]) r1 (by omega) (by omega)
      | other _ h1 h2 => rw [listRest_other _ _ _ _ h1 h2, listRest_other _ _ _ _ h1 h2]
    · intro fuel' m items hf hf'
      obtain ⟨f', rfl⟩ : ∃ f', fuel' = f' + 1 := ⟨fuel' - 1, by omega⟩
      cases settingsView items with
      | setting nm rest' =>
        rw [settings_setting, settings_setting]
        simp only [List.length_cons] at hf hf'
        cases he : enter o m nm with
        | none => rfl
        | some m' =>
          simp only
          rw [← ihv f' (some nm) rest' (by omega) (by omega)]
          cases hv : value o fuel (some nm) rest' with
          | error k => rfl
          | ok x r1 =>
            simp only
            have h1 := value_length hv
            have h2 := skipTerminator_length r1
            exact ihs f' (m' ++ [x]) _ (by omega) (by omega)
      | noAssign nm rest' hne =>
        rw [settings_noAssign _ _ _ _ _ hne, settings_noAssign _ _ _ _ _ hne]
      | other _ hne => rw [settings_other _ _ _ _ hne, settings_other _ _ _ _ hne]

/-- any fuel above the number of items gives the answer of `denote`'s fuel -/
theorem settings_fuel (o : Options) (fuel : Nat) (m : List Node) (items : List Denote.Item)
    (h : items.length < fuel) :
    settings o fuel m items = settings o (items.length + 1) m items :=
  (fuels o fuel).2.2 _ m items h (Nat.lt_succ_self _)

end Libconfig.C02D
