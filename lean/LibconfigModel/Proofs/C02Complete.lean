import LibconfigModel.Proofs.C02CompleteStatic
import LibconfigModel.Proofs.C02
/-
  C02 completeness, dynamic part: `yyparseLoop` follows a given derivation tree of its input and
  therefore never takes the `syntaxError` branch.

  * `tree_first`/`list_first`: the `nullable`/`first` tables over-approximate valid trees;
  * `shift_step`/`reduce_step`: one iteration (`bodyK`) when the tables shift / reduce on the next kind;
  * `tree_run`/`kids_run` (mutual, by recursion on the tree, in continuation-passing form so that
    no fuel arithmetic is needed): started in a state containing `[B → . γ, b]` in front of the
    yield of a `B`-node followed by `b`, the loop ends without a syntax error or reaches the goto
    target on `B` in front of `b`;
  * `yyparse_complete`: the whole parse, for any environment whose tables pass `certOK`;
  * `complete_theEnv`: the instance for the compiled tables, scanner and actions.
-/
namespace Libconfig.C02C
open Libconfig Grammar C02P C05P

/-! ### `nullable` and `first` over-approximate what valid trees do -/

theorem firstS_term {X : Nat} (h : X < 23) : firstS X = [X] := by
  unfold firstS
  have hb : Nat.blt X 23 = true := Nat.ble_eq_true_of_le h
  rw [if_pos hb]

mutual
theorem tree_first {P : LalrTables} {C : Cert} (F : CFacts P C) :
    (t : Tree) → t.Valid →
      (t.yield = [] → nullableS t.sym = true) ∧ (∀ c rest, t.yield = c :: rest → c ∈ firstS t.sym)
  | .leaf k, hv => by
    rw [Tree.Valid] at hv
    have hk : k < 23 := by simpa [isTerminal] using hv
    rw [yield_leaf]
    refine ⟨fun h => (by cases h), ?_⟩
    intro c rest h
    cases h
    rw [Tree.sym, firstS_term hk]
    exact List.mem_singleton.mpr rfl
  | .node r kids, hv => by
    rw [Tree.Valid] at hv
    obtain ⟨h1, h2, hsyms, hvl⟩ := hv
    have ih := list_first F kids hvl
    rw [yield_node]
    refine ⟨?_, ?_⟩
    · intro h
      have := ih.1 h
      rw [hsyms] at this
      exact F.null r h1 h2 this
    · intro c rest h
      have := ih.2 [] [] c rest (fun c' rest' h' => by cases h') (by rw [List.append_nil]; exact h)
      rw [hsyms] at this
      exact F.first r h1 h2 c this
theorem list_first {P : LalrTables} {C : Cert} (F : CFacts P C) :
    (ks : List Tree) → ValidList ks →
      (yieldList ks = [] → (ks.map Tree.sym).all nullableS = true) ∧
      (∀ la tl c rest, (∀ c' rest', tl = c' :: rest' → c' ∈ la) → yieldList ks ++ tl = c :: rest →
        c ∈ firstSeq (ks.map Tree.sym) la)
  | [], _ => by
    refine ⟨fun _ => rfl, ?_⟩
    intro la tl c rest htl h
    rw [yieldList, List.nil_append] at h
    exact htl c rest h
  | t :: ts, hv => by
    rw [ValidList] at hv
    have iht := tree_first F t hv.1
    have ihs := list_first F ts hv.2
    rw [yieldList]
    refine ⟨?_, ?_⟩
    · intro h
      rw [List.append_eq_nil_iff] at h
      rw [List.map_cons, List.all_cons, iht.1 h.1, ihs.1 h.2]
      rfl
    · intro la tl c rest htl h
      rw [List.map_cons, firstSeq, List.mem_append]
      cases hy : t.yield with
      | nil =>
        rw [hy, List.nil_append] at h
        right
        rw [if_pos (iht.1 hy)]
        exact ihs.2 la tl c rest htl h
      | cons c' rest' =>
        rw [hy, List.cons_append, List.cons_append] at h
        left
        have hc : c' = c := by injection h
        rw [← hc]
        exact iht.2 c' rest' hy
end

/-! ### the remaining input -/

/-- the kinds (including the final end marker) that the scanner will deliver from `sc` on start
with the list `ks` (the empty list says nothing) -/
inductive LexK (E : ParserEnv) : ScanState → List Nat → Prop where
  | nil (sc : ScanState) : LexK E sc []
  | eof (sc sc' : ScanState) : yylex E.T E.sacts E.w E.ic E.lexFuel sc = (sc', .eof) → LexK E sc [0]
  | tok (sc sc' : ScanState) (t : Nat) (v : TokVal) (ks : List Nat) :
      yylex E.T E.sacts E.w E.ic E.lexFuel sc = (sc', .tok t v) → LexK E sc' ks →
      LexK E sc (translateTok E.P t :: ks)

/-- the kinds still to be consumed, given the lookahead -/
def Inp (E : ParserEnv) (la : Lookahead) (sc : ScanState) (ks : List Nat) : Prop :=
  match la with
  | none => LexK E sc ks
  | some (t, _) => ∃ ks', ks = translateTok E.P t :: ks' ∧ LexK E sc ks'

/-- the outcome "syntax error" -/
def Bad (o : POut) : Prop := o.2.2 = .abort ∧ o.2.1.cfg.errText = some Generated.ERR_SYNTAX

/-- no syntax error has been recorded -/
def NoSyn (ctx : ParseCtx) : Prop := ctx.cfg.errText ≠ some Generated.ERR_SYNTAX

theorem translateTok_zero (P : LalrTables) : translateTok P 0 = 0 := by
  unfold translateTok
  rfl

theorem fetch_inp {E : ParserEnv} {la : Lookahead} {sc : ScanState} {ctx : ParseCtx} {k : Nat}
    {ks : List Nat} (h : Inp E la sc (k :: ks)) :
    ∃ sc' t v, fetchK E la sc ctx = (sc', some (t, v), none, ctx) ∧ translateTok E.P t = k ∧
      LexK E sc' ks := by
  cases la with
  | some l =>
    obtain ⟨t, v⟩ := l
    obtain ⟨ks', h1, h2⟩ := h
    injection h1 with h3 h4
    subst h4
    exact ⟨sc, t, v, rfl, h3.symm, h2⟩
  | none =>
    unfold Inp at h
    simp only at h
    unfold fetchK
    simp only
    cases h with
    | eof _ sc' hy =>
      rw [hy]
      exact ⟨sc', 0, {}, rfl, translateTok_zero _, LexK.nil _⟩
    | tok _ sc' t v _ hy hl =>
      rw [hy]
      exact ⟨sc', t, v, rfl, rfl, hl⟩

/-! ### semantic actions never record the text "syntax error" -/

theorem yyerror_noSyn {ctx : ParseCtx} (h : NoSyn ctx) (l : Nat) {t : Bytes}
    (ht : t ≠ Generated.ERR_SYNTAX) : NoSyn (ctx.yyerror l t) := by
  unfold ParseCtx.yyerror
  split
  · exact h
  · intro h'
    injection h' with h'
    exact ht h'

theorem actAggStart_noSyn (ctx : ParseCtx) (ty l : Nat) (f : Option Bytes) (h : NoSyn ctx) :
    NoSyn (ActOut.ctx (actAggStart ctx ty l f)) := by
  unfold actAggStart
  repeat' split
  all_goals exact h

theorem actValue_noSyn (ctx : ParseCtx) (setter : Node → Option Node) (ty : Nat) (fmt : Option Nat)
    (l : Nat) (f : Option Bytes) (e : Bytes) (he : e ≠ Generated.ERR_SYNTAX) (h : NoSyn ctx) :
    NoSyn (ActOut.ctx (actValue ctx setter ty fmt l f e)) := by
  unfold actValue
  repeat' split
  all_goals first | exact h | exact yyerror_noSyn h _ he

theorem runAction_noSyn (act : ParseAct) (ctx : ParseCtx) (v : TokVal) (l : Nat) (f : Option Bytes)
    (h : NoSyn ctx) : NoSyn (ActOut.ctx (runAction act ctx v l f)) := by
  have h1 : Generated.ERR_DUPLICATE_SETTING ≠ Generated.ERR_SYNTAX := by decide
  have h2 : Generated.ERR_ARRAY_ELEM_TYPE ≠ Generated.ERR_SYNTAX := by decide
  cases act <;> simp only [runAction]
  case settingName =>
    repeat' split
    all_goals first | exact h | exact yyerror_noSyn (ctx := { ctx with setting := none }) h _ h1
  case aggEnd =>
    repeat' split
    all_goals exact h
  all_goals first
    | exact h
    | exact actAggStart_noSyn _ _ _ _ h
    | exact actValue_noSyn _ _ _ _ _ _ _ h2 h
    | exact actValue_noSyn { ctx with str := none } _ _ _ _ _ _ h2 h

/-! ### single iterations -/

theorem actAt_ninf {P : LalrTables} {s k : Nat} (h : (P.pact.get s == P.pactNinf) = true) :
    actAt P s k = none := by
  unfold actAt
  simp only [h, if_true]

theorem actAt_guard {P : LalrTables} {s k : Nat} (hp : ¬ (P.pact.get s == P.pactNinf) = true)
    (hg : (P.pact.get s + ↑k < 0 || P.pact.get s + ↑k > ↑P.last ||
      P.check.get (P.pact.get s + ↑k).toNat != ↑k) = true) : actAt P s k = none := by
  unfold actAt
  simp only
  rw [if_neg hp, if_pos hg]

theorem actAt_entry {P : LalrTables} {s k : Nat} (hp : ¬ (P.pact.get s == P.pactNinf) = true)
    (hg : ¬ (P.pact.get s + ↑k < 0 || P.pact.get s + ↑k > ↑P.last ||
      P.check.get (P.pact.get s + ↑k).toNat != ↑k) = true) :
    actAt P s k = some (P.table.get (P.pact.get s + ↑k).toNat) := by
  unfold actAt
  simp only
  rw [if_neg hp, if_neg hg]

/-- the tables shift the next kind: one iteration pushes the target state -/
theorem shift_step {E : ParserEnv} {rec : PRec} {s : Nat} {v0 : TokVal} {rest : List (Nat × TokVal)}
    {la : Lookahead} {sc : ScanState} {ctx : ParseCtx} {k : Nat} {ks : List Nat} {q : Int}
    (hact : actAt E.P s k = some q) (hq : 0 < q) (hinp : Inp E la sc (k :: ks))
    (hk : ∀ v sc', LexK E sc' ks → ¬ Bad (rec ((q.toNat, v) :: (s, v0) :: rest) none sc' ctx)) :
    ¬ Bad (bodyK E rec ((s, v0) :: rest) la sc ctx) := by
  rw [bodyK_cons]
  split
  · intro hb; cases hb.1
  split
  · intro hb; cases hb.1
  split
  · rename_i hp
    rw [actAt_ninf hp] at hact
    cases hact
  rename_i hp
  obtain ⟨sc', t, v, hf, ht, hl⟩ := fetch_inp (ctx := ctx) hinp
  rw [hf]
  simp only
  unfold actK
  simp only
  rw [ht]
  split
  · rename_i hg
    rw [actAt_guard hp hg] at hact
    cases hact
  · rename_i hg
    rw [actAt_entry hp hg] at hact
    injection hact with hact
    rw [hact]
    rw [if_neg (by omega)]
    exact hk v sc' hl

/-- `yyreduce` by a rule whose handle is `pushed` -/
theorem reduceK_step {E : ParserEnv} {rec : PRec} {pushed stk' : List (Nat × TokVal)} {p : Nat}
    {vp : TokVal} {rest' : List (Nat × TokVal)} (hstk' : stk' = (p, vp) :: rest')
    {la : Lookahead} {sc : ScanState} {ctx : ParseCtx} {r : Nat}
    (hlen : (E.P.r2.get r).toNat = pushed.length) (hns : NoSyn ctx)
    (hk : ∀ v' ctx', NoSyn ctx' →
      ¬ Bad (rec ((gotoTo E.P p (E.P.r1.get r).toNat, v') :: stk') la sc ctx')) :
    ¬ Bad (reduceK E rec (pushed ++ stk') r la sc ctx) := by
  unfold reduceK
  simp only
  have ha := runAction_noSyn (E.acts.getD r .unknown) ctx ((pushed ++ stk').headD (0, {})).2
    sc.buf.lineno sc.currentFilename hns
  split
  · rename_i ctx' heq
    rw [heq] at ha
    intro hb
    exact ha hb.2
  · intro hb; cases hb.1
  · rename_i ctx' heq
    rw [heq] at ha
    rw [hlen, List.drop_left]
    subst hstk'
    exact hk _ _ ha

theorem dfltK_step {E : ParserEnv} {rec : PRec} {pushed stk' : List (Nat × TokVal)} {p : Nat}
    {vp : TokVal} {rest' : List (Nat × TokVal)} (hstk' : stk' = (p, vp) :: rest')
    {la : Lookahead} {sc : ScanState} {ctx : ParseCtx} {s r : Nat}
    (hr : r ≠ 0) (hdef : (E.P.defact.get s).toNat = r)
    (hlen : (E.P.r2.get r).toNat = pushed.length) (hns : NoSyn ctx)
    (hk : ∀ v' ctx', NoSyn ctx' →
      ¬ Bad (rec ((gotoTo E.P p (E.P.r1.get r).toNat, v') :: stk') la sc ctx')) :
    ¬ Bad (dfltK E rec (pushed ++ stk') s la sc ctx) := by
  unfold dfltK
  simp only
  rw [hdef, if_neg (by simpa using hr)]
  exact reduceK_step hstk' hlen hns hk

/-- the tables reduce by `r` on the next kind: one iteration pops the handle and pushes the
goto target -/
theorem reduce_step {E : ParserEnv} {rec : PRec} {pushed stk' : List (Nat × TokVal)} {s p : Nat}
    {v0 vp : TokVal} {rest rest' : List (Nat × TokVal)}
    (hstk : pushed ++ stk' = (s, v0) :: rest) (hstk' : stk' = (p, vp) :: rest')
    {la : Lookahead} {sc : ScanState} {ctx : ParseCtx} {k : Nat} {ks : List Nat} {r : Nat}
    (hred : redOK E.P s k r = true) (hlen : (E.P.r2.get r).toNat = pushed.length)
    (hinp : Inp E la sc (k :: ks)) (hns : NoSyn ctx)
    (hk : ∀ v' la' sc' ctx', Inp E la' sc' (k :: ks) → NoSyn ctx' →
      ¬ Bad (rec ((gotoTo E.P p (E.P.r1.get r).toNat, v') :: stk') la' sc' ctx')) :
    ¬ Bad (bodyK E rec (pushed ++ stk') la sc ctx) := by
  unfold redOK at hred
  simp only [Bool.and_eq_true] at hred
  obtain ⟨hr0, hred⟩ := hred
  have hr0 : r ≠ 0 := not_beq hr0
  rw [hstk, bodyK_cons, ← hstk]
  split
  · intro hb; cases hb.1
  split
  · intro hb; cases hb.1
  split
  · rename_i hp
    rw [actAt_ninf hp] at hred
    simp only at hred
    exact dfltK_step hstk' hr0 (Nat.eq_of_beq_eq_true hred) hlen hns
      (fun v' ctx' h' => hk v' la sc ctx' hinp h')
  rename_i hp
  obtain ⟨sc', t, v, hf, ht, hl⟩ := fetch_inp (ctx := ctx) hinp
  have hinp' : Inp E (some (t, v)) sc' (k :: ks) := ⟨ks, by rw [ht], hl⟩
  rw [hf]
  simp only
  unfold actK
  simp only
  rw [ht]
  split
  · rename_i hg
    rw [actAt_guard hp hg] at hred
    simp only at hred
    exact dfltK_step hstk' hr0 (Nat.eq_of_beq_eq_true hred) hlen hns
      (fun v' ctx' h' => hk v' _ sc' ctx' hinp' h')
  · rename_i hg
    rw [actAt_entry hp hg] at hred
    simp only [Bool.and_eq_true, decide_eq_true_eq] at hred
    obtain ⟨⟨hle, hninf⟩, hrule⟩ := hred
    rw [if_pos hle, if_neg (by simpa using hninf), Nat.eq_of_beq_eq_true hrule]
    exact reduceK_step hstk' hlen hns (fun v' ctx' h' => hk v' _ sc' ctx' hinp' h')

/-! ### following the tree -/

def topSt (stk : List (Nat × TokVal)) : Nat := (stk.headD (0, {})).1

theorem loop_zero (E : ParserEnv) (stk : List (Nat × TokVal)) (la : Lookahead) (sc : ScanState)
    (ctx : ParseCtx) : ¬ Bad (yyparseLoop E 0 stk la sc ctx) := by
  intro hb
  rw [yyparseLoop] at hb
  cases hb.1

theorem loop_succ (E : ParserEnv) (fuel : Nat) :
    yyparseLoop E (fuel + 1) = bodyK E (yyparseLoop E fuel) := by
  funext stack la s ctx
  exact yyparseLoop_succ E fuel stack la s ctx

/-- what `tree_run` says about a tree: started below an inner node `B → γ` in a state that
contains `[B → . γ, b]`, with the yield of the node followed by `b` ahead, the loop either ends
without a syntax error or arrives — having pushed the goto target on `B` — in front of `b` -/
def TreeRun (E : ParserEnv) (C : Cert) : Tree → Prop
  | .leaf _ => True
  | .node r kids => r ≠ 1 →
    ∀ (fuel s : Nat) (v0 : TokVal) (rest : List (Nat × TokVal)) (la : Lookahead) (sc : ScanState)
      (ctx : ParseCtx) (b : Nat) (restk : List Nat),
      HasItem C s r 0 b → Inp E la sc (yieldList kids ++ b :: restk) → NoSyn ctx →
      (∀ fuel' v' la' sc' ctx', Inp E la' sc' (b :: restk) → NoSyn ctx' →
        ¬ Bad (yyparseLoop E fuel' ((gotoTo E.P s (lhsOf r), v') :: (s, v0) :: rest) la' sc' ctx')) →
      ¬ Bad (yyparseLoop E fuel ((s, v0) :: rest) la sc ctx)

theorem cons_of_append {pushed stk' : List (Nat × TokVal)} {p : Nat} {vp : TokVal}
    {rest' : List (Nat × TokVal)} (h : stk' = (p, vp) :: rest') :
    ∃ s v0 rest, pushed ++ stk' = (s, v0) :: rest := by
  subst h
  cases pushed with
  | nil => exact ⟨p, vp, rest', rfl⟩
  | cons x xs => exact ⟨x.1, x.2, xs ++ (p, vp) :: rest', rfl⟩

mutual
theorem tree_run {E : ParserEnv} {C : Cert} (F : CFacts E.P C) :
    (t : Tree) → t.Valid → TreeRun E C t
  | .leaf _, _ => trivial
  | .node r kids, hv => by
    rw [Tree.Valid] at hv
    obtain ⟨h1, h2, hsyms, hvl⟩ := hv
    rw [TreeRun]
    intro hr1 fuel s v0 rest la sc ctx b restk hitem hinp hns hk
    refine kids_run F kids hvl r 0 h1 h2 (by rw [hsyms]; rfl) (Nat.zero_le _) fuel []
      ((s, v0) :: rest) s v0 rest rfl rfl la sc ctx b restk hitem hinp hns ?_
    intro fuel' pushed' la' sc' ctx' hlen hitem' hinp' hns'
    cases fuel' with
    | zero => exact loop_zero _ _ _ _ _
    | succ fuel' =>
      rw [loop_succ]
      obtain ⟨s1, v1, rest1, hst⟩ := cons_of_append (pushed := pushed') (rfl : (s, v0) :: rest = _)
      have htop : topSt (pushed' ++ (s, v0) :: rest) = s1 := by rw [hst]; rfl
      rw [htop] at hitem'
      have hred := F.reduce s1 r _ b hitem' List.drop_length hr1
      refine reduce_step hst rfl hred (by rw [F.r2 r h1 h2, hlen]) hinp' hns' ?_
      intro v' la'' sc'' ctx'' hi hn
      rw [F.r1 r h1 h2]
      exact hk _ v' la'' sc'' ctx'' hi hn
theorem kids_run {E : ParserEnv} {C : Cert} (F : CFacts E.P C) :
    (ks : List Tree) → ValidList ks → ∀ (r d : Nat), 1 ≤ r → r < rules.length →
      ks.map Tree.sym = (rhsOf r).drop d → d ≤ (rhsOf r).length →
      ∀ (fuel : Nat) (pushed stk' : List (Nat × TokVal)) (p : Nat) (vp : TokVal)
        (rest' : List (Nat × TokVal)), stk' = (p, vp) :: rest' → pushed.length = d →
      ∀ (la : Lookahead) (sc : ScanState) (ctx : ParseCtx) (b : Nat) (restk : List Nat),
        HasItem C (topSt (pushed ++ stk')) r d b → Inp E la sc (yieldList ks ++ b :: restk) →
        NoSyn ctx →
        (∀ fuel' pushed' la' sc' ctx', pushed'.length = (rhsOf r).length →
          HasItem C (topSt (pushed' ++ stk')) r (rhsOf r).length b → Inp E la' sc' (b :: restk) →
          NoSyn ctx' → ¬ Bad (yyparseLoop E fuel' (pushed' ++ stk') la' sc' ctx')) →
        ¬ Bad (yyparseLoop E fuel (pushed ++ stk') la sc ctx)
  | [], _ => by
    intro r d h1 h2 hsyms hd fuel pushed stk' p vp rest' hstk' hlen la sc ctx b restk hitem hinp hns hk
    have hd' : d = (rhsOf r).length := by
      have := List.drop_eq_nil_iff.mp hsyms.symm
      omega
    subst hd'
    rw [yieldList, List.nil_append] at hinp
    exact hk fuel pushed la sc ctx hlen hitem hinp hns
  | k :: ks', hv => by
    intro r d h1 h2 hsyms hd fuel pushed stk' p vp rest' hstk' hlen la sc ctx b restk hitem hinp hns hk
    rw [ValidList] at hv
    obtain ⟨hvk, hvs⟩ := hv
    rw [List.map_cons] at hsyms
    have hdrop : (rhsOf r).drop d = k.sym :: ks'.map Tree.sym := hsyms.symm
    have hdlt : d < (rhsOf r).length := by
      apply Classical.byContradiction
      intro hn
      rw [List.drop_eq_nil_iff.mpr (Nat.le_of_not_lt hn)] at hdrop
      cases hdrop
    have hsyms' : ks'.map Tree.sym = (rhsOf r).drop (d + 1) := by
      rw [List.drop_add_one_eq_tail_drop, hdrop]; rfl
    obtain ⟨s, v0, rest, hst⟩ := cons_of_append (pushed := pushed) hstk'
    have htop : topSt (pushed ++ stk') = s := by rw [hst]; rfl
    rw [htop] at hitem
    rw [yieldList, List.append_assoc] at hinp
    cases fuel with
    | zero => exact loop_zero _ _ _ _ _
    | succ fuel =>
    match k, hvk, hdrop, hinp with
    | .leaf X, hvk, hdrop, hinp =>
      rw [Tree.Valid] at hvk
      have hX : X < 23 := by simpa [isTerminal] using hvk
      rw [Tree.sym] at hdrop
      rw [yield_leaf, List.singleton_append] at hinp
      obtain ⟨q, hact, hq, hitem'⟩ := F.shift s r d b X _ hitem hdrop hX
      rw [loop_succ, hst]
      refine shift_step hact hq hinp ?_
      intro v sc' hl
      rw [← hst]
      exact kids_run F ks' hvs r (d + 1) h1 h2 hsyms' hdlt fuel ((q.toNat, v) :: pushed) stk' p vp
        rest' hstk' (by rw [List.length_cons, hlen]) none sc' ctx b restk hitem' hl hns hk
    | .node r' kids', hvk, hdrop, hinp =>
      have ihk := tree_run F (.node r' kids') hvk
      rw [Tree.Valid] at hvk
      obtain ⟨h1', h2', _, _⟩ := hvk
      have hsym : (Tree.node r' kids').sym = lhsOf r' := rfl
      rw [hsym] at hdrop
      have hX : 23 ≤ lhsOf r' := F.lhs r' h1' h2'
      have hr1 : r' ≠ 1 := by
        intro h
        subst h
        have hm : lhsOf 1 ∈ (rhsOf r).drop d := by rw [hdrop]; exact List.mem_cons_self
        exact F.rhs r h2 (List.mem_of_mem_drop hm)
      rw [yield_node] at hinp
      cases hrem : yieldList ks' ++ b :: restk with
      | nil => simp at hrem
      | cons b' restk' =>
        rw [hrem] at hinp
        have hb' : b' ∈ firstSeq (ks'.map Tree.sym) [b] :=
          (list_first F ks' hvs).2 [b] (b :: restk) b' restk'
            (fun c' rest'' h => by injection h with h3 _; rw [← h3]; exact List.mem_singleton.mpr rfl)
            hrem
        have hitem' := F.closure s r d b _ _ hitem hdrop hX r' h1' h2' rfl b' hb'
        rw [TreeRun] at ihk
        rw [hst]
        refine ihk hr1 (fuel + 1) s v0 rest la sc ctx b' restk' hitem' hinp hns ?_
        intro fuel' v' la' sc' ctx' hi hn
        rw [← hst]
        rw [← hrem] at hi
        exact kids_run F ks' hvs r (d + 1) h1 h2 hsyms' hdlt fuel'
          ((gotoTo E.P s (lhsOf r'), v') :: pushed) stk' p vp rest' hstk'
          (by rw [List.length_cons, hlen]) la' sc' ctx' b restk
          (F.goto s r d b _ _ hitem hdrop hX) hi hn hk
end

/-! ### the whole parse -/

/-- completeness of `yyparse` for any environment whose tables pass the completeness check: if
the scanner delivers the kinds `ks` and then the end marker, and `ks` is derivable, the loop
never takes the `syntaxError` branch -/
theorem yyparse_complete {E : ParserEnv} {C : Cert} (F : CFacts E.P C) (fuel : Nat)
    (s₀ : ScanState) (ctx₀ : ParseCtx) (ks : List Nat) (hlex : LexK E s₀ (ks ++ [0]))
    (hder : Derivable ks) (h0 : NoSyn ctx₀) : ¬ Bad (yyparse E fuel s₀ ctx₀) := by
  obtain ⟨t, hv, hsym, hy⟩ := hder
  match t, hv, hsym, hy with
  | .leaf k, hv, hsym, _ =>
    rw [Tree.Valid] at hv
    rw [Tree.sym] at hsym
    subst hsym
    cases hv
  | .node r kids, hv, hsym, hy =>
    have ih := tree_run F (.node r kids) hv
    rw [Tree.Valid] at hv
    obtain ⟨h1, h2, _, _⟩ := hv
    have hsym : lhsOf r = configuration := hsym
    have hr1 : r ≠ 1 := by
      intro h
      subst h
      cases hsym
    rw [yield_node] at hy
    have hitem : HasItem C 0 r 0 0 :=
      F.closure 0 1 0 0 configuration [0] F.init rfl (by decide) r h1 h2 hsym 0 (by decide)
    rw [TreeRun] at ih
    unfold yyparse
    refine ih hr1 fuel 0 {} [] none s₀ ctx₀ 0 [] hitem (by rw [hy]; exact hlex) h0 ?_
    intro fuel' v' la' sc' ctx' hi hn
    rw [hsym]
    cases fuel' with
    | zero => exact loop_zero _ _ _ _ _
    | succ fuel' =>
      obtain ⟨q, hact, hq, hfin⟩ := F.accept
      rw [loop_succ]
      refine shift_step hact hq hi ?_
      intro v sc'' _
      cases fuel' with
      | zero => exact loop_zero _ _ _ _ _
      | succ fuel' =>
        rw [loop_succ, bodyK_cons]
        split
        · intro hb; cases hb.1
        split
        · intro hb; cases hb.1
        · rename_i hne
          rw [hfin] at hne
          simp at hne

/-! ### terminals of derivable sequences -/

mutual
theorem yield_rhs : (t : Tree) → t.Valid →
    ∀ k ∈ t.yield, t = .leaf k ∨ ∃ r, r < rules.length ∧ k ∈ rhsOf r
  | .leaf k, _ => by
    intro k' hk'
    rw [yield_leaf, List.mem_singleton] at hk'
    rw [hk']
    exact Or.inl rfl
  | .node r kids, hv => by
    intro k hk
    rw [Tree.Valid] at hv
    obtain ⟨_, h2, hsyms, hvl⟩ := hv
    rw [yield_node] at hk
    right
    rcases yieldList_rhs kids hvl k hk with h | h
    · rw [hsyms] at h
      exact ⟨r, h2, h⟩
    · exact h
theorem yieldList_rhs : (ks : List Tree) → ValidList ks →
    ∀ k ∈ yieldList ks, k ∈ ks.map Tree.sym ∨ ∃ r, r < rules.length ∧ k ∈ rhsOf r
  | [], _ => by
    intro k hk
    rw [yieldList] at hk
    cases hk
  | t :: ts, hv => by
    intro k hk
    rw [ValidList] at hv
    rw [yieldList, List.mem_append] at hk
    rcases hk with hk | hk
    · rcases yield_rhs t hv.1 k hk with h | h
      · left
        rw [h, List.map_cons, Tree.sym]
        exact List.mem_cons_self
      · exact Or.inr h
    · rcases yieldList_rhs ts hv.2 k hk with h | h
      · left
        rw [List.map_cons]
        exact List.mem_cons_of_mem _ h
      · exact Or.inr h
end

/-- the kind of the `error` token (22) occurs in no rule -/
def noErrB : Bool := allBelow rules.length fun r => !(memB (rhsOf r) 22)

theorem derivable_no22 {ks : List Nat} (h : Derivable ks) : 22 ∉ ks := by
  obtain ⟨t, hv, hsym, hy⟩ := h
  intro hmem
  rw [← hy] at hmem
  rcases yield_rhs t hv 22 hmem with h | ⟨r, h2, hr⟩
  · subst h
    cases hsym
  · have h3 : noErrB = true := by decide
    have := allBelow_spec h3 r h2
    rw [memB_iff.mpr hr] at this
    cases this

/-! ### include errors are handed over as the `error` token -/

def actInclOK (P : LalrTables) : ScanAct → Bool
  | .includeDirective e => Nat.beq (translateTok P e) 22
  | _ => true

def outIncl (P : LalrTables) : LexOut → Prop
  | .includeError t _ _ _ => translateTok P t = 22
  | _ => True

theorem yylex_outIncl (P : LalrTables) (T : FlexTables) (acts : List ScanAct) (w : World)
    (ic : IncludeCfg) (hacts : ∀ rule, actInclOK P (acts.getD rule .unknown) = true)
    (herr : translateTok P Generated.tokens.error = 22) :
    ∀ (fuel : Nat) (s : ScanState), outIncl P (yylex T acts w ic fuel s).2 := by
  intro fuel
  induction fuel with
  | zero => intro s; rw [yylex]; trivial
  | succ fuel ih =>
    intro s
    rw [yylex]
    split
    · split
      · trivial
      · split
        split
        · exact ih _
        · split
          · exact herr
          · exact ih _
    · rename_i rule len hnext
      extract_lets text lineno bol s'
      clear_value s'
      have ha := hacts rule
      split
      all_goals try exact ih _
      all_goals try trivial
      · rename_i path s2 _ errTok heq
        rw [heq] at ha
        have he : translateTok P errTok = 22 := Nat.eq_of_beq_eq_true ha
        clear_value s2 path
        split
        · exact he
        split
        · exact he
        · exact ih _
        · exact ih _
        · extract_lets s1
          split
          split
          · exact ih _
          · exact he

/-- include errors carry a token of kind 22 -/
def InclKind (E : ParserEnv) : Prop :=
  ∀ s s₁ t text file line,
    yylex E.T E.sacts E.w E.ic E.lexFuel s = (s₁, .includeError t text file line) →
      translateTok E.P t = 22

theorem scanActions_incl : Generated.scanActions.all (actInclOK Generated.parser) = true := by
  decide +kernel

theorem inclKind_theEnv (w : World) (c : Config) (fuel : Nat) : InclKind (theEnv w c fuel) := by
  have hacts : ∀ rule, actInclOK Generated.parser (Generated.scanActions.getD rule .unknown) = true := by
    intro rule
    rw [List.getD_eq_getElem?_getD]
    cases hr : Generated.scanActions[rule]? with
    | none => rfl
    | some a => exact List.all_eq_true.mp scanActions_incl a (List.mem_of_getElem? hr)
  have herr : translateTok Generated.parser Generated.tokens.error = 22 := by decide +kernel
  intro s s₁ t text file line hy
  have h := yylex_outIncl Generated.parser Generated.scanner Generated.scanActions w
    { fn := c.includeFn, dir := c.includeDir } hacts herr fuel s
  have hy' : yylex Generated.scanner Generated.scanActions w { fn := c.includeFn, dir := c.includeDir }
    fuel s = (s₁, .includeError t text file line) := hy
  rw [hy'] at h
  exact h

/-- a token sequence without the `error` kind is delivered without include errors -/
theorem lexK_of_lexes {E : ParserEnv} (hincl : InclKind E) {s s' : ScanState}
    {toks : List (Nat × TokVal)} (h : Lexes E s toks s') :
    22 ∉ kinds E.P toks → LexK E s (kinds E.P toks ++ [0]) := by
  induction h with
  | eof s s' hy => intro _; exact LexK.eof _ _ hy
  | tok s s₁ s' t v rest hy _ ih =>
    intro hn
    have hn' : 22 ∉ kinds E.P rest := fun hm => hn (List.mem_cons_of_mem _ hm)
    exact LexK.tok _ _ _ _ _ hy (ih hn')
  | incl s s₁ s' t text file line rest hy _ _ =>
    intro hn
    exfalso
    apply hn
    have := hincl _ _ _ _ _ _ hy
    simp only [kinds, List.map_cons, this]
    exact List.mem_cons_self

/-- completeness for the compiled tables, the real scanner model and the real actions -/
theorem complete_theEnv (w : World) (c : Config) (fuel : Nat) (s₀ s₁ : ScanState) (ctx₀ : ParseCtx)
    (toks : List (Nat × TokVal)) (hlex : Lexes (theEnv w c fuel) s₀ toks s₁)
    (hder : Derivable (kinds Generated.parser toks)) (h0 : ctx₀.cfg.errText = none) :
    ¬ Bad (yyparse (theEnv w c fuel) fuel s₀ ctx₀) := by
  have F : CFacts (theEnv w c fuel).P cert := cfacts
  have hl := lexK_of_lexes (inclKind_theEnv w c fuel) hlex (derivable_no22 hder)
  refine yyparse_complete F fuel s₀ ctx₀ _ hl hder ?_
  intro h
  rw [h0] at h
  cases h

/-- non-vacuity of the hypothesis `Derivable`: the kinds of `a = 1;` -/
example : Derivable [NAME, EQUALS, INTEGER, SEMICOLON] :=
  ⟨.node 3 [.node 4 [.node 12 [.leaf NAME, .node 11 [], .leaf EQUALS,
      .node 17 [.node 24 [.leaf INTEGER]], .node 9 [.leaf SEMICOLON]]]],
    by simp [Tree.Valid, ValidList, Tree.sym, rules, isTerminal]; decide, rfl,
    by simp [Tree.yield, yieldList]⟩

end Libconfig.C02C
