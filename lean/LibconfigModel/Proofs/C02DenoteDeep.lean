import LibconfigModel.Proofs.C02DenoteMain
import LibconfigModel.Proofs.C01ParseDeep
/-
  C02D, why the nesting has to be bounded: for `a = ( ( … ( ) … ) );` with `d + 1` nested lists
  the reference interpreter answers with the tree of nested lists, the nesting measure is `d + 1`,
  every name is valid — and (Proofs/C01ParseDeep.lean) from `d` = 4997 on the parser answers
  "memory exhausted".
-/
namespace Libconfig.C02D
open Libconfig C01PP Denote

/-- the items of `a = ( ( … ( ) … ) );` with `d + 1` nested lists -/
def deepItems (d : Nat) : List Denote.Item :=
  .name [97] :: .assign ::
    (List.replicate (d + 1) .listStart ++ List.replicate (d + 1) .listEnd ++ [.semicolon])

theorem nestedLists_name (d : Nat) : ({ nestedLists d with name := none } : Node) = nestedLists d := by
  cases d <;> rfl

/-- a value that is `d + 1` nested lists -/
theorem value_nested (o : Options) (d : Nat) : ∀ (fuel : Nat) (nm : Option Bytes)
    (rest : List Denote.Item), d + 1 ≤ fuel →
    value o fuel nm (List.replicate (d + 1) .listStart ++ List.replicate (d + 1) .listEnd ++ rest) =
      .ok { nestedLists d with name := nm } rest := by
  induction d with
  | zero =>
    intro fuel nm rest hf
    obtain ⟨f, rfl⟩ : ∃ f, fuel = f + 1 := ⟨fuel - 1, by omega⟩
    show value o (f + 1) nm (.listStart :: .listEnd :: rest) = _
    rw [value_lst_nil]
    rfl
  | succ d ih =>
    intro fuel nm rest hf
    obtain ⟨f, rfl⟩ : ∃ f, fuel = f + 1 := ⟨fuel - 1, by omega⟩
    have e : List.replicate (d + 1 + 1) Denote.Item.listStart ++
        List.replicate (d + 1 + 1) Denote.Item.listEnd ++ rest =
        .listStart :: (List.replicate (d + 1) .listStart ++ List.replicate (d + 1) .listEnd ++
          (.listEnd :: rest)) := by
      rw [List.replicate_succ (n := d + 1), List.replicate_succ' (n := d + 1)]
      simp
    rw [e]
    have hv := ih f none (.listEnd :: rest) (by omega)
    obtain ⟨f', rfl⟩ : ∃ f', f = f' + 1 := ⟨f - 1, by omega⟩
    rw [value_lst_ok (elems := [{ nestedLists d with name := none }]) (r2 := rest) ?_ hv
      (listRest_done _ _ _ _)]
    · rw [nestedLists_name]
      rfl
    · intro r h
      rw [List.replicate_succ] at h
      cases h

/-- the interpreter reads the deep text as the tree of nested lists -/
theorem settings_deep (o : Options) (d fuel : Nat) (hf : d + 4 ≤ fuel) :
    settings o fuel [] (deepItems d) =
      .ok [{ nestedLists d with name := some [97] }] [] := by
  obtain ⟨f, rfl⟩ : ∃ f, fuel = f + 1 := ⟨fuel - 1, by omega⟩
  unfold deepItems
  have he : enter o [] [97] = some [] := rfl
  rw [settings_setting_ok he (value_nested o d f (some [97]) [.semicolon] (by omega))]
  obtain ⟨f', rfl⟩ : ∃ f', f = f' + 1 := ⟨f - 1, by omega⟩
  rw [show skipTerminator [Denote.Item.semicolon] = [] from rfl]
  rw [settings_other _ _ _ _ (fun _ _ h => by cases h)]
  rfl

theorem nesting_replicate_open (n : Nat) : ∀ (k : Nat) (tail : List Denote.Item),
    k + n ≤ nestingFrom k (List.replicate n .listStart ++ tail) := by
  induction n with
  | zero => intro k tail; exact le_nestingFrom _ _
  | succ n ih =>
    intro k tail
    rw [List.replicate_succ, List.cons_append]
    refine Nat.le_trans ?_ (nesting_open (.inr (.inl rfl)))
    have := ih (k + 1) tail
    omega

/-- its nesting measure is the number of lists -/
theorem nesting_deep (d : Nat) : d + 1 ≤ nestingFrom 0 (deepItems d) := by
  unfold deepItems
  rw [nesting_flat rfl, nesting_flat rfl, List.append_assoc]
  have := nesting_replicate_open (d + 1) 0
    (List.replicate (d + 1) Denote.Item.listEnd ++ [Denote.Item.semicolon])
  omega

section
variable (bufLen : Nat)

theorem tokSuffix_deep (d : Nat) : tokSuffix (deepConfig d) = [tSE] := by
  unfold tokSuffix
  have : (deepConfig d).opt OPT_SEMICOLON = true := by
    show optGet (OPT_SEMICOLON ||| OPT_COLON_GROUPS ||| OPT_BRACE_SEPARATE) OPT_SEMICOLON = true
    decide
  rw [if_pos this]

/-- the tokens of the written form of `deepConfig d`, as items -/
theorem items_deep (d : Nat) :
    (tokensOfConfig tk bufLen (deepConfig d)).map itemOf = deepItems d := by
  rw [tokens_deep, tokSuffix_deep]
  unfold deepItems
  simp only [List.map_cons, List.map_append, List.map_replicate, List.map_nil]
  rw [List.replicate_succ (n := d)]
  simp only [List.cons_append, List.append_assoc]
  rfl

/-- every token of the written form is one of five -/
theorem mem_tokens_deep (d : Nat) (tv : Nat × TokVal)
    (h : tv ∈ tokensOfConfig tk bufLen (deepConfig d)) :
    tv = tNAME [97] ∨ tv = tEQ ∨ tv = tLS ∨ tv = tLE ∨ tv = tSE := by
  rw [tokens_deep, tokSuffix_deep] at h
  simp only [List.mem_cons, List.mem_append, List.mem_replicate, List.not_mem_nil, or_false] at h
  rcases h with h | h | h | h | h | h
  · exact .inl h
  · exact .inr (.inl h)
  · exact .inr (.inr (.inl h))
  · exact .inr (.inr (.inl h.2))
  · exact .inr (.inr (.inr (.inl h.2)))
  · exact .inr (.inr (.inr (.inr h)))

end

end Libconfig.C02D
