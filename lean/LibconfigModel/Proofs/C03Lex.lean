import LibconfigModel.Read
import LibconfigModel.Properties.C18
import LibconfigModel.Proofs.C09
/-
  Helper lemmas for property C03, scanner half: the byte invariant of the scan
  state, "flex's default rule (ECHO) is never executed", positivity of every
  match, and the fuel bound of `yylex` for reads without readable include files.
-/
namespace Libconfig.C03P

open Libconfig

/-- every element is a byte -/
def BytesOK (b : Bytes) : Prop := ∀ x ∈ b, x < 256

/-- every readable file of the world holds bytes -/
def WorldOK (w : World) : Prop := ∀ p c, (p, some c) ∈ w.files → BytesOK c

/-- the scanner is in one of the five start conditions of scanner.l, and the current buffer
and every parent buffer on the include stack hold bytes -/
structure ScanOK (s : ScanState) : Prop where
  sc : s.sc < 5
  buf : BytesOK s.buf.rest
  parents : ∀ f ∈ s.stack, BytesOK f.parent.rest

/-- the bytes handed to the scanner by a source -/
def SourceOK : Source → Prop
  | .string s => BytesOK s
  | .stream s => BytesOK s
  | .file _ => True

abbrev lex (w : World) (ic : IncludeCfg) (fuel : Nat) (s : ScanState) : ScanState × LexOut :=
  yylex Generated.scanner Generated.scanActions w ic fuel s

/-! ### facts read off the translated tables -/

/-- where a result of the matching loop comes from: it is the backup `last`, or it was
recorded at or after `pos` (strictly after unless the state `s` itself is accepting) -/
theorem scan_spec (T : FlexTables) : ∀ (inp : Bytes) (s pos : Nat) (last : Option (Nat × Nat)) (r n : Nat),
    Flex.scan T s inp pos last = some (r, n) →
    last = some (r, n) ∨ (pos ≤ n ∧ n ≤ pos + inp.length ∧ (T.accept.getN s ≠ 0 ∨ pos < n)) := by
  intro inp
  induction inp with
  | nil =>
    intro s pos last r n h
    simp only [Flex.scan] at h
    split at h
    · rename_i hacc
      simp only [Option.some.injEq, Prod.mk.injEq] at h
      right
      refine ⟨by omega, by simp; omega, Or.inl ?_⟩
      simpa using hacc
    · exact Or.inl h
  | cons c cs ih =>
    intro s pos last r n h
    simp only [Flex.scan] at h
    have hlast' : ∀ (l' : Option (Nat × Nat)),
        l' = (if (T.accept.getN s != 0) = true then some (T.accept.getN s, pos) else last) →
        l' = some (r, n) →
        last = some (r, n) ∨ (pos ≤ n ∧ n ≤ pos + (c :: cs).length ∧ (T.accept.getN s ≠ 0 ∨ pos < n)) := by
      intro l' hl' hl
      rw [hl'] at hl
      split at hl
      · rename_i hacc
        simp only [Option.some.injEq, Prod.mk.injEq] at hl
        right
        refine ⟨by omega, by simp; omega, Or.inl ?_⟩
        simpa using hacc
      · exact Or.inl hl
    split at h
    · exact hlast' _ rfl h
    · rcases ih _ _ _ _ _ h with h1 | ⟨h1, h2, _⟩
      · exact hlast' _ rfl h1
      · right
        refine ⟨by omega, by simp only [List.length_cons]; omega, Or.inr (by omega)⟩

/-- none of the ten start states is accepting -/
theorem start_accept : ∀ sc, sc < 5 → ∀ bol : Bool,
    Generated.scanner.accept.getN (Flex.startState sc bol) = 0 := by
  decide +kernel

/-- no start state of the compiled automaton is accepting, hence every match is non-empty
(directly from the tables; no hypothesis on the input) -/
theorem next_pos (sc : Nat) (hsc : sc < 5) (bol : Bool) (inp : Bytes) (r n : Nat)
    (h : Flex.next Generated.scanner sc bol inp = some (r, n)) : 0 < n ∧ n ≤ inp.length := by
  unfold Flex.next at h
  rcases scan_spec _ _ _ _ _ _ _ h with h1 | ⟨_, h2, h3⟩
  · cases h1
  · rw [start_accept sc hsc bol] at h3
    rcases h3 with h3 | h3
    · exact absurd rfl h3
    · exact ⟨h3, by omega⟩

theorem documented_length : ScanSpec.documented.length = 48 := by decide

/-- on bytes, the rule selected is one of the 47 rules of scanner.l, never flex's default
rule 48 (from `C18_flex_never_skipped` / `C18_flex_longest_first`) -/
theorem next_rule (sc : Nat) (hsc : sc < 5) (bol : Bool) (inp : Bytes) (hb : BytesOK inp) (r n : Nat)
    (h : Flex.next Generated.scanner sc bol inp = some (r, n)) : 1 ≤ r ∧ r ≤ 47 := by
  have hne : inp ≠ [] := by
    intro he
    have := (next_pos sc hsc bol inp r n h)
    rw [he] at this
    simp at this
    omega
  obtain ⟨r', n', h', hr'⟩ := C18.C18_flex_never_skipped sc hsc bol inp hne hb
  rw [h] at h'
  cases h'
  have hsel := (C18.C18_flex_longest_first sc hsc bol inp hb r n).mp h
  obtain ⟨rule, h1, hget, _, _⟩ := hsel.matched
  have hlt : r - 1 < ScanSpec.documented.length := by
    rcases Nat.lt_or_ge (r - 1) ScanSpec.documented.length with h | h
    · exact h
    · rw [List.getElem?_eq_none h] at hget; cases hget
  rw [documented_length] at hlt
  omega

/-! ### the invariant and the absence of ECHO -/

/-- what the action of a rule of scanner.l may be: not ECHO, recognised, and `BEGIN` only to
one of the five start conditions -/
def actOK : ScanAct → Bool
  | .begin sc => decide (sc < 5)
  | .echo => false
  | .unknown => false
  | _ => true

theorem acts_ok : ∀ r, r < 48 → 1 ≤ r → actOK (Generated.scanActions.getD r .unknown) = true := by
  decide

theorem open_bytes {w : World} (hw : WorldOK w) {p c : Bytes} (h : w.open? p = some c) : BytesOK c := by
  unfold World.open? at h
  split at h
  · rename_i q content hf
    cases h
    exact hw q _ (List.mem_of_find?_eq_some hf)
  · cases h

/-- `nextIncludeFile` changes only `cur` of the innermost frame and the event log; a content
it returns was opened in the world -/
theorem nif_spec (w : World) (s : ScanState) (first : Bool) :
    (nextIncludeFile w s first).1.sc = s.sc ∧
    (nextIncludeFile w s first).1.buf = s.buf ∧
    (∀ P : Buf → Prop, (∀ f ∈ s.stack, P f.parent) → ∀ f ∈ (nextIncludeFile w s first).1.stack, P f.parent) ∧
    (∀ c, (nextIncludeFile w s first).2.1 = some c → ∃ p, w.open? p = some c) := by
  unfold nextIncludeFile
  split
  · exact ⟨rfl, rfl, fun P h => h, fun c h => by cases h⟩
  · rename_i f fs hst
    extract_lets cur ev
    have hP : ∀ P : Buf → Prop, (∀ g ∈ s.stack, P g.parent) →
        ∀ g ∈ ({ f with cur := cur } :: fs : List Frame), P g.parent := by
      intro P h g hg
      rw [hst] at h
      rcases List.mem_cons.mp hg with hg | hg
      · rw [hg]; exact h f (List.mem_cons_self)
      · exact h g (List.mem_cons_of_mem _ hg)
    split
    · exact ⟨rfl, rfl, hP, fun c h => by cases h⟩
    · split
      · rename_i content ho
        exact ⟨rfl, rfl, hP, fun c h => by cases h; exact ⟨_, ho⟩⟩
      · exact ⟨rfl, rfl, hP, fun c h => by cases h⟩

/-- the only property of the tables the induction over `yylex` uses -/
def ActsOK (T : FlexTables) (acts : List ScanAct) : Prop :=
  ∀ sc, sc < 5 → ∀ (bol : Bool) (inp : Bytes), BytesOK inp → ∀ r n,
    Flex.next T sc bol inp = some (r, n) → actOK (acts.getD r .unknown) = true

theorem gen_actsOK : ActsOK Generated.scanner Generated.scanActions := by
  intro sc hsc bol inp hb r n h
  have := next_rule sc hsc bol inp hb r n h
  exact acts_ok r (by omega) this.1

/-- the invariant and the absence of ECHO in one induction (generic in the tables) -/
theorem yylex_ok (T : FlexTables) (acts : List ScanAct) (hact : ActsOK T acts)
    (w : World) (hw : WorldOK w) (ic : IncludeCfg) :
    ∀ (fuel : Nat) (s : ScanState), ScanOK s →
      ScanOK (yylex T acts w ic fuel s).1 ∧ ∀ b, (yylex T acts w ic fuel s).2 ≠ .echo b := by
  intro fuel
  induction fuel with
  | zero => intro s h; rw [yylex]; exact ⟨h, fun b hb => by cases hb⟩
  | succ fuel ih =>
    intro s h
    rw [yylex]
    split
    · split
      · exact ⟨h, fun b hb => by cases hb⟩
      · rename_i f fs hst
        have hn := nif_spec w s false
        split
        rename_i s1 content err heq
        rw [heq] at hn; simp only at hn
        obtain ⟨hsc, hbuf, hpar, hcont⟩ := hn
        have hp1 : ∀ g ∈ s1.stack, BytesOK g.parent.rest := hpar (fun b => BytesOK b.rest) h.parents
        split
        · rename_i c
          obtain ⟨p, hp⟩ := hcont c rfl
          exact ih _ ⟨hsc ▸ h.sc, open_bytes hw hp, hp1⟩
        · split
          · exact ⟨⟨hsc ▸ h.sc, hbuf ▸ h.buf, hp1⟩, fun b hb => by cases hb⟩
          · refine ih _ ⟨hsc ▸ h.sc, ?_, ?_⟩
            · exact h.parents f (hst ▸ List.mem_cons_self)
            · intro g hg; exact h.parents g (hst ▸ List.mem_cons_of_mem _ hg)
    · rename_i rule len hnext
      have hok := hact s.sc h.sc s.buf.bol s.buf.rest h.buf rule len hnext
      extract_lets text lineno bol s' path s2
      have hs' : ScanOK s' := ⟨h.sc, fun x hx => h.buf x (List.mem_of_mem_drop hx), h.parents⟩
      have h0 : Generated.SC_INITIAL < 5 := by decide
      have hs2 : ScanOK s2 := ⟨hs'.sc, hs'.buf, hs'.parents⟩
      clear_value s' path
      split
      all_goals try (rename_i heq; rw [heq] at hok)
      all_goals try (exact absurd hok (by decide))
      all_goals try (exact ih _ hs')
      all_goals try (exact ih _ ⟨hs'.sc, hs'.buf, hs'.parents⟩)
      all_goals try (refine ⟨hs', ?_⟩; intro b hb; cases hb; done)
      case h_1 =>
        rename_i sc
        have hsc : sc < 5 := by simpa [actOK] using hok
        exact ih _ ⟨hsc, hs'.buf, hs'.parents⟩
      case h_6 =>
        refine ⟨⟨h0, hs'.buf, hs'.parents⟩, ?_⟩
        intro b hb; cases hb
      case h_7 =>
        have hini : ScanOK { s2 with sc := Generated.SC_INITIAL } := ⟨h0, hs2.buf, hs2.parents⟩
        split
        · refine ⟨hs2, ?_⟩; intro b hb; cases hb
        split
        · refine ⟨hs2, ?_⟩; intro b hb; cases hb
        · exact ih _ hini
        · exact ih _ hini
        · rename_i files hne _
          extract_lets s1
          have hn := nif_spec w s1 true
          split
          rename_i s3 content err heq
          rw [heq] at hn; simp only at hn
          obtain ⟨hsc, hbuf, hpar, hcont⟩ := hn
          have hp1 : ∀ g ∈ s1.stack, BytesOK g.parent.rest := by
            intro g hg
            rcases List.mem_cons.mp hg with hg | hg
            · rw [hg]; exact hs2.buf
            · exact hs2.parents g hg
          have hp3 : ∀ g ∈ s3.stack, BytesOK g.parent.rest := hpar (fun b => BytesOK b.rest) hp1
          split
          · rename_i c
            obtain ⟨p, hp⟩ := hcont c rfl
            exact ih _ ⟨h0, open_bytes hw hp, hp3⟩
          · refine ⟨⟨?_, ?_, hs2.parents⟩, ?_⟩
            · show s3.sc < 5
              rw [hsc]; exact hs2.sc
            · show BytesOK s3.buf.rest
              rw [hbuf]; exact hs2.buf
            · intro b hb; cases hb

theorem yylex_scanOK (w : World) (hw : WorldOK w) (ic : IncludeCfg) :
    ∀ (fuel : Nat) (s : ScanState), ScanOK s → ScanOK (lex w ic fuel s).1 := by
  exact fun fuel s h => (yylex_ok _ _ gen_actsOK w hw ic fuel s h).1

theorem yylex_no_echo (w : World) (hw : WorldOK w) (ic : IncludeCfg) :
    ∀ (fuel : Nat) (s : ScanState), ScanOK s → ∀ b, (lex w ic fuel s).2 ≠ .echo b := by
  exact fun fuel s h => (yylex_ok _ _ gen_actsOK w hw ic fuel s h).2

/-- the parser loop passes on `.echo` only from `yylex` -/
theorem yyparseLoop_no_echo (E : ParserEnv) (I : ScanState → Prop)
    (hI : ∀ s, I s → I (yylex E.T E.sacts E.w E.ic E.lexFuel s).1)
    (hE : ∀ s, I s → ∀ b, (yylex E.T E.sacts E.w E.ic E.lexFuel s).2 ≠ .echo b) :
    ∀ (fuel : Nat) (stack : List (Nat × TokVal)) (la : Lookahead) (s : ScanState) (ctx : ParseCtx),
      I s → ∀ b, (yyparseLoop E fuel stack la s ctx).2.2 ≠ .echo b := by
  intro fuel
  induction fuel with
  | zero => intro stack la s ctx h b; rw [yyparseLoop]; intro hb; cases hb
  | succ fuel ih =>
    intro stack la s ctx hs b
    rw [yyparseLoop.eq_def]
    split
    · rename_i h; cases h
    rename_i stack la s ctx _ _ _ _ _ fuel' hf
    cases hf
    extract_lets P v reduce syntaxError src fetched
    have hsyn : ∀ s c, (syntaxError s c).2.2 ≠ .echo b := fun s c hb => by cases hb
    have hred : ∀ rule la s c, I s → (reduce rule la s c).2.2 ≠ .echo b := by
      intro rule la s c h
      simp only [reduce]
      split
      · intro hb; cases hb
      · intro hb; cases hb
      · exact ih _ _ _ _ h b
    have hfetch : I fetched.1 ∧ fetched.2.2.1 ≠ some (.echo b) := by
      simp only [fetched]
      split
      · exact ⟨hs, fun hb => by cases hb⟩
      · have h1 := hI s hs
        have h2 := hE s hs
        split <;> (rename_i heq; rw [heq] at h1 h2; refine ⟨h1, ?_⟩; intro hb; cases hb)
        exact h2 _ rfl
    clear_value fetched syntaxError reduce
    split
    · intro hb; cases hb
    rename_i state v0 tail
    split
    · intro hb; cases hb
    split
    · intro hb; cases hb
    extract_lets r dflt yyn
    have hdflt : ∀ la s c, I s → (dflt la s c).2.2 ≠ .echo b := by
      intro la s c h
      simp only [dflt]
      split
      · exact hsyn _ _
      · exact hred _ _ _ _ h
    clear_value dflt
    split
    · exact hdflt _ _ _ hs
    rcases fetched with ⟨s1, la1, r1, c1⟩
    simp only at hfetch
    split
    · rename_i heq; cases heq; intro hb; exact hfetch.2 (congrArg some hb)
    · intro hb; cases hb
    · rename_i heq; cases heq
      extract_lets tok idx a
      split
      · exact hdflt _ _ _ hfetch.1
      split
      · split
        · exact hsyn _ _
        · exact hred _ _ _ _ hfetch.1
      · exact ih _ _ _ _ hfetch.1 b

theorem cstr_bytes {b : Bytes} (h : BytesOK b) : BytesOK (cstr b) :=
  fun x hx => h x ((List.takeWhile_sublist _).subset hx)

theorem readCore_no_echo (w : World) (hw : WorldOK w) (c : Config) (fn : Option Bytes) (inp : Bytes)
    (hi : BytesOK inp) (fuel : Nat) (b : Nat) : (readCore w c fn inp fuel).result ≠ .echo b := by
  rw [C09P.readCore_result]
  unfold C09P.parseOf yyparse
  exact yyparseLoop_no_echo (theEnv w _ fuel) ScanOK
    (fun s hs => yylex_scanOK w hw _ _ s hs) (fun s hs => yylex_no_echo w hw _ _ s hs)
    fuel _ _ _ _ ⟨Nat.zero_lt_succ 4, hi, fun f hf => by cases hf⟩ b

theorem read_no_echo (w : World) (hw : WorldOK w) (c : Config) (src : Source) (hs : SourceOK src)
    (fuel : Nat) (b : Nat) : (read w c src fuel).result ≠ .echo b := by
  cases src with
  | string s => exact readCore_no_echo w hw c none _ (cstr_bytes hs) fuel b
  | stream s => exact readCore_no_echo w hw c none _ hs fuel b
  | file path =>
    unfold Libconfig.read
    simp only
    split
    · intro hb; cases hb
    · rename_i content ho
      exact readCore_no_echo w hw c (some path) content (open_bytes hw ho) fuel b

/-! ### fuel: a read that opens no include file -/

/-- no path can be opened (no readable file: e.g. the empty world) -/
def NoFiles (w : World) : Prop := ∀ p, w.open? p = none

theorem nif_noFiles (w : World) (hw : NoFiles w) (s : ScanState) (first : Bool) :
    (nextIncludeFile w s first).2.1 = none := by
  cases hc : (nextIncludeFile w s first).2.1 with
  | none => rfl
  | some c =>
    obtain ⟨p, hp⟩ := (nif_spec w s first).2.2.2 c hc
    rw [hw p] at hp; cases hp

/-- every match is non-empty and within the input -/
def PosOK (T : FlexTables) : Prop :=
  ∀ sc, sc < 5 → ∀ (bol : Bool) (inp : Bytes) (r n : Nat),
    Flex.next T sc bol inp = some (r, n) → 0 < n ∧ n ≤ inp.length

theorem yylex_fuel_gen (T : FlexTables) (acts : List ScanAct) (hact : ActsOK T acts) (hpos : PosOK T)
    (w : World) (hw : NoFiles w) (ic : IncludeCfg) :
    ∀ (fuel : Nat) (s : ScanState), ScanOK s → s.stack = [] → s.buf.rest.length < fuel →
      (yylex T acts w ic fuel s).2 ≠ .outOfFuel ∧ (yylex T acts w ic fuel s).1.stack = [] ∧
      (yylex T acts w ic fuel s).1.buf.rest.length ≤ s.buf.rest.length := by
  intro fuel
  induction fuel with
  | zero => intro s _ _ h; exact absurd h (Nat.not_lt_zero _)
  | succ fuel ih =>
    intro s h hst hlen
    rw [yylex]
    split
    · split
      · exact ⟨fun hb => (by cases hb), hst, Nat.le_refl _⟩
      · rename_i f fs hst'
        rw [hst] at hst'; cases hst'
    · rename_i rule len hnext
      have hok := hact s.sc h.sc s.buf.bol s.buf.rest h.buf rule len hnext
      have hl := hpos s.sc h.sc s.buf.bol s.buf.rest rule len hnext
      extract_lets text lineno bol s' path s2
      have hs' : ScanOK s' := ⟨h.sc, fun x hx => h.buf x (List.mem_of_mem_drop hx), h.parents⟩
      have hst' : s'.stack = [] := hst
      have hle' : s'.buf.rest.length ≤ s.buf.rest.length := by
        show (s.buf.rest.drop len).length ≤ _
        rw [List.length_drop]; omega
      have hlt' : s'.buf.rest.length < fuel := by
        show (s.buf.rest.drop len).length < _
        rw [List.length_drop]; omega
      have h0 : Generated.SC_INITIAL < 5 := by decide
      have hrec : ∀ s'' : ScanState, s''.sc < 5 → s''.stack = s'.stack → s''.buf = s'.buf →
          (yylex T acts w ic fuel s'').2 ≠ .outOfFuel ∧ (yylex T acts w ic fuel s'').1.stack = [] ∧
          (yylex T acts w ic fuel s'').1.buf.rest.length ≤ s.buf.rest.length := by
        intro s'' h1 h2 h3
        have := ih s'' ⟨h1, h3 ▸ hs'.buf, h2 ▸ hs'.parents⟩ (h2.trans hst') (h3 ▸ hlt')
        refine ⟨this.1, this.2.1, Nat.le_trans this.2.2 ?_⟩
        rw [h3]; exact hle'
      have hs2 : s2.sc = s'.sc ∧ s2.stack = s'.stack ∧ s2.buf = s'.buf := ⟨rfl, rfl, rfl⟩
      clear_value s' path s2
      split
      all_goals try (rename_i heq; rw [heq] at hok)
      all_goals try (exact absurd hok (by decide))
      all_goals try (exact hrec _ hs'.sc rfl rfl)
      all_goals try (refine ⟨?_, hst', hle'⟩; intro hb; cases hb; done)
      case h_1 =>
        rename_i sc
        have hsc : sc < 5 := by simpa [actOK] using hok
        exact hrec _ hsc rfl rfl
      case h_7 =>
        obtain ⟨e1, e2, e3⟩ := hs2
        have hterm : s2.stack = [] ∧ s2.buf.rest.length ≤ s.buf.rest.length :=
          ⟨e2.trans hst', e3 ▸ hle'⟩
        split
        · refine ⟨?_, hterm.1, hterm.2⟩; intro hb; cases hb
        split
        · refine ⟨?_, hterm.1, hterm.2⟩; intro hb; cases hb
        · exact hrec _ h0 e2 e3
        · exact hrec _ h0 e2 e3
        · rename_i files hne _
          extract_lets s1
          have hn := nif_spec w s1 true
          have hnone := nif_noFiles w hw s1 true
          split
          rename_i s3 content err heq
          rw [heq] at hn hnone; simp only at hn hnone
          obtain ⟨hsc, hbuf, hpar, hcont⟩ := hn
          subst hnone
          simp only
          refine ⟨?_, hterm.1, ?_⟩
          · intro hb; cases hb
          · show s3.buf.rest.length ≤ _
            rw [hbuf]; exact hterm.2

/-- With no readable include file and an empty include stack, `yylex` called with more fuel
than there are bytes left returns a token, end of input or an include error — never
`.outOfFuel` — and leaves the stack empty and the input no longer than before. -/
theorem yylex_fuel (w : World) (hw : NoFiles w) (ic : IncludeCfg) :
    ∀ (fuel : Nat) (s : ScanState), ScanOK s → s.stack = [] → s.buf.rest.length < fuel →
      (lex w ic fuel s).2 ≠ .outOfFuel ∧ (lex w ic fuel s).1.stack = [] ∧
      (lex w ic fuel s).1.buf.rest.length ≤ s.buf.rest.length := by
  exact yylex_fuel_gen _ _ gen_actsOK (fun sc hsc bol inp r n h => next_pos sc hsc bol inp r n h) w hw ic

end Libconfig.C03P
